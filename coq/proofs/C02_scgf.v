(* C02 -- lemmas about the SCgf-2 writer / parser / well-formedness checker of model/Scgf.v *)
From Coq Require Import ZArith List Bool Lia ZifyBool String Ascii.
Import ListNotations.
Require Import SC3.model.Scgf.
Open Scope Z_scope.

Ltac Zify.zify_post_hook ::= Z.div_mod_to_equations.

(* ------------------------------------------------------------------ *)
(* small facts                                                         *)

Lemma andb_true_l : forall a b, a && b = true -> a = true.
Proof. intros a b H; apply andb_true_iff in H; tauto. Qed.
Lemma andb_true_r : forall a b, a && b = true -> b = true.
Proof. intros a b H; apply andb_true_iff in H; tauto. Qed.

Ltac split_andb :=
  repeat match goal with
         | H : _ && _ = true |- _ => apply andb_true_iff in H; destruct H
         end.

Lemma zlen_nonneg : forall {A} (l : list A), 0 <= zlen l.
Proof. intros; unfold zlen; lia. Qed.
Lemma zlen_cons : forall {A} (a : A) l, zlen (a :: l) = zlen l + 1.
Proof. intros; unfold zlen; simpl List.length; lia. Qed.
Lemma zlen_app : forall {A} (a b : list A), zlen (a ++ b) = zlen a + zlen b.
Proof. intros; unfold zlen; rewrite app_length; lia. Qed.

Lemma list_eqb_refl : forall {A} (eqb : A -> A -> bool), (forall x, eqb x x = true) ->
  forall l, list_eqb eqb l l = true.
Proof. intros A eqb Hr l; induction l as [|x l IH]; simpl; [reflexivity|]. rewrite Hr, IH; reflexivity. Qed.

Lemma list_eqb_eq : forall {A} (eqb : A -> A -> bool), (forall x y, eqb x y = true -> x = y) ->
  forall a b, list_eqb eqb a b = true -> a = b.
Proof.
  intros A eqb He a; induction a as [|x a IH]; intros [|y b] H; simpl in H; try discriminate; [reflexivity|].
  apply andb_true_iff in H; destruct H as [H1 H2]. f_equal; [apply He; exact H1 | apply IH; exact H2].
Qed.

Lemma bytes_eqb_eq : forall a b, bytes_eqb a b = true -> a = b.
Proof. apply list_eqb_eq. intros x y H; apply Z.eqb_eq; exact H. Qed.
Lemma bytes_eqb_refl : forall a, bytes_eqb a a = true.
Proof. apply list_eqb_refl. apply Z.eqb_refl. Qed.

(* ------------------------------------------------------------------ *)
(* primitive fields: reading what was written                          *)

Lemma rd_i8_rt : forall v r, i8_ok v = true -> rd_i8 (enc_i8 v ++ r) = Ok (v, r).
Proof.
  intros v r H. unfold i8_ok in H. split_andb.
  unfold rd_i8, enc_i8, pbind, rd_u8, pret, sgn. simpl.
  f_equal. f_equal. destruct (Z.ltb_spec (v mod 256) (256 / 2)); lia.
Qed.

Lemma rd_i16_rt : forall v r, i16_ok v = true -> rd_i16 (enc_i16 v ++ r) = Ok (v, r).
Proof.
  intros v r H. unfold i16_ok in H. split_andb.
  unfold rd_i16, rd_u16, enc_i16, pbind, rd_u8, pret, sgn. simpl.
  f_equal. f_equal. destruct (Z.ltb_spec ((v / 256) mod 256 * 256 + v mod 256) (65536 / 2)); lia.
Qed.

Lemma w32_recompose : forall v,
  ((v / 16777216) mod 256 * 256 + (v / 65536) mod 256) * 65536 + ((v / 256) mod 256 * 256 + v mod 256)
  = v mod 4294967296.
Proof. intros v. lia. Qed.

Lemma rd_w32_enc : forall v r, rd_w32 (enc_i32 v ++ r) = Ok (v mod 4294967296, r).
Proof.
  intros v r. unfold rd_w32, rd_u16, enc_i32, pbind, rd_u8, pret. simpl.
  rewrite w32_recompose. reflexivity.
Qed.

Lemma rd_w32_rt : forall v r, w32_ok v = true -> rd_w32 (enc_w32 v ++ r) = Ok (v, r).
Proof.
  intros v r H. unfold w32_ok in H. split_andb. unfold enc_w32. rewrite rd_w32_enc.
  f_equal. f_equal. rewrite Z.mod_small; lia.
Qed.

Lemma rd_i32_rt : forall v r, i32_ok v = true -> rd_i32 (enc_i32 v ++ r) = Ok (v, r).
Proof.
  intros v r H. unfold i32_ok in H. split_andb.
  unfold rd_i32, pbind. rewrite rd_w32_enc. unfold pret, sgn.
  f_equal. f_equal. destruct (Z.ltb_spec (v mod 4294967296) (4294967296 / 2)); lia.
Qed.

Lemma rd_take_app : forall (s r : bytes), rd_take (List.length s) (s ++ r) = Ok (s, r).
Proof.
  intros s r. unfold rd_take. rewrite app_length.
  replace (Nat.leb (List.length s) (List.length s + List.length r)) with true
    by (symmetry; apply Nat.leb_le; lia).
  rewrite firstn_app, Nat.sub_diag, firstn_all. simpl. rewrite app_nil_r.
  rewrite skipn_app, Nat.sub_diag, skipn_all. reflexivity.
Qed.

Lemma rd_pstr_rt : forall s r, pstr_ok s = true -> rd_pstr (enc_pstr s ++ r) = Ok (s, r).
Proof.
  intros s r H. unfold rd_pstr, enc_pstr, pbind, rd_u8. simpl.
  unfold zlen. rewrite Nat2Z.id. apply rd_take_app.
Qed.

(* ------------------------------------------------------------------ *)
(* generic: a counted list of items                                    *)

Definition RT {A} (ok : A -> bool) (enc : A -> bytes) (rd : parser A) : Prop :=
  forall a r, ok a = true -> rd (enc a ++ r) = Ok (a, r).
Definition NE {A} (ok : A -> bool) (enc : A -> bytes) : Prop :=
  forall a, ok a = true -> (1 <= List.length (enc a))%nat.

Lemma enc_list_cons : forall {A} (enc : A -> bytes) a l, enc_list enc (a :: l) = enc a ++ enc_list enc l.
Proof. reflexivity. Qed.

Lemma rep_S : forall {A} f (rd : parser A) n bs,
  rep (S f) rd n bs =
  if n <=? 0 then Ok ([], bs) else
  match rd bs with
  | Err e => Err e
  | Ok (a, r) => match rep f rd (n - 1) r with Err e => Err e | Ok (l, r') => Ok (a :: l, r') end
  end.
Proof. reflexivity. Qed.

Lemma rep_rt : forall {A} (ok : A -> bool) enc rd, RT ok enc rd -> NE ok enc ->
  forall l fuel r, forallb ok l = true ->
    (List.length (enc_list enc l ++ r) < fuel)%nat ->
    rep fuel rd (zlen l) (enc_list enc l ++ r) = Ok (l, r).
Proof.
  intros A ok enc rd Hrt Hne l. induction l as [|a l IH]; intros fuel r Hok Hf.
  - destruct fuel; reflexivity.
  - simpl in Hok. apply andb_true_iff in Hok. destruct Hok as [Ha Hl].
    rewrite enc_list_cons, <- app_assoc in *.
    pose proof (Hne a Ha) as Hn. rewrite app_length in Hf.
    destruct fuel as [|f]; [lia|]. rewrite rep_S.
    replace (zlen (a :: l) <=? 0) with false
      by (symmetry; apply Z.leb_gt; rewrite zlen_cons; pose proof (zlen_nonneg l); lia).
    rewrite (Hrt a _ Ha).
    replace (zlen (a :: l) - 1) with (zlen l) by (rewrite zlen_cons; lia).
    rewrite IH; [reflexivity | exact Hl | lia].
Qed.

Lemma rd_counted_i32_rt : forall {A} (ok : A -> bool) enc rd, RT ok enc rd -> NE ok enc ->
  forall l r, i32_ok (zlen l) = true -> forallb ok l = true ->
    rd_counted rd_i32 rd (enc_i32 (zlen l) ++ enc_list enc l ++ r) = Ok (l, r).
Proof.
  intros A ok enc rd Hrt Hne l r Hc Hl. unfold rd_counted. rewrite (rd_i32_rt _ _ Hc).
  replace (zlen l <? 0) with false by (symmetry; apply Z.ltb_ge; apply zlen_nonneg).
  apply (rep_rt ok enc rd Hrt Hne); [exact Hl | lia].
Qed.

Lemma rd_counted_i16_rt : forall {A} (ok : A -> bool) enc rd, RT ok enc rd -> NE ok enc ->
  forall l r, i16_ok (zlen l) = true -> forallb ok l = true ->
    rd_counted rd_i16 rd (enc_i16 (zlen l) ++ enc_list enc l ++ r) = Ok (l, r).
Proof.
  intros A ok enc rd Hrt Hne l r Hc Hl. unfold rd_counted. rewrite (rd_i16_rt _ _ Hc).
  replace (zlen l <? 0) with false by (symmetry; apply Z.ltb_ge; apply zlen_nonneg).
  apply (rep_rt ok enc rd Hrt Hne); [exact Hl | lia].
Qed.

(* ------------------------------------------------------------------ *)
(* items                                                               *)

Lemma RT_w32 : RT w32_ok enc_w32 rd_w32.
Proof. intros a r H; apply rd_w32_rt; exact H. Qed.
Lemma NE_w32 : NE w32_ok enc_w32.
Proof. intros a _; simpl; lia. Qed.
Lemma RT_i8 : RT i8_ok enc_i8 rd_i8.
Proof. intros a r H; apply rd_i8_rt; exact H. Qed.
Lemma NE_i8 : NE i8_ok enc_i8.
Proof. intros a _; simpl; lia. Qed.

Lemma RT_inp : RT inp_ok enc_inp rd_inp.
Proof.
  intros [k|u c] r H; unfold inp_ok in H; unfold rd_inp, enc_inp, pbind.
  - rewrite <- app_assoc. rewrite (rd_i32_rt (-1)) by reflexivity.
    rewrite (rd_i32_rt k) by exact H. reflexivity.
  - split_andb. rewrite <- app_assoc. rewrite (rd_i32_rt u) by assumption.
    rewrite (rd_i32_rt c) by assumption.
    replace (u =? -1) with false by (symmetry; apply Z.eqb_neq; lia).
    replace (u <? 0) with false by (symmetry; apply Z.ltb_ge; lia).
    reflexivity.
Qed.
Lemma NE_inp : NE inp_ok enc_inp.
Proof. intros [k|u c] _; simpl; lia. Qed.

Lemma RT_pstr : RT pstr_ok enc_pstr rd_pstr.
Proof. intros s r H; apply rd_pstr_rt; exact H. Qed.

(* the library's read_pascal_str reads back every name write_pascal_str accepts
   (length byte unsigned: every length 0..255; ASCII only) *)
Lemma lib_rd_pstr_rt : forall s r, pstr_ok s = true -> lib_rd_pstr (enc_pstr s ++ r) = Ok (s, r).
Proof.
  intros s r H. unfold pstr_ok in H. apply andb_true_iff in H. destruct H as [Hl Ha].
  unfold lib_rd_pstr, enc_pstr, pbind, rd_u8. simpl.
  unfold zlen. rewrite Nat2Z.id.
  rewrite firstn_app, Nat.sub_diag, firstn_all. simpl. rewrite app_nil_r. rewrite Ha.
  rewrite skipn_app, Nat.sub_diag, skipn_all. reflexivity.
Qed.
Lemma RT_lib_pstr : RT pstr_ok enc_pstr lib_rd_pstr.
Proof. intros s r H; apply lib_rd_pstr_rt; exact H. Qed.

Lemma RT_pname_w : forall ps, RT pstr_ok enc_pstr ps -> RT pname_ok enc_pname (rd_pname_w ps).
Proof.
  intros ps Hps [n i] r H. unfold pname_ok in H. simpl in H. split_andb.
  unfold rd_pname_w, enc_pname, pbind. simpl fst; simpl snd. rewrite <- app_assoc.
  rewrite Hps by assumption. rewrite rd_i32_rt by assumption. reflexivity.
Qed.
Lemma RT_pname : RT pname_ok enc_pname rd_pname.
Proof. exact (RT_pname_w rd_pstr RT_pstr). Qed.
Lemma NE_pname : NE pname_ok enc_pname.
Proof. intros [n i] _. unfold enc_pname, enc_pstr. simpl. lia. Qed.

Lemma RT_ugen_w : forall ps, RT pstr_ok enc_pstr ps -> RT ugen_ok enc_ugen (rd_ugen_w ps).
Proof.
  intros ps Hps [cls rate ins outs sp] r H. unfold ugen_ok in H. simpl in H. split_andb.
  unfold rd_ugen_w, enc_ugen, pbind. simpl u_cls; simpl u_rate; simpl u_ins; simpl u_outs; simpl u_special.
  repeat rewrite <- app_assoc.
  rewrite Hps by assumption. rewrite rd_i8_rt by assumption.
  rewrite (rd_i32_rt (zlen ins)) by assumption. rewrite (rd_i32_rt (zlen outs)) by assumption.
  rewrite rd_i16_rt by assumption.
  replace ((zlen ins <? 0) || (zlen outs <? 0)) with false.
  2:{ symmetry. apply orb_false_iff. split; apply Z.ltb_ge; apply zlen_nonneg. }
  rewrite (rep_rt inp_ok enc_inp rd_inp RT_inp NE_inp) by (try assumption; lia).
  rewrite (rep_rt i8_ok enc_i8 rd_i8 RT_i8 NE_i8) by (try assumption; lia).
  reflexivity.
Qed.
Lemma RT_ugen : RT ugen_ok enc_ugen rd_ugen.
Proof. exact (RT_ugen_w rd_pstr RT_pstr). Qed.
Lemma NE_ugen : NE ugen_ok enc_ugen.
Proof. intros u _. unfold enc_ugen, enc_pstr. simpl. lia. Qed.

Lemma RT_variant : forall n, RT (variant_ok n) enc_variant (rd_variant (Z.of_nat n)).
Proof.
  intros n [nm vals] r H. unfold variant_ok in H. simpl in H. split_andb.
  unfold rd_variant, enc_variant, pbind. simpl v_name; simpl v_vals. rewrite <- app_assoc.
  rewrite rd_pstr_rt by assumption.
  match goal with Hn : Nat.eqb _ _ = true |- _ => apply Nat.eqb_eq in Hn; rewrite <- Hn end.
  change (Z.of_nat (List.length vals)) with (zlen vals).
  rewrite (rep_rt w32_ok enc_w32 rd_w32 RT_w32 NE_w32) by (try assumption; lia).
  reflexivity.
Qed.
Lemma NE_variant : forall n, NE (variant_ok n) enc_variant.
Proof. intros n v _. unfold enc_variant, enc_pstr. simpl. lia. Qed.

(* ------------------------------------------------------------------ *)
(* whole definition                                                    *)

Lemma rd_header_rt : forall r, rd_header (enc_header ++ r) = Ok (tt, r).
Proof. intros r. reflexivity. Qed.

Lemma rd_core_w_rt : forall ps, RT pstr_ok enc_pstr ps ->
  forall name consts ctlw names units r,
  pstr_ok name = true ->
  i32_ok (zlen consts) = true -> forallb w32_ok consts = true ->
  i32_ok (zlen ctlw) = true -> forallb w32_ok ctlw = true ->
  i32_ok (zlen names) = true -> forallb pname_ok names = true ->
  i32_ok (zlen units) = true -> forallb ugen_ok units = true ->
  rd_core_w ps (enc_pstr name
           ++ enc_i32 (zlen consts) ++ enc_list enc_w32 consts
           ++ enc_i32 (zlen ctlw) ++ enc_list enc_w32 ctlw
           ++ enc_i32 (zlen names) ++ enc_list enc_pname names
           ++ enc_i32 (zlen units) ++ enc_list enc_ugen units ++ r)
  = Ok ((name, consts, ctlw, names, units), r).
Proof.
  intros ps Hps. intros. unfold rd_core_w, pbind.
  rewrite Hps by assumption.
  rewrite (rd_counted_i32_rt w32_ok enc_w32 rd_w32 RT_w32 NE_w32) by assumption.
  rewrite (rd_counted_i32_rt w32_ok enc_w32 rd_w32 RT_w32 NE_w32) by assumption.
  rewrite (rd_counted_i32_rt pname_ok enc_pname (rd_pname_w ps) (RT_pname_w ps Hps) NE_pname) by assumption.
  rewrite (rd_counted_i32_rt ugen_ok enc_ugen (rd_ugen_w ps) (RT_ugen_w ps Hps) NE_ugen) by assumption.
  reflexivity.
Qed.

Lemma rd_body_rt : forall d r, def_ok d = true -> rd_body (enc_body d ++ r) = Ok (d, r).
Proof.
  intros [name consts ctlw names units vars] r H. unfold def_ok in H. simpl in H. split_andb.
  unfold rd_body, rd_core, enc_body, pbind.
  simpl d_name; simpl d_consts; simpl d_ctl; simpl d_names; simpl d_units; simpl d_variants.
  repeat rewrite <- app_assoc.
  rewrite (rd_core_w_rt rd_pstr RT_pstr) by assumption.
  unfold pret.
  rewrite (rd_counted_i16_rt (variant_ok (List.length ctlw)) enc_variant (rd_variant (zlen ctlw))
             (RT_variant (List.length ctlw)) (NE_variant (List.length ctlw))) by assumption.
  reflexivity.
Qed.

(* every written byte is a byte *)
Lemma mod256_byte : forall v, byte_ok (v mod 256) = true.
Proof. intros v. unfold byte_ok. apply andb_true_iff; split; [apply Z.leb_le | apply Z.ltb_lt]; lia. Qed.

Lemma forallb_app_true : forall {A} (f : A -> bool) a b, forallb f a = true -> forallb f b = true -> forallb f (a ++ b) = true.
Proof. intros; rewrite forallb_app; apply andb_true_iff; split; assumption. Qed.

Lemma by_i8 : forall v, forallb byte_ok (enc_i8 v) = true.
Proof. intros; simpl; rewrite mod256_byte; reflexivity. Qed.
Lemma by_i16 : forall v, forallb byte_ok (enc_i16 v) = true.
Proof. intros; simpl; rewrite !mod256_byte; reflexivity. Qed.
Lemma by_i32 : forall v, forallb byte_ok (enc_i32 v) = true.
Proof. intros; simpl; rewrite !mod256_byte; reflexivity. Qed.

Lemma by_pstr : forall s, pstr_ok s = true -> forallb byte_ok (enc_pstr s) = true.
Proof.
  intros s H. unfold pstr_ok in H. split_andb. unfold enc_pstr. simpl. apply andb_true_iff; split.
  - unfold byte_ok. apply andb_true_iff; split; [apply Z.leb_le; apply zlen_nonneg | assumption].
  - rewrite forallb_forall in *. intros x Hx.
    match goal with Hs : forall y, In y s -> ascii_ok y = true |- _ => specialize (Hs x Hx); unfold ascii_ok in Hs end.
    unfold byte_ok. lia.
Qed.

Lemma by_list : forall {A} (ok : A -> bool) (enc : A -> bytes),
  (forall a, ok a = true -> forallb byte_ok (enc a) = true) ->
  forall l, forallb ok l = true -> forallb byte_ok (enc_list enc l) = true.
Proof.
  intros A ok enc H l; induction l as [|a l IH]; intros Hl; [reflexivity|].
  simpl in Hl. apply andb_true_iff in Hl. destruct Hl as [Ha Hl].
  rewrite enc_list_cons. apply forallb_app_true; [apply H; exact Ha | apply IH; exact Hl].
Qed.

Lemma by_inp : forall i, inp_ok i = true -> forallb byte_ok (enc_inp i) = true.
Proof. intros [k|u c] _; unfold enc_inp; apply forallb_app_true; apply by_i32. Qed.

Lemma by_ugen : forall u, ugen_ok u = true -> forallb byte_ok (enc_ugen u) = true.
Proof.
  intros u H. unfold ugen_ok in H. split_andb. unfold enc_ugen.
  repeat apply forallb_app_true; try apply by_i8; try apply by_i16; try apply by_i32.
  - apply by_pstr; assumption.
  - apply (by_list inp_ok); [apply by_inp | assumption].
  - apply (by_list i8_ok); [intros; apply by_i8 | assumption].
Qed.

Lemma by_pname : forall p, pname_ok p = true -> forallb byte_ok (enc_pname p) = true.
Proof.
  intros p H. unfold pname_ok in H. split_andb. unfold enc_pname.
  apply forallb_app_true; [apply by_pstr; assumption | apply by_i32].
Qed.

Lemma by_variant : forall n v, variant_ok n v = true -> forallb byte_ok (enc_variant v) = true.
Proof.
  intros n v H. unfold variant_ok in H. split_andb. unfold enc_variant.
  apply forallb_app_true; [apply by_pstr; assumption|].
  apply (by_list w32_ok); [intros; apply by_i32 | assumption].
Qed.

Lemma by_def : forall d, def_ok d = true -> forallb byte_ok (enc_def d) = true.
Proof.
  intros d H. unfold def_ok in H. split_andb. unfold enc_def, enc_body.
  apply forallb_app_true; [reflexivity|].
  repeat apply forallb_app_true; try apply by_i16; try apply by_i32.
  - apply by_pstr; assumption.
  - apply (by_list w32_ok); [intros; apply by_i32 | assumption].
  - apply (by_list w32_ok); [intros; apply by_i32 | assumption].
  - apply (by_list pname_ok); [apply by_pname | assumption].
  - apply (by_list ugen_ok); [apply by_ugen | assumption].
  - apply (by_list (variant_ok (List.length (d_ctl d)))); [apply by_variant | assumption].
Qed.

Lemma parse_enc : forall d, def_ok d = true -> parse_def (enc_def d) = Ok d.
Proof.
  intros d H. unfold parse_def. rewrite (by_def d H). simpl negb. cbv iota.
  unfold pbind. unfold enc_def. rewrite rd_header_rt.
  rewrite <- (app_nil_r (enc_body d)). rewrite (rd_body_rt d [] H). reflexivity.
Qed.

Lemma scgf_roundtrip_l : forall d bs, write_def d = Some bs -> parse_def bs = Ok d.
Proof.
  intros d bs H. unfold write_def in H. destruct (def_ok d) eqn:Hok; [|discriminate].
  inversion H; subst. apply parse_enc; exact Hok.
Qed.

Lemma write_def_injective_l : forall d1 d2 bs, write_def d1 = Some bs -> write_def d2 = Some bs -> d1 = d2.
Proof.
  intros d1 d2 bs H1 H2. apply scgf_roundtrip_l in H1. apply scgf_roundtrip_l in H2.
  rewrite H1 in H2. inversion H2; reflexivity.
Qed.

(* the writer raises exactly outside the stated ranges *)
Lemma write_def_some_iff : forall d, (exists bs, write_def d = Some bs) <-> def_ok d = true.
Proof.
  intros d. unfold write_def. destruct (def_ok d); split; intros H; try reflexivity; try discriminate.
  - eexists; reflexivity.
  - destruct H as [bs H]; discriminate.
Qed.
