(* C14 -- key resolution: explicit keys win, closed forms of the pitch / amplitude / duration chains.
   Numbers are PyNum.num; `val n q` (proofs/C12_num.v) = "n is a number (no exception) of exact value q",
   so the closed forms hold for every int/float mix of the inputs.  The kernels midicps, dbamp, ... are
   arbitrary functions that respect == on Q. *)
From Coq Require Import String List Morphisms.
Require Import SC3.proofs.NumTac SC3.proofs.C12_num SC3.model.Event.
Import ListNotations.
Open Scope Q_scope.

(* ---- explicit keys ---------------------------------------------------------------------------- *)
Lemma explicit_l : forall K e k v, get k e = Some v -> ev_call K e k = v.
Proof. intros K e k v H. unfold ev_call. rewrite H. reflexivity. Qed.

Lemma plain_explicit : forall K e k v, get k e = Some v -> plain K e k = v.
Proof. intros K e k v H. unfold plain. rewrite H. reflexivity. Qed.

(* the inner calls self('degree'), self('midinote'), self('freq') of the chains also return explicit keys *)
Lemma inner_explicit : forall K e v,
  (get "degree" e = Some v -> c_degree K e = vnum v) /\
  (get "midinote" e = Some v -> c_midinote K e = vnum v) /\
  (get "freq" e = Some v -> c_freq K e = vnum v).
Proof.
  intros K e v. unfold c_degree, c_midinote, c_freq.
  repeat split; intros H; rewrite H; reflexivity.
Qed.

Lemma explicit_key_precedence_l : forall K e k v, get k e = Some v ->
  ev_call K e k = v /\ plain K e k = v /\
  (k = "degree"%string -> c_degree K e = vnum v) /\
  (k = "midinote"%string -> c_midinote K e = vnum v) /\
  (k = "freq"%string -> c_freq K e = vnum v).
Proof.
  intros K e k v H. split; [exact (explicit_l K e k v H)|]. split; [exact (plain_explicit K e k v H)|].
  destruct (inner_explicit K e v) as [A [B C]].
  repeat split; intros E; subst k; auto.
Qed.

(* a key that is absent falls back to the class default (keys without a default function) *)
Lemma default_l : forall K e k, get k e = None ->
  In k ["detune"; "harmonic"; "ctranspose"; "mtranspose"; "gtranspose"; "octave"; "root"; "dur"; "legato";
        "stretch"; "pan"; "out"; "instrument"; "add_action"]%string ->
  ev_call K e k = match get k (defaults K) with Some v => v | None => VNum NErr end.
Proof.
  intros K e k Hn Hin. unfold ev_call, plain. rewrite Hn.
  cbn [In] in Hin.
  repeat (destruct Hin as [E | Hin]; [subst k; reflexivity|]). contradiction.
Qed.

(* ---- scale.degree_to_key ------------------------------------------------------------------------ *)
Definition note_spec (s : scale) (d : num) : Q :=
  let l := Z.of_nat (List.length (sc_degrees s)) in
  match d with
  | I z => sc_spo s * inject_Z (z / l) + inject_Z (nth (Z.to_nat (z mod l)) (sc_degrees s) 0%Z)
  | F q => sc_spo s * inject_Z (Qfloor (q / inject_Z l))
           + inject_Z (nth (Z.to_nat (Qtrunc q mod l)) (sc_degrees s) 0%Z)
  | NErr => 0
  end.

Lemma degree_to_key_val : forall s d, ok d -> (0 < List.length (sc_degrees s))%nat ->
  val (degree_to_key s d) (note_spec s d).
Proof.
  intros s d Hd Hl. unfold degree_to_key, note_spec.
  assert (Hz : (Z.of_nat (List.length (sc_degrees s)) <> 0)%Z) by lia.
  remember (Z.of_nat (List.length (sc_degrees s))) as l eqn:El.
  assert (Hl0 : (l =? 0)%Z = false) by (apply Z.eqb_neq; exact Hz).
  assert (Hq0 : Qeq_bool (inject_Z l) 0 = false).
  { destruct (Qeq_bool_spec (inject_Z l) 0) as [E|E]; [|reflexivity].
    exfalso. apply Hz. apply inject_Z_injective. exact E. }
  destruct d as [z|q|]; [| |discriminate Hd].
  - cbn [pint]. unfold nmod, nfloordiv, lift2. rewrite Hl0.
    unfold nmul, nadd, lift2. cbn [toQ]. split; reflexivity.
  - cbn [pint]. unfold nmod, nfloordiv, lift2. rewrite Hl0. cbn [toQ]. rewrite Hq0.
    unfold nmul, nadd, lift2. cbn [toQ]. split; reflexivity.
Qed.

(* ---- the pitch chain ------------------------------------------------------------------------------ *)
Section Pitch.
Variables (K : kern) (e : event) (s : scale).
Variables gt root oct ct har det : Q.
Hypothesis Kmid : Proper (Qeq ==> Qeq) (k_midicps K).
Hypothesis Hs : pscale K e = s.
Hypothesis Hspo : ~ sc_spo s == 0.
Hypothesis Hgt : val (pnum K e "gtranspose") gt.
Hypothesis Hroot : val (pnum K e "root") root.
Hypothesis Hoct : val (pnum K e "octave") oct.
Hypothesis Hct : val (pnum K e "ctranspose") ct.
Hypothesis Hhar : val (pnum K e "harmonic") har.
Hypothesis Hdet : val (pnum K e "detune") det.

(* note -> midinote *)
Definition midi_spec (key : Q) : Q := ((key + gt + root) / sc_spo s + oct - 5) * (12 * sc_lgoct s) + 60.

Lemma midi_of_key_val : forall key x, val key x -> val (midi_of_key K e key) (midi_spec x).
Proof.
  intros key x Hk. unfold midi_of_key. rewrite Hs.
  pose proof (val_nadd _ _ _ _ (val_nadd _ _ _ _ Hk Hgt) Hroot) as H1.
  destruct (val_ntruediv _ _ _ _ H1 (val_F (sc_spo s)) Hspo) as [H2 _].
  pose proof (val_nsub _ _ _ _ (val_nadd _ _ _ _ H2 Hoct) (val_F (5 # 1))) as H3.
  pose proof (val_nmul _ _ _ _ H3 (val_nmul _ _ _ _ (val_F (12 # 1)) (val_F (sc_lgoct s)))) as H4.
  pose proof (val_nadd _ _ _ _ H4 (val_I 60)) as H5.
  eapply val_eq; [exact H5|]. unfold midi_spec. change (inject_Z 60) with 60. reflexivity.
Qed.

Lemma midicps_n_val : forall m x, val m x -> val (midicps_n K m) (k_midicps K x).
Proof.
  intros m x [Hok Hx]. unfold midicps_n. destruct m; okd; split; try reflexivity; cbn [toQ] in *;
    apply Kmid; exact Hx.
Qed.

Lemma detuned_of_val : forall f x, val f x -> val (detuned_of K e f) (x * har + det).
Proof. intros f x Hf. unfold detuned_of. apply val_nadd; [apply val_nmul|]; assumption. Qed.

(* 'note' given (midinote and freq not given) *)
Lemma chain_from_note : forall vn n,
  get "note" e = Some vn -> get "midinote" e = None -> get "freq" e = None -> val (vnum vn) n ->
  val (r_midinote K e) (midi_spec n) /\
  val (r_freq K e) (k_midicps K (midi_spec n + ct)) /\
  val (detuned_freq K e) (k_midicps K (midi_spec n + ct) * har + det).
Proof.
  intros vn n Hn Hm Hf Hv.
  assert (M : val (r_midinote K e) (midi_spec n)).
  { unfold r_midinote. rewrite Hn. apply midi_of_key_val. exact Hv. }
  assert (Fq : val (r_freq K e) (k_midicps K (midi_spec n + ct))).
  { unfold r_freq, has. rewrite Hm, Hn. cbn [orb].
    apply midicps_n_val. unfold transposed_midinote, c_midinote. rewrite Hm.
    apply val_nadd; assumption. }
  split; [exact M|]. split; [exact Fq|].
  unfold detuned_freq, c_freq. rewrite Hf. apply detuned_of_val. exact Fq.
Qed.

(* 'midinote' given (freq not given) *)
Lemma chain_from_midinote : forall vm m,
  get "midinote" e = Some vm -> get "freq" e = None -> val (vnum vm) m ->
  val (r_freq K e) (k_midicps K (m + ct)) /\
  val (detuned_freq K e) (k_midicps K (m + ct) * har + det).
Proof.
  intros vm m Hm Hf Hv.
  assert (Fq : val (r_freq K e) (k_midicps K (m + ct))).
  { unfold r_freq, has. rewrite Hm. cbn [orb].
    apply midicps_n_val. unfold transposed_midinote, c_midinote. rewrite Hm.
    apply val_nadd; assumption. }
  split; [exact Fq|]. unfold detuned_freq, c_freq. rewrite Hf. apply detuned_of_val. exact Fq.
Qed.

(* 'degree' given (note, midinote, freq not given): degree + mtranspose -> scale -> note -> midinote -> freq.
   As in the code, ctranspose is NOT applied on this path (event.py, _freq_from_degree: "No ctranspose"). *)
Lemma chain_from_degree : forall vd d mt,
  get "degree" e = Some vd -> get "note" e = None -> get "midinote" e = None -> get "freq" e = None ->
  (0 < List.length (sc_degrees s))%nat ->
  ok (nadd (vnum vd) (pnum K e "mtranspose")) -> d = nadd (vnum vd) (pnum K e "mtranspose") -> mt = note_spec s d ->
  val (r_note K e) mt /\
  val (r_midinote K e) (midi_spec mt) /\
  val (r_freq K e) (k_midicps K (midi_spec mt)) /\
  val (detuned_freq K e) (k_midicps K (midi_spec mt) * har + det).
Proof.
  intros vd d mt Hd Hn Hm Hf Hl Hok Ed Emt. subst mt.
  assert (N : val (r_note K e) (note_spec s d)).
  { unfold r_note, c_degree. rewrite Hd, Hs, <- Ed. apply degree_to_key_val; [rewrite Ed; exact Hok|exact Hl]. }
  assert (M : val (midinote_from_degree K e) (midi_spec (note_spec s d))).
  { unfold midinote_from_degree. apply midi_of_key_val. exact N. }
  assert (Fq : val (r_freq K e) (k_midicps K (midi_spec (note_spec s d)))).
  { unfold r_freq, has. rewrite Hm, Hn, Hd. cbn [orb]. apply midicps_n_val. exact M. }
  split; [exact N|]. split; [unfold r_midinote, has; rewrite Hn, Hd; exact M|]. split; [exact Fq|].
  unfold detuned_freq, c_freq. rewrite Hf. apply detuned_of_val. exact Fq.
Qed.

(* 'freq' given: what is played is freq * harmonic + detune *)
Lemma chain_from_freq : forall vf f, get "freq" e = Some vf -> val (vnum vf) f ->
  val (detuned_freq K e) (f * har + det).
Proof.
  intros vf f Hf Hv. unfold detuned_freq, c_freq. rewrite Hf. apply detuned_of_val. exact Hv.
Qed.
End Pitch.

Lemma pitch_chain_l : forall K e s gt root oct ct har det,
  Proper (Qeq ==> Qeq) (k_midicps K) -> pscale K e = s -> ~ sc_spo s == 0 ->
  val (pnum K e "gtranspose") gt -> val (pnum K e "root") root -> val (pnum K e "octave") oct ->
  val (pnum K e "ctranspose") ct -> val (pnum K e "harmonic") har -> val (pnum K e "detune") det ->
  (forall vd d mt, get "degree" e = Some vd -> get "note" e = None -> get "midinote" e = None -> get "freq" e = None ->
     (0 < List.length (sc_degrees s))%nat -> ok (nadd (vnum vd) (pnum K e "mtranspose")) ->
     d = nadd (vnum vd) (pnum K e "mtranspose") -> mt = note_spec s d ->
     val (r_note K e) mt /\ val (r_midinote K e) (midi_spec s gt root oct mt) /\
     val (r_freq K e) (k_midicps K (midi_spec s gt root oct mt)) /\
     val (detuned_freq K e) (k_midicps K (midi_spec s gt root oct mt) * har + det)) /\
  (forall vn n, get "note" e = Some vn -> get "midinote" e = None -> get "freq" e = None -> val (vnum vn) n ->
     val (r_midinote K e) (midi_spec s gt root oct n) /\
     val (r_freq K e) (k_midicps K (midi_spec s gt root oct n + ct)) /\
     val (detuned_freq K e) (k_midicps K (midi_spec s gt root oct n + ct) * har + det)) /\
  (forall vm m, get "midinote" e = Some vm -> get "freq" e = None -> val (vnum vm) m ->
     val (r_freq K e) (k_midicps K (m + ct)) /\ val (detuned_freq K e) (k_midicps K (m + ct) * har + det)) /\
  (forall vf f, get "freq" e = Some vf -> val (vnum vf) f -> val (detuned_freq K e) (f * har + det)).
Proof.
  intros K e s gt root oct ct har det HP Hs Hspo Hgt Hroot Hoct Hct Hhar Hdet.
  split; [|split; [|split]].
  - intros. eapply chain_from_degree; eauto.
  - intros. eapply chain_from_note; eauto.
  - intros. eapply chain_from_midinote; eauto.
  - intros. eapply chain_from_freq; eauto.
Qed.

(* ---- amplitude ----------------------------------------------------------------------------------- *)
Lemma amp_chain_l : forall K e,
  (forall vd d, get "db" e = Some vd -> val (vnum vd) d -> Proper (Qeq ==> Qeq) (k_dbamp K) ->
     val (r_amp K e) (k_dbamp K d)) /\
  (forall vv v, get "db" e = None -> get "velocity" e = Some vv -> val (vnum vv) v ->
     val (r_amp K e) (v / 127)) /\
  (get "db" e = None -> get "velocity" e = None -> r_amp K e = F amp_default).
Proof.
  intros K e. split; [|split].
  - intros vd d H [Hok Hx] HP. unfold r_amp. rewrite H. unfold fn1.
    destruct (vnum vd); okd; (split; [reflexivity|]); cbn [toQ] in *; apply HP; exact Hx.
  - intros vv v H H0 H1. unfold r_amp. rewrite H, H0. unfold amp_from_velocity.
    assert (N : ~ inject_Z 127 == 0) by (change (inject_Z 127) with 127; lra).
    destruct (val_ntruediv _ _ _ _ H1 (val_I 127) N) as [Hk _].
    eapply val_eq; [exact Hk|]. change (inject_Z 127) with 127. reflexivity.
  - intros H H0. unfold r_amp. rewrite H, H0. reflexivity.
Qed.

(* ---- durations ------------------------------------------------------------------------------------ *)
(* numbers (not Rest objects) in dur, stretch, legato *)
Lemma dur_chain_l : forall K e d st lg dq sq lq,
  plain K e "dur" = VNum d -> plain K e "stretch" = VNum st -> plain K e "legato" = VNum lg ->
  val d dq -> val st sq -> val lg lq ->
  (get "delta" e = None -> exists n, ev_call K e "delta" = VNum n /\ val n (dq * sq)) /\
  (get "sustain" e = None -> exists n, ev_call K e "sustain" = VNum n /\ val n (dq * lq * sq)).
Proof.
  intros K e d st lg dq sq lq Hd Hst Hlg Vd Vs Vl. split; intros Hn.
  - exists (nmul d st). split; [|apply val_nmul; assumption].
    unfold ev_call. rewrite Hn. cbn. unfold r_delta. rewrite Hd, Hst. reflexivity.
  - exists (nmul (nmul d lg) st). split; [|apply val_nmul; [apply val_nmul|]; assumption].
    unfold ev_call. rewrite Hn. cbn. unfold r_sustain. rewrite Hd, Hst, Hlg. reflexivity.
Qed.

(* a Rest duration makes delta and sustain Rest objects of the same value (Operand arithmetic) *)
Lemma dur_chain_rest : forall K e d st dq sq,
  plain K e "dur" = VRest d -> plain K e "stretch" = VNum st -> val d dq -> val st sq ->
  get "delta" e = None -> exists n, ev_call K e "delta" = VRest n /\ val n (dq * sq).
Proof.
  intros K e d st dq sq Hd Hst Vd Vs Hn. exists (nmul d st). split; [|apply val_nmul; assumption].
  unfold ev_call. rewrite Hn. cbn. unfold r_delta. rewrite Hd, Hst. reflexivity.
Qed.

(* the hypotheses of the pitch chain are met by a concrete event *)
Definition K0k : kern := mkK (fun x => x) (fun x => x) (fun x => x) (fun x => x).
Definition ex_event_k : event := [("degree"%string, VNum (I 9)); ("mtranspose"%string, VNum (I (-1))); ("octave"%string, VNum (F 4))].
Lemma pitch_chain_hypotheses_met_l :
  Proper (Qeq ==> Qeq) (k_midicps K0k) /\ pscale K0k ex_event_k = major /\ ~ sc_spo major == 0 /\
  val (pnum K0k ex_event_k "octave") 4 /\ val (pnum K0k ex_event_k "gtranspose") 0 /\
  get "degree" ex_event_k = Some (VNum (I 9)) /\ get "note" ex_event_k = None /\
  ok (nadd (vnum (VNum (I 9))) (pnum K0k ex_event_k "mtranspose")).
Proof.
  split; [intros x y H; exact H|]. split; [reflexivity|]. split; [vm_compute; discriminate|].
  repeat split; reflexivity.
Qed.
