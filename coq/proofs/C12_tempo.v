(* C12 -- lemmas about the REGENERATED TempoClock arithmetic (gen/Gen_tempo.v).
   Numbers are Python numbers (int | ideal float); statements are about their exact values. *)
Require Import SC3.proofs.NumTac SC3.proofs.C12_num.
Require Import SC3.lib.TempoState SC3.gen.Gen_builtins SC3.gen.Gen_tempo SC3.model.Tempo.
From Coq Require Import List.
Import ListNotations.
Open Scope Q_scope.

(* ---- invariants ------------------------------------------------------------------ *)
Definition Typed (s : clockstate) : Prop :=
  ok (tempo s) /\ ok (beat_dur s) /\ ok (base_seconds s) /\ ok (base_beats s) /\
  ok (beats_per_bar s) /\ fl (bars_per_beat s) /\ fl (base_bar s) /\ fl (base_bar_beat s).
Definition TInv (s : clockstate) : Prop := toQ (beat_dur s) * toQ (tempo s) == 1.
Definition MInv (s : clockstate) : Prop :=
  toQ (bars_per_beat s) * toQ (beats_per_bar s) == 1 /\ 0 < toQ (beats_per_bar s) /\
  exists k : Z, toQ (base_bar s) == inject_Z k.
Definition WF (s : clockstate) : Prop := Typed s /\ TInv s /\ MInv s.

Ltac ty H :=
  let Kt := fresh "Kt" in let Kd := fresh "Kd" in let Ks := fresh "Ks" in let Kb := fresh "Kb" in
  let Kp := fresh "Kp" in let Fr := fresh "Fr" in let Fn := fresh "Fn" in let Fg := fresh "Fg" in
  pose proof H as (Kt & Kd & Ks & Kb & Kp & Fr & Fn & Fg);
  pose proof (fl_ok _ Fr); pose proof (fl_ok _ Fn); pose proof (fl_ok _ Fg).
Ltac leafv := first [eassumption | apply val_F | apply val_I | (apply val_refl; assumption)].
Ltac vals := repeat first [leafv | eapply val_nadd | eapply val_nsub | eapply val_nmul].

(* ---- the affine map ---------------------------------------------------------------- *)
Lemma b2s_val s b B : Typed s -> val b B ->
  val (py_beats2secs s b) ((B - toQ (base_beats s)) * toQ (beat_dur s) + toQ (base_seconds s)).
Proof. intros H Hb. ty H. unfold py_beats2secs. vals. Qed.
Lemma s2b_val s x X : Typed s -> val x X ->
  val (py_secs2beats s x) ((X - toQ (base_seconds s)) * toQ (tempo s) + toQ (base_beats s)).
Proof. intros H Hx. ty H. unfold py_secs2beats. vals. Qed.

Lemma inv_alg a b d t u : d * t == 1 -> ((a - b) * d + u - u) * t + b == a.
Proof.
  intros H. setoid_replace (((a - b) * d + u - u) * t + b) with ((a - b) * (d * t) + b) by ring.
  rewrite H. ring.
Qed.
Lemma inv_alg' a b d t u : d * t == 1 -> ((a - u) * t + b - b) * d + u == a.
Proof.
  intros H. setoid_replace (((a - u) * t + b - b) * d + u) with ((a - u) * (d * t) + u) by ring.
  rewrite H. ring.
Qed.

Lemma secs_of_beats_inv s b : Typed s -> TInv s -> ok b ->
  val (py_secs2beats s (py_beats2secs s b)) (toQ b).
Proof.
  intros H HT Hb. eapply val_eq.
  - apply s2b_val; [exact H|]. apply b2s_val; [exact H|]. apply val_refl; exact Hb.
  - apply inv_alg. exact HT.
Qed.
Lemma beats_of_secs_inv s x : Typed s -> TInv s -> ok x ->
  val (py_beats2secs s (py_secs2beats s x)) (toQ x).
Proof.
  intros H HT Hx. eapply val_eq.
  - apply b2s_val; [exact H|]. apply s2b_val; [exact H|]. apply val_refl; exact Hx.
  - apply inv_alg'. exact HT.
Qed.

Lemma advance s x d : Typed s -> ok x -> ok d ->
  val (py_secs2beats s (nadd x d)) (toQ (py_secs2beats s x) + toQ d * toQ (tempo s)).
Proof.
  intros H Hx Hd. eapply val_eq.
  - apply s2b_val; [exact H|]. apply val_nadd; apply val_refl; assumption.
  - rewrite (val_toQ _ _ (s2b_val s x (toQ x) H (val_refl _ Hx))). ring.
Qed.

(* the map of a state goes through its reference point *)
Lemma through_base s : Typed s ->
  val (py_secs2beats s (base_seconds s)) (toQ (base_beats s)) /\
  val (py_beats2secs s (base_beats s)) (toQ (base_seconds s)).
Proof.
  intros H. ty H. split; eapply val_eq.
  - apply s2b_val; [exact H|]. apply val_refl; assumption.
  - ring.
  - apply b2s_val; [exact H|]. apply val_refl; assumption.
  - ring.
Qed.

(* ---- states produced by the tempo-side setters -------------------------------------- *)
Lemma rebased_ok s v V S B : Typed s -> val v V -> ~ V == 0 -> ok S -> ok B ->
  let s' := mkClock v (ntruediv (F 1) v) S B (beats_per_bar s) (bars_per_beat s) (base_bar s) (base_bar_beat s) in
  Typed s' /\ TInv s'.
Proof.
  intros H Hv Hn HS HB s'. ty H.
  destruct (val_ntruediv (F 1) v 1 V (val_F 1) Hv Hn) as [Hd Hf].
  split.
  - unfold s', Typed; cbn. repeat split; try assumption. exact (val_ok _ _ Hv). exact (fl_ok _ Hf).
  - unfold s', TInv; cbn. rewrite (val_toQ _ _ Hd), (val_toQ _ _ Hv). field. exact Hn.
Qed.
Lemma MInv_same s s' : beats_per_bar s' = beats_per_bar s -> bars_per_beat s' = bars_per_beat s ->
  base_bar s' = base_bar s -> MInv s -> MInv s'.
Proof. unfold MInv. intros -> -> ->. tauto. Qed.

Lemma tempo_set_eq s now v V : Typed s -> 0 <= toQ (tempo s) -> val v V -> 0 < V ->
  py_tempo_set s now v =
  Some (mkClock v (ntruediv (F 1) v) (py_beats2secs s (py_beats s now)) (py_beats s now)
                (beats_per_bar s) (bars_per_beat s) (base_bar s) (base_bar_beat s)).
Proof.
  intros H Ht Hv HV. ty H. unfold py_tempo_set.
  assert (E1 : neqb v (F (0 # 1)) = false) by (apply (neqb_false _ _ V 0 Hv (val_F 0)); lra).
  assert (E2 : nlt (tempo s) (F (0 # 1)) = false)
    by (apply (nlt_false _ _ (toQ (tempo s)) 0 (val_refl _ Kt) (val_F 0)); exact Ht).
  assert (E3 : nlt v (F (0 # 1)) = false) by (apply (nlt_false _ _ V 0 Hv (val_F 0)); lra).
  rewrite E1, E2, E3. reflexivity.
Qed.
Lemma etempo_eq s e v V : val v V -> ~ V == 0 ->
  py_etempo s e v =
  Some (mkClock v (ntruediv (F 1) v) e (py_secs2beats s e)
                (beats_per_bar s) (bars_per_beat s) (base_bar s) (base_bar_beat s)).
Proof.
  intros Hv HV. unfold py_etempo.
  assert (E1 : neqb v (F (0 # 1)) = false) by (apply (neqb_false _ _ V 0 Hv (val_F 0)); exact HV).
  rewrite E1. reflexivity.
Qed.
Lemma beats_set_eq s now v :
  py_beats_set s now v =
  Some (mkClock (tempo s) (ntruediv (F 1) (tempo s)) now v
                (beats_per_bar s) (bars_per_beat s) (base_bar s) (base_bar_beat s)).
Proof. reflexivity. Qed.
Lemma meter_set_eq s now v :
  py_beats_per_bar_set s now v =
  Some (mkClock (tempo s) (beat_dur s) (base_seconds s) (base_beats s) v (ntruediv (I 1) v)
          (py_round (nadd (nmul (nsub (py_beats s now) (base_bar_beat s)) (bars_per_beat s)) (base_bar s)) (I 1))
          (py_beats s now)).
Proof. reflexivity. Qed.

Lemma TInv_nonzero s : TInv s -> ~ toQ (tempo s) == 0.
Proof. unfold TInv. intros H E. rewrite E in H. assert (X : toQ (beat_dur s) * 0 == 0) by ring. rewrite X in H. discriminate H. Qed.

Lemma tempo_set_wf s now v : WF s -> 0 < toQ (tempo s) -> ok now -> ok v -> 0 < toQ v ->
  exists s', py_tempo_set s now v = Some s' /\ WF s' /\ toQ (tempo s') == toQ v /\
    val (py_beats s' now) (toQ (py_beats s now)) /\
    val (py_beats2secs s' (py_beats s now)) (toQ now).
Proof.
  intros (H & HT & HM) Ht Hn Hv HV.
  pose proof (val_refl _ Hv) as Vv.
  rewrite (tempo_set_eq s now v (toQ v) H (Qlt_le_weak _ _ Ht) Vv HV).
  pose proof (s2b_val s now (toQ now) H (val_refl _ Hn)) as Vb. fold (py_beats s now) in Vb.
  pose proof (beats_of_secs_inv s now H HT Hn) as Vs. fold (py_beats s now) in Vs.
  assert (Hnz : ~ toQ v == 0) by lra.
  destruct (rebased_ok s v (toQ v) _ _ H Vv Hnz (val_ok _ _ Vs) (val_ok _ _ Vb)) as [T' I'].
  eexists; split; [reflexivity|].
  set (s' := mkClock _ _ _ _ _ _ _ _) in *.
  split; [|split; [reflexivity|]].
  - split; [exact T'|split; [exact I'|]]. apply (MInv_same s s'); try reflexivity. exact HM.
  - destruct (through_base s' T') as [A B]. unfold s' in A, B; cbn [base_seconds base_beats] in A, B; fold s' in A, B. split.
    + change (py_beats s' now) with (py_secs2beats s' now). eapply val_eq.
      * apply s2b_val; [exact T'|]. apply val_refl; exact Hn.
      * unfold s'; cbn [base_seconds base_beats tempo]. rewrite (val_toQ _ _ Vs). ring.
    + exact (val_eq _ _ _ B (val_toQ _ _ Vs)).
Qed.

Lemma etempo_wf s e v : WF s -> ok e -> ok v -> ~ toQ v == 0 ->
  exists s', py_etempo s e v = Some s' /\ WF s' /\ toQ (tempo s') == toQ v /\
    val (py_secs2beats s' e) (toQ (py_secs2beats s e)) /\
    val (py_beats2secs s' (py_secs2beats s e)) (toQ e).
Proof.
  intros (H & HT & HM) He Hv HV.
  pose proof (val_refl _ Hv) as Vv.
  rewrite (etempo_eq s e v (toQ v) Vv HV).
  pose proof (s2b_val s e (toQ e) H (val_refl _ He)) as Vb.
  destruct (rebased_ok s v (toQ v) e _ H Vv HV He (val_ok _ _ Vb)) as [T' I'].
  eexists; split; [reflexivity|].
  set (s' := mkClock _ _ _ _ _ _ _ _) in *.
  split; [|split; [reflexivity|]].
  - split; [exact T'|split; [exact I'|]]. apply (MInv_same s s'); try reflexivity. exact HM.
  - destruct (through_base s' T') as [A B]. unfold s' in A, B; cbn [base_seconds base_beats] in A, B; fold s' in A, B. split; assumption.
Qed.

Lemma beats_set_wf s now v : WF s -> ok now -> ok v ->
  exists s', py_beats_set s now v = Some s' /\ WF s' /\ toQ (tempo s') == toQ (tempo s) /\
    val (py_beats s' now) (toQ v) /\ val (py_beats2secs s' v) (toQ now).
Proof.
  intros (H & HT & HM) Hn Hv. rewrite beats_set_eq. ty H.
  destruct (rebased_ok s (tempo s) (toQ (tempo s)) now v H (val_refl _ Kt) (TInv_nonzero s HT) Hn Hv) as [T' I'].
  eexists; split; [reflexivity|].
  set (s' := mkClock _ _ _ _ _ _ _ _) in *.
  split; [|split; [reflexivity|]].
  - split; [exact T'|split; [exact I'|]]. apply (MInv_same s s'); try reflexivity. exact HM.
  - destruct (through_base s' T') as [A B]. unfold s' in A, B; cbn [base_seconds base_beats] in A, B; fold s' in A, B. split; assumption.
Qed.

(* ---- bars ---------------------------------------------------------------------------- *)
Lemma b2bars_val s b B : Typed s -> val b B ->
  val (py_beats2bars s b) ((B - toQ (base_bar_beat s)) * toQ (bars_per_beat s) + toQ (base_bar s)).
Proof. intros H Hb. ty H. unfold py_beats2bars. vals. Qed.
Lemma bars2b_val s b B : Typed s -> val b B ->
  val (py_bars2beats s b) ((B - toQ (base_bar s)) * toQ (beats_per_bar s) + toQ (base_bar_beat s)).
Proof. intros H Hb. ty H. unfold py_bars2beats. vals. Qed.

Lemma bars_of_beats_inv s b : Typed s -> MInv s -> ok b ->
  val (py_bars2beats s (py_beats2bars s b)) (toQ b).
Proof.
  intros H (HM & _) Hb. eapply val_eq.
  - apply bars2b_val; [exact H|]. apply b2bars_val; [exact H|]. apply val_refl; exact Hb.
  - apply inv_alg'. rewrite Qmult_comm. exact HM.
Qed.
Lemma beats_of_bars_inv s b : Typed s -> MInv s -> ok b ->
  val (py_beats2bars s (py_bars2beats s b)) (toQ b).
Proof.
  intros H (HM & _) Hb. eapply val_eq.
  - apply b2bars_val; [exact H|]. apply bars2b_val; [exact H|]. apply val_refl; exact Hb.
  - apply inv_alg'. exact HM.
Qed.

(* x = bar position of beat B;  c, f = its ceiling / floor *)
Lemma bar_alg B G r n p : r * p == 1 -> B == (((B - G) * r + n) - n) * p + G.
Proof.
  intros H. setoid_replace ((((B - G) * r + n) - n) * p + G) with ((B - G) * (r * p) + G) by ring.
  rewrite H. ring.
Qed.

Lemma next_bar_spec s b : Typed s -> MInv s -> ok b ->
  exists g, val (py_next_bar_at s b) g /\ toQ b <= g /\ g < toQ b + toQ (beats_per_bar s) /\
    exists k : Z, val (py_beats2bars s (py_next_bar_at s b)) (inject_Z k).
Proof.
  intros H (HM & HP & _) Hb. unfold py_next_bar_at.
  pose proof (b2bars_val s b (toQ b) H (val_refl _ Hb)) as Vx.
  pose proof (val_ceil _ _ Vx) as Vc.
  pose proof (bars2b_val s _ _ H Vc) as Vg.
  eexists; split; [exact Vg|].
  set (x := (toQ b - toQ (base_bar_beat s)) * toQ (bars_per_beat s) + toQ (base_bar s)) in *.
  pose proof (bar_alg (toQ b) (toQ (base_bar_beat s)) (toQ (bars_per_beat s)) (toQ (base_bar s))
                (toQ (beats_per_bar s)) HM) as EB. fold x in EB.
  destruct (ceil_bounds x) as [C1 C2].
  set (c := inject_Z (Qceiling x)) in *. set (p := toQ (beats_per_bar s)) in *.
  set (G := toQ (base_bar_beat s)) in *. set (n := toQ (base_bar s)) in *.
  split; [|split].
  - set (B := toQ b) in *. clearbody c x p G n B. nra.
  - set (B := toQ b) in *. clearbody c x p G n B. nra.
  - exists (Qceiling x). eapply val_eq.
    + apply b2bars_val; [exact H|exact Vg].
    + fold c p G n. apply inv_alg'. exact HM.
Qed.

Lemma bar_val s now : Typed s -> ok now ->
  val (py_bar s now) (inject_Z (Qfloor ((toQ (py_beats s now) - toQ (base_bar_beat s)) * toQ (bars_per_beat s) + toQ (base_bar s)))).
Proof.
  intros H Hn. unfold py_bar.
  pose proof (s2b_val s now (toQ now) H (val_refl _ Hn)) as Vb. fold (py_beats s now) in Vb.
  pose proof (b2bars_val s _ _ H (val_refl _ (val_ok _ _ Vb))) as Vx.
  apply val_pfloat. apply val_floor. exact Vx.
Qed.

Lemma beat_in_bar_spec s now : Typed s -> MInv s -> ok now ->
  exists g, val (py_beat_in_bar s now) g /\ 0 <= g /\ g < toQ (beats_per_bar s).
Proof.
  intros H (HM & HP & _) Hn. unfold py_beat_in_bar.
  pose proof (s2b_val s now (toQ now) H (val_refl _ Hn)) as Vb. fold (py_beats s now) in Vb.
  pose proof (bar_val s now H Hn) as Vf.
  pose proof (bars2b_val s _ _ H Vf) as Vg.
  pose proof (val_nsub _ _ _ _ (val_refl _ (val_ok _ _ Vb)) Vg) as Vr.
  eexists; split; [exact Vr|].
  set (B := toQ (py_beats s now)) in *.
  set (x := (B - toQ (base_bar_beat s)) * toQ (bars_per_beat s) + toQ (base_bar s)) in *.
  pose proof (bar_alg B (toQ (base_bar_beat s)) (toQ (bars_per_beat s)) (toQ (base_bar s))
                (toQ (beats_per_bar s)) HM) as EB. fold x in EB.
  destruct (floor_bounds x) as [C1 C2].
  set (f := inject_Z (Qfloor x)) in *. set (p := toQ (beats_per_bar s)) in *.
  set (G := toQ (base_bar_beat s)) in *. set (n := toQ (base_bar s)) in *.
  clearbody f x p G n B. split; nra.
Qed.

Lemma meter_set_wf s now v : WF s -> fl now -> ok v -> 0 < toQ v ->
  exists s', py_beats_per_bar_set s now v = Some s' /\ WF s' /\
    (forall x, py_secs2beats s' x = py_secs2beats s x) /\
    (forall b, py_beats2secs s' b = py_beats2secs s b) /\
    base_bar_beat s' = py_beats s now /\ beats_per_bar s' = v /\
    val (py_beats2bars s' (py_beats s now)) (toQ (base_bar s')) /\
    val (py_next_bar s' now) (toQ (py_beats s now)) /\
    val (py_beat_in_bar s' now) 0 /\
    2 * toQ (base_bar s') - 1 <= 2 * toQ (py_beats2bars s (py_beats s now)) /\
    2 * toQ (py_beats2bars s (py_beats s now)) < 2 * toQ (base_bar s') + 1.
Proof.
  intros (H & HT & HM) Fn Hv HV. rewrite meter_set_eq. ty H.
  pose proof (fl_ok _ Fn) as Hn.
  pose proof (s2b_val s now (toQ now) H (val_refl _ Hn)) as Vb. fold (py_beats s now) in Vb.
  assert (Fb : fl (py_beats s now)).
  { unfold py_beats, py_secs2beats. apply fl_nadd_l; [|assumption]. apply fl_nmul_l; [|assumption].
    apply fl_nsub_l; assumption. }
  pose proof (b2bars_val s _ _ H (val_refl _ (val_ok _ _ Vb))) as Vx.
  assert (Fx : fl (py_beats2bars s (py_beats s now))).
  { unfold py_beats2bars. apply fl_nadd_r; [|assumption].
    apply (val_ok _ ((toQ (py_beats s now) - toQ (base_bar_beat s)) * toQ (bars_per_beat s))). vals.
    apply val_refl. exact (val_ok _ _ Vb). }
  destruct (round1_val _ _ Vx Fx) as [Vr Fr'].
  unfold py_beats2bars in Vr, Fr'.
  assert (Hnz : ~ toQ v == 0) by lra.
  destruct (val_ntruediv (I 1) v (inject_Z 1) (toQ v) (val_I 1) (val_refl _ Hv) Hnz) as [Vd Fd].
  eexists; split; [reflexivity|].
  set (s' := mkClock _ _ _ _ _ _ _ _) in *.
  assert (T' : Typed s').
  { unfold s', Typed; cbn. repeat split; assumption. }
  assert (M' : MInv s').
  { unfold s', MInv; cbn. split; [|split; [exact HV|]].
    - rewrite (val_toQ _ _ Vd). change (inject_Z 1) with 1. field. exact Hnz.
    - eexists. exact (val_toQ _ _ Vr). }
  split; [split; [exact T'|split; [exact HT|exact M']]|].
  split; [reflexivity|]. split; [reflexivity|]. split; [reflexivity|]. split; [reflexivity|].
  assert (V1 : val (py_beats2bars s' (py_beats s now)) (toQ (base_bar s'))).
  { eapply val_eq. apply b2bars_val; [exact T'|]. apply val_refl. exact (val_ok _ _ Vb).
    cbn [base_bar_beat s']. ring. }
  assert (B' : py_beats s' now = py_beats s now) by reflexivity.
  split; [exact V1|]. split; [|split].
  - unfold py_next_bar. cbv zeta. rewrite B'.
    pose proof (val_ceil _ _ V1) as Vc.
    destruct M' as (M1 & M2 & k & Mk).
    eapply val_eq. apply bars2b_val; [exact T'|exact Vc].
    rewrite (Qceiling_comp _ _ Mk), Qceiling_Z, <- Mk. cbn [base_bar_beat s']. ring.
  - unfold py_beat_in_bar, py_bar. rewrite B'.
    pose proof (val_pfloat _ _ (val_floor _ _ V1)) as [Vf _].
    destruct M' as (M1 & M2 & k & Mk).
    eapply val_eq. eapply val_nsub. apply val_refl; exact (val_ok _ _ Vb).
    apply bars2b_val; [exact T'|exact Vf].
    rewrite (Qfloor_comp _ _ Mk), Qfloor_Z, <- Mk. cbn [base_bar_beat s']. ring.
  - cbn [base_bar s']. rewrite (val_toQ _ _ Vr). fold (py_beats2bars s (py_beats s now)).
    rewrite (val_toQ _ _ Vx).
    set (x := (toQ (py_beats s now) - toQ (base_bar_beat s)) * toQ (bars_per_beat s) + toQ (base_bar s)).
    destruct (floor_bounds (x + (1 # 2))) as [C1 C2]. split; lra.
Qed.

(* ---- the grid -------------------------------------------------------------------------- *)
Lemma ceil_mult_bounds t y : 0 < y ->
  t <= inject_Z (Qceiling (t / y)) * y /\ inject_Z (Qceiling (t / y)) * y < t + y.
Proof.
  intros Hy. destruct (div_ceil t y) as (u & Eu & C1 & C2); [lra|].
  set (c := inject_Z (Qceiling (t / y))) in *. clearbody c. rewrite Eu. split; nra.
Qed.
Lemma ceil_mult_least t y (k : Z) : 0 < y -> t <= inject_Z k * y ->
  inject_Z (Qceiling (t / y)) * y <= inject_Z k * y.
Proof.
  intros Hy H. apply Qmult_le_compat_r; [|lra]. rewrite <- Zle_Qle. apply Qceiling_least.
  apply Qle_shift_div_r; assumption.
Qed.

Definition on_grid (g G P Y : Q) : Prop := exists k : Z, g == G + P + inject_Z k * Y.

Lemma grid_alg R G P' Y (P : Q) (j : Z) : 0 < Y -> P' == P + inject_Z j * Y ->
  let g := inject_Z (Qceiling ((R - G - P') / Y)) * Y + G + P' in
  on_grid g G P Y /\ R <= g /\ g < R + Y /\
  (forall k : Z, R <= G + P + inject_Z k * Y -> g <= G + P + inject_Z k * Y).
Proof.
  intros HY EP g. destruct (ceil_mult_bounds (R - G - P') Y HY) as [C1 C2].
  split; [|split; [|split]].
  - exists (Qceiling ((R - G - P') / Y) + j)%Z. unfold g. rewrite inject_Z_plus.
    set (c := inject_Z (Qceiling ((R - G - P') / Y))). lra.
  - unfold g. lra.
  - unfold g. lra.
  - intros k Hk.
    assert (L : R - G - P' <= inject_Z (k - j) * Y).
    { unfold Z.sub. rewrite inject_Z_plus, inject_Z_opp. lra. }
    pose proof (ceil_mult_least _ _ _ HY L) as M. unfold g.
    unfold Z.sub in M. rewrite inject_Z_plus, inject_Z_opp in M.
    set (c := inject_Z (Qceiling ((R - G - P') / Y))) in *. lra.
Qed.

Lemma grid_ref_val s q p r Y P R : fl (base_bar_beat s) -> val q Y -> val p P -> val r R ->
  0 < Y -> - Y < P -> P < Y ->
  exists P' (j : Z), P' == P + inject_Z j * Y /\
    val (py_next_time_on_grid_ref s q p r)
        (inject_Z (Qceiling ((R - toQ (base_bar_beat s) - P') / Y)) * Y + toQ (base_bar_beat s) + P').
Proof.
  intros Fg Hq Hp Hr HY H1 H2. unfold py_next_time_on_grid_ref.
  pose proof (fl_ok _ Fg) as Kg.
  assert (E1 : neqb q (I 0) = false) by (apply (neqb_false _ _ Y 0 Hq (val_I 0)); lra).
  assert (E2 : nlt q (I 0) = false) by (apply (nlt_false _ _ Y 0 Hq (val_I 0)); lra).
  rewrite E1, E2.
  destruct (Qlt_le_dec P 0) as [Neg|Pos].
  - assert (E3 : nlt p (I 0) = true) by (apply (nlt_iff _ _ P 0 Hp (val_I 0)); exact Neg).
    rewrite E3. cbv zeta.
    pose proof (mod_small_neg p q P Y Hp Hq Neg H1) as Vm.
    assert (Vm2 : val (py_mod (py_mod p q) q) (P + Y)) by (apply (mod_small_nonneg _ _ _ Y Vm Hq); lra).
    assert (Vx : val (nsub (nsub r (base_bar_beat s)) (py_mod (py_mod p q) q)) (R - toQ (base_bar_beat s) - (P + Y))) by vals.
    assert (Fx : fl (nsub (nsub r (base_bar_beat s)) (py_mod (py_mod p q) q))).
    { apply fl_nsub_l; [|exact (val_ok _ _ Vm2)]. apply fl_nsub_r; [exact (val_ok _ _ Hr)|exact Fg]. }
    destruct (roundup_val _ _ _ _ Vx Fx Hq HY) as [Vr _].
    exists (P + Y), 1%Z. split; [change (inject_Z 1) with 1; ring|]. vals.
  - assert (E3 : nlt p (I 0) = false) by (apply (nlt_false _ _ P 0 Hp (val_I 0)); exact Pos).
    rewrite E3.
    pose proof (mod_small_nonneg p q P Y Hp Hq Pos H2) as Vm.
    assert (Vx : val (nsub (nsub r (base_bar_beat s)) (py_mod p q)) (R - toQ (base_bar_beat s) - P)) by vals.
    assert (Fx : fl (nsub (nsub r (base_bar_beat s)) (py_mod p q))).
    { apply fl_nsub_l; [|exact (val_ok _ _ Vm)]. apply fl_nsub_r; [exact (val_ok _ _ Hr)|exact Fg]. }
    destruct (roundup_val _ _ _ _ Vx Fx Hq HY) as [Vr _].
    exists P, 0%Z. split; [change (inject_Z 0) with 0; ring|]. vals.
Qed.

Lemma grid_ref_spec s q p r : fl (base_bar_beat s) -> ok q -> ok p -> ok r ->
  0 < toQ q -> - toQ q < toQ p -> toQ p < toQ q ->
  exists g, val (py_next_time_on_grid_ref s q p r) g /\
    on_grid g (toQ (base_bar_beat s)) (toQ p) (toQ q) /\ toQ r <= g /\ g < toQ r + toQ q /\
    (forall k : Z, toQ r <= toQ (base_bar_beat s) + toQ p + inject_Z k * toQ q ->
                   g <= toQ (base_bar_beat s) + toQ p + inject_Z k * toQ q).
Proof.
  intros Fg Hq Hp Hr HY H1 H2.
  destruct (grid_ref_val s q p r _ _ _ Fg (val_refl _ Hq) (val_refl _ Hp) (val_refl _ Hr) HY H1 H2)
    as (P' & j & EP & V).
  eexists; split; [exact V|]. apply (grid_alg _ _ _ _ _ j HY EP).
Qed.

Lemma grid_quant0 s q p r : ok q -> toQ q == 0 -> ok p -> ok r ->
  val (py_next_time_on_grid_ref s q p r) (toQ r + toQ p).
Proof.
  intros Hq H0 Hp Hr. unfold py_next_time_on_grid_ref.
  assert (E1 : neqb q (I 0) = true) by (apply (neqb_iff _ _ (toQ q) 0 (val_refl _ Hq) (val_I 0)); exact H0).
  rewrite E1. apply val_nadd; apply val_refl; assumption.
Qed.
Lemma grid_negative_raises s q p r : ok q -> toQ q < 0 -> py_next_time_on_grid_ref s q p r = NErr.
Proof.
  intros Hq H0. unfold py_next_time_on_grid_ref.
  assert (E1 : neqb q (I 0) = false) by (apply (neqb_false _ _ (toQ q) 0 (val_refl _ Hq) (val_I 0)); lra).
  assert (E2 : nlt q (I 0) = true) by (apply (nlt_iff _ _ (toQ q) 0 (val_refl _ Hq) (val_I 0)); exact H0).
  rewrite E1, E2. reflexivity.
Qed.
Lemma grid_now_is_ref s now q p :
  py_next_time_on_grid s now q p = py_next_time_on_grid_ref s q p (py_beats s now).
Proof. reflexivity. Qed.
Lemma next_bar_now_is_at s now : py_next_bar s now = py_next_bar_at s (py_beats s now).
Proof. reflexivity. Qed.

(* play: the task wakes at the beat that next_time_on_grid returned *)
Lemma play_wakes_on_grid s now a : Typed s -> TInv s ->
  ok (py_next_time_on_grid s now (fst (as_quant a)) (snd (as_quant a))) ->
  val (wake_beat s (play_beat s now a)) (toQ (py_next_time_on_grid s now (fst (as_quant a)) (snd (as_quant a)))) /\
  wake_seconds s (play_beat s now a) = py_beats2secs s (py_next_time_on_grid s now (fst (as_quant a)) (snd (as_quant a))).
Proof.
  intros H HT Hk. split; [|reflexivity].
  unfold wake_beat, wake_seconds, play_beat, py_play. cbv zeta.
  apply secs_of_beats_inv; assumption.
Qed.

(* ---- histories ------------------------------------------------------------------------- *)
Definition op_ok (o : op) : Prop :=
  match o with
  | OTempo now v => ok now /\ ok v /\ 0 < toQ v
  | OEtempo e v => ok e /\ ok v /\ 0 < toQ v
  | OBeats now v => ok now /\ ok v
  | OMeter now v => fl now /\ ok v /\ 0 < toQ v
  end.

Lemma typed_state_ok s : Typed s -> state_ok s = true.
Proof.
  intros H. ty H. unfold state_ok, ok in *.
  repeat match goal with K : is_ok _ = true |- _ => rewrite K; clear K end. reflexivity.
Qed.
Lemma strict_some r s' : r = Some s' -> Typed s' -> strict r = Some s'.
Proof. intros -> H. unfold strict. rewrite (typed_state_ok s' H). reflexivity. Qed.
Lemma strict_inv r s' : strict r = Some s' -> r = Some s'.
Proof. unfold strict. destruct r as [s|]; [|discriminate]. destruct (state_ok s); [tauto|discriminate]. Qed.

Lemma step_wf s o : WF s -> 0 < toQ (tempo s) -> op_ok o ->
  exists s', step s o = Some s' /\ WF s' /\ 0 < toQ (tempo s').
Proof.
  intros W Ht Ho. destruct o as [now v|e v|now v|now v]; cbn [step op_ok] in *.
  - destruct Ho as (A & B & C). destruct (tempo_set_wf s now v W Ht A B C) as (s' & E & W' & T' & _).
    exists s'. split; [apply strict_some; [exact E|exact (proj1 W')]|split; [assumption|]]. rewrite T'. exact C.
  - destruct Ho as (A & B & C). assert (N : ~ toQ v == 0) by lra.
    destruct (etempo_wf s e v W A B N) as (s' & E & W' & T' & _).
    exists s'. split; [apply strict_some; [exact E|exact (proj1 W')]|split; [assumption|]]. rewrite T'. exact C.
  - destruct Ho as (A & B). destruct (beats_set_wf s now v W A B) as (s' & E & W' & T' & _).
    exists s'. split; [apply strict_some; [exact E|exact (proj1 W')]|split; [assumption|]]. rewrite T'. exact Ht.
  - destruct Ho as (A & B & C). destruct (meter_set_wf s now v W A B C) as (s' & E & W' & _).
    exists s'. split; [apply strict_some; [exact E|exact (proj1 W')]|split; [assumption|]].
    rewrite meter_set_eq in E. injection E as <-. exact Ht.
Qed.

Lemma run_wf h : forall s, WF s -> 0 < toQ (tempo s) -> Forall op_ok h ->
  exists s', run s h = Some s' /\ WF s' /\ 0 < toQ (tempo s').
Proof.
  induction h as [|o r IH]; intros s W Ht F.
  - exists s. split; [reflexivity|split; assumption].
  - inversion F as [|? ? Ho Fr]; subst. destruct (step_wf s o W Ht Ho) as (s1 & E & W1 & T1).
    cbn [run]. rewrite E. apply IH; assumption.
Qed.

(* the constructor.  `seconds` given (ANY number, 0 included): the map goes through (seconds, beats);
   `seconds` omitted: through (now, beats).  [The original `seconds or now` took an explicit 0 for
   "not given": proposed fix build/proposed_fixes/C12_ctor_seconds_zero.diff.] *)
Lemma por_spec a c : ok a -> ok c -> ok (por a c) /\
  ((~ toQ a == 0 -> toQ (por a c) == toQ a) /\ (toQ a == 0 -> por a c = c)).
Proof.
  intros Ha Hc. destruct a; okd; unfold por, truth; cbn [toQ];
    match goal with |- context [Qeq_bool ?u 0] => destruct (Qeq_bool_spec u 0) as [E|E] end; cbn [negb];
    repeat split; try assumption; try reflexivity; intros; try contradiction; try reflexivity.
Qed.

Lemma init_shape t b S : ok t -> ok b -> ok S -> 0 <= toQ t ->
  let t' := por t (F (1 # 1)) in
  let s := mkClock t' (ntruediv (F (1 # 1)) t') S (por b (F (0 # 1))) (F (4 # 1)) (F (1 # 4)) (F (0 # 1)) (F (0 # 1)) in
  nlt t' (F (0 # 1)) = false /\ WF s /\ 0 < toQ (tempo s) /\ (0 < toQ t -> toQ (tempo s) == toQ t) /\
  val (py_secs2beats s S) (toQ b).
Proof.
  intros Ht Hb HS H0 t' s.
  destruct (por_spec t (F 1) Ht eq_refl) as (Kt & Pt1 & Pt2).
  destruct (por_spec b (F 0) Hb eq_refl) as (Kb & Pb1 & Pb2).
  fold t' in Kt, Pt1, Pt2.
  assert (Tpos : 0 < toQ t').
  { destruct (Qeq_dec (toQ t) 0) as [E|E].
    - rewrite (Pt2 E). cbn. lra.
    - rewrite (Pt1 E). lra. }
  assert (E1 : nlt t' (F (0 # 1)) = false) by (apply (nlt_false _ _ (toQ t') 0 (val_refl _ Kt) (val_F 0)); lra).
  assert (Hnz : ~ toQ t' == 0) by lra.
  destruct (val_ntruediv (F 1) t' 1 (toQ t') (val_F 1) (val_refl _ Kt) Hnz) as [Hd Hf].
  assert (T : Typed s).
  { unfold s, Typed; cbn. repeat split; try assumption; try reflexivity. exact (fl_ok _ Hf). }
  split; [exact E1|]. split; [split; [exact T|split]|split; [exact Tpos|split]].
  - unfold s, TInv; cbn. rewrite (val_toQ _ _ Hd). field. exact Hnz.
  - unfold s, MInv; cbn. split; [reflexivity|split; [reflexivity|]]. exists 0%Z. reflexivity.
  - intros Hp. cbn. apply Pt1. lra.
  - eapply val_eq. apply s2b_val; [exact T|apply val_refl; exact HS].
    unfold s; cbn [base_seconds base_beats tempo].
    destruct (Qeq_dec (toQ b) 0) as [E|E].
    + rewrite (Pb2 E). cbn [toQ]. rewrite E. ring.
    + rewrite (Pb1 E). ring.
Qed.

Lemma init_given now t b x : ok now -> ok t -> ok b -> ok x -> 0 <= toQ t ->
  exists s, py_init clock_blank now t b x = Some s /\ WF s /\ 0 < toQ (tempo s) /\
    (0 < toQ t -> toQ (tempo s) == toQ t) /\ val (py_secs2beats s x) (toQ b).
Proof.
  intros Hn Ht Hb Hx H0. destruct (init_shape t b x Ht Hb Hx H0) as (E1 & R).
  unfold py_init. rewrite E1. eexists; split; [reflexivity|]. exact R.
Qed.
Lemma init_default now t b : ok now -> ok t -> ok b -> 0 <= toQ t ->
  exists s, py_init_now clock_blank now t b = Some s /\ WF s /\ 0 < toQ (tempo s) /\
    (0 < toQ t -> toQ (tempo s) == toQ t) /\ val (py_secs2beats s now) (toQ b).
Proof.
  intros Hn Ht Hb H0. destruct (init_shape t b now Ht Hb Hn H0) as (E1 & R).
  unfold py_init_now. rewrite E1. eexists; split; [reflexivity|]. exact R.
Qed.

Lemma init_wf now t b x : ok now -> ok t -> ok b -> ok x -> 0 <= toQ t ->
  exists s, py_init clock_blank now t b x = Some s /\ WF s /\ 0 < toQ (tempo s) /\
    (0 < toQ t -> toQ (tempo s) == toQ t) /\
    (~ toQ x == 0 -> val (py_secs2beats s x) (toQ b)).
Proof.
  intros Hn Ht Hb Hx H0. destruct (init_given now t b x Hn Ht Hb Hx H0) as (s & E & W & T & A & B).
  exists s. repeat (split; [assumption|]). intros _. exact B.
Qed.

(* ---- the statements of props/C12.v that are projections of the lemmas above ------------- *)
Lemma inverse_both s b x : Typed s -> TInv s -> ok b -> ok x ->
  val (py_secs2beats s (py_beats2secs s b)) (toQ b) /\ val (py_beats2secs s (py_secs2beats s x)) (toQ x).
Proof. intros. split; [apply secs_of_beats_inv|apply beats_of_secs_inv]; assumption. Qed.
Lemma bars_inverse_both s b r : Typed s -> MInv s -> ok b -> ok r ->
  val (py_bars2beats s (py_beats2bars s b)) (toQ b) /\ val (py_beats2bars s (py_bars2beats s r)) (toQ r).
Proof. intros. split; [apply bars_of_beats_inv|apply beats_of_bars_inv]; assumption. Qed.

Section GridProjections.
  Variables (s : clockstate) (q p r : num).
  Hypotheses (Fg : fl (base_bar_beat s)) (Hq : ok q) (Hp : ok p) (Hr : ok r)
             (HY : 0 < toQ q) (H1 : - toQ q < toQ p) (H2 : toQ p < toQ q).
  Lemma grid_congruent_l : exists g, val (py_next_time_on_grid_ref s q p r) g /\
    on_grid g (toQ (base_bar_beat s)) (toQ p) (toQ q).
  Proof. destruct (grid_ref_spec s q p r Fg Hq Hp Hr HY H1 H2) as (g & V & A & B & C & D). eauto. Qed.
  Lemma grid_not_before_l : exists g, val (py_next_time_on_grid_ref s q p r) g /\ toQ r <= g.
  Proof. destruct (grid_ref_spec s q p r Fg Hq Hp Hr HY H1 H2) as (g & V & A & B & C & D). eauto. Qed.
  Lemma grid_minimal_l : exists g, val (py_next_time_on_grid_ref s q p r) g /\ g < toQ r + toQ q /\
    forall k : Z, toQ r <= toQ (base_bar_beat s) + toQ p + inject_Z k * toQ q ->
                  g <= toQ (base_bar_beat s) + toQ p + inject_Z k * toQ q.
  Proof. destruct (grid_ref_spec s q p r Fg Hq Hp Hr HY H1 H2) as (g & V & A & B & C & D). eauto. Qed.
End GridProjections.

Lemma ttnb_range s now a : Typed s -> ok now ->
  ok (fst (as_quant a)) -> ok (snd (as_quant a)) -> 0 < toQ (fst (as_quant a)) ->
  - toQ (fst (as_quant a)) < toQ (snd (as_quant a)) -> toQ (snd (as_quant a)) < toQ (fst (as_quant a)) ->
  exists d, val (ttnb s now a) d /\ 0 <= d /\ d < toQ (fst (as_quant a)).
Proof.
  intros H Hn Hq Hp HY H1 H2. ty H. unfold ttnb, py_time_to_next_beat. cbv zeta.
  pose proof (s2b_val s now (toQ now) H (val_refl _ Hn)) as Vb. fold (py_beats s now) in Vb.
  rewrite grid_now_is_ref.
  destruct (grid_ref_spec s _ _ (py_beats s now) Fg Hq Hp (val_ok _ _ Vb) HY H1 H2) as (g & V & A & B & C & D).
  exists (g - toQ (py_beats s now)). split; [|split; lra].
  apply val_nsub; [exact V|apply val_refl; exact (val_ok _ _ Vb)].
Qed.

Lemma next_bar_not_before_l s b : Typed s -> MInv s -> ok b ->
  exists g, val (py_next_bar_at s b) g /\ toQ b <= g /\ g < toQ b + toQ (beats_per_bar s).
Proof. intros H M Hb. destruct (next_bar_spec s b H M Hb) as (g & V & A & B & C). eauto. Qed.
Lemma next_bar_is_barline_l s b : Typed s -> MInv s -> ok b ->
  exists k : Z, val (py_beats2bars s (py_next_bar_at s b)) (inject_Z k).
Proof. intros H M Hb. destruct (next_bar_spec s b H M Hb) as (g & V & A & B & C). exact C. Qed.
