(* C18 (a) -- proofs about the matcher model: derivatives decide the language, fullmatch vs
   prefix match, literal patterns, the OSC 1.0 token language. *)
From Coq Require Import ZArith List Bool Lia.
Import ListNotations.
Require Import SC3.model.OscMatch.
Open Scope Z_scope.

(* ---- Brzozowski ------------------------------------------------------------------------ *)
Lemma nullable_correct : forall r, nullable r = true <-> lang r [].
Proof.
  induction r as [| | c | excl | neg items | a IHa b IHb | a IHa b IHb | a IHa]; simpl.
  - split; intro H; [discriminate | inversion H].
  - split; intro H; [constructor | reflexivity].
  - split; intro H; [discriminate | inversion H].
  - split; intro H; [discriminate | inversion H].
  - split; intro H; [discriminate | inversion H].
  - split; intro H.
    + apply andb_true_iff in H as [Ha Hb]. change (@nil Z) with (@nil Z ++ []).
      constructor; [apply IHa | apply IHb]; assumption.
    + inversion H; subst.
      match goal with h : _ ++ _ = [] |- _ => apply app_eq_nil in h; destruct h; subst end.
      apply andb_true_iff; split; [apply IHa | apply IHb]; assumption.
  - split; intro H.
    + apply orb_true_iff in H as [Ha | Hb]; [apply L_altl, IHa | apply L_altr, IHb]; assumption.
    + apply orb_true_iff. inversion H; subst; [left; apply IHa | right; apply IHb]; assumption.
  - split; intro H; [constructor | reflexivity].
Qed.

Lemma star_cons_inv : forall a c s, lang (RStar a) (c :: s) ->
  exists s1 s2, s = s1 ++ s2 /\ lang a (c :: s1) /\ lang (RStar a) s2.
Proof.
  intros a c s H. remember (RStar a) as r eqn:Hr. remember (c :: s) as w eqn:Hw.
  revert s Hw. induction H; intros s0 Hw; try discriminate.
  inversion Hr; subst. destruct s1 as [| x s1'].
  - simpl in Hw. apply IHlang2; [reflexivity | assumption].
  - simpl in Hw. inversion Hw; subst. exists s1', s2. repeat split; assumption.
Qed.

Lemma deriv_correct : forall r c s, lang (deriv r c) s <-> lang r (c :: s).
Proof.
  induction r as [| | d | excl | neg items | a IHa b IHb | a IHa b IHb | a IHa]; intros c s; simpl.
  - split; intro H; inversion H.
  - split; intro H; inversion H.
  - destruct (Z.eqb_spec c d) as [-> | Hne]; split; intro H.
    + inversion H; subst. constructor.
    + inversion H; subst. constructor.
    + inversion H.
    + inversion H; subst. congruence.
  - destruct (in_list c excl) eqn:E; split; intro H.
    + inversion H.
    + inversion H; subst. congruence.
    + inversion H; subst. constructor; assumption.
    + inversion H; subst. constructor.
  - destruct (xorb neg (in_items c items)) eqn:E; split; intro H.
    + inversion H; subst. constructor; assumption.
    + inversion H; subst. constructor.
    + inversion H.
    + inversion H; subst. congruence.
  - (* cat *)
    assert (Hcat : lang (RCat (deriv a c) b) s -> lang (RCat a b) (c :: s)).
    { intro H. inversion H; subst.
      match goal with |- lang _ (c :: ?x ++ ?y) => change (c :: x ++ y) with ((c :: x) ++ y) end.
      constructor; [apply IHa|]; assumption. }
    assert (Hinv : lang (RCat a b) (c :: s) ->
                   (lang a [] /\ lang b (c :: s)) \/ lang (RCat (deriv a c) b) s).
    { intro H. inversion H; subst. destruct s1 as [| x s1'].
      - left. simpl in *. subst. split; assumption.
      - right. match goal with h : _ ++ _ = _ :: _ |- _ => simpl in h; inversion h; subst end.
        constructor; [apply IHa|]; assumption. }
    destruct (nullable a) eqn:Na; split; intro H.
    + inversion H; subst.
      * apply Hcat; assumption.
      * change (c :: s) with ([] ++ c :: s). constructor; [apply nullable_correct; assumption | apply IHb; assumption].
    + destruct (Hinv H) as [[H1 H2] | H1]; [apply L_altr, IHb; assumption | apply L_altl; assumption].
    + apply Hcat; assumption.
    + destruct (Hinv H) as [[H1 H2] | H1]; [|assumption].
      apply nullable_correct in H1. congruence.
  - split; intro H; inversion H; subst.
    + apply L_altl, IHa; assumption.
    + apply L_altr, IHb; assumption.
    + apply L_altl, IHa; assumption.
    + apply L_altr, IHb; assumption.
  - split; intro H.
    + inversion H; subst.
      match goal with |- lang _ (c :: ?x ++ ?y) => change (c :: x ++ y) with ((c :: x) ++ y) end.
      apply L_star1; [apply IHa|]; assumption.
    + apply star_cons_inv in H as (s1 & s2 & -> & H1 & H2). constructor; [apply IHa|]; assumption.
Qed.

Lemma rmatch_correct : forall s r, rmatch r s = true <-> lang r s.
Proof.
  induction s as [| c s IH]; intro r; simpl.
  - apply nullable_correct.
  - rewrite IH. apply deriv_correct.
Qed.

Lemma rprefix_correct : forall s r, rprefix r s = true <-> exists s1 s2, s = s1 ++ s2 /\ lang r s1.
Proof.
  induction s as [| c s IH]; intro r; simpl.
  - rewrite orb_false_r. rewrite nullable_correct. split.
    + intro H. exists [], []. split; [reflexivity | assumption].
    + intros (s1 & s2 & Heq & H). symmetry in Heq. apply app_eq_nil in Heq as [-> _]. assumption.
  - rewrite orb_true_iff, nullable_correct, IH. split.
    + intros [H | (s1 & s2 & -> & H)].
      * exists [], (c :: s). split; [reflexivity | assumption].
      * exists (c :: s1), s2. split; [reflexivity | apply deriv_correct; assumption].
    + intros (s1 & s2 & Heq & H). destruct s1 as [| x s1'].
      * left; assumption.
      * simpl in Heq. inversion Heq; subst. right. exists s1', s2. split; [reflexivity | apply deriv_correct; assumption].
Qed.

(* ---- literals ---------------------------------------------------------------------------- *)
Lemma lang_lit_re : forall w s, lang (lit_re w) s <-> s = w.
Proof.
  induction w as [| c w IH]; intro s; simpl; split; intro H.
  - inversion H; reflexivity.
  - subst; constructor.
  - inversion H as [| | | | a b s1 s2 H1 H2 | | | |]; subst. inversion H1; subst. simpl. f_equal. apply IH; assumption.
  - subst. change (c :: w) with ([c] ++ w). constructor; [constructor | apply IH; reflexivity].
Qed.

Lemma plain_not : forall c, plain c = true ->
  is_escaped c = false /\ c <> ch_lbrace /\ c <> ch_comma /\ c <> ch_rbrace /\ c <> ch_star /\
  c <> ch_quest /\ c <> ch_lbrk /\ c <> ch_rbrk /\ c <> ch_bar /\ c <> ch_rpar /\ c <> ch_bsl /\
  c <> ch_dot /\ c <> ch_lpar /\ c <> ch_plus /\ c <> ch_caret /\ c <> ch_dollar.
Proof.
  intros c H. unfold plain, is_escaped, in_list in *. simpl in *.
  unfold ch_lpar, ch_rpar, ch_caret, ch_dot, ch_dollar, ch_plus, ch_bar, ch_bsl, ch_lbrace, ch_comma,
    ch_rbrace, ch_star, ch_quest, ch_lbrk, ch_rbrk in *.
  apply negb_true_iff in H.
  repeat (apply orb_false_iff in H; destruct H as [?H H]).
  repeat match goal with h : (_ =? _) = false |- _ => apply Z.eqb_neq in h end.
  repeat split; try lia.
  all: repeat (apply orb_false_iff; split); try (apply Z.eqb_neq; lia); try reflexivity.
Qed.

Lemma rewrite_plain : forall d p, forallb plain p = true -> rewrite d p = p.
Proof.
  intros d p. induction p as [| c t IH]; intro H; [reflexivity|].
  simpl in H. apply andb_true_iff in H as [Hc Ht]. specialize (IH Ht).
  destruct (plain_not c Hc) as (He & H1 & H2 & H3 & H4 & H5 & H6 & H7 & _).
  simpl. rewrite He.
  apply Z.eqb_neq in H1, H2, H3, H4, H5, H6. rewrite H1, H2, H3, H4, H5.
  destruct t as [| e t']; [reflexivity|].
  rewrite H6. simpl andb.
  assert (He2 : e =? ch_rbrk = false).
  { simpl in Ht. apply andb_true_iff in Ht as [Hpe _]. destruct (plain_not e Hpe) as (_ & _ & _ & _ & _ & _ & _ & Hr & _).
    apply Z.eqb_neq; assumption. }
  rewrite He2, andb_false_r. f_equal. exact IH.
Qed.

Lemma p_seq_plain : forall p fuel, forallb plain p = true -> (length p < fuel)%nat ->
  p_seq fuel p = POk (lit_re p) [].
Proof.
  induction p as [| c t IH]; intros fuel Hp Hf.
  - destruct fuel; [simpl in Hf; lia | reflexivity].
  - destruct fuel as [| f]; [simpl in Hf; lia|].
    simpl in Hp. apply andb_true_iff in Hp as [Hc Ht].
    destruct (plain_not c Hc) as (_ & H1 & _ & _ & H4 & H5 & H6 & _ & Hbar & Hrp & Hbs & Hdot & Hlp & Hpl & Hca & Hdo).
    apply Z.eqb_neq in H1, H4, H5, H6, Hbar, Hrp, Hbs, Hdot, Hlp, Hpl, Hca, Hdo.
    cbn [p_seq]. rewrite Hbar, Hrp, Hbs, Hdot, Hlp, H6, H4, H5, Hpl, H1, Hca, Hdo. cbn [orb].
    rewrite (IH f Ht); [reflexivity | simpl in Hf; lia].
Qed.

Lemma re_parse_plain : forall p, forallb plain p = true -> re_parse p = POk (lit_re p) [].
Proof.
  intros p Hp. unfold re_parse.
  remember (3 * length p + 4)%nat as fuel eqn:Hf.
  destruct fuel as [| f]; [lia|].
  cbn [p_alt]. rewrite (p_seq_plain p f Hp) by lia. reflexivity.
Qed.

Lemma literal_matches_only_itself : forall d p a, forallb plain p = true ->
  (osc_rematch_gen d true p a = MTrue <-> a = p).
Proof.
  intros d p a Hp. unfold osc_rematch_gen. rewrite (rewrite_plain d p Hp), (re_parse_plain p Hp).
  destruct (rmatch (lit_re p) a) eqn:E.
  - apply rmatch_correct, lang_lit_re in E. split; auto.
  - split; [discriminate|]. intro H. subst a.
    assert (rmatch (lit_re p) p = true) by (apply rmatch_correct, lang_lit_re; reflexivity). congruence.
Qed.

(* a literal pattern followed by anything is NOT matched by a proper prefix/extension *)
Lemma literal_no_suffix : forall p x s, forallb plain p = true -> osc_rematch p (p ++ x :: s) = MFalse.
Proof.
  intros p x s Hp. unfold osc_rematch, osc_rematch_gen. rewrite (rewrite_plain _ p Hp), (re_parse_plain p Hp).
  destruct (rmatch (lit_re p) (p ++ x :: s)) eqn:E; [|reflexivity].
  apply rmatch_correct, lang_lit_re in E. exfalso.
  assert (H : length (p ++ x :: s) = length p) by (rewrite E; reflexivity).
  rewrite app_length in H. simpl in H. lia.
Qed.

Lemma whole_match_in_language : forall d p a, osc_rematch_gen d true p a = MTrue ->
  exists r, re_parse (rewrite d p) = POk r [] /\ lang r a.
Proof.
  intros d p a H. unfold osc_rematch_gen in H.
  destruct (re_parse (rewrite d p)) as [r rest | |] eqn:E; try discriminate.
  assert (rest = []) as ->.
  { unfold re_parse in E. destruct (p_alt _ _) as [r' [|? ?] | |]; inversion E; reflexivity. }
  exists r. split; [reflexivity|].
  destruct (rmatch r a) eqn:M; [apply rmatch_correct; assumption | discriminate].
Qed.

Lemma prefix_match_in_language : forall d p a, osc_rematch_gen d false p a = MTrue <->
  exists r rest, re_parse (rewrite d p) = POk r rest /\ exists a1 a2, a = a1 ++ a2 /\ lang r a1.
Proof.
  intros d p a. unfold osc_rematch_gen. destruct (re_parse (rewrite d p)) as [r rest | |]; split.
  - destruct (rprefix r a) eqn:M; [|discriminate]. intros _. exists r, rest. split; [reflexivity|].
    apply rprefix_correct; assumption.
  - intros (r' & rest' & E & Hex). inversion E; subst. apply rprefix_correct in Hex. rewrite Hex. reflexivity.
  - discriminate.
  - intros (? & ? & E & _); discriminate.
  - discriminate.
  - intros (? & ? & E & _); discriminate.
Qed.

(* ---- the OSC 1.0 token language = the language of the compiled regex --------------------------- *)
Lemma lang_star_any : forall excl w, lang (RStar (RAny excl)) w <-> forallb (fun c => negb (in_list c excl)) w = true.
Proof.
  intros excl w. split.
  - intro H. remember (RStar (RAny excl)) as r eqn:Hr.
    induction H as [| | | | | | | a | a s1 s2 H1 _ H2 IH2]; try discriminate.
    + reflexivity.
    + inversion Hr; subst a. inversion H1; subst. simpl. rewrite (IH2 eq_refl).
      match goal with h : in_list _ _ = false |- _ => rewrite h end. reflexivity.
  - induction w as [| c w IH]; intro H; [constructor|].
    simpl in H. apply andb_true_iff in H as [Hc Hw]. change (c :: w) with ([c] ++ w).
    apply L_star1; [constructor; apply negb_true_iff; assumption | apply IH; assumption].
Qed.

Lemma forallb_ext_l : forall (A : Type) (f g : A -> bool) l, (forall x, f x = g x) -> forallb f l = forallb g l.
Proof. intros A f g l H. induction l as [| x l IH]; simpl; [reflexivity | rewrite H, IH; reflexivity]. Qed.

Lemma in_list_slash : forall c, in_list c [ch_slash] = negb (wild_ok c).
Proof. intro c. unfold in_list, wild_ok. simpl. rewrite orb_false_r, negb_involutive. reflexivity. Qed.

Lemma neg_class_slash : forall c items,
  xorb true (in_items c ((ch_slash, ch_slash) :: items)) = negb (in_items c items) && wild_ok c.
Proof.
  intros c items. unfold in_items, wild_ok, ch_slash. simpl.
  destruct (Z.eqb_spec c 47) as [-> | Hne].
  - simpl. rewrite andb_false_r. reflexivity.
  - assert (E : (47 <=? c) && (c <=? 47) = false).
    { apply andb_false_iff. destruct (Z.leb_spec 47 c); [right; apply Z.leb_gt; lia | left; reflexivity]. }
    rewrite E. simpl. rewrite andb_true_r. reflexivity.
Qed.

Lemma lang_alts_re : forall alts w, lang (alts_re alts) w <-> In w alts.
Proof.
  induction alts as [| v alts IH]; intro w; simpl; split; intro H.
  - inversion H.
  - contradiction.
  - inversion H; subst; [left; symmetry; apply lang_lit_re; assumption | right; apply IH; assumption].
  - destruct H as [-> | H]; [apply L_altl, lang_lit_re; reflexivity | apply L_altr, IH; assumption].
Qed.

Lemma compile_correct : forall ts a, lang (compile ts) a <-> osc_lang ts a.
Proof.
  induction ts as [| t ts IH]; intro a; simpl.
  - split; intro H; inversion H; constructor.
  - split.
    + intro H. inversion H as [| | | | ra rb s1 s2 H1 H2 | | | |]; subst. apply IH in H2.
      destruct t as [c | | | neg items | alts]; simpl in H1.
      * inversion H1; subst. simpl. constructor; assumption.
      * inversion H1; subst. simpl. constructor; [|assumption].
        match goal with h : in_list _ _ = false |- _ => rewrite in_list_slash in h; apply negb_false_iff in h; assumption end.
      * apply lang_star_any in H1. constructor; [|assumption].
        rewrite <- H1. apply forallb_ext_l. intro c. rewrite in_list_slash, negb_involutive. reflexivity.
      * destruct neg; inversion H1; subst; simpl; constructor; try assumption.
        -- rewrite <- neg_class_slash. assumption.
        -- simpl in *. destruct (in_items c items); [reflexivity | discriminate].
      * apply lang_alts_re in H1. constructor; assumption.
    + intro H. inversion H; subst.
      * change (c :: a0) with ([c] ++ a0). constructor; [constructor | apply IH; assumption].
      * change (c :: a0) with ([c] ++ a0). constructor; [|apply IH; assumption]. simpl. constructor.
        rewrite in_list_slash. apply negb_false_iff. assumption.
      * constructor; [|apply IH; assumption]. simpl. apply lang_star_any.
        match goal with h : forallb wild_ok _ = true |- _ => rewrite <- h end. apply forallb_ext_l. intro c. rewrite in_list_slash, negb_involutive. reflexivity.
      * change (c :: a0) with ([c] ++ a0). constructor; [|apply IH; assumption].
        destruct neg; simpl; constructor.
        -- rewrite neg_class_slash. assumption.
        -- simpl in *. destruct (in_items c items); [reflexivity | discriminate].
      * constructor; [|apply IH; assumption]. simpl. apply lang_alts_re. assumption.
Qed.
