(* C14 -- Ppar at full strength, part 3: the three theorems about the merge, by induction over the run. *)
From Coq Require Import String List Morphisms Permutation Sorting.
Require Import SC3.proofs.NumTac SC3.gen.Gen_builtins SC3.proofs.C12_num SC3.model.TaskQ SC3.model.Event.
Require Import SC3.proofs.C09_order SC3.proofs.C14_play SC3.proofs.C14_stream SC3.proofs.C14_pdur SC3.proofs.C14_ppar.
Require Import SC3.proofs.C14_merge.
Import ListNotations.
Open Scope Q_scope.

Section Thm.
Variables (K : kern) (inev : event).

(* ---- T1: the outputs of child c are c's own timeline ------------------------------------------------------------ *)
(* c's own timeline from time t: its events with the times start + sum of its own preceding deltas *)
Fixpoint ctimeline (t : Q) (l : list event) : list (Q * event) :=
  match l with
  | [] => []
  | e :: r => (t, e) :: ctimeline (t + cdelta K e) r
  end.
Definition from_child (c : nat) (o : pout) : bool :=
  match po_src o with Some i => Nat.eqb i c | None => false end.
Definition of_child (c : nat) (outs : list pout) : list pout := filter (from_child c) outs.
(* an output is that event of the child: same time, same event except for the delta Ppar rewrites *)
Definition own (o : pout) (te : Q * event) : Prop :=
  toQ (po_time o) == fst te /\ exists dv, po_ev o = put "delta" dv (as_event (snd te)).

Lemma ctimeline_shift : forall l outs t t', Forall2 own outs (ctimeline t l) -> t == t' -> Forall2 own outs (ctimeline t' l).
Proof.
  induction l as [|e r IH]; intros outs t t' H E; cbn in *; [exact H|].
  inversion H as [|o te os tl [Ho1 Ho2] Hr]; subst. constructor.
  - split; [cbn in *; rewrite Ho1; exact E|exact Ho2].
  - apply (IH _ (t + cdelta K e)); [exact Hr|rewrite E; reflexivity].
Qed.

Lemma par_child_timeline : forall fuel q now ls c, pinv K q now ls -> (meas (fst q) ls <= fuel)%nat ->
  match qtime c (fst q) with
  | Some tc => Forall2 own (of_child c (par_run K inev fuel q now ls)) (ctimeline tc (nth c ls []))
  | None => of_child c (par_run K inev fuel q now ls) = []
  end.
Proof.
  induction fuel as [|f IH]; intros q now ls c Hinv Hm.
  - destruct q as [[|x r] n]; cbn [fst] in *; [reflexivity|cbn in Hm; lia].
  - destruct q as [[|x r] n]; [reflexivity|].
    destruct (pinv_now _ _ _ _ Hinv) as [a [Ea Eh]]. cbn [fst] in Eh. subst now a.
    pose proof (p_q _ _ _ _ Hinv) as Hq. destruct (qinv_tail _ _ _ _ Hq) as [Hqt Hnin].
    assert (Hjs : Forall (fun y => exists j, itask y = Z.of_nat j) r).
    { eapply Forall_impl; [|exact (q_task _ _ Hqt)]. intros y [j [Ej _]]. exists j. exact Ej. }
    cbn [fst] in *.
    destruct (par_step K inev f x r n (prio x) ls Hinv)
      as [i Ei Hnth Er Hrun | i y r' Ei Hi Hnth Er Hrun Hinv' | i e0 li y r' Ei Hi Hnth He0 Eq2 Hrun Hinv'].
    + (* the last child has ended *)
      rewrite Hrun. cbn [qtime]. subst r. cbn [qtime]. rewrite Ei.
      destruct (Z.eqb_spec (Z.of_nat i) (Z.of_nat c)) as [E|E]; [|reflexivity].
      apply Nat2Z.inj in E. subst c. rewrite Hnth. constructor.
    + (* a child has ended, the others go on *)
      rewrite Hrun. unfold of_child. cbn [filter from_child po_src]. fold (of_child c (par_run K inev f (r, n) (F (prio y)) (set_nth i [] ls))).
      assert (Hm' : (meas r (set_nth i [] ls) <= f)%nat).
      { rewrite meas_set_nth_other; [|rewrite <- Ei; exact Hnin|exact Hjs].
        cbn [meas] in Hm. lia. }
      pose proof (IH (r, n) (F (prio y)) (set_nth i [] ls) c Hinv' Hm') as H. cbn [fst] in H.
      cbn [qtime]. rewrite Ei.
      destruct (Z.eqb_spec (Z.of_nat i) (Z.of_nat c)) as [E|E].
      * apply Nat2Z.inj in E. subst c. rewrite Hnth. cbn [ctimeline].
        rewrite (qtime_none i r) in H; [rewrite H; constructor|rewrite <- Ei; exact Hnin].
      * assert (Nic : i <> c) by (intros E'; apply E; subst; reflexivity).
        rewrite nth_set_nth_other in H by exact Nic. exact H.
    + (* an event of child i *)
      rewrite Hrun. unfold of_child. cbn [filter from_child po_src].
      set (q2 := qadd (toQ (nadd (F (prio x)) (pfloat (vnum (ev_call K (as_event e0) "delta"))))) (itask x) (r, n)) in *.
      fold (of_child c (par_run K inev f q2 (F (prio y)) (set_nth i li ls))).
      assert (Eq2' : fst q2 = insert_by ikey (toQ (nadd (F (prio x)) (pfloat (vnum (ev_call K (as_event e0) "delta")))), n, itask x) r).
      { unfold q2. rewrite qadd_eq. cbn [fst]. rewrite (remove_task_absent _ _ Hnin). reflexivity. }
      assert (Hm' : (meas (fst q2) (set_nth i li ls) <= f)%nat).
      { rewrite Eq2'. rewrite (meas_perm _ _ _ (insert_by_perm _ ikey _ r)). cbn [meas itask snd].
        rewrite meas_set_nth_other; [|rewrite <- Ei; exact Hnin|exact Hjs].
        change (snd x) with (itask x) in *. rewrite Ei, Nat2Z.id. rewrite nth_set_nth_same by exact Hi.
        cbn [meas] in Hm. rewrite Ei, Nat2Z.id, Hnth in Hm. cbn [List.length] in Hm. lia. }
      pose proof (IH q2 (F (prio y)) (set_nth i li ls) c Hinv' Hm') as H.
      cbn [qtime]. rewrite Ei.
      destruct (Z.eqb_spec (Z.of_nat i) (Z.of_nat c)) as [E|E].
      * apply Nat2Z.inj in E. subst c. rewrite Nat.eqb_refl. rewrite Hnth. cbn [ctimeline]. constructor.
        -- split; [reflexivity|]. cbn [po_ev snd]. eexists. reflexivity.
        -- rewrite Eq2' in H. rewrite qtime_insert_same in H; [|exact Ei|rewrite <- Ei; exact Hnin].
           rewrite nth_set_nth_same in H by exact Hi.
           eapply ctimeline_shift; [exact H|]. unfold prio at 1. cbn [fst]. apply tnext_val. exact He0.
      * assert (Nic : i <> c) by (intros E'; apply E; subst; reflexivity).
        assert (B : Nat.eqb i c = false) by (apply Nat.eqb_neq; exact Nic). rewrite B.
        rewrite Eq2' in H. rewrite qtime_insert_other in H by (cbn [itask snd]; change (snd x) with (itask x); rewrite Ei; exact E).
        rewrite nth_set_nth_other in H by exact Nic. exact H.
Qed.

(* ---- T2: the popped keys increase strictly ------------------------------------------------------------------------ *)
Definition key_lt (a b : pout) : Prop := klt (po_key a) (po_key b).

Lemma klt_le_trans : forall a b c, klt a b -> ~ klt c b -> klt a c.
Proof. intros a b c H N. destruct (klt_negtrans a c b H) as [L|L]; [exact L|contradiction]. Qed.

Lemma par_keys_increase : forall fuel q now ls, pinv K q now ls ->
  StronglySorted key_lt (par_run K inev fuel q now ls) /\
  Forall (fun o => match fst q with [] => True | x :: _ => ~ klt (po_key o) (ikey x) end) (par_run K inev fuel q now ls) /\
  Forall (fun o => toQ (po_time o) = fst (po_key o)) (par_run K inev fuel q now ls).
Proof.
  induction fuel as [|f IH]; intros q now ls Hinv.
  - cbn. repeat split; constructor.
  - destruct q as [[|x r] n]; [cbn; repeat split; constructor|].
    destruct (pinv_now _ _ _ _ Hinv) as [a [Ea Eh]]. cbn [fst] in Eh. subst now a.
    pose proof (p_q _ _ _ _ Hinv) as Hq. destruct (qinv_tail _ _ _ _ Hq) as [Hqt Hnin].
    cbn [fst].
    assert (Main : forall q' now' ls' o0, pinv K q' now' ls' -> po_key o0 = ikey x -> toQ (po_time o0) = fst (po_key o0) ->
              (forall y, In y (fst q') -> klt (ikey x) (ikey y)) ->
              StronglySorted key_lt (o0 :: par_run K inev f q' now' ls') /\
              Forall (fun o => ~ klt (po_key o) (ikey x)) (o0 :: par_run K inev f q' now' ls') /\
              Forall (fun o => toQ (po_time o) = fst (po_key o)) (o0 :: par_run K inev f q' now' ls')).
    { intros q' now' ls' o0 Hinv' Ek Et Hlt. destruct (IH q' now' ls' Hinv') as [S1 [S2 S3]].
      assert (B : Forall (fun o => klt (ikey x) (po_key o)) (par_run K inev f q' now' ls')).
      { destruct (fst q') as [|y r'] eqn:Eq'.
        - (* the run from an empty queue is empty *)
          destruct f; [constructor|]. cbn [par_run]. rewrite Eq'. constructor.
        - eapply Forall_impl; [|exact S2]. intros o Ho. cbn beta in Ho.
          apply (klt_le_trans _ (ikey y)); [apply Hlt; left; reflexivity|exact Ho]. }
      split; [|split].
      - constructor; [exact S1|]. eapply Forall_impl; [|exact B]. intros o Ho. unfold key_lt. rewrite Ek. exact Ho.
      - constructor; [rewrite Ek; apply klt_irrefl|]. eapply Forall_impl; [|exact B]. intros o Ho. apply klt_asym. exact Ho.
      - constructor; [exact Et|exact S3]. }
    destruct (par_step K inev f x r n (prio x) ls Hinv)
      as [i Ei Hnth Er Hrun | i y r' Ei Hi Hnth Er Hrun Hinv' | i e0 li y r' Ei Hi Hnth He0 Eq2 Hrun Hinv'].
    + rewrite Hrun. repeat split; constructor.
    + rewrite Hrun. apply Main; [exact Hinv'|reflexivity|reflexivity|].
      intros z Hz. cbn [fst] in Hz. apply (qinv_head_strict x r n _ z Hq Hz).
    + rewrite Hrun. apply Main; [exact Hinv'|reflexivity|reflexivity|].
      intros z Hz. rewrite qadd_eq in Hz. cbn [fst] in Hz. rewrite (remove_task_absent _ _ Hnin) in Hz.
      apply (Permutation_in _ (insert_by_perm _ ikey _ r)) in Hz. destruct Hz as [Hz|Hz].
      * subst z. unfold ikey at 2. cbn [fst snd].
        pose proof (tnext_val K (prio x) e0 He0) as Hv. destruct He0 as [_ Hnn].
        pose proof (q_seq _ _ Hq) as Hs. cbn [fst snd] in Hs. inversion Hs as [|? ? Hsx _]; subst.
        unfold klt, ikey, prio, seqof in *. cbn [fst snd] in *.
        destruct (Qlt_le_dec (fst (fst x)) (toQ (nadd (F (fst (fst x))) (pfloat (vnum (ev_call K (as_event e0) "delta")))))) as [L|L].
        -- left. exact L.
        -- right. split; [lra|exact Hsx].
      * apply (qinv_head_strict x r n _ z Hq Hz).
Qed.

(* ---- T3: the output deltas telescope; their sum is the largest end time ---------------------------------------------- *)
Definition out_delta (o : pout) : Q := delta_q K (po_ev o).

Lemma par_time_prefix : forall fuel q now ls, pinv K q now ls ->
  forall k o, nth_error (par_run K inev fuel q now ls) k = Some o ->
  toQ (po_time o) == toQ now + qsum (firstn k (map out_delta (par_run K inev fuel q now ls))).
Proof.
  induction fuel as [|f IH]; intros q now ls Hinv k o H.
  - destruct k; discriminate.
  - destruct q as [[|x r] n]; [destruct k; discriminate|].
    destruct (pinv_now _ _ _ _ Hinv) as [a [Ea Eh]]. cbn [fst] in Eh. subst now a.
    destruct (par_step K inev f x r n (prio x) ls Hinv)
      as [i Ei Hnth Er Hrun | i y r' Ei Hi Hnth Er Hrun Hinv' | i e0 li y r' Ei Hi Hnth He0 Eq2 Hrun Hinv'];
      rewrite Hrun in *.
    + destruct k; discriminate.
    + destruct k as [|k]; cbn [nth_error firstn map qsum] in *.
      * inversion H; subst. cbn. ring.
      * rewrite (IH _ _ _ Hinv' k o H). unfold out_delta at 2. cbn [po_ev].
        rewrite (out_delta_rest K inev). cbn [toQ]. ring.
    + destruct k as [|k]; cbn [nth_error firstn map qsum] in *.
      * inversion H; subst. cbn. ring.
      * rewrite (IH _ _ _ Hinv' k o H). unfold out_delta at 2. cbn [po_ev].
        rewrite (out_delta_event K). cbn [toQ]. ring.
Qed.

Definition endtimes (l : list item) (ls : list (list event)) : list Q :=
  map (fun x => prio x + total K (nth (Z.to_nat (itask x)) ls [])) l.
Definition is_max (m : Q) (L : list Q) : Prop := (exists a, In a L /\ m == a) /\ (forall b, In b L -> b <= m).
Definition covers (L L' : list Q) : Prop := forall a, In a L -> exists b, In b L' /\ a == b.

Lemma is_max_transfer : forall m m' L L', is_max m' L' -> m == m' -> covers L L' -> covers L' L -> is_max m L.
Proof.
  intros m m' L L' [[a [Ha Ea]] Hub] Em C1 C2. split.
  - destruct (C2 a Ha) as [b [Hb Eb]]. exists b. split; [exact Hb|]. rewrite Em, Ea. exact Eb.
  - intros b Hb. destruct (C1 b Hb) as [b' [Hb' Eb']]. rewrite Eb', Em. apply Hub. exact Hb'.
Qed.

Lemma is_max_eq : forall m m' L, is_max m' L -> m == m' -> is_max m L.
Proof.
  intros m m' L H E. apply (is_max_transfer m m' L L H E); intros a Ha; exists a; split; [exact Ha|reflexivity|exact Ha|reflexivity].
Qed.

Lemma endtimes_other : forall l ls i v, ~ In (Z.of_nat i) (map itask l) ->
  Forall (fun x => exists j, itask x = Z.of_nat j) l -> endtimes l (set_nth i v ls) = endtimes l ls.
Proof.
  intros l ls i v. induction l as [|x r IH]; intros Hn Hf; cbn; [reflexivity|].
  cbn in Hn. pose proof (Forall_inv Hf) as [j Ej]. pose proof (Forall_inv_tail Hf) as Hr.
  unfold endtimes in IH. rewrite IH; [|intros Hin; apply Hn; right; exact Hin|exact Hr].
  rewrite nth_set_nth_other; [reflexivity|].
  intros E. rewrite Ej, Nat2Z.id in E. subst i. apply Hn. left. exact Ej.
Qed.

Lemma par_total : forall fuel q now ls, pinv K q now ls -> (meas (fst q) ls <= fuel)%nat -> fst q <> [] ->
  is_max (toQ now + qsum (map out_delta (par_run K inev fuel q now ls))) (endtimes (fst q) ls).
Proof.
  induction fuel as [|f IH]; intros q now ls Hinv Hm Hne.
  - destruct q as [[|x r] n]; cbn [fst] in *; [contradiction|cbn in Hm; lia].
  - destruct q as [[|x r] n]; [contradiction|]. clear Hne.
    destruct (pinv_now _ _ _ _ Hinv) as [a [Ea Eh]]. cbn [fst] in Eh. subst now a.
    pose proof (p_q _ _ _ _ Hinv) as Hq. destruct (qinv_tail _ _ _ _ Hq) as [Hqt Hnin].
    assert (Hjs : Forall (fun y => exists j, itask y = Z.of_nat j) r).
    { eapply Forall_impl; [|exact (q_task _ _ Hqt)]. intros y [j [Ej _]]. exists j. exact Ej. }
    cbn [fst] in *.
    destruct (par_step K inev f x r n (prio x) ls Hinv)
      as [i Ei Hnth Er Hrun | i y r' Ei Hi Hnth Er Hrun Hinv' | i e0 li y r' Ei Hi Hnth He0 Eq2 Hrun Hinv'];
      rewrite Hrun.
    + subst r. cbn [map qsum endtimes toQ]. rewrite Ei, Nat2Z.id, Hnth. unfold total. cbn [map qsum]. split.
      * eexists. split; [left; reflexivity|reflexivity].
      * intros b [Hb|[]]. subst b. lra.
    + assert (Hm' : (meas r (set_nth i [] ls) <= f)%nat).
      { rewrite meas_set_nth_other; [|rewrite <- Ei; exact Hnin|exact Hjs]. cbn [meas] in Hm. lia. }
      assert (Hne' : fst (r, n) <> []) by (cbn [fst]; rewrite Er; discriminate).
      pose proof (IH (r, n) (F (prio y)) (set_nth i [] ls) Hinv' Hm' Hne') as H. cbn [fst] in H.
      rewrite endtimes_other in H; [|rewrite <- Ei; exact Hnin|exact Hjs].
      destruct H as [[m0 [Hm0 Em0]] Hub].
      cbn [map qsum].
      apply (is_max_eq _ (toQ (F (prio y)) + qsum (map out_delta (par_run K inev f (r, n) (F (prio y)) (set_nth i [] ls))))).
      2: { unfold out_delta at 1. cbn [po_ev]. rewrite (out_delta_rest K inev). cbn [toQ]. ring. }
      split.
      * exists m0. split; [right; exact Hm0|exact Em0].
      * intros b [Hb|Hb]; [|apply Hub; exact Hb].
        (* the ended child's end time is its queue time, not later than the head of the rest *)
        subst b. rewrite Ei, Nat2Z.id, Hnth. unfold total. cbn [map qsum].
        assert (Hy : In y r) by (rewrite Er; left; reflexivity).
        pose proof (klt_prio_le _ _ (sorted_head_le _ ikey x r y (q_sorted _ _ Hq) Hy)) as Hle. unfold ikey in Hle. cbn [fst] in Hle.
        pose proof (Hub (prio y + total K (nth (Z.to_nat (itask y)) ls [])) (in_map _ _ _ Hy)) as Hy2.
        pose proof (total_nonneg K _ (lists_ok_nth K ls (Z.to_nat (itask y)) (p_ok _ _ _ _ Hinv))) as Hnn.
        unfold prio in *. lra.
    + set (q2 := qadd (toQ (nadd (F (prio x)) (pfloat (vnum (ev_call K (as_event e0) "delta"))))) (itask x) (r, n)) in *.
      assert (Eq2' : fst q2 = insert_by ikey (toQ (nadd (F (prio x)) (pfloat (vnum (ev_call K (as_event e0) "delta")))), n, itask x) r).
      { unfold q2. rewrite qadd_eq. cbn [fst]. rewrite (remove_task_absent _ _ Hnin). reflexivity. }
      assert (Hm' : (meas (fst q2) (set_nth i li ls) <= f)%nat).
      { rewrite Eq2'. rewrite (meas_perm _ _ _ (insert_by_perm _ ikey _ r)). cbn [meas itask snd].
        rewrite meas_set_nth_other; [|rewrite <- Ei; exact Hnin|exact Hjs].
        change (snd x) with (itask x) in *. rewrite Ei, Nat2Z.id. rewrite nth_set_nth_same by exact Hi.
        cbn [meas] in Hm. rewrite Ei, Nat2Z.id, Hnth in Hm. cbn [List.length] in Hm. lia. }
      assert (Hne' : fst q2 <> []) by (rewrite Eq2; discriminate).
      pose proof (IH q2 (F (prio y)) (set_nth i li ls) Hinv' Hm' Hne') as H.
      cbn [map qsum].
      eapply is_max_transfer; [exact H|unfold out_delta at 1; cbn [po_ev]; rewrite (out_delta_event K); cbn [toQ]; ring| |].
      * (* every old end time is a new one *)
        intros b Hb. cbn [endtimes map] in Hb. destruct Hb as [Hb|Hb].
        -- exists (toQ (nadd (F (prio x)) (pfloat (vnum (ev_call K (as_event e0) "delta")))) + total K li). split.
           ++ unfold endtimes. apply in_map_iff.
              exists (toQ (nadd (F (prio x)) (pfloat (vnum (ev_call K (as_event e0) "delta")))), n, itask x). split.
              ** unfold prio. cbn [fst itask snd]. change (snd x) with (itask x). rewrite Ei, Nat2Z.id.
                 rewrite nth_set_nth_same by exact Hi. reflexivity.
              ** rewrite Eq2'. apply (Permutation_in _ (Permutation_sym (insert_by_perm _ ikey _ r))). left. reflexivity.
           ++ subst b. rewrite Ei, Nat2Z.id, Hnth. rewrite (tnext_val K (prio x) e0 He0). unfold total. cbn [map qsum]. ring.
        -- exists b. split; [|reflexivity].
           assert (Hb' : In b (endtimes r (set_nth i li ls))) by (rewrite endtimes_other; [exact Hb|rewrite <- Ei; exact Hnin|exact Hjs]).
           unfold endtimes in *. apply in_map_iff in Hb'. destruct Hb' as [z [Ez Hz]]. apply in_map_iff. exists z. split; [exact Ez|].
           rewrite Eq2'. apply (Permutation_in _ (Permutation_sym (insert_by_perm _ ikey _ r))). right. exact Hz.
      * (* and conversely *)
        intros b Hb. unfold endtimes in Hb. apply in_map_iff in Hb. destruct Hb as [z [Ez Hz]].
        rewrite Eq2' in Hz. apply (Permutation_in _ (insert_by_perm _ ikey _ r)) in Hz. destruct Hz as [Hz|Hz].
        -- exists (prio x + total K (nth (Z.to_nat (itask x)) ls [])). split; [left; reflexivity|].
           subst z b. unfold prio at 1. cbn [fst itask snd]. change (snd x) with (itask x). rewrite Ei, Nat2Z.id.
           rewrite nth_set_nth_same by exact Hi. rewrite Hnth.
           rewrite (tnext_val K (prio x) e0 He0). unfold total. cbn [map qsum]. ring.
        -- exists b. split; [|reflexivity]. right.
           assert (Hb' : In b (endtimes r (set_nth i li ls))) by (unfold endtimes; apply in_map_iff; exists z; split; assumption).
           rewrite endtimes_other in Hb'; [exact Hb'|rewrite <- Ei; exact Hnin|exact Hjs].
Qed.
End Thm.
