(* C12 -- Python numbers up to their rational value.
   `val n q`: n is a number (no exception) whose exact value is q; the arithmetic of
   lib/PyNum is a homomorphism for it whatever the int/float mix of the operands, so the
   clock lemmas do not have to split on types. *)
Require Import SC3.proofs.NumTac SC3.gen.Gen_builtins.
Open Scope Q_scope.

Definition ok (n : num) : Prop := is_ok n = true.
Definition fl (n : num) : Prop := is_float n = true.
Definition val (n : num) (q : Q) : Prop := ok n /\ toQ n == q.

Lemma fl_ok n : fl n -> ok n.
Proof. destruct n; unfold fl, ok; cbn; congruence. Qed.
Lemma val_refl n : ok n -> val n (toQ n).
Proof. intros H; split; [exact H|reflexivity]. Qed.
Lemma val_eq n q q' : val n q -> q == q' -> val n q'.
Proof. intros [H1 H2] H; split; [exact H1|rewrite H2; exact H]. Qed.
Lemma val_ok n q : val n q -> ok n.
Proof. intros [H _]; exact H. Qed.
Lemma val_toQ n q : val n q -> toQ n == q.
Proof. intros [_ H]; exact H. Qed.
Lemma val_F q : val (F q) q.
Proof. split; reflexivity. Qed.
Lemma val_I z : val (I z) (inject_Z z).
Proof. split; reflexivity. Qed.

Ltac okd := unfold val, ok, fl in *; cbn [is_ok is_float toQ] in *; try congruence.

Lemma val_nadd a b x y : val a x -> val b y -> val (nadd a b) (x + y).
Proof.
  intros [Ha Hx] [Hb Hy]. destruct a, b; okd; unfold nadd, lift2; cbn [toQ is_ok];
    (split; [reflexivity|]); rewrite <- Hx, <- Hy; try reflexivity.
  all: rewrite inject_Z_plus; reflexivity.
Qed.
Lemma val_nsub a b x y : val a x -> val b y -> val (nsub a b) (x - y).
Proof.
  intros [Ha Hx] [Hb Hy]. destruct a, b; okd; unfold nsub, lift2; cbn [toQ is_ok];
    (split; [reflexivity|]); rewrite <- Hx, <- Hy; try reflexivity.
  all: unfold Z.sub; rewrite inject_Z_plus, inject_Z_opp; reflexivity.
Qed.
Lemma val_nmul a b x y : val a x -> val b y -> val (nmul a b) (x * y).
Proof.
  intros [Ha Hx] [Hb Hy]. destruct a, b; okd; unfold nmul, lift2; cbn [toQ is_ok];
    (split; [reflexivity|]); rewrite <- Hx, <- Hy; try reflexivity.
  all: rewrite inject_Z_mult; reflexivity.
Qed.
Lemma val_ntruediv a b x y : val a x -> val b y -> ~ y == 0 -> val (ntruediv a b) (x / y) /\ fl (ntruediv a b).
Proof.
  intros [Ha Hx] [Hb Hy] Hn. rewrite <- Hy in Hn.
  assert (E : Qeq_bool (toQ b) 0 = false).
  { destruct (Qeq_bool_spec (toQ b) 0); [contradiction|reflexivity]. }
  destruct a, b; okd; unfold ntruediv; cbn [toQ] in *; rewrite E;
    (split; [split; [reflexivity|cbn [toQ]; rewrite <- Hx, <- Hy; reflexivity]|reflexivity]).
Qed.

Lemma fl_nadd_l a b : fl a -> ok b -> fl (nadd a b).
Proof. destruct a, b; okd; reflexivity. Qed.
Lemma fl_nadd_r a b : ok a -> fl b -> fl (nadd a b).
Proof. destruct a, b; okd; reflexivity. Qed.
Lemma fl_nsub_l a b : fl a -> ok b -> fl (nsub a b).
Proof. destruct a, b; okd; reflexivity. Qed.
Lemma fl_nsub_r a b : ok a -> fl b -> fl (nsub a b).
Proof. destruct a, b; okd; reflexivity. Qed.
Lemma fl_nmul_l a b : fl a -> ok b -> fl (nmul a b).
Proof. destruct a, b; okd; reflexivity. Qed.
Lemma fl_nmul_r a b : ok a -> fl b -> fl (nmul a b).
Proof. destruct a, b; okd; reflexivity. Qed.

(* comparisons *)
Lemma cmp2_val f a b x y : Proper (Qeq ==> Qeq ==> eq) f -> val a x -> val b y -> cmp2 f a b = f x y.
Proof.
  intros Hf [Ha Hx] [Hb Hy]. destruct a, b; okd; unfold cmp2; cbn [toQ] in *; apply Hf; assumption.
Qed.
Lemma nlt_iff a b x y : val a x -> val b y -> (nlt a b = true <-> x < y).
Proof.
  intros Ha Hb. unfold nlt. rewrite (cmp2_val _ a b x y); try assumption.
  - unfold Qlt_bool. destruct (Qle_bool_spec y x); cbn; split; intros; try lra; congruence.
  - intros u u' Hu v v' Hv. unfold Qlt_bool. rewrite Hu, Hv. reflexivity.
Qed.
Lemma neqb_iff a b x y : val a x -> val b y -> (neqb a b = true <-> x == y).
Proof.
  intros Ha Hb. unfold neqb. rewrite (cmp2_val _ a b x y); try assumption.
  - apply Qeq_bool_iff.
  - intros u u' Hu v v' Hv. rewrite Hu, Hv. reflexivity.
Qed.
Lemma nlt_false a b x y : val a x -> val b y -> (nlt a b = false <-> y <= x).
Proof.
  intros Ha Hb. pose proof (nlt_iff a b x y Ha Hb) as H. destruct (nlt a b).
  - split; [congruence|]. intros. assert (x < y) by (apply H; reflexivity). lra.
  - split; [|reflexivity]. intros _. destruct (Qlt_le_dec x y) as [L|L]; [|exact L].
    apply H in L. congruence.
Qed.
Lemma neqb_false a b x y : val a x -> val b y -> (neqb a b = false <-> ~ x == y).
Proof.
  intros Ha Hb. pose proof (neqb_iff a b x y Ha Hb) as H. destruct (neqb a b).
  - split; [congruence|]. intros N. exfalso. apply N, H. reflexivity.
  - split; [|reflexivity]. intros _ E. apply H in E. congruence.
Qed.
Lemma nge_iff a b x y : val a x -> val b y -> (nge a b = true <-> y <= x).
Proof.
  intros Ha Hb. unfold nge. rewrite (cmp2_val _ a b x y); try assumption.
  - cbv beta. apply Qle_bool_iff.
  - intros u u' Hu v v' Hv. rewrite Hu, Hv. reflexivity.
Qed.

(* floor / ceil / float *)
Lemma val_floor a x : val a x -> val (py_floor a) (inject_Z (Qfloor x)).
Proof.
  intros [Ha Hx]. destruct a; okd; unfold py_floor, pfloor; split; try reflexivity; cbn [toQ] in *.
  - rewrite <- Hx, Qfloor_Z. reflexivity.
  - rewrite Hx. reflexivity.
Qed.
Lemma val_ceil a x : val a x -> val (py_ceil a) (inject_Z (Qceiling x)).
Proof.
  intros [Ha Hx]. destruct a; okd; unfold py_ceil, pceil; split; try reflexivity; cbn [toQ] in *.
  - rewrite <- Hx, Qceiling_Z. reflexivity.
  - rewrite Hx. reflexivity.
Qed.
Lemma val_pfloat a x : val a x -> val (pfloat a) x /\ fl (pfloat a).
Proof. intros [Ha Hx]. destruct a; okd; unfold pfloat; cbn [toQ] in *; repeat split; assumption. Qed.

(* least integer above / greatest integer below *)
Lemma Qceiling_least x (k : Z) : x <= inject_Z k -> (Qceiling x <= k)%Z.
Proof.
  intros H. destruct (Z_le_gt_dec (Qceiling x) k) as [L|G]; [exact L|exfalso].
  pose proof (ceil_bounds x) as [B _].
  assert (inject_Z k <= inject_Z (Qceiling x) - 1).
  { setoid_replace (inject_Z (Qceiling x) - 1) with (inject_Z (Qceiling x - 1)).
    - rewrite <- Zle_Qle. lia.
    - unfold Z.sub. rewrite inject_Z_plus. reflexivity. }
  lra.
Qed.

(* bi.mod inside its "avoid the divide" branches: all that next_time_on_grid needs when
   -quant < phase < quant *)
Lemma mod_small_nonneg a b x y : val a x -> val b y -> 0 <= x -> x < y -> val (py_mod a b) x.
Proof.
  intros Ha Hb H0 H1. unfold py_mod.
  assert (G : nge a b = false).
  { pose proof (nge_iff a b x y Ha Hb) as H. destruct (nge a b); [|reflexivity].
    assert (y <= x) by (apply H; reflexivity). lra. }
  rewrite G.
  assert (L : nlt a (I 0) = false) by (apply (nlt_false a (I 0) x 0 Ha (val_I 0)); exact H0).
  rewrite L. exact Ha.
Qed.
Lemma mod_small_neg a b x y : val a x -> val b y -> x < 0 -> - y < x -> val (py_mod a b) (x + y).
Proof.
  intros Ha Hb H0 H1. unfold py_mod.
  assert (G : nge a b = false).
  { pose proof (nge_iff a b x y Ha Hb) as H. destruct (nge a b); [|reflexivity].
    assert (y <= x) by (apply H; reflexivity). lra. }
  rewrite G.
  assert (L : nlt a (I 0) = true) by (apply (nlt_iff a (I 0) x 0 Ha (val_I 0)); exact H0).
  rewrite L. cbv zeta.
  pose proof (val_nadd a b x y Ha Hb) as Hs.
  assert (G2 : nge (nadd a b) (I 0) = true) by (apply (nge_iff _ _ (x + y) 0 Hs (val_I 0)); lra).
  rewrite G2. exact Hs.
Qed.

(* bi.roundup on a float first argument, any positive quantum *)
Lemma roundup_val a b x y : val a x -> fl a -> val b y -> 0 < y ->
  val (py_roundup a b) (inject_Z (Qceiling (x / y)) * y) /\ fl (py_roundup a b).
Proof.
  intros Ha Fa Hb Hy. unfold py_roundup.
  assert (E : is_int a = false) by (destruct a; okd; reflexivity). rewrite E.
  assert (N : neqb b (F (0 # 1)) = false) by (apply (neqb_false b _ y 0 Hb (val_F 0)); lra).
  rewrite N.
  assert (Hn : ~ y == 0) by lra.
  destruct (val_ntruediv a b x y Ha Hb Hn) as [Hd _].
  pose proof (val_nmul _ _ _ _ (val_ceil _ _ Hd) Hb) as Hm.
  apply val_pfloat in Hm. exact Hm.
Qed.
Lemma roundup_quant0 a b x : val a x -> fl a -> val b 0 -> val (py_roundup a b) x.
Proof.
  intros Ha Fa Hb. unfold py_roundup.
  assert (E : is_int a = false) by (destruct a; okd; reflexivity). rewrite E.
  assert (N : neqb b (F (0 # 1)) = true) by (apply (neqb_iff b _ 0 0 Hb (val_F 0)); reflexivity).
  rewrite N. apply val_pfloat. exact Ha.
Qed.

(* bi.round(x, 1) on a float first argument *)
Lemma round1_val a x : val a x -> fl a ->
  val (py_round a (I 1)) (inject_Z (Qfloor (x + (1 # 2)))) /\ fl (py_round a (I 1)).
Proof.
  intros Ha Fa. unfold py_round.
  assert (E : is_int a = false) by (destruct a; okd; reflexivity). rewrite E.
  assert (N : neqb (I 1) (F (0 # 1)) = false) by (apply (neqb_false _ _ 1 0 (val_I 1) (val_F 0)); lra).
  rewrite N.
  assert (Hn : ~ inject_Z 1 == 0) by (change (inject_Z 1) with 1; lra).
  destruct (val_ntruediv a (I 1) x (inject_Z 1) Ha (val_I 1) Hn) as [Hd _].
  pose proof (val_nadd _ _ _ _ Hd (val_F (1 # 2))) as Hs.
  pose proof (val_nmul _ _ _ _ (val_floor _ _ Hs) (val_I 1)) as Hm.
  apply val_pfloat in Hm. destruct Hm as [Hm Hf]. split; [|exact Hf].
  eapply val_eq; [exact Hm|].
  change (inject_Z 1) with 1.
  assert (Q : x / 1 + (1 # 2) == x + (1 # 2)) by (field).
  rewrite (Qfloor_comp _ _ Q). ring.
Qed.
