(* C18 (b) -- the dispatch invariant over all histories and the dispatch theorems. *)
From Coq Require Import ZArith List Bool Lia Arith.
Import ListNotations.
Require Import SC3.model.OscMatch SC3.model.OscBundleParse SC3.model.Dispatch.
Require Import SC3.proofs.C18_parse.
Open Scope Z_scope.

(* ---- equality on byte strings ---------------------------------------------------------------- *)
Lemma bytes_eqb_eq : forall a b, bytes_eqb a b = true <-> a = b.
Proof.
  unfold bytes_eqb. induction a as [| x a IH]; destruct b as [| y b]; simpl; split; intro H; try discriminate; try reflexivity.
  - apply andb_true_iff in H as [H1 H2]. apply Z.eqb_eq in H1. apply IH in H2. subst. reflexivity.
  - inversion H; subst. apply andb_true_iff. split; [apply Z.eqb_refl | apply IH; reflexivity].
Qed.
Lemma bytes_eqb_refl : forall a, bytes_eqb a a = true.
Proof. intro a. apply bytes_eqb_eq. reflexivity. Qed.
Lemma bytes_eqb_sym : forall a b, bytes_eqb a b = bytes_eqb b a.
Proof.
  intros a b. destruct (bytes_eqb a b) eqn:E.
  - apply bytes_eqb_eq in E. subst. symmetry. apply bytes_eqb_refl.
  - destruct (bytes_eqb b a) eqn:E2; [|reflexivity]. apply bytes_eqb_eq in E2. subst. rewrite bytes_eqb_refl in E. discriminate.
Qed.
Lemma bytes_eqb_neq : forall a b, bytes_eqb a b = false <-> a <> b.
Proof.
  intros a b. split.
  - intros H E. subst. rewrite bytes_eqb_refl in H. discriminate.
  - intro H. destruct (bytes_eqb a b) eqn:E; [|reflexivity]. apply bytes_eqb_eq in E. contradiction.
Qed.

(* ---- tables ------------------------------------------------------------------------------------- *)
Definition ids_at (t : table) (key : list Z) : list nat :=
  match tbl_get t key with Some l => map w_id l | None => [] end.
Definition keys (t : table) : list (list Z) := map fst t.

Fixpoint remove_first_id (id : nat) (l : list nat) : list nat :=
  match l with [] => [] | x :: r => if Nat.eqb x id then r else x :: remove_first_id id r end.

Lemma map_remove_first : forall id l, map w_id (remove_first id l) = remove_first_id id (map w_id l).
Proof.
  induction l as [| w l IH]; simpl; [reflexivity|]. destruct (Nat.eqb (w_id w) id); simpl; [reflexivity | rewrite IH; reflexivity].
Qed.

Lemma filter_neq_notin : forall id l, ~ In id l -> filter (fun j => negb (Nat.eqb j id)) l = l.
Proof.
  induction l as [| y l IH]; intro Hn; simpl; [reflexivity|].
  destruct (Nat.eqb_spec y id) as [-> | Hy]; simpl.
  - exfalso. apply Hn. left. reflexivity.
  - f_equal. apply IH. intro Hi. apply Hn. right. assumption.
Qed.

Lemma remove_first_id_filter : forall id l, NoDup l ->
  remove_first_id id l = filter (fun j => negb (Nat.eqb j id)) l.
Proof.
  induction l as [| x l IH]; intro Hnd; simpl; [reflexivity|].
  inversion Hnd as [| ? ? Hnin Hnd']; subst.
  destruct (Nat.eqb_spec x id) as [-> | Hne]; simpl.
  - symmetry. apply filter_neq_notin. assumption.
  - f_equal. apply IH. assumption.
Qed.

Lemma tbl_get_notin : forall t key, ~ In key (keys t) -> tbl_get t key = None.
Proof.
  induction t as [| [k l] t IH]; intros key Hn; simpl; [reflexivity|].
  destruct (bytes_eqb key k) eqn:E.
  - apply bytes_eqb_eq in E. subst. exfalso. apply Hn. left. reflexivity.
  - apply IH. intro Hi. apply Hn. right. assumption.
Qed.

Lemma ids_at_append : forall t p w key,
  ids_at (tbl_append t p w) key = if bytes_eqb key p then ids_at t key ++ [w_id w] else ids_at t key.
Proof.
  unfold ids_at. induction t as [| [k l] t IH]; intros p w key; simpl.
  - destruct (bytes_eqb key p); reflexivity.
  - destruct (bytes_eqb p k) eqn:Epk.
    + apply bytes_eqb_eq in Epk. subst k. simpl. destruct (bytes_eqb key p); [rewrite map_app; reflexivity | reflexivity].
    + simpl. destruct (bytes_eqb key k) eqn:Ekk.
      * apply bytes_eqb_eq in Ekk. subst k. rewrite bytes_eqb_sym in Epk. rewrite Epk. reflexivity.
      * apply IH.
Qed.

Lemma keys_append : forall t p w, NoDup (keys t) -> NoDup (keys (tbl_append t p w)).
Proof.
  induction t as [| [k l] t IH]; intros p w Hnd; simpl.
  - constructor; [intros [] | constructor].
  - destruct (bytes_eqb p k) eqn:E; simpl; [exact Hnd|].
    inversion Hnd as [| ? ? Hnin Hnd']; subst. constructor; [|apply IH; assumption].
    intro Hi. apply Hnin. clear - Hi E.
    induction t as [| [k' l'] t IHt]; simpl in *.
    + destruct Hi as [Hi | []]. subst. rewrite bytes_eqb_refl in E. discriminate.
    + destruct (bytes_eqb p k') eqn:E'; simpl in Hi; [exact Hi|].
      destruct Hi as [Hi | Hi]; [left; assumption | right; apply IHt; assumption].
Qed.

Lemma keys_remove_incl : forall t p id key, In key (keys (tbl_remove t p id)) -> In key (keys t).
Proof.
  induction t as [| [k l] t IH]; intros p id key Hi; simpl in *; [assumption|].
  destruct (bytes_eqb p k).
  - destruct (remove_first id l); simpl in Hi; [right; assumption | assumption].
  - simpl in Hi. destruct Hi as [Hi | Hi]; [left; assumption | right; eapply IH; eassumption].
Qed.

Lemma keys_remove : forall t p id, NoDup (keys t) -> NoDup (keys (tbl_remove t p id)).
Proof.
  induction t as [| [k l] t IH]; intros p id Hnd; simpl; [constructor|].
  inversion Hnd as [| ? ? Hnin Hnd']; subst.
  destruct (bytes_eqb p k).
  - destruct (remove_first id l); [assumption | simpl; constructor; assumption].
  - simpl. constructor; [|apply IH; assumption]. intro Hi. apply Hnin. eapply keys_remove_incl; eassumption.
Qed.

Lemma ids_at_remove : forall t p id key, NoDup (keys t) ->
  ids_at (tbl_remove t p id) key = if bytes_eqb key p then remove_first_id id (ids_at t key) else ids_at t key.
Proof.
  unfold ids_at. induction t as [| [k l] t IH]; intros p id key Hnd; simpl.
  - destruct (bytes_eqb key p); reflexivity.
  - inversion Hnd as [| ? ? Hnin Hnd']; subst.
    destruct (bytes_eqb p k) eqn:Epk.
    + apply bytes_eqb_eq in Epk. subst k.
      destruct (bytes_eqb key p) eqn:Ekp.
      * apply bytes_eqb_eq in Ekp. subst key.
        destruct (remove_first id l) as [| w' l'] eqn:Er.
        -- rewrite (tbl_get_notin t p Hnin). rewrite <- map_remove_first, Er. reflexivity.
        -- simpl. rewrite bytes_eqb_refl. rewrite <- map_remove_first, Er. reflexivity.
      * destruct (remove_first id l); simpl; [reflexivity | rewrite Ekp; reflexivity].
    + simpl. destruct (bytes_eqb key k) eqn:Ekk.
      * apply bytes_eqb_eq in Ekk. subst k. rewrite bytes_eqb_sym in Epk. rewrite Epk. reflexivity.
      * apply IH. assumption.
Qed.

Lemma map_replace_func : forall id f l, map w_id (replace_func id f l) = map w_id l.
Proof.
  intros id f l. unfold replace_func. rewrite map_map. apply map_ext_in. intros w _.
  destruct (Nat.eqb_spec (w_id w) id); simpl; congruence.
Qed.
Lemma ids_at_update : forall t p id f key, ids_at (tbl_update t p id f) key = ids_at t key.
Proof.
  unfold ids_at. induction t as [| [k l] t IH]; intros p id f key; simpl; [reflexivity|].
  destruct (bytes_eqb p k) eqn:Epk; simpl.
  - destruct (bytes_eqb key k); [rewrite map_replace_func; reflexivity | reflexivity].
  - destruct (bytes_eqb key k); [reflexivity | apply IH].
Qed.
Lemma keys_update : forall t p id f, keys (tbl_update t p id f) = keys t.
Proof.
  induction t as [| [k l] t IH]; intros p id f; simpl; [reflexivity|].
  destruct (bytes_eqb p k); simpl; [reflexivity | rewrite IH; reflexivity].
Qed.

(* ---- the invariant ---------------------------------------------------------------------------------- *)
Definition tbl (st : dstate) (kind : bool) : table := if kind then act_match st else act_exact st.
Definition enabled (st : dstate) (id : nat) : bool :=
  match nth_error (resps st) id with Some r => r_enabled r | None => false end.
Definition has_key (st : dstate) (kind : bool) (key : list Z) (id : nat) : bool :=
  match nth_error (resps st) id with
  | Some r => Bool.eqb (r_matching r) kind && bytes_eqb key (r_path r)
  | None => false
  end.

Record Inv (st : dstate) : Prop := {
  inv_nodup : NoDup (cmdp st);
  inv_enabled : forall id, In id (cmdp st) <-> enabled st id = true;
  inv_keys : forall kind, NoDup (keys (tbl st kind));
  inv_tbl : forall kind key, ids_at (tbl st kind) key = filter (has_key st kind key) (cmdp st) }.

Lemma Inv_init : Inv init_state.
Proof.
  constructor; simpl.
  - constructor.
  - intro id. unfold enabled. simpl. destruct id; simpl; split; intro H; try contradiction; discriminate.
  - intros []; constructor.
  - intros [] key; reflexivity.
Qed.

(* set_resp *)
Lemma nth_firstn_lt : forall (A : Type) (l : list A) n j, (j < n)%nat -> nth_error (firstn n l) j = nth_error l j.
Proof.
  induction l as [| x l IH]; intros n j H; [rewrite firstn_nil; reflexivity|].
  destruct n; [lia|]. destruct j; simpl; [reflexivity | apply IH; lia].
Qed.
Lemma nth_skipn_add : forall (A : Type) (l : list A) n k, nth_error (skipn n l) k = nth_error l (n + k).
Proof.
  induction l as [| x l IH]; intros n k; [rewrite skipn_nil; destruct k, n; reflexivity|].
  destruct n; simpl; [reflexivity | apply IH].
Qed.
Lemma nth_set_resp_same : forall st id r r', nth_error (resps st) id = Some r ->
  nth_error (set_resp st id r') id = Some r'.
Proof.
  intros st id r r' H. unfold set_resp.
  assert (Hl : (id < length (resps st))%nat) by (apply nth_error_Some; congruence).
  rewrite nth_error_app2; rewrite firstn_length, Nat.min_l by lia; [|lia].
  rewrite Nat.sub_diag. reflexivity.
Qed.
Lemma nth_set_resp_other : forall st id r' j, (id < length (resps st))%nat -> j <> id ->
  nth_error (set_resp st id r') j = nth_error (resps st) j.
Proof.
  intros st id r' j Hl Hne. unfold set_resp.
  destruct (Nat.lt_ge_cases j id) as [Hlt | Hge].
  - rewrite nth_error_app1 by (rewrite firstn_length; lia). apply nth_firstn_lt. assumption.
  - rewrite nth_error_app2; rewrite firstn_length, Nat.min_l by lia; [|lia].
    destruct (j - id)%nat as [| k] eqn:Ek; [lia|]. cbn [nth_error].
    rewrite nth_skipn_add. f_equal. lia.
Qed.

Lemma filter_ext_in_l : forall (A : Type) (f g : A -> bool) l, (forall x, In x l -> f x = g x) -> filter f l = filter g l.
Proof.
  intros A f g l H. induction l as [| x l IH]; simpl; [reflexivity|].
  rewrite (H x (or_introl eq_refl)). rewrite IH; [reflexivity|]. intros y Hy. apply H. right. assumption.
Qed.

(* ---- preservation ------------------------------------------------------------------------------------- *)
Lemma NoDup_snoc : forall (A : Type) (l : list A) x, NoDup l -> ~ In x l -> NoDup (l ++ [x]).
Proof.
  induction l as [| y l IH]; intros x Hnd Hn; simpl; [constructor; [intros [] | constructor]|].
  inversion Hnd; subst. constructor.
  - intro Hi. apply in_app_or in Hi as [Hi | [Hi | []]]; [contradiction | subst; apply Hn; left; reflexivity].
  - apply IH; [assumption | intro Hi; apply Hn; right; assumption].
Qed.

Lemma filter_filter_comm : forall (A : Type) (f g : A -> bool) l, filter f (filter g l) = filter g (filter f l).
Proof.
  induction l as [| x l IH]; simpl; [reflexivity|].
  destruct (f x) eqn:Ef, (g x) eqn:Eg; simpl; rewrite ?Ef, ?Eg, IH; reflexivity.
Qed.
Lemma filter_drop_irrelevant : forall (f : nat -> bool) id l, f id = false ->
  filter f (filter (fun j => negb (Nat.eqb j id)) l) = filter f l.
Proof.
  intros f id l Hf. induction l as [| x l IH]; simpl; [reflexivity|].
  destruct (Nat.eqb_spec x id) as [-> | Hne]; simpl; [rewrite Hf; assumption | rewrite IH; reflexivity].
Qed.

(* has_key / enabled after replacing responder id by one with the same path and kind *)
Lemma has_key_set : forall st st' id r r' kind key j,
  nth_error (resps st) id = Some r -> resps st' = set_resp st id r' ->
  r_matching r' = r_matching r -> r_path r' = r_path r ->
  has_key st' kind key j = has_key st kind key j.
Proof.
  intros st st' id r r' kind key j Hn Hr Hm Hp. unfold has_key. rewrite Hr.
  assert (Hl : (id < length (resps st))%nat) by (apply nth_error_Some; congruence).
  destruct (Nat.eq_dec j id) as [-> | Hne].
  - rewrite (nth_set_resp_same st id r r' Hn), Hn, Hm, Hp. reflexivity.
  - rewrite nth_set_resp_other by assumption. reflexivity.
Qed.
Lemma enabled_set_other : forall st st' id r' j, (id < length (resps st))%nat -> resps st' = set_resp st id r' -> j <> id ->
  enabled st' j = enabled st j.
Proof. intros. unfold enabled. rewrite H0, nth_set_resp_other by assumption. reflexivity. Qed.
Lemma enabled_set_same : forall st st' id r r', nth_error (resps st) id = Some r -> resps st' = set_resp st id r' ->
  enabled st' id = r_enabled r'.
Proof. intros. unfold enabled. rewrite H0, (nth_set_resp_same st id r r' H). reflexivity. Qed.

Lemma Inv_enable : forall st id, Inv st -> Inv (enable st id).
Proof.
  intros st id HI. unfold enable.
  destruct (nth_error (resps st) id) as [r|] eqn:Hn; [|assumption].
  destruct (r_enabled r) eqn:He; [assumption|].
  assert (Hl : (id < length (resps st))%nat) by (apply nth_error_Some; congruence).
  assert (Hnotin : ~ In id (cmdp st)).
  { intro Hi. apply (inv_enabled st HI) in Hi. unfold enabled in Hi. rewrite Hn, He in Hi. discriminate. }
  set (st' := {| resps := set_resp st id (with_enabled r true);
                 act_exact := if r_matching r then act_exact st else tbl_append (act_exact st) (r_path r) {| w_id := id; w_func := r_func r |};
                 act_match := if r_matching r then tbl_append (act_match st) (r_path r) {| w_id := id; w_func := r_func r |} else act_match st;
                 cmdp := cmdp st ++ [id] |}).
  assert (Hk : forall kind key j, has_key st' kind key j = has_key st kind key j).
  { intros. apply (has_key_set st st' id r (with_enabled r true)); auto. }
  constructor.
  - simpl. apply NoDup_snoc; [apply (inv_nodup st HI) | assumption].
  - intro j. simpl. rewrite in_app_iff. destruct (Nat.eq_dec j id) as [-> | Hne].
    + rewrite (enabled_set_same st st' id r (with_enabled r true)) by auto. simpl. split; [intros _; reflexivity | intros _; right; left; reflexivity].
    + rewrite (enabled_set_other st st' id (with_enabled r true) j) by auto. rewrite <- (inv_enabled st HI).
      split; [intros [H | [H | []]]; [assumption | congruence] | auto].
  - intro kind. pose proof (inv_keys st HI kind) as Hk0. unfold tbl in *. simpl.
    destruct kind, (r_matching r); simpl; try assumption; apply keys_append; assumption.
  - intros kind key. simpl cmdp. rewrite filter_app. simpl.
    rewrite (filter_ext _ _ (Hk kind key)), (Hk kind key id), <- (inv_tbl st HI kind key).
    unfold has_key. rewrite Hn. unfold tbl. simpl.
    destruct kind, (r_matching r); simpl; try rewrite ids_at_append; simpl;
      try (destruct (bytes_eqb key (r_path r)); rewrite ?app_nil_r; reflexivity); rewrite ?app_nil_r; reflexivity.
Qed.

Lemma Inv_disable : forall st id, Inv st -> Inv (disable st id).
Proof.
  intros st id HI. unfold disable.
  destruct (nth_error (resps st) id) as [r|] eqn:Hn; [|assumption].
  destruct (r_enabled r) eqn:He; [|assumption].
  assert (Hl : (id < length (resps st))%nat) by (apply nth_error_Some; congruence).
  set (st' := {| resps := set_resp st id (with_enabled r false);
                 act_exact := if r_matching r then act_exact st else tbl_remove (act_exact st) (r_path r) id;
                 act_match := if r_matching r then tbl_remove (act_match st) (r_path r) id else act_match st;
                 cmdp := filter (fun j => negb (Nat.eqb j id)) (cmdp st) |}).
  assert (Hk : forall kind key j, has_key st' kind key j = has_key st kind key j).
  { intros. apply (has_key_set st st' id r (with_enabled r false)); auto. }
  constructor.
  - simpl. apply NoDup_filter. apply (inv_nodup st HI).
  - intro j. simpl. rewrite filter_In. destruct (Nat.eq_dec j id) as [-> | Hne].
    + rewrite (enabled_set_same st st' id r (with_enabled r false)) by auto. simpl. rewrite Nat.eqb_refl. simpl.
      split; [intros [_ H]; discriminate | discriminate].
    + rewrite (enabled_set_other st st' id (with_enabled r false) j) by auto. rewrite <- (inv_enabled st HI).
      apply Nat.eqb_neq in Hne. rewrite Hne. simpl. tauto.
  - intro kind. pose proof (inv_keys st HI kind) as Hk0. unfold tbl in *. simpl.
    destruct kind, (r_matching r); simpl; try assumption; apply keys_remove; assumption.
  - intros kind key. simpl cmdp.
    rewrite (filter_ext _ _ (Hk kind key)).
    pose proof (inv_tbl st HI kind key) as Ht. pose proof (inv_keys st HI kind) as Hkeys.
    assert (Hnd : NoDup (filter (has_key st kind key) (cmdp st))) by (apply NoDup_filter, (inv_nodup st HI)).
    assert (Hcase : forall b : bool, b = Bool.eqb (r_matching r) kind && bytes_eqb key (r_path r) ->
              (if b then remove_first_id id (ids_at (tbl st kind) key) else ids_at (tbl st kind) key)
              = filter (has_key st kind key) (filter (fun j => negb (Nat.eqb j id)) (cmdp st))).
    { intros b Hb. destruct b.
      - rewrite Ht, remove_first_id_filter by assumption. apply filter_filter_comm.
      - rewrite filter_drop_irrelevant; [assumption|]. unfold has_key. rewrite Hn. symmetry. assumption. }
    unfold tbl in *. simpl.
    destruct kind, (r_matching r) eqn:Em; simpl in *.
    + rewrite ids_at_remove by assumption. apply (Hcase (bytes_eqb key (r_path r))). reflexivity.
    + apply (Hcase false). reflexivity.
    + apply (Hcase false). reflexivity.
    + rewrite ids_at_remove by assumption. apply (Hcase (bytes_eqb key (r_path r))). reflexivity.
Qed.

Lemma Inv_free : forall st id, Inv st -> Inv (free st id).
Proof. intros. apply Inv_disable. assumption. Qed.

Lemma Inv_set_func : forall st id f, Inv st -> Inv (set_func st id f).
Proof.
  intros st id f HI. unfold set_func.
  destruct (nth_error (resps st) id) as [r|] eqn:Hn; [|assumption].
  assert (Hl : (id < length (resps st))%nat) by (apply nth_error_Some; congruence).
  set (st' := {| resps := set_resp st id (with_func r f);
                 act_exact := if r_enabled r && negb (r_matching r) then tbl_update (act_exact st) (r_path r) id f else act_exact st;
                 act_match := if r_enabled r && r_matching r then tbl_update (act_match st) (r_path r) id f else act_match st;
                 cmdp := cmdp st |}).
  assert (Hk : forall kind key j, has_key st' kind key j = has_key st kind key j).
  { intros. apply (has_key_set st st' id r (with_func r f)); auto. }
  constructor.
  - apply (inv_nodup st HI).
  - intro j. simpl. rewrite (inv_enabled st HI). destruct (Nat.eq_dec j id) as [-> | Hne].
    + rewrite (enabled_set_same st st' id r (with_func r f)) by auto. unfold enabled. rewrite Hn. simpl. tauto.
    + rewrite (enabled_set_other st st' id (with_func r f) j) by auto. tauto.
  - intro kind. pose proof (inv_keys st HI kind) as Hk0. unfold tbl in *. simpl.
    destruct kind; [destruct (r_enabled r && r_matching r) | destruct (r_enabled r && negb (r_matching r))];
      rewrite ?keys_update; assumption.
  - intros kind key. simpl cmdp. rewrite (filter_ext _ _ (Hk kind key)), <- (inv_tbl st HI kind key).
    unfold tbl. simpl.
    destruct kind; [destruct (r_enabled r && r_matching r) | destruct (r_enabled r && negb (r_matching r))];
      rewrite ?ids_at_update; reflexivity.
Qed.

Lemma Inv_one_shot : forall st id, Inv st -> Inv (one_shot st id).
Proof. intros st id HI. unfold one_shot. destruct (nth_error (resps st) id); [apply Inv_set_func|]; assumption. Qed.

Lemma cmdp_lt : forall st id, Inv st -> In id (cmdp st) -> (id < length (resps st))%nat.
Proof.
  intros st id HI Hi. apply (inv_enabled st HI) in Hi. unfold enabled in Hi.
  apply nth_error_Some. destruct (nth_error (resps st) id); [discriminate | discriminate].
Qed.

Lemma Inv_create : forall st p mt s po tm tag, Inv st -> Inv (create st p mt s po tm tag).
Proof.
  intros st p mt s po tm tag HI. unfold create. destruct p as [| c0 p0]; [assumption|]. apply Inv_enable.
  match goal with |- Inv {| resps := resps st ++ [?r0]; act_exact := _; act_match := _; cmdp := _ |} => set (r := r0) end.
  assert (Hsame : forall j, (j < length (resps st))%nat -> nth_error (resps st ++ [r]) j = nth_error (resps st) j).
  { intros j Hj. apply nth_error_app1. assumption. }
  constructor; simpl.
  - apply (inv_nodup st HI).
  - intro j. rewrite (inv_enabled st HI). unfold enabled. simpl.
    destruct (Nat.lt_ge_cases j (length (resps st))) as [Hlt | Hge].
    + rewrite Hsame by assumption. tauto.
    + assert (E1 : nth_error (resps st) j = None) by (apply nth_error_None; assumption). rewrite E1.
      rewrite nth_error_app2 by assumption. destruct (j - length (resps st))%nat as [| k]; simpl.
      * tauto.
      * destruct k; simpl; tauto.
  - intro kind. apply (inv_keys st HI kind).
  - intros kind key. pose proof (inv_tbl st HI kind key) as Ht. unfold tbl in *. simpl. rewrite Ht.
    apply filter_ext_in_l. intros j Hj.
    unfold has_key. simpl. rewrite Hsame; [reflexivity | apply cmdp_lt; assumption].
Qed.

Lemma Inv_cmd_period : forall st, Inv st -> Inv (cmd_period st).
Proof.
  intros st HI. unfold cmd_period. generalize (cmdp st) as l. revert st HI.
  intros st HI l. revert st HI. induction l as [| id l IH]; intros st HI; simpl; [assumption|].
  apply IH. destruct (existsb (Nat.eqb id) (cmdp st)); [apply Inv_free|]; assumption.
Qed.

Lemma Inv_run_func : forall f st id, Inv st -> Inv (fst (run_func st id f)).
Proof. induction f as [tag | g IH]; intros st id HI; simpl; [assumption | apply IH, Inv_free; assumption]. Qed.

Lemma Inv_call_wrapped : forall st w m t src port, Inv st -> Inv (fst (call_wrapped st w m t src port)).
Proof.
  intros st w m t src port HI. unfold call_wrapped.
  destruct (nth_error (resps st) (w_id w)); [|assumption].
  destruct (accepts r m src port); [|assumption].
  pose proof (Inv_run_func (w_func w) st (w_id w) HI) as H.
  destruct (run_func st (w_id w) (w_func w)). simpl in *. assumption.
Qed.

Lemma Inv_call_all : forall l st m t src port, Inv st -> Inv (fst (call_all st l m t src port)).
Proof.
  induction l as [| w l IH]; intros st m t src port HI; simpl; [assumption|].
  pose proof (Inv_call_wrapped st w m t src port HI) as H1.
  destruct (call_wrapped st w m t src port) as [st1 o1]. simpl in H1.
  pose proof (IH st1 m t src port H1) as H2.
  destruct (call_all st1 l m t src port) as [st2 o2]. simpl in *. assumption.
Qed.

(* the repaired matching dispatcher is call_all over the matched registrations, in registration order *)
Definition match_list (st : dstate) (m : omsg) : list wrapped :=
  match matched_keys m (act_match st) with None => [] | Some ks => reg_entries st ks end.
Lemma dmd_eq : forall st m t src port,
  dispatch_match_d st m t src port = call_all st (match_list st m) m t src port.
Proof. intros. unfold dispatch_match_d, match_list. destruct (matched_keys m (act_match st)); reflexivity. Qed.

Lemma Inv_incoming : forall st m t src port, Inv st -> Inv (fst (incoming st m t src port)).
Proof.
  intros st m t src port HI. unfold incoming.
  assert (H1 : Inv (fst (dispatch_exact_d st m t src port))).
  { unfold dispatch_exact_d. destruct (tbl_get (act_exact st) (m_addr m)); [apply Inv_call_all|]; assumption. }
  destruct (dispatch_exact_d st m t src port) as [st1 o1]. simpl in H1.
  pose proof (Inv_call_all (match_list st1 m) st1 m t src port H1) as H2. rewrite dmd_eq.
  destruct (call_all st1 (match_list st1 m) m t src port) as [st2 o2]. simpl in *. assumption.
Qed.

Lemma Inv_incoming_all : forall ms st src port, Inv st -> Inv (fst (incoming_all st ms src port)).
Proof.
  induction ms as [| [t m] ms IH]; intros st src port HI; simpl; [assumption|].
  pose proof (Inv_incoming st m t src port HI) as H1.
  destruct (incoming st m t src port) as [st1 o1]. simpl in H1.
  pose proof (IH st1 src port H1) as H2.
  destruct (incoming_all st1 ms src port) as [st2 o2]. simpl in *. assumption.
Qed.

Lemma Inv_step : forall st o, Inv st -> Inv (fst (step st o)).
Proof.
  intros st o HI. destruct o; simpl.
  - apply Inv_create; assumption.
  - apply Inv_enable; assumption.
  - apply Inv_disable; assumption.
  - apply Inv_one_shot; assumption.
  - apply Inv_free; assumption.
  - apply Inv_set_func; assumption.
  - apply Inv_cmd_period; assumption.
  - apply Inv_incoming; assumption.
  - unfold handle_request. destruct (parse_packet d); try assumption. apply Inv_incoming_all; assumption.
Qed.

Lemma Inv_run : forall h st, Inv st -> Inv (fst (run st h)).
Proof.
  induction h as [| o h IH]; intros st HI; simpl; [assumption|].
  pose proof (Inv_step st o HI) as H1. destruct (step st o) as [st1 out]. simpl in H1.
  pose proof (IH st1 H1) as H2. destruct (run st1 h) as [st2 outs]. simpl in *. assumption.
Qed.

Lemma Inv_final : forall h, Inv (final h).
Proof. intro h. unfold final. apply Inv_run, Inv_init. Qed.

(* ---- who is invoked -------------------------------------------------------------------------------------- *)
Definition acc (st : dstate) (m : omsg) (src : Z * Z) (port : Z) (id : nat) : bool :=
  match nth_error (resps st) id with Some r => accepts r m src port | None => false end.

Lemma acc_disable : forall st j m src port id, acc (disable st j) m src port id = acc st m src port id.
Proof.
  intros st j m src port id. unfold disable.
  destruct (nth_error (resps st) j) as [r|] eqn:Hn; [|reflexivity].
  destruct (r_enabled r); [|reflexivity].
  assert (Hl : (j < length (resps st))%nat) by (apply nth_error_Some; congruence).
  unfold acc. simpl. destruct (Nat.eq_dec id j) as [-> | Hne].
  - rewrite (nth_set_resp_same st j r _ Hn), Hn. reflexivity.
  - rewrite nth_set_resp_other by assumption. reflexivity.
Qed.
Lemma enabled_disable_mono : forall st j id, enabled (disable st j) id = true -> enabled st id = true.
Proof.
  intros st j id. unfold disable.
  destruct (nth_error (resps st) j) as [r|] eqn:Hn; [|auto].
  destruct (r_enabled r) eqn:He; [|auto].
  assert (Hl : (j < length (resps st))%nat) by (apply nth_error_Some; congruence).
  unfold enabled. simpl. destruct (Nat.eq_dec id j) as [-> | Hne].
  - rewrite (nth_set_resp_same st j r _ Hn), Hn. simpl. discriminate.
  - rewrite nth_set_resp_other by assumption. auto.
Qed.
Lemma enabled_disable_self : forall st id, enabled (disable st id) id = false.
Proof.
  intros st id. unfold disable.
  destruct (nth_error (resps st) id) as [r|] eqn:Hn; [|unfold enabled; rewrite Hn; reflexivity].
  destruct (r_enabled r) eqn:He; [|unfold enabled; rewrite Hn; assumption].
  unfold enabled. simpl. rewrite (nth_set_resp_same st id r _ Hn). reflexivity.
Qed.

Lemma acc_run_func : forall f st j m src port id, acc (fst (run_func st j f)) m src port id = acc st m src port id.
Proof.
  induction f as [tag | g IH]; intros; simpl; [reflexivity|]. rewrite IH. apply acc_disable.
Qed.
Lemma enabled_run_func_mono : forall f st j id, enabled (fst (run_func st j f)) id = true -> enabled st id = true.
Proof.
  induction f as [tag | g IH]; intros st j id H; simpl in *; [assumption|].
  apply IH in H. apply enabled_disable_mono in H. assumption.
Qed.

Lemma call_wrapped_spec : forall st w m t src port,
  (acc st m src port (w_id w) = true /\
   call_wrapped st w m t src port =
     (fst (run_func st (w_id w) (w_func w)),
      [{| i_id := w_id w; i_tag := snd (run_func st (w_id w) (w_func w)); i_msg := m; i_time := t; i_src := src; i_port := port |}]))
  \/ (acc st m src port (w_id w) = false /\ call_wrapped st w m t src port = (st, [])).
Proof.
  intros st w m t src port. unfold call_wrapped, acc.
  destruct (nth_error (resps st) (w_id w)) as [r|]; [|right; split; reflexivity].
  destruct (accepts r m src port); [left | right; split; reflexivity].
  split; [reflexivity|]. destruct (run_func st (w_id w) (w_func w)). reflexivity.
Qed.

Lemma call_all_spec : forall l st m t src port,
  map i_id (snd (call_all st l m t src port)) = filter (acc st m src port) (map w_id l)
  /\ (forall id, acc (fst (call_all st l m t src port)) m src port id = acc st m src port id)
  /\ (forall id, enabled (fst (call_all st l m t src port)) id = true -> enabled st id = true)
  /\ (forall i, In i (snd (call_all st l m t src port)) -> i_msg i = m /\ i_time i = t /\ i_src i = src /\ i_port i = port).
Proof.
  induction l as [| w l IH]; intros st m t src port; simpl.
  - repeat split; auto; contradiction.
  - destruct (call_wrapped_spec st w m t src port) as [[Ha Hc] | [Ha Hc]]; rewrite Hc, Ha.
    + set (st1 := fst (run_func st (w_id w) (w_func w))).
      destruct (IH st1 m t src port) as (H1 & H2 & H3 & H4).
      destruct (call_all st1 l m t src port) as [st2 o2]. simpl in *.
      repeat split.
      * f_equal. rewrite H1. apply filter_ext. intro id. apply acc_run_func.
      * intro id. rewrite H2. apply acc_run_func.
      * intros id He. apply H3 in He. eapply enabled_run_func_mono. exact He.
      * destruct H as [<- | Hi]; [reflexivity | apply (H4 _ Hi)].
      * destruct H as [<- | Hi]; [reflexivity | apply (H4 _ Hi)].
      * destruct H as [<- | Hi]; [reflexivity | apply (H4 _ Hi)].
      * destruct H as [<- | Hi]; [reflexivity | apply (H4 _ Hi)].
    + destruct (IH st m t src port) as (H1 & H2 & H3 & H4).
      destruct (call_all st l m t src port) as [st2 o2]. simpl in *.
      repeat split; auto; apply (H4 _ H).
Qed.

Lemma filter_filter_and : forall (A : Type) (f g : A -> bool) l, filter f (filter g l) = filter (fun x => g x && f x) l.
Proof.
  induction l as [| x l IH]; simpl; [reflexivity|].
  destruct (g x); simpl; [destruct (f x); rewrite IH; reflexivity | assumption].
Qed.

(* the responders that must fire for a message, on one dispatcher (kind) and one table key *)
Definition fires (st : dstate) (kind : bool) (key : list Z) (m : omsg) (src : Z * Z) (port : Z) (id : nat) : bool :=
  match nth_error (resps st) id with
  | Some r => r_enabled r && Bool.eqb (r_matching r) kind && bytes_eqb key (r_path r) && accepts r m src port
  | None => false
  end.

Lemma fires_filter : forall st kind key m src port, Inv st ->
  filter (fun id => has_key st kind key id && acc st m src port id) (cmdp st) = filter (fires st kind key m src port) (cmdp st).
Proof.
  intros st kind key m src port HI. apply filter_ext_in_l. intros id Hi.
  apply (inv_enabled st HI) in Hi. unfold enabled, has_key, acc, fires in *.
  destruct (nth_error (resps st) id) as [r|]; [|reflexivity]. rewrite Hi. reflexivity.
Qed.

Lemma exact_ids : forall st m t src port, Inv st ->
  map i_id (snd (dispatch_exact_d st m t src port)) = filter (fires st false (m_addr m) m src port) (cmdp st).
Proof.
  intros st m t src port HI. rewrite <- fires_filter by assumption. rewrite <- filter_filter_and.
  pose proof (inv_tbl st HI false (m_addr m)) as Ht. unfold tbl, ids_at in Ht. rewrite <- Ht.
  unfold dispatch_exact_d. destruct (tbl_get (act_exact st) (m_addr m)) as [l|]; [|reflexivity].
  apply call_all_spec.
Qed.

Lemma tbl_get_in : forall t k l, NoDup (keys t) -> In (k, l) t -> tbl_get t k = Some l.
Proof.
  induction t as [| [k' l'] t IH]; intros k l Hnd Hi; [contradiction|].
  inversion Hnd as [| ? ? Hnin Hnd']; subst. simpl. destruct Hi as [Hi | Hi].
  - inversion Hi; subst. rewrite bytes_eqb_refl. reflexivity.
  - destruct (bytes_eqb k k') eqn:E.
    + apply bytes_eqb_eq in E. subst. exfalso. apply Hnin. change k' with (fst (k', l)). apply in_map. assumption.
    + apply IH; assumption.
Qed.

Definition matches (m : omsg) (k : list Z) : bool := mres_eqb (osc_rematch (m_addr m) k) MTrue.

Lemma rematch_error_uniform : forall p k k', osc_rematch p k = MReError \/ osc_rematch p k = MOutOfFuel -> osc_rematch p k' <> MTrue.
Proof.
  intros p k k' H. unfold osc_rematch, osc_rematch_gen in *.
  destruct (re_parse (rewrite Repaired p)); [|discriminate | discriminate].
  destruct (rmatch a k); destruct H; discriminate.
Qed.

Definition fires_m (st : dstate) (m : omsg) (src : Z * Z) (port : Z) (id : nat) : bool :=
  match nth_error (resps st) id with
  | Some r => r_enabled r && r_matching r && matches m (r_path r) && accepts r m src port
  | None => false
  end.

Lemma existsb_bytes_in : forall p ks, existsb (bytes_eqb p) ks = true <-> In p ks.
Proof.
  intros p ks. rewrite existsb_exists. split.
  - intros (x & Hx & E). apply bytes_eqb_eq in E. subst. assumption.
  - intro H. exists p. split; [assumption | apply bytes_eqb_refl].
Qed.

Lemma matched_keys_some : forall m t ks, matched_keys m t = Some ks ->
  forall k, In k ks <-> (In k (keys t) /\ matches m k = true).
Proof.
  induction t as [| [k0 l0] t IH]; intros ks H k; simpl in H.
  - inversion H; subst. simpl. split; [contradiction | intros [[] _]].
  - destruct (osc_rematch (m_addr m) k0) eqn:E; try discriminate.
    + destruct (matched_keys m t) as [l|] eqn:El; [|discriminate]. inversion H; subst. simpl. rewrite (IH l eq_refl k). split.
      * intros [<- | [H1 H2]]; [split; [left; reflexivity | unfold matches; rewrite E; reflexivity] | split; [right; assumption | assumption]].
      * intros [[<- | H1] H2]; [left; reflexivity | right; split; assumption].
    + rewrite (IH ks H k). simpl. split.
      * intros [H1 H2]. split; [right; assumption | assumption].
      * intros [[<- | H1] H2]; [unfold matches in H2; rewrite E in H2; discriminate | split; assumption].
Qed.
Lemma matched_keys_none : forall m t, matched_keys m t = None -> forall k, matches m k = false.
Proof.
  induction t as [| [k0 l0] t IH]; simpl; [discriminate|].
  destruct (osc_rematch (m_addr m) k0) eqn:E.
  - destruct (matched_keys m t); [discriminate|]. intros _. apply IH. reflexivity.
  - apply IH.
  - intros _ k. unfold matches. destruct (osc_rematch (m_addr m) k) eqn:Ek; try reflexivity.
    exfalso. apply (rematch_error_uniform (m_addr m) k0 k); [left; assumption | assumption].
  - intros _ k. unfold matches. destruct (osc_rematch (m_addr m) k) eqn:Ek; try reflexivity.
    exfalso. apply (rematch_error_uniform (m_addr m) k0 k); [right; assumption | assumption].
Qed.

Definition sel (st : dstate) (ks : list (list Z)) (id : nat) : bool :=
  match nth_error (resps st) id with
  | Some r => r_matching r && existsb (bytes_eqb (r_path r)) ks
  | None => false
  end.
Lemma reg_entries_ids : forall st ks, map w_id (reg_entries st ks) = filter (sel st ks) (cmdp st).
Proof.
  intros st ks. unfold reg_entries. induction (cmdp st) as [| id l IH]; simpl; [reflexivity|].
  rewrite map_app, IH. unfold sel at 2. destruct (nth_error (resps st) id) as [r|]; [|reflexivity].
  destruct (r_matching r && existsb (bytes_eqb (r_path r)) ks); reflexivity.
Qed.
Lemma reg_entries_func : forall st ks w, In w (reg_entries st ks) ->
  exists r, nth_error (resps st) (w_id w) = Some r /\ w_func w = r_func r.
Proof.
  intros st ks w H. unfold reg_entries in H. apply in_flat_map in H as (id & _ & H).
  destruct (nth_error (resps st) id) as [r|] eqn:E; [|contradiction].
  destruct (r_matching r && existsb (bytes_eqb (r_path r)) ks); [|contradiction].
  destruct H as [<- | []]. simpl. exists r. auto.
Qed.

Lemma enabled_matching_path_is_key : forall st id r, Inv st -> nth_error (resps st) id = Some r ->
  r_enabled r = true -> r_matching r = true -> In (r_path r) (keys (act_match st)).
Proof.
  intros st id r HI Er He Hm.
  assert (Hc : In id (cmdp st)) by (apply (inv_enabled st HI); unfold enabled; rewrite Er; assumption).
  pose proof (inv_tbl st HI true (r_path r)) as Ht. unfold ids_at, tbl in Ht.
  destruct (tbl_get (act_match st) (r_path r)) as [l|] eqn:Eg.
  - clear - Eg. induction (act_match st) as [| [k' l'] t IHt]; simpl in *; [discriminate|].
    destruct (bytes_eqb (r_path r) k') eqn:E; [left; symmetry; apply bytes_eqb_eq; assumption | right; apply IHt; assumption].
  - exfalso. assert (Hin : In id (filter (has_key st true (r_path r)) (cmdp st))).
    { apply filter_In. split; [assumption|]. unfold has_key. rewrite Er, Hm, bytes_eqb_refl. reflexivity. }
    rewrite <- Ht in Hin. contradiction.
Qed.

Lemma filter_all_false : forall (A : Type) (f : A -> bool) l, (forall x, In x l -> f x = false) -> filter f l = [].
Proof.
  induction l as [| x l IH]; intro H; simpl; [reflexivity|].
  rewrite (H x (or_introl eq_refl)). apply IH. intros y Hy. apply H. right. assumption.
Qed.

(* THE matching dispatcher: exactly the firing matching responders, in ONE registration order *)
Lemma match_ids : forall st m t src port, Inv st ->
  map i_id (snd (dispatch_match_d st m t src port)) = filter (fires_m st m src port) (cmdp st).
Proof.
  intros st m t src port HI. unfold dispatch_match_d.
  destruct (matched_keys m (act_match st)) as [ks|] eqn:E.
  - rewrite (proj1 (call_all_spec (reg_entries st ks) st m t src port)), reg_entries_ids, filter_filter_and.
    apply filter_ext_in_l. intros id Hc. apply (inv_enabled st HI) in Hc. unfold enabled in Hc.
    unfold sel, acc, fires_m. destruct (nth_error (resps st) id) as [r|] eqn:Er; [|reflexivity].
    rewrite Hc. simpl. destruct (r_matching r) eqn:Em; simpl; [|reflexivity].
    f_equal. apply eq_true_iff_eq. rewrite existsb_bytes_in, (matched_keys_some m (act_match st) ks E (r_path r)).
    split; [tauto|]. intro H. split; [eapply enabled_matching_path_is_key; eassumption | assumption].
  - simpl. symmetry. apply filter_all_false. intros id _. unfold fires_m.
    destruct (nth_error (resps st) id) as [r|]; [|reflexivity].
    rewrite (matched_keys_none m (act_match st) E (r_path r)). rewrite andb_false_r. reflexivity.
Qed.

Lemma incoming_spec : forall st m t src port, Inv st ->
  (forall i, In i (snd (incoming st m t src port)) ->
      enabled st (i_id i) = true /\ i_msg i = m /\ i_time i = t /\ i_src i = src /\ i_port i = port)
  /\ (forall id, enabled (fst (incoming st m t src port)) id = true -> enabled st id = true).
Proof.
  intros st m t src port HI. unfold incoming.
  pose proof (exact_ids st m t src port HI) as Hex.
  assert (Hinv1 : Inv (fst (dispatch_exact_d st m t src port))).
  { unfold dispatch_exact_d. destruct (tbl_get (act_exact st) (m_addr m)); [apply Inv_call_all|]; assumption. }
  assert (Hmono1 : forall id, enabled (fst (dispatch_exact_d st m t src port)) id = true -> enabled st id = true).
  { unfold dispatch_exact_d. destruct (tbl_get (act_exact st) (m_addr m)) as [l|]; [apply call_all_spec | auto]. }
  assert (Hf1 : forall i, In i (snd (dispatch_exact_d st m t src port)) -> i_msg i = m /\ i_time i = t /\ i_src i = src /\ i_port i = port).
  { unfold dispatch_exact_d. destruct (tbl_get (act_exact st) (m_addr m)) as [l|]; [apply call_all_spec | simpl; contradiction]. }
  destruct (dispatch_exact_d st m t src port) as [st1 o1]. simpl in *.
  pose proof (match_ids st1 m t src port Hinv1) as Hm. rewrite dmd_eq in *.
  destruct (call_all_spec (match_list st1 m) st1 m t src port) as (_ & _ & Hmono2 & Hf2).
  destruct (call_all st1 (match_list st1 m) m t src port) as [st2 o2]. simpl in *.
  split.
  - intros i Hi. apply in_app_or in Hi as [Hi | Hi].
    + split; [|apply Hf1; assumption].
      assert (Hin : In (i_id i) (map i_id o1)) by (apply in_map; assumption).
      rewrite Hex in Hin. apply filter_In in Hin as [Hin _]. apply (inv_enabled st HI). assumption.
    + split; [|apply Hf2; assumption].
      assert (Hin : In (i_id i) (map i_id o2)) by (apply in_map; assumption).
      rewrite Hm in Hin. apply filter_In in Hin as [Hin _].
      apply Hmono1. apply (inv_enabled st1 Hinv1). assumption.
  - intros id He. apply Hmono1, Hmono2. assumption.
Qed.

Lemma oneshot_disables : forall st w m t src port g, w_func w = FOneShot g ->
  snd (call_wrapped st w m t src port) <> [] ->
  enabled (fst (call_wrapped st w m t src port)) (w_id w) = false.
Proof.
  intros st w m t src port g Hw Hne.
  destruct (call_wrapped_spec st w m t src port) as [[Ha Hc] | [Ha Hc]]; rewrite Hc in *; simpl in *; [|contradiction].
  rewrite Hw. simpl. destruct (enabled (fst (run_func (free st (w_id w)) (w_id w) g)) (w_id w)) eqn:E; [|reflexivity].
  apply enabled_run_func_mono in E. unfold free in E. rewrite enabled_disable_self in E. discriminate.
Qed.

(* ---- the receive path ------------------------------------------------------------------------------------------ *)
Lemma malformed_nothing : forall st d src port, (forall ms, parse_packet d <> POk ms) ->
  handle_request st d src port = (st, []).
Proof.
  intros st d src port H. unfold handle_request. destruct (parse_packet d) as [ms | |]; [exfalso; apply (H ms); reflexivity | reflexivity | reflexivity].
Qed.

Lemma parse_ok_or_error : forall d, (exists ms, parse_packet d = POk ms) \/ parse_packet d = PError.
Proof.
  intro d. pose proof (parse_packet_total d) as H.
  destruct (parse_packet d) as [ms | |]; [left; exists ms; reflexivity | right; reflexivity | contradiction].
Qed.

(* ---- the function that is invoked is the responder's current function ------------------------------------- *)
Fixpoint user_tag (f : func) : nat := match f with FUser tag => tag | FOneShot g => user_tag g end.
Definition entries (t : table) : list wrapped := flat_map snd t.
Definition rfunc (st : dstate) (id : nat) : option func := option_map r_func (nth_error (resps st) id).
Definition func_ok (st : dstate) (w : wrapped) : Prop := rfunc st (w_id w) = Some (w_func w).
Definition funcs_ok (st : dstate) : Prop := forall kind w, In w (entries (tbl st kind)) -> func_ok st w.

Lemma entries_append : forall t p w w', In w' (entries (tbl_append t p w)) <-> In w' (entries t) \/ w' = w.
Proof.
  unfold entries. induction t as [| [k l] t IH]; intros p w w'; simpl.
  - split; [intros [H | H]; [right; auto | contradiction] | intros [[] | H]; left; auto].
  - destruct (bytes_eqb p k); simpl; rewrite !in_app_iff.
    + simpl. intuition (subst; auto).
    + rewrite IH. tauto.
Qed.
Lemma remove_first_incl : forall id l w, In w (remove_first id l) -> In w l.
Proof.
  induction l as [| x l IH]; simpl; intros w H; [assumption|].
  destruct (Nat.eqb (w_id x) id); [right; assumption | destruct H; [left; assumption | right; apply IH; assumption]].
Qed.
Lemma entries_remove : forall t p id w, In w (entries (tbl_remove t p id)) -> In w (entries t).
Proof.
  unfold entries. induction t as [| [k l] t IH]; intros p id w H; simpl in *; [assumption|].
  rewrite in_app_iff. destruct (bytes_eqb p k).
  - destruct (remove_first id l) as [| x l'] eqn:E; simpl in H.
    + right. assumption.
    + destruct H as [H | H]; [left; apply (remove_first_incl id); rewrite E; left; assumption|].
      apply in_app_or in H as [H | H]; [left; apply (remove_first_incl id); rewrite E; right; assumption | right; assumption].
  - simpl in H. rewrite in_app_iff in H. destruct H as [H | H]; [left; assumption | right; eapply IH; eassumption].
Qed.
(* after update_func_for_func_proxy: an entry is the replaced one, or an old entry of another
   responder, or an old entry under another key *)
Lemma entries_update : forall t p id f w, NoDup (keys t) -> In w (entries (tbl_update t p id f)) ->
  (w_id w = id /\ w_func w = f) \/ (w_id w <> id /\ In w (entries t)) \/ (exists k l, In (k, l) t /\ k <> p /\ In w l).
Proof.
  unfold entries. induction t as [| [k l] t IH]; intros p id f w Hnd H; simpl in *; [contradiction|].
  inversion Hnd as [| ? ? Hnin Hnd']; subst.
  destruct (bytes_eqb p k) eqn:E; simpl in H; rewrite in_app_iff in H.
  - apply bytes_eqb_eq in E. subst k. destruct H as [H | H].
    + unfold replace_func in H. apply in_map_iff in H as (x & Hx & Hin).
      destruct (Nat.eqb_spec (w_id x) id) as [Hid | Hid]; subst w.
      * left. simpl. auto.
      * right. left. split; [assumption | apply in_or_app; left; assumption].
    + apply in_flat_map in H as ([k' l'] & Hkl & Hw). simpl in Hw.
      right. right. exists k', l'. repeat split; [right; assumption | | assumption].
      intro Heq. subst k'. apply Hnin. change p with (fst (p, l')). apply in_map. assumption.
  - destruct H as [H | H].
    + right. right. exists k, l. repeat split; [left; reflexivity | intro; subst; rewrite bytes_eqb_refl in E; discriminate | assumption].
    + apply (IH p id f w Hnd') in H as [H | [[H1 H2] | (k' & l' & H1 & H2 & H3)]]; [left; assumption | right; left; split; [assumption | apply in_or_app; right; assumption] |].
      right. right. exists k', l'. repeat split; [right; assumption | assumption | assumption].
Qed.

(* where the entries of a responder live *)
Lemma entry_key : forall st kind k l w, Inv st -> In (k, l) (tbl st kind) -> In w l ->
  has_key st kind k (w_id w) = true /\ In (w_id w) (cmdp st).
Proof.
  intros st kind k l w HI Hkl Hw.
  pose proof (inv_tbl st HI kind k) as Ht. unfold ids_at in Ht.
  rewrite (tbl_get_in (tbl st kind) k l (inv_keys st HI kind) Hkl) in Ht.
  assert (Hin : In (w_id w) (map w_id l)) by (apply in_map; assumption).
  rewrite Ht in Hin. apply filter_In in Hin. tauto.
Qed.
Lemma entry_in : forall t w, In w (entries t) -> exists k l, In (k, l) t /\ In w l.
Proof. unfold entries. intros t w H. apply in_flat_map in H as ([k l] & H1 & H2). exists k, l. auto. Qed.

Lemma rfunc_set : forall st st' id r r' j, nth_error (resps st) id = Some r -> resps st' = set_resp st id r' ->
  r_func r' = r_func r -> rfunc st' j = rfunc st j.
Proof.
  intros st st' id r r' j Hn Hr Hf. unfold rfunc. rewrite Hr.
  assert (Hl : (id < length (resps st))%nat) by (apply nth_error_Some; congruence).
  destruct (Nat.eq_dec j id) as [-> | Hne].
  - rewrite (nth_set_resp_same st id r r' Hn), Hn. simpl. congruence.
  - rewrite nth_set_resp_other by assumption. reflexivity.
Qed.

Lemma funcs_ok_enable : forall st id, Inv st -> funcs_ok st -> funcs_ok (enable st id).
Proof.
  intros st id HI HF. unfold enable.
  destruct (nth_error (resps st) id) as [r|] eqn:Hn; [|assumption].
  destruct (r_enabled r) eqn:He; [assumption|].
  intros kind w Hw. unfold func_ok.
  match goal with |- rfunc ?s _ = _ => set (st' := s) in * end.
  assert (Hrf : forall j, rfunc st' j = rfunc st j) by (intro j; apply (rfunc_set st st' id r (with_enabled r true)); auto).
  rewrite Hrf.
  assert (Hnew : rfunc st id = Some (r_func r)) by (unfold rfunc; rewrite Hn; reflexivity).
  unfold tbl in Hw. simpl in Hw.
  destruct kind, (r_matching r); simpl in Hw.
  - apply entries_append in Hw as [Hw | ->]; [apply (HF true w Hw) | exact Hnew].
  - apply (HF true w Hw).
  - apply (HF false w Hw).
  - apply entries_append in Hw as [Hw | ->]; [apply (HF false w Hw) | exact Hnew].
Qed.

Lemma funcs_ok_disable : forall st id, Inv st -> funcs_ok st -> funcs_ok (disable st id).
Proof.
  intros st id HI HF. unfold disable.
  destruct (nth_error (resps st) id) as [r|] eqn:Hn; [|assumption].
  destruct (r_enabled r) eqn:He; [|assumption].
  intros kind w Hw. unfold func_ok.
  match goal with |- rfunc ?s _ = _ => set (st' := s) in * end.
  assert (Hrf : forall j, rfunc st' j = rfunc st j) by (intro j; apply (rfunc_set st st' id r (with_enabled r false)); auto).
  rewrite Hrf. unfold tbl in Hw. simpl in Hw.
  destruct kind, (r_matching r); simpl in Hw.
  - apply entries_remove in Hw. apply (HF true w Hw).
  - apply (HF true w Hw).
  - apply (HF false w Hw).
  - apply entries_remove in Hw. apply (HF false w Hw).
Qed.

Lemma funcs_ok_set_func : forall st id f, Inv st -> funcs_ok st -> funcs_ok (set_func st id f).
Proof.
  intros st id f HI HF. unfold set_func.
  destruct (nth_error (resps st) id) as [r|] eqn:Hn; [|assumption].
  assert (Hl : (id < length (resps st))%nat) by (apply nth_error_Some; congruence).
  intros kind w Hw. unfold func_ok.
  match goal with |- rfunc ?s _ = _ => set (st' := s) in * end.
  assert (Hsame : rfunc st' id = Some f).
  { unfold rfunc, st'. simpl. rewrite (nth_set_resp_same st id r _ Hn). reflexivity. }
  assert (Hother : forall j, j <> id -> rfunc st' j = rfunc st j).
  { intros j Hne. unfold rfunc, st'. simpl. rewrite nth_set_resp_other by assumption. reflexivity. }
  (* an old entry of responder id sits in the table of its kind under its path, and only if enabled *)
  assert (Hloc : forall kind' k l w', In (k, l) (tbl st kind') -> In w' l -> w_id w' = id ->
                 r_enabled r = true /\ kind' = r_matching r /\ k = r_path r).
  { intros kind' k l w' Hkl Hw' Hid. destruct (entry_key st kind' k l w' HI Hkl Hw') as [Hk Hc].
    rewrite Hid in *. apply (inv_enabled st HI) in Hc. unfold enabled in Hc. rewrite Hn in Hc.
    unfold has_key in Hk. rewrite Hn in Hk. apply andb_true_iff in Hk as [Hk1 Hk2].
    apply bytes_eqb_eq in Hk2. apply eqb_prop in Hk1. auto. }
  assert (Hold : forall kind' w', In w' (entries (tbl st kind')) -> w_id w' <> id -> rfunc st' (w_id w') = Some (w_func w')).
  { intros kind' w' Hin Hne. rewrite Hother by assumption. apply (HF kind' w' Hin). }
  assert (Hnone : forall kind' w', In w' (entries (tbl st kind')) -> w_id w' = id ->
                  r_enabled r = true /\ kind' = r_matching r).
  { intros kind' w' Hin Hid. apply entry_in in Hin as (k & l & Hkl & Hw'). destruct (Hloc kind' k l w' Hkl Hw' Hid) as (H1 & H2 & _). auto. }
  unfold tbl in Hw. simpl in Hw.
  assert (Hupd : forall kind', In w (entries (tbl_update (tbl st kind') (r_path r) id f)) -> rfunc st' (w_id w) = Some (w_func w)).
  { intros kind' Hin. apply entries_update in Hin; [|apply (inv_keys st HI kind')].
    destruct Hin as [[H1 H2] | [[H1 H2] | (k & l & H1 & H2 & H3)]].
    - rewrite H1, H2. exact Hsame.
    - apply (Hold kind' w H2 H1).
    - destruct (Nat.eq_dec (w_id w) id) as [Hid | Hne].
      + destruct (Hloc kind' k l w H1 H3 Hid) as (_ & _ & Hk). contradiction.
      + apply (Hold kind' w); [apply in_flat_map; exists (k, l); auto | assumption]. }
  assert (Hkeep : forall kind', In w (entries (tbl st kind')) -> (r_enabled r && Bool.eqb kind' (r_matching r)) = false ->
                  rfunc st' (w_id w) = Some (w_func w)).
  { intros kind' Hin Hc. destruct (Nat.eq_dec (w_id w) id) as [Hid | Hne]; [|apply (Hold kind' w Hin Hne)].
    destruct (Hnone kind' w Hin Hid) as [H1 H2]. subst kind'. rewrite H1, eqb_reflx in Hc. discriminate. }
  destruct kind.
  - destruct (r_enabled r && r_matching r) eqn:Ec.
    + apply (Hupd true). exact Hw.
    + apply (Hkeep true); [exact Hw|]. destruct (r_enabled r), (r_matching r); simpl in *; congruence.
  - destruct (r_enabled r && negb (r_matching r)) eqn:Ec.
    + apply (Hupd false). exact Hw.
    + apply (Hkeep false); [exact Hw|]. destruct (r_enabled r), (r_matching r); simpl in *; congruence.
Qed.

Definition Inv2 (st : dstate) : Prop := Inv st /\ funcs_ok st.

Lemma Inv2_init : Inv2 init_state.
Proof. split; [apply Inv_init | intros [] w H; simpl in H; contradiction]. Qed.
Lemma Inv2_enable : forall st id, Inv2 st -> Inv2 (enable st id).
Proof. intros st id [H1 H2]. split; [apply Inv_enable | apply funcs_ok_enable]; assumption. Qed.
Lemma Inv2_disable : forall st id, Inv2 st -> Inv2 (disable st id).
Proof. intros st id [H1 H2]. split; [apply Inv_disable | apply funcs_ok_disable]; assumption. Qed.
Lemma Inv2_set_func : forall st id f, Inv2 st -> Inv2 (set_func st id f).
Proof. intros st id f [H1 H2]. split; [apply Inv_set_func | apply funcs_ok_set_func]; assumption. Qed.

Lemma Inv2_create : forall st p mt s po tm tag, Inv2 st -> Inv2 (create st p mt s po tm tag).
Proof.
  intros st p mt s po tm tag [HI HF]. unfold create. destruct p as [| c0 p0]; [split; assumption|].
  match goal with |- Inv2 (enable ?s0 ?i0) => set (st0 := s0) end.
  assert (HI0 : Inv st0).
  { unfold st0.
    match goal with |- Inv {| resps := resps st ++ [?r0]; act_exact := _; act_match := _; cmdp := _ |} => set (r := r0) end.
    assert (Hsame : forall j, (j < length (resps st))%nat -> nth_error (resps st ++ [r]) j = nth_error (resps st) j)
      by (intros j Hj; apply nth_error_app1; assumption).
    constructor; simpl.
    - apply (inv_nodup st HI).
    - intro j. rewrite (inv_enabled st HI). unfold enabled. simpl.
      destruct (Nat.lt_ge_cases j (length (resps st))) as [Hlt | Hge].
      + rewrite Hsame by assumption. tauto.
      + assert (E1 : nth_error (resps st) j = None) by (apply nth_error_None; assumption). rewrite E1.
        rewrite nth_error_app2 by assumption. destruct (j - length (resps st))%nat as [| k]; simpl; [tauto | destruct k; simpl; tauto].
    - intro kind. apply (inv_keys st HI kind).
    - intros kind key. pose proof (inv_tbl st HI kind key) as Ht. unfold tbl in *. simpl. rewrite Ht.
      apply filter_ext_in_l. intros j Hj. unfold has_key. simpl. rewrite Hsame; [reflexivity | apply cmdp_lt; assumption]. }
  apply Inv2_enable. split; [exact HI0|].
  intros kind w Hw. unfold func_ok, rfunc, st0. simpl.
  assert (Hw' : In w (entries (tbl st kind))) by (unfold tbl in *; simpl in Hw; exact Hw).
  pose proof (HF kind w Hw') as Hok. unfold func_ok, rfunc in Hok.
  apply entry_in in Hw' as (k & l & Hkl & Hwl). destruct (entry_key st kind k l w HI Hkl Hwl) as [_ Hc].
  rewrite nth_error_app1 by (apply cmdp_lt; assumption). exact Hok.
Qed.

Lemma Inv2_cmd_period : forall st, Inv2 st -> Inv2 (cmd_period st).
Proof.
  intros st HI. unfold cmd_period. generalize (cmdp st) as l. intro l. revert st HI.
  induction l as [| id l IH]; intros st HI; simpl; [assumption|].
  apply IH. destruct (existsb (Nat.eqb id) (cmdp st)); [apply Inv2_disable|]; assumption.
Qed.
Lemma Inv2_run_func : forall f st id, Inv2 st -> Inv2 (fst (run_func st id f)).
Proof. induction f as [tag | g IH]; intros st id HI; simpl; [assumption | apply IH, Inv2_disable; assumption]. Qed.
Lemma Inv2_call_wrapped : forall st w m t src port, Inv2 st -> Inv2 (fst (call_wrapped st w m t src port)).
Proof.
  intros st w m t src port HI.
  destruct (call_wrapped_spec st w m t src port) as [[_ Hc] | [_ Hc]]; rewrite Hc; simpl; [apply Inv2_run_func|]; assumption.
Qed.
Lemma Inv2_call_all : forall l st m t src port, Inv2 st -> Inv2 (fst (call_all st l m t src port)).
Proof.
  induction l as [| w l IH]; intros st m t src port HI; simpl; [assumption|].
  pose proof (Inv2_call_wrapped st w m t src port HI) as H1.
  destruct (call_wrapped st w m t src port) as [st1 o1]. simpl in H1.
  pose proof (IH st1 m t src port H1) as H2.
  destruct (call_all st1 l m t src port) as [st2 o2]. simpl in *. assumption.
Qed.
Lemma Inv2_exact_d : forall st m t src port, Inv2 st -> Inv2 (fst (dispatch_exact_d st m t src port)).
Proof.
  intros. unfold dispatch_exact_d. destruct (tbl_get (act_exact st) (m_addr m)); [apply Inv2_call_all|]; assumption.
Qed.
Lemma Inv2_incoming : forall st m t src port, Inv2 st -> Inv2 (fst (incoming st m t src port)).
Proof.
  intros st m t src port HI. unfold incoming.
  pose proof (Inv2_exact_d st m t src port HI) as H1.
  destruct (dispatch_exact_d st m t src port) as [st1 o1]. simpl in H1.
  pose proof (Inv2_call_all (match_list st1 m) st1 m t src port H1) as H2. rewrite dmd_eq.
  destruct (call_all st1 (match_list st1 m) m t src port) as [st2 o2]. simpl in *. assumption.
Qed.
Lemma Inv2_incoming_all : forall ms st src port, Inv2 st -> Inv2 (fst (incoming_all st ms src port)).
Proof.
  induction ms as [| [t m] ms IH]; intros st src port HI; simpl; [assumption|].
  pose proof (Inv2_incoming st m t src port HI) as H1.
  destruct (incoming st m t src port) as [st1 o1]. simpl in H1.
  pose proof (IH st1 src port H1) as H2.
  destruct (incoming_all st1 ms src port) as [st2 o2]. simpl in *. assumption.
Qed.
Lemma Inv2_step : forall st o, Inv2 st -> Inv2 (fst (step st o)).
Proof.
  intros st o HI. destruct o; simpl.
  - apply Inv2_create; assumption.
  - apply Inv2_enable; assumption.
  - apply Inv2_disable; assumption.
  - unfold one_shot. destruct (nth_error (resps st) id); [apply Inv2_set_func|]; assumption.
  - apply Inv2_disable; assumption.
  - apply Inv2_set_func; assumption.
  - apply Inv2_cmd_period; assumption.
  - apply Inv2_incoming; assumption.
  - unfold handle_request. destruct (parse_packet d); try assumption. apply Inv2_incoming_all; assumption.
Qed.
Lemma Inv2_final : forall h, Inv2 (final h).
Proof.
  intro h. unfold final. generalize Inv2_init. generalize init_state. induction h as [| o h IH]; intros st HI; simpl; [assumption|].
  pose proof (Inv2_step st o HI) as H1. destruct (step st o) as [st1 out]. simpl in H1.
  pose proof (IH st1 H1) as H2. destruct (run st1 h) as [st2 outs]. simpl in *. assumption.
Qed.

(* the tag logged by an invocation is the user function under the one-shot wrappers *)
Lemma run_func_tag : forall f st id, snd (run_func st id f) = user_tag f.
Proof. induction f as [tag | g IH]; intros; simpl; [reflexivity | apply IH]. Qed.

Lemma rfunc_disable : forall st j id, rfunc (disable st j) id = rfunc st id.
Proof.
  intros st j id. unfold disable.
  destruct (nth_error (resps st) j) as [r|] eqn:Hn; [|reflexivity].
  destruct (r_enabled r); [|reflexivity].
  apply (rfunc_set st _ j r (with_enabled r false)); auto.
Qed.
Lemma rfunc_run_func : forall f st j id, rfunc (fst (run_func st j f)) id = rfunc st id.
Proof. induction f as [tag | g IH]; intros; simpl; [reflexivity | rewrite IH; apply rfunc_disable]. Qed.

Lemma call_all_tags : forall l st m t src port,
  (forall i, In i (snd (call_all st l m t src port)) -> exists w, In w l /\ i_id i = w_id w /\ i_tag i = user_tag (w_func w))
  /\ (forall id, rfunc (fst (call_all st l m t src port)) id = rfunc st id).
Proof.
  induction l as [| w l IH]; intros st m t src port; simpl; [split; [contradiction | reflexivity]|].
  destruct (call_wrapped_spec st w m t src port) as [[Ha Hc] | [Ha Hc]]; rewrite Hc.
  - set (st1 := fst (run_func st (w_id w) (w_func w))).
    destruct (IH st1 m t src port) as [H1 H2].
    destruct (call_all st1 l m t src port) as [st2 o2]. simpl in *. split.
    + intros i [<- | Hi].
      * exists w. simpl. repeat split; [left; reflexivity | apply run_func_tag].
      * destruct (H1 i Hi) as (w' & Hw' & Hid & Htag). exists w'. repeat split; [right; assumption | assumption | assumption].
    + intro id. rewrite H2. apply rfunc_run_func.
  - destruct (IH st m t src port) as [H1 H2].
    destruct (call_all st l m t src port) as [st2 o2]. simpl in *. split; [|assumption].
    intros i Hi. destruct (H1 i Hi) as (w' & Hw' & Hid & Htag). exists w'. repeat split; [right; assumption | assumption | assumption].
Qed.

Lemma match_list_func : forall st m w, In w (match_list st m) -> rfunc st (w_id w) = Some (w_func w).
Proof.
  intros st m w H. unfold match_list in H. destruct (matched_keys m (act_match st)) as [ks|]; [|contradiction].
  destruct (reg_entries_func st ks w H) as (r & E & Ef). unfold rfunc. rewrite E, Ef. reflexivity.
Qed.

Lemma tbl_get_entries : forall t k l, tbl_get t k = Some l -> forall w, In w l -> In w (entries t).
Proof.
  unfold entries. induction t as [| [k' l'] t IH]; intros k l H w Hw; simpl in *; [discriminate|].
  apply in_or_app. destruct (bytes_eqb k k'); [inversion H; subst; left; assumption | right; eapply IH; eassumption].
Qed.

Lemma invoked_current : forall st m t src port, Inv2 st ->
  forall i, In i (snd (incoming st m t src port)) ->
  exists r, nth_error (resps st) (i_id i) = Some r /\ i_tag i = user_tag (r_func r).
Proof.
  intros st m t src port HI2 i Hi. unfold incoming in Hi.
  pose proof (Inv2_exact_d st m t src port HI2) as [HI1 HF1].
  assert (Hex : forall i, In i (snd (dispatch_exact_d st m t src port)) -> exists w, In w (entries (act_exact st)) /\ i_id i = w_id w /\ i_tag i = user_tag (w_func w)).
  { unfold dispatch_exact_d. destruct (tbl_get (act_exact st) (m_addr m)) as [l|] eqn:E; [|simpl; contradiction].
    intros i0 Hi0. destruct (proj1 (call_all_tags l st m t src port) i0 Hi0) as (w & Hw & Hid & Htag).
    exists w. repeat split; [eapply tbl_get_entries; eassumption | assumption | assumption]. }
  assert (Hrf : forall id, rfunc (fst (dispatch_exact_d st m t src port)) id = rfunc st id).
  { unfold dispatch_exact_d. destruct (tbl_get (act_exact st) (m_addr m)) as [l|]; [apply call_all_tags | reflexivity]. }
  destruct (dispatch_exact_d st m t src port) as [st1 o1]. simpl in *.
  pose proof (proj1 (call_all_tags (match_list st1 m) st1 m t src port)) as Hm. rewrite dmd_eq in Hi.
  pose proof (match_list_func st1 m) as Hlf.
  destruct (call_all st1 (match_list st1 m) m t src port) as [st2 o2]. simpl in *.
  assert (Hfin : forall w (st' : dstate), rfunc st' (w_id w) = Some (w_func w) -> (forall id, rfunc st' id = rfunc st id) ->
                 i_id i = w_id w -> i_tag i = user_tag (w_func w) ->
                 exists r, nth_error (resps st) (i_id i) = Some r /\ i_tag i = user_tag (r_func r)).
  { intros w st' Hok Hsame Hid Htag. rewrite Hsame in Hok. unfold rfunc in Hok. rewrite Hid.
    destruct (nth_error (resps st) (w_id w)) as [r|]; [|discriminate]. simpl in Hok. inversion Hok as [Hf].
    exists r. split; [reflexivity | rewrite Htag, Hf; reflexivity]. }
  apply in_app_or in Hi as [Hi | Hi].
  - destruct (Hex i Hi) as (w & Hw & Hid & Htag). destruct HI2 as [_ HF].
    apply (Hfin w st); [apply (HF false w Hw) | reflexivity | assumption | assumption].
  - destruct (Hm i Hi) as (w & Hw & Hid & Htag).
    apply (Hfin w st1); [apply Hlf; assumption | assumption | assumption | assumption].
Qed.

(* ---- matching dispatcher: exactly the right responders, each once --------------------------------------------- *)
Lemma NoDup_app_disj : forall (A : Type) (l1 l2 : list A), NoDup l1 -> NoDup l2 -> (forall x, In x l1 -> ~ In x l2) -> NoDup (l1 ++ l2).
Proof.
  induction l1 as [| x l1 IH]; intros l2 H1 H2 Hd; simpl; [assumption|].
  inversion H1; subst. constructor.
  - intro Hi. apply in_app_or in Hi as [Hi | Hi]; [contradiction | apply (Hd x (or_introl eq_refl) Hi)].
  - apply IH; [assumption | assumption | intros y Hy; apply Hd; right; assumption].
Qed.
Lemma NoDup_flat_map_disj : forall (K : Type) (f : K -> list nat) ks, NoDup ks ->
  (forall k, In k ks -> NoDup (f k)) ->
  (forall k1 k2 x, In k1 ks -> In k2 ks -> In x (f k1) -> In x (f k2) -> k1 = k2) ->
  NoDup (flat_map f ks).
Proof.
  induction ks as [| k ks IH]; intros Hnd Hf Hd; simpl; [constructor|].
  inversion Hnd as [| ? ? Hnin Hnd']; subst. apply NoDup_app_disj.
  - apply Hf. left. reflexivity.
  - apply IH; [assumption | intros; apply Hf; right; assumption | intros k1 k2 x H1 H2; apply Hd; right; assumption].
  - intros x Hx Hi. apply in_flat_map in Hi as (k' & Hk' & Hx').
    assert (k = k') by (apply (Hd k k' x); [left; reflexivity | right; assumption | assumption | assumption]).
    subst. contradiction.
Qed.

Lemma fires_path : forall st kind k m src port id, fires st kind k m src port id = true ->
  exists r, nth_error (resps st) id = Some r /\ k = r_path r.
Proof.
  intros st kind k m src port id H. unfold fires in H. destruct (nth_error (resps st) id) as [r|]; [|discriminate].
  exists r. split; [reflexivity|]. apply andb_true_iff in H as [H _]. apply andb_true_iff in H as [_ H]. apply bytes_eqb_eq. assumption.
Qed.

Lemma match_exactly_once : forall st m t src port, Inv st ->
  NoDup (map i_id (snd (dispatch_match_d st m t src port)))
  /\ forall id, In id (map i_id (snd (dispatch_match_d st m t src port))) <-> fires_m st m src port id = true.
Proof.
  intros st m t src port HI. rewrite match_ids by assumption. split.
  - apply NoDup_filter, (inv_nodup st HI).
  - intro id. rewrite filter_In. split; [tauto|]. intro Hf. split; [|assumption].
    apply (inv_enabled st HI). unfold enabled, fires_m in *. destruct (nth_error (resps st) id) as [r|]; [|discriminate].
    destruct (r_enabled r); [reflexivity | discriminate].
Qed.
