(* C06 -- _clump_bundle: every clump, sent as a bundle (optionally with extra elements
   such as the /sync message), stays below the clump size. *)
From Coq Require Import ZArith QArith List Bool Lia.
Import ListNotations.
Require Import SC3.model.Osc SC3.model.OscSize SC3.proofs.C06_base SC3.proofs.C06_size.
Open Scope Z_scope.

Definition esz (e : arg) : Z := match calc_elem true e with Ok s => s | Err _ => 0 end.

Lemma clump_sizes_map : forall es sl, clump_sizes true es = Ok sl ->
  sl = map (fun e => (esz e, e)) es /\ Forall (fun e => calc_elem true e = Ok (esz e)) es.
Proof.
  induction es as [| e r IH]; intros sl H; cbn [clump_sizes] in H.
  - inv_ok H. split; [reflexivity | constructor].
  - apply bind_ok in H as (s & Hs & H). apply bind_ok in H as (t & Ht & H). inv_ok H.
    destruct (IH t Ht) as [-> HF]. cbn [map].
    assert (Hes : esz e = s) by (unfold esz; rewrite Hs; reflexivity).
    rewrite Hes. split; [reflexivity |]. constructor; [rewrite Hes; exact Hs | exact HF].
Qed.

Lemma calc_bndl_wsum : forall c, Forall (fun e => calc_elem true e = Ok (esz e)) c ->
  calc_bndl true c = Ok (16 + wsum esz c).
Proof.
  induction c as [| e r IH]; intros HF; [reflexivity |].
  inversion HF as [| ? ? He Hr]; subst. cbn [calc_bndl]. rewrite He. cbn [bind]. rewrite (IH Hr). cbn [bind].
  unfold wsum. cbn [map sumz]. f_equal. lia.
Qed.

Lemma build_elems_app : forall nc lat a b ds, build_elems nc lat (a ++ b) = Ok ds ->
  exists da db, build_elems nc lat a = Ok da /\ build_elems nc lat b = Ok db /\ ds = da ++ db.
Proof.
  induction a as [| e r IH]; intros b ds H.
  - exists [], ds. cbn. auto.
  - cbn [app build_elems] in H. apply bind_ok in H as (d & Hd & H). apply bind_ok in H as (t & Ht & H). inv_ok H.
    destruct (IH b t Ht) as (da & db & Ha & Hb & ->).
    exists (d :: da), db. cbn [build_elems]. rewrite Hd, Ha. cbn [bind]. auto.
Qed.

Lemma bundle_len'_app : forall a b, bundle_len' (a ++ b) = bundle_len' a + bundle_len' b.
Proof. unfold bundle_len'. induction a as [| x a IH]; intros b; cbn [app map sumz]; [lia | rewrite IH; lia]. Qed.

Lemma Forall_sized : forall nc l, Forall (sized nc) l.
Proof. intros nc l. apply Forall_forall. intros x _. apply sized_all. Qed.

Lemma forallb_sub : forall (f : arg -> bool) l c, forallb f l = true -> (forall e, In e c -> In e l) -> forallb f c = true.
Proof.
  intros f l c Hl Hsub. apply forallb_forall. intros e He.
  rewrite forallb_forall in Hl. apply Hl, Hsub, He.
Qed.

Theorem clump_within_size : forall nc size es cs,
  forallb floats4 es = true ->
  clump_bundle true size es = Ok cs ->
  (forall e s, In e es -> calc_elem true e = Ok s -> 16 + (s + 4) < size) ->
  forall c, In c cs -> forall lat tag extra d,
    forallb floats4 extra = true ->
    build_pkt nc (AList (ATime lat tag :: c ++ extra)) = Ok d ->
    exists dx, build_elems nc lat extra = Ok dx /\ zlen d < size + bundle_len' dx.
Proof.
  intros nc size es cs Hwf Hcl Hfit c Hc lat tag extra d Hwx Hb.
  unfold clump_bundle in Hcl. apply bind_ok in Hcl as (sl & Hsl & Hcl). inv_ok Hcl.
  destruct (clump_sizes_map _ _ Hsl) as [-> Hsz].
  (* the elements of c are elements of es *)
  assert (Hsub : forall e, In e c -> In e es).
  { intros e He.
    pose proof (clump_loop_concat true size (map (fun e => (esz e, e)) es) 16 []) as Hcat.
    cbn [rev app] in Hcat. rewrite map_map in Hcat. cbn [snd] in Hcat. rewrite map_id in Hcat.
    rewrite <- Hcat. apply in_concat. exists c. split; assumption. }
  (* the clump is below the size *)
  assert (Hbound : 16 + wsum esz c < size).
  { pose proof (clump_loop_bound esz size es 16 [] eq_refl (or_introl (Nat.le_0_l 1))) as HB.
    rewrite Forall_forall in HB. destruct (HB c Hc) as [Hlen | Hlt]; [| exact Hlt].
    pose proof (clump_loop_nonempty size (map (fun e => (esz e, e)) es) 16 []) as HN.
    rewrite Forall_forall in HN. specialize (HN c Hc).
    destruct c as [| e [| e' c']]; [contradiction | | cbn [length] in Hlen; lia].
    unfold wsum. cbn [map sumz].
    rewrite Forall_forall in Hsz.
    pose proof (Hfit e (esz e) (Hsub e (or_introl eq_refl)) (Hsz e (Hsub e (or_introl eq_refl)))). lia. }
  destruct (build_bundle_len _ _ _ _ _ Hb) as (ds & Hds & Hlen).
  destruct (build_elems_app _ _ _ _ _ Hds) as (dc & dx & Hdc & Hdx & ->).
  exists dx. split; [exact Hdx |].
  assert (Hcsz : Forall (fun e => calc_elem true e = Ok (esz e)) c).
  { apply Forall_forall. intros e He. rewrite Forall_forall in Hsz. apply Hsz, Hsub, He. }
  destruct (sized_elems nc lat c dc (Forall_sized nc c) (forallb_sub _ _ _ Hwf Hsub) Hdc) as [_ Hub].
  specialize (Hub _ (calc_bndl_wsum c Hcsz)).
  rewrite Hlen. unfold bundle_len. fold (bundle_len' (dc ++ dx)). rewrite bundle_len'_app. lia.
Qed.

(* the /sync message NetAddr.sync appends to every clump *)
Definition sync_addr : bytes := [47; 115; 121; 110; 99].      (* '/sync' *)
Definition sync_msg (id : Z) : arg := AList [AStr sync_addr; AInt id].

Theorem clump_sync_within_udp : forall nc es cs,
  forallb floats4 es = true ->
  clump_bundle true (MAX_UDP - SYNC_SIZE) es = Ok cs ->
  (forall e s, In e es -> calc_elem true e = Ok s -> 16 + (s + 4) < MAX_UDP - SYNC_SIZE) ->
  forall c, In c cs -> forall lat tag id d,
    build_pkt nc (AList (ATime lat tag :: c ++ [sync_msg id])) = Ok d ->
    zlen d <= MAX_UDP.
Proof.
  intros nc es cs Hwf Hcl Hfit c Hc lat tag id d Hb.
  destruct (clump_within_size nc _ es cs Hwf Hcl Hfit c Hc lat tag [sync_msg id] d eq_refl Hb) as (dx & Hdx & Hlt).
  cbn [build_elems] in Hdx. apply bind_ok in Hdx as (ds & Hs & Hdx). cbn [bind] in Hdx. inv_ok Hdx.
  cbn [build_elem sync_msg] in Hs.
  destruct (sized_all nc (sync_msg id) eq_refl ds Hs) as [_ Hub].
  specialize (Hub 16 eq_refl).
  unfold bundle_len' in Hlt. cbn [map sumz] in Hlt. unfold MAX_UDP, SYNC_SIZE in *. lia.
Qed.
