(* C06 -- _clump_bundle: every clump, sent as a bundle (optionally with extra elements
   such as the /sync message), stays below the clump size. *)
From Coq Require Import ZArith QArith List Bool Lia.
Import ListNotations.
Require Import SC3.model.Osc SC3.model.OscSize SC3.proofs.C06_base SC3.proofs.C06_size.
Open Scope Z_scope.

Definition esz (e : arg) : Z := match calc_elem true e with Ok s => s | Err _ => 0 end.

Lemma clump_sizes_map : forall es sl, clump_sizes true es = Ok sl ->
  sl = map (fun e => (esz e, e)) es /\ Forall (fun e => calc_elem true e = Ok (esz e)) es.
Proof.
  induction es as [| e r IH]; intros sl H; cbn [clump_sizes] in H.
  - inv_ok H. split; [reflexivity | constructor].
  - apply bind_ok in H as (s & Hs & H). apply bind_ok in H as (t & Ht & H). inv_ok H.
    destruct (IH t Ht) as [-> HF]. cbn [map].
    assert (Hes : esz e = s) by (unfold esz; rewrite Hs; reflexivity).
    rewrite Hes. split; [reflexivity |]. constructor; [rewrite Hes; exact Hs | exact HF].
Qed.

Lemma calc_bndl_wsum : forall c, Forall (fun e => calc_elem true e = Ok (esz e)) c ->
  calc_bndl true c = Ok (16 + wsum esz c).
Proof.
  induction c as [| e r IH]; intros HF; [reflexivity |].
  inversion HF as [| ? ? He Hr]; subst. cbn [calc_bndl]. rewrite He. cbn [bind]. rewrite (IH Hr). cbn [bind].
  unfold wsum. cbn [map sumz]. f_equal. lia.
Qed.

Lemma build_elems_app : forall nc lat a b ds, build_elems nc lat (a ++ b) = Ok ds ->
  exists da db, build_elems nc lat a = Ok da /\ build_elems nc lat b = Ok db /\ ds = da ++ db.
Proof.
  induction a as [| e r IH]; intros b ds H.
  - exists [], ds. cbn. auto.
  - cbn [app build_elems] in H. apply bind_ok in H as (d & Hd & H). apply bind_ok in H as (t & Ht & H). inv_ok H.
    destruct (IH b t Ht) as (da & db & Ha & Hb & ->).
    exists (d :: da), db. cbn [build_elems]. rewrite Hd, Ha. cbn [bind]. auto.
Qed.

Lemma bundle_len'_app : forall a b, bundle_len' (a ++ b) = bundle_len' a + bundle_len' b.
Proof. unfold bundle_len'. induction a as [| x a IH]; intros b; cbn [app map sumz]; [lia | rewrite IH; lia]. Qed.

Lemma Forall_sized : forall nc l, Forall (sized nc) l.
Proof. intros nc l. apply Forall_forall. intros x _. apply sized_all. Qed.

Lemma forallb_sub : forall (f : arg -> bool) l c, forallb f l = true -> (forall e, In e c -> In e l) -> forallb f c = true.
Proof.
  intros f l c Hl Hsub. apply forallb_forall. intros e He.
  rewrite forallb_forall in Hl. apply Hl, Hsub, He.
Qed.

Theorem clump_within_size : forall nc size es cs,
  forallb floats4 es = true ->
  clump_bundle true size es = Ok cs ->
  (forall e s, In e es -> calc_elem true e = Ok s -> 16 + (s + 4) < size) ->
  forall c, In c cs -> forall lat tag extra d,
    forallb floats4 extra = true ->
    build_pkt nc (AList (ATime lat tag :: c ++ extra)) = Ok d ->
    exists dx, build_elems nc lat extra = Ok dx /\ zlen d < size + bundle_len' dx.
Proof.
  intros nc size es cs Hwf Hcl Hfit c Hc lat tag extra d Hwx Hb.
  unfold clump_bundle in Hcl. apply bind_ok in Hcl as (sl & Hsl & Hcl). inv_ok Hcl.
  destruct (clump_sizes_map _ _ Hsl) as [-> Hsz].
  (* the elements of c are elements of es *)
  assert (Hsub : forall e, In e c -> In e es).
  { intros e He.
    pose proof (clump_loop_concat true size (map (fun e => (esz e, e)) es) 16 []) as Hcat.
    cbn [rev app] in Hcat. rewrite map_map in Hcat. cbn [snd] in Hcat. rewrite map_id in Hcat.
    rewrite <- Hcat. apply in_concat. exists c. split; assumption. }
  (* the clump is below the size *)
  assert (Hbound : 16 + wsum esz c < size).
  { pose proof (clump_loop_bound esz size es 16 [] eq_refl (or_introl (Nat.le_0_l 1))) as HB.
    rewrite Forall_forall in HB. destruct (HB c Hc) as [Hlen | Hlt]; [| exact Hlt].
    pose proof (clump_loop_nonempty size (map (fun e => (esz e, e)) es) 16 []) as HN.
    rewrite Forall_forall in HN. specialize (HN c Hc).
    destruct c as [| e [| e' c']]; [contradiction | | cbn [length] in Hlen; lia].
    unfold wsum. cbn [map sumz].
    rewrite Forall_forall in Hsz.
    pose proof (Hfit e (esz e) (Hsub e (or_introl eq_refl)) (Hsz e (Hsub e (or_introl eq_refl)))). lia. }
  destruct (build_bundle_len _ _ _ _ _ Hb) as (ds & Hds & Hlen).
  destruct (build_elems_app _ _ _ _ _ Hds) as (dc & dx & Hdc & Hdx & ->).
  exists dx. split; [exact Hdx |].
  assert (Hcsz : Forall (fun e => calc_elem true e = Ok (esz e)) c).
  { apply Forall_forall. intros e He. rewrite Forall_forall in Hsz. apply Hsz, Hsub, He. }
  destruct (sized_elems nc lat c dc (Forall_sized nc c) (forallb_sub _ _ _ Hwf Hsub) Hdc) as [_ Hub].
  specialize (Hub _ (calc_bndl_wsum c Hcsz)).
  rewrite Hlen. unfold bundle_len. fold (bundle_len' (dc ++ dx)). rewrite bundle_len'_app. lia.
Qed.

(* the /sync message NetAddr.sync appends to every clump *)
Definition sync_addr : bytes := [47; 115; 121; 110; 99].      (* '/sync' *)
Definition sync_msg (id : Z) : arg := AList [AStr sync_addr; AInt id].

Theorem clump_sync_within_udp : forall nc es cs,
  forallb floats4 es = true ->
  clump_bundle true (MAX_UDP - SYNC_SIZE) es = Ok cs ->
  (forall e s, In e es -> calc_elem true e = Ok s -> 16 + (s + 4) < MAX_UDP - SYNC_SIZE) ->
  forall c, In c cs -> forall lat tag id d,
    build_pkt nc (AList (ATime lat tag :: c ++ [sync_msg id])) = Ok d ->
    zlen d <= MAX_UDP.
Proof.
  intros nc es cs Hwf Hcl Hfit c Hc lat tag id d Hb.
  destruct (clump_within_size nc _ es cs Hwf Hcl Hfit c Hc lat tag [sync_msg id] d eq_refl Hb) as (dx & Hdx & Hlt).
  cbn [build_elems] in Hdx. apply bind_ok in Hdx as (ds & Hs & Hdx). cbn [bind] in Hdx. inv_ok Hdx.
  cbn [build_elem sync_msg] in Hs.
  destruct (sized_all nc (sync_msg id) eq_refl ds Hs) as [_ Hub].
  specialize (Hub 16 eq_refl).
  unfold bundle_len' in Hlt. cbn [map sumz] in Hlt. unfold MAX_UDP, SYNC_SIZE in *. lia.
Qed.

(* ---- the use sites: send_clumped_bundles and sync ---- *)
(* what is known of every clump: it is not empty, its elements are elements of the input with
   their predicted sizes, it is a single element or its predicted bundle is below the size *)
Lemma clump_facts : forall size es cs c,
  clump_bundle true size es = Ok cs -> In c cs ->
  c <> [] /\ (forall e, In e c -> In e es) /\
  Forall (fun e => calc_elem true e = Ok (esz e)) c /\
  ((length c <= 1)%nat \/ 16 + wsum esz c < size).
Proof.
  intros size es cs c Hcl Hc.
  unfold clump_bundle in Hcl. apply bind_ok in Hcl as (sl & Hsl & Hcl). inv_ok Hcl.
  destruct (clump_sizes_map _ _ Hsl) as [-> Hsz].
  assert (Hsub : forall e, In e c -> In e es).
  { intros e He.
    pose proof (clump_loop_concat true size (map (fun e => (esz e, e)) es) 16 []) as Hcat.
    cbn [rev app] in Hcat. rewrite map_map in Hcat. cbn [snd] in Hcat. rewrite map_id in Hcat.
    rewrite <- Hcat. apply in_concat. exists c. split; assumption. }
  split; [| split; [exact Hsub | split]].
  - pose proof (clump_loop_nonempty size (map (fun e => (esz e, e)) es) 16 []) as HN.
    rewrite Forall_forall in HN. exact (HN c Hc).
  - apply Forall_forall. intros e He. rewrite Forall_forall in Hsz. apply Hsz, Hsub, He.
  - pose proof (clump_loop_bound esz size es 16 [] eq_refl (or_introl (Nat.le_0_l 1))) as HB.
    rewrite Forall_forall in HB. exact (HB c Hc).
Qed.

(* the bundle built from a list of elements (plus extra ones) is not longer than predicted *)
Lemma bundle_real_le : forall nc lat tag c extra d,
  forallb floats4 c = true ->
  Forall (fun e => calc_elem true e = Ok (esz e)) c ->
  build_pkt nc (AList (ATime lat tag :: c ++ extra)) = Ok d ->
  exists dx, build_elems nc lat extra = Ok dx /\ zlen d <= 16 + wsum esz c + bundle_len' dx.
Proof.
  intros nc lat tag c extra d Hwf Hcsz Hb.
  destruct (build_bundle_len _ _ _ _ _ Hb) as (ds & Hds & Hlen).
  destruct (build_elems_app _ _ _ _ _ Hds) as (dc & dx & Hdc & Hdx & ->).
  exists dx. split; [exact Hdx |].
  destruct (sized_elems nc lat c dc (Forall_sized nc c) Hwf Hdc) as [_ Hub].
  specialize (Hub _ (calc_bndl_wsum c Hcsz)).
  rewrite Hlen. unfold bundle_len. fold (bundle_len' (dc ++ dx)). rewrite bundle_len'_app. lia.
Qed.

Lemma calc_bndl_sizes : forall es n, calc_bndl true es = Ok n ->
  Forall (fun e => calc_elem true e = Ok (esz e)) es /\ n = 16 + wsum esz es.
Proof.
  induction es as [| e r IH]; intros n H; cbn [calc_bndl] in H.
  - inv_ok H. split; [constructor | reflexivity].
  - apply bind_ok in H as (s & Hs & H). apply bind_ok in H as (t & Ht & H). inv_ok H.
    destruct (IH t Ht) as [HF ->].
    assert (Hes : esz e = s) by (unfold esz; rewrite Hs; reflexivity).
    split; [constructor; [rewrite Hes; exact Hs | exact HF] |].
    unfold wsum. cbn [map sumz]. rewrite Hes. lia.
Qed.

(* NetAddr.send_clumped_bundles: every datagram it sends is within the UDP limit, provided each
   single element is (an element larger than the clump size travels alone) *)
Theorem send_clumped_within_udp_main : forall nc es cs,
  forallb floats4 es = true ->
  send_clumped_plan true es = Ok cs ->
  (forall e s, In e es -> calc_elem true e = Ok s -> 16 + (s + 4) <= MAX_UDP) ->
  concat cs = es /\
  forall c, In c cs -> forall lat tag d,
    build_pkt nc (AList (ATime lat tag :: c)) = Ok d -> zlen d <= MAX_UDP.
Proof.
  intros nc es cs Hwf Hp Hfit. unfold send_clumped_plan in Hp.
  apply bind_ok in Hp as (n & Hn & Hp).
  destruct (MAX_UDP <? n) eqn:E.
  - split.
    { unfold clump_bundle in Hp. apply bind_ok in Hp as (sl & Hsl & Hp). inv_ok Hp.
      destruct (clump_sizes_map _ _ Hsl) as [-> _].
      rewrite clump_loop_concat. cbn [rev app]. rewrite map_map. cbn [snd]. apply map_id. }
    intros c Hc lat tag d Hb.
    destruct (clump_facts _ _ _ _ Hp Hc) as (Hne & Hsub & Hcsz & Hbound).
    replace c with (c ++ []) in Hb by apply app_nil_r.
    destruct (bundle_real_le nc lat tag c [] d (forallb_sub _ _ _ Hwf Hsub) Hcsz Hb) as (dx & Hdx & Hle).
    cbn in Hdx. inv_ok Hdx. unfold bundle_len' in Hle. cbn [map sumz] in Hle.
    destruct Hbound as [Hlen | Hlt]; [| unfold MAX_UDP in *; lia].
    destruct c as [| e [| e' c']]; [contradiction | | cbn [length] in Hlen; lia].
    unfold wsum in Hle. cbn [map sumz] in Hle.
    inversion Hcsz as [| ? ? He _]; subst.
    pose proof (Hfit e (esz e) (Hsub e (or_introl eq_refl)) He). lia.
  - inv_ok Hp. apply Z.ltb_ge in E. split; [cbn [concat]; apply app_nil_r |].
    intros c [<- | []] lat tag d Hb.
    destruct (calc_bndl_sizes _ _ Hn) as [Hcsz ->].
    replace es with (es ++ []) in Hb by apply app_nil_r.
    destruct (bundle_real_le nc lat tag es [] d Hwf Hcsz Hb) as (dx & Hdx & Hle).
    cbn in Hdx. inv_ok Hdx. unfold bundle_len' in Hle. cbn [map sumz] in Hle. lia.
Qed.

(* NetAddr.sync(elements): every datagram (clump + '/sync') is within the UDP limit *)
Theorem sync_within_udp_main : forall nc es cs,
  forallb floats4 es = true ->
  sync_plan true es = Ok cs ->
  (forall e s, In e es -> calc_elem true e = Ok s -> 16 + (s + 4) + 20 <= MAX_UDP) ->
  concat cs = es /\
  forall c, In c cs -> forall lat tag id d,
    build_pkt nc (AList (ATime lat tag :: c ++ [sync_msg id])) = Ok d -> zlen d <= MAX_UDP.
Proof.
  intros nc es cs Hwf Hp Hfit. unfold sync_plan in Hp.
  apply bind_ok in Hp as (n & Hn & Hp).
  assert (Hsync : forall lat id dx, build_elems nc lat [sync_msg id] = Ok dx -> bundle_len' dx <= 20).
  { intros lat id dx Hdx. cbn [build_elems] in Hdx. apply bind_ok in Hdx as (ds & Hs & Hdx). cbn [bind] in Hdx. inv_ok Hdx.
    cbn [build_elem sync_msg] in Hs.
    destruct (sized_all nc (sync_msg id) eq_refl ds Hs) as [_ Hub]. specialize (Hub 16 eq_refl).
    unfold bundle_len'. cbn [map sumz]. lia. }
  destruct (MAX_UDP - SYNC_SIZE <? n) eqn:E.
  - split.
    { unfold clump_bundle in Hp. apply bind_ok in Hp as (sl & Hsl & Hp). inv_ok Hp.
      destruct (clump_sizes_map _ _ Hsl) as [-> _].
      rewrite clump_loop_concat. cbn [rev app]. rewrite map_map. cbn [snd]. apply map_id. }
    intros c Hc lat tag id d Hb.
    destruct (clump_facts _ _ _ _ Hp Hc) as (Hne & Hsub & Hcsz & Hbound).
    destruct (bundle_real_le nc lat tag c [sync_msg id] d (forallb_sub _ _ _ Hwf Hsub) Hcsz Hb) as (dx & Hdx & Hle).
    pose proof (Hsync lat id dx Hdx) as H20.
    destruct Hbound as [Hlen | Hlt]; [| unfold MAX_UDP, SYNC_SIZE in *; lia].
    destruct c as [| e [| e' c']]; [contradiction | | cbn [length] in Hlen; lia].
    unfold wsum in Hle. cbn [map sumz] in Hle.
    inversion Hcsz as [| ? ? He _]; subst.
    pose proof (Hfit e (esz e) (Hsub e (or_introl eq_refl)) He). lia.
  - inv_ok Hp. apply Z.ltb_ge in E. split; [cbn [concat]; apply app_nil_r |].
    intros c [<- | []] lat tag id d Hb.
    destruct (calc_bndl_sizes _ _ Hn) as [Hcsz ->].
    destruct (bundle_real_le nc lat tag es [sync_msg id] d Hwf Hcsz Hb) as (dx & Hdx & Hle).
    pose proof (Hsync lat id dx Hdx) as H20. unfold MAX_UDP, SYNC_SIZE in *. lia.
Qed.
