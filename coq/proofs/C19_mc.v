(* C19 -- multichannel envelopes: channel j of the arrays built by _envgen_format through utl.flop
   is the single-channel array of the j-th projection of the envelope (every list item taken at
   j mod its length), so every theorem about single-channel envelopes applies to every channel. *)
From Coq Require Import ZArith QArith String List Bool Lia Arith.
Require Import SC3.lib.PyNum SC3.gen.Gen_envtables SC3.model.Env SC3.proofs.C19_format.
Import ListNotations.
Open Scope list_scope.

Definition nonempty_item (x : mitem) : bool := match x with ML [] => false | _ => true end.

Lemma shape_numbers_nth l : forall ks, shape_numbers l = Ok ks ->
  length ks = length l /\
  forall i d, (i < length l)%nat -> exists k, shape_number (nth i l d) = Ok k /\ nth i ks NErr = I k.
Proof.
  induction l as [|c r IH]; intros ks H; simpl in H.
  - inversion H. split; [reflexivity|]. intros i d Hi. simpl in Hi. lia.
  - destruct (shape_number c) as [k|e] eqn:Ec; [|discriminate]. cbn [bind] in H.
    destruct (shape_numbers r) as [rest|e] eqn:Er; [|discriminate]. cbn [bind] in H. inversion H; subst ks.
    destruct (IH rest eq_refl) as [Hlen Hnth]. split; [simpl; lia|].
    intros i d Hi. destruct i; simpl; [exists k; auto|]. apply Hnth. simpl in Hi. lia.
Qed.

Lemma mshape_proj j c sh : mshape c = Ok sh -> nonempty_item sh = true ->
  exists k, shape_number (proj_curve j c) = Ok k /\ item_at j sh = I k.
Proof.
  destruct c as [c|l]; simpl; intros H Hne.
  - destruct (shape_number c) as [k|e]; [|discriminate]. inversion H. exists k. auto.
  - destruct (shape_numbers l) as [ks|e] eqn:E; [|discriminate]. cbn [bind] in H. inversion H; subst sh.
    destruct (shape_numbers_nth l ks E) as [Hlen Hnth]. simpl. rewrite Hlen.
    assert (Hl : length l <> 0%nat).
    { destruct ks; [discriminate Hne|]. rewrite <- Hlen. simpl. discriminate. }
    apply Hnth. apply Nat.mod_upper_bound. exact Hl.
Qed.

Lemma mcurve_value_proj j c : nonempty_item (mcurve_value c) = true ->
  item_at j (mcurve_value c) = curve_value (proj_curve j c).
Proof.
  destruct c as [c|l]; simpl; intros Hne; [reflexivity|]. rewrite map_length.
  assert (Hl : length l <> 0%nat) by (destruct l; [discriminate Hne|simpl; discriminate]).
  rewrite (nth_indep _ NErr (curve_value (CName ""))) by (rewrite map_length; apply Nat.mod_upper_bound; exact Hl).
  apply map_nth.
Qed.

Lemma mc_segments_proj j tm : forall lv cv i cs,
  mc_segments lv tm cv i = Ok cs -> forallb nonempty_item cs = true ->
  fmt_segments (map (item_at j) lv) (map (item_at j) tm) (map (proj_curve j) cv) i = Ok (map (item_at j) cs).
Proof.
  induction tm as [|t tm' IH]; intros lv cv i cs H Hne; simpl in H.
  - inversion H. reflexivity.
  - destruct lv as [|l lv']; [discriminate|]. destruct cv as [|c0 cr] eqn:Ecv; [discriminate|]. rewrite <- Ecv in *.
    assert (Hcv : cv <> []) by (rewrite Ecv; discriminate).
    destruct (mshape (nth (i mod length cv) cv c0)) as [sh|e] eqn:Esh; [|discriminate]. cbn [bind] in H.
    destruct (mc_segments lv' tm' cv (S i)) as [rest|e] eqn:Er; [|discriminate]. cbn [bind] in H.
    inversion H; subst cs. clear H. cbn [forallb] in Hne.
    apply andb_true_iff in Hne. destruct Hne as [_ Hne]. apply andb_true_iff in Hne. destruct Hne as [_ Hne].
    apply andb_true_iff in Hne. destruct Hne as [Hsh Hne]. apply andb_true_iff in Hne. destruct Hne as [Hcval Hrest].
    cbn [map]. rewrite fmt_segments_cons by (rewrite Ecv; discriminate). cbv zeta.
    assert (Hw : wrap_at (map (proj_curve j) cv) i (CName "") = proj_curve j (nth (i mod length cv) cv c0)).
    { unfold wrap_at. rewrite map_length. change (CName "") with (proj_curve j (MCS (CName ""))).
      rewrite map_nth. f_equal. apply nth_indep. apply Nat.mod_upper_bound. rewrite Ecv. simpl. discriminate. }
    rewrite Hw. destruct (mshape_proj j _ sh Esh Hsh) as (k & Hk & Hik). rewrite Hk. cbn [bind].
    rewrite (IH lv' cv (S i) rest Er Hrest). cbn [bind]. rewrite Hik, (mcurve_value_proj j _ Hcval). reflexivity.
Qed.

Lemma items_nonempty_eq cs : items_nonempty cs = forallb nonempty_item cs.
Proof. reflexivity. Qed.

Lemma mc_contents_proj j e cs : mc_contents e = Ok cs -> items_nonempty cs = true ->
  envgen_format (project e j) = Ok (map (item_at j) cs).
Proof.
  unfold mc_contents, envgen_format. intros H Hne. cbn [project levels times curves release loop].
  destruct (m_levels e) as [|l0 lv']; [discriminate|]. cbn [map].
  destruct (mc_segments lv' (m_times e) (m_curves e) 0) as [segs|err] eqn:Es; [|discriminate]. cbn [bind] in H.
  inversion H; subst cs. clear H. rewrite items_nonempty_eq in Hne. cbn [forallb] in Hne.
  apply andb_true_iff in Hne. destruct Hne as [_ Hne]. cbn [nonempty_item andb] in Hne.
  rewrite (mc_segments_proj j _ _ _ _ _ Es Hne). cbn [bind map item_at]. rewrite map_length. reflexivity.
Qed.

(* the multichannel expansion law of _envgen_format *)
Lemma mc_expansion e chans : mc_envgen_format e = Ok chans ->
  exists cs, mc_contents e = Ok cs /\ length chans = width cs /\ (1 <= width cs)%nat /\
  forall j, (j < width cs)%nat -> envgen_format (project e j) = Ok (nth j chans []).
Proof.
  unfold mc_envgen_format, flop. destruct (mc_contents e) as [cs|err] eqn:Ec; [|discriminate]. cbn [bind].
  destruct (items_nonempty cs) eqn:Hne; [|discriminate]. intros H. inversion H; subst chans. clear H.
  exists cs. split; [reflexivity|]. split; [rewrite map_length, seq_length; reflexivity|]. split.
  - clear. induction cs; simpl; lia.
  - intros j Hj. rewrite (mc_contents_proj j e cs Ec Hne).
    rewrite (nth_indep _ [] (map (item_at 0) cs)) by (rewrite map_length, seq_length; exact Hj).
    rewrite (map_nth (fun j => map (item_at j) cs) (seq 0 (width cs)) 0%nat j). rewrite seq_nth by exact Hj. reflexivity.
Qed.

(* hence every channel decodes, with the server's layout, to the normal form of its projection *)
Lemma mc_channels_decode e chans j : mc_envgen_format e = Ok chans -> (j < length chans)%nat ->
  wf_env (project e j) ->
  decode_env (nth j chans []) = Ok (normalise (project e j))
  /\ length (nth j chans []) = (4 + 4 * length (m_times e))%nat.
Proof.
  intros H Hj Hwf. destruct (mc_expansion e chans H) as (cs & _ & Hlen & _ & Hch).
  rewrite Hlen in Hj. specialize (Hch j Hj).
  destruct (env_format_layout_wf (project e j) Hwf) as (data & Hd & Hdec & Hl).
  rewrite Hch in Hd. inversion Hd; subst data. split; [exact Hdec|].
  rewrite Hl. cbn [project times]. rewrite map_length. reflexivity.
Qed.

(* Env._at on a multichannel envelope evaluates every channel as its projection *)
Lemma sequence_nth {A} (l : list (res A)) : forall vs, sequence l = Ok vs ->
  length vs = length l /\ forall j d d', (j < length l)%nat -> nth j l d = Ok (nth j vs d').
Proof.
  induction l as [|[a|e] r IH]; intros vs H; simpl in H; try discriminate.
  - inversion H. split; [reflexivity|]. intros j d d' Hj. simpl in Hj. lia.
  - destruct (sequence r) as [rest|e] eqn:Er; [|discriminate]. cbn [bind] in H. inversion H; subst vs.
    destruct (IH rest eq_refl) as [Hl Hn]. split; [simpl; lia|].
    intros j d d' Hj. destruct j; simpl; [reflexivity|]. apply Hn. simpl in Hj. lia.
Qed.

Lemma mc_at_channels e t vs : mc_env_at e t = Ok vs ->
  exists chans, mc_envgen_format e = Ok chans /\ length vs = length chans /\
  forall j, (j < length chans)%nat -> env_at (project e j) t = Ok (nth j vs 0%Q).
Proof.
  unfold mc_env_at. destruct (mc_envgen_format e) as [chans|err] eqn:Ef; [|discriminate]. cbn [bind].
  destruct (m_offset e) as [o|] eqn:Eo; [|discriminate].
  set (f := fun data => env_at_data (seg_value xexact) data (if Qlt_bool 0 (t - toQ o) then t - toQ o else 0)).
  intros H. destruct (sequence_nth _ vs H) as [Hlen Hn]. rewrite map_length in Hlen, Hn.
  exists chans. split; [reflexivity|]. split; [exact Hlen|]. intros j Hj.
  destruct (mc_expansion e chans Ef) as (cs & _ & Hw & _ & Hch).
  assert (Hj' : (j < width cs)%nat) by (rewrite <- Hw; exact Hj).
  unfold env_at, env_at_with. rewrite (Hch j Hj'). cbn [bind project offset]. rewrite Eo.
  specialize (Hn j (f []) 0%Q Hj). rewrite (map_nth f chans [] j) in Hn.
  unfold rel_time, offsetQ. cbn [project offset]. rewrite ?Eo. exact Hn.
Qed.
