(* Tactics and arithmetic facts shared by the proofs about regenerated numeric kernels. *)
From Coq Require Export ZArith QArith Qround Qabs Bool Lia Lqa.
Require Export SC3.lib.PyNum.
Open Scope Q_scope.

Lemma Qle_bool_spec x y : reflect (x <= y) (Qle_bool x y).
Proof. apply iff_reflect. symmetry. apply Qle_bool_iff. Qed.
Lemma Qeq_bool_spec x y : reflect (x == y) (Qeq_bool x y).
Proof. apply iff_reflect. symmetry. apply Qeq_bool_iff. Qed.

Ltac nsimp := cbn [toQ negb is_int is_float is_ok orb andb] in *;
  change (inject_Z 0) with (0 # 1) in *; change (inject_Z 1) with (1 # 1) in *.
Ltac qb1 :=
  match goal with
  | |- context [Qle_bool ?a ?b] => destruct (Qle_bool_spec a b)
  | |- context [Qeq_bool ?a ?b] => destruct (Qeq_bool_spec a b)
  | H : context [Qle_bool ?a ?b] |- _ => destruct (Qle_bool_spec a b)
  | H : context [Qeq_bool ?a ?b] |- _ => destruct (Qeq_bool_spec a b)
  end; nsimp.
Ltac qb := nsimp; repeat qb1.
Ltac nunf := unfold pmax, pmin, ngt, nlt, nge, nle, neqb, nneqb, cmp2, Qlt_bool, nadd, nsub, nmul,
  ntruediv, lift2, cast_like, pfloat, pint, pfloor, pceil, truth, nneg, nabs in *.

Lemma floor_bounds (t : Q) : inject_Z (Qfloor t) <= t /\ t < inject_Z (Qfloor t) + 1.
Proof.
  split. apply Qfloor_le.
  pose proof (Qlt_floor t) as H. rewrite inject_Z_plus in H. exact H.
Qed.
Lemma ceil_bounds (t : Q) : inject_Z (Qceiling t) - 1 < t /\ t <= inject_Z (Qceiling t).
Proof.
  split; [|apply Qle_ceiling].
  pose proof (Qceiling_lt t) as H. unfold Z.sub in H. rewrite inject_Z_plus in H.
  exact H.
Qed.

(* y / r written as a multiple: what every "do the divide" branch needs *)
Lemma div_floor y r : ~ r == 0 ->
  exists t, y == t * r /\ inject_Z (Qfloor (y / r)) <= t /\ t < inject_Z (Qfloor (y / r)) + 1.
Proof.
  intros Hr. exists (y / r). split. field; exact Hr. apply floor_bounds.
Qed.
Lemma div_ceil y r : ~ r == 0 ->
  exists t, y == t * r /\ inject_Z (Qceiling (y / r)) - 1 < t /\ t <= inject_Z (Qceiling (y / r)).
Proof.
  intros Hr. exists (y / r). split. field; exact Hr. apply ceil_bounds.
Qed.

Lemma Qfloor_inject_div (a b : Z) : (b <> 0)%Z -> Qfloor (inject_Z a / inject_Z b) = (a / b)%Z.
Proof.
  intros Hb. unfold Qdiv, Qmult, Qinv, inject_Z. cbn [Qnum Qden].
  destruct b as [|p|p]; [congruence| |]; cbn [Qnum Qden Qfloor].
  - rewrite Z.mul_1_r. reflexivity.
  - rewrite Pos.mul_1_l. change (Z.neg p) with (- Z.pos p)%Z.
    replace (a * -1)%Z with (- a)%Z by lia. rewrite <- (Z.div_opp_opp (- a) (Z.pos p)) by lia.
    rewrite Z.opp_involutive. reflexivity.
Qed.
