(* C16 -- the allocator invariant and the specifications of the search helpers. *)
From Coq Require Import ZArith List Bool Lia.
Import ListNotations.
Require Import SC3.model.Alloc SC3.proofs.C16_base.
Open Scope Z_scope.

(* everything except coalescing *)
Record Pre (s : st) : Prop := mkPre {
  P_len : alen (arr s) = size s;
  P_pos : off s <= pos s < hi s;
  (* a cell holds a block that starts there, is non-empty, ends inside the partition, after the reserved part *)
  P_cell : forall a b, at_ s a = Some b -> bstart b = a /\ 0 < bsize b /\ bstart b + bsize b <= hi s /\ pos s <= a;
  (* no cell inside a block *)
  P_gap : forall a b j, at_ s a = Some b -> a < j < bstart b + bsize b -> at_ s j = None;
  (* a block that does not end the partition is followed immediately by a block: no gaps *)
  P_next : forall a b, at_ s a = Some b -> bstart b + bsize b < hi s -> at_ s (bstart b + bsize b) <> None;
  P_first : at_ s (pos s) <> None;
  (* top is the start of the last block *)
  P_top : exists bt, at_ s (top s) = Some bt /\ bstart bt + bsize bt = hi s;
  P_keys : keys_nodup (freed s);
  (* _freed holds only free blocks of the array, under their size *)
  P_sound : forall k a, fmem (freed s) k a -> at_ s a = Some (mkB a k false);
  (* and every free block below top *)
  P_compl : forall a b, at_ s a = Some b -> bused b = false -> a < top s -> fmem (freed s) (bsize b) a
}.

(* coalescing: two adjacent blocks are never both free, except where R allows it *)
Definition Coal (s : st) (R : Z -> Z -> Prop) : Prop :=
  forall a b b', at_ s a = Some b -> bused b = false ->
    at_ s (bstart b + bsize b) = Some b' -> bused b' = false -> R a (bstart b + bsize b).

Definition AInv (s : st) : Prop := Pre s /\ Coal s (fun _ _ => False).

Lemma two_blocks s a1 b1 a2 b2 : Pre s -> at_ s a1 = Some b1 -> at_ s a2 = Some b2 ->
  (a1 = a2 /\ b1 = b2) \/ (a1 < a2 /\ bstart b1 + bsize b1 <= a2) \/ (a2 < a1 /\ bstart b2 + bsize b2 <= a1).
Proof.
  intros P H1 H2.
  destruct (Z.lt_trichotomy a1 a2) as [L|[E|L]].
  - right; left. split; auto.
    destruct (Z.le_gt_cases (bstart b1 + bsize b1) a2); auto.
    rewrite (P_gap s P a1 b1 a2 H1) in H2 by lia. discriminate.
  - left. subst. split; auto. congruence.
  - right; right. split; auto.
    destruct (Z.le_gt_cases (bstart b2 + bsize b2) a1); auto.
    rewrite (P_gap s P a2 b2 a1 H2) in H1 by lia. discriminate.
Qed.

Lemma le_top s a b : Pre s -> at_ s a = Some b -> a <= top s.
Proof.
  intros P H. destruct (P_top s P) as (bt & Ht & Hend).
  pose proof (P_cell s P _ _ H). pose proof (P_cell s P _ _ Ht).
  destruct (two_blocks s _ _ _ _ P H Ht) as [[? ?]|[[? ?]|[? ?]]]; lia.
Qed.

Lemma below_top s a b : Pre s -> at_ s a = Some b -> a < top s -> bstart b + bsize b <= top s.
Proof.
  intros P H L. destruct (P_top s P) as (bt & Ht & Hend).
  destruct (two_blocks s _ _ _ _ P H Ht) as [[? ?]|[[? ?]|[? ?]]]; lia.
Qed.

(* every address of the allocatable part is covered by a block *)
Lemma covered s x : Pre s -> pos s <= x < hi s ->
  exists a b, at_ s a = Some b /\ a <= x < bstart b + bsize b.
Proof.
  intros P Hx.
  assert (G : forall n : nat, forall y, pos s <= y -> y - pos s <= Z.of_nat n -> y < hi s ->
            exists a b, at_ s a = Some b /\ a <= y < bstart b + bsize b).
  { induction n as [|n IH]; intros y Hy Hn Hh.
    - assert (y = pos s) by lia. subst y.
      destruct (at_ s (pos s)) as [b|] eqn:E; [|exfalso; apply (P_first s P); auto].
      exists (pos s), b. pose proof (P_cell s P _ _ E). split; auto. lia.
    - destruct (Z.eq_dec y (pos s)) as [->|Hne]; [apply (IH (pos s)); lia|].
      destruct (IH (y - 1)) as (a & b & Hab & Hr); try lia.
      pose proof (P_cell s P _ _ Hab) as Hc.
      destruct (Z.lt_ge_cases y (bstart b + bsize b)).
      + exists a, b. split; auto. lia.
      + assert (bstart b + bsize b = y) by lia.
        destruct (at_ s y) as [b2|] eqn:E2.
        * exists y, b2. pose proof (P_cell s P _ _ E2). split; auto. lia.
        * exfalso. apply (P_next s P a b Hab); [lia|]. now replace (bstart b + bsize b) with y. }
  apply (G (Z.to_nat (x - pos s))); lia.
Qed.

(* ---- _find_previous --------------------------------------------------------- *)
Lemma fp_loop_spec s k : alen (arr s) = size s -> forall i,
  off s <= i - Z.of_nat k + 1 -> i < hi s ->
  exists r, find_prev_loop (arr s) (off s) i k = Ok r /\
    match r with
    | None => forall a, i - Z.of_nat k < a <= i -> at_ s a = None
    | Some p => exists a, i - Z.of_nat k < a <= i /\ at_ s a = Some p /\ forall a', a < a' <= i -> at_ s a' = None
    end.
Proof.
  intros Hl. induction k as [|k IH]; intros i Hlo Hhi.
  - exists None. split; auto. intros; lia.
  - simpl. rewrite aget_at by (auto; lia). simpl.
    destruct (at_ s i) as [b|] eqn:E.
    + exists (Some b). split; auto. exists i. split; [lia|]. split; auto. intros; lia.
    + destruct (IH (i - 1)) as (r & Hr & Hs); try lia.
      exists r. split; auto. destruct r as [p|].
      * destruct Hs as (a & Ha & Hp & Hn). exists a. split; [lia|]. split; auto.
        intros a' Ha'. destruct (Z.eq_dec a' i) as [->|]; auto. apply Hn; lia.
      * intros a Ha. destruct (Z.eq_dec a i) as [->|]; auto. apply Hs; lia.
Qed.

Lemma find_previous_block s x b : Pre s -> at_ s x = Some b ->
  (x = pos s /\ find_previous s x = Ok None) \/
  (pos s < x /\ exists p, find_previous s x = Ok (Some p) /\ at_ s (bstart p) = Some p /\ bstart p + bsize p = x).
Proof.
  intros P Hb. pose proof (P_cell s P _ _ Hb) as Hc. pose proof (P_pos s P) as Hp.
  unfold find_previous.
  destruct (fp_loop_spec s (Z.to_nat (x - pos s)) (P_len s P) (x - 1)) as (r & Hr & Hs); try lia.
  rewrite Hr. rewrite Z2Nat.id in Hs by lia.
  destruct (Z.eq_dec x (pos s)) as [->|Hne].
  - left. split; auto. replace (Z.to_nat (pos s - pos s)) with O in Hr by lia. simpl in Hr. congruence.
  - right. split; [lia|]. destruct r as [p|].
    + destruct Hs as (a & Ha & Hpa & Hn). exists p. pose proof (P_cell s P _ _ Hpa) as Hcp.
      split; auto. destruct Hcp as (Hst & Hsz & _). rewrite Hst. split; auto.
      destruct (two_blocks s _ _ _ _ P Hpa Hb) as [[? ?]|[[? ?]|[? ?]]]; try lia.
      destruct (Z.eq_dec (bstart p + bsize p) x); [lia|].
      exfalso. apply (P_next s P a p Hpa); [lia|]. apply Hn. lia.
    + exfalso. apply (P_first s P). apply Hs. lia.
Qed.

(* ---- _find_next (with the relative test) ------------------------------------- *)
Lemma find_next_block s x b : Pre s -> at_ s x = Some b ->
  find_next true s x = Ok (if bstart b + bsize b <? hi s then at_ s (bstart b + bsize b) else None).
Proof.
  intros P Hb. pose proof (P_cell s P _ _ Hb) as Hc. pose proof (at_range _ _ _ Hb).
  unfold find_next. rewrite aget_at by (auto using P_len). rewrite Hb. simpl.
  unfold hi in *.
  destruct (Z.ltb_spec (bstart b + bsize b - off s) (size s));
    destruct (Z.ltb_spec (bstart b + bsize b) (off s + size s)); try lia; auto.
  apply aget_at; [apply P_len; auto|unfold hi; lia].
Qed.

(* the snapshot's test "i < self.size" is the same test when addr_offset = 0 *)
Lemma find_next_rel_irrelevant s x : off s = 0 -> find_next false s x = find_next true s x.
Proof.
  intros H. unfold find_next. rewrite H.
  destruct (aget (arr s) (x - 0)) as [[t|]|e]; simpl; auto.
  - now rewrite !Z.sub_0_r.
  - destruct (find_next_loop (arr s) 0 (top s) (x + 1) (Z.to_nat (top s - x))) as [i|e]; simpl; auto.
    now rewrite !Z.sub_0_r.
Qed.

(* ---- _find_available --------------------------------------------------------- *)
Definition no_fit (s : st) (n : Z) : Prop :=
  (forall k a, fmem (freed s) k a -> k < n) /\
  exists bt, at_ s (top s) = Some bt /\ (bused bt = true \/ bsize bt < n).

Lemma pick_In sz x l c : In (bstart (pick sz x l c)) (x :: l) /\ bsize (pick sz x l c) = sz /\ bused (pick sz x l c) = false.
Proof.
  unfold pick. cbn [bstart bsize bused]. split; [|split; reflexivity].
  destruct (zmem c (x :: l)) eqn:E.
  - apply zmem_In. exact E.
  - left; reflexivity.
Qed.

Lemma find_none_all {A} (f : A -> bool) l : find f l = None -> forall x, In x l -> f x = false.
Proof.
  induction l as [|y l IH]; simpl; [tauto|]. destruct (f y) eqn:E; [discriminate|].
  intros H x [->|Hin]; auto.
Qed.

Lemma fr_get_In_rev f k s : fr_get f k = Some s -> In (k, s) f.
Proof.
  induction f as [|[k' s'] f IH]; simpl; [discriminate|].
  destruct (Z.eqb_spec k' k) as [->|]; [intros E; inversion E; auto|auto].
Qed.

Lemma top_branch s n : Pre s -> (forall k a, fmem (freed s) k a -> k < n) ->
  let r := (if size s <? top s + n - off s then Ok None
            else t <- aget (arr s) (top s - off s) ;;
                 match t with
                 | None => Raise AttributeError
                 | Some b => if bused b then Ok None else Ok (Some b)
                 end) in
  (r = Ok None /\ no_fit s n) \/
  (exists b, r = Ok (Some b) /\ at_ s (bstart b) = Some b /\ bused b = false /\ n <= bsize b).
Proof.
  intros P Hsmall r. subst r.
  destruct (P_top s P) as (bt & Ht & Hend). pose proof (P_cell s P _ _ Ht) as Hc.
  pose proof (at_range _ _ _ Ht) as Hr. unfold hi in *.
  destruct (Z.ltb_spec (size s) (top s + n - off s)).
  - left. split; auto. split; auto. exists bt. split; auto. right. lia.
  - rewrite aget_at by (auto using P_len). rewrite Ht. simpl.
    destruct (bused bt) eqn:Eu.
    + left. split; auto. split; auto. exists bt. split; auto.
    + right. exists bt. destruct Hc as (Hst & _). rewrite Hst. split; auto. split; auto. split; auto. lia.
Qed.

Lemma freed_pick s sz x l c : Pre s -> fr_get (freed s) sz = Some (x :: l) ->
  at_ s (bstart (pick sz x l c)) = Some (pick sz x l c) /\ bused (pick sz x l c) = false /\ bsize (pick sz x l c) = sz.
Proof.
  intros P E. destruct (pick_In sz x l c) as (Hin & Hsz & Hu).
  assert (H : fmem (freed s) sz (bstart (pick sz x l c))) by (eexists; eauto).
  apply (P_sound s P) in H. split; [|split; auto].
  rewrite H. unfold pick. reflexivity.
Qed.

Lemma find_available_spec s n c : Pre s ->
  (find_available s n c = Ok None /\ no_fit s n) \/
  (exists b, find_available s n c = Ok (Some b) /\ at_ s (bstart b) = Some b /\ bused b = false /\ n <= bsize b).
Proof.
  intros P. unfold find_available.
  set (pr := fun e : Z * list Z => (n <=? fst e) && match snd e with [] => false | _ :: _ => true end).
  assert (Hscan :
    match find pr (freed s) with
    | Some (sz, x :: l) => n <= sz /\ fr_get (freed s) sz = Some (x :: l)
    | Some (_, []) => False
    | None => forall k a, fmem (freed s) k a -> k < n
    end).
  { destruct (find pr (freed s)) as [[sz l0]|] eqn:E2.
    - apply find_some in E2. destruct E2 as (Hin & Hp). unfold pr in Hp. simpl in Hp.
      destruct l0 as [|x l]; [rewrite andb_false_r in Hp; discriminate|].
      apply andb_true_iff in Hp. destruct Hp as (Hp & _). apply Z.leb_le in Hp. split; auto.
      apply fr_get_In; auto. apply (P_keys s P).
    - intros k a (s0 & Hg & Ha). apply fr_get_In_rev in Hg.
      pose proof (find_none_all _ _ E2 _ Hg) as Hf. unfold pr in Hf. simpl in Hf.
      destruct s0; [destruct Ha|]. rewrite andb_true_r in Hf. apply Z.leb_gt in Hf. lia. }
  assert (Hrest :
    let r := match find pr (freed s) with
             | Some (sz, x :: l) => Ok (Some (pick sz x l c))
             | _ => if size s <? top s + n - off s then Ok None
                    else t <- aget (arr s) (top s - off s) ;;
                         match t with
                         | None => Raise AttributeError
                         | Some b => if bused b then Ok None else Ok (Some b)
                         end
             end in
    (r = Ok None /\ no_fit s n) \/
    (exists b, r = Ok (Some b) /\ at_ s (bstart b) = Some b /\ bused b = false /\ n <= bsize b)).
  { destruct (find pr (freed s)) as [[sz [|x l]]|]; [destruct Hscan| |].
    - destruct Hscan as (Hle & Hg). destruct (freed_pick s sz x l c P Hg) as (H1 & H2 & H3).
      right. eexists. split; [reflexivity|]. repeat split; auto; try lia.
    - apply top_branch; auto. }
  destruct (fr_get (freed s) n) as [[|x l]|] eqn:E1; [exact Hrest| |exact Hrest].
  destruct (freed_pick s n x l c P E1) as (H1 & H2 & H3).
  right. eexists. split; [reflexivity|]. repeat split; auto; try lia.
Qed.
