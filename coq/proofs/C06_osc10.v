(* C06 -- conformance: the independent OSC 1.0 decoder (model/Osc10.v) reads every datagram
   the builder accepts and returns the expected packet. *)
From Coq Require Import ZArith QArith List Bool Lia.
Import ListNotations.
Require Import SC3.model.Osc SC3.model.OscSize SC3.model.Osc10.
Require Import SC3.proofs.C06_base SC3.proofs.C06_size SC3.proofs.C06_readers SC3.proofs.C06_roundtrip.
Open Scope Z_scope.
Import Osc10.

(* ---- the library's parsed values in the vocabulary of the independent decoder ---- *)
Fixpoint o_of_pval (v : pval) : oarg :=
  match v with
  | PInt z => OInt z | PFloat w => OFloat w | PStr s => OStr s | PBlob b => OBlob b
  | PDouble w => ODouble w | PTime z => OTime z | PRgba z => ORgba (be32 z) | PMidi w => OMidi w
  | PTrue => OTrue | PFalse => OFalse
  | PArr l => OArr ((fix go (l : list pval) : list oarg := match l with [] => [] | x :: r => o_of_pval x :: go r end) l)
  end.
Fixpoint o_of_packet (p : packet) : opacket :=
  match p with
  | PMsg a ps => OMessage a (map o_of_pval ps)
  | PBundle t cs => OBundle t ((fix go (l : list packet) : list opacket := match l with [] => [] | x :: r => o_of_packet x :: go r end) cs)
  end.
Lemma o_of_pval_arr : forall l, o_of_pval (PArr l) = OArr (map o_of_pval l).
Proof. intros l. cbn [o_of_pval]. f_equal; try (induction l as [| x r IH]; [reflexivity |]; cbn [map]; rewrite IH; reflexivity). Qed.
Lemma o_of_packet_bundle : forall t cs, o_of_packet (PBundle t cs) = OBundle t (map o_of_packet cs).
Proof. intros t cs. cbn [o_of_packet]. f_equal; try (induction cs as [| x r IH]; [reflexivity |]; cbn [map]; rewrite IH; reflexivity). Qed.

(* ---- consuming what the writers wrote ---- *)
Lemma take_app : forall h r, take (length h) (h ++ r) = Some (h, r).
Proof. induction h as [| b h IH]; intros r; [reflexivity |]. cbn [length take app]. rewrite IH. reflexivity. Qed.
Lemma all_nul_zeros : forall k, all_nul (zeros k) = true.
Proof. intros k. unfold zeros. induction (Z.to_nat k) as [| n IH]; [reflexivity |]. cbn. exact IH. Qed.
Lemma length_zeros : forall k, length (zeros k) = Z.to_nat k.
Proof. intros k. unfold zeros. apply repeat_length. Qed.
Lemma until_nul_app : forall s r, has_nul s = false -> until_nul (s ++ 0 :: r) = (s, 0 :: r).
Proof.
  induction s as [| b s IH]; intros r H; [reflexivity |].
  cbn [has_nul existsb] in H. apply orb_false_elim in H as [Hb Hs].
  cbn [app until_nul]. rewrite Z.eqb_sym, Hb. rewrite (IH r Hs). reflexivity.
Qed.

Lemma string_pad_nat : forall s : bytes, Z.to_nat (4 - zlen s mod 4) = (4 - (length s) mod 4)%nat.
Proof.
  intros s. unfold zlen.
  pose proof (Nat.mod_upper_bound (length s) 4 ltac:(lia)) as Hm.
  pose proof (Nat2Z.inj_mod (length s) 4) as Hmod. change (Z.of_nat 4) with 4 in Hmod.
  rewrite <- Hmod. lia.
Qed.
Lemma blob_pad_nat : forall b : bytes, Z.to_nat ((- zlen b) mod 4) = ((4 - (Z.to_nat (zlen b)) mod 4) mod 4)%nat.
Proof.
  intros b. unfold zlen. rewrite Nat2Z.id.
  pose proof (Nat.mod_upper_bound (length b) 4 ltac:(lia)) as Hm.
  pose proof (Nat.div_mod (length b) 4 ltac:(lia)) as Hd.
  set (q := (length b / 4)%nat) in *. set (m := (length b mod 4)%nat) in *.
  assert (Hz : (- Z.of_nat (length b)) mod 4 = Z.of_nat ((4 - m) mod 4)).
  { rewrite Hd. destruct m as [| [| [| [| m']]]]; [| | | | lia].
    - replace (- Z.of_nat (4 * q + 0)) with ((- Z.of_nat q) * 4) by lia. rewrite Z.mod_mul by lia. reflexivity.
    - replace (- Z.of_nat (4 * q + 1)) with (3 + (- Z.of_nat q - 1) * 4) by lia. rewrite Z.mod_add by lia. reflexivity.
    - replace (- Z.of_nat (4 * q + 2)) with (2 + (- Z.of_nat q - 1) * 4) by lia. rewrite Z.mod_add by lia. reflexivity.
    - replace (- Z.of_nat (4 * q + 3)) with (1 + (- Z.of_nat q - 1) * 4) by lia. rewrite Z.mod_add by lia. reflexivity. }
  rewrite Hz. apply Nat2Z.id.
Qed.

Lemma take_string_write : forall s rest, has_nul s = false ->
  take_string ((s ++ zeros (4 - zlen s mod 4)) ++ rest) = Some (s, rest).
Proof.
  intros s rest Hs. unfold take_string.
  pose proof (Z.mod_pos_bound (zlen s) 4 ltac:(lia)) as Hm.
  rewrite <- app_assoc. rewrite (zeros_succ (4 - zlen s mod 4)) by lia. cbn [app].
  rewrite (until_nul_app s _ Hs).
  change (0 :: zeros (4 - zlen s mod 4 - 1) ++ rest) with ((0 :: zeros (4 - zlen s mod 4 - 1)) ++ rest).
  rewrite <- (zeros_succ (4 - zlen s mod 4)) by lia.
  rewrite <- string_pad_nat, <- length_zeros. rewrite take_app. rewrite all_nul_zeros. reflexivity.
Qed.

Lemma unsigned_be_be32 : forall u acc, 0 <= u < 4294967296 ->
  unsigned_be (be32 u) acc = 4294967296 * acc + u.
Proof. intros u acc Hu. unfold be32. cbn [unsigned_be]. Z.div_mod_to_equations. lia. Qed.

Lemma take_int32_write : forall z h rest, write_int z = Ok h -> take_int32 (h ++ rest) = Some (z, rest).
Proof.
  intros z h rest H. unfold write_int in H.
  destruct ((-2147483648 <=? z) && (z <? 2147483648)) eqn:E; [| discriminate H]. inv_ok H.
  apply andb_prop in E as [E1 E2]. apply Z.leb_le in E1. apply Z.ltb_lt in E2.
  unfold take_int32. change 4%nat with (length (be32 (z mod 4294967296))).
  rewrite (take_app (be32 (z mod 4294967296)) rest).
  unfold int32_of. pose proof (Z.mod_pos_bound z 4294967296 ltac:(lia)) as Hm.
  rewrite unsigned_be_be32 by lia.
  change (2 ^ 31) with 2147483648. change (2 ^ 32) with 4294967296.
  replace (4294967296 * 0 + z mod 4294967296) with (z mod 4294967296) by lia.
  f_equal. f_equal.
  destruct (z mod 4294967296 <? 2147483648) eqn:F; [apply Z.ltb_lt in F | apply Z.ltb_ge in F];
    Z.div_mod_to_equations; lia.
Qed.

Lemma take_blob_write : forall b h rest, write_blob b = Ok h -> take_blob (h ++ rest) = Some (b, rest).
Proof.
  intros b h rest H. unfold write_blob in H.
  destruct b as [| x r] eqn:Eb; [discriminate H |]. rewrite <- Eb in *. clear Eb x r.
  apply bind_ok in H as (hd & Hhd & H). inv_ok H.
  unfold take_blob. rewrite <- !app_assoc. rewrite (take_int32_write _ _ _ Hhd).
  pose proof (zlen_nonneg b) as Hn.
  destruct (zlen b <? 0) eqn:E; [apply Z.ltb_lt in E; lia |].
  assert (Hl : Z.to_nat (zlen b) = length b) by (unfold zlen; apply Nat2Z.id).
  rewrite Hl at 1. rewrite take_app.
  rewrite <- blob_pad_nat, <- length_zeros. rewrite take_app, all_nul_zeros. reflexivity.
Qed.

(* ---- arguments ---- *)
Definition ostack (st : list (list pval)) : list (list oarg) := map (map o_of_pval) st.

Lemma take_args_enc : forall nc targs v st,
  enc_targs nc targs = Ok v -> Forall targ_ok targs -> st <> [] ->
  take_args (map tag_of targs) v (ostack st) = option_map (map o_of_pval) (nest (map tok_of targs) st).
Proof.
  intros nc targs. induction targs as [| t r IH]; intros v st He Hok Hst.
  - cbn in He. inv_ok He. cbn [map take_args nest].
    destruct st as [| top [| x y]]; [contradiction | | reflexivity].
    cbn [ostack map option_map]. rewrite map_rev. reflexivity.
  - cbn [enc_targs] in He. apply bind_ok in He as (a & Ha & He). apply bind_ok in He as (b & Hb & He). inv_ok He.
    inversion Hok as [| ? ? Ht Hr]; subst.
    destruct st as [| top rest]; [contradiction |].
    assert (Hnext : forall st', st' <> [] ->
              take_args (map tag_of r) b (ostack st') = option_map (map o_of_pval) (nest (map tok_of r) st')).
    { intros st' Hst'. apply IH; assumption. }
    destruct t as [z | w | s | bl | |]; cbn [map tag_of tok_of take_args enc_targ nest ostack] in *.
    + change (105 =? 105) with true. cbv iota.
      rewrite (take_int32_write _ _ _ Ha).
      exact (Hnext ((PInt z :: top) :: rest) ltac:(discriminate)).
    + change (102 =? 105) with false. change (102 =? 102) with true. cbv iota.
      apply ok_inj in Ha. subst a. cbn [targ_ok] in Ht.
      assert (Hl : 4%nat = length w) by (unfold zlen in Ht; lia).
      rewrite Hl. rewrite take_app.
      exact (Hnext ((PFloat w :: top) :: rest) ltac:(discriminate)).
    + change (115 =? 105) with false. change (115 =? 102) with false. change (115 =? 115) with true. cbv iota.
      cbn [targ_ok] in Ht. destruct (write_string_inv _ _ _ Ha) as [-> _].
      rewrite (take_string_write _ _ Ht).
      exact (Hnext ((PStr s :: top) :: rest) ltac:(discriminate)).
    + change (98 =? 105) with false. change (98 =? 102) with false. change (98 =? 115) with false.
      change (98 =? 98) with true. cbv iota.
      rewrite (take_blob_write _ _ _ Ha).
      exact (Hnext ((PBlob bl :: top) :: rest) ltac:(discriminate)).
    + change (91 =? 105) with false. change (91 =? 102) with false. change (91 =? 115) with false.
      change (91 =? 98) with false. change (91 =? 104) with false. change (91 =? 116) with false.
      change (91 =? 100) with false. change (91 =? 83) with false. change (91 =? 99) with false.
      change (91 =? 114) with false. change (91 =? 109) with false. change (91 =? 84) with false.
      change (91 =? 70) with false. change (91 =? 78) with false. change (91 =? 73) with false.
      change (91 =? 91) with true. cbv iota.
      inv_ok Ha. cbn [app].
      exact (Hnext ([] :: top :: rest) ltac:(discriminate)).
    + change (93 =? 105) with false. change (93 =? 102) with false. change (93 =? 115) with false.
      change (93 =? 98) with false. change (93 =? 104) with false. change (93 =? 116) with false.
      change (93 =? 100) with false. change (93 =? 83) with false. change (93 =? 99) with false.
      change (93 =? 114) with false. change (93 =? 109) with false. change (93 =? 84) with false.
      change (93 =? 70) with false. change (93 =? 78) with false. change (93 =? 73) with false.
      change (93 =? 91) with false. change (93 =? 93) with true. cbv iota.
      inv_ok Ha. cbn [app].
      destruct rest as [| p rest']; [reflexivity |].
      cbn [map]. rewrite <- map_rev, <- o_of_pval_arr.
      exact (Hnext ((PArr (rev top) :: p) :: rest') ltac:(discriminate)).
Qed.

(* ---- messages ---- *)
Lemma decode_message_enc : forall nc ar targs d,
  enc_msg nc (47 :: ar) targs = Ok d -> has_nul (47 :: ar) = false -> Forall targ_ok targs ->
  decode_message d = option_map (fun ps => OMessage (47 :: ar) (map o_of_pval ps)) (nest (map tok_of targs) [[]]).
Proof.
  intros nc ar targs d H Hna Hok. unfold enc_msg in H.
  apply bind_ok in H as (a & Ha & H). apply bind_ok in H as (t & Ht & H). apply bind_ok in H as (v & Hv & H). inv_ok H.
  destruct (write_string_inv _ _ _ Ha) as [-> _].
  destruct (write_string_inv _ _ _ Ht) as [-> _].
  unfold decode_message.
  rewrite (take_string_write (47 :: ar) _ Hna).
  rewrite (take_string_write (44 :: map tag_of targs) v (tags_no_nul targs)).
  pose proof (take_args_enc nc targs v [[]] Hv Hok ltac:(discriminate)) as HT.
  cbn [ostack map] in HT. rewrite HT.
  destruct (nest (map tok_of targs) [[]]); reflexivity.
Qed.

(* ---- packets ---- *)
Lemma aligned_nat : forall d : bytes, zlen d mod 4 = 0 -> ((length d) mod 4 =? 0)%nat = true.
Proof.
  intros d H. unfold zlen in H.
  pose proof (Nat2Z.inj_mod (length d) 4) as Hmod. change (Z.of_nat 4) with 4 in Hmod. rewrite <- Hmod in H.
  apply Nat.eqb_eq. lia.
Qed.

Definition conforms (nc : bool) (a : arg) : Prop :=
  floats4 a = true -> pkt_guard nc a = true ->
  forall d, build_pkt nc a = Ok d -> forall fuel, (length d < fuel)%nat ->
  exists p, expect nc a p /\ decode_fuel fuel d = Some (o_of_packet p).

Lemma conforms_elements : forall nc lat elems,
  Forall (conforms nc) elems -> forallb floats4 elems = true -> forallb (pkt_guard nc) elems = true ->
  forall ds b, build_elems nc lat elems = Ok ds -> enc_contents ds = Ok b ->
  forall f, (length b < f)%nat ->
  exists cs, Forall2 (expect nc) elems cs /\ elements f b = Some (map o_of_packet cs).
Proof.
  intros nc lat elems. induction elems as [| e r IH]; intros HF Hwf Hg ds b Hb He f Hf.
  - cbn in Hb. inv_ok Hb. cbn in He. inv_ok He. exists []. split; [constructor |].
    destruct f as [| f']; [inversion Hf | reflexivity].
  - cbn [build_elems] in Hb. apply bind_ok in Hb as (d & Hd & Hb). apply bind_ok in Hb as (ds' & Hds & Hb). inv_ok Hb.
    cbn [enc_contents] in He. apply bind_ok in He as (h & Hh & He). apply bind_ok in He as (b' & Hb' & He). inv_ok He.
    cbn [forallb] in Hwf, Hg. apply andb_prop in Hwf as [Hwe Hwr]. apply andb_prop in Hg as [Hge Hgr].
    inversion HF as [| ? ? Pe Pr]; subst.
    destruct (build_elem_shape _ _ _ _ Hd) as [Hbp _].
    pose proof (write_int_len _ _ Hh) as Hh4.
    assert (Hlen : length (h ++ d ++ b') = (4 + length d + length b')%nat).
    { rewrite !app_length. unfold zlen in Hh4. lia. }
    destruct f as [| f']; [inversion Hf |].
    destruct (Pe Hwe Hge d Hbp f' ltac:(lia)) as (p & Hex & Hp).
    destruct (IH Pr Hwr Hgr ds' b' Hds Hb' f' ltac:(lia)) as (cs & Hcs & Hrest).
    exists (p :: cs). split; [constructor; assumption |].
    cbn [elements].
    destruct (h ++ d ++ b') as [| x0 xr] eqn:Ehd.
    { exfalso. destruct h; [discriminate Hh4 | discriminate Ehd]. }
    rewrite <- Ehd. rewrite (take_int32_write _ _ _ Hh).
    pose proof (zlen_nonneg d) as Hnn.
    destruct (sized_all nc e Hwe d Hbp) as [Hal _].
    destruct (zlen d <? 0) eqn:E1; [apply Z.ltb_lt in E1; lia |].
    rewrite Hal. cbn [Z.eqb negb orb].
    assert (Hl : Z.to_nat (zlen d) = length d) by (unfold zlen; apply Nat2Z.id).
    rewrite Hl, take_app, Hp, Hrest. reflexivity.
Qed.

Lemma unsigned_be_be64 : forall t, 0 <= t < 18446744073709551616 -> unsigned_be (be64 t) 0 = t.
Proof.
  intros t Ht. unfold be64.
  assert (Happ : forall a b acc, unsigned_be (a ++ b) acc = unsigned_be b (unsigned_be a acc)).
  { induction a as [| x a IH]; intros b acc; [reflexivity |]. cbn [app unsigned_be]. apply IH. }
  rewrite Happ.
  rewrite unsigned_be_be32 by (Z.div_mod_to_equations; lia).
  rewrite unsigned_be_be32 by (Z.div_mod_to_equations; lia).
  Z.div_mod_to_equations. lia.
Qed.

Theorem conforms_all : forall nc a, conforms nc a.
Proof.
  intros nc. apply arg_nested_ind.
  - intros a Hleaf Hwf Hg d Hb. destruct a; try discriminate Hb. exfalso. eapply Hleaf. reflexivity.
  - intros l HF Hwf Hg d Hb fuel Hfuel.
    pose proof (sized_all nc (AList l) Hwf d Hb) as [Hal _].
    rewrite floats4_list in Hwf.
    destruct l as [| h tl]; [discriminate Hb |].
    inversion HF as [| ? ? _ Htl]; subst. cbn [forallb] in Hwf. apply andb_prop in Hwf as [_ Hwtl].
    destruct fuel as [| f]; [inversion Hfuel |].
    destruct h as [| | | | addr | | lat tag | |]; try discriminate Hb.
    + (* message *)
      pose proof Hg as Hg0.
      cbn [pkt_guard] in Hg. apply andb_prop in Hg as [Hslash Hnul].
      assert (Hn : nc = true \/ (has_nul addr = false /\ forall s, In (AStr s) tl -> has_nul s = false)).
      { destruct nc; [left; reflexivity | right]. cbn [orb] in Hnul. apply andb_prop in Hnul as [H1 H2].
        split; [destruct (has_nul addr); [discriminate H1 | reflexivity] | apply str_guard_in; exact H2]. }
      destruct (msg_roundtrip_main nc addr tl d Hwtl Hn Hb) as (targs & ps & Hc & Hnest & Hp).
      exists (PMsg addr ps). split; [econstructor; eassumption |].
      rewrite build_pkt_msg in Hb. apply bind_ok in Hb as (targs' & Hc' & Hb). apply bind_ok in Hb as (d0 & He & Hb).
      pose proof (check_msg_ok _ _ Hb) as ->.
      rewrite Hc in Hc'. inv_ok Hc'.
      destruct addr as [| c0 ar]; [discriminate Hslash |]. cbn [starts_with] in Hslash.
      apply andb_prop in Hslash as [Hc0 _]. apply Z.eqb_eq in Hc0. subst c0.
      assert (Hna : has_nul (47 :: ar) = false).
      { destruct Hn as [-> | [Hna _]]; [| exact Hna].
        unfold enc_msg in He. apply bind_ok in He as (a & Ha & _).
        destruct (write_string_inv _ _ _ Ha) as [_ Hnc]. apply Hnc. reflexivity. }
      destruct (enc_msg_len _ _ _ _ He) as (v & Hv & _).
      assert (Hok : Forall targ_ok targs').
      { apply (coerce_args_ok nc tl targs' v Hwtl Hc Hv). destruct Hn as [Hn | [_ Hn]]; [left | right]; exact Hn. }
      pose proof (decode_message_enc nc ar targs' d0 He Hna Hok) as Hdm. rewrite Hnest in Hdm. cbn [option_map] in Hdm.
      destruct (enc_msg_head _ _ _ _ He) as (r & Hd0).
      cbn [decode_fuel]. rewrite (aligned_nat _ Hal). cbn [negb].
      rewrite Hd0 in *. cbn [app] in *. exact Hdm.
    + (* bundle *)
      rewrite pkt_guard_bundle in Hg.
      rewrite build_pkt_bundle in Hb. apply bind_ok in Hb as (ds & Hds & Hb). apply bind_ok in Hb as (d0 & He & Hb).
      pose proof (check_bundle_ok _ _ Hb) as ->.
      unfold enc_bundle in He. apply bind_ok in He as (t & Ht & He). apply bind_ok in He as (b & Hbb & He). inv_ok He.
      assert (Hlen : length (bundle_prefix ++ t ++ b) = (16 + length b)%nat).
      { rewrite !app_length. pose proof (write_timetag_len _ _ Ht) as Ht8. unfold zlen in Ht8. cbn [length bundle_prefix]. lia. }
      destruct (conforms_elements nc lat tl Htl Hwtl Hg ds b Hds Hbb f ltac:(lia)) as (cs & Hcs & Hel).
      exists (PBundle tag cs). split; [constructor; exact Hcs |].
      cbn [decode_fuel]. rewrite (aligned_nat _ Hal). cbn [negb].
      unfold write_timetag in Ht.
      destruct ((0 <=? tag) && (tag <? 18446744073709551616)) eqn:E; [| discriminate Ht]. inv_ok Ht.
      apply andb_prop in E as [E1 E2]. apply Z.leb_le in E1. apply Z.ltb_lt in E2.
      rewrite o_of_packet_bundle.
      change (bundle_prefix ++ be64 tag ++ b) with (35 :: 98 :: 117 :: 110 :: 100 :: 108 :: 101 :: 0 :: be64 tag ++ b).
      assert (Hts : take_string (35 :: 98 :: 117 :: 110 :: 100 :: 108 :: 101 :: 0 :: be64 tag ++ b) = Some (bundle_tag, be64 tag ++ b))
        by reflexivity.
      rewrite Hts. change (bytes_eq bundle_tag bundle_tag) with true. cbn [negb].
      change 8%nat with (length (be64 tag)). rewrite take_app.
      rewrite Hel. rewrite unsigned_be_be64 by lia. reflexivity.
Qed.

(* ---- the expected packet is unique ---- *)
Lemma expect_functional : forall nc a p1 p2, expect nc a p1 -> expect nc a p2 -> p1 = p2.
Proof.
  intros nc a. revert a.
  apply (arg_nested_ind (fun a => forall p1 p2, expect nc a p1 -> expect nc a p2 -> p1 = p2)).
  - intros a Hleaf p1 p2 H1 _. inversion H1; subst; exfalso; eapply Hleaf; reflexivity.
  - intros l HF p1 p2 H1 H2.
    inversion H1 as [addr args targs ps Hc Hn | lat tag elems cs Hcs]; subst.
    + inversion H2 as [addr' args' targs' ps' Hc' Hn' |]; subst.
      rewrite Hc in Hc'. inv_ok Hc'. rewrite Hn in Hn'. injection Hn' as ->. reflexivity.
    + inversion H2 as [| lat' tag' elems' cs' Hcs']; subst. f_equal.
      inversion HF as [| ? ? _ Hel]; subst. clear -Hel Hcs Hcs'.
      revert cs' Hcs'. induction Hcs as [| e c es cs He Hes IH]; intros cs' Hcs'.
      * inversion Hcs'. reflexivity.
      * inversion Hcs' as [| ? c' ? cs'' He' Hes']; subst.
        inversion Hel as [| ? ? Pe Pes]; subst.
        f_equal; [apply Pe; assumption | apply IH; assumption].
Qed.
