(* C11 -- the real-time wake-up clears its flag on every exit path, restores the thread stack,
   and leaves the main thread's logical time following physical time. *)
From Coq Require Import ZArith List Bool Arith Lia.
Require Import SC3.model.Cond SC3.model.Routine SC3.model.RtWake SC3.proofs.C11_stack.
Import ListNotations.

Lemma flag_cleared_l : forall cfg defs fuel t r s,
  in_awake (fst (rt_wakeup Finally cfg defs fuel t r s)) = false.
Proof.
  intros. unfold rt_wakeup.
  destruct (next_ cfg defs fuel r VAwake (lib (update_logical_time t s))) as [w3 o]. reflexivity.
Qed.

Lemma main_time_follows_l : forall cfg defs fuel t r s p,
  snd (main_seconds_at p (fst (rt_wakeup Finally cfg defs fuel t r s))) = p.
Proof.
  intros. unfold main_seconds_at, update_logical_time.
  rewrite flag_cleared_l. reflexivity.
Qed.

Lemma rt_wakeup_quiescent_l : forall cl defs fuel t r s, quiescent (lib s) ->
  quiescent (lib (fst (rt_wakeup cl patched defs fuel t r s))).
Proof.
  intros cl defs fuel t r s Q. unfold rt_wakeup.
  assert (Q1 : quiescent (lib (update_logical_time t s))).
  { unfold update_logical_time. destruct (in_awake s); [exact Q |]. exact Q. }
  destruct (next_ok defs fuel r VAwake _ (proj1 Q1)) as (A & B & _).
  destruct (next_ patched defs fuel r VAwake (lib (update_logical_time t s))) as [w3 o]. simpl in A, B.
  pose proof (pres_quiescent _ w3 Q1 A B) as Q3.
  destruct o as [[| d | | | | | d | | |] | e]; exact Q3.
Qed.

(* with the clearing assignment in an else clause, a routine that ends leaves the flag set and the
   main thread's logical time frozen at the wake-up time *)
Lemma else_clause_refuted_l :
  let defs := [mkDef Gen false []] in
  let s := fst (rt_wakeup Else patched defs 5 7 0 (mkRtw false (init_world defs []))) in
  in_awake s = true /\ snd (main_seconds_at 100 s) = 7%Z /\
  snd (main_seconds_at 100 (fst (rt_wakeup Finally patched defs 5 7 0 (mkRtw false (init_world defs []))))) = 100%Z.
Proof. vm_compute. repeat split. Qed.
