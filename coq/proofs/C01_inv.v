(* C01_inv.v -- the invariant of the optimiser pass (desc_inv and the structure it needs) and its
   preservation.  Part A: primitives of the state.  Part B: the invariant.  Part C: atomic steps. *)
From Coq Require Import ZArith QArith List String Bool Arith Lia Setoid.
Import ListNotations.
Require Import SC3.model.Graph.
Open Scope string_scope.
Open Scope nat_scope.
Open Scope list_scope.

(* ================================================================== Part A: primitives *)
Lemma upd_length : forall {A} (l : list A) n x, List.length (upd l n x) = List.length l.
Proof. induction l as [|h t IH]; intros [|n] x; simpl; auto. Qed.
Lemma nth_error_upd_same : forall {A} (l : list A) n x, n < List.length l -> nth_error (upd l n x) n = Some x.
Proof. induction l as [|h t IH]; intros [|n] x H; simpl in *; try lia; auto. apply IH; lia. Qed.
Lemma nth_error_upd_other : forall {A} (l : list A) n m x, m <> n -> nth_error (upd l n x) m = nth_error l m.
Proof. induction l as [|h t IH]; intros [|n] [|m] x H; simpl; auto; try congruence. Qed.
Lemma upd_out : forall {A} (l : list A) n x, List.length l <= n -> upd l n x = l.
Proof. induction l as [|h t IH]; intros [|n] x H; simpl in *; auto; try lia. f_equal; apply IH; lia. Qed.
Lemma nth_upd_same : forall {A} (l : list A) n x d, n < List.length l -> nth n (upd l n x) d = x.
Proof. induction l as [|h t IH]; intros [|n] x d H; simpl in *; try lia; auto. apply IH; lia. Qed.
Lemma nth_upd_other : forall {A} (l : list A) n m x d, m <> n -> nth m (upd l n x) d = nth m l d.
Proof. induction l as [|h t IH]; intros [|n] [|m] x d H; simpl; auto; try congruence. Qed.

(* --- units *)
Lemma get_put_same : forall s U, uid U < List.length (units s) -> get_unit (put_unit s U) (uid U) = Some U.
Proof. intros. unfold get_unit, put_unit; simpl. apply nth_error_upd_same; auto. Qed.
Lemma get_put_other : forall s U u, u <> uid U -> get_unit (put_unit s U) u = get_unit s u.
Proof. intros. unfold get_unit, put_unit; simpl. apply nth_error_upd_other; auto. Qed.
Lemma units_put_length : forall s U, List.length (units (put_unit s U)) = List.length (units s).
Proof. intros. unfold put_unit; simpl. apply upd_length. Qed.
Lemma get_lt : forall s u U, get_unit s u = Some U -> u < List.length (units s).
Proof. intros s u U H. unfold get_unit in H. apply nth_error_Some. congruence. Qed.
Lemma get_some : forall s u, u < List.length (units s) -> exists U, get_unit s u = Some U.
Proof. intros s u H. unfold get_unit. destruct (nth_error (units s) u) eqn:E; eauto. apply nth_error_None in E. lia. Qed.

(* --- sets *)
Lemma mem_In : forall x l, mem x l = true <-> In x l.
Proof.
  intros x l. unfold mem. rewrite existsb_exists. split.
  - intros [y [Hy E]]. apply Nat.eqb_eq in E. subst; auto.
  - intro H. exists x. split; auto. apply Nat.eqb_refl.
Qed.
Lemma In_set_add : forall x y l, In y (set_add x l) <-> y = x \/ In y l.
Proof.
  intros x y l. unfold set_add. destruct (mem x l) eqn:E.
  - apply mem_In in E. split; [auto|]. intros [->|H]; auto.
  - rewrite in_app_iff. simpl. intuition.
Qed.
Lemma In_set_discard : forall x y l, In y (set_discard x l) <-> y <> x /\ In y l.
Proof.
  intros x y l. unfold set_discard. rewrite filter_In. split.
  - intros [H E]. split; auto. intro; subst. rewrite Nat.eqb_refl in E. discriminate.
  - intros [H1 H2]. split; auto. destruct (Nat.eqb x y) eqn:E; auto. apply Nat.eqb_eq in E. congruence.
Qed.
Lemma get_set_put_same : forall s r l, r < List.length (sets s) -> get_set (put_set s r l) r = l.
Proof. intros. unfold get_set, put_set; simpl. apply nth_upd_same; auto. Qed.
Lemma get_set_put_other : forall s r r' l, r' <> r -> get_set (put_set s r l) r' = get_set s r'.
Proof. intros. unfold get_set, put_set; simpl. apply nth_upd_other; auto. Qed.
Lemma sets_put_length : forall s r l, List.length (sets (put_set s r l)) = List.length (sets s).
Proof. intros. unfold put_set; simpl. apply upd_length. Qed.

(* --- children *)
Definition slot (s : st) (i u : nat) : Prop := nth_error (children s) i = Some (Some u).
Definition liv (s : st) (u : nat) : Prop := exists i, slot s i u.

Lemma live_In : forall s u, In u (live s) <-> liv s u.
Proof.
  intros s u. unfold live, liv, slot. rewrite in_flat_map. split.
  - intros [o [Ho Hu]]. destruct o as [v|]; simpl in Hu; [|contradiction]. destruct Hu as [->|[]].
    apply In_nth_error in Ho. exact Ho.
  - intros [i Hi]. exists (Some u). split; [eapply nth_error_In; eauto | left; auto].
Qed.

(* in-range child update *)
Lemma set_child_in : forall s i v, (0 <= i < Z.of_nat (List.length (children s)))%Z ->
  set_child s i v = with_children s (upd (children s) (Z.to_nat i) v).
Proof.
  intros s i v H. unfold set_child.
  destruct (i <? 0)%Z eqn:E1; [apply Z.ltb_lt in E1; lia|].
  destruct ((i <? 0)%Z || (Z.of_nat (List.length (children s)) <=? i)%Z) eqn:E2; auto.
  apply orb_true_iff in E2. destruct E2 as [E2|E2]; [congruence | apply Z.leb_le in E2; lia].
Qed.
Lemma child_at_in : forall s i, (0 <= i < Z.of_nat (List.length (children s)))%Z ->
  child_at s i = nth_error (children s) (Z.to_nat i).
Proof.
  intros s i H. unfold child_at.
  destruct (i <? 0)%Z eqn:E1; [apply Z.ltb_lt in E1; lia|].
  destruct ((i <? 0)%Z || (Z.of_nat (List.length (children s)) <=? i)%Z) eqn:E2; auto.
  apply orb_true_iff in E2. destruct E2 as [E2|E2]; [congruence | apply Z.leb_le in E2; lia].
Qed.

(* ================================================================== Part B: the invariant *)
Definition tracked (U : unit) : bool := isugen U && negb (multi U) && negb (iswf U).
Definition dcevis (U : unit) : bool := isugen U && negb (multi U).
Definition nz (v : inp) : bool := negb (kis v 0).
Definition isO (v : inp) : bool := match v with O _ _ => true | K _ => false end.

(* static shape of a unit object: arity of the arithmetic classes, their class flags, and the
   absence of the neutral / absorbing constants that the constructors short-cut *)
Definition unit_ok (U : unit) : bool :=
  implb (pure U) (isugen U) &&
  match ukind U with
  | KBin => tracked U && pure U &&
            match ins U with
            | [a; b] =>
                if String.eqb (opname U) "+" then nz a && nz b
                else if String.eqb (opname U) "-" then nz a && nz b
                else if String.eqb (opname U) "*" then
                  nz a && nz b && negb (kis a 1) && negb (kis a (-1)) && negb (kis b 1) && negb (kis b (-1))
                else true
            | _ => false
            end
  | KUn => tracked U && pure U && match ins U with [O _ _] => true | _ => false end
  | KSum3 => tracked U && negb (pure U) && Nat.eqb (List.length (ins U)) 3 && forallb nz (ins U) && String.eqb (opname U) ""
  | KSum4 => tracked U && negb (pure U) && Nat.eqb (List.length (ins U)) 4
  | KMulAdd => tracked U && negb (pure U) && Nat.eqb (List.length (ins U)) 3
  | KPlain | KOut | KCtl => implb (iswf U) (negb (pure U))
  end.

Definition reads (s : st) (c v : nat) : Prop :=
  exists C ch, get_unit s c = Some C /\ In (O v ch) (ins C).
Definition dsetf (s : st) (U : unit) : list nat :=
  match dref U with Some r => get_set s r | None => [] end.

Record Inv (s : st) (D : list nat) : Prop := mkInv {
  I_rw : rewriting s = true;
  I_uid : forall u U, get_unit s u = Some U -> uid U = u;
  I_ok : forall u U, get_unit s u = Some U -> unit_ok U = true;
  I_ins : forall u U v ch, get_unit s u = Some U -> In (O v ch) (ins U) -> v < List.length (units s);
  I_slot : forall i u, slot s i u ->
           exists U r, get_unit s u = Some U /\ sidx U = Z.of_nat i /\ dref U = Some r;
  I_ref : forall u U r, get_unit s u = Some U -> dref U = Some r ->
          r < List.length (sets s) /\ (0 <= sidx U < Z.of_nat (List.length (children s)))%Z;
  I_refinj : forall u v U V r, liv s u -> liv s v -> get_unit s u = Some U -> get_unit s v = Some V ->
             dref U = Some r -> dref V = Some r -> u = v;
  I_refshape : forall u v U V r, get_unit s u = Some U -> get_unit s v = Some V ->
               dref U = Some r -> dref V = Some r -> dcevis U = dcevis V /\ tracked U = tracked V;
  I_rank : forall u U v ch, get_unit s u = Some U -> dref U <> None -> In (O v ch) (ins U) ->
           exists V, get_unit s v = Some V /\ dref V <> None /\ (sidx V < sidx U)%Z;
  I_inlive : forall c C v ch, liv s c -> ~ In c D -> get_unit s c = Some C -> In (O v ch) (ins C) -> liv s v;
  I_lower : forall x X c, liv s x -> ~ In x D -> get_unit s x = Some X -> isugen X = true ->
            liv s c -> ~ In c D -> reads s c x -> In c (dsetf s X);
  I_upper : forall x X c, liv s x -> ~ In x D -> get_unit s x = Some X -> tracked X = true ->
            In c (dsetf s X) -> liv s c /\ reads s c x;
  I_dying : forall y, In y D ->
            liv s y /\ (exists Y, get_unit s y = Some Y /\ dsetf s Y = [] /\ pure Y = true) /\
            (forall c, liv s c -> ~ In c D -> ~ reads s c y)
}.

Lemma tracked_flags : forall U, tracked U = true -> isugen U = true /\ multi U = false /\ iswf U = false /\ dcevis U = true.
Proof. intros U H. unfold tracked, dcevis in *. destruct (isugen U), (multi U), (iswf U); simpl in *; auto; discriminate. Qed.

(* what desc_inv says when nothing is being eliminated: for every live single-output
   non-width-first UGen the maintained set is exactly the set of live units that read it *)
Definition desc_exact (s : st) : Prop :=
  forall x X, liv s x -> get_unit s x = Some X -> tracked X = true ->
  forall c, In c (dsetf s X) <-> (liv s c /\ reads s c x).
Lemma Inv_desc_exact : forall s, Inv s [] -> desc_exact s.
Proof.
  intros s H x X Hl Hg Ht c. split.
  - intro Hc. exact (I_upper s [] H x X c Hl (fun f => f) Hg Ht Hc).
  - intros [Hlc Hr]. apply tracked_flags in Ht.
    exact (I_lower s [] H x X c Hl (fun f => f) Hg (proj1 Ht) Hlc (fun f => f) Hr).
Qed.

(* derived facts *)
Lemma slot_unique : forall s D i j u, Inv s D -> slot s i u -> slot s j u -> i = j.
Proof.
  intros s D i j u H Hi Hj.
  destruct (I_slot s D H i u Hi) as (U & r & Hg & Hs & _).
  destruct (I_slot s D H j u Hj) as (U' & r' & Hg' & Hs' & _).
  rewrite Hg in Hg'. inversion Hg'; subst U'. lia.
Qed.
Lemma liv_slot : forall s D u U, Inv s D -> liv s u -> get_unit s u = Some U ->
  slot s (Z.to_nat (sidx U)) u /\ (0 <= sidx U)%Z.
Proof.
  intros s D u U H [i Hi] Hg. destruct (I_slot s D H i u Hi) as (U' & r & Hg' & Hs & _).
  rewrite Hg in Hg'. inversion Hg'; subst U'. rewrite Hs, Nat2Z.id. split; [exact Hi | lia].
Qed.
Lemma liv_get : forall s D u, Inv s D -> liv s u -> exists U r, get_unit s u = Some U /\ dref U = Some r.
Proof. intros s D u H [i Hi]. destruct (I_slot s D H i u Hi) as (U & r & Hg & _ & Hr). eauto. Qed.
Lemma slot_lt : forall s i u, slot s i u -> i < List.length (children s).
Proof. intros s i u H. apply nth_error_Some. unfold slot in H. congruence. Qed.

(* ================================================================== Part C: atomic steps *)
Lemma unit_ok_pure_isugen : forall U, unit_ok U = true -> pure U = true -> isugen U = true.
Proof. intros U H Hp. unfold unit_ok in H. rewrite Hp in H. apply andb_true_iff in H. destruct H as [H _]. exact H. Qed.

(* ---- A0: a live side-effect-free unit without descendants starts being eliminated *)
Lemma step_mark : forall s D u U, Inv s D -> liv s u -> ~ In u D -> get_unit s u = Some U ->
  pure U = true -> dsetf s U = [] -> Inv s (u :: D).
Proof.
  intros s D u U H Hl Hn Hg Hp Hd. destruct H. constructor.
  - exact I_rw0.
  - exact I_uid0.
  - exact I_ok0.
  - exact I_ins0.
  - exact I_slot0.
  - exact I_ref0.
  - exact I_refinj0.
  - exact I_refshape0.
  - exact I_rank0.
  - intros c C v ch Hc Hnc. apply I_inlive0; auto. intro; apply Hnc; right; auto.
  - intros x X c Hx Hnx HX Hi Hc Hnc. apply I_lower0; auto; intro; [apply Hnx | apply Hnc]; right; auto.
  - intros x X c Hx Hnx. apply I_upper0; auto. intro; apply Hnx; right; auto.
  - intros y [<-|Hy].
    + split; [exact Hl|]. split; [exists U; auto|].
      intros c Hc Hnc Hr.
      assert (Hin : In c (dsetf s U)).
      { apply (I_lower0 u U c); auto.
        - eapply unit_ok_pure_isugen; eauto.
        - intro; apply Hnc; right; auto. }
      rewrite Hd in Hin. contradiction.
    + destruct (I_dying0 y Hy) as (A & B & C). split; [exact A|]. split; [exact B|].
      intros c Hc Hnc. apply C; auto. intro; apply Hnc; right; auto.
Qed.

(* ---- A1: a unit that is being eliminated is discarded from a descendant set *)
Lemma dsetf_put_set : forall s r l X, r < List.length (sets s) ->
  dsetf (put_set s r l) X = match dref X with Some r' => if Nat.eqb r' r then l else get_set s r' | None => [] end.
Proof.
  intros s r l X Hr. unfold dsetf. destruct (dref X) as [r'|]; auto.
  destruct (Nat.eqb r' r) eqn:E.
  - apply Nat.eqb_eq in E; subst. apply get_set_put_same; auto.
  - apply Nat.eqb_neq in E. apply get_set_put_other; auto.
Qed.

Lemma step_discard : forall s D u r, Inv s D -> In u D -> r < List.length (sets s) ->
  Inv (put_set s r (set_discard u (get_set s r))) D.
Proof.
  intros s D u r H Hu Hr. destruct H.
  set (s' := put_set s r (set_discard u (get_set s r))).
  assert (Hget : forall x, get_unit s' x = get_unit s x) by reflexivity.
  assert (Hch : children s' = children s) by reflexivity.
  assert (Hliv : forall x, liv s' x <-> liv s x) by (intro; unfold liv, slot; rewrite Hch; tauto).
  assert (Hreads : forall c v, reads s' c v <-> reads s c v) by (intros; unfold reads; tauto).
  assert (Hsub : forall X c, In c (dsetf s' X) -> In c (dsetf s X)).
  { intros X c. unfold s'. rewrite dsetf_put_set; auto. unfold dsetf. destruct (dref X) as [r'|]; auto.
    destruct (Nat.eqb r' r) eqn:E; auto. apply Nat.eqb_eq in E; subst. rewrite In_set_discard. tauto. }
  assert (Hsup : forall X c, c <> u -> In c (dsetf s X) -> In c (dsetf s' X)).
  { intros X c Hc. unfold s'. rewrite dsetf_put_set; auto. unfold dsetf. destruct (dref X) as [r'|]; auto.
    destruct (Nat.eqb r' r) eqn:E; auto. apply Nat.eqb_eq in E; subst. rewrite In_set_discard. tauto. }
  constructor.
  - exact I_rw0.
  - exact I_uid0.
  - exact I_ok0.
  - exact I_ins0.
  - exact I_slot0.
  - intros x U r0 Hg Hd. destruct (I_ref0 x U r0 Hg Hd). split; auto. unfold s'. rewrite sets_put_length. auto.
  - intros a b U V r0 Ha Hb HU HV. apply (I_refinj0 a b U V r0); auto; apply Hliv; auto.
  - exact I_refshape0.
  - exact I_rank0.
  - intros c C v ch Hc Hn Hg Hi. apply Hliv. eapply I_inlive0; eauto; try (apply Hliv; auto).
  - intros x X c Hx Hnx Hg Hi Hc Hnc Hrd. apply Hsup.
    + intro; subst. contradiction.
    + apply (I_lower0 x X c); auto; try (apply Hliv; auto); try (apply Hreads; auto).
  - intros x X c Hx Hnx Hg Ht Hc. destruct (I_upper0 x X c) as [A B]; auto.
  - intros y Hy. destruct (I_dying0 y Hy) as (A & (Y & HY & Hd & Hp) & C). split; [apply Hliv; auto|]. split.
    + exists Y. split; auto. split; auto.
      destruct (dsetf s' Y) as [|c t] eqn:E; auto.
      assert (In c (dsetf s Y)) by (apply Hsub; rewrite E; left; auto). rewrite Hd in H. contradiction.
    + intros c Hc Hnc Hrd. apply (C c); auto.
Qed.

(* ---- A2: the eliminated unit leaves the graph (SynthDef._remove_ugen) *)
Lemma slot_upd_iff : forall s k v i x, k < List.length (children s) ->
  slot (with_children s (upd (children s) k v)) i x <-> (i = k /\ v = Some x) \/ (i <> k /\ slot s i x).
Proof.
  intros s k v i x Hk. unfold slot; simpl. destruct (Nat.eq_dec i k) as [->|Hne].
  - rewrite nth_error_upd_same; auto. split.
    + intro H; inversion H; auto.
    + intros [[_ ->]|[H _]]; auto. congruence.
  - rewrite nth_error_upd_other; auto. split; [auto|]. intros [[H _]|[_ H]]; auto. congruence.
Qed.

Lemma remove_ugen_eq : forall s D u U, Inv s D -> liv s u -> get_unit s u = Some U ->
  remove_ugen s u = with_children s (upd (children s) (Z.to_nat (sidx U)) None)
  /\ slot s (Z.to_nat (sidx U)) u.
Proof.
  intros s D u U H Hl Hg. destruct (liv_slot s D u U H Hl Hg) as [Hs H0].
  split; auto. unfold remove_ugen. rewrite Hg. apply set_child_in.
  pose proof (slot_lt _ _ _ Hs). lia.
Qed.

Lemma liv_after_remove : forall s D u U x, Inv s D -> liv s u -> get_unit s u = Some U ->
  (liv (remove_ugen s u) x <-> liv s x /\ x <> u).
Proof.
  intros s D u U x H Hl Hg. destruct (remove_ugen_eq s D u U H Hl Hg) as [-> Hs].
  pose proof (slot_lt _ _ _ Hs) as Hk. unfold liv. split.
  - intros [i Hi]. apply slot_upd_iff in Hi; auto. destruct Hi as [[_ Hx]|[Hne Hi]]; [discriminate|].
    split; [eauto|]. intro; subst x. apply Hne. eapply slot_unique; eauto.
  - intros [[i Hi] Hne]. exists i. apply slot_upd_iff; auto. right. split; auto.
    intro; subst i. unfold slot in *. rewrite Hs in Hi. inversion Hi. congruence.
Qed.

Lemma in_remove_iff : forall (u y : nat) D, In y (remove Nat.eq_dec u D) <-> In y D /\ y <> u.
Proof. intros. split; [apply in_remove | intros [A B]; apply in_in_remove; auto]. Qed.

Lemma step_remove : forall s D u, Inv s D -> In u D ->
  (forall x X, liv s x -> ~ In x D -> get_unit s x = Some X -> tracked X = true -> ~ In u (dsetf s X)) ->
  Inv (remove_ugen s u) (remove Nat.eq_dec u D).
Proof.
  intros s D u H Hu Hclean. pose proof H as HI. destruct H.
  destruct (I_dying0 u Hu) as (Hlu & (U & HU & HdU & HpU) & HnoR).
  destruct (remove_ugen_eq s D u U HI Hlu HU) as [Heq Hslot].
  pose proof (liv_after_remove s D u U) as Hliv. specialize (fun x => Hliv x HI Hlu HU).
  set (s' := remove_ugen s u) in *.
  assert (Hget : forall x, get_unit s' x = get_unit s x) by (intro; rewrite Heq; reflexivity).
  assert (Hsets : forall X, dsetf s' X = dsetf s X) by (intro; rewrite Heq; reflexivity).
  assert (Hreads : forall c v, reads s' c v <-> reads s c v).
  { intros. unfold reads. split; intros (C & ch & A & B); exists C, ch; split; auto; [rewrite <- Hget|rewrite Hget]; auto. }
  assert (HD : forall y, ~ In y (remove Nat.eq_dec u D) -> y <> u -> ~ In y D).
  { intros y A B C. apply A. apply in_remove_iff; auto. }
  constructor.
  - rewrite Heq; exact I_rw0.
  - intros x X A. rewrite Hget in A. apply I_uid0; auto.
  - intros x X A. rewrite Hget in A. eapply I_ok0; eauto.
  - intros x X v ch A B. rewrite Hget in A. rewrite Heq; simpl. eapply I_ins0; eauto.
  - intros i x A. rewrite Heq in A. apply slot_upd_iff in A; [|eapply slot_lt; eauto].
    destruct A as [[_ A]|[_ A]]; [discriminate|]. destruct (I_slot0 i x A) as (X & r & B & C & E).
    exists X, r. rewrite Hget. auto.
  - intros x X r A B. rewrite Hget in A. destruct (I_ref0 x X r A B) as [C E]. rewrite Heq; simpl.
    rewrite upd_length. auto.
  - intros a b A B r La Lb Ga Gb. rewrite Hget in Ga, Gb. apply (I_refinj0 a b A B r); auto; [apply Hliv in La | apply Hliv in Lb]; tauto.
  - intros a b A B r Ga Gb. rewrite Hget in Ga, Gb. eapply I_refshape0; eauto.
  - intros x X v ch A B C. rewrite Hget in A. destruct (I_rank0 x X v ch A B C) as (V & E & F & G).
    exists V. rewrite Hget. auto.
  - intros c C v ch Lc Nc Gc Hin. rewrite Hget in Gc. apply Hliv in Lc. destruct Lc as [Lc Nu].
    pose proof (HD c Nc Nu) as NcD.
    apply Hliv. split; [eapply I_inlive0; eauto|].
    intro; subst v. apply (HnoR c Lc NcD). exists C, ch. auto.
  - intros x X c Lx Nx Gx Ix Lc Nc Hr. rewrite Hget in Gx. rewrite Hsets.
    apply Hliv in Lx. apply Hliv in Lc. destruct Lx as [Lx Nxu]. destruct Lc as [Lc Ncu].
    apply (I_lower0 x X c); auto. apply Hreads; auto.
  - intros x X c Lx Nx Gx Tx Hin. rewrite Hget in Gx. rewrite Hsets in Hin.
    apply Hliv in Lx. destruct Lx as [Lx Nxu].
    destruct (I_upper0 x X c Lx (HD x Nx Nxu) Gx Tx Hin) as [Lc Rc].
    split; [|apply Hreads; auto]. apply Hliv. split; auto.
    intro; subst c. exact (Hclean x X Lx (HD x Nx Nxu) Gx Tx Hin).
  - intros y Hy. apply in_remove_iff in Hy. destruct Hy as [Hy Nyu].
    destruct (I_dying0 y Hy) as (Ly & (Y & GY & DY & PY) & NR).
    split; [apply Hliv; auto|]. split.
    + exists Y. rewrite Hget, Hsets. auto.
    + intros c Lc Nc Hr. apply Hliv in Lc. destruct Lc as [Lc Ncu]. apply (NR c Lc (HD c Nc Ncu)). apply Hreads; auto.
Qed.

(* ================================================================== Part D: the rewrite step *)
Definition subst_in (a b : nat) (i : inp) : inp :=
  match i with O u ch => if Nat.eqb u a then O b ch else i | _ => i end.
Definition map_ins (a b : nat) (U : unit) : unit := set_ins U (map (subst_in a b) (ins U)).
Definition rep_step (a b : nat) (s0 : st) (c : nat) : st :=
  match get_unit s0 c with Some C => put_unit s0 (map_ins a b C) | None => s0 end.
Definition uid_ok (s : st) : Prop := forall u U, get_unit s u = Some U -> uid U = u.

Lemma subst_in_idem : forall a b i, a <> b -> subst_in a b (subst_in a b i) = subst_in a b i.
Proof.
  intros a b [q|u ch] H; simpl; auto. destruct (Nat.eqb u a) eqn:E; simpl.
  - destruct (Nat.eqb b a); auto.
  - rewrite E. auto.
Qed.
Lemma map_ins_idem : forall a b U, a <> b -> map_ins a b (map_ins a b U) = map_ins a b U.
Proof.
  intros a b U H. unfold map_ins, set_ins; simpl. f_equal. rewrite map_map. apply map_ext. intro; apply subst_in_idem; auto.
Qed.

Lemma fold_rep_spec : forall a b l s0, a <> b -> uid_ok s0 ->
  let sf := fold_left (rep_step a b) l s0 in
  uid_ok sf /\ children sf = children s0 /\ sets sf = sets s0 /\ rewriting sf = rewriting s0 /\
  List.length (units sf) = List.length (units s0) /\
  forall c, get_unit sf c = match get_unit s0 c with
                            | Some C => Some (if mem c l then map_ins a b C else C)
                            | None => None end.
Proof.
  intros a b l. induction l as [|c0 t IH]; intros s0 Hab Hu; simpl.
  - repeat split; auto. intro c. destruct (get_unit s0 c); auto.
  - set (s1 := rep_step a b s0 c0).
    assert (H1 : uid_ok s1 /\ children s1 = children s0 /\ sets s1 = sets s0 /\ rewriting s1 = rewriting s0 /\
                 List.length (units s1) = List.length (units s0) /\
                 forall c, get_unit s1 c = match get_unit s0 c with
                                           | Some C => Some (if Nat.eqb c c0 then map_ins a b C else C)
                                           | None => None end).
    { unfold s1, rep_step. destruct (get_unit s0 c0) as [C0|] eqn:E0.
      - pose proof (Hu c0 C0 E0) as Hid.
        assert (Hid' : uid (map_ins a b C0) = c0) by (unfold map_ins, set_ins; simpl; auto).
        assert (Hget : forall c, get_unit (put_unit s0 (map_ins a b C0)) c =
                                 if Nat.eqb c c0 then Some (map_ins a b C0) else get_unit s0 c).
        { intro c. destruct (Nat.eqb c c0) eqn:E.
          - apply Nat.eqb_eq in E; subst c. rewrite <- Hid'. apply get_put_same. rewrite Hid'. eapply get_lt; eauto.
          - apply Nat.eqb_neq in E. apply get_put_other. rewrite Hid'. auto. }
        split; [|split; [reflexivity|split; [reflexivity|split; [reflexivity|split; [apply units_put_length|]]]]].
        + intros c C Hc. rewrite Hget in Hc. destruct (Nat.eqb c c0) eqn:E.
          * apply Nat.eqb_eq in E; subst. inversion Hc; subst. auto.
          * apply Hu; auto.
        + intro c. rewrite Hget. destruct (Nat.eqb c c0) eqn:E.
          * apply Nat.eqb_eq in E; subst. rewrite E0. auto.
          * destruct (get_unit s0 c); auto.
      - repeat split; auto. intro c. destruct (get_unit s0 c) eqn:E; auto.
        destruct (Nat.eqb c c0) eqn:E2; auto. apply Nat.eqb_eq in E2; subst. congruence. }
    destruct H1 as (U1 & C1 & S1 & R1 & L1 & G1).
    destruct (IH s1 Hab U1) as (U2 & C2 & S2 & R2 & L2 & G2).
    split; [exact U2|]. split; [congruence|]. split; [congruence|]. split; [congruence|]. split; [congruence|].
    intro c. rewrite G2, G1. destruct (get_unit s0 c) as [C|]; auto. f_equal.
    destruct (Nat.eqb c c0) eqn:E; simpl; auto.
    destruct (mem c t); auto. apply map_ins_idem; auto.
Qed.

(* ---- _optimize_update_descendants *)
Definition touchedb (s : st) (l : list inp) (ref : nat) : bool :=
  existsb (fun i => match i with
                    | O u _ => match get_unit s u with
                               | Some V => isugen V && match dref V with Some r => Nat.eqb r ref | None => false end
                               | None => false end
                    | K _ => false end) l.

Definition inputs_ok (s : st) (l : list inp) : Prop :=
  forall u ch, In (O u ch) l -> exists V, get_unit s u = Some V /\
    (isugen V = true -> exists r, dref V = Some r /\ r < List.length (sets s)).

Lemma udl_spec : forall self repl del l s, inputs_ok s l ->
  let sf := update_desc_loop s self repl del l in
  units sf = units s /\ children sf = children s /\ rewriting sf = rewriting s /\
  List.length (sets sf) = List.length (sets s) /\
  forall ref m, In m (get_set sf ref) <->
     if touchedb s l ref then ((m = repl \/ In m (get_set s ref)) /\ m <> self /\ m <> del)
     else In m (get_set s ref).
Proof.
  intros self repl del l. induction l as [|i t IH]; intros s Hok; simpl.
  - repeat split; auto.
  - assert (Hok' : inputs_ok s t) by (intros u ch H; apply (Hok u ch); right; auto).
    destruct i as [q|u ch].
    + destruct (IH s Hok') as (A & B & C & E & F). repeat split; auto; apply F.
    + destruct (Hok u ch (or_introl eq_refl)) as (V & HV & HD). rewrite HV.
      destruct (isugen V) eqn:Ei.
      * destruct (HD eq_refl) as (r & Hr & Hlt). rewrite Hr. simpl.
        set (d := set_discard del (set_discard self (set_add repl (get_set s r)))).
        set (s1 := put_set s r d).
        assert (Hok1 : inputs_ok s1 t).
        { intros u' ch' H. destruct (Hok' u' ch' H) as (V' & A & B). exists V'. split; auto.
          intro X. destruct (B X) as (r' & P & Q). exists r'. split; auto. unfold s1. rewrite sets_put_length. auto. }
        destruct (IH s1 Hok1) as (A & B & C & E & F).
        split; [rewrite A; reflexivity|]. split; [rewrite B; reflexivity|]. split; [rewrite C; reflexivity|].
        split; [rewrite E; unfold s1; apply sets_put_length|].
        intros ref m. rewrite F.
        assert (Ht : touchedb s1 t ref = touchedb s t ref) by reflexivity. rewrite Ht.
        destruct (Nat.eqb r ref) eqn:Er.
        -- apply Nat.eqb_eq in Er; subst ref. simpl.
           assert (Hg : get_set s1 r = d) by (apply get_set_put_same; auto). rewrite Hg.
           destruct (touchedb s t r); unfold d; rewrite !In_set_discard, In_set_add; tauto.
        -- apply Nat.eqb_neq in Er. simpl.
           assert (Hg : get_set s1 ref = get_set s ref) by (apply get_set_put_other; auto). rewrite Hg. tauto.
      * simpl. destruct (IH s Hok') as (A & B & C & E & F). repeat split; auto; apply F.
Qed.
