(* C01_inv.v -- the invariant of the optimiser pass (desc_inv and the structure it needs) and its
   preservation.  Part A: primitives of the state.  Part B: the invariant.  Part C: atomic steps. *)
From Coq Require Import ZArith QArith List String Bool Arith Lia Setoid.
Import ListNotations.
Require Import SC3.model.Graph.
Open Scope string_scope.
Open Scope nat_scope.
Open Scope list_scope.

(* ================================================================== Part A: primitives *)
Lemma upd_length : forall {A} (l : list A) n x, List.length (upd l n x) = List.length l.
Proof. induction l as [|h t IH]; intros [|n] x; simpl; auto. Qed.
Lemma nth_error_upd_same : forall {A} (l : list A) n x, n < List.length l -> nth_error (upd l n x) n = Some x.
Proof. induction l as [|h t IH]; intros [|n] x H; simpl in *; try lia; auto. apply IH; lia. Qed.
Lemma nth_error_upd_other : forall {A} (l : list A) n m x, m <> n -> nth_error (upd l n x) m = nth_error l m.
Proof. induction l as [|h t IH]; intros [|n] [|m] x H; simpl; auto; try congruence. Qed.
Lemma upd_out : forall {A} (l : list A) n x, List.length l <= n -> upd l n x = l.
Proof. induction l as [|h t IH]; intros [|n] x H; simpl in *; auto; try lia. f_equal; apply IH; lia. Qed.
Lemma nth_upd_same : forall {A} (l : list A) n x d, n < List.length l -> nth n (upd l n x) d = x.
Proof. induction l as [|h t IH]; intros [|n] x d H; simpl in *; try lia; auto. apply IH; lia. Qed.
Lemma nth_upd_other : forall {A} (l : list A) n m x d, m <> n -> nth m (upd l n x) d = nth m l d.
Proof. induction l as [|h t IH]; intros [|n] [|m] x d H; simpl; auto; try congruence. Qed.

(* --- units *)
Lemma get_put_same : forall s U, uid U < List.length (units s) -> get_unit (put_unit s U) (uid U) = Some U.
Proof. intros. unfold get_unit, put_unit; simpl. apply nth_error_upd_same; auto. Qed.
Lemma get_put_other : forall s U u, u <> uid U -> get_unit (put_unit s U) u = get_unit s u.
Proof. intros. unfold get_unit, put_unit; simpl. apply nth_error_upd_other; auto. Qed.
Lemma units_put_length : forall s U, List.length (units (put_unit s U)) = List.length (units s).
Proof. intros. unfold put_unit; simpl. apply upd_length. Qed.
Lemma get_lt : forall s u U, get_unit s u = Some U -> u < List.length (units s).
Proof. intros s u U H. unfold get_unit in H. apply nth_error_Some. congruence. Qed.
Lemma get_some : forall s u, u < List.length (units s) -> exists U, get_unit s u = Some U.
Proof. intros s u H. unfold get_unit. destruct (nth_error (units s) u) eqn:E; eauto. apply nth_error_None in E. lia. Qed.

(* --- sets *)
Lemma mem_In : forall x l, mem x l = true <-> In x l.
Proof.
  intros x l. unfold mem. rewrite existsb_exists. split.
  - intros [y [Hy E]]. apply Nat.eqb_eq in E. subst; auto.
  - intro H. exists x. split; auto. apply Nat.eqb_refl.
Qed.
Lemma In_set_add : forall x y l, In y (set_add x l) <-> y = x \/ In y l.
Proof.
  intros x y l. unfold set_add. destruct (mem x l) eqn:E.
  - apply mem_In in E. split; [auto|]. intros [->|H]; auto.
  - rewrite in_app_iff. simpl. intuition.
Qed.
Lemma In_set_discard : forall x y l, In y (set_discard x l) <-> y <> x /\ In y l.
Proof.
  intros x y l. unfold set_discard. rewrite filter_In. split.
  - intros [H E]. split; auto. intro; subst. rewrite Nat.eqb_refl in E. discriminate.
  - intros [H1 H2]. split; auto. destruct (Nat.eqb x y) eqn:E; auto. apply Nat.eqb_eq in E. congruence.
Qed.
Lemma get_set_put_same : forall s r l, r < List.length (sets s) -> get_set (put_set s r l) r = l.
Proof. intros. unfold get_set, put_set; simpl. apply nth_upd_same; auto. Qed.
Lemma get_set_put_other : forall s r r' l, r' <> r -> get_set (put_set s r l) r' = get_set s r'.
Proof. intros. unfold get_set, put_set; simpl. apply nth_upd_other; auto. Qed.
Lemma sets_put_length : forall s r l, List.length (sets (put_set s r l)) = List.length (sets s).
Proof. intros. unfold put_set; simpl. apply upd_length. Qed.

(* --- children *)
Definition slot (s : st) (i u : nat) : Prop := nth_error (children s) i = Some (Some u).
Definition liv (s : st) (u : nat) : Prop := exists i, slot s i u.

Lemma live_In : forall s u, In u (live s) <-> liv s u.
Proof.
  intros s u. unfold live, liv, slot. rewrite in_flat_map. split.
  - intros [o [Ho Hu]]. destruct o as [v|]; simpl in Hu; [|contradiction]. destruct Hu as [->|[]].
    apply In_nth_error in Ho. exact Ho.
  - intros [i Hi]. exists (Some u). split; [eapply nth_error_In; eauto | left; auto].
Qed.

(* in-range child update *)
Lemma set_child_in : forall s i v, (0 <= i < Z.of_nat (List.length (children s)))%Z ->
  set_child s i v = with_children s (upd (children s) (Z.to_nat i) v).
Proof.
  intros s i v H. unfold set_child.
  destruct (i <? 0)%Z eqn:E1; [apply Z.ltb_lt in E1; lia|].
  destruct ((i <? 0)%Z || (Z.of_nat (List.length (children s)) <=? i)%Z) eqn:E2; auto.
  apply orb_true_iff in E2. destruct E2 as [E2|E2]; [congruence | apply Z.leb_le in E2; lia].
Qed.
Lemma child_at_in : forall s i, (0 <= i < Z.of_nat (List.length (children s)))%Z ->
  child_at s i = nth_error (children s) (Z.to_nat i).
Proof.
  intros s i H. unfold child_at.
  destruct (i <? 0)%Z eqn:E1; [apply Z.ltb_lt in E1; lia|].
  destruct ((i <? 0)%Z || (Z.of_nat (List.length (children s)) <=? i)%Z) eqn:E2; auto.
  apply orb_true_iff in E2. destruct E2 as [E2|E2]; [congruence | apply Z.leb_le in E2; lia].
Qed.

(* ================================================================== Part B: the invariant *)
Definition tracked (U : unit) : bool := isugen U && negb (multi U) && negb (iswf U).
Definition dcevis (U : unit) : bool := isugen U && negb (multi U).
Definition nz (v : inp) : bool := negb (kis v 0).
Definition isO (v : inp) : bool := match v with O _ _ => true | K _ => false end.

(* static shape of a unit object: arity of the arithmetic classes, their class flags, and the
   absence of the neutral / absorbing constants that the constructors short-cut *)
Definition unit_ok (U : unit) : bool :=
  implb (pure U) (isugen U) &&
  match ukind U with
  | KBin => tracked U && pure U &&
            match ins U with
            | [a; b] =>
                if String.eqb (opname U) "+" then nz a && nz b
                else if String.eqb (opname U) "-" then nz a && nz b
                else if String.eqb (opname U) "*" then
                  nz a && nz b && negb (kis a 1) && negb (kis a (-1)) && negb (kis b 1) && negb (kis b (-1))
                else true
            | _ => false
            end
  | KUn => tracked U && pure U && match ins U with [O _ _] => true | _ => false end
  | KSum3 => tracked U && negb (pure U) && Nat.eqb (List.length (ins U)) 3 && forallb nz (ins U) && String.eqb (opname U) ""
  | KSum4 => tracked U && negb (pure U) && Nat.eqb (List.length (ins U)) 4
  | KMulAdd => tracked U && negb (pure U) && Nat.eqb (List.length (ins U)) 3
  | KPlain | KOut | KCtl => implb (iswf U) (negb (pure U))
  end.

Definition reads (s : st) (c v : nat) : Prop :=
  exists C ch, get_unit s c = Some C /\ In (O v ch) (ins C).
Definition dsetf (s : st) (U : unit) : list nat :=
  match dref U with Some r => get_set s r | None => [] end.

Record Inv (s : st) (D : list nat) : Prop := mkInv {
  I_rw : rewriting s = true;
  I_uid : forall u U, get_unit s u = Some U -> uid U = u;
  I_ok : forall u U, get_unit s u = Some U -> unit_ok U = true;
  I_ins : forall u U v ch, get_unit s u = Some U -> In (O v ch) (ins U) -> v < List.length (units s);
  I_slot : forall i u, slot s i u ->
           exists U r, get_unit s u = Some U /\ sidx U = Z.of_nat i /\ dref U = Some r;
  I_ref : forall u U r, get_unit s u = Some U -> dref U = Some r ->
          r < List.length (sets s) /\ (0 <= sidx U < Z.of_nat (List.length (children s)))%Z;
  I_refinj : forall u v U V r, liv s u -> liv s v -> get_unit s u = Some U -> get_unit s v = Some V ->
             dref U = Some r -> dref V = Some r -> u = v;
  I_refshape : forall u v U V r, get_unit s u = Some U -> get_unit s v = Some V ->
               dref U = Some r -> dref V = Some r -> dcevis U = dcevis V /\ tracked U = tracked V;
  I_rank : forall u U v ch, get_unit s u = Some U -> dref U <> None -> In (O v ch) (ins U) ->
           exists V, get_unit s v = Some V /\ dref V <> None /\ (sidx V < sidx U)%Z;
  I_ch : forall u U v ch V, get_unit s u = Some U -> In (O v ch) (ins U) -> get_unit s v = Some V ->
         multi V = false -> ch = 0;
  I_inlive : forall c C v ch, liv s c -> ~ In c D -> get_unit s c = Some C -> In (O v ch) (ins C) -> liv s v;
  I_lower : forall x X c, liv s x -> ~ In x D -> get_unit s x = Some X -> isugen X = true ->
            liv s c -> ~ In c D -> reads s c x -> In c (dsetf s X);
  I_upper : forall x X c, liv s x -> ~ In x D -> get_unit s x = Some X -> tracked X = true ->
            In c (dsetf s X) -> liv s c /\ reads s c x;
  I_dying : forall y, In y D ->
            liv s y /\ (exists Y, get_unit s y = Some Y /\ dsetf s Y = [] /\ pure Y = true) /\
            (forall c, liv s c -> ~ In c D -> ~ reads s c y)
}.

Lemma tracked_flags : forall U, tracked U = true -> isugen U = true /\ multi U = false /\ iswf U = false /\ dcevis U = true.
Proof. intros U H. unfold tracked, dcevis in *. destruct (isugen U), (multi U), (iswf U); simpl in *; auto; discriminate. Qed.

(* what desc_inv says when nothing is being eliminated: for every live single-output
   non-width-first UGen the maintained set is exactly the set of live units that read it *)
Definition desc_exact (s : st) : Prop :=
  forall x X, liv s x -> get_unit s x = Some X -> tracked X = true ->
  forall c, In c (dsetf s X) <-> (liv s c /\ reads s c x).
Lemma Inv_desc_exact : forall s, Inv s [] -> desc_exact s.
Proof.
  intros s H x X Hl Hg Ht c. split.
  - intro Hc. exact (I_upper s [] H x X c Hl (fun f => f) Hg Ht Hc).
  - intros [Hlc Hr]. apply tracked_flags in Ht.
    exact (I_lower s [] H x X c Hl (fun f => f) Hg (proj1 Ht) Hlc (fun f => f) Hr).
Qed.

(* derived facts *)
Lemma slot_unique : forall s D i j u, Inv s D -> slot s i u -> slot s j u -> i = j.
Proof.
  intros s D i j u H Hi Hj.
  destruct (I_slot s D H i u Hi) as (U & r & Hg & Hs & _).
  destruct (I_slot s D H j u Hj) as (U' & r' & Hg' & Hs' & _).
  rewrite Hg in Hg'. inversion Hg'; subst U'. lia.
Qed.
Lemma liv_slot : forall s D u U, Inv s D -> liv s u -> get_unit s u = Some U ->
  slot s (Z.to_nat (sidx U)) u /\ (0 <= sidx U)%Z.
Proof.
  intros s D u U H [i Hi] Hg. destruct (I_slot s D H i u Hi) as (U' & r & Hg' & Hs & _).
  rewrite Hg in Hg'. inversion Hg'; subst U'. rewrite Hs, Nat2Z.id. split; [exact Hi | lia].
Qed.
Lemma liv_get : forall s D u, Inv s D -> liv s u -> exists U r, get_unit s u = Some U /\ dref U = Some r.
Proof. intros s D u H [i Hi]. destruct (I_slot s D H i u Hi) as (U & r & Hg & _ & Hr). eauto. Qed.
Lemma slot_lt : forall s i u, slot s i u -> i < List.length (children s).
Proof. intros s i u H. apply nth_error_Some. unfold slot in H. congruence. Qed.

(* ================================================================== Part C: atomic steps *)
Lemma unit_ok_pure_isugen : forall U, unit_ok U = true -> pure U = true -> isugen U = true.
Proof. intros U H Hp. unfold unit_ok in H. rewrite Hp in H. apply andb_true_iff in H. destruct H as [H _]. exact H. Qed.

(* ---- A0: a live side-effect-free unit without descendants starts being eliminated *)
Lemma step_mark : forall s D u U, Inv s D -> liv s u -> ~ In u D -> get_unit s u = Some U ->
  pure U = true -> dsetf s U = [] -> Inv s (u :: D).
Proof.
  intros s D u U H Hl Hn Hg Hp Hd. destruct H. constructor.
  - exact I_rw0.
  - exact I_uid0.
  - exact I_ok0.
  - exact I_ins0.
  - exact I_slot0.
  - exact I_ref0.
  - exact I_refinj0.
  - exact I_refshape0.
  - exact I_rank0.
  - exact I_ch0.
  - intros c C v ch Hc Hnc. apply I_inlive0; auto. intro; apply Hnc; right; auto.
  - intros x X c Hx Hnx HX Hi Hc Hnc. apply I_lower0; auto; intro; [apply Hnx | apply Hnc]; right; auto.
  - intros x X c Hx Hnx. apply I_upper0; auto. intro; apply Hnx; right; auto.
  - intros y [<-|Hy].
    + split; [exact Hl|]. split; [exists U; auto|].
      intros c Hc Hnc Hr.
      assert (Hin : In c (dsetf s U)).
      { apply (I_lower0 u U c); auto.
        - eapply unit_ok_pure_isugen; eauto.
        - intro; apply Hnc; right; auto. }
      rewrite Hd in Hin. contradiction.
    + destruct (I_dying0 y Hy) as (A & B & C). split; [exact A|]. split; [exact B|].
      intros c Hc Hnc. apply C; auto. intro; apply Hnc; right; auto.
Qed.

(* ---- A1: a unit that is being eliminated is discarded from a descendant set *)
Lemma dsetf_put_set : forall s r l X, r < List.length (sets s) ->
  dsetf (put_set s r l) X = match dref X with Some r' => if Nat.eqb r' r then l else get_set s r' | None => [] end.
Proof.
  intros s r l X Hr. unfold dsetf. destruct (dref X) as [r'|]; auto.
  destruct (Nat.eqb r' r) eqn:E.
  - apply Nat.eqb_eq in E; subst. apply get_set_put_same; auto.
  - apply Nat.eqb_neq in E. apply get_set_put_other; auto.
Qed.

Lemma step_discard : forall s D u r, Inv s D -> In u D -> r < List.length (sets s) ->
  Inv (put_set s r (set_discard u (get_set s r))) D.
Proof.
  intros s D u r H Hu Hr. destruct H.
  set (s' := put_set s r (set_discard u (get_set s r))).
  assert (Hget : forall x, get_unit s' x = get_unit s x) by reflexivity.
  assert (Hch : children s' = children s) by reflexivity.
  assert (Hliv : forall x, liv s' x <-> liv s x) by (intro; unfold liv, slot; rewrite Hch; tauto).
  assert (Hreads : forall c v, reads s' c v <-> reads s c v) by (intros; unfold reads; tauto).
  assert (Hsub : forall X c, In c (dsetf s' X) -> In c (dsetf s X)).
  { intros X c. unfold s'. rewrite dsetf_put_set; auto. unfold dsetf. destruct (dref X) as [r'|]; auto.
    destruct (Nat.eqb r' r) eqn:E; auto. apply Nat.eqb_eq in E; subst. rewrite In_set_discard. tauto. }
  assert (Hsup : forall X c, c <> u -> In c (dsetf s X) -> In c (dsetf s' X)).
  { intros X c Hc. unfold s'. rewrite dsetf_put_set; auto. unfold dsetf. destruct (dref X) as [r'|]; auto.
    destruct (Nat.eqb r' r) eqn:E; auto. apply Nat.eqb_eq in E; subst. rewrite In_set_discard. tauto. }
  constructor.
  - exact I_rw0.
  - exact I_uid0.
  - exact I_ok0.
  - exact I_ins0.
  - exact I_slot0.
  - intros x U r0 Hg Hd. destruct (I_ref0 x U r0 Hg Hd). split; auto. unfold s'. rewrite sets_put_length. auto.
  - intros a b U V r0 Ha Hb HU HV. apply (I_refinj0 a b U V r0); auto; apply Hliv; auto.
  - exact I_refshape0.
  - exact I_rank0.
  - exact I_ch0.
  - intros c C v ch Hc Hn Hg Hi. apply Hliv. eapply I_inlive0; eauto; try (apply Hliv; auto).
  - intros x X c Hx Hnx Hg Hi Hc Hnc Hrd. apply Hsup.
    + intro; subst. contradiction.
    + apply (I_lower0 x X c); auto; try (apply Hliv; auto); try (apply Hreads; auto).
  - intros x X c Hx Hnx Hg Ht Hc. destruct (I_upper0 x X c) as [A B]; auto.
  - intros y Hy. destruct (I_dying0 y Hy) as (A & (Y & HY & Hd & Hp) & C). split; [apply Hliv; auto|]. split.
    + exists Y. split; auto. split; auto.
      destruct (dsetf s' Y) as [|c t] eqn:E; auto.
      assert (In c (dsetf s Y)) by (apply Hsub; rewrite E; left; auto). rewrite Hd in H. contradiction.
    + intros c Hc Hnc Hrd. apply (C c); auto.
Qed.

(* ---- A2: the eliminated unit leaves the graph (SynthDef._remove_ugen) *)
Lemma slot_upd_iff : forall s k v i x, k < List.length (children s) ->
  slot (with_children s (upd (children s) k v)) i x <-> (i = k /\ v = Some x) \/ (i <> k /\ slot s i x).
Proof.
  intros s k v i x Hk. unfold slot; simpl. destruct (Nat.eq_dec i k) as [->|Hne].
  - rewrite nth_error_upd_same; auto. split.
    + intro H; inversion H; auto.
    + intros [[_ ->]|[H _]]; auto. congruence.
  - rewrite nth_error_upd_other; auto. split; [auto|]. intros [[H _]|[_ H]]; auto. congruence.
Qed.

Lemma remove_ugen_eq : forall s D u U, Inv s D -> liv s u -> get_unit s u = Some U ->
  remove_ugen s u = with_children s (upd (children s) (Z.to_nat (sidx U)) None)
  /\ slot s (Z.to_nat (sidx U)) u.
Proof.
  intros s D u U H Hl Hg. destruct (liv_slot s D u U H Hl Hg) as [Hs H0].
  split; auto. unfold remove_ugen. rewrite Hg. apply set_child_in.
  pose proof (slot_lt _ _ _ Hs). lia.
Qed.

Lemma liv_after_remove : forall s D u U x, Inv s D -> liv s u -> get_unit s u = Some U ->
  (liv (remove_ugen s u) x <-> liv s x /\ x <> u).
Proof.
  intros s D u U x H Hl Hg. destruct (remove_ugen_eq s D u U H Hl Hg) as [-> Hs].
  pose proof (slot_lt _ _ _ Hs) as Hk. unfold liv. split.
  - intros [i Hi]. apply slot_upd_iff in Hi; auto. destruct Hi as [[_ Hx]|[Hne Hi]]; [discriminate|].
    split; [eauto|]. intro; subst x. apply Hne. eapply slot_unique; eauto.
  - intros [[i Hi] Hne]. exists i. apply slot_upd_iff; auto. right. split; auto.
    intro; subst i. unfold slot in *. rewrite Hs in Hi. inversion Hi. congruence.
Qed.

Lemma in_remove_iff : forall (u y : nat) D, In y (remove Nat.eq_dec u D) <-> In y D /\ y <> u.
Proof. intros. split; [apply in_remove | intros [A B]; apply in_in_remove; auto]. Qed.

Lemma step_remove : forall s D u, Inv s D -> In u D ->
  (forall x X, liv s x -> ~ In x D -> get_unit s x = Some X -> tracked X = true -> ~ In u (dsetf s X)) ->
  Inv (remove_ugen s u) (remove Nat.eq_dec u D).
Proof.
  intros s D u H Hu Hclean. pose proof H as HI. destruct H.
  destruct (I_dying0 u Hu) as (Hlu & (U & HU & HdU & HpU) & HnoR).
  destruct (remove_ugen_eq s D u U HI Hlu HU) as [Heq Hslot].
  pose proof (liv_after_remove s D u U) as Hliv. specialize (fun x => Hliv x HI Hlu HU).
  set (s' := remove_ugen s u) in *.
  assert (Hget : forall x, get_unit s' x = get_unit s x) by (intro; rewrite Heq; reflexivity).
  assert (Hsets : forall X, dsetf s' X = dsetf s X) by (intro; rewrite Heq; reflexivity).
  assert (Hreads : forall c v, reads s' c v <-> reads s c v).
  { intros. unfold reads. split; intros (C & ch & A & B); exists C, ch; split; auto; [rewrite <- Hget|rewrite Hget]; auto. }
  assert (HD : forall y, ~ In y (remove Nat.eq_dec u D) -> y <> u -> ~ In y D).
  { intros y A B C. apply A. apply in_remove_iff; auto. }
  constructor.
  - rewrite Heq; exact I_rw0.
  - intros x X A. rewrite Hget in A. apply I_uid0; auto.
  - intros x X A. rewrite Hget in A. eapply I_ok0; eauto.
  - intros x X v ch A B. rewrite Hget in A. rewrite Heq; simpl. eapply I_ins0; eauto.
  - intros i x A. rewrite Heq in A. apply slot_upd_iff in A; [|eapply slot_lt; eauto].
    destruct A as [[_ A]|[_ A]]; [discriminate|]. destruct (I_slot0 i x A) as (X & r & B & C & E).
    exists X, r. rewrite Hget. auto.
  - intros x X r A B. rewrite Hget in A. destruct (I_ref0 x X r A B) as [C E]. rewrite Heq; simpl.
    rewrite upd_length. auto.
  - intros a b A B r La Lb Ga Gb. rewrite Hget in Ga, Gb. apply (I_refinj0 a b A B r); auto; [apply Hliv in La | apply Hliv in Lb]; tauto.
  - intros a b A B r Ga Gb. rewrite Hget in Ga, Gb. eapply I_refshape0; eauto.
  - intros x X v ch A B C. rewrite Hget in A. destruct (I_rank0 x X v ch A B C) as (V & E & F & G).
    exists V. rewrite Hget. auto.
  - intros x X v ch V A B C E. rewrite Hget in A, C. exact (I_ch0 x X v ch V A B C E).
  - intros c C v ch Lc Nc Gc Hin. rewrite Hget in Gc. apply Hliv in Lc. destruct Lc as [Lc Nu].
    pose proof (HD c Nc Nu) as NcD.
    apply Hliv. split; [eapply I_inlive0; eauto|].
    intro; subst v. apply (HnoR c Lc NcD). exists C, ch. auto.
  - intros x X c Lx Nx Gx Ix Lc Nc Hr. rewrite Hget in Gx. rewrite Hsets.
    apply Hliv in Lx. apply Hliv in Lc. destruct Lx as [Lx Nxu]. destruct Lc as [Lc Ncu].
    apply (I_lower0 x X c); auto. apply Hreads; auto.
  - intros x X c Lx Nx Gx Tx Hin. rewrite Hget in Gx. rewrite Hsets in Hin.
    apply Hliv in Lx. destruct Lx as [Lx Nxu].
    destruct (I_upper0 x X c Lx (HD x Nx Nxu) Gx Tx Hin) as [Lc Rc].
    split; [|apply Hreads; auto]. apply Hliv. split; auto.
    intro; subst c. exact (Hclean x X Lx (HD x Nx Nxu) Gx Tx Hin).
  - intros y Hy. apply in_remove_iff in Hy. destruct Hy as [Hy Nyu].
    destruct (I_dying0 y Hy) as (Ly & (Y & GY & DY & PY) & NR).
    split; [apply Hliv; auto|]. split.
    + exists Y. rewrite Hget, Hsets. auto.
    + intros c Lc Nc Hr. apply Hliv in Lc. destruct Lc as [Lc Ncu]. apply (NR c Lc (HD c Nc Ncu)). apply Hreads; auto.
Qed.

(* ================================================================== Part D: the rewrite step *)
Definition subst_in (a b : nat) (i : inp) : inp :=
  match i with O u ch => if Nat.eqb u a then O b ch else i | _ => i end.
Definition map_ins (a b : nat) (U : unit) : unit := set_ins U (map (subst_in a b) (ins U)).
Definition rep_step (a b : nat) (s0 : st) (c : nat) : st :=
  match get_unit s0 c with Some C => put_unit s0 (map_ins a b C) | None => s0 end.
Definition uid_ok (s : st) : Prop := forall u U, get_unit s u = Some U -> uid U = u.

Lemma subst_in_idem : forall a b i, a <> b -> subst_in a b (subst_in a b i) = subst_in a b i.
Proof.
  intros a b [q|u ch] H; simpl; auto. destruct (Nat.eqb u a) eqn:E; simpl.
  - destruct (Nat.eqb b a); auto.
  - rewrite E. auto.
Qed.
Lemma map_ins_idem : forall a b U, a <> b -> map_ins a b (map_ins a b U) = map_ins a b U.
Proof.
  intros a b U H. unfold map_ins, set_ins; simpl. f_equal. rewrite map_map. apply map_ext. intro; apply subst_in_idem; auto.
Qed.

Lemma fold_rep_spec : forall a b l s0, a <> b -> uid_ok s0 ->
  let sf := fold_left (rep_step a b) l s0 in
  uid_ok sf /\ children sf = children s0 /\ sets sf = sets s0 /\ rewriting sf = rewriting s0 /\
  List.length (units sf) = List.length (units s0) /\
  forall c, get_unit sf c = match get_unit s0 c with
                            | Some C => Some (if mem c l then map_ins a b C else C)
                            | None => None end.
Proof.
  intros a b l. induction l as [|c0 t IH]; intros s0 Hab Hu; simpl.
  - repeat split; auto. intro c. destruct (get_unit s0 c); auto.
  - set (s1 := rep_step a b s0 c0).
    assert (H1 : uid_ok s1 /\ children s1 = children s0 /\ sets s1 = sets s0 /\ rewriting s1 = rewriting s0 /\
                 List.length (units s1) = List.length (units s0) /\
                 forall c, get_unit s1 c = match get_unit s0 c with
                                           | Some C => Some (if Nat.eqb c c0 then map_ins a b C else C)
                                           | None => None end).
    { unfold s1, rep_step. destruct (get_unit s0 c0) as [C0|] eqn:E0.
      - pose proof (Hu c0 C0 E0) as Hid.
        assert (Hid' : uid (map_ins a b C0) = c0) by (unfold map_ins, set_ins; simpl; auto).
        assert (Hget : forall c, get_unit (put_unit s0 (map_ins a b C0)) c =
                                 if Nat.eqb c c0 then Some (map_ins a b C0) else get_unit s0 c).
        { intro c. destruct (Nat.eqb c c0) eqn:E.
          - apply Nat.eqb_eq in E; subst c. rewrite <- Hid'. apply get_put_same. rewrite Hid'. eapply get_lt; eauto.
          - apply Nat.eqb_neq in E. apply get_put_other. rewrite Hid'. auto. }
        split; [|split; [reflexivity|split; [reflexivity|split; [reflexivity|split; [apply units_put_length|]]]]].
        + intros c C Hc. rewrite Hget in Hc. destruct (Nat.eqb c c0) eqn:E.
          * apply Nat.eqb_eq in E; subst. inversion Hc; subst. auto.
          * apply Hu; auto.
        + intro c. rewrite Hget. destruct (Nat.eqb c c0) eqn:E.
          * apply Nat.eqb_eq in E; subst. rewrite E0. auto.
          * destruct (get_unit s0 c); auto.
      - repeat split; auto. intro c. destruct (get_unit s0 c) eqn:E; auto.
        destruct (Nat.eqb c c0) eqn:E2; auto. apply Nat.eqb_eq in E2; subst. congruence. }
    destruct H1 as (U1 & C1 & S1 & R1 & L1 & G1).
    destruct (IH s1 Hab U1) as (U2 & C2 & S2 & R2 & L2 & G2).
    split; [exact U2|]. split; [congruence|]. split; [congruence|]. split; [congruence|]. split; [congruence|].
    intro c. rewrite G2, G1. destruct (get_unit s0 c) as [C|]; auto. f_equal.
    destruct (Nat.eqb c c0) eqn:E; simpl; auto.
    destruct (mem c t); auto. apply map_ins_idem; auto.
Qed.

(* ---- _optimize_update_descendants *)
Definition touchedb (s : st) (l : list inp) (ref : nat) : bool :=
  existsb (fun i => match i with
                    | O u _ => match get_unit s u with
                               | Some V => isugen V && match dref V with Some r => Nat.eqb r ref | None => false end
                               | None => false end
                    | K _ => false end) l.

Definition inputs_ok (s : st) (l : list inp) : Prop :=
  forall u ch, In (O u ch) l -> exists V, get_unit s u = Some V /\
    (isugen V = true -> exists r, dref V = Some r /\ r < List.length (sets s)).

Lemma udl_spec : forall self repl del l s, inputs_ok s l ->
  let sf := update_desc_loop s self repl del l in
  units sf = units s /\ children sf = children s /\ rewriting sf = rewriting s /\
  List.length (sets sf) = List.length (sets s) /\
  forall ref m, In m (get_set sf ref) <->
     if touchedb s l ref then ((m = repl \/ In m (get_set s ref)) /\ m <> self /\ m <> del)
     else In m (get_set s ref).
Proof.
  intros self repl del l. induction l as [|i t IH]; intros s Hok; simpl.
  - repeat split; auto.
  - assert (Hok' : inputs_ok s t) by (intros u ch H; apply (Hok u ch); right; auto).
    destruct i as [q|u ch].
    + destruct (IH s Hok') as (A & B & C & E & F). repeat split; auto; apply F.
    + destruct (Hok u ch (or_introl eq_refl)) as (V & HV & HD). rewrite HV.
      destruct (isugen V) eqn:Ei.
      * destruct (HD eq_refl) as (r & Hr & Hlt). rewrite Hr. simpl.
        set (d := set_discard del (set_discard self (set_add repl (get_set s r)))).
        set (s1 := put_set s r d).
        assert (Hok1 : inputs_ok s1 t).
        { intros u' ch' H. destruct (Hok' u' ch' H) as (V' & A & B). exists V'. split; auto.
          intro X. destruct (B X) as (r' & P & Q). exists r'. split; auto. unfold s1. rewrite sets_put_length. auto. }
        destruct (IH s1 Hok1) as (A & B & C & E & F).
        split; [rewrite A; reflexivity|]. split; [rewrite B; reflexivity|]. split; [rewrite C; reflexivity|].
        split; [rewrite E; unfold s1; apply sets_put_length|].
        intros ref m. rewrite F.
        assert (Ht : touchedb s1 t ref = touchedb s t ref) by reflexivity. rewrite Ht.
        destruct (Nat.eqb r ref) eqn:Er.
        -- apply Nat.eqb_eq in Er; subst ref. simpl.
           assert (Hg : get_set s1 r = d) by (apply get_set_put_same; auto). rewrite Hg.
           destruct (touchedb s t r); unfold d; rewrite !In_set_discard, In_set_add; tauto.
        -- apply Nat.eqb_neq in Er. simpl.
           assert (Hg : get_set s1 ref = get_set s ref) by (apply get_set_put_other; auto). rewrite Hg. tauto.
      * simpl. destruct (IH s Hok') as (A & B & C & E & F). repeat split; auto; apply F.
Qed.

(* ---- what a constructor called during the rewrite must deliver: exactly one new object, which reads
   what the absorbed unit read plus the other operand(s) of `self` *)
Record MkSpec (s1 s2 : st) (rv : inp) (Self UA R : unit) : Prop := mkMk {
  MK_rv : rv = O (List.length (units s1)) 0;
  MK_units : units s2 = units s1 ++ [R];
  MK_children : children s2 = children s1;
  MK_sets : sets s2 = sets s1;
  MK_rw : rewriting s2 = rewriting s1;
  MK_uid : uid R = List.length (units s1);
  MK_dref : dref R = None;
  MK_tracked : tracked R = true;
  MK_ok : unit_ok R = true;
  MK_in1 : forall v ch, In (O v ch) (ins R) -> In (O v ch) (ins UA) \/ (In (O v ch) (ins Self) /\ v <> uid UA);
  MK_in2 : forall v ch, In (O v ch) (ins UA) -> In (O v ch) (ins R);
  MK_in3 : forall v ch, In (O v ch) (ins Self) -> v <> uid UA -> In (O v ch) (ins R)
}.

Record RwViews (s : st) (self a r : nat) (Self UA R : unit) (s' : st) : Prop := mkRw {
  V_len : List.length (units s') = S (List.length (units s));
  V_old1 : forall x X, get_unit s x = Some X -> liv s x -> x <> a -> x <> self ->
           get_unit s' x = Some (map_ins self r X);
  V_old2 : forall x X, get_unit s x = Some X -> (~ liv s x \/ x = a \/ x = self) -> get_unit s' x = Some X;
  V_new : get_unit s' r = Some (set_place R (wfa Self) (sidx Self) (dref Self));
  V_children : children s' = upd (upd (children s) (Z.to_nat (sidx UA)) None) (Z.to_nat (sidx Self)) (Some r);
  V_setlen : List.length (sets s') = List.length (sets s);
  V_sets : forall ref m, In m (get_set s' ref) <->
           if touchedb s (ins R) ref then ((m = r \/ In m (get_set s ref)) /\ m <> self /\ m <> a)
           else In m (get_set s ref);
  V_rw : rewriting s' = true
}.

Lemma mem_live : forall s x, mem x (live s) = true <-> liv s x.
Proof. intros. rewrite mem_In. apply live_In. Qed.

Lemma get_app_old : forall s s2 R x, units s2 = units s ++ [R] -> x < List.length (units s) ->
  get_unit s2 x = get_unit s x.
Proof. intros s s2 R x H Hx. unfold get_unit. rewrite H. apply nth_error_app1; auto. Qed.
Lemma get_app_new : forall s s2 R, units s2 = units s ++ [R] -> get_unit s2 (List.length (units s)) = Some R.
Proof. intros s s2 R H. unfold get_unit. rewrite H. rewrite nth_error_app2, Nat.sub_diag; auto. Qed.

Lemma touchedb_ext : forall s s' l ref, (forall u ch, In (O u ch) l -> get_unit s' u = get_unit s u) ->
  touchedb s' l ref = touchedb s l ref.
Proof.
  intros s s' l ref H. unfold touchedb. induction l as [|i t IH]; simpl; auto.
  rewrite IH by (intros; apply (H u ch); right; auto). f_equal.
  destruct i as [q|u ch]; auto. rewrite (H u ch); auto. left; auto.
Qed.

Lemma map_ins_noop : forall a b U, (forall ch, ~ In (O a ch) (ins U)) -> map_ins a b U = set_ins U (ins U).
Proof.
  intros a b U H. unfold map_ins. f_equal.
  rewrite <- (map_id (ins U)) at 2. apply map_ext_in. intros [q|u ch] Hin; simpl; auto.
  destruct (Nat.eqb u a) eqn:E; auto. apply Nat.eqb_eq in E; subst. exfalso. eapply H; eauto.
Qed.
Lemma set_ins_self : forall U, set_ins U (ins U) = U.
Proof. intros []; reflexivity. Qed.

Lemma slot_fun : forall s i u v, slot s i u -> slot s i v -> u = v.
Proof. unfold slot; intros. congruence. Qed.

Lemma absorb_replace_views : forall s D self Self UA mk s2 rv R,
  Inv s D -> get_unit s self = Some Self -> liv s self -> ~ In self D ->
  get_unit s (uid UA) = Some UA -> liv s (uid UA) -> ~ In (uid UA) D -> uid UA <> self ->
  mk (remove_ugen s (uid UA)) = Ok (s2, rv) -> MkSpec (remove_ugen s (uid UA)) s2 rv Self UA R ->
  (forall ch, ~ In (O self ch) (ins R)) ->
  exists s3 s', absorb s Self UA mk = Ok (s3, Some (List.length (units s))) /\
     replace_ugen s3 self (List.length (units s)) = Ok s' /\
     RwViews s self (uid UA) (List.length (units s)) Self UA R s'.
Proof.
  intros s D self Self UA mk s2 rv R HI HS Lself Nself HA La Na Hne Hmk MK Hnoself.
  set (a := uid UA) in *. set (n := List.length (units s)).
  destruct (remove_ugen_eq s D a UA HI La HA) as [Hs1 Hslota].
  destruct (liv_slot s D self Self HI Lself HS) as [Hslots Hpos].
  pose proof (slot_lt _ _ _ Hslota) as Hka. pose proof (slot_lt _ _ _ Hslots) as Hks.
  set (ka := Z.to_nat (sidx UA)) in *. set (ks := Z.to_nat (sidx Self)) in *.
  assert (Hkne : ka <> ks). { intro E. rewrite E in Hslota. apply Hne. eapply slot_fun; eauto. }
  set (s1 := remove_ugen s a) in *.
  assert (Hu1 : units s1 = units s) by (rewrite Hs1; reflexivity).
  assert (Hset1 : sets s1 = sets s) by (rewrite Hs1; reflexivity).
  assert (Hch1 : children s1 = upd (children s) ka None) by (rewrite Hs1; reflexivity).
  assert (Hrw1 : rewriting s1 = true) by (rewrite Hs1; simpl; apply (I_rw s D HI)).
  destruct MK. rewrite Hu1 in MK_rv0, MK_units0, MK_uid0. fold n in MK_rv0, MK_units0, MK_uid0.
  assert (HselfU : uid Self = self) by (apply (I_uid s D HI); auto).
  assert (Hselflt : self < n) by (eapply get_lt; eauto).
  assert (Hmulti : multi R = false) by (apply tracked_flags in MK_tracked0; tauto).
  (* adopt *)
  set (R2 := set_dref R (dref Self)).
  set (s2' := put_unit s2 R2).
  assert (HuidR2 : uid R2 = n) by (unfold R2; simpl; auto).
  assert (Hlen2 : List.length (units s2) = S n) by (rewrite MK_units0, app_length; simpl; unfold n; lia).
  assert (Hg2n : get_unit s2 n = Some R) by (apply get_app_new; auto).
  assert (Hg2'n : get_unit s2' n = Some R2).
  { unfold s2'. rewrite <- HuidR2. apply get_put_same. rewrite HuidR2, Hlen2. lia. }
  assert (Hg2'old : forall x, x < n -> get_unit s2' x = get_unit s x).
  { intros x Hx. unfold s2'. rewrite get_put_other by (rewrite HuidR2; lia).
    rewrite (get_app_old s s2 R x); auto. }
  assert (Hinlive : forall v ch, In (O v ch) (ins R) -> liv s v).
  { intros v ch Hin. destruct (MK_in4 v ch Hin) as [H1|[H1 _]].
    - eapply (I_inlive s D HI a UA); eauto.
    - eapply (I_inlive s D HI self Self); eauto. }
  assert (Hok : inputs_ok s2' (ins R2)).
  { intros v ch Hin. unfold R2 in Hin; simpl in Hin. pose proof (Hinlive v ch Hin) as Lv.
    destruct (liv_get s D v HI Lv) as (V & r & GV & DV).
    pose proof (get_lt _ _ _ GV) as Hv. exists V. split; [rewrite Hg2'old; auto|].
    intros _. exists r. split; auto. destruct (I_ref s D HI v V r GV DV) as [Hr _].
    unfold s2'; simpl. rewrite MK_sets0, Hset1. auto. }
  pose proof (udl_spec self n a (ins R2) s2' Hok) as Hudl. cbv zeta in Hudl.
  set (s3 := update_desc_loop s2' self n a (ins R2)) in *.
  destruct Hudl as (Hu3 & Hc3 & Hrw3 & Hsl3 & Hset3).
  assert (Habsorb : absorb s Self UA mk = Ok (s3, Some n)).
  { unfold absorb. fold a. fold s1. rewrite Hmk. cbn [bind]. rewrite MK_rv0. unfold adopt.
    rewrite Hg2n, Hmulti. fold R2. fold s2'. unfold update_desc. rewrite Hg2'n. rewrite HselfU. reflexivity. }
  (* replace *)
  assert (Hg3 : forall x, get_unit s3 x = get_unit s2' x) by (intro; unfold get_unit; rewrite Hu3; auto).
  set (R3 := set_place R (wfa Self) (sidx Self) (dref Self)).
  assert (HR3 : set_place R2 (wfa Self) (sidx Self) (dref Self) = R3) by reflexivity.
  set (s4 := put_unit s3 R3).
  assert (HuidR3 : uid R3 = n) by (unfold R3; simpl; auto).
  assert (Hlen3 : List.length (units s3) = S n) by (rewrite Hu3; unfold s2'; rewrite units_put_length; auto).
  assert (Hg4n : get_unit s4 n = Some R3).
  { unfold s4. rewrite <- HuidR3. apply get_put_same. rewrite HuidR3, Hlen3. lia. }
  assert (Hg4old : forall x, x < n -> get_unit s4 x = get_unit s x).
  { intros x Hx. unfold s4. rewrite get_put_other by (rewrite HuidR3; lia). rewrite Hg3. auto. }
  assert (Hch4 : children s4 = upd (children s) ka None).
  { unfold s4; simpl. rewrite Hc3. unfold s2'; simpl. rewrite MK_children0. auto. }
  assert (Hrange : (0 <= sidx Self < Z.of_nat (List.length (children s4)))%Z).
  { rewrite Hch4, upd_length. fold ks in Hks. unfold ks in Hks. lia. }
  set (s5 := set_child s4 (sidx Self) (Some n)).
  assert (Hs5 : s5 = with_children s4 (upd (children s4) ks (Some n))) by (apply set_child_in; auto).
  assert (Hch5 : children s5 = upd (upd (children s) ka None) ks (Some n)) by (rewrite Hs5; unfold with_children; cbn [children]; rewrite Hch4; auto).
  assert (Hg5 : forall x, get_unit s5 x = get_unit s4 x) by (intro; rewrite Hs5; reflexivity).
  assert (Huid5 : uid_ok s5).
  { intros x X Hx. rewrite Hg5 in Hx. destruct (Nat.lt_ge_cases x n) as [Hlt|Hge].
    - rewrite Hg4old in Hx; auto. apply (I_uid s D HI); auto.
    - pose proof (get_lt _ _ _ Hx) as Hb. unfold s4 in Hb. rewrite units_put_length, Hlen3 in Hb.
      assert (x = n) by lia. subst x. rewrite Hg4n in Hx. inversion Hx; subst; auto. }
  assert (Hsn : self <> n) by lia.
  pose proof (fold_rep_spec self n (live s5) s5 Hsn Huid5) as Hfold. cbv zeta in Hfold.
  set (s' := fold_left (rep_step self n) (live s5) s5) in *.
  destruct Hfold as (Hu' & Hc' & Hs' & Hrw' & Hl' & Hg').
  assert (Hreplace : replace_ugen s3 self n = Ok s').
  { unfold replace_ugen. rewrite Hg3, (Hg2'old self Hselflt), HS. rewrite Hg3, Hg2'n. rewrite HR3. reflexivity. }
  (* liveness in s5 *)
  assert (Hliv5 : forall x, liv s5 x <-> (x = n \/ (liv s x /\ x <> a /\ x <> self))).
  { intro x. unfold liv. split.
    - intros [i Hi]. unfold slot in Hi. rewrite Hch5 in Hi.
      destruct (Nat.eq_dec i ks) as [->|Hi1].
      + rewrite nth_error_upd_same in Hi by (rewrite upd_length; auto). inversion Hi. auto.
      + rewrite nth_error_upd_other in Hi by auto.
        destruct (Nat.eq_dec i ka) as [->|Hi2].
        * rewrite nth_error_upd_same in Hi by auto. discriminate.
        * rewrite nth_error_upd_other in Hi by auto. right. split; [exists i; exact Hi|]. split; intro; subst x.
          -- apply Hi2. eapply slot_unique; eauto.
          -- apply Hi1. eapply slot_unique; eauto.
    - intros [->|[[i Hi] [Hxa Hxs]]].
      + exists ks. unfold slot. rewrite Hch5. apply nth_error_upd_same. rewrite upd_length; auto.
      + exists i. unfold slot. rewrite Hch5.
        assert (i <> ks) by (intro; subst i; apply Hxs; eapply slot_fun; eauto).
        assert (i <> ka) by (intro; subst i; apply Hxa; eapply slot_fun; eauto).
        rewrite !nth_error_upd_other by auto. exact Hi. }
  exists s3, s'. split; [exact Habsorb|]. split; [exact Hreplace|]. constructor.
  - rewrite Hl', Hs5. unfold with_children; cbn [units]. unfold s4. rewrite units_put_length. exact Hlen3.
  - intros x X GX Lx Hxa Hxs. pose proof (get_lt _ _ _ GX) as Hx. fold n in Hx.
    rewrite Hg', Hg5, (Hg4old x Hx), GX.
    assert (E : mem x (live s5) = true) by (apply mem_live, Hliv5; right; auto). rewrite E. reflexivity.
  - intros x X GX Hcase. pose proof (get_lt _ _ _ GX) as Hx. fold n in Hx.
    rewrite Hg', Hg5, (Hg4old x Hx), GX.
    destruct (mem x (live s5)) eqn:E; auto. apply mem_live, Hliv5 in E.
    destruct E as [->|[L [N1 N2]]]; [lia|]. exfalso. destruct Hcase as [H|[H|H]]; auto.
  - rewrite Hg', Hg5, Hg4n.
    assert (Hno : forall ch, ~ In (O self ch) (ins R3)) by (intros ch; unfold R3; simpl; apply Hnoself).
    rewrite (map_ins_noop self n R3 Hno), set_ins_self. destruct (mem n (live s5)); reflexivity.
  - rewrite Hc'. exact Hch5.
  - rewrite Hs', Hs5. simpl. unfold s4; simpl. rewrite Hsl3. unfold s2'; simpl. rewrite MK_sets0, Hset1. reflexivity.
  - intros ref m.
    assert (E1 : get_set s' ref = get_set s3 ref).
    { unfold get_set. rewrite Hs', Hs5. reflexivity. }
    rewrite E1, Hset3.
    assert (E2 : touchedb s2' (ins R2) ref = touchedb s (ins R) ref).
    { unfold R2; simpl. apply touchedb_ext. intros u ch Hin. apply Hg2'old.
      pose proof (Hinlive u ch Hin) as Lu. destruct (liv_get s D u HI Lu) as (V & r & GV & _). eapply get_lt; eauto. }
    rewrite E2.
    assert (E3 : get_set s2' ref = get_set s ref).
    { unfold get_set, s2'; simpl. rewrite MK_sets0, Hset1. reflexivity. }
    rewrite E3. reflexivity.
  - rewrite Hrw', Hs5. simpl. unfold s4; simpl. rewrite Hrw3. unfold s2'; simpl. rewrite MK_rw0. exact Hrw1.
Qed.

(* ---- the invariant survives a rewrite *)
Lemma In_map_subst : forall a b v ch l,
  In (O v ch) (map (subst_in a b) l) <-> (v <> a /\ In (O v ch) l) \/ (v = b /\ In (O a ch) l).
Proof.
  intros a b v ch l. rewrite in_map_iff. split.
  - intros [[q|u c] [E Hin]]; simpl in E; [discriminate|].
    destruct (Nat.eqb u a) eqn:Eu.
    + apply Nat.eqb_eq in Eu; subst u. inversion E; subst. right; auto.
    + apply Nat.eqb_neq in Eu. inversion E; subst. left; auto.
  - intros [[Hne Hin]|[-> Hin]].
    + exists (O v ch). split; auto. simpl. apply Nat.eqb_neq in Hne. rewrite Hne. auto.
    + exists (O a ch). split; auto. simpl. rewrite Nat.eqb_refl. auto.
Qed.

Lemma kis_subst : forall a b i z, kis (subst_in a b i) z = kis i z.
Proof. intros a b [q|u ch] z; simpl; auto. destruct (Nat.eqb u a); auto. Qed.
Arguments subst_in : simpl never.
Lemma unit_ok_map_ins : forall a b U, unit_ok U = true -> unit_ok (map_ins a b U) = true.
Proof.
  intros a b U H. unfold unit_ok in *. unfold map_ins, set_ins; simpl. unfold tracked in *; simpl.
  destruct (implb (pure U) (isugen U)); [|discriminate]. simpl in *.
  destruct (ukind U).
  - exact H.
  - destruct (isugen U && negb (multi U) && negb (iswf U) && pure U); [|discriminate]. simpl in *.
    destruct (ins U) as [|[q|u ch] [|y t]]; simpl; try discriminate. unfold subst_in. destruct (Nat.eqb u a); auto.
  - destruct (isugen U && negb (multi U) && negb (iswf U) && pure U); [|discriminate]. simpl in *.
    destruct (ins U) as [|x [|y [|z t]]]; simpl; try discriminate.
    unfold nz in *. rewrite !kis_subst. exact H.
  - rewrite map_length. exact H.
  - rewrite map_length.
    destruct (isugen U && negb (multi U) && negb (iswf U) && negb (pure U) && Nat.eqb (List.length (ins U)) 3); [|discriminate].
    simpl in *. apply andb_true_iff in H. destruct H as [H1 H2]. rewrite H2, andb_true_r.
    rewrite forallb_forall in *. intros x Hx. apply in_map_iff in Hx. destruct Hx as [i [<- Hi]].
    unfold nz. rewrite kis_subst. apply H1; auto.
  - rewrite map_length. exact H.
  - exact H.
  - exact H.
Qed.

Lemma no_members_nil : forall (l : list nat), (forall m, ~ In m l) -> l = [].
Proof. intros [|x t] H; auto. exfalso. apply (H x). left; auto. Qed.

Lemma touchedb_true : forall s l ref, touchedb s l ref = true <->
  exists u ch V, In (O u ch) l /\ get_unit s u = Some V /\ isugen V = true /\ dref V = Some ref.
Proof.
  intros s l ref. unfold touchedb. rewrite existsb_exists. split.
  - intros [[q|u ch] [Hin H]]; [discriminate|]. destruct (get_unit s u) as [V|] eqn:E; [|discriminate].
    apply andb_true_iff in H. destruct H as [H1 H2]. destruct (dref V) as [r|] eqn:Er; [|discriminate].
    apply Nat.eqb_eq in H2; subst. exists u, ch, V. auto.
  - intros (u & ch & V & Hin & HV & Hi & Hd). exists (O u ch). split; auto. rewrite HV, Hi, Hd, Nat.eqb_refl. auto.
Qed.

Definition same_meta (X X' : unit) : Prop :=
  uid X' = uid X /\ dref X' = dref X /\ sidx X' = sidx X /\ wfa X' = wfa X /\ tracked X' = tracked X /\
  isugen X' = isugen X /\ dcevis X' = dcevis X /\ pure X' = pure X /\ ukind X' = ukind X /\ opname X' = opname X /\
  multi X' = multi X /\ iswf X' = iswf X /\ tag X' = tag X /\ cls X' = cls X /\ urate X' = urate X /\
  nouts X' = nouts X /\ special X' = special X /\ uchk X' = uchk X.
Lemma same_meta_refl : forall X, same_meta X X.
Proof. intro X. unfold same_meta. repeat split; auto. Qed.
Lemma same_meta_map_ins : forall a b X, same_meta X (map_ins a b X).
Proof. intros a b X. unfold same_meta, map_ins, set_ins, tracked, dcevis; simpl. repeat split; auto. Qed.
Lemma same_meta_trans : forall X Y Z, same_meta X Y -> same_meta Y Z -> same_meta X Z.
Proof. unfold same_meta. intros X Y Z H1 H2. intuition congruence. Qed.

Section RewriteInv.
Variables (s : st) (D : list nat) (self a : nat) (Self UA R : unit) (s' : st).
Let n := List.length (units s).
Hypothesis HI : Inv s D.
Hypothesis HS : get_unit s self = Some Self.
Hypothesis Ls : liv s self.
Hypothesis Ns : ~ In self D.
Hypothesis TS : tracked Self = true.
Hypothesis HA : get_unit s a = Some UA.
Hypothesis La : liv s a.
Hypothesis Na : ~ In a D.
Hypothesis TA : tracked UA = true.
Hypothesis Hra : exists ch, In (O a ch) (ins Self).
Hypothesis Hone : forall c, In c (dsetf s UA) -> c = self.
Hypothesis HuR : uid R = n.
Hypothesis TR : tracked R = true.
Hypothesis OkR : unit_ok R = true.
Hypothesis In1 : forall v ch, In (O v ch) (ins R) -> In (O v ch) (ins UA) \/ (In (O v ch) (ins Self) /\ v <> a).
Hypothesis In2 : forall v ch, In (O v ch) (ins UA) -> In (O v ch) (ins R).
Hypothesis In3 : forall v ch, In (O v ch) (ins Self) -> v <> a -> In (O v ch) (ins R).
Hypothesis RV : RwViews s self a n Self UA R s'.

Let R3 := set_place R (wfa Self) (sidx Self) (dref Self).

Lemma rw_drefS : exists rs, dref Self = Some rs.
Proof. destruct (liv_get s D self HI Ls) as (X & r & G & E). rewrite HS in G. injection G as E1; subst X. eauto. Qed.
Lemma rw_drefA : exists ra, dref UA = Some ra.
Proof. destruct (liv_get s D a HI La) as (X & r & G & E). rewrite HA in G. injection G as E1; subst X. eauto. Qed.

Lemma rw_rank_sa : (sidx UA < sidx Self)%Z.
Proof.
  destruct Hra as [ch Hin]. destruct rw_drefS as [rs Hrs].
  destruct (I_rank s D HI self Self a ch HS) as (V & GV & _ & Hlt); auto; [congruence|].
  rewrite HA in GV. injection GV as E1; subst V. exact Hlt.
Qed.
Lemma rw_ne : a <> self.
Proof. intro E. pose proof rw_rank_sa as H. pose proof HA as HA'. rewrite E, HS in HA'. injection HA' as E2. rewrite E2 in H. lia. Qed.

Lemma rw_noself : forall ch, ~ In (O self ch) (ins R).
Proof.
  intros ch Hin. destruct rw_drefS as [rs Hrs]. destruct rw_drefA as [ra Hra'].
  destruct (In1 self ch Hin) as [H|[H _]].
  - destruct (I_rank s D HI a UA self ch HA) as (V & GV & _ & Hlt); auto; [congruence|].
    rewrite HS in GV. injection GV as E1; subst V. pose proof rw_rank_sa. lia.
  - destruct (I_rank s D HI self Self self ch HS) as (V & GV & _ & Hlt); auto; [congruence|].
    rewrite HS in GV. injection GV as E1; subst V. lia.
Qed.
Lemma rw_noa : forall ch, ~ In (O a ch) (ins R).
Proof.
  intros ch Hin. destruct rw_drefA as [ra Hra'].
  destruct (In1 a ch Hin) as [H|[_ H]]; [|congruence].
  destruct (I_rank s D HI a UA a ch HA) as (V & GV & _ & Hlt); auto; [congruence|].
  rewrite HA in GV. injection GV as E1; subst V. lia.
Qed.
Lemma rw_inold : forall v ch, In (O v ch) (ins R) -> liv s v /\ v <> a /\ v <> self /\ v < n.
Proof.
  intros v ch Hin.
  assert (L : liv s v).
  { destruct (In1 v ch Hin) as [H|[H _]].
    - eapply (I_inlive s D HI a UA); eauto.
    - eapply (I_inlive s D HI self Self); eauto. }
  split; auto. split; [intro E; rewrite E in Hin; eapply rw_noa; eauto|]. split; [intro E; rewrite E in Hin; eapply rw_noself; eauto|].
  destruct (liv_get s D v HI L) as (V & r & G & _). eapply get_lt; eauto.
Qed.

(* liveness after the rewrite *)
Lemma rw_slots : slot s (Z.to_nat (sidx UA)) a /\ slot s (Z.to_nat (sidx Self)) self /\
                 Z.to_nat (sidx UA) <> Z.to_nat (sidx Self).
Proof.
  destruct (liv_slot s D a UA HI La HA) as [A _]. destruct (liv_slot s D self Self HI Ls HS) as [B _].
  split; auto. split; auto. intro E. rewrite E in A. apply rw_ne. eapply slot_fun; eauto.
Qed.
Lemma rw_slot' : forall i x, slot s' i x <->
  (i = Z.to_nat (sidx Self) /\ x = n) \/ (i <> Z.to_nat (sidx Self) /\ i <> Z.to_nat (sidx UA) /\ slot s i x).
Proof.
  intros i x. destruct rw_slots as (A & B & C). pose proof (slot_lt _ _ _ A). pose proof (slot_lt _ _ _ B).
  unfold slot. rewrite (V_children _ _ _ _ _ _ _ _ RV).
  destruct (Nat.eq_dec i (Z.to_nat (sidx Self))) as [->|N1].
  - rewrite nth_error_upd_same by (rewrite upd_length; auto). split.
    + intro E; inversion E; auto.
    + intros [[_ ->]|[E _]]; auto. congruence.
  - rewrite nth_error_upd_other by auto. destruct (Nat.eq_dec i (Z.to_nat (sidx UA))) as [->|N2].
    + rewrite nth_error_upd_same by auto. split; [discriminate|]. intros [[E _]|[_ [E _]]]; congruence.
    + rewrite nth_error_upd_other by auto. split; [auto|]. intros [[E _]|[_ [_ E]]]; auto. congruence.
Qed.
Lemma rw_liv' : forall x, liv s' x <-> x = n \/ (liv s x /\ x <> a /\ x <> self).
Proof.
  intro x. destruct rw_slots as (A & B & C). unfold liv. split.
  - intros [i Hi]. apply rw_slot' in Hi. destruct Hi as [[_ ->]|(N1 & N2 & Hi)]; auto.
    right. split; [eauto|]. split; intro E; rewrite E in Hi.
    + apply N2. eapply slot_unique; eauto.
    + apply N1. eapply slot_unique; eauto.
  - intros [->|[[i Hi] [N1 N2]]].
    + exists (Z.to_nat (sidx Self)). apply rw_slot'. auto.
    + exists i. apply rw_slot'. right. split; [|split; auto].
      * intro E; rewrite E in Hi. apply N2. eapply slot_fun; eauto.
      * intro E; rewrite E in Hi. apply N1. eapply slot_fun; eauto.
Qed.

(* units after the rewrite *)
Definition rewired (x : nat) : Prop := liv s x /\ x <> a /\ x <> self.
Lemma rewired_dec : forall x, rewired x \/ ~ rewired x.
Proof.
  intro x. unfold rewired. destruct (mem x (live s)) eqn:E.
  - apply mem_live in E. destruct (Nat.eq_dec x a); [right; tauto|]. destruct (Nat.eq_dec x self); [right; tauto|]. left; auto.
  - right. intros [L _]. apply mem_live in L. congruence.
Qed.

Lemma rw_get_old : forall x X, get_unit s x = Some X ->
  exists X', get_unit s' x = Some X' /\ same_meta X X' /\ unit_ok X' = true /\
    (forall v ch, In (O v ch) (ins X') <->
       (rewired x /\ ((v <> self /\ In (O v ch) (ins X)) \/ (v = n /\ In (O self ch) (ins X)))) \/
       (~ rewired x /\ In (O v ch) (ins X))).
Proof.
  intros x X G. pose proof (I_ok s D HI x X G) as Ok. destruct (rewired_dec x) as [Rw|Nrw].
  - destruct Rw as (L & N1 & N2). exists (map_ins self n X).
    split; [apply (V_old1 _ _ _ _ _ _ _ _ RV); auto|]. split; [apply same_meta_map_ins|].
    split; [apply unit_ok_map_ins; auto|].
    intros v ch. unfold map_ins, set_ins; simpl. rewrite In_map_subst. unfold rewired. tauto.
  - exists X. split.
    + apply (V_old2 _ _ _ _ _ _ _ _ RV); auto. unfold rewired in Nrw.
      destruct (mem x (live s)) eqn:E; [apply mem_live in E|left; intro L; apply mem_live in L; congruence].
      destruct (Nat.eq_dec x a); auto. destruct (Nat.eq_dec x self); auto. exfalso; apply Nrw; auto.
    + split; [apply same_meta_refl|]. split; auto. intros; tauto.
Qed.

Lemma rw_get_inv : forall x X', get_unit s' x = Some X' ->
  (x = n /\ X' = R3) \/ (x < n /\ exists X, get_unit s x = Some X).
Proof.
  intros x X' G. pose proof (get_lt _ _ _ G) as Hx. rewrite (V_len _ _ _ _ _ _ _ _ RV) in Hx. fold n in Hx.
  destruct (Nat.eq_dec x n) as [->|Hne].
  - left. split; auto. rewrite (V_new _ _ _ _ _ _ _ _ RV) in G. injection G as E. auto.
  - right. split; [lia|]. apply get_some. fold n. lia.
Qed.

Lemma rw_R3_meta : uid R3 = n /\ dref R3 = dref Self /\ sidx R3 = sidx Self /\ tracked R3 = true /\
                   isugen R3 = true /\ dcevis R3 = true /\ ins R3 = ins R /\ unit_ok R3 = true.
Proof.
  destruct (tracked_flags R TR) as (A & B & C & E). unfold R3, set_place, tracked, dcevis, unit_ok in *; simpl.
  repeat split; auto.
Qed.

(* reads after the rewrite *)
Lemma rw_reads_old : forall c C x, get_unit s c = Some C -> rewired c -> x <> n ->
  (reads s' c x <-> (x <> self /\ reads s c x)).
Proof.
  intros c C x G Rw Hx. destruct (rw_get_old c C G) as (C' & G' & _ & _ & Hin). unfold reads. split.
  - intros (C2 & ch & G2 & I2). rewrite G' in G2. injection G2 as E; subst C2. apply Hin in I2.
    destruct I2 as [[_ [[N I]|[E _]]]|[N _]]; try contradiction.
    split; auto. exists C, ch. auto.
  - intros [N (C2 & ch & G2 & I2)]. rewrite G in G2. injection G2 as E; subst C2.
    exists C', ch. split; auto. apply Hin. left. split; auto.
Qed.
Lemma rw_reads_new : forall c C, get_unit s c = Some C -> rewired c -> (reads s' c n <-> reads s c self).
Proof.
  intros c C G Rw. destruct (rw_get_old c C G) as (C' & G' & _ & _ & Hin). unfold reads. split.
  - intros (C2 & ch & G2 & I2). rewrite G' in G2. injection G2 as E; subst C2. apply Hin in I2.
    destruct I2 as [[_ [[N I]|[_ I]]]|[N _]]; try contradiction.
    + exfalso. pose proof (I_ins s D HI c C n ch G I). unfold n in H. lia.
    + exists C, ch. auto.
  - intros (C2 & ch & G2 & I2). rewrite G in G2. injection G2 as E; subst C2.
    exists C', ch. split; auto. apply Hin. left. split; auto.
Qed.
Lemma rw_reads_R : forall x, reads s' n x <-> exists ch, In (O x ch) (ins R).
Proof.
  intro x. unfold reads. rewrite (V_new _ _ _ _ _ _ _ _ RV). split.
  - intros (C & ch & G & I). injection G as E; subst C. exists ch. exact I.
  - intros [ch I]. exists R3, ch. split; auto.
Qed.

(* descendant sets after the rewrite *)
Lemma rw_touched : forall ref, touchedb s (ins R) ref = true <->
  exists x X ch, In (O x ch) (ins R) /\ get_unit s x = Some X /\ isugen X = true /\ dref X = Some ref.
Proof. intro ref. rewrite touchedb_true. split; intros (u & ch & V & A); [exists u, V, ch | exists u, V, ch]; tauto. Qed.

Lemma rankS : forall v ch, In (O v ch) (ins Self) ->
  exists V, get_unit s v = Some V /\ dref V <> None /\ (sidx V < sidx Self)%Z.
Proof. intros v ch H. destruct rw_drefS as [rs Hrs]. apply (I_rank s D HI self Self v ch HS); auto. congruence. Qed.
Lemma rankA : forall v ch, In (O v ch) (ins UA) ->
  exists V, get_unit s v = Some V /\ dref V <> None /\ (sidx V < sidx UA)%Z.
Proof. intros v ch H. destruct rw_drefA as [ra Hra']. apply (I_rank s D HI a UA v ch HA); auto. congruence. Qed.

Lemma rw_set_untouched : forall ref m, touchedb s (ins R) ref = false ->
  (In m (get_set s' ref) <-> In m (get_set s ref)).
Proof. intros ref m E. rewrite (V_sets _ _ _ _ _ _ _ _ RV), E. tauto. Qed.
Lemma rw_set_touched : forall ref m, touchedb s (ins R) ref = true ->
  (In m (get_set s' ref) <-> ((m = n \/ In m (get_set s ref)) /\ m <> self /\ m <> a)).
Proof. intros ref m E. rewrite (V_sets _ _ _ _ _ _ _ _ RV), E. tauto. Qed.

(* the set of self (now of the replacement) is not touched *)
Lemma rw_self_untouched : forall rs, dref Self = Some rs -> touchedb s (ins R) rs = false.
Proof.
  intros rs E. destruct (touchedb s (ins R) rs) eqn:T; auto. exfalso.
  apply rw_touched in T. destruct T as (x & X & ch & I & G & Iu & Dx).
  destruct (rw_inold x ch I) as (L & _ & N & _). apply N.
  apply (I_refinj s D HI x self X Self rs); auto.
Qed.

Theorem rewrite_inv : Inv s' D.
Proof.
  destruct rw_drefS as [rs Hrs]. destruct rw_drefA as [ra Hra'].
  destruct rw_R3_meta as (M1 & M2 & M3 & M4 & M5 & M6 & M7 & M8).
  pose proof (V_new _ _ _ _ _ _ _ _ RV) as GN. fold R3 in GN.
  destruct (I_ref s D HI self Self rs HS Hrs) as [Hrs_lt Hs_range].
  constructor.
  - (* I_rw *) exact (V_rw _ _ _ _ _ _ _ _ RV).
  - (* I_uid *) intros x X' G. destruct (rw_get_inv x X' G) as [[-> ->]|[_ [X GX]]]; auto.
    destruct (rw_get_old x X GX) as (X2 & G2 & SM & _). rewrite G in G2. injection G2 as E; subst X2.
    destruct SM as (A & _). rewrite A. apply (I_uid s D HI); auto.
  - (* I_ok *) intros x X' G. destruct (rw_get_inv x X' G) as [[-> ->]|[_ [X GX]]]; auto.
    destruct (rw_get_old x X GX) as (X2 & G2 & _ & Ok & _). rewrite G in G2. injection G2 as E; subst X2. auto.
  - (* I_ins *) intros x X' v ch G I. rewrite (V_len _ _ _ _ _ _ _ _ RV). fold n.
    destruct (rw_get_inv x X' G) as [[-> ->]|[_ [X GX]]].
    + rewrite M7 in I. destruct (rw_inold v ch I) as (_ & _ & _ & H). lia.
    + destruct (rw_get_old x X GX) as (X2 & G2 & _ & _ & Hin). rewrite G in G2. injection G2 as E; subst X2.
      apply Hin in I. destruct I as [[_ [[_ I]|[-> _]]]|[_ I]]; try lia;
        pose proof (I_ins s D HI x X v ch GX I) as H; fold n in H; lia.
  - (* I_slot *) intros i x Hs. apply rw_slot' in Hs. destruct Hs as [[-> ->]|(N1 & N2 & Hs)].
    + exists R3, rs. split; auto. split; [rewrite M3; lia|]. rewrite M2; auto.
    + destruct (I_slot s D HI i x Hs) as (X & r & GX & SX & DX).
      destruct (rw_get_old x X GX) as (X' & G' & SM & _). destruct SM as (_ & A & B & _).
      exists X', r. split; auto. split; congruence.
  - (* I_ref *) intros x X' r G Dr. rewrite (V_setlen _ _ _ _ _ _ _ _ RV), (V_children _ _ _ _ _ _ _ _ RV), !upd_length.
    destruct (rw_get_inv x X' G) as [[-> ->]|[_ [X GX]]].
    + rewrite M2 in Dr. rewrite M3. apply (I_ref s D HI self Self r); auto.
    + destruct (rw_get_old x X GX) as (X2 & G2 & SM & _). rewrite G in G2. injection G2 as E; subst X2.
      destruct SM as (_ & A & B & _). rewrite B. apply (I_ref s D HI x X r); auto. congruence.
  - (* I_refinj *) intros u v U' V' r Lu Lv GU GV DU DV.
    apply rw_liv' in Lu. apply rw_liv' in Lv.
    assert (Hcase : forall x X', (x = n \/ rewired x) -> get_unit s' x = Some X' -> dref X' = Some r ->
                    (x = n /\ dref Self = Some r) \/ (rewired x /\ exists X, get_unit s x = Some X /\ dref X = Some r)).
    { intros x X' Hx G Dr. destruct (rw_get_inv x X' G) as [[-> ->]|[Hlt [X GX]]].
      - left. split; [auto|congruence].
      - right. destruct Hx as [->|Rw]; [lia|]. split; auto. exists X. split; auto.
        destruct (rw_get_old x X GX) as (X2 & G2 & SM & _). rewrite G in G2. injection G2 as E; subst X2.
        destruct SM as (_ & A & _). congruence. }
    destruct (Hcase u U' Lu GU DU) as [[-> EU]|[(LU & NU1 & NU2) (U & GU0 & DU0)]];
    destruct (Hcase v V' Lv GV DV) as [[-> EV]|[(LV & NV1 & NV2) (V & GV0 & DV0)]]; auto.
    + exfalso. apply NV2. symmetry. apply (I_refinj s D HI self v Self V r); auto.
    + exfalso. apply NU2. apply (I_refinj s D HI u self U Self r); auto.
    + apply (I_refinj s D HI u v U V r); auto.
  - (* I_refshape *) intros u v U' V' r GU GV DU DV.
    assert (Hcase : forall x X', get_unit s' x = Some X' -> dref X' = Some r ->
              exists y X, get_unit s y = Some X /\ dref X = Some r /\ dcevis X' = dcevis X /\ tracked X' = tracked X).
    { intros x X' G Dr. destruct (rw_get_inv x X' G) as [[-> ->]|[Hlt [X GX]]].
      - exists self, Self. split; auto. split; [congruence|].
        destruct (tracked_flags Self TS) as (_ & _ & _ & E). rewrite M6, M4, E, TS. auto.
      - exists x, X. split; auto. destruct (rw_get_old x X GX) as (X2 & G2 & SM & _). rewrite G in G2. injection G2 as E; subst X2.
        destruct SM as (_ & A & _ & _ & B & _ & C & _). split; [congruence|]. auto. }
    destruct (Hcase u U' GU DU) as (u0 & U & GU0 & DU0 & E1 & E2).
    destruct (Hcase v V' GV DV) as (v0 & V & GV0 & DV0 & E3 & E4).
    destruct (I_refshape s D HI u0 v0 U V r GU0 GV0 DU0 DV0) as [A B]. split; congruence.
  - (* I_rank *) intros x X' v ch G Dn I.
    assert (Hold : forall y Y, get_unit s y = Some Y -> dref Y <> None ->
                   exists Y', get_unit s' y = Some Y' /\ dref Y' <> None /\ sidx Y' = sidx Y).
    { intros y Y GY DY. destruct (rw_get_old y Y GY) as (Y' & G' & SM & _). destruct SM as (_ & A & B & _).
      exists Y'. split; auto. split; congruence. }
    destruct (rw_get_inv x X' G) as [[-> ->]|[Hlt [X GX]]].
    + rewrite M7 in I. rewrite M3.
      destruct (In1 v ch I) as [H|[H _]].
      * destruct (rankA v ch H) as (V & GV & DV & Hlt).
        destruct (Hold v V GV DV) as (V' & A & B & C). exists V'. split; auto. split; auto.
        pose proof rw_rank_sa. lia.
      * destruct (rankS v ch H) as (V & GV & DV & Hlt).
        destruct (Hold v V GV DV) as (V' & A & B & C). exists V'. split; auto. split; auto. lia.
    + destruct (rw_get_old x X GX) as (X2 & G2 & SM & _ & Hin). rewrite G in G2. injection G2 as E; subst X2.
      destruct SM as (_ & A & B & _). rewrite A in Dn. rewrite B.
      apply Hin in I. destruct I as [[_ [[_ I]|[-> I]]]|[_ I]].
      * destruct (I_rank s D HI x X v ch GX Dn I) as (V & GV & DV & Hlt').
        destruct (Hold v V GV DV) as (V' & P & Q & S). exists V'. split; auto. split; auto. lia.
      * destruct (I_rank s D HI x X self ch GX Dn I) as (V & GV & DV & Hlt').
        rewrite HS in GV. injection GV as E; subst V.
        exists R3. split; [exact GN|]. split; [rewrite M2; congruence | rewrite M3; exact Hlt'].
      * destruct (I_rank s D HI x X v ch GX Dn I) as (V & GV & DV & Hlt').
        destruct (Hold v V GV DV) as (V' & P & Q & S). exists V'. split; auto. split; auto. lia.
  - (* I_ch *) intros x X' v ch V' G I GV MV.
    assert (Hold : forall y Y', get_unit s' y = Some Y' -> multi Y' = false -> y <> n ->
                   exists Y, get_unit s y = Some Y /\ multi Y = false).
    { intros y Y' GY MY Ny. destruct (rw_get_inv y Y' GY) as [[-> _]|[_ [Y GY0]]]; [congruence|].
      destruct (rw_get_old y Y GY0) as (Y2 & G2 & SM & _). rewrite GY in G2. injection G2 as E; subst Y2.
      exists Y. split; auto. destruct SM as (_ & _ & _ & _ & _ & _ & _ & _ & _ & _ & A & _). congruence. }
    assert (HchS : forall ch0, In (O self ch0) (ins Self) -> False) by (intros ch0 H0; destruct (rankS self ch0 H0) as (V & GV0 & _ & Hlt); rewrite HS in GV0; injection GV0 as E; subst V; lia).
    destruct (rw_get_inv x X' G) as [[-> ->]|[_ [X GX]]].
    + rewrite M7 in I. destruct (rw_inold v ch I) as (_ & _ & _ & Hv).
      destruct (Hold v V' GV MV) as (V & GV0 & MV0); [unfold n in *; lia|].
      destruct (In1 v ch I) as [H|[H _]].
      * apply (I_ch s D HI a UA v ch V); auto.
      * apply (I_ch s D HI self Self v ch V); auto.
    + destruct (rw_get_old x X GX) as (X2 & G2 & _ & _ & Hin). rewrite G in G2. injection G2 as E; subst X2.
      apply Hin in I. destruct I as [[_ [[_ I]|[-> I]]]|[_ I]].
      * destruct (Nat.eq_dec v n) as [->|Nv].
        -- exfalso. pose proof (I_ins s D HI x X n ch GX I). unfold n in *. lia.
        -- destruct (Hold v V' GV MV Nv) as (V & GV0 & MV0). apply (I_ch s D HI x X v ch V); auto.
      * apply (I_ch s D HI x X self ch Self); auto. apply tracked_flags in TS; tauto.
      * destruct (Nat.eq_dec v n) as [->|Nv].
        -- exfalso. pose proof (I_ins s D HI x X n ch GX I). unfold n in *. lia.
        -- destruct (Hold v V' GV MV Nv) as (V & GV0 & MV0). apply (I_ch s D HI x X v ch V); auto.
  - (* I_inlive *) intros c C' v ch Lc Nc G I. apply rw_liv'. apply rw_liv' in Lc.
    destruct (rw_get_inv c C' G) as [[-> ->]|[Hlt [C GC]]].
    + rewrite M7 in I. destruct (rw_inold v ch I) as (L & N1 & N2 & _). right. auto.
    + destruct Lc as [->|Rw]; [lia|].
      destruct (rw_get_old c C GC) as (C2 & G2 & _ & _ & Hin). rewrite G in G2. injection G2 as E; subst C2.
      apply Hin in I. destruct I as [[_ [[N I]|[-> _]]]|[Nrw _]]; [|left; auto|contradiction].
      right. destruct Rw as (L & N1 & N2). split; [eapply (I_inlive s D HI c C); eauto|]. split; auto.
      intro; subst v.
      assert (Hin' : In c (dsetf s UA)).
      { apply (I_lower s D HI a UA c); auto. - apply tracked_flags in TA; tauto. - exists C, ch. auto. }
      apply N2. apply Hone; auto.
  - (* I_lower *) intros x X' c Lx Nx GX IX Lc Nc Hr. apply rw_liv' in Lx. apply rw_liv' in Lc.
    destruct (rw_get_inv x X' GX) as [[-> ->]|[Hltx [X GX0]]].
    + (* x is the replacement *)
      unfold dsetf. rewrite M2, Hrs. apply rw_set_untouched; [apply rw_self_untouched; auto|].
      destruct Lc as [->|Rw].
      * exfalso. apply rw_reads_R in Hr. destruct Hr as [ch I]. destruct (rw_inold n ch I) as (_ & _ & _ & H). lia.
      * destruct Rw as (L & N1 & N2). destruct (liv_get s D c HI L) as (C & rc & GC & _).
        apply (rw_reads_new c C GC) in Hr; [|split; auto].
        pose proof (I_lower s D HI self Self c Ls Ns HS) as H. unfold dsetf in H. rewrite Hrs in H. apply H; auto.
        apply tracked_flags in TS; tauto.
    + destruct Lx as [->|Rwx]; [lia|]. destruct Rwx as (Lx0 & Nx1 & Nx2).
      destruct (rw_get_old x X GX0) as (X2 & G2 & SM & _). rewrite GX in G2. injection G2 as E; subst X2.
      destruct SM as (_ & DXe & _ & _ & _ & IXe & _).
      destruct (liv_get s D x HI Lx0) as (X0 & rx & GX1 & DX1). rewrite GX0 in GX1. injection GX1 as E; subst X0.
      unfold dsetf. rewrite DXe, DX1. rewrite IXe in IX.
      destruct Lc as [->|Rw].
      * apply rw_reads_R in Hr. destruct Hr as [ch I].
        assert (T : touchedb s (ins R) rx = true) by (apply rw_touched; exists x, X, ch; auto).
        apply rw_set_touched; auto. split; auto. split; [unfold n; pose proof (get_lt _ _ _ HS); lia | unfold n; pose proof (get_lt _ _ _ HA); lia].
      * destruct Rw as (L & N1 & N2). destruct (liv_get s D c HI L) as (C & rc & GC & _).
        assert (Hxn : x <> n) by lia.
        apply (rw_reads_old c C x GC) in Hr; [|split; auto|auto]. destruct Hr as [_ Hr].
        pose proof (I_lower s D HI x X c Lx0 Nx GX0 IX L Nc Hr) as H. unfold dsetf in H. rewrite DX1 in H.
        destruct (touchedb s (ins R) rx) eqn:T.
        -- apply rw_set_touched; auto.
        -- apply rw_set_untouched; auto.
  - (* I_upper *) intros x X' c Lx Nx GX TX Hc. apply rw_liv' in Lx.
    destruct (rw_get_inv x X' GX) as [[-> ->]|[Hltx [X GX0]]].
    + unfold dsetf in Hc. rewrite M2, Hrs in Hc. apply rw_set_untouched in Hc; [|apply rw_self_untouched; auto].
      pose proof (I_upper s D HI self Self c Ls Ns HS TS) as H. unfold dsetf in H. rewrite Hrs in H.
      destruct (H Hc) as [L Rd]. destruct (liv_get s D c HI L) as (C & rc & GC & DC).
      assert (Rw : rewired c).
      { split; auto. destruct Rd as (C2 & ch & G2 & I2). rewrite GC in G2. injection G2 as E; subst C2.
        destruct (I_rank s D HI c C self ch GC) as (V & GV & _ & Hlt); auto; [congruence|].
        rewrite HS in GV. injection GV as E; subst V. split; intro E.
        - pose proof rw_rank_sa as Hsa. rewrite E, HA in GC. injection GC as E2. rewrite <- E2 in Hlt. lia.
        - rewrite E, HS in GC. injection GC as E2. rewrite <- E2 in Hlt. lia. }
      split; [apply rw_liv'; right; auto|]. apply (rw_reads_new c C GC Rw). auto.
    + destruct Lx as [->|Rwx]; [lia|]. destruct Rwx as (Lx0 & Nx1 & Nx2).
      destruct (rw_get_old x X GX0) as (X2 & G2 & SM & _). rewrite GX in G2. injection G2 as E; subst X2.
      destruct SM as (_ & DXe & _ & _ & TXe & _).
      destruct (liv_get s D x HI Lx0) as (X0 & rx & GX1 & DX1). rewrite GX0 in GX1. injection GX1 as E; subst X0.
      unfold dsetf in Hc. rewrite DXe, DX1 in Hc. rewrite TXe in TX.
      pose proof (I_upper s D HI x X) as HU. unfold dsetf in HU. rewrite DX1 in HU.
      assert (Hxn : x <> n) by lia.
      destruct (touchedb s (ins R) rx) eqn:T.
      * apply rw_set_touched in Hc; auto. destruct Hc as [[->|Hc] [N1 N2]].
        -- split; [apply rw_liv'; auto|]. apply rw_reads_R.
           apply rw_touched in T. destruct T as (y & Y & ch & I & GY & IY & DY).
           destruct (rw_inold y ch I) as (Ly & _). 
           assert (y = x) by (apply (I_refinj s D HI y x Y X rx); auto). subst y. eauto.
        -- destruct (HU c Lx0 Nx GX0 TX Hc) as [L Rd]. destruct (liv_get s D c HI L) as (C & rc & GC & _).
           split; [apply rw_liv'; right; split; auto|].
           apply (rw_reads_old c C x GC); auto. split; auto.
      * apply rw_set_untouched in Hc; auto.
        destruct (HU c Lx0 Nx GX0 TX Hc) as [L Rd]. destruct (liv_get s D c HI L) as (C & rc & GC & _).
        assert (IXu : isugen X = true) by (apply tracked_flags in TX; tauto).
        assert (Nca : c <> a).
        { intro E. rewrite E in Rd. destruct Rd as (C2 & ch & G2 & I2). rewrite HA in G2. injection G2 as E2; subst C2.
          pose proof (In2 x ch I2) as I3.
          assert (touchedb s (ins R) rx = true) by (apply rw_touched; exists x, X, ch; auto). congruence. }
        assert (Ncs : c <> self).
        { intro E. rewrite E in Rd. destruct Rd as (C2 & ch & G2 & I2). rewrite HS in G2. injection G2 as E2; subst C2.
          pose proof (In3 x ch I2 Nx1) as I3.
          assert (touchedb s (ins R) rx = true) by (apply rw_touched; exists x, X, ch; auto). congruence. }
        split; [apply rw_liv'; right; split; auto|].
        apply (rw_reads_old c C x GC); auto. split; auto.
  - (* I_dying *) intros y Hy. destruct (I_dying s D HI y Hy) as (Ly & (Y & GY & DY & PY) & NR).
    assert (Nya : y <> a) by (intro; subst; contradiction).
    assert (Nys : y <> self) by (intro; subst; contradiction).
    destruct (rw_get_old y Y GY) as (Y' & GY' & SM & _). destruct SM as (_ & DYe & _ & _ & _ & _ & _ & PYe & _).
    destruct (liv_get s D y HI Ly) as (Y0 & ry & GY1 & DY1). rewrite GY in GY1. injection GY1 as E; subst Y0.
    split; [apply rw_liv'; right; split; auto|]. split.
    + exists Y'. split; auto. split; [|congruence].
      unfold dsetf in *. rewrite DYe, DY1 in *. apply no_members_nil. intros m Hm.
      assert (T : touchedb s (ins R) ry = false).
      { destruct (touchedb s (ins R) ry) eqn:T; auto. exfalso.
        apply rw_touched in T. destruct T as (x & X & ch & I & GX & IX & DX).
        destruct (rw_inold x ch I) as (Lx & _).
        assert (x = y) by (apply (I_refinj s D HI x y X Y ry); auto). subst x.
        destruct (In1 y ch I) as [H|[H _]].
        - apply (NR a La Na). exists UA, ch. auto.
        - apply (NR self Ls Ns). exists Self, ch. auto. }
      apply rw_set_untouched in Hm; auto. rewrite DY in Hm. contradiction.
    + intros c Lc Nc Hr. apply rw_liv' in Lc. destruct Lc as [->|Rw].
      * apply rw_reads_R in Hr. destruct Hr as [ch I].
        destruct (In1 y ch I) as [H|[H _]].
        -- apply (NR a La Na). exists UA, ch. auto.
        -- apply (NR self Ls Ns). exists Self, ch. auto.
      * destruct Rw as (L & N1 & N2). destruct (liv_get s D c HI L) as (C & rc & GC & _).
        assert (Hyn : y <> n) by (pose proof (get_lt _ _ _ GY); unfold n; lia).
        apply (rw_reads_old c C y GC) in Hr; [|split; auto|auto]. destruct Hr as [_ Hr].
        apply (NR c L Nc Hr).
Qed.
End RewriteInv.
