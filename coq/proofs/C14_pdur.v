(* C14 -- Pdur at full strength: the stream of Pdur(dur, child) is a function (dur_list) of the child's event
   list; when some event of the child ends at or after dur the deltas Pdur yields sum to dur exactly, the cut
   happens at the first event that ends later than dur - tolerance (never before an event ending at or after
   dur has been reached), the events before it are the child's own; a player plays them at the child's own times. *)
From Coq Require Import String List Morphisms.
Require Import SC3.proofs.NumTac SC3.gen.Gen_builtins SC3.proofs.C12_num SC3.model.TaskQ SC3.model.Event.
Require Import SC3.proofs.C14_play SC3.proofs.C14_stream.
Import ListNotations.
Open Scope Q_scope.

Section DurList.
Variable K : kern.

(* the loop body of Pdur.__embed__ on one event of the child (repaired code) *)
Definition dur_next (elapsed : num) (e : event) : num := nadd elapsed (pfloat (vnum (ev_call K e "delta"))).
Definition dur_cut (elapsed d : num) (e : event) : bool := nge (py_roundup (dur_next elapsed e) tolerance) d.
Definition dur_clip (elapsed d : num) (e : event) : event :=
  put "delta" (match ev_call K e "delta" with
               | VRest _ => VRest (nsub d elapsed)
               | VNum (I _) => VNum (nsub d elapsed)
               | _ => VNum (pfloat (nsub d elapsed))
               end) e.
Fixpoint dur_list (elapsed d : num) (l : list event) : list event :=
  match l with
  | [] => []
  | e0 :: r => let e := as_event e0 in
      if dur_cut elapsed d e then [dur_clip elapsed d e] else e :: dur_list (dur_next elapsed e) d r
  end.

(* the child's own deltas *)
Definition cdelta (e : event) : Q := delta_q K (as_event e).
Definition deltas_ok (l : list event) : Prop := Forall (fun e => ok (vnum (ev_call K (as_event e) "delta"))) l.

Lemma dur_next_val : forall elapsed x e, val elapsed x -> ok (vnum (ev_call K (as_event e) "delta")) ->
  val (dur_next elapsed (as_event e)) (x + cdelta e).
Proof.
  intros elapsed x e Hx Hok. unfold dur_next, cdelta, delta_q.
  destruct (val_pfloat _ _ (val_refl _ Hok)) as [Vf _]. apply val_nadd; assumption.
Qed.

Lemma dur_clip_delta : forall elapsed d e x dq, val elapsed x -> val d dq ->
  delta_q K (dur_clip elapsed d e) == dq - x.
Proof.
  intros elapsed d e x dq Hx Hd. unfold delta_q, dur_clip. rewrite ev_call_put_same.
  pose proof (val_nsub _ _ _ _ Hd Hx) as Hr.
  destruct (ev_call K e "delta") as [[z|q|]|n| | | | | |]; cbn [vnum];
    try (destruct Hr as [_ Hr]; exact Hr).
  all: destruct (val_pfloat _ _ Hr) as [[_ Hp] _]; exact Hp.
Qed.

(* ---- the sum ---------------------------------------------------------------------------------------------- *)
(* some event of the child ends at or after dur (elapsed = x so far) *)
Definition reaches (x dq : Q) (l : list event) : Prop :=
  exists j, (j < List.length l)%nat /\ dq <= x + qsum (firstn (S j) (map cdelta l)).

Lemma dur_list_sum : forall l elapsed d x dq, val elapsed x -> val d dq -> deltas_ok l -> reaches x dq l ->
  qsum (map (delta_q K) (dur_list elapsed d l)) == dq - x.
Proof.
  induction l as [|e0 r IH]; intros elapsed d x dq Hx Hd Hok [j [Hj Hr]].
  - cbn in Hj. lia.
  - inversion Hok as [|? ? Hok0 Hokr]; subst. cbn [dur_list].
    destruct (dur_cut elapsed d (as_event e0)) eqn:G.
    + cbn [map qsum]. rewrite (dur_clip_delta _ _ _ _ _ Hx Hd). ring.
    + cbn [map qsum]. pose proof (dur_next_val _ _ _ Hx Hok0) as Hn.
      assert (Hlt : x + cdelta e0 < dq).
      { destruct (Qlt_le_dec (x + cdelta e0) dq) as [L|L]; [exact L|exfalso].
        unfold dur_cut, dur_next in G.
        rewrite (pdur_cut_when_reached elapsed (vnum (ev_call K (as_event e0) "delta")) d x (cdelta e0) dq Hx
                   (val_refl _ Hok0) Hd L) in G. discriminate. }
      rewrite (IH _ d (x + cdelta e0) dq Hn Hd Hokr).
      * fold (cdelta e0). ring.
      * destruct j as [|j].
        -- cbn in Hr. exfalso. lra.
        -- exists j. split; [cbn in Hj; lia|]. cbn [map firstn qsum] in Hr. cbn [firstn]. lra.
Qed.

(* ---- where the cut happens, what is before it ------------------------------------------------------------------ *)
Lemma dur_list_shape : forall l elapsed d x dq, val elapsed x -> val d dq -> deltas_ok l -> reaches x dq l ->
  exists pre e0 post elk,
    l = pre ++ e0 :: post /\
    dur_list elapsed d l = map as_event pre ++ [dur_clip elk d (as_event e0)] /\
    val elk (x + qsum (map cdelta pre)) /\
    (forall i, (i < List.length pre)%nat -> x + qsum (firstn (S i) (map cdelta l)) < dq) /\
    dq - toQ tolerance < x + qsum (map cdelta pre) + cdelta e0.
Proof.
  induction l as [|e0 r IH]; intros elapsed d x dq Hx Hd Hok [j [Hj Hr]].
  - cbn in Hj. lia.
  - inversion Hok as [|? ? Hok0 Hokr]; subst. cbn [dur_list].
    pose proof (dur_next_val _ _ _ Hx Hok0) as Hn.
    destruct (dur_cut elapsed d (as_event e0)) eqn:G.
    + exists [], e0, r, elapsed. cbn [app map qsum List.length]. split; [reflexivity|]. split; [reflexivity|].
      split; [|split].
      * eapply val_eq; [exact Hx|ring].
      * intros i Hi. lia.
      * destruct (Qlt_le_dec (dq - toQ tolerance) (x + 0 + cdelta e0)) as [L|L]; [exact L|exfalso].
        unfold dur_cut, dur_next in G.
        rewrite (pdur_pass_when_short elapsed (vnum (ev_call K (as_event e0) "delta")) d x (cdelta e0) dq Hx
                   (val_refl _ Hok0) Hd) in G; [discriminate|lra].
    + assert (Hlt : x + cdelta e0 < dq).
      { destruct (Qlt_le_dec (x + cdelta e0) dq) as [L|L]; [exact L|exfalso].
        unfold dur_cut, dur_next in G.
        rewrite (pdur_cut_when_reached elapsed (vnum (ev_call K (as_event e0) "delta")) d x (cdelta e0) dq Hx
                   (val_refl _ Hok0) Hd L) in G. discriminate. }
      assert (R : reaches (x + cdelta e0) dq r).
      { destruct j as [|j]; [cbn in Hr; exfalso; lra|].
        exists j. split; [cbn in Hj; lia|]. cbn [map firstn qsum] in Hr. cbn [firstn]. lra. }
      destruct (IH _ d _ dq Hn Hd Hokr R) as [pre [e1 [post [elk [E1 [E2 [E3 [E4 E5]]]]]]]].
      exists (e0 :: pre), e1, post, elk. cbn [app map qsum List.length].
      split; [rewrite E1; reflexivity|]. split; [rewrite E2; reflexivity|]. split; [|split].
      * eapply val_eq; [exact E3|ring].
      * intros i Hi. destruct i as [|i]; cbn [firstn map qsum].
        -- lra.
        -- pose proof (E4 i ltac:(lia)) as H4. cbn [firstn] in H4. lra.
      * lra.
Qed.

(* a child that never comes within the tolerance of dur is passed through unchanged (and Pdur ends with it) *)
Lemma dur_list_short : forall l elapsed d x dq, val elapsed x -> val d dq -> deltas_ok l ->
  (forall j, (j < List.length l)%nat -> x + qsum (firstn (S j) (map cdelta l)) + toQ tolerance <= dq) ->
  dur_list elapsed d l = map as_event l.
Proof.
  induction l as [|e0 r IH]; intros elapsed d x dq Hx Hd Hok Hs; [reflexivity|].
  inversion Hok as [|? ? Hok0 Hokr]; subst. cbn [dur_list map].
  pose proof (dur_next_val _ _ _ Hx Hok0) as Hn.
  assert (G : dur_cut elapsed d (as_event e0) = false).
  { unfold dur_cut, dur_next.
    apply (pdur_pass_when_short elapsed _ d x (cdelta e0) dq Hx (val_refl _ Hok0) Hd).
    pose proof (Hs 0%nat ltac:(cbn; lia)) as H0. cbn [map firstn qsum] in H0. lra. }
  rewrite G. f_equal. apply (IH _ d (x + cdelta e0) dq Hn Hd Hokr).
  intros j Hj. pose proof (Hs (S j) ltac:(cbn; lia)) as H1. cbn [map firstn qsum] in H1. cbn [firstn]. lra.
Qed.

(* the deltas of all events but the last are the child's own *)
Lemma dur_list_prefix_deltas : forall l elapsed d k, (k < List.length (dur_list elapsed d l))%nat ->
  firstn k (map (delta_q K) (dur_list elapsed d l)) = firstn k (map cdelta l) /\ (k < List.length l)%nat.
Proof.
  induction l as [|e0 r IH]; intros elapsed d k Hk; cbn [dur_list] in *.
  - cbn in Hk. lia.
  - destruct (dur_cut elapsed d (as_event e0)).
    + cbn in Hk. assert (k = 0%nat) by lia. subst. split; [reflexivity|cbn; lia].
    + destruct k as [|k]; [split; [reflexivity|cbn; lia]|].
      cbn [List.length] in Hk. destruct (IH (dur_next elapsed (as_event e0)) d k ltac:(lia)) as [H1 H2].
      cbn [map firstn]. rewrite H1. split; [reflexivity|cbn; lia].
Qed.
End DurList.

(* ---- the stream of Pdur is dur_list of the child's run ------------------------------------------------------------- *)
Lemma stream_run_durend : forall c K lib f dep s inev mc, stream_run c K lib f (S dep) (SDurEnd s) inev mc = [].
Proof. intros c K lib f dep s inev mc. destruct f; reflexivity. Qed.

Lemma pdur_stream_is_dur_list : forall c K lib, fix_pdur_event c = true -> fix_pdur_int c = true ->
  forall fuel dep elapsed d s inev mc,
  stream_run c K lib fuel (S dep) (SDur elapsed d s) inev mc
  = dur_list K elapsed d (stream_run c K lib fuel dep s inev mc).
Proof.
  intros c K lib He Hi fuel. induction fuel as [|f IH]; intros dep elapsed d s inev mc; [reflexivity|].
  cbn [stream_run]. cbn [snext].
  destruct (snext c K lib dep s inev mc) as [[e0 s'' o|o|] mc']; try reflexivity.
  rewrite He, Hi. cbn [negb andb dur_list]. unfold dur_cut, dur_next.
  destruct (nge (py_roundup (nadd elapsed (pfloat (vnum (ev_call K (as_event e0) "delta")))) tolerance) d).
  - rewrite stream_run_durend. reflexivity.
  - f_equal. apply IH.
Qed.

(* ---- player o Pdur -------------------------------------------------------------------------------------------------- *)
(* what a player does with Pdur(d, child): the timeline of dur_list of the child's run; every event but the last
   one is the child's own event, played at start + the sum of the child's own preceding deltas *)
Lemma player_pdur_times_l : forall c K lib, fix_pdur_event c = true -> fix_pdur_int c = true ->
  forall fuel dep d s proto mc now,
  let child := stream_run c K lib fuel dep s proto mc in
  let out := dur_list K (F 0) d child in
  Forall (numeric_delta c K) (map as_event out) ->
  evs (player c K lib fuel (S dep) (SDur (F 0) d s) proto mc now) = timeline K now (map as_event out) /\
  forall k t e, nth_error (evs (player c K lib fuel (S dep) (SDur (F 0) d s) proto mc now)) k = Some (t, e) ->
    t == now + qsum (firstn k (map (cdelta K) child)) /\
    ((S k < List.length out)%nat -> exists e0, nth_error child k = Some e0 /\ e = as_event e0).
Proof.
  intros c K lib He Hi fuel dep d s proto mc now child out Hnum.
  assert (E : evs (player c K lib fuel (S dep) (SDur (F 0) d s) proto mc now) = timeline K now (map as_event out)).
  { rewrite player_is_timeline; rewrite (pdur_stream_is_dur_list c K lib He Hi); [reflexivity|exact Hnum]. }
  split; [exact E|]. intros k t e H. rewrite E in H.
  destruct (timeline_nth _ _ _ _ _ _ H) as [H1 H2].
  assert (Hk : (k < List.length out)%nat).
  { apply nth_error_Some. rewrite nth_error_map in H1. destruct (nth_error out k); [discriminate|discriminate H1]. }
  split.
  - rewrite H2. rewrite map_map.
    assert (M : map (fun x => delta_q K (as_event x)) out = map (delta_q K) out).
    { apply map_ext. intros a. apply delta_q_as_event. }
    rewrite M. destruct (dur_list_prefix_deltas K child (F 0) d k Hk) as [P _]. fold out in P. rewrite P. reflexivity.
  - intros Hlast. unfold out in *. clear E H H2 Hnum. revert k t e H1 Hk Hlast. generalize (F 0) as el. generalize child as l.
    induction l as [|e0 r IHl]; intros el k t e H1 Hk Hlast; cbn [dur_list] in *.
    + cbn in Hk. lia.
    + destruct (dur_cut K el d (as_event e0)).
      * cbn in Hlast. lia.
      * destruct k as [|k].
        -- cbn in H1. inversion H1. exists e0. split; [reflexivity|apply as_event_idem].
        -- cbn [map nth_error List.length] in *. apply (IHl _ k t e H1); lia.
Qed.

(* ---- the property: total duration and place of the cut, for every child run ----------------------------------------- *)
Lemma pdur_total_duration_l : forall c K lib, fix_pdur_event c = true -> fix_pdur_int c = true ->
  forall fuel dep d s inev mc dq,
  let child := stream_run c K lib fuel dep s inev mc in
  let out := stream_run c K lib fuel (S dep) (SDur (F 0) d s) inev mc in
  val d dq -> deltas_ok K child -> reaches K 0 dq child ->
  qsum (map (delta_q K) out) == dq /\
  exists pre e0 post elk,
    child = pre ++ e0 :: post /\
    out = map as_event pre ++ [dur_clip K elk d (as_event e0)] /\
    val elk (qsum (map (cdelta K) pre)) /\
    (forall i, (i < List.length pre)%nat -> qsum (firstn (S i) (map (cdelta K) child)) < dq) /\
    (dq <= qsum (map (cdelta K) pre) + cdelta K e0 \/
     (dq - toQ tolerance < qsum (map (cdelta K) pre) + cdelta K e0 /\ qsum (map (cdelta K) pre) + cdelta K e0 < dq)).
Proof.
  intros c K lib He Hi fuel dep d s inev mc dq child out Hd Hok Hr.
  assert (V0 : val (F 0) 0) by apply val_F.
  unfold out. rewrite (pdur_stream_is_dur_list c K lib He Hi). fold child. split.
  - rewrite (dur_list_sum K child (F 0) d 0 dq V0 Hd Hok Hr). ring.
  - destruct (dur_list_shape K child (F 0) d 0 dq V0 Hd Hok Hr) as [pre [e0 [post [elk [E1 [E2 [E3 [E4 E5]]]]]]]].
    exists pre, e0, post, elk. split; [exact E1|]. split; [exact E2|]. split; [eapply val_eq; [exact E3|ring]|]. split.
    + intros i Hl. pose proof (E4 i Hl) as H4. lra.
    + destruct (Qlt_le_dec (qsum (map (cdelta K) pre) + cdelta K e0) dq) as [L|L]; [right; split; lra|left; exact L].
Qed.

(* when the child ends before coming within the tolerance of dur, Pdur ends with it and changes nothing *)
Lemma pdur_short_child_l : forall c K lib, fix_pdur_event c = true -> fix_pdur_int c = true ->
  forall fuel dep d s inev mc dq,
  let child := stream_run c K lib fuel dep s inev mc in
  val d dq -> deltas_ok K child ->
  (forall j, (j < List.length child)%nat -> qsum (firstn (S j) (map (cdelta K) child)) + toQ tolerance <= dq) ->
  stream_run c K lib fuel (S dep) (SDur (F 0) d s) inev mc = map as_event child.
Proof.
  intros c K lib He Hi fuel dep d s inev mc dq child Hd Hok Hs.
  rewrite (pdur_stream_is_dur_list c K lib He Hi). fold child.
  apply (dur_list_short K child (F 0) d 0 dq (val_F 0) Hd Hok). intros j Hj. pose proof (Hs j Hj). lra.
Qed.

(* ---- non-vacuity: an endless Pbind of one-beat events under Pdur(3/2) -------------------------------------------------- *)
Definition K1 : kern := mkK (fun x => x) (fun x => x) (fun x => x) (fun x => x).
Definition endless : st := SBind [("dur"%string, VRep (VNum (F 1)))].
Lemma pdur_hypotheses_met_l :
  let child := stream_run patched K1 [] 5 3 endless [] 0 in
  val (F (3 # 2)) (3 # 2) /\ deltas_ok K1 child /\ reaches K1 0 (3 # 2) child /\
  map (fun e => Qred (delta_q K1 e)) (stream_run patched K1 [] 5 4 (SDur (F 0) (F (3 # 2)) endless) [] 0) = [1; 1 # 2].
Proof.
  cbv zeta. split; [apply val_F|]. split; [vm_compute; repeat constructor|]. split.
  - exists 1%nat. split; [vm_compute; repeat constructor|vm_compute; intros H; discriminate H].
  - vm_compute. reflexivity.
Qed.
