(* C19 -- client-side evaluation (Env._at / Env._env_at): breakpoints, bounds, hold. *)
From Coq Require Import ZArith QArith Qabs String List Bool Lia Lqa Arith.
Require Import SC3.lib.PyNum SC3.gen.Gen_envtables SC3.model.Env SC3.proofs.C19_format.
Import ListNotations.
Open Scope list_scope.
Open Scope Q_scope.

Lemma Qlt_bool_true x y : Qlt_bool x y = true <-> x < y.
Proof.
  unfold Qlt_bool. rewrite negb_true_iff. split.
  - intros H. apply Qnot_le_lt. intros Hle. apply Qle_bool_iff in Hle. congruence.
  - intros H. destruct (Qle_bool y x) eqn:E; [|reflexivity]. apply Qle_bool_iff in E. lra.
Qed.
Lemma Qlt_bool_false x y : Qlt_bool x y = false <-> y <= x.
Proof.
  split; intros H.
  - apply Qnot_lt_le. intros Hlt. apply Qlt_bool_true in Hlt. congruence.
  - destruct (Qlt_bool x y) eqn:E; [|reflexivity]. apply Qlt_bool_true in E. lra.
Qed.

(* ------------------------------------------------------------------ what a shape must satisfy *)
Definition between (a b v : Q) : Prop := (a <= v /\ v <= b) \/ (b <= v /\ v <= a).

(* inside a segment the value lies between the two neighbouring levels *)
Definition seg_inside (sv : SV) (k c : Q) : Prop :=
  forall s t pos, 0 <= pos -> pos < 1 -> exists v, sv k c s t pos = Ok v /\ between s t v.
(* at its start a segment returns the level it starts from *)
Definition seg_starts (sv : SV) (k c : Q) : Prop :=
  forall s t pos, pos == 0 -> exists v, sv k c s t pos = Ok v /\ v == s.
(* 'step': the segment is at its target level from its start on *)
Definition seg_jumps (sv : SV) (k c : Q) : Prop :=
  forall s t pos, sv k c s t pos = Ok t.

(* every interpolant of the form  start + (target - start) * phi(pos)
   with phi 0 = 0 and 0 <= phi <= 1 on [0, 1) is admissible *)
Lemma phi_form_ok (sv : SV) (k c : Q) (phi : Q -> Q) :
  (forall s t pos, sv k c s t pos = Ok (s + (t - s) * phi pos)) ->
  (forall pos, pos == 0 -> phi pos == 0) ->
  (forall pos, 0 <= pos -> pos < 1 -> 0 <= phi pos /\ phi pos <= 1) ->
  seg_inside sv k c /\ seg_starts sv k c.
Proof.
  intros Hsv H0 Hr. split.
  - intros s t pos Hp0 Hp1. eexists. split; [apply Hsv|]. destruct (Hr pos Hp0 Hp1) as [Ha Hb].
    set (p := phi pos) in *. clearbody p. unfold between.
    destruct (Qlt_le_dec s t); [left|right]; split; nra.
  - intros s t pos Hp. eexists. split; [apply Hsv|]. rewrite (H0 pos Hp). ring.
Qed.

(* ------------------------------------------------------------------ the search loop *)
Fixpoint Tq (begin : Q) (segs : list qseg) (j : nat) : Q :=
  match j, segs with
  | S j', s :: r => Tq (begin + q_dur s) r j'
  | _, _ => begin
  end.
Fixpoint Lq (start : Q) (segs : list qseg) (j : nat) : Q :=
  match j, segs with
  | S j', s :: r => Lq (q_target s) r j'
  | _, _ => start
  end.
Definition durs_nonneg (segs : list qseg) : Prop := Forall (fun s => 0 <= q_dur s) segs.

Lemma Tq_mono segs : forall begin j, durs_nonneg segs -> begin <= Tq begin segs j.
Proof.
  induction segs as [|s r IH]; intros begin j Hd; destruct j; simpl; try lra.
  inversion Hd as [|? ? Hs Hr]; subst. specialize (IH (begin + q_dur s) j Hr). lra.
Qed.

Lemma at_segs_locate sv segs : forall start begin time j s,
  nth_error segs j = Some s -> durs_nonneg segs ->
  Tq begin segs j <= time -> time < Tq begin segs j + q_dur s ->
  at_segs sv segs start begin time =
  sv (q_shape s) (q_curve s) (Lq start segs j) (q_target s) ((time - Tq begin segs j) / q_dur s).
Proof.
  induction segs as [|s0 r IH]; intros start begin time j s Hn Hd Ht1 Ht2; [destruct j; discriminate|].
  inversion Hd as [|? ? Hs0 Hr]; subst.
  destruct j as [|j]; simpl in *.
  - inversion Hn; subst s0. apply Qlt_bool_true in Ht2. rewrite Ht2. reflexivity.
  - pose proof (Tq_mono r (begin + q_dur s0) j Hr) as Hm.
    assert (Hf : Qlt_bool time (begin + q_dur s0) = false) by (apply Qlt_bool_false; lra).
    rewrite Hf. apply IH; assumption.
Qed.

Lemma at_segs_after sv segs : forall start begin time,
  durs_nonneg segs -> Tq begin segs (length segs) <= time ->
  at_segs sv segs start begin time = Ok (Lq start segs (length segs)).
Proof.
  induction segs as [|s0 r IH]; intros start begin time Hd Ht; [reflexivity|].
  inversion Hd as [|? ? Hs0 Hr]; subst. simpl in *.
  pose proof (Tq_mono r (begin + q_dur s0) (length r) Hr) as Hm.
  assert (Hf : Qlt_bool time (begin + q_dur s0) = false) by (apply Qlt_bool_false; lra).
  rewrite Hf. apply IH; assumption.
Qed.

Lemma pos_range time b d : b <= time -> time < b + d -> 0 <= (time - b) / d /\ (time - b) / d < 1.
Proof.
  intros H1 H2. assert (Hd : 0 < d) by lra. split.
  - apply Qle_shift_div_l; [exact Hd|lra].
  - apply Qlt_shift_div_r; [exact Hd|lra].
Qed.
Lemma pos_zero time b d : time == b -> 0 < d -> (time - b) / d == 0.
Proof. intros H Hd. rewrite H. field. lra. Qed.

(* ------------------------------------------------------------------ from the flat data to located segments *)
Definition qseg_of (s : seg) : qseg :=
  mkq (toQ (s_target s)) (toQ (s_dur s)) (toQ (s_shape s)) (toQ (s_curve s)).

Lemma at_loop_encode sv segs : forall start begin time,
  at_loop sv (length segs) (encode_segs segs) start begin time
  = at_segs sv (map qseg_of segs) start begin time.
Proof.
  induction segs as [|[a b c d] r IH]; intros; [reflexivity|]. simpl.
  destruct (Qlt_bool time (begin + toQ b)); [reflexivity|apply IH].
Qed.

Definition qsegs (e : env) : list qseg := map qseg_of (d_segs (normalise e)).
Definition start_level (e : env) : Q := toQ (hd NErr (levels e)).

Lemma env_at_segs sv e o t : wf_env e -> times e <> [] -> offset e = Some o ->
  env_at_with sv e t = at_segs sv (qsegs e) (start_level e) 0 (rel_time e t).
Proof.
  intros Hwf Hne Ho. unfold env_at_with. rewrite (envgen_format_encode e Hwf). cbn [bind]. rewrite Ho.
  unfold env_at_data.
  assert (Hlen : length (encode_env (normalise e)) = (4 + 4 * length (times e))%nat).
  { unfold encode_env. simpl. rewrite encode_segs_length, map_length, seq_length. lia. }
  assert (Hn : (0 < length (times e))%nat) by (destruct (times e); [contradiction|simpl; lia]).
  destruct (Nat.ltb_spec (length (encode_env (normalise e))) 8) as [Hlt|_]; [lia|].
  unfold encode_env. cbn [d_n normalise d_init d_rel d_loop d_segs].
  rewrite Nat2Z.id. unfold qsegs, start_level. cbn [d_segs normalise].
  rewrite <- at_loop_encode. rewrite map_length, seq_length. reflexivity.
Qed.

Lemma rel_time_eq e t : 0 <= t - offsetQ e -> rel_time e t == t - offsetQ e.
Proof.
  intros H. unfold rel_time. destruct (Qlt_bool 0 (t - offsetQ e)) eqn:E; [reflexivity|].
  apply Qlt_bool_false in E. lra.
Qed.
Lemma rel_time_before e t : t - offsetQ e <= 0 -> rel_time e t == 0.
Proof.
  intros H. unfold rel_time. destruct (Qlt_bool 0 (t - offsetQ e)) eqn:E; [|reflexivity].
  apply Qlt_bool_true in E. lra.
Qed.

(* ------------------------------------------------------------------ breakpoints in terms of the object's lists *)
Lemma map_nth_seq {A} (l : list A) d : map (fun i => nth i l d) (seq 0 (length l)) = l.
Proof.
  induction l as [|a r IH]; [reflexivity|]. simpl. f_equal.
  rewrite <- seq_shift, map_map. exact IH.
Qed.

Lemma qsegs_durs e : map q_dur (qsegs e) = map toQ (times e).
Proof.
  unfold qsegs. cbn [normalise d_segs]. rewrite !map_map. cbn [qseg_of norm_seg q_dur s_dur].
  rewrite <- (map_map (fun i => nth i (times e) NErr) toQ). rewrite map_nth_seq. reflexivity.
Qed.
Lemma qsegs_targets e : wf_env e -> map q_target (qsegs e) = map toQ (tl (levels e)).
Proof.
  intros (Hne & Hlen & _). unfold qsegs. cbn [normalise d_segs]. rewrite !map_map.
  cbn [qseg_of norm_seg q_target s_target].
  destruct (levels e) as [|l0 lv']; [contradiction|]. simpl in Hlen. cbn [tl nth].
  replace (length (times e)) with (length lv') by lia.
  rewrite <- (map_map (fun i => nth i lv' NErr) toQ). rewrite map_nth_seq. reflexivity.
Qed.
Lemma qsegs_length e : length (qsegs e) = length (times e).
Proof. unfold qsegs. cbn [normalise d_segs]. rewrite !map_length, seq_length. reflexivity. Qed.

Lemma Tq_qsum segs : forall b k, Tq b segs k == b + qsum (firstn k (map q_dur segs)).
Proof.
  induction segs as [|s r IH]; intros b k; destruct k; simpl; try lra.
  rewrite IH. lra.
Qed.
Lemma Lq_nth segs : forall start k, (k <= length segs)%nat ->
  Lq start segs k = nth k (start :: map q_target segs) 0.
Proof.
  induction segs as [|s r IH]; intros start k Hk; destruct k; simpl in *; try reflexivity; [lia|].
  apply IH. lia.
Qed.

Lemma breaktime_Tq e k : Tq 0 (qsegs e) k == breaktime e k.
Proof. rewrite Tq_qsum, qsegs_durs. unfold breaktime. lra. Qed.
Lemma level_at_Lq e k : wf_env e -> (k <= length (times e))%nat ->
  Lq (start_level e) (qsegs e) k = level_at e k.
Proof.
  intros Hwf Hk. rewrite Lq_nth by (rewrite qsegs_length; exact Hk).
  rewrite (qsegs_targets e Hwf). unfold start_level, level_at.
  destruct Hwf as (Hne & _). destruct (levels e) as [|l0 lv']; [contradiction|]. cbn [hd tl].
  change (toQ l0 :: map toQ lv') with (map toQ (l0 :: lv')).
  change 0 with (toQ NErr). apply map_nth.
Qed.

Definition times_nonneg (e : env) : Prop := Forall (fun d => 0 <= toQ d) (times e).
Lemma durs_nonneg_qsegs e : times_nonneg e -> durs_nonneg (qsegs e).
Proof.
  unfold times_nonneg, durs_nonneg. rewrite !Forall_forall. intros H s Hs.
  assert (Hin : In (q_dur s) (map q_dur (qsegs e))) by (apply in_map; exact Hs).
  rewrite qsegs_durs in Hin. apply in_map_iff in Hin. destruct Hin as (d & Hd & Hind).
  rewrite <- Hd. apply H. exact Hind.
Qed.

(* the k-th segment as the server sees it *)
Definition segment (e : env) (k : nat) : option seg := nth_error (d_segs (normalise e)) k.
Lemma segment_qseg e k s : segment e k = Some s -> nth_error (qsegs e) k = Some (qseg_of s).
Proof. unfold segment, qsegs. intros H. rewrite nth_error_map, H. reflexivity. Qed.
Lemma segment_dur e k s : segment e k = Some s -> breaktime e (S k) == breaktime e k + toQ (s_dur s).
Proof.
  intros H. apply segment_qseg in H. rewrite <- !breaktime_Tq.
  generalize (qsegs e) H (0:Q). clear. intros segs. revert k.
  induction segs as [|s0 r IH]; intros k Hn b; [destruct k; discriminate|].
  destruct k; simpl in *.
  - inversion Hn; subst. simpl. destruct r; simpl; lra.
  - apply IH. exact Hn.
Qed.
Lemma segment_lt e k s : segment e k = Some s -> (k < length (times e))%nat.
Proof.
  unfold segment. intros H. assert (Hs : nth_error (d_segs (normalise e)) k <> None) by congruence.
  apply nth_error_Some in Hs. cbn [normalise d_segs] in Hs. rewrite map_length, seq_length in Hs. exact Hs.
Qed.

Lemma segment_norm e k s : segment e k = Some s -> s = norm_seg e k.
Proof.
  unfold segment. cbn [normalise d_segs]. rewrite nth_error_map.
  destruct (nth_error (seq 0 (length (times e))) k) as [i|] eqn:Ei; [|discriminate].
  intros H. inversion H. f_equal.
  assert (Hk : (k < length (seq 0 (length (times e))))%nat) by (apply nth_error_Some; rewrite Ei; discriminate).
  rewrite seq_length in Hk.
  apply nth_error_nth with (d := 0%nat) in Ei. rewrite seq_nth in Ei by exact Hk. lia.
Qed.
Lemma segment_target e k s : segment e k = Some s -> toQ (s_target s) = level_at e (S k).
Proof. intros H. rewrite (segment_norm e k s H). reflexivity. Qed.

Section Laws.
  Variable sv : SV.
  Variable e : env.
  Variable o : num.
  Hypothesis Hwf : wf_env e.
  Hypothesis Hoff : offset e = Some o.
  Hypothesis Hnn : times_nonneg e.

  Lemma times_ne_of_segment k s : segment e k = Some s -> times e <> [].
  Proof. intros H. apply segment_lt in H. destruct (times e); [simpl in H; lia|discriminate]. Qed.

  Lemma offsetQ_o : offsetQ e = toQ o.
  Proof. unfold offsetQ. rewrite Hoff. reflexivity. Qed.

  (* value inside segment k *)
  Lemma env_at_located k s t :
    segment e k = Some s -> breaktime e k <= t - toQ o -> t - toQ o < breaktime e (S k) ->
    exists b, b == breaktime e k /\
    env_at_with sv e t = sv (toQ (s_shape s)) (toQ (s_curve s)) (level_at e k) (toQ (s_target s))
                            ((rel_time e t - b) / toQ (s_dur s)).
  Proof.
    intros Hs H1 H2. pose proof (segment_lt e k s Hs) as Hk.
    rewrite (env_at_segs sv e o t Hwf (times_ne_of_segment k s Hs) Hoff).
    pose proof (breaktime_Tq e k) as Hb. pose proof (segment_dur e k s Hs) as Hd.
    assert (H0 : 0 <= breaktime e k).
    { rewrite <- Hb. apply Tq_mono, durs_nonneg_qsegs, Hnn. }
    assert (Hr : rel_time e t == t - toQ o) by (rewrite rel_time_eq; rewrite offsetQ_o; lra).
    exists (Tq 0 (qsegs e) k). split; [exact Hb|].
    rewrite (at_segs_locate sv (qsegs e) (start_level e) 0 (rel_time e t) k (qseg_of s)
               (segment_qseg e k s Hs) (durs_nonneg_qsegs e Hnn)).
    - rewrite (level_at_Lq e k Hwf) by lia. reflexivity.
    - rewrite Hb, Hr. exact H1.
    - rewrite Hb, Hr. cbn [qseg_of q_dur]. lra.
  Qed.

  Lemma env_at_breakpoint_start k s :
    segment e k = Some s -> 0 < toQ (s_dur s) ->
    seg_starts sv (toQ (s_shape s)) (toQ (s_curve s)) ->
    exists v, env_at_with sv e (toQ o + breaktime e k) = Ok v /\ v == level_at e k.
  Proof.
    intros Hs Hd Hst. pose proof (segment_dur e k s Hs) as Hsd.
    destruct (env_at_located k s (toQ o + breaktime e k) Hs) as (b & Hb & Heq); [lra|lra|].
    rewrite Heq. apply Hst. apply pos_zero; [|exact Hd].
    assert (H0 : 0 <= breaktime e k).
    { rewrite <- breaktime_Tq. apply Tq_mono, durs_nonneg_qsegs, Hnn. }
    rewrite rel_time_eq; rewrite offsetQ_o; lra.
  Qed.

  Lemma env_at_breakpoint_step k s :
    segment e k = Some s -> 0 < toQ (s_dur s) ->
    seg_jumps sv (toQ (s_shape s)) (toQ (s_curve s)) ->
    forall t, breaktime e k <= t - toQ o -> t - toQ o < breaktime e (S k) ->
    env_at_with sv e t = Ok (level_at e (S k)).
  Proof.
    intros Hs Hd Hj t H1 H2. destruct (env_at_located k s t Hs H1 H2) as (b & Hb & Heq).
    rewrite Heq, Hj. f_equal. apply segment_target. exact Hs.
  Qed.

  Lemma env_at_inside k s t :
    segment e k = Some s ->
    seg_inside sv (toQ (s_shape s)) (toQ (s_curve s)) ->
    breaktime e k <= t - toQ o -> t - toQ o < breaktime e (S k) ->
    exists v, env_at_with sv e t = Ok v /\ between (level_at e k) (level_at e (S k)) v.
  Proof.
    intros Hs Hin H1 H2. destruct (env_at_located k s t Hs H1 H2) as (b & Hb & Heq).
    pose proof (segment_dur e k s Hs) as Hsd.
    assert (H0 : 0 <= breaktime e k).
    { rewrite <- breaktime_Tq. apply Tq_mono, durs_nonneg_qsegs, Hnn. }
    assert (Hr : rel_time e t == t - toQ o) by (rewrite rel_time_eq; rewrite offsetQ_o; lra).
    destruct (pos_range (rel_time e t) b (toQ (s_dur s))) as [Hp0 Hp1]; [lra|lra|].
    destruct (Hin (level_at e k) (toQ (s_target s)) _ Hp0 Hp1) as (v & Hv & Hbt).
    exists v. split; [rewrite Heq; exact Hv|].
    rewrite <- (segment_target e k s Hs). exact Hbt.
  Qed.

  Lemma env_at_after t :
    times e <> [] -> breaktime e (length (times e)) <= t - toQ o ->
    env_at_with sv e t = Ok (level_at e (length (times e))).
  Proof.
    intros Hne H1. rewrite (env_at_segs sv e o t Hwf Hne Hoff).
    assert (H0 : 0 <= breaktime e (length (times e))).
    { rewrite <- breaktime_Tq. apply Tq_mono, durs_nonneg_qsegs, Hnn. }
    assert (Hr : rel_time e t == t - toQ o) by (rewrite rel_time_eq; rewrite offsetQ_o; lra).
    rewrite at_segs_after.
    - rewrite qsegs_length. rewrite (level_at_Lq e _ Hwf) by lia. reflexivity.
    - apply durs_nonneg_qsegs, Hnn.
    - rewrite qsegs_length, breaktime_Tq, Hr. exact H1.
  Qed.
End Laws.

(* ====================================================================================
   Deepening round: coinciding breakpoints / zero-length segments, evaluation exactly at segment
   ends, times before the offset, and totality of the evaluation. *)

(* a zero-length segment is never the located one: "inside" it there is no time *)
Lemma zero_length_never_located e k s x :
  segment e k = Some s -> toQ (s_dur s) == 0 -> ~ (breaktime e k <= x /\ x < breaktime e (S k)).
Proof. intros Hs Hd [H1 H2]. pose proof (segment_dur e k s Hs). lra. Qed.

Lemma Tq_0 b segs : Tq b segs 0 = b.
Proof. destruct segs; reflexivity. Qed.
Lemma Lq_0 b segs : Lq b segs 0 = b.
Proof. destruct segs; reflexivity. Qed.

(* the search loop always answers, with a value between two consecutive levels or the last level *)
Lemma at_segs_total sv segs : forall start begin time,
  durs_nonneg segs -> begin <= time ->
  Forall (fun s => seg_inside sv (q_shape s) (q_curve s)) segs ->
  exists v j, at_segs sv segs start begin time = Ok v /\ (j <= length segs)%nat
    /\ Tq begin segs j <= time
    /\ ((j < length segs)%nat -> time < Tq begin segs (S j) /\ between (Lq start segs j) (Lq start segs (S j)) v)
    /\ (j = length segs -> v = Lq start segs j).
Proof.
  induction segs as [|s r IH]; intros start begin time Hd Ht Hin.
  - exists start, 0%nat. simpl. repeat split; try lia; try lra.
  - inversion Hd as [|? ? Hs Hr]; subst. inversion Hin as [|? ? His Hir]; subst. simpl.
    destruct (Qlt_bool time (begin + q_dur s)) eqn:E.
    + apply Qlt_bool_true in E. destruct (pos_range time begin (q_dur s) Ht E) as [Hp0 Hp1].
      destruct (His start (q_target s) _ Hp0 Hp1) as (v & Hv & Hb).
      exists v, 0%nat. split; [exact Hv|]. split; [simpl; lia|]. split; [simpl; lra|]. split.
      * intros _. simpl. rewrite Tq_0, Lq_0. split; [exact E|exact Hb].
      * simpl. intros Habs. discriminate.
    + apply Qlt_bool_false in E.
      destruct (IH (q_target s) (begin + q_dur s) time Hr E Hir) as (v & j & Hv & Hj & HT & Hlt & Heq).
      exists v, (S j). split; [exact Hv|]. split; [simpl; lia|]. split; [simpl; exact HT|]. split.
      * intros Hlt'. simpl in Hlt'. simpl. apply Hlt. lia.
      * intros Heq'. simpl in Heq'. simpl. apply Heq. lia.
Qed.

Section Laws2.
  Variable sv : SV.
  Variable e : env.
  Variable o : num.
  Hypothesis Hwf : wf_env e.
  Hypothesis Hoff : offset e = Some o.
  Hypothesis Hnn : times_nonneg e.

  (* at ANY time that is (as a rational) a breakpoint whose segment has a positive length *)
  Lemma env_at_breakpoint_at k s t :
    segment e k = Some s -> 0 < toQ (s_dur s) ->
    seg_starts sv (toQ (s_shape s)) (toQ (s_curve s)) ->
    t - toQ o == breaktime e k ->
    exists v, env_at_with sv e t = Ok v /\ v == level_at e k.
  Proof.
    intros Hs Hd Hst Ht. pose proof (segment_dur e k s Hs) as Hsd.
    destruct (env_at_located sv e o Hwf Hoff Hnn k s t Hs) as (b & Hb & Heq); [lra|lra|].
    rewrite Heq. apply Hst. apply pos_zero; [|exact Hd].
    assert (H0 : 0 <= breaktime e k).
    { rewrite <- breaktime_Tq. apply Tq_mono, durs_nonneg_qsegs, Hnn. }
    rewrite rel_time_eq; rewrite (offsetQ_o e o Hoff); lra.
  Qed.

  (* coinciding breakpoints (zero-length segments between j and k): the level returned is that
     of the LAST of them, the one from which the next segment of positive length starts *)
  Lemma env_at_coinciding j k s :
    segment e k = Some s -> 0 < toQ (s_dur s) ->
    seg_starts sv (toQ (s_shape s)) (toQ (s_curve s)) ->
    breaktime e j == breaktime e k ->
    exists v, env_at_with sv e (toQ o + breaktime e j) = Ok v /\ v == level_at e k.
  Proof. intros Hs Hd Hst Hjk. apply (env_at_breakpoint_at k s); try assumption. lra. Qed.

  (* exactly at the end of the envelope -- also when trailing segments have length zero *)
  Lemma env_at_end j t :
    times e <> [] -> breaktime e j == breaktime e (length (times e)) -> t - toQ o == breaktime e j ->
    env_at_with sv e t = Ok (level_at e (length (times e))).
  Proof. intros Hne Hj Ht. apply (env_at_after sv e o Hwf Hoff Hnn); [exact Hne|lra]. Qed.

  (* before the offset (in particular for negative times) the envelope is evaluated at its start *)
  Lemma env_at_before_offset t :
    t - toQ o <= 0 -> env_at_with sv e t = env_at_with sv e (toQ o).
  Proof.
    intros Ht. unfold env_at_with. destruct (envgen_format e); [|reflexivity]. cbn [bind]. rewrite Hoff.
    f_equal. unfold rel_time. rewrite (offsetQ_o e o Hoff).
    assert (H1 : Qlt_bool 0 (t - toQ o) = false) by (apply Qlt_bool_false; exact Ht).
    assert (H2 : Qlt_bool 0 (toQ o - toQ o) = false) by (apply Qlt_bool_false; lra).
    rewrite H1, H2. reflexivity.
  Qed.

  (* totality: for EVERY time the evaluation answers, with a value between two consecutive levels
     (segment k, whose length is then positive) or with the last level *)
  Lemma env_at_total t :
    times e <> [] ->
    (forall k s, segment e k = Some s -> seg_inside sv (toQ (s_shape s)) (toQ (s_curve s))) ->
    exists v k, env_at_with sv e t = Ok v /\ (k <= length (times e))%nat
      /\ ((k < length (times e))%nat -> between (level_at e k) (level_at e (S k)) v)
      /\ (k = length (times e) -> v = level_at e k).
  Proof.
    intros Hne Hin. rewrite (env_at_segs sv e o t Hwf Hne Hoff).
    assert (Ht : 0 <= rel_time e t).
    { unfold rel_time. destruct (Qlt_bool 0 (t - offsetQ e)) eqn:E; [apply Qlt_bool_true in E; lra|lra]. }
    assert (Hall : Forall (fun s => seg_inside sv (q_shape s) (q_curve s)) (qsegs e)).
    { apply Forall_forall. intros q Hq. apply In_nth_error in Hq. destruct Hq as (k & Hk).
      unfold qsegs in Hk. rewrite nth_error_map in Hk.
      destruct (nth_error (d_segs (normalise e)) k) as [s|] eqn:Es; [|discriminate].
      inversion Hk; subst q. apply (Hin k s). exact Es. }
    destruct (at_segs_total sv (qsegs e) (start_level e) 0 (rel_time e t)
                (durs_nonneg_qsegs e Hnn) Ht Hall) as (v & j & Hv & Hj & _ & Hlt & Heq).
    rewrite qsegs_length in *. exists v, j. split; [exact Hv|]. split; [exact Hj|]. split.
    - intros Hjl. destruct (Hlt Hjl) as [_ Hb].
      rewrite (level_at_Lq e j Hwf) in Hb by lia. rewrite (level_at_Lq e (S j) Hwf) in Hb by lia. exact Hb.
    - intros Hjl. rewrite (Heq Hjl). apply level_at_Lq; [exact Hwf|lia].
  Qed.
End Laws2.

(* a missing offset (offset=None) makes the evaluation raise: time - None *)
Lemma env_at_offset_none sv e t : wf_env e -> offset e = None -> env_at_with sv e t = Err TypeError.
Proof. intros Hwf Ho. unfold env_at_with. rewrite (envgen_format_encode e Hwf). cbn [bind]. rewrite Ho. reflexivity. Qed.
(* an envelope without a segment cannot be evaluated: "Env must have at least one stage" *)
Lemma env_at_no_segment sv e o t : wf_env e -> offset e = Some o -> times e = [] ->
  env_at_with sv e t = Err ValueError.
Proof.
  intros Hwf Ho Ht. unfold env_at_with. rewrite (envgen_format_encode e Hwf). cbn [bind]. rewrite Ho.
  unfold env_at_data, encode_env. cbn [normalise d_segs]. rewrite Ht. reflexivity.
Qed.
