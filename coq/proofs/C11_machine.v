(* C11 -- the documented transition table, absorbing states, "runs to the next yield",
   and the refutations of the same statements on the model of the code as released. *)
From Coq Require Import ZArith List Bool Arith Lia.
Require Import SC3.model.Cond SC3.model.Routine SC3.proofs.C11_stack.
Import ListNotations.

Section Machine.
Variable defs : list rdef.
Local Notation cfg := patched.

(* ---- the table ------------------------------------------------------------------ *)
Lemma next_paused : forall fuel r v w x, getr w r = Some x -> st x = Paused ->
  next_ cfg defs (S fuel) r v w = (w, Exc EPausedStream).
Proof. intros fuel r v w x E SX. simpl. unfold next_step. unfold getr in E. rewrite E, SX. reflexivity. Qed.

Lemma next_done : forall fuel r v w x, getr w r = Some x -> st x = Done ->
  next_ cfg defs (S fuel) r v w = (w, match term x with None => Exc EStopStream | Some t => Ret t end).
Proof. intros fuel r v w x E SX. simpl. unfold next_step. unfold getr in E. rewrite E, SX. reflexivity. Qed.

Lemma next_running : forall fuel r v w x, getr w r = Some x -> st x = Running ->
  next_ cfg defs (S fuel) r v w = (w, Exc ERoutine).
Proof. intros fuel r v w x E SX. simpl. unfold next_step. unfold getr in E. rewrite E, SX. reflexivity. Qed.

Lemma next_runs : forall fuel r v w x, good w -> getr w r = Some x -> st x = Init \/ st x = Suspended ->
  nth_error defs r <> None ->
  exists x', getr (fst (next_ cfg defs (S fuel) r v w)) r = Some x' /\
             out_rel (snd (next_ cfg defs (S fuel) r v w)) x'.
Proof.
  intros fuel r v w x G E SX D. simpl. unfold next_step. fold (getr w r). rewrite E.
  destruct (next_run_ok defs (next_ cfg defs fuel) (next_ok defs fuel) r v w x G E) as (_ & _ & K);
    try (destruct SX; congruence).
  destruct SX as [SX | SX]; rewrite SX; simpl; exact (K D).
Qed.

Lemma stop_table : forall r w x, getr w r = Some x ->
  (st x = Running -> do_stop r w = (w, Exc ERoutine)) /\
  (st x <> Running -> do_stop r w = (set_rt r (with_st Done (with_lastv VNone (with_iter None x))) w, Ret VNone)).
Proof. intros r w x E. unfold do_stop. unfold getr in E. rewrite E. split; intro SX; destruct (st x); congruence. Qed.

Lemma reset_table : forall r w x, getr w r = Some x ->
  (st x = Running -> do_reset cfg r w = (w, Exc ERoutine)) /\
  (st x <> Running ->
   do_reset cfg r w = (set_rt r (with_term None (with_st Init (with_iter None x))) w, Ret VNone)).
Proof. intros r w x E. unfold do_reset. unfold getr in E. rewrite E. split; intro SX; destruct (st x); simpl; congruence. Qed.

Lemma pause_table : forall r w x, getr w r = Some x ->
  (st x = Running -> do_pause r w = (w, Exc ERoutine)) /\
  (st x = Init \/ st x = Suspended -> do_pause r w = (set_rt r (with_st Paused x) w, Ret VNone)) /\
  (st x = Paused \/ st x = Done -> do_pause r w = (w, Ret VNone)).
Proof.
  intros r w x E. unfold do_pause. unfold getr in E. rewrite E.
  split; [| split]; intro SX; destruct (st x); try congruence; destruct SX; congruence.
Qed.

Lemma resume_table : forall r w x, getr w r = Some x ->
  (st x = Paused -> do_resume r w = sched_all [r] (set_rt r (with_st Suspended x) w)) /\
  (st x <> Paused -> do_resume r w = (w, Ret VNone)).
Proof. intros r w x E. unfold do_resume. unfold getr in E. rewrite E. split; intro SX; destruct (st x); congruence. Qed.

Lemma play_table : forall r w x, getr w r = Some x ->
  (st x = Init \/ st x = Paused -> do_play r w = sched_all [r] (set_rt r (with_st Suspended x) w)) /\
  (st x <> Init -> st x <> Paused -> do_play r w = (w, Ret VNone)).
Proof.
  intros r w x E. unfold do_play. unfold getr in E. rewrite E.
  split; [intro SX; destruct (st x); try congruence; destruct SX; congruence
         | intros A B; destruct (st x); congruence].
Qed.

(* clock.sched(0, r) from a thread whose logical time is t queues exactly one wake-up at t *)
Lemma sched_one : forall r w t, cur_secs w = Some t ->
  sched_all [r] w = (set_queue (enqueue t r (queue w)) w, Ret VNone).
Proof. intros r w t C. unfold sched_all. rewrite C. reflexivity. Qed.

(* ---- next() runs the body to its next yield and returns the yielded value ---------- *)
Lemma exec_logs_then_yield : forall call_next pre self pc w v rest,
  Forall (fun a => exists u, a = ALog u) pre ->
  exists w', exec cfg call_next self Gen (pre ++ AYield v :: rest) pc w = (w', BYield v (S (pc + length pre)))
             /\ rts w' = rts w /\ cur w' = cur w.
Proof.
  intros call_next. induction pre as [| a pre IH]; intros self pc w v rest F.
  - simpl. exists w. rewrite Nat.add_0_r. auto.
  - inversion F as [| a' l' [u Hu] F']; subst. simpl.
    destruct (IH self (S pc) (log_self self u w) v rest F') as (w' & E1 & E2 & E3).
    exists w'. rewrite E1. split; [f_equal; f_equal; lia |].
    unfold log_self in *. destruct (nth_error (rts w) self); simpl in *; auto.
Qed.

(* ---- absorbing states: a generic frame argument ------------------------------------ *)
Section Stable.
Variable r : nat.
Variable P : rt -> Prop.
Variable allowed : call -> bool.
Hypothesis P_inert : forall x, P x -> st x = Paused \/ st x = Done.
Hypothesis P_direct : forall c w x, allowed c = true -> getr w r = Some x -> P x ->
  exists x', getr (fst (do_direct cfg c w)) r = Some x' /\ P x'.

Definition holds (w : world) : Prop := exists x, getr w r = Some x /\ P x.
Definition Stab (call_next : nat -> val -> world -> world * outcome) : Prop :=
  forall r' v w, holds w -> holds (fst (call_next r' v w)).
Definition acts_allowed (acts : list act) : Prop :=
  forall c catch, In (ACall c catch) acts -> allowed c = true.

Lemma holds_same_rts : forall w w', rts w' = rts w -> holds w -> holds w'.
Proof. intros w w' E (x & A & B). exists x. unfold getr in *. rewrite E. auto. Qed.

Lemma do_call_stab : forall call_next, Stab call_next -> forall c w,
  allowed c = true -> holds w -> holds (fst (do_call cfg call_next c w)).
Proof.
  intros call_next H c w A Hw. destruct c; try (destruct Hw as (x & E & Px); exact (P_direct _ w x A E Px)).
  simpl. apply H. exact Hw.
Qed.

Lemma exec_stab : forall call_next, Stab call_next -> forall acts self k pc w,
  acts_allowed acts -> holds w -> holds (fst (exec cfg call_next self k acts pc w)).
Proof.
  intros call_next H. induction acts as [| a rest IH]; intros self k pc w AA Hw; simpl; [exact Hw |].
  assert (AR : acts_allowed rest) by (intros c catch I; eapply AA; right; exact I).
  destruct a as [v | | | v | v | c catch | c | c | v | | rr vv]; simpl; try exact Hw.
  - destruct k; simpl; [exact Hw | apply IH; assumption].
  - assert (Ac : allowed c = true) by (eapply AA; left; reflexivity).
    pose proof (do_call_stab call_next H c w Ac Hw) as H1.
    destruct (do_call cfg call_next c w) as [w1 o]. simpl in H1.
    destruct o as [u | e]; [apply IH; [exact AR | eapply holds_same_rts; [| exact H1]; reflexivity] |].
    destruct (catch && catchable e); [apply IH; [exact AR | eapply holds_same_rts; [| exact H1]; reflexivity] | exact H1].
  - destruct k; [| apply IH; assumption].
    unfold do_wait. destruct (nth_error (cells w) c) as [cx |]; [| exact Hw].
    destruct (cur w) as [[| t] |]; try exact Hw.
    + destruct (cell_err cx); [exact Hw |]. destruct (cell_test cx); [exact Hw |].
      destruct (tplayer (S (length (rts w))) w t); [| exact Hw].
      destruct (cell_wait n cx). simpl. eapply holds_same_rts; [| exact Hw]. reflexivity.
    + destruct (cell_err cx); [exact Hw |]. destruct (cell_test cx); exact Hw.
  - apply IH; [exact AR |]. destruct (nth_error (cells w) c); [eapply holds_same_rts; [| exact Hw]; reflexivity | exact Hw].
  - apply IH; [exact AR |]. unfold log_self. destruct (nth_error (rts w) self); [eapply holds_same_rts; [| exact Hw]; reflexivity | exact Hw].
  - destruct k; [| apply IH; assumption].
    pose proof (H rr vv w Hw) as H1. destruct (call_next rr vv w) as [w1 o]. simpl in H1.
    destruct o; exact H1.
Qed.

Hypothesis scripts_allowed : forall i d, nth_error defs i = Some d -> acts_allowed (d_script d).

Lemma acts_allowed_skipn : forall n acts, acts_allowed acts -> acts_allowed (skipn n acts).
Proof.
  intros n acts A c catch I. eapply A. clear A. revert acts I.
  induction n as [| n IH]; intros acts I; [exact I |].
  destruct acts as [| a' acts]; [exact I | right; apply IH; exact I].
Qed.

Lemma holds_set_other : forall w i y, i <> r -> holds w -> holds (set_rt i y w).
Proof. intros w i y N (x & A & B). exists x. rewrite getr_set_other; auto. Qed.

Lemma finish_stab : forall i d b own w, i <> r -> holds w -> holds (fst (finish i d b own w)).
Proof.
  intros i d b own w N Hw. unfold finish. destruct (nth_error (rts w) i) as [y |]; [| exact Hw].
  match goal with
  | [ |- context [ let '(x1, o) := ?X in _ ] ] => destruct X as [x1 o]
  end.
  simpl. eapply holds_same_rts with (w := set_rt i _ w); [reflexivity |]. apply holds_set_other; assumption.
Qed.

Ltac frame_holds Hw :=
  unfold holds, getr; simpl; rewrite ?nth_upd_other by assumption; exact Hw.

Ltac run_body H SA Q Hw :=
  match goal with
  | [ |- holds (fst (let '(w3, b) := exec _ ?cn ?i ?k ?acts ?pc ?W in _)) ] =>
    let H2 := fresh "H2" in
    assert (H2 : holds W) by (frame_holds Hw);
    let H3 := fresh "H3" in
    pose proof (exec_stab cn H acts i k pc W ltac:(first [exact SA | apply acts_allowed_skipn; exact SA]) H2) as H3;
    destruct (exec cfg cn i k acts pc W) as [w3 b]; simpl in H3; apply finish_stab; [exact Q | exact H3]
  end.

Lemma next_step_stab : forall call_next, Stab call_next -> Stab (next_step cfg defs call_next).
Proof.
  intros call_next H r' v w Hw. unfold next_step.
  destruct (nth_error (rts w) r') as [y |] eqn:E; [| exact Hw].
  destruct (Nat.eq_dec r' r) as [Q | Q].
  - subst r'. destruct Hw as (x & A & B). unfold getr in A. rewrite E in A. inversion A; subst y.
    destruct (P_inert x B) as [S1 | S1]; rewrite S1; simpl; exists x; auto.
  - assert (RUN : holds (fst (next_run cfg defs call_next r' v w y))).
    { unfold next_run. destruct (nth_error defs r') as [d |] eqn:D; [| exact Hw].
      pose proof (scripts_allowed r' d D) as SA.
      destruct (cur w) as [p |]; [| frame_holds Hw].
      destruct (secs_of p w) as [ps |]; [| exact Hw].
      destruct (d_kind d).
      - destruct (gexec y).
        + destruct (iter y); [apply finish_stab; [exact Q | frame_holds Hw] | frame_holds Hw].
        + destruct (iter y) as [n |].
          * destruct (nth_error (d_script d) (Nat.pred n)) as [[] |]; run_body H SA Q Hw.
          * destruct (d_hasin d); run_body H SA Q Hw.
      - destruct (d_hasin d); run_body H SA Q Hw. }
    destruct (st y); simpl; try exact Hw; exact RUN.
Qed.

Lemma next_stab : forall fuel, Stab (next_ cfg defs fuel).
Proof.
  induction fuel as [| f IH]; [intros r' v w Hw; exact Hw |].
  simpl. apply next_step_stab. exact IH.
Qed.

Definition op_allowed (o : top_op) : bool := match o with OCall c => allowed c | OTick => true end.

Lemma top_stab : forall fuel o w, op_allowed o = true -> holds w -> holds (fst (top cfg defs fuel o w)).
Proof.
  intros fuel o w A Hw. destruct o as [c |]; simpl.
  - apply do_call_stab; [apply next_stab | exact A | exact Hw].
  - destruct (queue w) as [| [t i] q]; [exact Hw |].
    assert (H1 : holds (set_main_secs t (set_queue q w))) by (eapply holds_same_rts; [| exact Hw]; reflexivity).
    pose proof (next_stab fuel i VAwake _ H1) as H2.
    destruct (next_ cfg defs fuel i VAwake (set_main_secs t (set_queue q w))) as [w2 o]. simpl in H2.
    destruct o as [[| d | | | | | d | | |] | e]; exact H2.
Qed.

Lemma run_stab : forall fuel ops w, forallb op_allowed ops = true -> holds w ->
  holds (fst (run cfg defs fuel ops w)) /\ Forall (fun p => holds (snd p)) (snd (run cfg defs fuel ops w)).
Proof.
  intros fuel. induction ops as [| o ops IH]; intros w A Hw; simpl.
  - split; [exact Hw | constructor].
  - simpl in A. apply andb_prop in A. destruct A as [Ao Ar].
    pose proof (top_stab fuel o w Ao Hw) as H1.
    destruct (top cfg defs fuel o w) as [w1 out]. simpl in H1.
    destruct (IH w1 Ar H1) as [H2 F2]. destruct (run cfg defs fuel ops w1) as [w2 outs]. simpl in *.
    split; [exact H2 | constructor; [exact H1 | exact F2]].
Qed.

End Stable.

Lemma sched_all_rts : forall rs w, rts (fst (sched_all rs w)) = rts w.
Proof. intros rs w. unfold sched_all. destruct rs; [reflexivity |]. destruct (cur_secs w); reflexivity. Qed.

(* Done (with a given terminal value) is left only by reset *)
Definition not_reset (r : nat) (c : call) : bool :=
  match c with CReset i => negb (Nat.eqb i r) | _ => true end.
Definition P_done (t : option val) (x : rt) : Prop := st x = Done /\ term x = t.

(* Paused is left only by resume, play, stop or reset *)
Definition not_unpause (r : nat) (c : call) : bool :=
  match c with CResume i | CPlay i | CStop i | CReset i => negb (Nat.eqb i r) | _ => true end.
Definition P_paused (x : rt) : Prop := st x = Paused.

Ltac frame_rt r i E Px :=
  destruct (Nat.eq_dec i r) as [Q | Q];
  [ subst i | ].

Lemma done_direct : forall r t c w x, not_reset r c = true -> getr w r = Some x -> P_done t x ->
  exists x', getr (fst (do_direct cfg c w)) r = Some x' /\ P_done t x'.
Proof.
  intros r t c w x A E [S1 T1].
  assert (KEEP : exists x', getr w r = Some x' /\ P_done t x') by (exists x; split; [exact E | split; assumption]).
  assert (OTHER : forall i y, i <> r -> exists x', getr (set_rt i y w) r = Some x' /\ P_done t x').
  { intros i y Q. exists x. rewrite getr_set_other; auto. split; [exact E | split; assumption]. }
  assert (SCHED : forall rs w', (exists x', getr w' r = Some x' /\ P_done t x') ->
                                exists x', getr (fst (sched_all rs w')) r = Some x' /\ P_done t x').
  { intros rs w' K. unfold getr. rewrite sched_all_rts. exact K. }
  destruct c as [i v | i | i | i | i | i | c | c | c b | c v]; simpl; try exact KEEP.
  - unfold do_stop. destruct (nth_error (rts w) i) as [y |] eqn:Y; [| exact KEEP].
    destruct (Nat.eq_dec i r) as [Q | Q].
    + subst i. unfold getr in E. rewrite E in Y. inversion Y; subst y. rewrite S1. simpl.
      eexists. split; [eapply getr_set_same; exact E | split; simpl; [reflexivity | exact T1]].
    + destruct (st y); simpl; try exact KEEP; apply OTHER; exact Q.
  - unfold do_pause. destruct (nth_error (rts w) i) as [y |] eqn:Y; [| exact KEEP].
    destruct (Nat.eq_dec i r) as [Q | Q].
    + subst i. unfold getr in E. rewrite E in Y. inversion Y; subst y. rewrite S1. exact KEEP.
    + destruct (st y); simpl; try exact KEEP; apply OTHER; exact Q.
  - unfold do_resume. destruct (nth_error (rts w) i) as [y |] eqn:Y; [| exact KEEP].
    destruct (Nat.eq_dec i r) as [Q | Q].
    + subst i. unfold getr in E. rewrite E in Y. inversion Y; subst y. rewrite S1. exact KEEP.
    + destruct (st y); try exact KEEP. apply SCHED. apply OTHER; exact Q.
  - unfold do_reset. destruct (nth_error (rts w) i) as [y |] eqn:Y; [| exact KEEP].
    destruct (Nat.eq_dec i r) as [Q | Q]; [subst i; simpl in A; rewrite Nat.eqb_refl in A; discriminate |].
    destruct (st y); simpl; try exact KEEP; apply OTHER; exact Q.
  - unfold do_play. destruct (nth_error (rts w) i) as [y |] eqn:Y; [| exact KEEP].
    destruct (Nat.eq_dec i r) as [Q | Q].
    + subst i. unfold getr in E. rewrite E in Y. inversion Y; subst y. rewrite S1. exact KEEP.
    + destruct (st y); try exact KEEP; apply SCHED; apply OTHER; exact Q.
  - unfold do_signal. destruct (nth_error (cells w) c); [| exact KEEP]. destruct (cell_err c0); [exact KEEP |]. destruct (cell_signal c0). apply SCHED. exact KEEP.
  - unfold do_unhang. destruct (nth_error (cells w) c); [| exact KEEP]. destruct (cell_unhang c0). apply SCHED. exact KEEP.
  - unfold do_settest. destruct (nth_error (cells w) c); exact KEEP.
  - unfold do_flowset. destruct (nth_error (cells w) c); [| exact KEEP].
    destruct (cell_flowset v c0) as [[x' ws] |]; [apply SCHED |]; exact KEEP.
Qed.

Lemma paused_direct : forall r c w x, not_unpause r c = true -> getr w r = Some x -> P_paused x ->
  exists x', getr (fst (do_direct cfg c w)) r = Some x' /\ P_paused x'.
Proof.
  intros r c w x A E S1. unfold P_paused in *.
  assert (KEEP : exists x', getr w r = Some x' /\ st x' = Paused) by (exists x; split; assumption).
  assert (OTHER : forall i y, i <> r -> exists x', getr (set_rt i y w) r = Some x' /\ st x' = Paused).
  { intros i y Q. exists x. rewrite getr_set_other; auto. }
  assert (SCHED : forall rs w', (exists x', getr w' r = Some x' /\ st x' = Paused) ->
                                exists x', getr (fst (sched_all rs w')) r = Some x' /\ st x' = Paused).
  { intros rs w' K. unfold getr. rewrite sched_all_rts. exact K. }
  assert (NEQ : forall i, negb (Nat.eqb i r) = true -> i <> r).
  { intros i H Q. subst. rewrite Nat.eqb_refl in H. discriminate. }
  destruct c as [i v | i | i | i | i | i | c | c | c b | c v]; simpl in *; try exact KEEP.
  - unfold do_stop. destruct (nth_error (rts w) i) as [y |] eqn:Y; [| exact KEEP].
    destruct (st y); simpl; try exact KEEP; apply OTHER; auto.
  - unfold do_pause. destruct (nth_error (rts w) i) as [y |] eqn:Y; [| exact KEEP].
    destruct (Nat.eq_dec i r) as [Q | Q].
    + subst i. unfold getr in E. rewrite E in Y. inversion Y; subst y. rewrite S1. exact KEEP.
    + destruct (st y); simpl; try exact KEEP; apply OTHER; exact Q.
  - unfold do_resume. destruct (nth_error (rts w) i) as [y |] eqn:Y; [| exact KEEP].
    destruct (st y); try exact KEEP. apply SCHED. apply OTHER; auto.
  - unfold do_reset. destruct (nth_error (rts w) i) as [y |] eqn:Y; [| exact KEEP].
    destruct (st y); simpl; try exact KEEP; apply OTHER; auto.
  - unfold do_play. destruct (nth_error (rts w) i) as [y |] eqn:Y; [| exact KEEP].
    destruct (st y); try exact KEEP; apply SCHED; apply OTHER; auto.
  - unfold do_signal. destruct (nth_error (cells w) c); [| exact KEEP]. destruct (cell_err c0); [exact KEEP |]. destruct (cell_signal c0). apply SCHED. exact KEEP.
  - unfold do_unhang. destruct (nth_error (cells w) c); [| exact KEEP]. destruct (cell_unhang c0). apply SCHED. exact KEEP.
  - unfold do_settest. destruct (nth_error (cells w) c); exact KEEP.
  - unfold do_flowset. destruct (nth_error (cells w) c); [| exact KEEP].
    destruct (cell_flowset v c0) as [[x' ws] |]; [apply SCHED |]; exact KEEP.
Qed.

End Machine.
