(* C19 -- the standard constructors produce their documented breakpoints. *)
From Coq Require Import ZArith QArith Qabs String List Bool Lia Lqa Arith Permutation.
Require Import SC3.lib.PyNum SC3.gen.Gen_envtables SC3.model.Env SC3.proofs.C19_format.
Import ListNotations.
Open Scope list_scope.
Open Scope Q_scope.

Definition ok (a : num) : Prop := is_ok a = true.

Lemma toQ_nmul a b : ok a -> ok b -> toQ (nmul a b) == toQ a * toQ b.
Proof.
  destruct a, b; unfold ok; simpl; intros; try discriminate; try reflexivity.
  all: try (rewrite inject_Z_mult; reflexivity).
Qed.
Lemma toQ_nadd a b : ok a -> ok b -> toQ (nadd a b) == toQ a + toQ b.
Proof.
  destruct a, b; unfold ok; simpl; intros; try discriminate; try reflexivity.
  all: try (rewrite inject_Z_plus; reflexivity).
Qed.
Lemma toQ_nsub a b : ok a -> ok b -> toQ (nsub a b) == toQ a - toQ b.
Proof.
  destruct a, b; unfold ok; simpl; intros; try discriminate; try reflexivity.
  all: try (unfold Z.sub; rewrite inject_Z_plus, inject_Z_opp; reflexivity).
Qed.
Lemma ok_nmul a b : ok a -> ok b -> ok (nmul a b).
Proof. destruct a, b; unfold ok; simpl; intros; try discriminate; reflexivity. Qed.

(* breakpoints compared as rationals *)
Definition bp_eq (l1 l2 : list (Q * Q)) : Prop :=
  Forall2 (fun a b => fst a == fst b /\ snd a == snd b) l1 l2.

Local Opaque nadd nmul nsub.
Ltac okt := assumption || reflexivity || (apply ok_nmul; assumption).
Ltac bp := unfold bp_eq, breakpoints, breaktime, level_at; cbn;
  repeat (constructor; [split; cbn;
                        repeat first [rewrite toQ_nadd by okt | rewrite toQ_nmul by okt];
                        cbn; try lra; try ring|]);
  try constructor.

Lemma triangle_bp dur level : ok dur -> ok level ->
  let e := env_triangle dur level in
  bp_eq (breakpoints e) [(0, 0); (toQ dur * (1 # 2), toQ level); (toQ dur, 0)]
  /\ release e = None /\ loop e = None /\ curves e = [CName "lin"].
Proof. intros Hd Hl. split; [bp|auto]. Qed.

Lemma sine_bp dur level : ok dur -> ok level ->
  let e := env_sine dur level in
  bp_eq (breakpoints e) [(0, 0); (toQ dur * (1 # 2), toQ level); (toQ dur, 0)]
  /\ release e = None /\ loop e = None /\ curves e = [CName "sine"].
Proof. intros Hd Hl. split; [bp|auto]. Qed.

Lemma perc_bp a r level c :
  let e := env_perc a r level c in
  bp_eq (breakpoints e) [(0, 0); (toQ a, toQ level); (toQ a + toQ r, 0)]
  /\ release e = None /\ loop e = None /\ curves e = curves_list c.
Proof. split; [bp|auto]. Qed.

Lemma linen_bp a s r level c :
  let e := env_linen a s r level c in
  bp_eq (breakpoints e) [(0, 0); (toQ a, toQ level); (toQ a + toQ s, toQ level); (toQ a + toQ s + toQ r, 0)]
  /\ release e = None /\ loop e = None /\ curves e = curves_list c.
Proof. split; [bp|auto]. Qed.

Lemma asr_bp a s r c :
  let e := env_asr a s r c in
  bp_eq (breakpoints e) [(0, 0); (toQ a, toQ s); (toQ a + toQ r, 0)]
  /\ release e = Some 1%Z /\ loop e = None /\ curves e = curves_list c.
Proof. split; [bp|auto]. Qed.

Lemma adsr_bp a d s r p c b : ok s -> ok p -> ok b ->
  let e := env_adsr a d s r p c b in
  bp_eq (breakpoints e)
        [(0, toQ b); (toQ a, toQ p + toQ b); (toQ a + toQ d, toQ p * toQ s + toQ b); (toQ a + toQ d + toQ r, toQ b)]
  /\ release e = Some 2%Z /\ loop e = None /\ curves e = curves_list c.
Proof. intros Hs Hp Hb. split; [bp|auto]. Qed.

Lemma dadsr_bp dl a d s r p c b : ok s -> ok p -> ok b ->
  let e := env_dadsr dl a d s r p c b in
  bp_eq (breakpoints e)
        [(0, toQ b); (toQ dl, toQ b); (toQ dl + toQ a, toQ p + toQ b);
         (toQ dl + toQ a + toQ d, toQ p * toQ s + toQ b); (toQ dl + toQ a + toQ d + toQ r, toQ b)]
  /\ release e = Some 3%Z /\ loop e = None /\ curves e = curves_list c.
Proof. intros Hs Hp Hb. split; [bp|auto]. Qed.

(* cutoff: sustains at `level`, releases to 0 -- or to -100 dB (eps) for an exponential segment *)
Lemma cutoff_bp eps r level c k : server_shape c = Some k ->
  exists e, env_cutoff eps r level c = Ok e
  /\ bp_eq (breakpoints e) [(0, toQ level); (toQ r, if (k =? 2)%Z then toQ eps else 0)]
  /\ release e = Some 0%Z /\ loop e = None /\ curves e = [c].
Proof.
  intros Hk. unfold env_cutoff. apply shape_numbers_all in Hk. rewrite Hk. cbn [bind].
  eexists. split; [reflexivity|]. split; [|auto]. destruct (k =? 2)%Z; bp.
Qed.

(* every accepted spelling of the curve: a name / number, or the same inside a one-element list *)
Lemma cutoff_c_scalar eps r level c : env_cutoff_c eps r level (CScalar c) = env_cutoff eps r level c.
Proof.
  unfold env_cutoff_c, env_cutoff, cutoff_shape. destruct (shape_number c) as [k|e]; [|reflexivity].
  reflexivity.
Qed.
Lemma cutoff_c_bp eps r level c k : server_shape c = Some k ->
  forall ca, ca = CScalar c \/ ca = CList [c] ->
  exists e, env_cutoff_c eps r level ca = Ok e
  /\ bp_eq (breakpoints e) [(0, toQ level); (toQ r, if (k =? 2)%Z then toQ eps else 0)]
  /\ release e = Some 0%Z /\ loop e = None /\ curves e = [c].
Proof.
  intros Hk ca Hca. apply shape_numbers_all in Hk. unfold env_cutoff_c, cutoff_shape.
  destruct Hca as [-> | ->]; rewrite Hk; cbn [bind]; (eexists; split; [reflexivity|]; split; [|auto]);
    destruct (k =? 2)%Z; bp.
Qed.

(* ------------------------------------------------------------------ step *)
Lemma wrap_extend_id {A} (l : list A) : l <> [] -> wrap_extend l (length l) = l.
Proof.
  intros Hl. rewrite wrap_extend_unfold by exact Hl. pose proof (length_nonzero l Hl) as Hn.
  rewrite Nat.div_same, Nat.mod_same by exact Hn. simpl. rewrite !app_nil_r. reflexivity.
Qed.

Lemma step_bp lv tm rel lp off : lv <> [] -> length lv = length tm ->
  exists e, env_step (Some lv) (Some tm) rel lp off = Ok e
  /\ levels e = hd NErr lv :: lv /\ times e = tm /\ curves e = [CName "step"]
  /\ release e = option_map (fun r => (r - 1)%Z) rel /\ loop e = lp /\ offset e = off.
Proof.
  intros Hne Hlen. unfold env_step.
  destruct lv as [|l0 lv']; [contradiction|]. destruct tm as [|t0 tm']; [discriminate|].
  rewrite Hlen, Nat.eqb_refl. cbn [negb]. eexists. split; [reflexivity|].
  unfold env_init. cbn [levels times curves release loop offset hd times_list curves_list length].
  repeat split. replace (S (S (length lv')) - 1)%nat with (length (t0 :: tm')) by (simpl in *; lia).
  apply wrap_extend_id. discriminate.
Qed.
(* the documented defaults: Env.step() *)
Lemma step_defaults : exists e, env_step None None None None (Some (I 0)) = Ok e
  /\ levels e = [I 0; I 0; I 1] /\ times e = [I 1; I 1] /\ release e = None.
Proof. eexists. split; [reflexivity|]. auto. Qed.

(* ------------------------------------------------------------------ xyc / pairs *)
Lemma insert_pt_perm p l : Permutation (p :: l) (insert_pt p l).
Proof.
  induction l as [|q r IH]; simpl; [apply Permutation_refl|].
  destruct (nlt (pt_time p) (pt_time q)); [apply Permutation_refl|].
  eapply perm_trans; [apply perm_swap|]. apply perm_skip, IH.
Qed.
Lemma sort_pts_perm l : Permutation l (sort_pts l).
Proof.
  unfold sort_pts. rewrite <- (app_nil_r l) at 1. generalize (@nil pt) as acc.
  induction l as [|p r IH]; intros acc; simpl; [apply Permutation_refl|].
  eapply perm_trans; [|apply IH]. eapply perm_trans; [apply Permutation_middle|].
  apply Permutation_app_head, insert_pt_perm.
Qed.

Lemma diffs_length l : length (diffs l) = (length l - 1)%nat.
Proof.
  induction l as [|a [|b r] IH]; try reflexivity. simpl in *. rewrite IH. lia.
Qed.

Lemma xyc_times tms : wrap_extend (times_list (TList (diffs tms))) (length tms - 1) = diffs tms.
Proof.
  destruct (diffs tms) as [|d r] eqn:E.
  - pose proof (diffs_length tms) as H. rewrite E in H. simpl in H. rewrite <- H. reflexivity.
  - simpl. pose proof (diffs_length tms) as H. rewrite E in H. rewrite <- H.
    apply wrap_extend_id. discriminate.
Qed.

(* telescoping: the time from the first point to the k-th *)
Lemma diffs_sum tms : Forall ok tms -> forall k, (k < length tms)%nat ->
  qsum (firstn k (map toQ (diffs tms))) == toQ (nth k tms NErr) - toQ (hd NErr tms).
Proof.
  induction tms as [|a [|b r] IH]; intros Hok k Hk; [simpl in Hk; lia| |].
  - simpl in Hk. replace k with 0%nat by lia. simpl. lra.
  - inversion Hok as [|? ? Ha Hr]; subst. inversion Hr as [|? ? Hb Hr']; subst.
    destruct k; [simpl; lra|].
    change (diffs (a :: b :: r)) with (nsub b a :: diffs (b :: r)).
    cbn [map firstn]. change (qsum (?x :: ?l)) with (x + qsum l).
    rewrite (IH Hr k) by (simpl in *; lia). rewrite toQ_nsub by assumption. cbn [hd nth]. ring.
Qed.

Lemma xyc_bp pts s0 sr : sort_pts pts = s0 :: sr ->
  let s := s0 :: sr in
  exists e, env_xyc pts = Ok e
  /\ Permutation pts s
  /\ levels e = map (fun p => snd (fst p)) s
  /\ offset e = Some (pt_time s0)
  /\ curves e = removelast (map snd s)
  /\ release e = None /\ loop e = None
  /\ (Forall ok (map pt_time s) -> forall k, (k < length s)%nat ->
      breaktime e k == toQ (pt_time (nth k s s0)) - toQ (pt_time s0)).
Proof.
  intros Hs s. subst s. unfold env_xyc. rewrite Hs. eexists. split; [reflexivity|].
  split; [rewrite <- Hs; apply sort_pts_perm|].
  unfold env_init. cbn [levels times curves release loop offset curves_list].
  assert (Hl : length (map (fun p : pt => snd (fst p)) (s0 :: sr)) = length (map pt_time (s0 :: sr)))
    by (rewrite !map_length; reflexivity).
  repeat split.
  intros Hok k Hk. unfold breaktime. cbn [times].
  match goal with |- context [wrap_extend _ ?n] =>
    replace n with (length (map pt_time (s0 :: sr)) - 1)%nat by (cbn [map length]; rewrite !map_length; reflexivity) end.
  rewrite xyc_times. rewrite diffs_sum by (try exact Hok; rewrite map_length; exact Hk).
  change NErr with (pt_time (NErr, NErr, CName "")) at 1. rewrite map_nth. cbn [hd map].
  rewrite (nth_indep (s0 :: sr) _ s0) by exact Hk. reflexivity.
Qed.

(* ====================================================================================
   Deepening round: the sort of xyc is a sort; the breakpoints of xyc / pairs are the sorted points. *)
From Coq Require Import Sorting.Sorted.
Local Transparent nadd nmul nsub.

Definition pt_level (p : pt) : num := snd (fst p).
Definition le_time (p q : pt) : Prop := toQ (pt_time p) <= toQ (pt_time q).

Lemma nlt_ok a b : ok a -> ok b -> nlt a b = Qlt_bool (toQ a) (toQ b).
Proof. destruct a, b; unfold ok; simpl; intros; try discriminate; reflexivity. Qed.
Lemma Qlt_bool_iff x y : Qlt_bool x y = true <-> x < y.
Proof.
  unfold Qlt_bool. rewrite negb_true_iff. split.
  - intros H. apply Qnot_le_lt. intros Hle. apply Qle_bool_iff in Hle. congruence.
  - intros H. destruct (Qle_bool y x) eqn:E; [|reflexivity]. apply Qle_bool_iff in E. lra.
Qed.

Lemma insert_pt_hd p q r : le_time q p -> HdRel le_time q r -> HdRel le_time q (insert_pt p r).
Proof.
  intros Hqp Hr. destruct r as [|x r']; simpl; [constructor; exact Hqp|].
  destruct (nlt (pt_time p) (pt_time x)); constructor; [exact Hqp|].
  inversion Hr; assumption.
Qed.

Lemma insert_pt_sorted p l : ok (pt_time p) -> Forall (fun q => ok (pt_time q)) l ->
  Sorted le_time l -> Sorted le_time (insert_pt p l).
Proof.
  intros Hp Hok Hs. induction l as [|q r IH]; simpl; [repeat constructor|].
  inversion Hok as [|? ? Hq Hr]; subst. inversion Hs as [|? ? Hsr Hhd]; subst.
  rewrite nlt_ok by assumption.
  destruct (Qlt_bool (toQ (pt_time p)) (toQ (pt_time q))) eqn:E.
  - apply Qlt_bool_iff in E. constructor; [exact Hs|]. constructor. unfold le_time. lra.
  - constructor; [apply IH; assumption|]. apply insert_pt_hd; [|exact Hhd].
    unfold le_time. destruct (Qlt_le_dec (toQ (pt_time p)) (toQ (pt_time q))) as [Hlt|Hle]; [|exact Hle].
    apply Qlt_bool_iff in Hlt. congruence.
Qed.

Lemma insert_pt_ok p l : ok (pt_time p) -> Forall (fun q => ok (pt_time q)) l ->
  Forall (fun q => ok (pt_time q)) (insert_pt p l).
Proof.
  intros Hp Hl. eapply Permutation_Forall; [apply insert_pt_perm|]. constructor; assumption.
Qed.

(* the points come out in non-decreasing time order *)
Lemma sort_pts_sorted l : Forall (fun q => ok (pt_time q)) l -> Sorted le_time (sort_pts l).
Proof.
  unfold sort_pts. intros Hl.
  assert (H : forall acc, Forall (fun q => ok (pt_time q)) acc -> Sorted le_time acc ->
                          Sorted le_time (fold_left (fun acc p => insert_pt p acc) l acc)).
  { induction l as [|p r IH]; intros acc Hacc Hs; [exact Hs|]. simpl.
    inversion Hl as [|? ? Hp Hr]; subst.
    apply IH; [exact Hr|apply insert_pt_ok; assumption|apply insert_pt_sorted; assumption]. }
  apply H; constructor.
Qed.

Lemma Forall2_map_seq {A B C} (P : B -> C -> Prop) (l : list A) (d : A) : forall (f : nat -> B) (g : A -> C),
  (forall k, (k < length l)%nat -> P (f k) (g (nth k l d))) ->
  Forall2 P (map f (seq 0 (length l))) (map g l).
Proof.
  induction l as [|a r IH]; intros f g H; simpl; [constructor|].
  constructor; [apply (H 0%nat); simpl; lia|].
  rewrite <- seq_shift, map_map. apply IH. intros k Hk. apply (H (S k)). simpl. lia.
Qed.

(* xyc: the breakpoints ARE the points in time order, times measured from the first point *)
Lemma xyc_breakpoints pts s0 sr :
  sort_pts pts = s0 :: sr -> Forall (fun q => ok (pt_time q)) pts ->
  let s := s0 :: sr in
  exists e, env_xyc pts = Ok e
  /\ Permutation pts s /\ Sorted le_time s
  /\ bp_eq (breakpoints e) (map (fun p => (toQ (pt_time p) - toQ (pt_time s0), toQ (pt_level p))) s)
  /\ offset e = Some (pt_time s0) /\ curves e = removelast (map snd s)
  /\ release e = None /\ loop e = None.
Proof.
  intros Hs Hok s. destruct (xyc_bp pts s0 sr Hs) as (e & He & Hperm & Hlv & Hoff & Hcv & Hrel & Hlp & Hbt).
  exists e. split; [exact He|]. split; [exact Hperm|].
  split; [subst s; rewrite <- Hs; apply sort_pts_sorted; exact Hok|].
  split; [|auto].
  assert (Hoks : Forall ok (map pt_time s)).
  { apply Forall_map. eapply Permutation_Forall; [exact Hperm|exact Hok]. }
  unfold bp_eq, breakpoints. rewrite Hlv, map_length.
  apply (Forall2_map_seq _ s s0). intros k Hk. cbn [fst snd]. split.
  - apply Hbt; assumption.
  - unfold level_at. rewrite Hlv. change NErr with ((fun p : pt => snd (fst p)) (NErr, NErr, CName "")).
    rewrite map_nth. unfold pt_level. rewrite (nth_indep s _ s0) by exact Hk. reflexivity.
Qed.

(* pairs: attaches 'lin', one curve, or the i-th curve to the i-th pair and calls xyc *)
Definition attach (ps : list (num * num)) (c : pcurves) : option (list pt) :=
  match c with
  | PNone => Some (map (fun p => (fst p, snd p, CName "lin")) ps)
  | PScalar c => Some (map (fun p => (fst p, snd p, c)) ps)
  | PList l => if (length ps =? length l)%nat
               then Some (map (fun pc => (fst (fst pc), snd (fst pc), snd pc)) (combine ps l)) else None
  end.
Definition strip (p : pt) : num * num := (pt_time p, pt_level p).

Lemma strip_combine ps : forall l, length ps = length l ->
  map strip (map (fun pc : num * num * curve => (fst (fst pc), snd (fst pc), snd pc)) (combine ps l)) = ps.
Proof.
  induction ps as [|[a b] r IH]; intros l Hl; destruct l; simpl in *; try discriminate; [reflexivity|].
  f_equal. apply IH. lia.
Qed.

Lemma pairs_is_xyc ps c :
  match attach ps c with
  | Some pts => env_pairs ps c = env_xyc pts /\ map strip pts = ps
                /\ (forall l, c = PList l -> map snd pts = l)
  | None => env_pairs ps c = Err ValueError
  end.
Proof.
  destruct c as [|c|l]; simpl.
  - split; [reflexivity|]. split; [|discriminate]. rewrite map_map. unfold strip, pt_time, pt_level. simpl.
    rewrite <- (map_id ps) at 2. apply map_ext. intros [a b]. reflexivity.
  - split; [reflexivity|]. split; [|discriminate]. rewrite map_map. unfold strip, pt_time, pt_level. simpl.
    rewrite <- (map_id ps) at 2. apply map_ext. intros [a b]. reflexivity.
  - destruct (length ps =? length l)%nat eqn:E; simpl; [|reflexivity].
    apply Nat.eqb_eq in E. split; [reflexivity|]. split; [apply strip_combine; exact E|].
    intros l' Hl'. inversion Hl'; subst l'. rewrite map_map. simpl.
    clear -E. revert l E. induction ps as [|p r IH]; intros l E; destruct l; simpl in *; try discriminate; [reflexivity|].
    f_equal. apply IH. lia.
Qed.

Lemma pairs_breakpoints ps c pts s0 sr :
  attach ps c = Some pts -> sort_pts pts = s0 :: sr -> Forall (fun q => ok (fst q)) ps ->
  let s := s0 :: sr in
  exists e, env_pairs ps c = Ok e
  /\ Permutation ps (map strip s) /\ Sorted le_time s
  /\ bp_eq (breakpoints e) (map (fun p => (toQ (pt_time p) - toQ (pt_time s0), toQ (pt_level p))) s)
  /\ offset e = Some (pt_time s0) /\ curves e = removelast (map snd s)
  /\ release e = None /\ loop e = None.
Proof.
  intros Ha Hs Hok s. pose proof (pairs_is_xyc ps c) as H. rewrite Ha in H. destruct H as (Heq & Hstrip & _).
  assert (Hok' : Forall (fun q => ok (pt_time q)) pts).
  { rewrite <- Hstrip in Hok. rewrite Forall_map in Hok. exact Hok. }
  destruct (xyc_breakpoints pts s0 sr Hs Hok') as (e & He & Hperm & Hsorted & Hbp & Hrest).
  exists e. split; [rewrite Heq; exact He|]. split; [rewrite <- Hstrip; apply Permutation_map; exact Hperm|].
  split; [exact Hsorted|]. split; [exact Hbp|exact Hrest].
Qed.

(* ====================================================================================
   Extension round: the sort of xyc is STABLE -- points with equal times keep their given order
   (Python's list.sort is stable; the model inserts a point after the points it does not precede). *)
Definition same_time (k : Q) (p : pt) : bool := Qeq_bool (toQ (pt_time p)) k.

Lemma le_time_trans : Relations_1.Transitive le_time.
Proof. intros a b c H1 H2. unfold le_time in *. lra. Qed.

Lemma filter_later_empty k l q : Sorted le_time (q :: l) -> k < toQ (pt_time q) -> filter (same_time k) (q :: l) = [].
Proof.
  intros Hs Hk. apply Sorted_StronglySorted in Hs; [|exact le_time_trans].
  apply StronglySorted_inv in Hs. destruct Hs as [_ Hall].
  assert (Hall' : Forall (fun x => k < toQ (pt_time x)) (q :: l)).
  { constructor; [exact Hk|]. eapply Forall_impl; [|exact Hall]. intros x Hx. unfold le_time in Hx. lra. }
  clear -Hall'. induction Hall' as [|x r Hx _ IH]; [reflexivity|]. simpl. rewrite IH.
  unfold same_time. destruct (Qeq_bool (toQ (pt_time x)) k) eqn:E; [|reflexivity].
  apply Qeq_bool_iff in E. lra.
Qed.

Lemma insert_pt_filter k p l : ok (pt_time p) -> Forall (fun q => ok (pt_time q)) l -> Sorted le_time l ->
  filter (same_time k) (insert_pt p l)
  = if same_time k p then filter (same_time k) l ++ [p] else filter (same_time k) l.
Proof.
  intros Hp Hok Hs. induction l as [|q r IH]; [simpl; destruct (same_time k p); reflexivity|].
  inversion Hok as [|? ? Hq Hr]; subst. inversion Hs as [|? ? Hsr Hhd]; subst.
  cbn [insert_pt]. rewrite nlt_ok by assumption.
  destruct (Qlt_bool (toQ (pt_time p)) (toQ (pt_time q))) eqn:E.
  - apply Qlt_bool_iff in E. cbn [filter]. destruct (same_time k p) eqn:Ek; [|reflexivity].
    unfold same_time in Ek. apply Qeq_bool_iff in Ek.
    change (if same_time k q then q :: filter (same_time k) r else filter (same_time k) r)
      with (filter (same_time k) (q :: r)).
    rewrite (filter_later_empty k r q Hs) by lra. reflexivity.
  - cbn [filter]. rewrite (IH Hr Hsr). destruct (same_time k q), (same_time k p); reflexivity.
Qed.

Lemma sort_pts_stable k l : Forall (fun q => ok (pt_time q)) l ->
  filter (same_time k) (sort_pts l) = filter (same_time k) l.
Proof.
  unfold sort_pts. intros Hl.
  assert (H : forall acc, Forall (fun q => ok (pt_time q)) acc -> Sorted le_time acc ->
     filter (same_time k) (fold_left (fun acc p => insert_pt p acc) l acc)
     = filter (same_time k) acc ++ filter (same_time k) l).
  { induction l as [|p r IH]; intros acc Hacc Hs; [simpl; rewrite app_nil_r; reflexivity|].
    inversion Hl as [|? ? Hp Hr]; subst. simpl fold_left.
    rewrite (IH Hr) by (try (apply insert_pt_ok; assumption); apply insert_pt_sorted; assumption).
    rewrite (insert_pt_filter k p acc Hp Hacc Hs). cbn [filter].
    destruct (same_time k p); [rewrite <- app_assoc; reflexivity|reflexivity]. }
  rewrite (H [] (Forall_nil _) (Sorted_nil _)). reflexivity.
Qed.
