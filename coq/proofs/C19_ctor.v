(* C19 -- the standard constructors produce their documented breakpoints. *)
From Coq Require Import ZArith QArith Qabs String List Bool Lia Lqa Arith Permutation.
Require Import SC3.lib.PyNum SC3.gen.Gen_envtables SC3.model.Env SC3.proofs.C19_format.
Import ListNotations.
Open Scope list_scope.
Open Scope Q_scope.

Definition ok (a : num) : Prop := is_ok a = true.

Lemma toQ_nmul a b : ok a -> ok b -> toQ (nmul a b) == toQ a * toQ b.
Proof.
  destruct a, b; unfold ok; simpl; intros; try discriminate; try reflexivity.
  all: try (rewrite inject_Z_mult; reflexivity).
Qed.
Lemma toQ_nadd a b : ok a -> ok b -> toQ (nadd a b) == toQ a + toQ b.
Proof.
  destruct a, b; unfold ok; simpl; intros; try discriminate; try reflexivity.
  all: try (rewrite inject_Z_plus; reflexivity).
Qed.
Lemma toQ_nsub a b : ok a -> ok b -> toQ (nsub a b) == toQ a - toQ b.
Proof.
  destruct a, b; unfold ok; simpl; intros; try discriminate; try reflexivity.
  all: try (unfold Z.sub; rewrite inject_Z_plus, inject_Z_opp; reflexivity).
Qed.
Lemma ok_nmul a b : ok a -> ok b -> ok (nmul a b).
Proof. destruct a, b; unfold ok; simpl; intros; try discriminate; reflexivity. Qed.

(* breakpoints compared as rationals *)
Definition bp_eq (l1 l2 : list (Q * Q)) : Prop :=
  Forall2 (fun a b => fst a == fst b /\ snd a == snd b) l1 l2.

Local Opaque nadd nmul nsub.
Ltac okt := assumption || reflexivity || (apply ok_nmul; assumption).
Ltac bp := unfold bp_eq, breakpoints, breaktime, level_at; cbn;
  repeat (constructor; [split; cbn;
                        repeat first [rewrite toQ_nadd by okt | rewrite toQ_nmul by okt];
                        cbn; try lra; try ring|]);
  try constructor.

Lemma triangle_bp dur level : ok dur -> ok level ->
  let e := env_triangle dur level in
  bp_eq (breakpoints e) [(0, 0); (toQ dur * (1 # 2), toQ level); (toQ dur, 0)]
  /\ release e = None /\ loop e = None /\ curves e = [CName "lin"].
Proof. intros Hd Hl. split; [bp|auto]. Qed.

Lemma sine_bp dur level : ok dur -> ok level ->
  let e := env_sine dur level in
  bp_eq (breakpoints e) [(0, 0); (toQ dur * (1 # 2), toQ level); (toQ dur, 0)]
  /\ release e = None /\ loop e = None /\ curves e = [CName "sine"].
Proof. intros Hd Hl. split; [bp|auto]. Qed.

Lemma perc_bp a r level c :
  let e := env_perc a r level c in
  bp_eq (breakpoints e) [(0, 0); (toQ a, toQ level); (toQ a + toQ r, 0)]
  /\ release e = None /\ loop e = None /\ curves e = curves_list c.
Proof. split; [bp|auto]. Qed.

Lemma linen_bp a s r level c :
  let e := env_linen a s r level c in
  bp_eq (breakpoints e) [(0, 0); (toQ a, toQ level); (toQ a + toQ s, toQ level); (toQ a + toQ s + toQ r, 0)]
  /\ release e = None /\ loop e = None /\ curves e = curves_list c.
Proof. split; [bp|auto]. Qed.

Lemma asr_bp a s r c :
  let e := env_asr a s r c in
  bp_eq (breakpoints e) [(0, 0); (toQ a, toQ s); (toQ a + toQ r, 0)]
  /\ release e = Some 1%Z /\ loop e = None /\ curves e = curves_list c.
Proof. split; [bp|auto]. Qed.

Lemma adsr_bp a d s r p c b : ok s -> ok p -> ok b ->
  let e := env_adsr a d s r p c b in
  bp_eq (breakpoints e)
        [(0, toQ b); (toQ a, toQ p + toQ b); (toQ a + toQ d, toQ p * toQ s + toQ b); (toQ a + toQ d + toQ r, toQ b)]
  /\ release e = Some 2%Z /\ loop e = None /\ curves e = curves_list c.
Proof. intros Hs Hp Hb. split; [bp|auto]. Qed.

Lemma dadsr_bp dl a d s r p c b : ok s -> ok p -> ok b ->
  let e := env_dadsr dl a d s r p c b in
  bp_eq (breakpoints e)
        [(0, toQ b); (toQ dl, toQ b); (toQ dl + toQ a, toQ p + toQ b);
         (toQ dl + toQ a + toQ d, toQ p * toQ s + toQ b); (toQ dl + toQ a + toQ d + toQ r, toQ b)]
  /\ release e = Some 3%Z /\ loop e = None /\ curves e = curves_list c.
Proof. intros Hs Hp Hb. split; [bp|auto]. Qed.

(* cutoff: sustains at `level`, releases to 0 -- or to -100 dB (eps) for an exponential segment *)
Lemma cutoff_bp eps r level c k : server_shape c = Some k ->
  exists e, env_cutoff eps r level c = Ok e
  /\ bp_eq (breakpoints e) [(0, toQ level); (toQ r, if (k =? 2)%Z then toQ eps else 0)]
  /\ release e = Some 0%Z /\ loop e = None /\ curves e = [c].
Proof.
  intros Hk. unfold env_cutoff. apply shape_numbers_all in Hk. rewrite Hk. cbn [bind].
  eexists. split; [reflexivity|]. split; [|auto]. destruct (k =? 2)%Z; bp.
Qed.

(* ------------------------------------------------------------------ step *)
Lemma wrap_extend_id {A} (l : list A) : l <> [] -> wrap_extend l (length l) = l.
Proof.
  intros Hl. rewrite wrap_extend_unfold by exact Hl. pose proof (length_nonzero l Hl) as Hn.
  rewrite Nat.div_same, Nat.mod_same by exact Hn. simpl. rewrite !app_nil_r. reflexivity.
Qed.

Lemma step_bp lv tm rel lp off : lv <> [] -> length lv = length tm ->
  exists e, env_step (Some lv) (Some tm) rel lp off = Ok e
  /\ levels e = hd NErr lv :: lv /\ times e = tm /\ curves e = [CName "step"]
  /\ release e = option_map (fun r => (r - 1)%Z) rel /\ loop e = lp /\ offset e = off.
Proof.
  intros Hne Hlen. unfold env_step.
  destruct lv as [|l0 lv']; [contradiction|]. destruct tm as [|t0 tm']; [discriminate|].
  rewrite Hlen, Nat.eqb_refl. cbn [negb]. eexists. split; [reflexivity|].
  unfold env_init. cbn [levels times curves release loop offset hd times_list curves_list length].
  repeat split. replace (S (S (length lv')) - 1)%nat with (length (t0 :: tm')) by (simpl in *; lia).
  apply wrap_extend_id. discriminate.
Qed.
(* the documented defaults: Env.step() *)
Lemma step_defaults : exists e, env_step None None None None (Some (I 0)) = Ok e
  /\ levels e = [I 0; I 0; I 1] /\ times e = [I 1; I 1] /\ release e = None.
Proof. eexists. split; [reflexivity|]. auto. Qed.

(* ------------------------------------------------------------------ xyc / pairs *)
Lemma insert_pt_perm p l : Permutation (p :: l) (insert_pt p l).
Proof.
  induction l as [|q r IH]; simpl; [apply Permutation_refl|].
  destruct (nlt (pt_time p) (pt_time q)); [apply Permutation_refl|].
  eapply perm_trans; [apply perm_swap|]. apply perm_skip, IH.
Qed.
Lemma sort_pts_perm l : Permutation l (sort_pts l).
Proof.
  unfold sort_pts. rewrite <- (app_nil_r l) at 1. generalize (@nil pt) as acc.
  induction l as [|p r IH]; intros acc; simpl; [apply Permutation_refl|].
  eapply perm_trans; [|apply IH]. eapply perm_trans; [apply Permutation_middle|].
  apply Permutation_app_head, insert_pt_perm.
Qed.

Lemma diffs_length l : length (diffs l) = (length l - 1)%nat.
Proof.
  induction l as [|a [|b r] IH]; try reflexivity. simpl in *. rewrite IH. lia.
Qed.

Lemma xyc_times tms : wrap_extend (times_list (TList (diffs tms))) (length tms - 1) = diffs tms.
Proof.
  destruct (diffs tms) as [|d r] eqn:E.
  - pose proof (diffs_length tms) as H. rewrite E in H. simpl in H. rewrite <- H. reflexivity.
  - simpl. pose proof (diffs_length tms) as H. rewrite E in H. rewrite <- H.
    apply wrap_extend_id. discriminate.
Qed.

(* telescoping: the time from the first point to the k-th *)
Lemma diffs_sum tms : Forall ok tms -> forall k, (k < length tms)%nat ->
  qsum (firstn k (map toQ (diffs tms))) == toQ (nth k tms NErr) - toQ (hd NErr tms).
Proof.
  induction tms as [|a [|b r] IH]; intros Hok k Hk; [simpl in Hk; lia| |].
  - simpl in Hk. replace k with 0%nat by lia. simpl. lra.
  - inversion Hok as [|? ? Ha Hr]; subst. inversion Hr as [|? ? Hb Hr']; subst.
    destruct k; [simpl; lra|].
    change (diffs (a :: b :: r)) with (nsub b a :: diffs (b :: r)).
    cbn [map firstn]. change (qsum (?x :: ?l)) with (x + qsum l).
    rewrite (IH Hr k) by (simpl in *; lia). rewrite toQ_nsub by assumption. cbn [hd nth]. ring.
Qed.

Lemma xyc_bp pts s0 sr : sort_pts pts = s0 :: sr ->
  let s := s0 :: sr in
  exists e, env_xyc pts = Ok e
  /\ Permutation pts s
  /\ levels e = map (fun p => snd (fst p)) s
  /\ offset e = Some (pt_time s0)
  /\ curves e = removelast (map snd s)
  /\ release e = None /\ loop e = None
  /\ (Forall ok (map pt_time s) -> forall k, (k < length s)%nat ->
      breaktime e k == toQ (pt_time (nth k s s0)) - toQ (pt_time s0)).
Proof.
  intros Hs s. subst s. unfold env_xyc. rewrite Hs. eexists. split; [reflexivity|].
  split; [rewrite <- Hs; apply sort_pts_perm|].
  unfold env_init. cbn [levels times curves release loop offset curves_list].
  assert (Hl : length (map (fun p : pt => snd (fst p)) (s0 :: sr)) = length (map pt_time (s0 :: sr)))
    by (rewrite !map_length; reflexivity).
  repeat split.
  intros Hok k Hk. unfold breaktime. cbn [times].
  match goal with |- context [wrap_extend _ ?n] =>
    replace n with (length (map pt_time (s0 :: sr)) - 1)%nat by (cbn [map length]; rewrite !map_length; reflexivity) end.
  rewrite xyc_times. rewrite diffs_sum by (try exact Hok; rewrite map_length; exact Hk).
  change NErr with (pt_time (NErr, NErr, CName "")) at 1. rewrite map_nth. cbn [hd map].
  rewrite (nth_indep (s0 :: sr) _ s0) by exact Hk. reflexivity.
Qed.
