(* C05: whole-execution theorems.  The scheduling invariant links every queue entry to the progress of
   its routine: the entry of routine rid (there is at most one) is due at beat
       B rid + sum of the first (r_k r) deltas its body yields
   where B rid is the beat at which the routine was played; in non-real-time mode its seconds are
   beats2secs of that beat under the CURRENT tempo map (re-timed on tempo changes), in real time the
   key in the clock's queue is that beat.  Proved for every program, every prefix of the non-real-time
   run, and in real time for EVERY oracle (order of atomic steps and physical clock readings). *)
From Coq Require Import ZArith QArith Qround List Bool Lia Lqa Permutation Sorting.Sorted.
Require Import SC3.model.KProg SC3.model.KNrt SC3.model.KRt.
Require Import SC3.proofs.C05_frame SC3.proofs.C07_runs SC3.proofs.C05_props.
Import ListNotations.
Open Scope Q_scope.
Local Opaque Qred.

(* ---- lists ------------------------------------------------------------------------------------- *)
Lemma Qsum_app a b : Qsum (a ++ b) == Qsum a + Qsum b.
Proof. induction a as [|x a IH]; simpl; [ring|]. rewrite IH. ring. Qed.

Lemma skipn_cons_firstn {A} (l : list A) : forall k d rest, skipn k l = d :: rest ->
  firstn (S k) l = firstn k l ++ [d] /\ skipn (S k) l = rest.
Proof.
  induction l as [|x l IH]; intros [|k] d rest H; simpl in *; try discriminate.
  - inversion H; subst. split; reflexivity.
  - destruct (IH k d rest H) as [HA HB]. split; [f_equal; exact HA|exact HB].
Qed.

Lemma set_nth_same {A} (l : list A) : forall i x y, nth_error l i = Some y -> nth_error (set_nth l i x) i = Some x.
Proof. induction l as [|z l IH]; intros [|i] x y H; simpl in *; try discriminate; eauto. Qed.
Lemma set_nth_other {A} (l : list A) : forall i j x, i <> j -> nth_error (set_nth l i x) j = nth_error l j.
Proof. induction l as [|z l IH]; intros [|i] [|j] x H; simpl; auto; try congruence. Qed.
Lemma set_nth_length {A} (l : list A) : forall i x, length (set_nth l i x) = length l.
Proof. induction l as [|y l IH]; intros [|i] x; simpl; auto. Qed.
Lemma set_nth_in {A} (l : list A) : forall i x y, In y (set_nth l i x) -> y = x \/ In y l.
Proof.
  induction l as [|z l IH]; intros [|i] x y H; simpl in *; try tauto.
  - destruct H as [H|H]; auto.
  - destruct H as [H|H]; auto. destruct (IH _ _ _ H); auto.
Qed.

Lemma filter_partition_perm {A} (f : A -> bool) (l : list A) :
  Permutation l (filter f l ++ filter (fun x => negb (f x)) l).
Proof.
  induction l as [|x l IH]; simpl; auto.
  destruct (f x); simpl.
  - constructor. exact IH.
  - apply Permutation_cons_app. exact IH.
Qed.

(* ---- tempo maps ---------------------------------------------------------------------------------- *)
Lemma b2s_set_other tcs i t c b : c <> CTempo i -> b2s (set_nth tcs i t) c b = b2s tcs c b.
Proof.
  intros H. destruct c as [| |j]; simpl; auto.
  rewrite set_nth_other; auto; try (intros E; subst; congruence).
Qed.
Lemma s2b_set_other tcs i t c b : c <> CTempo i -> s2b (set_nth tcs i t) c b = s2b tcs c b.
Proof.
  intros H. destruct c as [| |j]; simpl; auto.
  rewrite set_nth_other; auto; try (intros E; subst; congruence).
Qed.
Lemma tc_set_tempo_wf t T v t' : tc_set_tempo t T v = Some t' -> wf_tc t'.
Proof.
  unfold tc_set_tempo. destruct (Qeq_bool v 0) eqn:E0; [discriminate|].
  destruct (Qltb (t_tempo t) 0); [discriminate|]. destruct (Qltb v 0); [discriminate|].
  intros H; injection H as <-. unfold wf_tc. cbn [t_tempo t_bdur].
  assert (Hv : ~ v == 0) by (intros G; apply Qeq_bool_iff in G; congruence).
  split; auto. rewrite Qred_correct. field. exact Hv.
Qed.
Lemma wf_tcs_set tcs i t : wf_tcs tcs -> wf_tc t -> wf_tcs (set_nth tcs i t).
Proof.
  unfold wf_tcs. intros H Ht. apply Forall_forall. intros x Hx.
  destruct (set_nth_in _ _ _ _ Hx) as [->|Hin]; auto. rewrite Forall_forall in H. auto.
Qed.

(* ---- the queue -------------------------------------------------------------------------------------- *)
Lemma push_q st t c r b : n_q (push st t c r b) = kinsert e_time e_cnt (mkE (Qred t) (n_qcnt st) c r (Qred b)) (n_q st).
Proof. reflexivity. Qed.
Lemma push_rids st t c r b : Permutation (r :: map e_rid (n_q st)) (map e_rid (n_q (push st t c r b))).
Proof.
  rewrite push_q. change (r :: map e_rid (n_q st)) with (map e_rid (mkE (Qred t) (n_qcnt st) c r (Qred b) :: n_q st)).
  apply Permutation_map. apply kinsert_perm.
Qed.

(* the fold of retime: same rids, same clock, same beats; seconds recomputed under the current map *)
Definition repush (c : clockid) (s : nstate) (e : entry) : nstate :=
  push s (b2s (n_tcs s) c (e_beats e)) c (e_rid e) (e_beats e).
Lemma repush_fold_tcs c l : forall s, n_tcs (fold_left (repush c) l s) = n_tcs s.
Proof. induction l as [|e l IH]; intros s; simpl; auto. rewrite IH. reflexivity. Qed.
Lemma repush_fold_in c l : forall s e', In e' (n_q (fold_left (repush c) l s)) ->
  In e' (n_q s) \/
  exists e, In e l /\ e_rid e' = e_rid e /\ e_clock e' = c /\ e_beats e' == e_beats e /\
            e_time e' == b2s (n_tcs s) c (e_beats e).
Proof.
  induction l as [|e l IH]; intros s e' H; simpl in H; auto.
  destruct (IH _ _ H) as [Hin|(e0 & A & B)].
  - unfold repush in Hin. rewrite push_q in Hin. apply kinsert_in in Hin. destruct Hin as [->|Hin]; auto.
    right. exists e. simpl. repeat split; auto; apply Qred_correct.
  - right. exists e0. split; [right; exact A|]. exact B.
Qed.
Lemma repush_fold_rids c l : forall s,
  Permutation (map e_rid l ++ map e_rid (n_q s)) (map e_rid (n_q (fold_left (repush c) l s))).
Proof.
  induction l as [|e l IH]; intros s; simpl; auto.
  eapply perm_trans; [|apply IH].
  eapply perm_trans; [apply Permutation_middle|]. apply Permutation_app_head.
  apply (push_rids s (b2s (n_tcs s) c (e_beats e)) c (e_rid e) (e_beats e)).
Qed.

Lemma retime_unfold st i :
  retime st i = fold_left (repush (CTempo i)) (filter (is_clock (CTempo i)) (n_q st))
                  (set_q st (filter (fun e => negb (is_clock (CTempo i) e)) (n_q st))).
Proof. reflexivity. Qed.
Lemma retime_rids st i : Permutation (map e_rid (n_q st)) (map e_rid (n_q (retime st i))).
Proof.
  rewrite retime_unfold. eapply perm_trans; [|apply repush_fold_rids]. simpl.
  rewrite <- map_app. apply Permutation_map. apply filter_partition_perm.
Qed.
Lemma is_clock_true c e : is_clock c e = true <-> e_clock e = c.
Proof.
  unfold is_clock, clock_eqb. destruct (e_clock e), c; split; intros H; try discriminate; try reflexivity.
  - apply Nat.eqb_eq in H. subst. reflexivity.
  - inversion H; subst. apply Nat.eqb_refl.
Qed.
Lemma retime_in st i e' : In e' (n_q (retime st i)) ->
  (In e' (n_q st) /\ e_clock e' <> CTempo i) \/
  exists e, In e (n_q st) /\ e_clock e = CTempo i /\ e_rid e' = e_rid e /\ e_clock e' = CTempo i /\
            e_beats e' == e_beats e /\ e_time e' == b2s (n_tcs st) (CTempo i) (e_beats e).
Proof.
  rewrite retime_unfold. intros H. destruct (repush_fold_in _ _ _ _ H) as [Hin|(e & A & B)].
  - left. simpl in Hin. apply filter_In in Hin. destruct Hin as [Hin Hc]. split; auto.
    intros E. apply is_clock_true in E. rewrite E in Hc. discriminate.
  - right. apply filter_In in A. destruct A as [A Ac]. exists e. split; auto. split; [apply is_clock_true; exact Ac|exact B].
Qed.

(* ---- the progress invariant --------------------------------------------------------------------------- *)
Definition ys_of (p : prog) (r : rout) : list Q :=
  match nth_error (p_bodies p) (r_def r) with Some b => yields b | None => [] end.
(* how the key of an entry relates to its beats *)
Definition tkey (rt : option Z) (tcs : list tclock) (e : entry) : Prop :=
  match rt with
  | None => e_time e == b2s tcs (e_clock e) (e_beats e)
  | Some _ => e_time e == e_beats e
  end.

Section Inv.
  Context (rt : option Z) (p : prog).

  Definition ent_ok (B : nat -> Q) (st : nstate) (e : entry) : Prop :=
    exists r, nth_error (n_routs st) (e_rid e) = Some r /\ r_clock r = e_clock e /\
              e_beats e == B (e_rid e) + Qsum (firstn (r_k r) (ys_of p r)) /\
              yields (r_rest r) = skipn (r_k r) (ys_of p r) /\ tkey rt (n_tcs st) e.
  (* on a clock without tempo the beats are the seconds *)
  Definition sec_ok (c : clockid) (s b : Q) : Prop := match c with CTempo _ => True | _ => s == b end.
  Definition res_ok (B : nat -> Q) (cur : option nat) (st : nstate) (rid k : nat) (c : clockid) (s b : Q) : Prop :=
    exists r, nth_error (n_routs st) rid = Some r /\ c = r_clock r /\
              ((k < r_k r)%nat \/ (cur = Some rid /\ k = r_k r)) /\
              (b == B rid + Qsum (firstn k (ys_of p r)) /\ sec_ok c s b).

  (* cur = the routine whose segment is running (popped from the queue, r_k not yet incremented) *)
  Record pinv (B : nat -> Q) (cur : option nat) (st : nstate) : Prop := mkPinv {
    pi_nodup : NoDup (map e_rid (n_q st));
    pi_wf : wf_tcs (n_tcs st);
    pi_ent : forall e, In e (n_q st) -> ent_ok B st e;
    pi_cur : forall e, In e (n_q st) -> Some (e_rid e) <> cur;
    pi_curlt : forall c, cur = Some c -> (c < length (n_routs st))%nat;
    pi_log : forall rid k c s b, In (EvResume rid k c s b) (n_log st) -> res_ok B cur st rid k c s b
  }.

  (* what a segment does: routines are only appended; the invariant is kept, B only extended *)
  Definition pframe (cur : option nat) (st st' : nstate) : Prop :=
    (exists ext, n_routs st' = n_routs st ++ ext) /\
    (forall B, pinv B cur st -> exists B', pinv B' cur st' /\ forall i, (i < length (n_routs st))%nat -> B' i = B i).

  Lemma pframe_refl cur st : pframe cur st st.
  Proof. split; [exists []; rewrite app_nil_r; reflexivity|]. intros B H. exists B. auto. Qed.
  Lemma pframe_trans cur a b c : pframe cur a b -> pframe cur b c -> pframe cur a c.
  Proof.
    intros [(e1 & E1) F1] [(e2 & E2) F2]. split.
    - exists (e1 ++ e2). rewrite E2, E1, app_assoc. reflexivity.
    - intros B H. destruct (F1 B H) as (B1 & H1 & A1). destruct (F2 B1 H1) as (B2 & H2 & A2).
      exists B2. split; auto. intros i Hi. rewrite A2, A1; auto. rewrite E1, app_length. lia.
  Qed.

  (* a step that leaves queue, routines and tempo maps alone and logs something that is not a resumption *)
  Lemma pframe_logonly cur st st' ev :
    n_q st' = n_q st -> n_routs st' = n_routs st -> n_tcs st' = n_tcs st -> n_log st' = ev :: n_log st ->
    (forall rid k c s b, ev <> EvResume rid k c s b) -> pframe cur st st'.
  Proof.
    intros Hq Hr Ht Hl Hev. split; [exists []; rewrite app_nil_r; exact Hr|].
    intros B [N W E C CL L]. exists B. split; auto. constructor; rewrite ?Hq, ?Ht, ?Hr; auto.
    - intros e He. destruct (E e He) as (r & A). exists r. unfold tkey in *. rewrite Hr, Ht. exact A.
    - intros rid k c s b. rewrite Hl. intros [H|H]; [exfalso; eapply Hev; eauto|].
      destruct (L _ _ _ _ _ H) as (r & A). exists r. rewrite Hr. exact A.
  Qed.
  Lemma pframe_same cur st st' :
    n_q st' = n_q st -> n_routs st' = n_routs st -> n_tcs st' = n_tcs st -> n_log st' = n_log st -> pframe cur st st'.
  Proof.
    intros Hq Hr Ht Hl. split; [exists []; rewrite app_nil_r; exact Hr|].
    intros B [N W E C CL L]. exists B. split; auto. constructor; rewrite ?Hq, ?Ht, ?Hl, ?Hr; auto.
    - intros e He. destruct (E e He) as (r & A). exists r. unfold tkey in *. rewrite Hr, Ht. exact A.
    - intros rid k c s b H. destruct (L _ _ _ _ _ H) as (r & A). exists r. rewrite Hr. exact A.
  Qed.

  (* ---- the primitive operations of a segment ---------------------------------------------------- *)
  Context (qk : quirks).
  Hypothesis Happ : qk_app_abs qk = false.
  Hypothesis Hfrozen : qk_tempo_frozen qk = false.

  Lemma ent_lt B st e : ent_ok B st e -> (e_rid e < length (n_routs st))%nat.
  Proof. intros (r & Hr & _). apply nth_error_Some. rewrite Hr. discriminate. Qed.

  Lemma send_pframe cur st org T lat es : pframe cur st (fst (nrt_send rt st org T lat es)).
  Proof.
    unfold nrt_send. destruct (stamp_bundle (send_mode rt org) T lat es) as [sb|].
    - destruct rt; simpl; eapply pframe_logonly; try reflexivity; intros; discriminate.
    - simpl. eapply pframe_logonly; try reflexivity. intros; discriminate.
  Qed.
  Lemma sendmsg_pframe cur st org T m : pframe cur st (fst (nrt_sendmsg rt st org T m)).
  Proof.
    unfold nrt_sendmsg. destruct rt as [off|] eqn:Ert.
    - simpl. eapply pframe_logonly; try reflexivity. intros; discriminate.
    - rewrite <- Ert. apply send_pframe.
  Qed.

  Lemma play_pframe cur st org T r c : pframe cur st (fst (nrt_play rt qk p st org T r c)).
  Proof.
    unfold nrt_play. destruct (nth_error (p_bodies p) r) as [body|] eqn:Eb; [|apply pframe_refl].
    destruct (clock_ok (n_tcs st) c && clock_ok_mode rt c); [|apply pframe_refl].
    cbn [fst]. unfold nrt_sched_play. rewrite Happ.
    set (rid := length (n_routs st)).
    set (beat := match c with CSystem => T + 0 | CApp => T + 0 | CTempo _ => s2b (n_tcs st) c T + 0 end).
    set (st1 := add_log (set_routs st (n_routs st ++ [mkR r body c 0])) (EvPlay org rid c T)).
    set (tm := match rt with None => b2s (n_tcs st) c beat | Some _ => beat end).
    assert (Est : match rt with
                  | None => push st1 (b2s (n_tcs st) c beat) c rid beat
                  | Some _ => push st1 beat c rid beat
                  end = push st1 tm c rid beat) by (unfold tm; destruct rt; reflexivity).
    change (pframe cur st (match rt with
                           | None => push st1 (b2s (n_tcs st) c beat) c rid beat
                           | Some _ => push st1 beat c rid beat
                           end)).
    rewrite Est. clear Est.
    split; [exists [mkR r body c 0]; reflexivity|].
    intros B [N W E C CL L].
    exists (fun i => if Nat.eqb i rid then beat else B i). split.
    2:{ intros i Hi. destruct (Nat.eqb i rid) eqn:Ei; auto. apply Nat.eqb_eq in Ei. unfold rid in Ei. lia. }
    assert (Hold : forall e, In e (n_q st) -> (e_rid e < rid)%nat) by (intros e He; apply (ent_lt B st e); auto).
    constructor.
    - eapply Permutation_NoDup; [apply push_rids|]. constructor; auto.
      cbn [n_q st1 add_log set_routs]. intros Hin. apply in_map_iff in Hin. destruct Hin as (e & Er & He).
      specialize (Hold e He). lia.
    - exact W.
    - intros e He. rewrite push_q in He. apply kinsert_in in He. destruct He as [->|He].
      + exists (mkR r body c 0). cbn [e_rid e_clock e_beats e_time r_clock r_k r_rest n_routs push st1 add_log set_routs].
        split; [rewrite nth_error_app2 by (unfold rid; lia); unfold rid; rewrite Nat.sub_diag; reflexivity|].
        split; [reflexivity|]. rewrite Nat.eqb_refl.
        split; [rewrite Qred_correct; simpl; ring|].
        split; [unfold ys_of; simpl; rewrite Eb; reflexivity|].
        unfold tkey, tm. cbn [e_time e_beats e_clock n_tcs push st1 add_log set_routs].
        destruct rt; rewrite !Qred_correct; [reflexivity|]. apply b2s_comp. rewrite Qred_correct. reflexivity.
      + destruct (E e He) as (r0 & A1 & A2 & A3 & A4 & A5). exists r0.
        cbn [n_routs n_tcs push st1 add_log set_routs].
        split; [rewrite nth_error_app1; auto; apply nth_error_Some; rewrite A1; discriminate|].
        specialize (Hold e He). destruct (Nat.eqb (e_rid e) rid) eqn:Ee; [apply Nat.eqb_eq in Ee; lia|]. auto.
    - intros e He. rewrite push_q in He. apply kinsert_in in He. destruct He as [->|He]; auto.
      cbn [e_rid]. intros Hc. symmetry in Hc. specialize (CL _ Hc). unfold rid in CL. lia.
    - intros c0 Hc. specialize (CL _ Hc). cbn [n_routs push st1 add_log set_routs]. rewrite app_length. lia.
    - intros rid0 k c0 s b Hin. cbn [n_log push st1 add_log set_routs] in Hin. destruct Hin as [Hin|Hin]; [discriminate|].
      destruct (L _ _ _ _ _ Hin) as (r0 & A1 & A2 & A3 & A4). exists r0.
      cbn [n_routs push st1 add_log set_routs].
      assert (Hlt : (rid0 < rid)%nat) by (apply nth_error_Some; rewrite A1; discriminate).
      split; [rewrite nth_error_app1; auto|].
      destruct (Nat.eqb rid0 rid) eqn:Ee; [apply Nat.eqb_eq in Ee; lia|]. auto.
  Qed.

  Lemma tempo_pframe cur st org T i v : pframe cur st (fst (nrt_set_tempo rt qk st org T i v)).
  Proof.
    unfold nrt_set_tempo. destruct (nth_error (n_tcs st) i) as [t|] eqn:Et.
    2:{ simpl. eapply pframe_logonly; try reflexivity. intros; discriminate. }
    destruct (tc_set_tempo t T v) as [t'|] eqn:Es.
    2:{ simpl. eapply pframe_logonly; try reflexivity. intros; discriminate. }
    cbn [fst]. rewrite Hfrozen.
    set (st1 := set_f11 (set_tcs st (set_nth (n_tcs st) i t')) (n_f11 st || existsb (is_clock (CTempo i)) (n_q st))).
    pose proof (tc_set_tempo_wf _ _ _ _ Es) as Wt.
    destruct rt as [off|] eqn:Ert.
    - (* real time: the queues hold beats, nothing moves *)
      split; [exists []; rewrite app_nil_r; reflexivity|].
      intros B [N W E C CL L]. exists B. split; auto. constructor; auto.
      + apply wf_tcs_set; auto.
      + intros e He. destruct (E e He) as (r0 & A1 & A2 & A3 & A4 & A5). exists r0. repeat split; auto.
        unfold tkey in *. rewrite Ert in *. exact A5.
      + intros rid k c s b [Hin|Hin]; [discriminate|]. apply (L _ _ _ _ _ Hin).
    - destruct (retime_proj st1 i) as (P1 & P2 & P3 & _).
      split; [exists []; rewrite app_nil_r; cbn [n_routs add_log]; rewrite P2; reflexivity|].
      intros B [N W E C CL L]. exists B. split; auto.
      assert (W' : wf_tcs (n_tcs st1)) by (apply wf_tcs_set; auto).
      constructor; cbn [n_q n_tcs n_routs n_log add_log]; rewrite ?P2, ?P3; auto.
      + eapply Permutation_NoDup; [apply retime_rids|]. exact N.
      + intros e' He'. destruct (retime_in _ _ _ He') as [[Hin Hc]|(e & Hin & Hce & R1 & R2 & R3 & R4)].
        * destruct (E e' Hin) as (r0 & A1 & A2 & A3 & A4 & A5). exists r0.
          cbn [n_routs n_tcs add_log]. rewrite P2, P3. repeat split; auto.
          unfold tkey in *. rewrite Ert in *. cbn [n_tcs st1 set_f11 set_tcs]. rewrite b2s_set_other; auto.
        * destruct (E e Hin) as (r0 & A1 & A2 & A3 & A4 & A5). exists r0.
          cbn [n_routs n_tcs add_log]. rewrite P2, P3, R1, R2. repeat split; auto; try congruence.
          -- rewrite R3. exact A3.
          -- unfold tkey. rewrite Ert, R2, R4. apply b2s_comp. symmetry. exact R3.
      + intros e' He'. destruct (retime_in _ _ _ He') as [[Hin Hc]|(e & Hin & Hce & R1 & _)].
        * apply C; auto.
        * rewrite R1. apply C; auto.
      + intros rid k c s b [Hin|Hin]; [discriminate|]. rewrite P1 in Hin.
        destruct (L _ _ _ _ _ Hin) as (r0 & A). exists r0. cbn [n_routs add_log]. rewrite P2. exact A.
  Qed.

  Lemma run_acts_pframe cur org T acts st cclk st' oc :
    run_acts rt qk p st org T cclk acts = (st', oc) -> pframe cur st st'.
  Proof.
    apply run_acts_ind.
    - apply pframe_refl.
    - apply pframe_trans.
    - intros; apply send_pframe.
    - intros; apply sendmsg_pframe.
    - intros; apply play_pframe.
    - intros; apply tempo_pframe.
  Qed.
End Inv.

(* ---- wake-ups ------------------------------------------------------------------------------------------ *)
Section Wake.
  Context (rt : option Z) (p : prog).

  (* the routine whose segment has just ended gets its new progress *)
  Lemma bump_pinv B st rid r rest' :
    pinv rt p B (Some rid) st -> nth_error (n_routs st) rid = Some r ->
    pinv rt p B None (set_routs st (set_nth (n_routs st) rid (mkR (r_def r) rest' (r_clock r) (S (r_k r))))).
  Proof.
    intros [N W E C CL L] Hr. constructor; cbn [n_q n_tcs n_routs n_log set_routs]; auto.
    - intros e He. destruct (E e He) as (r0 & A1 & A). exists r0. cbn [n_routs n_tcs set_routs]. split; auto.
      rewrite set_nth_other; auto. intros Eq. apply (C e He). congruence.
    - intros e He; discriminate.
    - intros c Hc; discriminate.
    - intros rid0 k c s b Hin. destruct (L _ _ _ _ _ Hin) as (r0 & A1 & A2 & A3 & A4).
      destruct (Nat.eq_dec rid0 rid) as [->|Hne].
      + rewrite Hr in A1. inversion A1; subst r0.
        exists (mkR (r_def r) rest' (r_clock r) (S (r_k r))). cbn [n_routs set_routs].
        split; [eapply set_nth_same; eauto|]. split; [exact A2|]. split.
        * left. cbn [r_k]. destruct A3 as [A3|[_ A3]]; lia.
        * exact A4.
      + exists r0. cbn [n_routs set_routs]. split; [rewrite set_nth_other; auto|]. split; auto. split; auto.
        destruct A3 as [A3|[A3 _]]; [left; exact A3|]. congruence.
  Qed.

  Lemma push_pinv B st tm c rid nb :
    pinv rt p B None st -> ~ In rid (map e_rid (n_q st)) ->
    (forall cnt, ent_ok rt p B st (mkE (Qred tm) cnt c rid (Qred nb))) ->
    pinv rt p B None (push st tm c rid nb).
  Proof.
    intros [N W E C CL L] Hnot Hent. constructor; auto.
    - eapply Permutation_NoDup; [apply push_rids|]. constructor; auto.
    - intros e He. rewrite push_q in He. apply kinsert_in in He. destruct He as [->|He].
      + destruct (Hent (n_qcnt st)) as (r0 & A). exists r0. exact A.
      + destruct (E e He) as (r0 & A). exists r0. exact A.
    - intros e He; discriminate.
  Qed.

  Lemma addlog_pinv B cur st ev : (forall rid k c s b, ev <> EvResume rid k c s b) ->
    pinv rt p B cur st -> pinv rt p B cur (add_log st ev).
  Proof.
    intros Hev [N W E C CL L]. constructor; auto.
    intros rid k c s b [H|H]; [exfalso; eapply Hev; eauto|]. destruct (L _ _ _ _ _ H) as (r0 & A). exists r0. exact A.
  Qed.

  (* popping an entry and logging the resumption of its routine starts a segment *)
  Lemma start_pinv B st e q' T s b :
    pinv rt p B None st -> In e (n_q st) -> Permutation (n_q st) (e :: q') ->
    (forall r, nth_error (n_routs st) (e_rid e) = Some r -> b == B (e_rid e) + Qsum (firstn (r_k r) (ys_of p r))) ->
    sec_ok (e_clock e) s b ->
    exists r, nth_error (n_routs st) (e_rid e) = Some r /\ r_clock r = e_clock e /\
      yields (r_rest r) = skipn (r_k r) (ys_of p r) /\
      pinv rt p B (Some (e_rid e)) (add_log (set_mtime (set_q st q') T) (EvResume (e_rid e) (r_k r) (e_clock e) s b)).
  Proof.
    intros [N W E C CL L] Hin Hperm Hb Hs. destruct (E e Hin) as (r & A1 & A2 & A3 & A4 & A5).
    exists r. split; auto. split; auto. split; auto.
    assert (Np : NoDup (e_rid e :: map e_rid q')).
    { eapply Permutation_NoDup; [apply (Permutation_map e_rid Hperm)|exact N]. }
    inversion Np as [|x l Hnot Nq']; subst.
    assert (Sub : forall x, In x q' -> In x (n_q st)).
    { intros x Hx. eapply Permutation_in; [apply Permutation_sym; exact Hperm|]. right; exact Hx. }
    constructor; cbn [n_q n_tcs n_routs n_log add_log set_mtime set_q]; auto.
    - intros x Hx. destruct (E x (Sub x Hx)) as (r0 & A). exists r0. exact A.
    - intros x Hx Eq. inversion Eq as [Eq']. apply Hnot. rewrite <- Eq'. apply in_map. exact Hx.
    - intros c Hc. inversion Hc; subst. apply nth_error_Some. rewrite A1. discriminate.
    - intros rid k c s0 b0 [H|H].
      + inversion H; subst. exists r. split; auto.
      + destruct (L _ _ _ _ _ H) as (r0 & B1 & B2 & B3 & B4). exists r0. split; auto. split; auto. split; [|exact B4].
        destruct B3 as [B3|[B3 _]]; [left; exact B3|discriminate].
  Qed.
End Wake.

(* ---- executions ------------------------------------------------------------------------------------------ *)
Lemma pop_clock_perm c : forall q e rest, pop_clock c q = Some (e, rest) -> Permutation q (e :: rest).
Proof.
  induction q as [|x q IH]; intros e rest H; simpl in H; [discriminate|].
  destruct (is_clock c x).
  - inversion H; subst. apply Permutation_refl.
  - destruct (pop_clock c q) as [[y r']|] eqn:E; [|discriminate]. inversion H; subst.
    eapply perm_trans; [constructor; apply IH; reflexivity|]. apply perm_swap.
Qed.

Section Exec.
  Context (p : prog) (qk : quirks).
  Hypothesis Happ : qk_app_abs qk = false.
  Hypothesis Hfrozen : qk_tempo_frozen qk = false.

  Definition ginv (rt : option Z) (st : nstate) : Prop := exists B, pinv rt p B None st.

  (* what is common to the end of a segment in both modes *)
  Lemma finish_ginv rt B st2 rid r tm nb oc (c : clockid) (key : Q) :
    pinv rt p B (Some rid) st2 -> nth_error (n_routs st2) rid = Some r -> c = r_clock r ->
    yields (r_rest r) = skipn (r_k r) (ys_of p r) ->
    (forall d rest, oc = OYield d rest -> yields (r_rest r) = d :: yields rest) ->
    (forall d rest, oc = OYield d rest ->
       nb d == B rid + Qsum (firstn (r_k r) (ys_of p r)) + d /\
       forall cnt, tkey rt (n_tcs st2) (mkE (Qred (tm d)) cnt c rid (Qred (nb d)))) ->
    ginv rt (match oc with
             | OYield d rest =>
                 push (set_routs st2 (set_nth (n_routs st2) rid (mkR (r_def r) rest c (S (r_k r))))) (tm d) c rid (nb d)
             | ODone => add_log (set_routs st2 (set_nth (n_routs st2) rid (mkR (r_def r) [] c (S (r_k r))))) (EvEnd rid (r_k r) false)
             | ORaise => add_log (set_routs st2 (set_nth (n_routs st2) rid (mkR (r_def r) [] c (S (r_k r))))) (EvEnd rid (r_k r) true)
             end).
  Proof.
    intros I Hr -> Hy Hyield Hnb. exists B. destruct oc as [d rest| |].
    - destruct (Hnb d rest eq_refl) as [Hb Hk]. specialize (Hyield d rest eq_refl).
      rewrite Hy in Hyield. destruct (skipn_cons_firstn _ _ _ _ Hyield) as [F1 F2].
      apply push_pinv.
      + apply bump_pinv; auto.
      + cbn [n_q set_routs]. intros Hin. apply in_map_iff in Hin. destruct Hin as (e0 & E1 & E2).
        apply (pi_cur _ _ _ _ _ I e0 E2). congruence.
      + intros cnt. exists (mkR (r_def r) rest (r_clock r) (S (r_k r))).
        cbn [e_rid e_clock e_beats n_routs n_tcs set_routs r_clock r_k r_rest].
        split; [eapply set_nth_same; eauto|]. split; [reflexivity|].
        assert (Ey : ys_of p (mkR (r_def r) rest (r_clock r) (S (r_k r))) = ys_of p r) by reflexivity.
        rewrite Ey. split; [|split].
        * rewrite Qred_correct, Hb, F1, Qsum_app. simpl. ring.
        * symmetry. exact F2.
        * apply Hk.
    - apply addlog_pinv; [intros; discriminate|]. apply bump_pinv; auto.
    - apply addlog_pinv; [intros; discriminate|]. apply bump_pinv; auto.
  Qed.

  Lemma nrt_wake_ginv st e rest : n_q st = e :: rest -> ginv None st -> ginv None (nrt_wake qk p (set_q st rest) e).
  Proof.
    intros Hq (B & I).
    assert (Hin : In e (n_q st)) by (rewrite Hq; left; reflexivity).
    pose proof (pi_wf _ _ _ _ _ I) as W.
    destruct (pi_ent _ _ _ _ _ I e Hin) as (r & A1 & A2 & A3 & A4 & A5).
    unfold nrt_wake. cbn [n_routs set_mtime set_q n_tcs]. rewrite A1.
    set (T := e_time e). set (beats := Qred (s2b (n_tcs st) (e_clock e) T)).
    assert (Hb : beats == e_beats e).
    { unfold beats, T. rewrite Qred_correct. unfold tkey in A5. rewrite (s2b_comp _ _ _ _ A5). apply s2b_b2s. exact W. }
    assert (Hs : sec_ok (e_clock e) T beats).
    { unfold sec_ok, beats. destruct (e_clock e); auto; rewrite Qred_correct; simpl; reflexivity. }
    destruct (start_pinv None p B st e rest T T beats I Hin) as (r' & R1 & R2 & R3 & I1); auto.
    { rewrite Hq. apply Permutation_refl. }
    { intros r0 Hr0. rewrite A1 in Hr0. inversion Hr0; subst r0. rewrite Hb. exact A3. }
    rewrite A1 in R1. inversion R1; subst r'. clear R1.
    match goal with |- context [run_acts None qk p ?s ?o ?t ?c ?a] => destruct (run_acts None qk p s o t c a) as [st2 oc] eqn:E end.
    destruct (run_acts_pframe None p qk Happ Hfrozen (Some (e_rid e)) _ _ _ _ _ _ _ E) as [(ext & Ex) F].
    destruct (F B I1) as (B' & I2 & Agree).
    assert (Hlt : (e_rid e < length (n_routs st))%nat) by (apply nth_error_Some; rewrite A1; discriminate).
    assert (Hr2 : nth_error (n_routs st2) (e_rid e) = Some r).
    { rewrite Ex. cbn [n_routs add_log set_mtime set_q]. rewrite nth_error_app1; auto. }
    assert (HB : B' (e_rid e) = B (e_rid e)) by (apply Agree; exact Hlt).
    apply (finish_ginv None B' st2 (e_rid e) r (fun d => b2s (n_tcs st2) (e_clock e) (beats + d)) (fun d => beats + d) oc (e_clock e) 0); auto.
    - intros d rest0 ->. apply (run_acts_yield _ _ _ _ _ _ _ _ _ _ _ E).
    - intros d rest0 _. split.
      + rewrite HB, Hb, A3. reflexivity.
      + intros cnt. unfold tkey. cbn [e_time e_beats e_clock]. rewrite Qred_correct. apply b2s_comp. rewrite Qred_correct. reflexivity.
  Qed.

  Lemma nrt_loop_ginv fuel : forall st, ginv None st -> ginv None (nrt_loop qk p fuel st).
  Proof.
    induction fuel as [|f IH]; intros st G; simpl; auto.
    destruct (n_q st) as [|e rest] eqn:Eq; auto. apply IH. apply nrt_wake_ginv; auto.
  Qed.

  Lemma pinv_empty rt tcs m sc n : wf_tcs tcs -> pinv rt p (fun _ => 0) None (mkN [] 0 tcs [] m sc n [] false).
  Proof. intros W. constructor; simpl; auto; try (intros; tauto); try (intros; discriminate). constructor. Qed.

  Lemma nrt_main_ginv : ginv None (nrt_main qk p).
  Proof.
    unfold nrt_main. destruct (run_acts None qk p (nrt_init p) None 0 CSystem (p_main p)) as [st' oc] eqn:E.
    destruct (run_acts_pframe None p qk Happ Hfrozen None _ _ _ _ _ _ _ E) as [_ F]. cbn [fst].
    destruct (F (fun _ => 0)) as (B' & I & _); [|exists B'; exact I].
    unfold nrt_init, score_add. cbn. apply pinv_empty.
    unfold wf_tcs. apply Forall_forall. intros t Ht. apply in_map_iff in Ht. destruct Ht as (x & <- & _). apply tc_new_wf.
  Qed.

  Lemma nrt_reach_ginv fuel : ginv None (nrt_loop qk p fuel (nrt_main qk p)).
  Proof. apply nrt_loop_ginv. apply nrt_main_ginv. Qed.
End Exec.

Section ExecRt.
  Context (p : prog) (off : Z).

  Lemma rt_wake_ginv st e rest : In e (n_q st) -> Permutation (n_q st) (e :: rest) ->
    ginv p (Some off) st -> ginv p (Some off) (rt_wake off p (set_q st rest) e).
  Proof.
    intros Hin Hperm (B & I).
    pose proof (pi_wf _ _ _ _ _ I) as W.
    destruct (pi_ent _ _ _ _ _ I e Hin) as (r & A1 & A2 & A3 & A4 & A5).
    unfold rt_wake. cbn [n_routs set_mtime set_q n_tcs]. rewrite A1.
    set (T := Qred (b2s (n_tcs st) (e_clock e) (e_time e))). set (beats := Qred (s2b (n_tcs st) (e_clock e) T)).
    assert (Hb : beats == e_beats e).
    { unfold beats, T. rewrite Qred_correct. rewrite (s2b_comp _ _ _ _ (Qred_correct _)). rewrite s2b_b2s by exact W. exact A5. }
    assert (Hs : sec_ok (e_clock e) T beats).
    { unfold sec_ok, beats. destruct (e_clock e); auto; rewrite Qred_correct; simpl; reflexivity. }
    destruct (start_pinv (Some off) p B st e rest T T beats I Hin Hperm) as (r' & R1 & R2 & R3 & I1); auto.
    { intros r0 Hr0. rewrite A1 in Hr0. inversion Hr0; subst r0. rewrite Hb. exact A3. }
    rewrite A1 in R1. inversion R1; subst r'. clear R1.
    match goal with |- context [run_acts (Some off) repaired p ?s ?o ?t ?c ?a] => destruct (run_acts (Some off) repaired p s o t c a) as [st2 oc] eqn:E end.
    destruct (run_acts_pframe (Some off) p repaired eq_refl eq_refl (Some (e_rid e)) _ _ _ _ _ _ _ E) as [(ext & Ex) F].
    destruct (F B I1) as (B' & I2 & Agree).
    assert (Hlt : (e_rid e < length (n_routs st))%nat) by (apply nth_error_Some; rewrite A1; discriminate).
    assert (Hr2 : nth_error (n_routs st2) (e_rid e) = Some r).
    { rewrite Ex. cbn [n_routs add_log set_mtime set_q]. rewrite nth_error_app1; auto. }
    assert (HB : B' (e_rid e) = B (e_rid e)) by (apply Agree; exact Hlt).
    apply (finish_ginv p (Some off) B' st2 (e_rid e) r (fun d => e_time e + d) (fun d => e_time e + d) oc (e_clock e) 0); auto.
    - intros d rest0 ->. apply (run_acts_yield _ _ _ _ _ _ _ _ _ _ _ E).
    - intros d rest0 _. split.
      + rewrite HB. unfold tkey in A5. rewrite A5, A3. reflexivity.
      + intros cnt. unfold tkey. cbn [e_time e_beats]. reflexivity.
  Qed.

  Lemma rt_step_ginv s ch : ginv p (Some off) (rs s) -> ginv p (Some off) (rs (rt_step off p s ch)).
  Proof.
    intros G. destruct ch as [t|t|rid t]; unfold rt_step.
    - destruct (rs_tempos s) as [|tempo rest]; [exact G|]. cbn [rs].
      destruct G as (B & [N W E C CL L]). exists B. constructor; auto.
      cbn [n_tcs set_mtime set_tcs]. unfold wf_tcs. apply Forall_app. split; auto. constructor; [apply tc_new_wf|constructor].
    - destruct (rs_tempos s); [|exact G]. destruct (rs_main s) as [|a rest]; [exact G|].
      destruct (run_acts (Some off) repaired p (set_mtime (rs s) (advance (rs_now s) t)) None (advance (rs_now s) t) CSystem [a])
        as [st' oc] eqn:E.
      destruct (run_acts_pframe (Some off) p repaired eq_refl eq_refl None _ _ _ _ _ _ _ E) as [_ F]. cbn [fst rs].
      destruct G as (B & I). destruct (F B) as (B' & I' & _); [|exists B'; exact I'].
      destruct I as [N W E0 C CL L]. constructor; auto.
    - destruct (find_rid rid (n_q (rs s))) as [e0|]; [|exact G].
      destruct (pop_clock (e_clock e0) (n_q (rs s))) as [[e rest]|] eqn:Ep; [|exact G].
      destruct (Nat.eqb (e_rid e) rid); [|exact G]. cbn [rs].
      pose proof (pop_clock_perm _ _ _ _ Ep) as Hperm.
      apply rt_wake_ginv; auto. eapply Permutation_in; [apply Permutation_sym; exact Hperm|]. left; reflexivity.
  Qed.

  Lemma rt_run_ginv sched : ginv p (Some off) (rs (rt_run off p sched)).
  Proof.
    unfold rt_run. assert (G : ginv p (Some off) (rs (rt_init p))).
    { exists (fun _ => 0). apply pinv_empty. constructor. }
    revert G. generalize (rt_init p). induction sched as [|ch l IH]; intros s G; simpl; auto.
    apply IH. apply rt_step_ginv. exact G.
  Qed.
End ExecRt.

(* ---- the Sigma form ------------------------------------------------------------------------------------------ *)
Lemma sigma_of_ginv rt p st rid k c s b c0 s0 b0 : ginv p rt st ->
  In (EvResume rid k c s b) (n_log st) -> In (EvResume rid 0 c0 s0 b0) (n_log st) ->
  exists r, nth_error (n_routs st) rid = Some r /\ c = r_clock r /\ c0 = r_clock r /\
            b == b0 + Qsum (firstn k (ys_of p r)) /\ sec_ok c s b.
Proof.
  intros (B & I) H1 H0.
  destruct (pi_log _ _ _ _ _ I _ _ _ _ _ H1) as (r & A1 & A2 & _ & A4 & A5).
  destruct (pi_log _ _ _ _ _ I _ _ _ _ _ H0) as (r0 & B1 & B2 & _ & B4 & _).
  rewrite A1 in B1. inversion B1; subst r0. exists r. repeat split; auto.
  simpl in B4. rewrite A4, B4. ring.
Qed.

(* ======================================================================================================== *)
(* ---- monotone time and the start of children (non-real-time mode, deltas >= 0) --------------------------- *)
Definition rsecs (log : list event) : list Q :=
  flat_map (fun ev => match ev with EvResume _ _ _ s _ => [s] | _ => [] end) log.
Definition ptimes (log : list event) : list Q :=
  flat_map (fun ev => match ev with EvPlay _ _ _ s => [s] | _ => [] end) log.

Definition pos_tc (t : tclock) : Prop := 0 < t_tempo t /\ 0 < t_bdur t.
Definition pos_tcs (tcs : list tclock) : Prop := Forall pos_tc tcs.

Lemma tc_b2s_mono t x y : pos_tc t -> x <= y -> tc_b2s t x <= tc_b2s t y.
Proof. intros [_ H] L. unfold tc_b2s. nra. Qed.
Lemma tc_s2b_mono t x y : pos_tc t -> x <= y -> tc_s2b t x <= tc_s2b t y.
Proof. intros [H _] L. unfold tc_s2b. nra. Qed.
Lemma b2s_mono tcs c x y : pos_tcs tcs -> x <= y -> b2s tcs c x <= b2s tcs c y.
Proof.
  intros P L. destruct c as [| |i]; simpl; auto. destruct (nth_error tcs i) as [t|] eqn:E; auto.
  apply tc_b2s_mono; auto. unfold pos_tcs in P. rewrite Forall_forall in P. apply P. eapply nth_error_In; eauto.
Qed.
Lemma s2b_mono tcs c x y : pos_tcs tcs -> x <= y -> s2b tcs c x <= s2b tcs c y.
Proof.
  intros P L. destruct c as [| |i]; simpl; auto. destruct (nth_error tcs i) as [t|] eqn:E; auto.
  apply tc_s2b_mono; auto. unfold pos_tcs in P. rewrite Forall_forall in P. apply P. eapply nth_error_In; eauto.
Qed.
Lemma tc_set_tempo_pos t T v t' : tc_set_tempo t T v = Some t' -> pos_tc t'.
Proof.
  unfold tc_set_tempo. destruct (Qeq_bool v 0) eqn:E0; [discriminate|].
  destruct (Qltb (t_tempo t) 0); [discriminate|]. destruct (Qltb v 0) eqn:E1; [discriminate|].
  intros H; injection H as <-. unfold pos_tc. cbn [t_tempo t_bdur].
  assert (Hv : ~ v == 0) by (intros G; apply Qeq_bool_iff in G; congruence).
  apply Qltb_ge in E1. assert (0 < v) by lra. split; auto.
  rewrite Qred_correct. apply Qlt_shift_div_l; lra.
Qed.
(* the new map agrees with the old one at the instant of the change *)
Lemma tc_set_tempo_anchor t T v t' : wf_tc t -> tc_set_tempo t T v = Some t' -> tc_s2b t' T == tc_s2b t T.
Proof.
  intros W. unfold tc_set_tempo. destruct (Qeq_bool v 0); [discriminate|].
  destruct (Qltb (t_tempo t) 0); [discriminate|]. destruct (Qltb v 0); [discriminate|].
  intros H; injection H as <-. unfold tc_s2b at 1. cbn [t_tempo t_bsecs t_bbeats].
  rewrite !Qred_correct. rewrite (tc_roundtrip_s t T W). ring.
Qed.
Lemma tc_new_pos tempo now : 0 <= tempo -> pos_tc (tc_new tempo now).
Proof.
  intros H. unfold tc_new, pos_tc. destruct (Qeq_bool tempo 0) eqn:E; cbn [t_tempo t_bdur].
  - split; reflexivity.
  - assert (~ tempo == 0) by (intros G; apply Qeq_bool_iff in G; congruence). assert (0 < tempo) by lra.
    split; auto. apply Qlt_shift_div_l; lra.
Qed.

Lemma ksorted_filter {A} (kt : A -> Q) (kc : A -> nat) (f : A -> bool) l :
  ksorted kt kc l -> ksorted kt kc (filter f l).
Proof.
  unfold ksorted. induction 1 as [|x l Hs IH Hx]; simpl; [constructor|].
  destruct (f x); auto. constructor; auto.
  apply Forall_forall. intros y Hy. apply filter_In in Hy. rewrite Forall_forall in Hx. apply Hx. tauto.
Qed.

Lemma rsecs_app a b : rsecs (a ++ b) = rsecs a ++ rsecs b.
Proof. unfold rsecs. apply flat_map_app. Qed.
Lemma ptimes_app a b : ptimes (a ++ b) = ptimes a ++ ptimes b.
Proof. unfold ptimes. apply flat_map_app. Qed.

Definition nonneg_prog (p : prog) : Prop :=
  Forall (fun body => Forall (fun d => 0 <= d) (yields body)) (p_bodies p) /\ Forall (fun t => 0 <= t) (p_tempos p).

Section Mono.
  Context (p : prog).

  Record minv (T : Q) (st : nstate) : Prop := mkMinv {
    mi_time : n_mtime st = T;
    mi_pos : pos_tcs (n_tcs st);
    mi_ge : forall e, In e (n_q st) -> T <= e_time e;
    mi_sorted : ksorted e_time e_cnt (n_q st);
    mi_cnt : forall e, In e (n_q st) -> (e_cnt e < n_qcnt st)%nat;
    mi_rs : Forall (fun s => s <= T) (rsecs (n_log st));
    mi_rsorted : StronglySorted (fun a b => b <= a) (rsecs (n_log st));
    mi_pt : Forall (fun s => s <= T) (ptimes (n_log st));
    (* a routine that has not started yet is due at the logical time at which it was played *)
    mi_child : forall e r, In e (n_q st) -> nth_error (n_routs st) (e_rid e) = Some r -> r_k r = 0%nat ->
                 exists o Tp, In (EvPlay o (e_rid e) (e_clock e) Tp) (n_log st) /\ e_time e == Tp;
    mi_plt : forall o ch c Tp, In (EvPlay o ch c Tp) (n_log st) -> (ch < length (n_routs st))%nat;
    mi_puniq : forall o ch c Tp o' c' Tp', In (EvPlay o ch c Tp) (n_log st) -> In (EvPlay o' ch c' Tp') (n_log st) ->
                 c = c' /\ Tp = Tp';
    mi_res0 : forall rid c s b o c' Tp, In (EvResume rid 0 c s b) (n_log st) -> In (EvPlay o rid c' Tp) (n_log st) ->
                 c = c' /\ s == Tp
  }.

  (* what a segment at logical time T does *)
  Definition mframe (cur : option nat) (T : Q) (st st' : nstate) : Prop :=
    (exists ext, n_routs st' = n_routs st ++ ext) /\
    (wf_tcs (n_tcs st) -> wf_tcs (n_tcs st') /\ forall c, s2b (n_tcs st') c T == s2b (n_tcs st) c T) /\
    (forall B, pinv None p B cur st -> minv T st ->
       exists B', pinv None p B' cur st' /\ minv T st' /\ forall i, (i < length (n_routs st))%nat -> B' i = B i).

  Lemma mframe_refl cur T st : mframe cur T st st.
  Proof.
    split; [exists []; rewrite app_nil_r; reflexivity|]. split; [intros W; split; [exact W|intros; reflexivity]|].
    intros B H M. exists B. auto.
  Qed.
  Lemma mframe_trans cur T a b c : mframe cur T a b -> mframe cur T b c -> mframe cur T a c.
  Proof.
    intros [(e1 & E1) [S1 F1]] [(e2 & E2) [S2 F2]]. split; [|split].
    - exists (e1 ++ e2). rewrite E2, E1, app_assoc. reflexivity.
    - intros W. destruct (S1 W) as [W1 A1]. destruct (S2 W1) as [W2 A2]. split; auto.
      intros c0. rewrite A2, A1. reflexivity.
    - intros B H M. destruct (F1 B H M) as (B1 & H1 & M1 & A1). destruct (F2 B1 H1 M1) as (B2 & H2 & M2 & A2).
      exists B2. split; auto. split; auto. intros i Hi. rewrite A2, A1; auto. rewrite E1, app_length. lia.
  Qed.

  (* a step that only logs something that is neither a resumption nor a play *)
  Lemma minv_logonly T st st' ev :
    n_q st' = n_q st -> n_routs st' = n_routs st -> n_tcs st' = n_tcs st -> n_log st' = ev :: n_log st ->
    n_mtime st' = n_mtime st -> n_qcnt st' = n_qcnt st ->
    (forall rid k c s b, ev <> EvResume rid k c s b) -> (forall o ch c s, ev <> EvPlay o ch c s) ->
    minv T st -> minv T st'.
  Proof.
    intros Hq Hr Ht Hl Hm Hc Hev Hpl [M1 M2 M3 M4 M5 M6 M7 M8 M9 M10 M11 M12].
    assert (R : rsecs (n_log st') = rsecs (n_log st)).
    { rewrite Hl. unfold rsecs. simpl. destruct ev; auto. exfalso; eapply Hev; eauto. }
    assert (P : ptimes (n_log st') = ptimes (n_log st)).
    { rewrite Hl. unfold ptimes. simpl. destruct ev; auto. exfalso; eapply Hpl; eauto. }
    constructor; rewrite ?Hq, ?Hr, ?Ht, ?Hm, ?Hc, ?R, ?P; auto.
    - intros e r He Hn Hk. destruct (M9 e r He Hn Hk) as (o & Tp & A & B). exists o, Tp. rewrite Hl. split; [right|]; auto.
    - intros o ch c Tp. rewrite Hl. intros [H|H]; [exfalso; eapply Hpl; eauto|]. eapply M10; eauto.
    - intros o ch c Tp o' c' Tp'. rewrite Hl. intros [H|H]; [exfalso; eapply Hpl; eauto|].
      intros [H'|H']; [exfalso; eapply Hpl; eauto|]. eapply M11; eauto.
    - intros rid c s b o c' Tp. rewrite Hl. intros [H|H]; [exfalso; eapply Hev; eauto|].
      intros [H'|H']; [exfalso; eapply Hpl; eauto|]. eapply M12; eauto.
  Qed.
End Mono.

Lemma in_ptimes o ch c Tp log : In (EvPlay o ch c Tp) log -> In Tp (ptimes log).
Proof. intros H. unfold ptimes. apply in_flat_map. eexists. split; [exact H|]. simpl; auto. Qed.
Lemma in_rsecs rid k c s b log : In (EvResume rid k c s b) log -> In s (rsecs log).
Proof. intros H. unfold rsecs. apply in_flat_map. eexists. split; [exact H|]. simpl; auto. Qed.

Lemma pos_tcs_set tcs i t : pos_tcs tcs -> pos_tc t -> pos_tcs (set_nth tcs i t).
Proof.
  unfold pos_tcs. intros H Ht. apply Forall_forall. intros x Hx.
  destruct (set_nth_in _ _ _ _ Hx) as [->|Hin]; auto. rewrite Forall_forall in H. auto.
Qed.

(* the fold of retime keeps the queue ordered and the counts below the counter *)
Lemma repush_fold_sorted c l : forall s,
  ksorted e_time e_cnt (n_q s) -> (forall e, In e (n_q s) -> (e_cnt e < n_qcnt s)%nat) ->
  ksorted e_time e_cnt (n_q (fold_left (repush c) l s)) /\
  (forall e, In e (n_q (fold_left (repush c) l s)) -> (e_cnt e < n_qcnt (fold_left (repush c) l s))%nat).
Proof.
  induction l as [|e l IH]; intros s Hs Hc; simpl; auto.
  apply IH.
  - unfold repush. rewrite push_q. apply kinsert_sorted; auto.
  - intros e0 He0. unfold repush in He0. rewrite push_q in He0. apply kinsert_in in He0.
    unfold repush, push. cbn [n_qcnt]. destruct He0 as [->|He0]; simpl; [lia|]. specialize (Hc _ He0). lia.
Qed.

Section Mono2.
  Context (p : prog) (qk : quirks).
  Hypothesis Happ : qk_app_abs qk = false.
  Hypothesis Hfrozen : qk_tempo_frozen qk = false.

  Lemma mframe_logonly cur T st st' ev : pframe None p cur st st' ->
    n_q st' = n_q st -> n_routs st' = n_routs st -> n_tcs st' = n_tcs st -> n_log st' = ev :: n_log st ->
    n_mtime st' = n_mtime st -> n_qcnt st' = n_qcnt st ->
    (forall rid k c s b, ev <> EvResume rid k c s b) -> (forall o ch c s, ev <> EvPlay o ch c s) ->
    mframe p cur T st st'.
  Proof.
    intros [Pe PF] Hq Hr Ht Hl Hm Hc Hev Hpl. split; auto. split.
    - intros W. rewrite Ht. split; auto. intros; reflexivity.
    - intros B I M. destruct (PF B I) as (B' & I' & Ag). exists B'. split; auto. split; auto.
      eapply minv_logonly; eauto.
  Qed.

  Lemma send_mframe cur st org T lat es : mframe p cur T st (fst (nrt_send None st org T lat es)).
  Proof.
    pose proof (send_pframe None p cur st org T lat es) as PF. unfold nrt_send in *.
    destruct (stamp_bundle (send_mode None org) T lat es) as [sb|]; cbn [fst] in *;
      eapply mframe_logonly; eauto; try reflexivity; intros; discriminate.
  Qed.
  Lemma sendmsg_mframe cur st org T m : mframe p cur T st (fst (nrt_sendmsg None st org T m)).
  Proof. unfold nrt_sendmsg. apply send_mframe. Qed.

  Lemma play_time_eq st T c : wf_tcs (n_tcs st) ->
    b2s (n_tcs st) c (match c with CSystem => T + 0 | CApp => T + 0 | CTempo _ => s2b (n_tcs st) c T + 0 end) == T.
  Proof.
    intros W. destruct c as [| |i].
    - simpl. ring.
    - simpl. ring.
    - assert (E : s2b (n_tcs st) (CTempo i) T + 0 == s2b (n_tcs st) (CTempo i) T) by ring.
      rewrite (b2s_comp _ _ _ _ E). apply b2s_s2b. exact W.
  Qed.

  Lemma play_mframe cur st org T r c : mframe p cur T st (fst (nrt_play None qk p st org T r c)).
  Proof.
    pose proof (play_pframe None p qk Happ cur st org T r c) as PF. unfold nrt_play in *.
    destruct (nth_error (p_bodies p) r) as [body|] eqn:Eb; [|apply mframe_refl].
    destruct (clock_ok (n_tcs st) c && clock_ok_mode None c); [|apply mframe_refl].
    cbn [fst] in *. unfold nrt_sched_play in *. rewrite Happ in *.
    set (rid := length (n_routs st)) in *.
    set (beat := match c with CSystem => T + 0 | CApp => T + 0 | CTempo _ => s2b (n_tcs st) c T + 0 end).
    set (st1 := add_log (set_routs st (n_routs st ++ [mkR r body c 0])) (EvPlay org rid c T)) in *.
    change (mframe p cur T st (push st1 (b2s (n_tcs st) c beat) c rid beat)).
    change (pframe None p cur st (push st1 (b2s (n_tcs st) c beat) c rid beat)) in PF.
    destruct PF as [Pe PF]. split; auto. split; [intros W; split; [exact W|intros; reflexivity]|].
    intros B I M. destruct (PF B I) as (B' & I' & Ag). exists B'. split; auto. split; auto.
    pose proof (play_time_eq st T c (pi_wf _ _ _ _ _ I)) as Htm. fold beat in Htm.
    assert (Hlt : forall e, In e (n_q st) -> (e_rid e < rid)%nat) by (intros e He; apply (ent_lt None p B st e); apply (pi_ent _ _ _ _ _ I); auto).
    destruct M as [M1 M2 M3 M4 M5 M6 M7 M8 M9 M10 M11 M12].
    constructor; cbn [n_mtime n_tcs n_routs n_log n_qcnt push st1 add_log set_routs]; auto.
    - intros e He. rewrite push_q in He. apply kinsert_in in He. destruct He as [->|He]; auto.
      cbn [e_time]. rewrite Qred_correct, Htm. lra.
    - rewrite push_q. apply kinsert_sorted; auto.
    - intros e He. rewrite push_q in He. apply kinsert_in in He. destruct He as [->|He]; simpl; [lia|].
      specialize (M5 _ He). simpl in M5. lia.
    - unfold ptimes. simpl. constructor; [lra|exact M8].
    - intros e r0 He Hn Hk. rewrite push_q in He. apply kinsert_in in He. destruct He as [->|He].
      + exists org, T. cbn [e_rid e_clock e_time]. split; [left; reflexivity|]. rewrite Qred_correct. exact Htm.
      + specialize (Hlt _ He). rewrite nth_error_app1 in Hn by exact Hlt.
        destruct (M9 e r0 He Hn Hk) as (o & Tp & A & A'). exists o, Tp. split; [right|]; auto.
    - intros o ch c0 Tp [H|H]; rewrite app_length; simpl.
      + inversion H; subst. unfold rid. lia.
      + specialize (M10 _ _ _ _ H). lia.
    - intros o ch c0 Tp o' c' Tp' [H|H] [H'|H'].
      + inversion H; inversion H'; subst. auto.
      + inversion H; subst. specialize (M10 _ _ _ _ H'). unfold rid in M10. lia.
      + inversion H'; subst. specialize (M10 _ _ _ _ H). unfold rid in M10. lia.
      + eapply M11; eauto.
    - intros rid0 c0 s b o c' Tp [H|H]; [discriminate|]. intros [H'|H'].
      + inversion H'; subst.
        destruct (pi_log _ _ _ _ _ I _ _ _ _ _ H) as (r0 & A1 & _).
        assert ((rid < length (n_routs st))%nat) by (apply nth_error_Some; rewrite A1; discriminate). unfold rid in *. lia.
      + eapply M12; eauto.
  Qed.

  Lemma tempo_mframe cur st org T i v : mframe p cur T st (fst (nrt_set_tempo None qk st org T i v)).
  Proof.
    pose proof (tempo_pframe None p qk Hfrozen cur st org T i v) as PF. unfold nrt_set_tempo in *.
    destruct (nth_error (n_tcs st) i) as [t|] eqn:Et.
    2:{ cbn [fst] in *. eapply mframe_logonly; eauto; try reflexivity; intros; discriminate. }
    destruct (tc_set_tempo t T v) as [t'|] eqn:Es.
    2:{ cbn [fst] in *. eapply mframe_logonly; eauto; try reflexivity; intros; discriminate. }
    cbn [fst] in *. rewrite Hfrozen in *.
    set (st1 := set_f11 (set_tcs st (set_nth (n_tcs st) i t')) (n_f11 st || existsb (is_clock (CTempo i)) (n_q st))) in *.
    destruct (retime_proj st1 i) as (P1 & P2 & P3 & _ & _ & P6).
    assert (Anchor : wf_tcs (n_tcs st) -> forall c, s2b (set_nth (n_tcs st) i t') c T == s2b (n_tcs st) c T).
    { intros W c. destruct (clock_eqb c (CTempo i)) eqn:Ec.
      - destruct c as [| |j]; try discriminate. simpl in Ec. apply Nat.eqb_eq in Ec. subst j. simpl.
        rewrite (set_nth_same _ _ _ _ Et), Et. apply (tc_set_tempo_anchor t T v t'); auto.
        unfold wf_tcs in W. rewrite Forall_forall in W. apply W. eapply nth_error_In; eauto.
      - rewrite s2b_set_other; [reflexivity|]. intros ->. simpl in Ec. rewrite Nat.eqb_refl in Ec. discriminate. }
    destruct PF as [Pe PF]. split; auto. split.
    { intros W. cbn [n_tcs add_log]. rewrite P3. split; [apply wf_tcs_set; auto; eapply tc_set_tempo_wf; eauto|]. apply Anchor; auto. }
    intros B I M. destruct (PF B I) as (B' & I' & Ag). exists B'. split; auto. split; auto.
    pose proof (pi_wf _ _ _ _ _ I) as W. pose proof (pi_wf _ _ _ _ _ I') as W'. cbn [n_tcs add_log] in W'. rewrite P3 in W'.
    change (n_tcs st1) with (set_nth (n_tcs st) i t') in W'.
    destruct M as [M1 M2 M3 M4 M5 M6 M7 M8 M9 M10 M11 M12].
    assert (P' : pos_tcs (set_nth (n_tcs st) i t')) by (apply pos_tcs_set; auto; eapply tc_set_tempo_pos; eauto).
    (* an entry of clock i after the re-timing *)
    assert (Retimed : forall e x, In e (n_q st) -> e_clock e = CTempo i ->
              x == b2s (set_nth (n_tcs st) i t') (CTempo i) (e_beats e) -> T <= x /\ (e_time e <= T -> x == T)).
    { intros e x He Hc Hx. destruct (pi_ent _ _ _ _ _ I e He) as (r0 & _ & _ & _ & _ & K). unfold tkey in K. rewrite Hc in K.
      pose proof (M3 e He) as Hge.
      assert (Hb : s2b (n_tcs st) (CTempo i) (e_time e) == e_beats e).
      { rewrite (s2b_comp _ _ _ _ K). apply s2b_b2s; auto. }
      assert (Hb0 : s2b (n_tcs st) (CTempo i) T <= e_beats e).
      { rewrite <- Hb. apply s2b_mono; auto. }
      assert (HT : b2s (set_nth (n_tcs st) i t') (CTempo i) (s2b (n_tcs st) (CTempo i) T) == T).
      { rewrite <- (b2s_comp _ _ _ _ (Anchor W (CTempo i))). apply b2s_s2b; auto. }
      split.
      - rewrite Hx, <- HT. apply b2s_mono; auto.
      - intros Hle. assert (Et' : e_time e == T) by lra.
        rewrite Hx, <- HT. apply b2s_comp. rewrite <- Hb. apply s2b_comp. exact Et'. }
    destruct (repush_fold_sorted (CTempo i) (filter (is_clock (CTempo i)) (n_q st1))
                (set_q st1 (filter (fun e => negb (is_clock (CTempo i) e)) (n_q st1)))) as (S1 & S2).
    { cbn [n_q set_q]. apply ksorted_filter. exact M4. }
    { cbn [n_q n_qcnt set_q]. intros e He. apply filter_In in He. apply M5. tauto. }
    rewrite <- retime_unfold in S1, S2.
    constructor; cbn [n_mtime n_tcs n_routs n_log n_qcnt n_q add_log]; rewrite ?P1, ?P2, ?P3, ?P6; auto.
    - intros e' He'. destruct (retime_in _ _ _ He') as [[Hin Hc]|(e & Hin & Hce & R1 & R2 & R3 & R4)]; auto.
      apply (Retimed e (e_time e') Hin Hce R4).
    - intros e' r0 He' Hn Hk. destruct (retime_in _ _ _ He') as [[Hin Hc]|(e & Hin & Hce & R1 & R2 & R3 & R4)].
      + destruct (M9 e' r0 Hin Hn Hk) as (o & Tp & A & A'). exists o, Tp. split; [right|]; auto.
      + rewrite R1 in Hn. destruct (M9 e r0 Hin Hn Hk) as (o & Tp & A & A'). exists o, Tp.
        rewrite R1, R2, <- Hce. split; [right; exact A|].
        assert (HTp : Tp <= T). { rewrite Forall_forall in M8. apply M8. eapply in_ptimes; eauto. }
        destruct (Retimed e (e_time e') Hin Hce R4) as [_ Heq]. rewrite Heq by lra.
        pose proof (M3 e Hin). lra.
    - intros o ch c0 Tp [H|H]; [discriminate|]. eapply M10; eauto.
    - intros o ch c0 Tp o' c' Tp' [H|H]; [discriminate|]. intros [H'|H']; [discriminate|]. eapply M11; eauto.
    - intros rid0 c0 s b o c' Tp [H|H]; [discriminate|]. intros [H'|H']; [discriminate|]. eapply M12; eauto.
  Qed.

  Lemma run_acts_mframe cur org T acts st cclk st' oc :
    run_acts None qk p st org T cclk acts = (st', oc) -> mframe p cur T st st'.
  Proof.
    apply run_acts_ind.
    - apply mframe_refl.
    - apply mframe_trans.
    - intros; apply send_mframe.
    - intros; apply sendmsg_mframe.
    - intros; apply play_mframe.
    - intros; apply tempo_mframe.
  Qed.
End Mono2.

Lemma in_skipn {A} (x : A) : forall k l, In x (skipn k l) -> In x l.
Proof. induction k as [|k IH]; intros [|y l] H; simpl in *; auto. Qed.

Section MonoExec.
  Context (p : prog) (qk : quirks).
  Hypothesis Happ : qk_app_abs qk = false.
  Hypothesis Hfrozen : qk_tempo_frozen qk = false.
  Hypothesis Hnn : nonneg_prog p.

  Definition cinv (st : nstate) : Prop := exists B, pinv None p B None st /\ minv (n_mtime st) st.

  Lemma ys_nonneg r d : In d (ys_of p r) -> 0 <= d.
  Proof.
    unfold ys_of. destruct (nth_error (p_bodies p) (r_def r)) as [body|] eqn:E; [|simpl; tauto].
    intros H. destruct Hnn as [Hb _]. rewrite Forall_forall in Hb. specialize (Hb body (nth_error_In _ _ E)).
    rewrite Forall_forall in Hb. auto.
  Qed.

  (* the state in which the segment of the popped entry starts *)
  Lemma start_minv B st e rest beats r :
    n_q st = e :: rest -> pinv None p B None st -> minv (n_mtime st) st ->
    nth_error (n_routs st) (e_rid e) = Some r ->
    minv (e_time e) (add_log (set_mtime (set_q st rest) (e_time e)) (EvResume (e_rid e) (r_k r) (e_clock e) (e_time e) beats)).
  Proof.
    intros Hq I [M1 M2 M3 M4 M5 M6 M7 M8 M9 M10 M11 M12] Hr.
    assert (Hin : In e (n_q st)) by (rewrite Hq; left; reflexivity).
    assert (Sub : forall x, In x rest -> In x (n_q st)) by (intros x Hx; rewrite Hq; right; exact Hx).
    pose proof (M3 e Hin) as HT.
    rewrite Hq in M4. pose proof (ksorted_head_min e_time e_cnt e rest M4) as Hmin.
    constructor; cbn [n_mtime n_tcs n_routs n_log n_qcnt n_q add_log set_mtime set_q]; auto.
    - unfold ksorted in *. inversion M4; auto.
    - unfold rsecs. simpl. constructor; [lra|]. eapply Forall_impl; [|exact M6]. simpl. intros; lra.
    - unfold rsecs. simpl. constructor; [exact M7|]. eapply Forall_impl; [|exact M6]. simpl. intros; lra.
    - unfold ptimes. simpl. eapply Forall_impl; [|exact M8]. simpl. intros; lra.
    - intros x r0 Hx Hn Hk. destruct (M9 x r0 (Sub x Hx) Hn Hk) as (o & Tp & A & A'). exists o, Tp. split; [right|]; auto.
    - intros o ch c Tp [H|H]; [discriminate|]. eapply M10; eauto.
    - intros o ch c Tp o' c' Tp' [H|H]; [discriminate|]. intros [H'|H']; [discriminate|]. eapply M11; eauto.
    - intros rid c s b o c' Tp [H|H] [H'|H']; try discriminate.
      + injection H as E1 E2 E3 E4 E5. subst rid c s. destruct (M9 e r Hin Hr E2) as (o0 & Tp0 & A & A').
        destruct (M11 _ _ _ _ _ _ _ A H') as [<- <-]. split; auto.
      + eapply M12; eauto.
  Qed.

  (* and the state after it *)
  Lemma finish_minv B T st2 rid r oc (c : clockid) (tm nb : Q -> Q) :
    pinv None p B (Some rid) st2 -> minv T st2 -> nth_error (n_routs st2) rid = Some r ->
    (forall d rest, oc = OYield d rest -> T <= tm d) ->
    minv T (match oc with
              | OYield d rest =>
                  push (set_routs st2 (set_nth (n_routs st2) rid (mkR (r_def r) rest c (S (r_k r))))) (tm d) c rid (nb d)
              | ODone => add_log (set_routs st2 (set_nth (n_routs st2) rid (mkR (r_def r) [] c (S (r_k r))))) (EvEnd rid (r_k r) false)
              | ORaise => add_log (set_routs st2 (set_nth (n_routs st2) rid (mkR (r_def r) [] c (S (r_k r))))) (EvEnd rid (r_k r) true)
              end).
  Proof.
    intros I [M1 M2 M3 M4 M5 M6 M7 M8 M9 M10 M11 M12] Hr Htm.
    assert (Child : forall rest' x r0, In x (n_q st2) ->
              nth_error (set_nth (n_routs st2) rid (mkR (r_def r) rest' c (S (r_k r)))) (e_rid x) = Some r0 -> r_k r0 = 0%nat ->
              exists o Tp, In (EvPlay o (e_rid x) (e_clock x) Tp) (n_log st2) /\ e_time x == Tp).
    { intros rest' x r0 Hx Hn Hk. rewrite set_nth_other in Hn; [eapply M9; eauto|].
      intros Eq. apply (pi_cur _ _ _ _ _ I x Hx). congruence. }
    destruct oc as [d rest'| |].
    - specialize (Htm d rest' eq_refl).
      constructor; cbn [n_mtime n_tcs n_routs n_log n_qcnt push set_routs]; auto.
      + intros x Hx. rewrite push_q in Hx. apply kinsert_in in Hx. destruct Hx as [->|Hx]; auto.
        cbn [e_time]. rewrite Qred_correct. exact Htm.
      + rewrite push_q. apply kinsert_sorted; auto.
      + intros x Hx. rewrite push_q in Hx. apply kinsert_in in Hx. destruct Hx as [->|Hx]; simpl; [lia|].
        specialize (M5 _ Hx). simpl in M5. lia.
      + intros x r0 Hx Hn Hk. rewrite push_q in Hx. apply kinsert_in in Hx. destruct Hx as [->|Hx].
        * cbn [e_rid] in Hn. rewrite (set_nth_same _ _ _ _ Hr) in Hn. inversion Hn; subst. discriminate.
        * eapply Child; eauto.
      + intros o ch c0 Tp H. rewrite set_nth_length. eapply M10; eauto.
    - constructor; cbn [n_mtime n_tcs n_routs n_log n_qcnt n_q add_log set_routs]; auto.
      + intros x r0 Hx Hn Hk. destruct (Child [] x r0 Hx Hn Hk) as (o & Tp & A & A'). exists o, Tp. split; [right|]; auto.
      + intros o ch c0 Tp [H|H]; [discriminate|]. rewrite set_nth_length. eapply M10; eauto.
      + intros o ch c0 Tp o' c' Tp' [H|H]; [discriminate|]. intros [H'|H']; [discriminate|]. eapply M11; eauto.
      + intros rid0 c0 s b o c' Tp [H|H]; [discriminate|]. intros [H'|H']; [discriminate|]. eapply M12; eauto.
    - constructor; cbn [n_mtime n_tcs n_routs n_log n_qcnt n_q add_log set_routs]; auto.
      + intros x r0 Hx Hn Hk. destruct (Child [] x r0 Hx Hn Hk) as (o & Tp & A & A'). exists o, Tp. split; [right|]; auto.
      + intros o ch c0 Tp [H|H]; [discriminate|]. rewrite set_nth_length. eapply M10; eauto.
      + intros o ch c0 Tp o' c' Tp' [H|H]; [discriminate|]. intros [H'|H']; [discriminate|]. eapply M11; eauto.
      + intros rid0 c0 s b o c' Tp [H|H]; [discriminate|]. intros [H'|H']; [discriminate|]. eapply M12; eauto.
  Qed.

  Lemma mtime_after (st2 : nstate) oc rid (r : rout) (c : clockid) (tm nb : Q -> Q) :
    n_mtime (match oc with
             | OYield d rest =>
                 push (set_routs st2 (set_nth (n_routs st2) rid (mkR (r_def r) rest c (S (r_k r))))) (tm d) c rid (nb d)
             | ODone => add_log (set_routs st2 (set_nth (n_routs st2) rid (mkR (r_def r) [] c (S (r_k r))))) (EvEnd rid (r_k r) false)
             | ORaise => add_log (set_routs st2 (set_nth (n_routs st2) rid (mkR (r_def r) [] c (S (r_k r))))) (EvEnd rid (r_k r) true)
             end) = n_mtime st2.
  Proof. destruct oc; reflexivity. Qed.

  Lemma nrt_wake_cinv st e rest : n_q st = e :: rest -> cinv st -> cinv (nrt_wake qk p (set_q st rest) e).
  Proof.
    intros Hq (B & I & M).
    assert (Hin : In e (n_q st)) by (rewrite Hq; left; reflexivity).
    pose proof (pi_wf _ _ _ _ _ I) as W.
    destruct (pi_ent _ _ _ _ _ I e Hin) as (r & A1 & A2 & A3 & A4 & A5).
    pose proof (start_minv B st e rest (Qred (s2b (n_tcs st) (e_clock e) (e_time e))) r Hq I M A1) as M1.
    unfold nrt_wake. cbn [n_routs set_mtime set_q n_tcs]. rewrite A1.
    set (T := e_time e) in *. set (beats := Qred (s2b (n_tcs st) (e_clock e) T)) in *.
    assert (Hb : beats == e_beats e).
    { unfold beats, T. rewrite Qred_correct. unfold tkey in A5. rewrite (s2b_comp _ _ _ _ A5). apply s2b_b2s. exact W. }
    assert (Hs : sec_ok (e_clock e) T beats).
    { unfold sec_ok, beats. destruct (e_clock e); auto; rewrite Qred_correct; simpl; reflexivity. }
    destruct (start_pinv None p B st e rest T T beats I Hin) as (r' & R1 & R2 & R3 & I1); auto.
    { rewrite Hq. apply Permutation_refl. }
    { intros r0 Hr0. rewrite A1 in Hr0. inversion Hr0; subst r0. rewrite Hb. exact A3. }
    rewrite A1 in R1. inversion R1; subst r'. clear R1.
    match goal with |- context [run_acts None qk p ?s ?o ?t ?c ?a] => destruct (run_acts None qk p s o t c a) as [st2 oc] eqn:E end.
    destruct (run_acts_mframe p qk Happ Hfrozen (Some (e_rid e)) _ _ _ _ _ _ _ E) as [(ext & Ex) [An F]].
    destruct (F B I1 M1) as (B' & I2 & M2 & Agree).
    destruct (An W) as [W2 Anchor].
    assert (Hlt : (e_rid e < length (n_routs st))%nat) by (apply nth_error_Some; rewrite A1; discriminate).
    assert (Hr2 : nth_error (n_routs st2) (e_rid e) = Some r).
    { rewrite Ex. cbn [n_routs add_log set_mtime set_q]. rewrite nth_error_app1; auto. }
    assert (HB : B' (e_rid e) = B (e_rid e)) by (apply Agree; exact Hlt).
    set (fin := match oc with
             | OYield d rest0 =>
                 push (set_routs st2 (set_nth (n_routs st2) (e_rid e) (mkR (r_def r) rest0 (e_clock e) (S (r_k r)))))
                      (b2s (n_tcs st2) (e_clock e) (beats + d)) (e_clock e) (e_rid e) (beats + d)
             | ODone => add_log (set_routs st2 (set_nth (n_routs st2) (e_rid e) (mkR (r_def r) [] (e_clock e) (S (r_k r))))) (EvEnd (e_rid e) (r_k r) false)
             | ORaise => add_log (set_routs st2 (set_nth (n_routs st2) (e_rid e) (mkR (r_def r) [] (e_clock e) (S (r_k r))))) (EvEnd (e_rid e) (r_k r) true)
             end).
    change (cinv fin).
    assert (G : ginv p None fin).
    { apply (finish_ginv p None B' st2 (e_rid e) r (fun d => b2s (n_tcs st2) (e_clock e) (beats + d)) (fun d => beats + d) oc (e_clock e) 0); auto.
      - intros d rest0 ->. apply (run_acts_yield _ _ _ _ _ _ _ _ _ _ _ E).
      - intros d rest0 _. split.
        + rewrite HB, Hb, A3. reflexivity.
        + intros cnt. unfold tkey. cbn [e_time e_beats e_clock]. rewrite Qred_correct. apply b2s_comp. rewrite Qred_correct. reflexivity. }
    destruct G as (B2 & I3). exists B2. split; [exact I3|].
    assert (Em : n_mtime fin = T) by (unfold fin; destruct oc; cbn; apply (mi_time _ _ M2)).
    rewrite Em.
    apply (finish_minv B' T st2 (e_rid e) r oc (e_clock e) (fun d => b2s (n_tcs st2) (e_clock e) (beats + d)) (fun d => beats + d)); auto.
    intros d rest0 ->.
    assert (Hd : 0 <= d).
    { destruct (run_acts_yield _ _ _ _ _ _ _ _ _ _ _ E) as [_ Hy]. apply (ys_nonneg r).
      apply (in_skipn d (r_k r)). rewrite <- A4, Hy. left; reflexivity. }
    assert (HT : b2s (n_tcs st2) (e_clock e) beats == T).
    { assert (Eb : beats == s2b (n_tcs st2) (e_clock e) T).
      { unfold beats. rewrite Qred_correct. symmetry. apply Anchor. }
      rewrite (b2s_comp _ _ _ _ Eb). apply b2s_s2b. exact W2. }
    rewrite <- HT. apply b2s_mono; [exact (mi_pos _ _ M2)|lra].
  Qed.

  Lemma nrt_loop_cinv fuel : forall st, cinv st -> cinv (nrt_loop qk p fuel st).
  Proof.
    induction fuel as [|f IH]; intros st G; simpl; auto.
    destruct (n_q st) as [|e rest] eqn:Eq; auto. apply IH. apply nrt_wake_cinv; auto.
  Qed.

  Lemma nrt_main_cinv : cinv (nrt_main qk p).
  Proof.
    unfold nrt_main. destruct (run_acts None qk p (nrt_init p) None 0 CSystem (p_main p)) as [st' oc] eqn:E.
    destruct (run_acts_mframe p qk Happ Hfrozen None _ _ _ _ _ _ _ E) as [_ [_ F]]. cbn [fst].
    assert (W : wf_tcs (map (fun t => tc_new t 0) (p_tempos p))).
    { unfold wf_tcs. apply Forall_forall. intros t Ht. apply in_map_iff in Ht. destruct Ht as (x & <- & _). apply tc_new_wf. }
    destruct (F (fun _ => 0)) as (B' & I & M & _).
    - unfold nrt_init, score_add. cbn. apply pinv_empty. exact W.
    - unfold nrt_init, score_add. cbn. constructor; simpl; auto; try (intros; tauto); try constructor.
      destruct Hnn as [_ Ht]. unfold pos_tcs. apply Forall_forall. intros t Hin. apply in_map_iff in Hin.
      destruct Hin as (x & <- & Hx). apply tc_new_pos. rewrite Forall_forall in Ht. auto.
    - exists B'. split; auto. rewrite (mi_time _ _ M). exact M.
  Qed.

  Lemma nrt_reach_cinv fuel : cinv (nrt_loop qk p fuel (nrt_main qk p)).
  Proof. apply nrt_loop_cinv. apply nrt_main_cinv. Qed.
End MonoExec.

(* ======================================================================================================== *)
(* ---- the statements ---------------------------------------------------------------------------------------- *)
Lemma kth_resume_nrt qk p fuel rid k c s b c0 s0 b0 :
  qk_app_abs qk = false -> qk_tempo_frozen qk = false ->
  let st := nrt_loop qk p fuel (nrt_main qk p) in
  In (EvResume rid k c s b) (n_log st) -> In (EvResume rid 0 c0 s0 b0) (n_log st) ->
  exists r, nth_error (n_routs st) rid = Some r /\ c = r_clock r /\ c0 = r_clock r /\
            b == b0 + Qsum (firstn k (ys_of p r)) /\ sec_ok c s b.
Proof. intros Ha Hf st. apply (sigma_of_ginv None). apply nrt_reach_ginv; auto. Qed.

Lemma kth_resume_rt off p sched rid k c s b c0 s0 b0 :
  let st := rs (rt_run off p sched) in
  In (EvResume rid k c s b) (n_log st) -> In (EvResume rid 0 c0 s0 b0) (n_log st) ->
  exists r, nth_error (n_routs st) rid = Some r /\ c = r_clock r /\ c0 = r_clock r /\
            b == b0 + Qsum (firstn k (ys_of p r)) /\ sec_ok c s b.
Proof. intros st. apply (sigma_of_ginv (Some off)). apply rt_run_ginv. Qed.

Lemma child_start_nrt qk p fuel o ch c Tp c' s b :
  qk_app_abs qk = false -> qk_tempo_frozen qk = false -> nonneg_prog p ->
  let st := nrt_loop qk p fuel (nrt_main qk p) in
  In (EvPlay o ch c Tp) (n_log st) -> In (EvResume ch 0 c' s b) (n_log st) -> c' = c /\ s == Tp.
Proof.
  intros Ha Hf Hn st Hp Hr. destruct (nrt_reach_cinv p qk Ha Hf Hn fuel) as (B & _ & M).
  apply (mi_res0 _ _ M _ _ _ _ _ _ _ Hr Hp).
Qed.

Lemma flat_map_rev_single {A B} (f : A -> list B) (l : list A) :
  (forall x, rev (f x) = f x) -> flat_map f (rev l) = rev (flat_map f l).
Proof.
  intros H. induction l as [|x l IH]; simpl; auto.
  rewrite flat_map_app, IH. simpl. rewrite app_nil_r, rev_app_distr, H. reflexivity.
Qed.
Lemma resume_secs_rsecs log : resume_secs log = rev (rsecs log).
Proof.
  unfold resume_secs, rsecs. apply flat_map_rev_single. intros ev. destruct ev; reflexivity.
Qed.
Lemma sorted_rev (l : list Q) : StronglySorted (fun a b => b <= a) l -> StronglySorted Qle (rev l).
Proof.
  induction 1 as [|x l Hs IH Hx]; simpl; [constructor|].
  assert (G : forall l1, StronglySorted Qle l1 -> Forall (fun y => y <= x) l1 -> StronglySorted Qle (l1 ++ [x])).
  { induction 1 as [|y l1 Hs1 IH1 Hy]; intros F; simpl.
    - constructor; constructor.
    - inversion F; subst. constructor; auto. apply Forall_app. split; auto. }
  apply G; auto. apply Forall_rev. exact Hx.
Qed.

Lemma time_monotone_nrt qk p fuel :
  qk_app_abs qk = false -> qk_tempo_frozen qk = false -> nonneg_prog p ->
  StronglySorted Qle (resume_secs (n_log (nrt_loop qk p fuel (nrt_main qk p)))).
Proof.
  intros Ha Hf Hn. destruct (nrt_reach_cinv p qk Ha Hf Hn fuel) as (B & _ & M).
  rewrite resume_secs_rsecs. apply sorted_rev. exact (mi_rsorted _ _ M).
Qed.

(* ======================================================================================================== *)
(* ---- real time: a child starts at the logical time at which it was played, for every oracle --------------- *)
(* On a TempoClock the queue holds beats: the child's seconds are beats2secs of its beat under the map of
   the moment it is woken.  A tempo change of that clock between play() and the start (which in real time
   can come from a routine of ANOTHER clock running at another logical time) moves it; without one the
   child starts exactly at the caller's logical time. *)
Definition notempo (i : nat) (log : list event) : Prop := forall o v, ~ In (EvTempo o i v true) log.
Definition due_ok (tcs : list tclock) (log : list event) (c : clockid) (key Tp : Q) : Prop :=
  match c with CTempo i => notempo i log -> b2s tcs c key == Tp | _ => key == Tp end.
Definition start_ok (log : list event) (c : clockid) (s Tp : Q) : Prop :=
  match c with CTempo i => notempo i log -> s == Tp | _ => s == Tp end.

Record rchild (st : nstate) : Prop := mkRchild {
  rc_wf : wf_tcs (n_tcs st);
  rc_qlt : forall e, In e (n_q st) -> (e_rid e < length (n_routs st))%nat;
  rc_ent : forall e r, In e (n_q st) -> nth_error (n_routs st) (e_rid e) = Some r -> r_k r = 0%nat ->
             exists o Tp, In (EvPlay o (e_rid e) (e_clock e) Tp) (n_log st) /\
                          due_ok (n_tcs st) (n_log st) (e_clock e) (e_time e) Tp /\ clock_ok (n_tcs st) (e_clock e) = true;
  rc_plt : forall o ch c Tp, In (EvPlay o ch c Tp) (n_log st) -> (ch < length (n_routs st))%nat;
  rc_puniq : forall o ch c Tp o' c' Tp', In (EvPlay o ch c Tp) (n_log st) -> In (EvPlay o' ch c' Tp') (n_log st) ->
               c = c' /\ Tp = Tp';
  rc_rlt : forall rid k c s b, In (EvResume rid k c s b) (n_log st) -> (rid < length (n_routs st))%nat;
  rc_res0 : forall rid c s b o c' Tp, In (EvResume rid 0 c s b) (n_log st) -> In (EvPlay o rid c' Tp) (n_log st) ->
              c = c' /\ start_ok (n_log st) c s Tp
}.

Lemma notempo_cons i ev log : notempo i (ev :: log) -> notempo i log.
Proof. intros H o v Hin. apply (H o v). right; exact Hin. Qed.
Lemma due_ok_cons tcs ev log c key Tp : due_ok tcs log c key Tp -> due_ok tcs (ev :: log) c key Tp.
Proof. unfold due_ok. destruct c; auto. intros H N. apply H. eapply notempo_cons; eauto. Qed.
Lemma start_ok_cons ev log c s Tp : start_ok log c s Tp -> start_ok (ev :: log) c s Tp.
Proof. unfold start_ok. destruct c; auto. intros H N. apply H. eapply notempo_cons; eauto. Qed.

Section RtChild.
  Context (p : prog) (off : Z).

  Definition rframe (st st' : nstate) : Prop := rchild st -> rchild st'.

  (* logging anything but a play keeps it (queue, routines, tempo maps unchanged) *)
  Lemma rchild_logonly st st' ev :
    n_q st' = n_q st -> n_routs st' = n_routs st -> n_tcs st' = n_tcs st -> n_log st' = ev :: n_log st ->
    (forall o ch c s, ev <> EvPlay o ch c s) ->
    (forall rid k c s b, ev = EvResume rid k c s b ->
       (rid < length (n_routs st))%nat /\
       (k = 0%nat -> forall o c' Tp, In (EvPlay o rid c' Tp) (n_log st) -> c = c' /\ start_ok (n_log st) c s Tp)) ->
    rframe st st'.
  Proof.
    intros Hq Hr Ht Hl Hpl Hres [R1 R0 R2 R3 R4 R5 R6].
    constructor; rewrite ?Hq, ?Hr, ?Ht, ?Hl; auto.
    - intros e r He Hn Hk. destruct (R2 e r He Hn Hk) as (o & Tp & A & A' & A''). exists o, Tp.
      split; [right; exact A|]. split; auto. apply due_ok_cons. exact A'.
    - intros o ch c Tp [H|H]; [exfalso; eapply Hpl; eauto|]. eapply R3; eauto.
    - intros o ch c Tp o' c' Tp' [H|H]; [exfalso; eapply Hpl; eauto|]. intros [H'|H']; [exfalso; eapply Hpl; eauto|]. eapply R4; eauto.
    - intros rid k c s b [H|H]; [apply (Hres rid k c s b H)|]. eapply R5; eauto.
    - intros rid c s b o c' Tp [H|H].
      + intros [H'|H']; [exfalso; eapply Hpl; eauto|].
        destruct (Hres rid 0%nat c s b H) as [_ K]. destruct (K eq_refl o c' Tp H') as [K1 K2]. split; auto. apply start_ok_cons; auto.
      + intros [H'|H']; [exfalso; eapply Hpl; eauto|].
        destruct (R6 _ _ _ _ _ _ _ H H') as [K1 K2]. split; auto. apply start_ok_cons; auto.
  Qed.

  Lemma send_rframe st org T lat es : rframe st (fst (nrt_send (Some off) st org T lat es)).
  Proof.
    unfold nrt_send. destruct (stamp_bundle (send_mode (Some off) org) T lat es) as [sb|]; cbn [fst];
      eapply rchild_logonly; try reflexivity; intros; discriminate.
  Qed.
  Lemma sendmsg_rframe st org T m : rframe st (fst (nrt_sendmsg (Some off) st org T m)).
  Proof. unfold nrt_sendmsg. cbn [fst]. eapply rchild_logonly; try reflexivity; intros; discriminate. Qed.

  Lemma play_rframe st org T r c : rframe st (fst (nrt_play (Some off) repaired p st org T r c)).
  Proof.
    unfold nrt_play. destruct (nth_error (p_bodies p) r) as [body|]; [|intros H; exact H].
    destruct (clock_ok (n_tcs st) c && clock_ok_mode (Some off) c) eqn:Eok; [|intros H; exact H].
    cbn [fst]. unfold nrt_sched_play. cbn [qk_app_abs repaired].
    set (rid := length (n_routs st)).
    set (beat := match c with CSystem => T + 0 | CApp => T + 0 | CTempo _ => s2b (n_tcs st) c T + 0 end).
    set (st1 := add_log (set_routs st (n_routs st ++ [mkR r body c 0])) (EvPlay org rid c T)).
    change (rframe st (push st1 beat c rid beat)).
    apply andb_true_iff in Eok. destruct Eok as [Eok Emode].
    intros [R1 R0 R2 R3 R4 R5 R6]. pose proof R0 as Hlt.
    constructor; cbn [n_tcs n_routs n_log push st1 add_log set_routs]; auto.
    - intros e He. rewrite push_q in He. apply kinsert_in in He. rewrite app_length. simpl.
      destruct He as [->|He]; [cbn [e_rid]; unfold rid; lia|]. specialize (R0 _ He). lia.
    - intros e r0 He Hn Hk. rewrite push_q in He. apply kinsert_in in He. destruct He as [->|He].
      + exists org, T. cbn [e_rid e_clock e_time]. split; [left; reflexivity|]. split; auto.
        unfold due_ok. destruct c as [| |i]; unfold beat.
        * rewrite Qred_correct. ring.
        * discriminate.
        * intros _. rewrite (b2s_comp _ _ _ _ (Qred_correct _)).
          assert (E : s2b (n_tcs st) (CTempo i) T + 0 == s2b (n_tcs st) (CTempo i) T) by ring.
          rewrite (b2s_comp _ _ _ _ E). apply b2s_s2b. exact R1.
      + specialize (Hlt _ He). rewrite nth_error_app1 in Hn by exact Hlt.
        destruct (R2 e r0 He Hn Hk) as (o & Tp & A & A' & A''). exists o, Tp. split; [right; exact A|]. split; auto.
        apply due_ok_cons. exact A'.
    - intros o ch c0 Tp [H|H]; rewrite app_length; simpl.
      + inversion H; subst. unfold rid. lia.
      + specialize (R3 _ _ _ _ H). lia.
    - intros o ch c0 Tp o' c' Tp' [H|H] [H'|H'].
      + inversion H; inversion H'; subst. auto.
      + inversion H; subst. specialize (R3 _ _ _ _ H'). unfold rid in R3. lia.
      + inversion H'; subst. specialize (R3 _ _ _ _ H). unfold rid in R3. lia.
      + eapply R4; eauto.
    - intros rid0 k c0 s b [H|H]; [discriminate|]. rewrite app_length. specialize (R5 _ _ _ _ _ H). lia.
    - intros rid0 c0 s b o c' Tp [H|H]; [discriminate|]. intros [H'|H'].
      + inversion H'; subst. specialize (R5 _ _ _ _ _ H). unfold rid in R5. lia.
      + destruct (R6 _ _ _ _ _ _ _ H H') as [K1 K2]. split; auto. apply start_ok_cons; auto.
  Qed.

  Lemma tempo_rframe st org T i v : rframe st (fst (nrt_set_tempo (Some off) repaired st org T i v)).
  Proof.
    unfold nrt_set_tempo. destruct (nth_error (n_tcs st) i) as [t|] eqn:Et.
    2:{ cbn [fst]. eapply rchild_logonly; try reflexivity; intros; discriminate. }
    destruct (tc_set_tempo t T v) as [t'|] eqn:Es.
    2:{ cbn [fst]. eapply rchild_logonly; try reflexivity; intros; discriminate. }
    cbn [fst]. intros [R1 R0 R2 R3 R4 R5 R6].
    constructor; cbn [n_q n_tcs n_routs n_log add_log set_f11 set_tcs]; auto.
    - apply wf_tcs_set; auto. eapply tc_set_tempo_wf; eauto.
    - intros e r He Hn Hk. destruct (R2 e r He Hn Hk) as (o & Tp & A & A' & A''). exists o, Tp.
      split; [right; exact A|]. split.
      + unfold due_ok in *. destruct (e_clock e) as [| |j] eqn:Ec; auto.
        intros N. destruct (Nat.eq_dec j i) as [->|Hne].
        * exfalso. apply (N org v). left; reflexivity.
        * rewrite b2s_set_other by congruence. apply A'. eapply notempo_cons; eauto.
      + destruct (e_clock e) as [| |j]; auto. simpl in *. destruct (Nat.eq_dec i j) as [->|Hne].
        * rewrite (set_nth_same _ _ _ _ Et). reflexivity.
        * rewrite set_nth_other; auto.
    - intros o ch c Tp [H|H]; [discriminate|]. eapply R3; eauto.
    - intros o ch c Tp o' c' Tp' [H|H]; [discriminate|]. intros [H'|H']; [discriminate|]. eapply R4; eauto.
    - intros rid k c s b [H|H]; [discriminate|]. eapply R5; eauto.
    - intros rid c s b o c' Tp [H|H]; [discriminate|]. intros [H'|H']; [discriminate|].
      destruct (R6 _ _ _ _ _ _ _ H H') as [K1 K2]. split; auto. apply start_ok_cons; auto.
  Qed.
End RtChild.

Section RtChildExec.
  Context (p : prog) (off : Z).

  Lemma run_acts_rframe org T acts st cclk st' oc :
    run_acts (Some off) repaired p st org T cclk acts = (st', oc) -> rframe st st'.
  Proof.
    apply run_acts_ind.
    - intros s H; exact H.
    - intros a b c F1 F2 H. apply F2, F1, H.
    - intros; apply send_rframe.
    - intros; apply sendmsg_rframe.
    - intros; apply play_rframe.
    - intros; apply tempo_rframe.
  Qed.

  Lemma rchild_subq st q' : (forall x, In x q' -> In x (n_q st)) -> rchild st -> rchild (set_q st q').
  Proof.
    intros Sub [R1 R0 R2 R3 R4 R5 R6]. constructor; cbn [n_q n_tcs n_routs n_log set_q]; auto.
    intros e r He. apply R2. auto.
  Qed.
  Lemma rchild_mtime st m : rchild st -> rchild (set_mtime st m).
  Proof. intros [R1 R0 R2 R3 R4 R5 R6]. constructor; auto. Qed.

  Lemma finish_rchild st2 rid (r : rout) oc (c : clockid) (tm nb : Q -> Q) :
    rchild st2 -> (rid < length (n_routs st2))%nat ->
    rchild (match oc with
            | OYield d rest =>
                push (set_routs st2 (set_nth (n_routs st2) rid (mkR (r_def r) rest c (S (r_k r))))) (tm d) c rid (nb d)
            | ODone => add_log (set_routs st2 (set_nth (n_routs st2) rid (mkR (r_def r) [] c (S (r_k r))))) (EvEnd rid (r_k r) false)
            | ORaise => add_log (set_routs st2 (set_nth (n_routs st2) rid (mkR (r_def r) [] c (S (r_k r))))) (EvEnd rid (r_k r) true)
            end).
  Proof.
    intros [R1 R0 R2 R3 R4 R5 R6] Hlt.
    assert (Ent : forall rest' x r0, In x (n_q st2) ->
              nth_error (set_nth (n_routs st2) rid (mkR (r_def r) rest' c (S (r_k r)))) (e_rid x) = Some r0 -> r_k r0 = 0%nat ->
              exists o Tp, In (EvPlay o (e_rid x) (e_clock x) Tp) (n_log st2) /\
                           due_ok (n_tcs st2) (n_log st2) (e_clock x) (e_time x) Tp /\ clock_ok (n_tcs st2) (e_clock x) = true).
    { intros rest' x r0 Hx Hn Hk. destruct (Nat.eq_dec (e_rid x) rid) as [Eq|Hne].
      - rewrite Eq in Hn. destruct (nth_error (n_routs st2) rid) as [r1|] eqn:E1.
        + rewrite (set_nth_same _ _ _ _ E1) in Hn. inversion Hn; subst. discriminate.
        + apply nth_error_None in E1. lia.
      - rewrite set_nth_other in Hn by congruence. eapply R2; eauto. }
    destruct oc as [d rest'| |].
    - constructor; cbn [n_tcs n_routs n_log push set_routs]; auto.
      + intros x Hx. rewrite push_q in Hx. apply kinsert_in in Hx. rewrite set_nth_length.
        destruct Hx as [->|Hx]; auto.
      + intros x r0 Hx Hn Hk. rewrite push_q in Hx. apply kinsert_in in Hx. destruct Hx as [->|Hx].
        * cbn [e_rid] in Hn. destruct (nth_error (n_routs st2) rid) as [r1|] eqn:E1.
          -- rewrite (set_nth_same _ _ _ _ E1) in Hn. inversion Hn; subst. discriminate.
          -- apply nth_error_None in E1. lia.
        * eapply Ent; eauto.
      + intros o ch c0 Tp H. rewrite set_nth_length. eapply R3; eauto.
      + intros rid0 k c0 s b H. rewrite set_nth_length. eapply R5; eauto.
    - constructor; cbn [n_q n_tcs n_routs n_log add_log set_routs]; auto.
      + intros x Hx. rewrite set_nth_length. auto.
      + intros x r0 Hx Hn Hk. destruct (Ent [] x r0 Hx Hn Hk) as (o & Tp & A & A' & A''). exists o, Tp.
        split; [right; exact A|]. split; auto. apply due_ok_cons; auto.
      + intros o ch c0 Tp [H|H]; [discriminate|]. rewrite set_nth_length. eapply R3; eauto.
      + intros o ch c0 Tp o' c' Tp' [H|H]; [discriminate|]. intros [H'|H']; [discriminate|]. eapply R4; eauto.
      + intros rid0 k c0 s b [H|H]; [discriminate|]. rewrite set_nth_length. eapply R5; eauto.
      + intros rid0 c0 s b o c' Tp [H|H]; [discriminate|]. intros [H'|H']; [discriminate|].
        destruct (R6 _ _ _ _ _ _ _ H H') as [K1 K2]. split; auto. apply start_ok_cons; auto.
    - constructor; cbn [n_q n_tcs n_routs n_log add_log set_routs]; auto.
      + intros x Hx. rewrite set_nth_length. auto.
      + intros x r0 Hx Hn Hk. destruct (Ent [] x r0 Hx Hn Hk) as (o & Tp & A & A' & A''). exists o, Tp.
        split; [right; exact A|]. split; auto. apply due_ok_cons; auto.
      + intros o ch c0 Tp [H|H]; [discriminate|]. rewrite set_nth_length. eapply R3; eauto.
      + intros o ch c0 Tp o' c' Tp' [H|H]; [discriminate|]. intros [H'|H']; [discriminate|]. eapply R4; eauto.
      + intros rid0 k c0 s b [H|H]; [discriminate|]. rewrite set_nth_length. eapply R5; eauto.
      + intros rid0 c0 s b o c' Tp [H|H]; [discriminate|]. intros [H'|H']; [discriminate|].
        destruct (R6 _ _ _ _ _ _ _ H H') as [K1 K2]. split; auto. apply start_ok_cons; auto.
  Qed.

  Lemma rt_wake_rchild st e rest : In e (n_q st) -> (forall x, In x rest -> In x (n_q st)) ->
    rchild st -> rchild (rt_wake off p (set_q st rest) e).
  Proof.
    intros Hin Sub R. unfold rt_wake. cbn [n_routs set_mtime set_q n_tcs].
    destruct (nth_error (n_routs st) (e_rid e)) as [r|] eqn:Er; [|apply rchild_subq; auto].
    set (T := Qred (b2s (n_tcs st) (e_clock e) (e_time e))). set (beats := Qred (s2b (n_tcs st) (e_clock e) T)).
    set (st1 := add_log (set_mtime (set_q st rest) T) (EvResume (e_rid e) (r_k r) (e_clock e) T beats)).
    assert (Hlt : (e_rid e < length (n_routs st))%nat) by (apply nth_error_Some; rewrite Er; discriminate).
    assert (R1 : rchild st1).
    { apply (rchild_logonly (set_mtime (set_q st rest) T) st1 (EvResume (e_rid e) (r_k r) (e_clock e) T beats)); try reflexivity.
      - intros; discriminate.
      - intros rid k c s b H. injection H as <- <- <- <- <-. split; [exact Hlt|].
        intros Hk o c' Tp Hp. cbn [n_log set_mtime set_q] in Hp.
        destruct (rc_ent _ R e r Hin Er Hk) as (o0 & Tp0 & A & A' & _).
        destruct (rc_puniq _ R _ _ _ _ _ _ _ A Hp) as [<- <-]. split; auto.
        unfold start_ok, due_ok, T in *. cbn [n_log set_mtime set_q].
        destruct (e_clock e) as [| |i]; rewrite Qred_correct; simpl; exact A'.
      - apply rchild_mtime. apply rchild_subq; auto. }
    destruct (run_acts (Some off) repaired p st1 (Some (e_rid e, r_k r)) T (e_clock e) (r_rest r)) as [st2 oc] eqn:E.
    pose proof (run_acts_rframe _ _ _ _ _ _ _ E R1) as R2.
    assert (Hlt2 : (e_rid e < length (n_routs st2))%nat).
    { apply (rc_rlt _ R2 (e_rid e) (r_k r) (e_clock e) T beats).
      destruct (run_acts_log_ext _ _ _ _ _ _ _ _ _ _ E) as (new & Hlog & _). rewrite Hlog. apply in_or_app. right. left. reflexivity. }
    apply (finish_rchild st2 (e_rid e) r oc (e_clock e) (fun d => e_time e + d) (fun d => e_time e + d)); auto.
  Qed.

  Lemma rt_step_rchild s ch : rchild (rs s) -> rchild (rs (rt_step off p s ch)).
  Proof.
    intros G. destruct ch as [t|t|rid t]; unfold rt_step.
    - destruct (rs_tempos s) as [|tempo rest]; [exact G|]. cbn [rs].
      destruct G as [R1 R0 R2 R3 R4 R5 R6]. constructor; cbn [n_q n_tcs n_routs n_log set_mtime set_tcs]; auto.
      + unfold wf_tcs. apply Forall_app. split; auto. constructor; [apply tc_new_wf|constructor].
      + intros e r He Hn Hk. destruct (R2 e r He Hn Hk) as (o & Tp & A & A' & A''). exists o, Tp. split; auto.
        destruct (e_clock e) as [| |i] eqn:Ec; auto. simpl in A''.
        destruct (nth_error (n_tcs (rs s)) i) as [t0|] eqn:Ei; [|discriminate].
        assert (Hi : (i < length (n_tcs (rs s)))%nat) by (apply nth_error_Some; rewrite Ei; discriminate).
        split.
        * unfold due_ok in *. intros N. simpl. rewrite nth_error_app1 by exact Hi. rewrite Ei. specialize (A' N). simpl in A'. rewrite Ei in A'. exact A'.
        * simpl. rewrite nth_error_app1 by exact Hi. rewrite Ei. reflexivity.
    - destruct (rs_tempos s); [|exact G]. destruct (rs_main s) as [|a rest]; [exact G|].
      destruct (run_acts (Some off) repaired p (set_mtime (rs s) (advance (rs_now s) t)) None (advance (rs_now s) t) CSystem [a])
        as [st' oc] eqn:E.
      cbn [fst rs]. apply (run_acts_rframe _ _ _ _ _ _ _ E). apply rchild_mtime. exact G.
    - destruct (find_rid rid (n_q (rs s))) as [e0|]; [|exact G].
      destruct (pop_clock (e_clock e0) (n_q (rs s))) as [[e rest]|] eqn:Ep; [|exact G].
      destruct (Nat.eqb (e_rid e) rid); [|exact G]. cbn [rs].
      pose proof (pop_clock_perm _ _ _ _ Ep) as Hperm.
      apply rt_wake_rchild; auto.
      + eapply Permutation_in; [apply Permutation_sym; exact Hperm|]. left; reflexivity.
      + intros x Hx. eapply Permutation_in; [apply Permutation_sym; exact Hperm|]. right; exact Hx.
  Qed.

  Lemma rt_run_rchild sched : rchild (rs (rt_run off p sched)).
  Proof.
    unfold rt_run. assert (G : rchild (rs (rt_init p))).
    { constructor; simpl; try (intros; tauto). constructor. }
    revert G. generalize (rt_init p). induction sched as [|ch l IH]; intros s G; simpl; auto.
    apply IH. apply rt_step_rchild. exact G.
  Qed.
End RtChildExec.

Lemma child_start_rt off p sched o ch c Tp c' s b :
  let st := rs (rt_run off p sched) in
  In (EvPlay o ch c Tp) (n_log st) -> In (EvResume ch 0 c' s b) (n_log st) ->
  c' = c /\ start_ok (n_log st) c' s Tp.
Proof.
  intros st Hp Hr. apply (rc_res0 _ (rt_run_rchild p off sched) _ _ _ _ _ _ _ Hr Hp).
Qed.
