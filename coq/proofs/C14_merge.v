(* C14 -- Ppar at full strength, part 2: the merge par_run over C09's sorted-list queue specification.
   Invariant of the run, then: (T1) the outputs of child c, with their times, are c's own timeline;
   (T2) the popped queue keys (time, sequence number) increase strictly -- outputs are ordered by time, ties by
   queueing order; (T3) the output deltas sum to the largest of the children's total durations. *)
From Coq Require Import String List Morphisms Permutation Sorting.
Require Import SC3.proofs.NumTac SC3.gen.Gen_builtins SC3.proofs.C12_num SC3.model.TaskQ SC3.model.Event.
Require Import SC3.proofs.C09_order SC3.proofs.C14_play SC3.proofs.C14_stream SC3.proofs.C14_pdur SC3.proofs.C14_ppar.
Import ListNotations.
Open Scope Q_scope.

Definition seqof (x : item) : nat := snd (fst x).
Definition prio (x : item) : Q := fst (fst x).

(* ---- the queue ------------------------------------------------------------------------------------------------ *)
Record qinv (q : spec) (m : nat) : Prop := mkQinv {
  q_sorted : sorted ikey (fst q);
  q_seq : Forall (fun x => (seqof x < snd q)%nat) (fst q);
  q_seqnd : NoDup (map seqof (fst q));
  q_tasknd : NoDup (map itask (fst q));
  q_task : Forall (fun x => exists i, itask x = Z.of_nat i /\ (i < m)%nat) (fst q)
}.

Lemma remove_task_absent : forall t l, ~ In t (map itask l) -> remove_task t l = l.
Proof.
  intros t l H. unfold remove_task. induction l as [|x r IH]; cbn; [reflexivity|].
  cbn in H. destruct (Z.eqb_spec t (itask x)) as [E|E].
  - exfalso. apply H. left. symmetry. exact E.
  - cbn. rewrite IH; [reflexivity|]. intros Hin. apply H. right. exact Hin.
Qed.

Lemma qinv_tail : forall x r n m, qinv (x :: r, n) m -> qinv (r, n) m /\ ~ In (itask x) (map itask r).
Proof.
  intros x r n m [H1 H2 H3 H4 H5]. cbn [fst snd] in *. split.
  - constructor; cbn [fst snd].
    + apply (sorted_tail _ ikey x). exact H1.
    + inversion H2; assumption.
    + inversion H3; assumption.
    + inversion H4; assumption.
    + inversion H5; assumption.
  - inversion H4; assumption.
Qed.

Lemma qinv_add : forall l n m p i, qinv (l, n) m -> ~ In (Z.of_nat i) (map itask l) -> (i < m)%nat ->
  qinv (qadd p (Z.of_nat i) (l, n)) m.
Proof.
  intros l n m p i [H1 H2 H3 H4 H5] Hn Hi. cbn [fst snd] in *. rewrite qadd_eq.
  rewrite (remove_task_absent _ _ Hn).
  pose proof (insert_by_perm _ ikey (p, n, Z.of_nat i) l) as P.
  constructor; cbn [fst snd].
  - apply insert_by_sorted. exact H1.
  - apply (Permutation_Forall (Permutation_sym P)). constructor; [unfold seqof; cbn; lia|].
    eapply Forall_impl; [|exact H2]. intros a Ha. cbn in Ha. lia.
  - apply (Permutation_NoDup (Permutation_map seqof (Permutation_sym P))). cbn [map]. constructor; [|exact H3].
    intros Hin. apply in_map_iff in Hin. destruct Hin as [y [Ey Hy]].
    rewrite Forall_forall in H2. pose proof (H2 y Hy) as Hlt. unfold seqof in *. cbn in Ey. lia.
  - apply (Permutation_NoDup (Permutation_map itask (Permutation_sym P))). cbn [map]. constructor; assumption.
  - apply (Permutation_Forall (Permutation_sym P)). constructor; [exists i; split; [reflexivity|exact Hi]|exact H5].
Qed.

Lemma insert_by_nonempty : forall (A : Type) (k : A -> key) x l, insert_by k x l <> [].
Proof. intros A k x l. destruct l as [|y r]; cbn; [discriminate|]. destruct (key_ltb (k y) (k x)); discriminate. Qed.

(* the head of the queue is strictly below every other entry *)
Lemma qinv_head_strict : forall x r n m y, qinv (x :: r, n) m -> In y r -> klt (ikey x) (ikey y).
Proof.
  intros x r n m y [H1 _ H3 _ _] Hy. cbn [fst snd] in *.
  pose proof (sorted_head_le _ ikey x r y H1 Hy) as Hle. unfold kle in Hle.
  destruct (klt_total (ikey x) (ikey y)) as [L|L]; [|exact L|contradiction].
  inversion H3 as [|a b Hn _]; subst. intros E. apply Hn. apply in_map_iff. exists y. split; [|exact Hy].
  unfold seqof, ikey in *. cbn in E. symmetry. exact E.
Qed.

(* ---- where child c is queued ----------------------------------------------------------------------------------- *)
Fixpoint qtime (c : nat) (l : list item) : option Q :=
  match l with
  | [] => None
  | x :: r => if Z.eqb (itask x) (Z.of_nat c) then Some (prio x) else qtime c r
  end.

Lemma qtime_none : forall c l, ~ In (Z.of_nat c) (map itask l) -> qtime c l = None.
Proof.
  intros c l. induction l as [|x r IH]; intros H; cbn; [reflexivity|].
  cbn in H. destruct (Z.eqb_spec (itask x) (Z.of_nat c)) as [E|E]; [exfalso; apply H; left; exact E|].
  apply IH. intros Hin. apply H. right. exact Hin.
Qed.
Lemma qtime_insert_other : forall c x l, itask x <> Z.of_nat c -> qtime c (insert_by ikey x l) = qtime c l.
Proof.
  intros c x l Hx. induction l as [|y r IH]; cbn.
  - destruct (Z.eqb_spec (itask x) (Z.of_nat c)); [contradiction|reflexivity].
  - destruct (key_ltb (ikey y) (ikey x)); cbn.
    + rewrite IH. reflexivity.
    + destruct (Z.eqb_spec (itask x) (Z.of_nat c)); [contradiction|reflexivity].
Qed.
Lemma qtime_insert_same : forall c x l, itask x = Z.of_nat c -> ~ In (Z.of_nat c) (map itask l) ->
  qtime c (insert_by ikey x l) = Some (prio x).
Proof.
  intros c x l Hx. induction l as [|y r IH]; intros Hn; cbn.
  - rewrite Hx, Z.eqb_refl. reflexivity.
  - cbn in Hn. destruct (key_ltb (ikey y) (ikey x)); cbn.
    + destruct (Z.eqb_spec (itask y) (Z.of_nat c)) as [E|E]; [exfalso; apply Hn; left; exact E|].
      apply IH. intros Hin. apply Hn. right. exact Hin.
    + rewrite Hx, Z.eqb_refl. reflexivity.
Qed.
Lemma qtime_in : forall c l p, qtime c l = Some p -> exists x, In x l /\ itask x = Z.of_nat c /\ prio x = p.
Proof.
  intros c l p. induction l as [|x r IH]; cbn; [discriminate|].
  destruct (Z.eqb_spec (itask x) (Z.of_nat c)) as [E|E].
  - intros H. inversion H. exists x. auto.
  - intros H. destruct (IH H) as [y [Hy Hr]]. exists y. split; [right; exact Hy|exact Hr].
Qed.

(* ---- how much is left to do: one step per remaining event plus one per queued child ---------------------------- *)
Fixpoint meas (l : list item) (ls : list (list event)) : nat :=
  match l with
  | [] => 0
  | x :: r => S (List.length (nth (Z.to_nat (itask x)) ls [])) + meas r ls
  end.

Lemma meas_perm : forall l l' ls, Permutation l l' -> meas l ls = meas l' ls.
Proof. intros l l' ls P. induction P; cbn; lia. Qed.

Lemma nth_set_nth_same : forall (A : Type) i (v d : A) l, (i < List.length l)%nat -> nth i (set_nth i v l) d = v.
Proof. intros A i v d l. revert i. induction l as [|a r IH]; intros i H; cbn in *; [lia|]. destruct i; cbn; [reflexivity|apply IH; lia]. Qed.
Lemma nth_set_nth_other : forall (A : Type) i j (v d : A) l, i <> j -> nth j (set_nth i v l) d = nth j l d.
Proof.
  intros A i j v d l. revert i j. induction l as [|a r IH]; intros i j H; cbn.
  - destruct i; reflexivity.
  - destruct i, j; cbn; try reflexivity; try lia. apply IH. lia.
Qed.
Lemma set_nth_length : forall (A : Type) i (v : A) l, List.length (set_nth i v l) = List.length l.
Proof. intros A i v l. revert i. induction l as [|a r IH]; intros i; destruct i; cbn; auto. Qed.

Lemma meas_set_nth_other : forall l ls i v, ~ In (Z.of_nat i) (map itask l) ->
  Forall (fun x => exists j, itask x = Z.of_nat j) l -> meas l (set_nth i v ls) = meas l ls.
Proof.
  intros l ls i v. induction l as [|x r IH]; intros Hn Hf; cbn; [reflexivity|].
  cbn in Hn. inversion Hf as [|? ? [j Ej] Hr]; subst.
  rewrite IH; [|intros Hin; apply Hn; right; exact Hin|exact Hr].
  rewrite nth_set_nth_other; [reflexivity|].
  intros E. rewrite Ej, Nat2Z.id in E. subst i. apply Hn. left. exact Ej.
Qed.

(* ---- the state of the run ---------------------------------------------------------------------------------------- *)
Section Merge.
Variables (K : kern) (inev : event).

Definition ev_ok (e : event) : Prop := ok (vnum (ev_call K (as_event e) "delta")) /\ 0 <= cdelta K e.
Definition lists_ok (ls : list (list event)) : Prop := Forall (Forall ev_ok) ls.
Definition total (l : list event) : Q := qsum (map (cdelta K) l).

Record pinv (q : spec) (now : num) (ls : list (list event)) : Prop := mkPinv {
  p_q : qinv q (List.length ls);
  p_now : exists a, now = F a /\ match fst q with [] => True | x :: _ => a = prio x end;
  p_ok : lists_ok ls
}.

Lemma total_nonneg : forall l, Forall ev_ok l -> 0 <= total l.
Proof.
  intros l H. unfold total. induction H as [|e r [_ He] Hr IH]; cbn; [lra|lra].
Qed.

Lemma lists_ok_set_nth : forall ls i l, lists_ok ls -> Forall ev_ok l -> lists_ok (set_nth i l ls).
Proof.
  intros ls i l H Hl. unfold lists_ok in *. revert i. induction H as [|a r Ha Hr IH]; intros i.
  - destruct i; constructor.
  - destruct i; cbn; constructor; try assumption. apply IH.
Qed.
Lemma lists_ok_nth : forall ls i, lists_ok ls -> Forall ev_ok (nth i ls []).
Proof.
  intros ls i H. unfold lists_ok in *. revert i. induction H as [|a r Ha Hr IH]; intros i; destruct i; cbn;
    try constructor; try assumption. apply IH.
Qed.

Lemma nth_error_nth_l : forall (ls : list (list event)) i l, nth_error ls i = Some l -> nth i ls [] = l /\ (i < List.length ls)%nat.
Proof.
  intros ls i l H. split; [apply nth_error_nth; exact H|]. apply nth_error_Some. rewrite H. discriminate.
Qed.

(* the time at which the pulled child is queued again *)
Lemma tnext_val : forall a e, ev_ok e ->
  toQ (nadd (F a) (pfloat (vnum (ev_call K (as_event e) "delta")))) == a + cdelta K e.
Proof.
  intros a e [Hok _]. destruct (dur_next_val K (F a) a e (val_F a) Hok) as [_ H]. exact H.
Qed.

(* one step of the run, with everything the theorems need about the next state *)
Inductive step_case (f : nat) (x : item) (r : list item) (n : nat) (a : Q) (ls : list (list event)) : Prop :=
| case_end : forall i, itask x = Z.of_nat i -> nth i ls [] = [] -> r = [] ->
    par_run K inev (S f) (x :: r, n) (F a) ls = [] -> step_case f x r n a ls
| case_rest : forall i y r', itask x = Z.of_nat i -> (i < List.length ls)%nat -> nth i ls [] = [] -> r = y :: r' ->
    par_run K inev (S f) (x :: r, n) (F a) ls
      = mkPO (F a) (ikey x) None (par_rest (prio y) (F a) inev)
        :: par_run K inev f (r, n) (F (prio y)) (set_nth i [] ls) ->
    pinv (r, n) (F (prio y)) (set_nth i [] ls) -> step_case f x r n a ls
| case_event : forall i e0 li y r', itask x = Z.of_nat i -> (i < List.length ls)%nat -> nth i ls [] = e0 :: li ->
    ev_ok e0 ->
    fst (qadd (toQ (nadd (F a) (pfloat (vnum (ev_call K (as_event e0) "delta"))))) (itask x) (r, n)) = y :: r' ->
    par_run K inev (S f) (x :: r, n) (F a) ls
      = mkPO (F a) (ikey x) (Some i) (put "delta" (VNum (nsub (F (prio y)) (F a))) (as_event e0))
        :: par_run K inev f (qadd (toQ (nadd (F a) (pfloat (vnum (ev_call K (as_event e0) "delta"))))) (itask x) (r, n))
             (F (prio y)) (set_nth i li ls) ->
    pinv (qadd (toQ (nadd (F a) (pfloat (vnum (ev_call K (as_event e0) "delta"))))) (itask x) (r, n))
         (F (prio y)) (set_nth i li ls) -> step_case f x r n a ls.

Lemma par_step : forall f x r n a ls, pinv (x :: r, n) (F a) ls -> step_case f x r n a ls.
Proof.
  intros f x r n a ls [Hq Hnow Hok].
  destruct (qinv_tail _ _ _ _ Hq) as [Hqt Hnin].
  pose proof (q_task _ _ Hq) as Ht. cbn [fst] in Ht. inversion Ht as [|? ? [i [Ei Hi]] Htr]; subst.
  assert (Ni : Z.to_nat (itask x) = i) by (rewrite Ei; apply Nat2Z.id).
  destruct (nth_error ls i) as [li|] eqn:En; [|apply nth_error_None in En; lia].
  destruct (nth_error_nth_l _ _ _ En) as [Hnth _].
  destruct li as [|e0 li].
  - destruct r as [|y r'].
    + eapply case_end; [exact Ei|exact Hnth|reflexivity|]. cbn [par_run fst snd]. rewrite Ni, En. reflexivity.
    + eapply case_rest; [exact Ei|exact Hi|exact Hnth|reflexivity| |].
      * cbn [par_run fst snd]. rewrite Ni, En. reflexivity.
      * constructor.
        -- rewrite set_nth_length. exact Hqt.
        -- exists (prio y). split; reflexivity.
        -- apply lists_ok_set_nth; [exact Hok|constructor].
  - pose proof (lists_ok_nth ls i Hok) as Hl. rewrite Hnth in Hl.
    pose proof (Forall_inv Hl) as He0. pose proof (Forall_inv_tail Hl) as Hli.
    remember (qadd (toQ (nadd (F a) (pfloat (vnum (ev_call K (as_event e0) "delta"))))) (itask x) (r, n)) as q2 eqn:Eq2.
    assert (Hq2 : qinv q2 (List.length ls)).
    { rewrite Eq2, Ei. apply qinv_add; [exact Hqt|rewrite <- Ei; exact Hnin|exact Hi]. }
    assert (Hne : fst q2 <> []).
    { rewrite Eq2, qadd_eq. cbn [fst]. apply insert_by_nonempty. }
    destruct (fst q2) as [|y r'] eqn:Ef; [contradiction|].
    eapply case_event; [exact Ei|exact Hi|exact Hnth|exact He0| | |].
    + rewrite <- Eq2. exact Ef.
    + cbn [par_run fst snd]. rewrite Ni, En. cbv zeta. rewrite <- Eq2. rewrite Ef. reflexivity.
    + rewrite <- Eq2. constructor.
      * rewrite set_nth_length. exact Hq2.
      * exists (prio y). rewrite Ef. split; reflexivity.
      * apply lists_ok_set_nth; assumption.
Qed.

(* the run unfolds from a state whose `now` is a float *)
Lemma pinv_now : forall q now ls, pinv q now ls -> exists a, now = F a /\ match fst q with [] => True | x :: _ => a = prio x end.
Proof. intros q now ls H. exact (p_now _ _ _ H). Qed.

(* the deltas Ppar writes *)
Lemma out_delta_event : forall p a e, delta_q K (put "delta" (VNum (nsub (F p) (F a))) e) == p - a.
Proof. intros p a e. unfold delta_q. rewrite ev_call_put_same. cbn. reflexivity. Qed.
Lemma out_delta_rest : forall p a, delta_q K (par_rest p (F a) inev) == p - a.
Proof. intros p a. unfold delta_q, par_rest. rewrite ev_call_put_same. cbn. reflexivity. Qed.
End Merge.
