(* C13 -- run vs. denotation, per-class documented meanings, stream independence. *)
From Coq Require Import ZArith QArith List Bool Lia PeanoNat.
Require Import SC3.lib.PyNum SC3.gen.Gen_builtins SC3.model.Pattern SC3.proofs.C13_sound.
Import ListNotations.

(* ---------------------------------------------------------- run and prod *)
Lemma run_of_prod : forall s t, prod s t ->
  exists f, forall fuel n, (f <= fuel)%nat -> (length (fst t) < n)%nat ->
  match snd t with
  | EStop => run fuel n s = (fst t, RStop)
  | EErr => run fuel n s = (fst t, RErr)
  | EMore => exists l' r, run fuel n s = (fst t ++ l', r)
  end.
Proof.
  intros s t H. induction H.
  - exists 0%nat. intros fuel n _ _. cbn. destruct (run fuel n s) as [l r]. exists l, r. reflexivity.
  - exists 1%nat. intros fuel n Hf Hn. cbn in *. destruct n; [lia|]. destruct fuel; [lia|].
    cbn. rewrite H. reflexivity.
  - exists 1%nat. intros fuel n Hf Hn. cbn in *. destruct n; [lia|]. destruct fuel; [lia|].
    cbn. rewrite H. reflexivity.
  - destruct IHprod as [f IH]. exists (S f). intros fuel n Hf Hn.
    destruct n; [lia|]. destruct fuel; [lia|].
    specialize (IH fuel (S n) ltac:(lia) Hn).
    cbn [run]. rewrite H. exact IH.
  - destruct IHprod as [f IH]. exists (S f). intros fuel n Hf Hn. cbn [fst snd length] in *.
    destruct n; [lia|]. destruct fuel; [lia|].
    specialize (IH fuel n ltac:(lia) ltac:(lia)).
    cbn [run]. rewrite H.
    destruct e.
    + rewrite IH. reflexivity.
    + rewrite IH. reflexivity.
    + destruct IH as (l' & r & IH). rewrite IH. exists l', r. reflexivity.
Qed.

Theorem run_eq_den_any : forall k m p l,
  den k m p = (l, EStop) ->
  exists f, forall fuel n, (f <= fuel)%nat -> (length l < n)%nat -> run fuel n (init m p) = (l, RStop).
Proof.
  intros k m p l E. pose proof (den_sound k m p) as H. rewrite E in H.
  destruct (run_of_prod _ _ H) as [f Hf]. exists f. exact Hf.
Qed.
Theorem run_err_den_any : forall k m p l,
  den k m p = (l, EErr) ->
  exists f, forall fuel n, (f <= fuel)%nat -> (length l < n)%nat -> run fuel n (init m p) = (l, RErr).
Proof.
  intros k m p l E. pose proof (den_sound k m p) as H. rewrite E in H.
  destruct (run_of_prod _ _ H) as [f Hf]. exists f. exact Hf.
Qed.
Theorem den_prefix_any : forall k m p,
  exists f, forall fuel n, (f <= fuel)%nat -> (length (fst (den k m p)) < n)%nat ->
  exists l' r, run fuel n (init m p) = (fst (den k m p) ++ l', r).
Proof.
  intros k m p. destruct (run_of_prod _ _ (den_sound k m p)) as [f Hf]. exists f.
  intros fuel n H1 H2. specialize (Hf fuel n H1 H2).
  destruct (snd (den k m p)).
  - exists [], RStop. rewrite app_nil_r. exact Hf.
  - exists [], RErr. rewrite app_nil_r. exact Hf.
  - exact Hf.
Qed.

(* ------------------------------------------------------ embedding patterns *)
Lemma temb_items (f : nat -> ires) (d : pat -> trace) : forall qs count start,
  (forall i q, nth_error qs i = Some q -> f (start + i)%nat = IItem q) ->
  f (start + length qs)%nat = IDone ->
  (length qs < count)%nat ->
  (forall q, In q qs -> snd (d q) = EStop) ->
  temb f d count start = (flat_map (fun q => fst (d q)) qs, EStop).
Proof.
  induction qs as [|q qs IH]; intros count start Hn Hd Hc Hs.
  - destruct count; [cbn in Hc; lia|]. cbn in *. rewrite Nat.add_0_r in Hd. rewrite Hd. reflexivity.
  - destruct count; [cbn in Hc; lia|]. cbn [temb flat_map].
    pose proof (Hn 0%nat q eq_refl) as H0. rewrite Nat.add_0_r in H0. rewrite H0.
    rewrite (IH count (S start)).
    + pose proof (Hs q (or_introl eq_refl)) as E. destruct (d q) as [l e]. cbn in E. subst e. reflexivity.
    + intros i q' Hq. replace (S start + i)%nat with (start + S i)%nat by lia. apply Hn. exact Hq.
    + replace (S start + length qs)%nat with (start + length (q :: qs))%nat by (cbn; lia). exact Hd.
    + cbn in Hc. lia.
    + intros q' Hq. apply Hs. right. exact Hq.
Qed.
Lemma temb_ext (f g : nat -> ires) d : forall count start,
  (forall i, (start <= i < start + count)%nat -> f i = g i) ->
  temb f d count start = temb g d count start.
Proof.
  induction count as [|c IH]; intros start H. reflexivity.
  cbn. rewrite <- (H start) by lia. destruct (f start); try reflexivity.
  rewrite (IH (S start)). reflexivity. intros i Hi. apply H. lia.
Qed.

(* Pn: the body, embedded n times *)
Lemma pn_repeats_den : forall k m q (n : nat) l,
  den k Emb q = (l, EStop) -> (n < k)%nat ->
  den (S k) m (Pn q (Fin (Z.of_nat n))) = (concat (repeat l n), EStop).
Proof.
  intros k m q n l E Hk. cbn [den].
  rewrite (temb_items _ _ (repeat q n)).
  - f_equal. induction n; cbn. reflexivity. rewrite E. cbn. f_equal. apply IHn. lia.
  - intros i q' Hi. assert (Hlt : (i < n)%nat).
    { rewrite <- (repeat_length q n). apply nth_error_Some. congruence. }
    apply nth_error_In in Hi. apply repeat_spec in Hi. subst q'.
    cbn. replace (Z.of_nat i <? Z.of_nat n)%Z with true. reflexivity.
    symmetry. apply Z.ltb_lt. lia.
  - rewrite repeat_length. cbn. replace (Z.of_nat n <? Z.of_nat n)%Z with false. reflexivity.
    symmetry. apply Z.ltb_ge. lia.
  - rewrite repeat_length. exact Hk.
  - intros q' Hq. apply repeat_spec in Hq. subst. rewrite E. reflexivity.
Qed.

(* Pser: item i is lst[(i + offset) mod size], r items in all *)
Lemma pser_cyclic_den : forall k m lst (r : nat) off qs,
  lst <> [] -> length qs = r ->
  (forall i, (i < r)%nat -> nth_error qs i = wrap_at lst (Z.of_nat i + off)) ->
  (forall q, In q qs -> snd (den k Emb q) = EStop) -> (r < k)%nat ->
  den (S k) m (Pser lst (Fin (Z.of_nat r)) off) = (flat_map (fun q => fst (den k Emb q)) qs, EStop).
Proof.
  intros k m lst r off qs Hne Hlen Hq Hs Hk. cbn [den].
  apply temb_items; try (rewrite Hlen; assumption); try assumption.
  - intros i q Hi. assert (Hlt : (i < r)%nat).
    { rewrite <- Hlen. apply nth_error_Some. congruence. }
    cbn. destruct lst as [|x lst']; [congruence|].
    replace (Z.of_nat i <? Z.of_nat r)%Z with true by (symmetry; apply Z.ltb_lt; lia).
    rewrite <- (Hq i Hlt), Hi. reflexivity.
  - rewrite Hlen. cbn. destruct lst as [|x lst']; [congruence|].
    replace (Z.of_nat r <? Z.of_nat r)%Z with false by (symmetry; apply Z.ltb_ge; lia). reflexivity.
Qed.

(* Pseq: item i is lst[(i mod size + offset) mod size], r * size items in all *)
Lemma pseq_meaning_den : forall k m lst (r : nat) off qs,
  lst <> [] -> length qs = (r * length lst)%nat ->
  (forall i, (i < r * length lst)%nat -> nth_error qs i = wrap_at lst (Z.of_nat (i mod length lst) + off)) ->
  (forall q, In q qs -> snd (den k Emb q) = EStop) -> (r * length lst < k)%nat ->
  den (S k) m (Pseq lst (Fin (Z.of_nat r)) off) = (flat_map (fun q => fst (den k Emb q)) qs, EStop).
Proof.
  intros k m lst r off qs Hne Hlen Hq Hs Hk. cbn [den].
  assert (Hn : length lst <> 0%nat) by (destruct lst; cbn; congruence).
  apply temb_items; try (rewrite Hlen; assumption); try assumption.
  - intros i q Hi. assert (Hlt : (i < r * length lst)%nat).
    { rewrite <- Hlen. apply nth_error_Some. congruence. }
    cbn [item_at Nat.add]. destruct (length lst) as [|n'] eqn:En; [congruence|].
    assert (Hd : (i / S n' < r)%nat) by (apply Nat.div_lt_upper_bound; lia).
    unfold in_reps. replace (Z.of_nat (i / S n') <? Z.of_nat r)%Z with true by (symmetry; apply Z.ltb_lt; lia).
    rewrite <- (Hq i Hlt), Hi. reflexivity.
  - rewrite Hlen. cbn [item_at Nat.add]. destruct (length lst) as [|n'] eqn:En; [congruence|].
    rewrite Nat.div_mul by lia. unfold in_reps.
    replace (Z.of_nat r <? Z.of_nat r)%Z with false by (symmetry; apply Z.ltb_ge; lia). reflexivity.
Qed.

(* infinite repeats: within a budget k, inf behaves as any finite count >= k *)
Lemma inf_truncation_den : forall k m lst off q (r : Z), (Z.of_nat k <= r)%Z ->
  den (S k) m (Pn q Inf) = den (S k) m (Pn q (Fin r)) /\
  den (S k) m (Pser lst Inf off) = den (S k) m (Pser lst (Fin r) off) /\
  den (S k) m (Pseq lst Inf off) = den (S k) m (Pseq lst (Fin r) off).
Proof.
  intros k m lst off q r Hr. cbn [den]. repeat split; apply temb_ext; intros i Hi; cbn [item_at].
  - cbn. replace (Z.of_nat i <? r)%Z with true by (symmetry; apply Z.ltb_lt; lia). reflexivity.
  - destruct lst; [reflexivity|]. cbn [in_reps].
    replace (Z.of_nat i <? r)%Z with true by (symmetry; apply Z.ltb_lt; lia). reflexivity.
  - destruct (length lst) as [|n'] eqn:En; [reflexivity|]. cbn [in_reps].
    assert ((i / S n' <= i)%nat) by (apply Nat.div_le_upper_bound; nia).
    replace (Z.of_nat (i / S n') <? r)%Z with true by (symmetry; apply Z.ltb_lt; lia). reflexivity.
Qed.

(* -------------------------------------------------------- filter patterns *)
Lemma tlen_firstn : forall n l e, (n <= length l)%nat -> tlen n l e = (firstn n l, EStop).
Proof.
  induction n as [|n IH]; intros l e H. reflexivity.
  destruct l as [|v l]; [cbn in H; lia|]. cbn. rewrite IH by (cbn in H; lia). reflexivity.
Qed.
Lemma tlen_short : forall n l e, (length l < n)%nat -> tlen n l e = (l, e).
Proof.
  induction n as [|n IH]; intros l e H. lia.
  destruct l as [|v l]. reflexivity. cbn. rewrite IH by (cbn in H; lia). reflexivity.
Qed.
Lemma tdrop_skipn : forall n l e, tdrop n l e = (skipn n l, e).
Proof.
  induction n as [|n IH]; intros l e. reflexivity. destruct l as [|v l]. reflexivity. cbn. apply IH.
Qed.
Lemma tstut_const : forall l (c : Z) m, (length l <= m)%nat ->
  tstut l EStop (repeat (VN (I c)) m) EMore = (flat_map (fun v => repeat v (Z.abs_nat c)) l, EStop).
Proof.
  induction l as [|v l IH]; intros c m H. reflexivity.
  destruct m as [|m]; [cbn in H; lia|]. cbn [tstut repeat as_count flat_map].
  rewrite IH by (cbn in H; lia). reflexivity.
Qed.
Lemma tun_map o : forall l e, (forall v, In v l -> unop o v <> None) ->
  exists l', tun o l e = (l', e) /\ map Some l' = map (unop o) l.
Proof.
  induction l as [|v l IH]; intros e H. exists []. split; reflexivity.
  cbn. destruct (unop o v) as [r|] eqn:E; [|exfalso; apply (H v); [left; reflexivity|exact E]].
  destruct (IH e) as (l' & E1 & E2). intros x Hx. apply H. right. exact Hx.
  exists (r :: l'). rewrite E1. split. reflexivity. cbn. rewrite E2. reflexivity.
Qed.
(* element-wise operators end with the shortest operand *)
Lemma tbin_shortest o : forall la ea lb eb,
  (forall va vb, In va la -> In vb lb -> binop o va vb <> None) ->
  exists l', tbin o la ea lb eb = (l', if (length la <=? length lb)%nat then ea else eb) /\
             length l' = Nat.min (length la) (length lb) /\
             map Some l' = map (fun ab => binop o (fst ab) (snd ab)) (combine la lb).
Proof.
  induction la as [|va la IH]; intros ea lb eb H.
  - exists []. repeat split; reflexivity.
  - destruct lb as [|vb lb].
    + exists []. repeat split; reflexivity.
    + cbn [tbin]. destruct (binop o va vb) as [r|] eqn:E;
        [|exfalso; apply (H va vb); [left; reflexivity|left; reflexivity|exact E]].
      destruct (IH ea lb eb) as (l' & E1 & E2 & E3).
      { intros x y Hx Hy. apply H; right; assumption. }
      exists (r :: l'). rewrite E1. cbn [length Nat.leb Nat.min combine map fst snd].
      repeat split. cbn. rewrite E2. reflexivity. rewrite E3, E. reflexivity.
Qed.
(* Pswitch: the chosen item is embedded in place, then the rest *)
Lemma tswitch_in_place d lst iv lw ew z q :
  as_index iv = Some z -> wrap_at lst z = Some q ->
  tswitch d lst (iv :: lw) ew = tapp (d q) (tswitch d lst lw ew).
Proof. intros H1 H2. cbn. rewrite H1, H2. reflexivity. Qed.

(* Pconst: whenever it ends normally its outputs sum to [sum] exactly *)
Definition qsum (l : list val) : Q :=
  fold_right (fun v a => (match as_num v with Some x => toQ x | None => 0 end + a)%Q) 0%Q l.
Lemma toQ_nadd a b : is_ok a = true -> is_ok b = true -> (toQ (nadd a b) == toQ a + toQ b)%Q.
Proof.
  destruct a, b; cbn; intros; try discriminate; try reflexivity.
  rewrite inject_Z_plus. reflexivity.
Qed.
Lemma toQ_nsub a b : is_ok a = true -> is_ok b = true -> (toQ (nsub a b) == toQ a - toQ b)%Q.
Proof.
  destruct a, b; cbn; intros; try discriminate; try reflexivity.
  unfold Z.sub. rewrite inject_Z_plus, inject_Z_opp. reflexivity.
Qed.
Lemma as_num_ok v x : as_num v = Some x -> is_ok x = true.
Proof. destruct v as [[| |]| | |]; cbn; intros H; inversion H; reflexivity. Qed.
Lemma nadd_ok a b : is_ok a = true -> is_ok b = true -> is_ok (nadd a b) = true.
Proof. destruct a, b; cbn; intros; try discriminate; reflexivity. Qed.
Lemma const_last_sum sum acc out : is_ok sum = true -> is_ok acc = true ->
  const_last sum acc = (out, EStop) -> (toQ acc + qsum out == toQ sum)%Q.
Proof.
  intros Hs Ha. unfold const_last.
  destruct (ret_num (nsub sum acc)) as [r|] eqn:E; intros H; inversion H; subst.
  unfold ret_num in E. destruct (nsub sum acc) eqn:E2; inversion E; subst; cbn [qsum fold_right as_num];
    rewrite <- E2, toQ_nsub by assumption; ring.
Qed.
Lemma pconst_sum sum tol : is_ok sum = true -> forall l e acc out,
  is_ok acc = true ->
  tconst sum tol acc l e = (out, EStop) -> (toQ acc + qsum out == toQ sum)%Q.
Proof.
  intros Hs. induction l as [|v l IH]; intros e acc out Ha H.
  - cbn in H. destruct e; try discriminate. eapply const_last_sum; eauto.
  - cbn [tconst] in H. destruct (as_num v) as [x|] eqn:Ev; [|discriminate].
    cbv zeta in H. pose proof (as_num_ok _ _ Ev) as Hx.
    destruct (py_roundup (nadd acc x) tol); try discriminate.
    + destruct (nge (I z) sum). eapply const_last_sum; eauto.
      destruct (tconst sum tol (nadd acc x) l e) as [o' e'] eqn:E. cbn in H. inversion H; subst.
      specialize (IH e (nadd acc x) o' (nadd_ok _ _ Ha Hx) E).
      cbn [qsum fold_right]. rewrite Ev. fold (qsum o'). rewrite toQ_nadd in IH by assumption.
      rewrite <- IH. ring.
    + destruct (nge (F q) sum). eapply const_last_sum; eauto.
      destruct (tconst sum tol (nadd acc x) l e) as [o' e'] eqn:E. cbn in H. inversion H; subst.
      specialize (IH e (nadd acc x) o' (nadd_ok _ _ Ha Hx) E).
      cbn [qsum fold_right]. rewrite Ev. fold (qsum o'). rewrite toQ_nadd in IH by assumption.
      rewrite <- IH. ring.
Qed.

(* ------------------------------------------------------ stream independence *)
Lemma isteps_independent : forall sched s1 s2,
  isteps sched s1 s2 = (steps (length (filter (fun b => b) sched)) s1,
                        steps (length (filter negb sched)) s2).
Proof.
  induction sched as [|b sched IH]; intros s1 s2. reflexivity.
  destruct b; cbn [isteps filter negb length steps].
  - destruct (snext s1) eqn:E; rewrite IH; cbn [steps]; try rewrite E; try reflexivity.
    + destruct (length (filter (fun b => b) sched)); cbn; rewrite ?E; reflexivity.
    + destruct (length (filter (fun b => b) sched)); cbn; rewrite ?E; reflexivity.
    + destruct (steps _ s); reflexivity.
  - destruct (snext s2) eqn:E; rewrite IH; cbn [steps]; try rewrite E; try reflexivity.
    + destruct (length (filter negb sched)); cbn; rewrite ?E; reflexivity.
    + destruct (length (filter negb sched)); cbn; rewrite ?E; reflexivity.
    + destruct (steps _ s); reflexivity.
Qed.

(* --------------------------------------- the same facts stated on patterns *)
Lemma plen_truncates_l k m q n l e : den k Str q = (l, e) -> (Z.to_nat n <= length l)%nat ->
  den (S k) m (Plen q n) = (firstn (Z.to_nat n) l, EStop).
Proof. intros H Hn. cbn [den]. rewrite H. apply tlen_firstn. exact Hn. Qed.
Lemma plen_short_l k m q n l e : den k Str q = (l, e) -> (length l < Z.to_nat n)%nat ->
  den (S k) m (Plen q n) = (l, e).
Proof. intros H Hn. cbn [den]. rewrite H. apply tlen_short. exact Hn. Qed.
Lemma pdrop_drops_l k m q n l e : den k Str q = (l, e) ->
  den (S k) m (Pdrop q n) = (skipn (Z.to_nat n) l, e).
Proof. intros H. cbn [den]. rewrite H. apply tdrop_skipn. Qed.
Lemma den_stutter_unfold k m q n :
  den (S k) m (Pstutter q n) =
  tstut (fst (den k Str q)) (snd (den k Str q)) (fst (den k Str n)) (snd (den k Str n)).
Proof. reflexivity. Qed.
Lemma pstutter_l k m q c l : den (S k) Str q = (l, EStop) -> (length l <= k)%nat ->
  den (S (S k)) m (Pstutter q (PVal (VN (I c)))) = (flat_map (fun v => repeat v (Z.abs_nat c)) l, EStop).
Proof.
  intros H Hl. rewrite den_stutter_unfold, H.
  change (den (S k) Str (PVal (VN (I c)))) with (repeat (VN (I c)) k, EMore).
  cbn [fst snd]. apply tstut_const. exact Hl.
Qed.
Lemma binop_l k m o a b la ea lb eb : den k Str a = (la, ea) -> den k Str b = (lb, eb) ->
  (forall va vb, In va la -> In vb lb -> binop o va vb <> None) ->
  exists l', den (S k) m (Pbinop o a b) = (l', if (length la <=? length lb)%nat then ea else eb) /\
             length l' = Nat.min (length la) (length lb) /\
             map Some l' = map (fun ab => binop o (fst ab) (snd ab)) (combine la lb).
Proof. intros Ha Hb H. cbn [den]. rewrite Ha, Hb. apply tbin_shortest. exact H. Qed.
Lemma pconst_l k m q sum tol out : is_ok sum = true ->
  den (S k) m (Pconst q sum tol) = (out, EStop) -> (qsum out == toQ sum)%Q.
Proof.
  intros Hs H. cbn [den] in H. destruct (den k Str q) as [l e]. cbn [fst snd] in H.
  pose proof (pconst_sum sum tol Hs l e (I 0) out eq_refl H) as P. cbn [toQ] in P.
  rewrite <- P. change (inject_Z 0) with 0%Q. ring.
Qed.
Lemma pswitch_l k m lst w iv lw ew z q : den k Str w = (iv :: lw, ew) ->
  as_index iv = Some z -> wrap_at lst z = Some q ->
  den (S k) m (Pswitch lst w) = tapp (den k Emb q) (tswitch (den k Emb) lst lw ew).
Proof. intros H H1 H2. cbn [den]. rewrite H. cbn [fst snd]. apply (tswitch_in_place _ _ _ _ _ z q); assumption. Qed.
Lemma streams_independent_l sched p :
  isteps sched (init Str p) (init Str p) =
  (steps (length (filter (fun b => b) sched)) (init Str p), steps (length (filter negb sched)) (init Str p)).
Proof. apply isteps_independent. Qed.
