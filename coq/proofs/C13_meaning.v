(* C13 -- run vs. denotation, per-class documented meanings, stream independence. *)
From Coq Require Import ZArith QArith List Bool Lia PeanoNat.
Require Import SC3.lib.PyNum SC3.gen.Gen_builtins SC3.model.Pattern SC3.proofs.C13_sound.
Import ListNotations.

Section Meaning.
Variable rnd : Z -> hist -> Z -> Z -> Z.
Local Notation snext := (snext rnd).
Local Notation run := (run rnd).
Local Notation run_pat := (run_pat rnd).
Local Notation den := (den rnd).
Local Notation prod := (prod rnd).
Local Notation steps := (steps rnd).
Local Notation isteps := (isteps rnd).
Local Notation den_sound := (den_sound rnd).

(* ---------------------------------------------------------- run and prod *)
Lemma run_of_prod : forall s t, prod s t ->
  exists f, forall fuel n, (f <= fuel)%nat -> (length (fst t) < n)%nat ->
  match snd t with
  | EStop => run fuel n s = (fst t, RStop)
  | EErr => run fuel n s = (fst t, RErr)
  | EMore => exists l' r, run fuel n s = (fst t ++ l', r)
  end.
Proof.
  intros s t H. induction H.
  - exists 0%nat. intros fuel n _ _. cbn. destruct (run fuel n s) as [l r]. exists l, r. reflexivity.
  - exists 1%nat. intros fuel n Hf Hn. cbn in *. destruct n; [lia|]. destruct fuel; [lia|].
    cbn. rewrite H. reflexivity.
  - exists 1%nat. intros fuel n Hf Hn. cbn in *. destruct n; [lia|]. destruct fuel; [lia|].
    cbn. rewrite H. reflexivity.
  - destruct IHprod as [f IH]. exists (S f). intros fuel n Hf Hn.
    destruct n; [lia|]. destruct fuel; [lia|].
    specialize (IH fuel (S n) ltac:(lia) Hn).
    cbn [Pattern.run]. rewrite H. exact IH.
  - destruct IHprod as [f IH]. exists (S f). intros fuel n Hf Hn. cbn [fst snd length] in *.
    destruct n; [lia|]. destruct fuel; [lia|].
    specialize (IH fuel n ltac:(lia) ltac:(lia)).
    cbn [Pattern.run]. rewrite H.
    destruct e.
    + rewrite IH. reflexivity.
    + rewrite IH. reflexivity.
    + destruct IH as (l' & r & IH). rewrite IH. exists l', r. reflexivity.
Qed.

Theorem run_eq_den_any : forall k m p l,
  den k m p = (l, EStop) ->
  exists f, forall fuel n, (f <= fuel)%nat -> (length l < n)%nat -> run fuel n (init m p) = (l, RStop).
Proof.
  intros k m p l E. pose proof (den_sound k m p) as H. rewrite E in H.
  destruct (run_of_prod _ _ H) as [f Hf]. exists f. exact Hf.
Qed.
Theorem run_err_den_any : forall k m p l,
  den k m p = (l, EErr) ->
  exists f, forall fuel n, (f <= fuel)%nat -> (length l < n)%nat -> run fuel n (init m p) = (l, RErr).
Proof.
  intros k m p l E. pose proof (den_sound k m p) as H. rewrite E in H.
  destruct (run_of_prod _ _ H) as [f Hf]. exists f. exact Hf.
Qed.
Theorem den_prefix_any : forall k m p,
  exists f, forall fuel n, (f <= fuel)%nat -> (length (fst (den k m p)) < n)%nat ->
  exists l' r, run fuel n (init m p) = (fst (den k m p) ++ l', r).
Proof.
  intros k m p. destruct (run_of_prod _ _ (den_sound k m p)) as [f Hf]. exists f.
  intros fuel n H1 H2. specialize (Hf fuel n H1 H2).
  destruct (snd (den k m p)).
  - exists [], RStop. rewrite app_nil_r. exact Hf.
  - exists [], RErr. rewrite app_nil_r. exact Hf.
  - exact Hf.
Qed.

(* ------------------------------------------------------ embedding patterns *)
Lemma temb_items (f : nat -> ires) (d : pat -> trace) : forall qs count start,
  (forall i q, nth_error qs i = Some q -> f (start + i)%nat = IItem q) ->
  f (start + length qs)%nat = IDone ->
  (length qs < count)%nat ->
  (forall q, In q qs -> snd (d q) = EStop) ->
  temb f d count start = (flat_map (fun q => fst (d q)) qs, EStop).
Proof.
  induction qs as [|q qs IH]; intros count start Hn Hd Hc Hs.
  - destruct count; [cbn in Hc; lia|]. cbn in *. rewrite Nat.add_0_r in Hd. rewrite Hd. reflexivity.
  - destruct count; [cbn in Hc; lia|]. cbn [temb flat_map].
    pose proof (Hn 0%nat q eq_refl) as H0. rewrite Nat.add_0_r in H0. rewrite H0.
    rewrite (IH count (S start)).
    + pose proof (Hs q (or_introl eq_refl)) as E. destruct (d q) as [l e]. cbn in E. subst e. reflexivity.
    + intros i q' Hq. replace (S start + i)%nat with (start + S i)%nat by lia. apply Hn. exact Hq.
    + replace (S start + length qs)%nat with (start + length (q :: qs))%nat by (cbn; lia). exact Hd.
    + cbn in Hc. lia.
    + intros q' Hq. apply Hs. right. exact Hq.
Qed.
Lemma temb_ext (f g : nat -> ires) d : forall count start,
  (forall i, (start <= i < start + count)%nat -> f i = g i) ->
  temb f d count start = temb g d count start.
Proof.
  induction count as [|c IH]; intros start H. reflexivity.
  cbn. rewrite <- (H start) by lia. destruct (f start); try reflexivity.
  rewrite (IH (S start)). reflexivity. intros i Hi. apply H. lia.
Qed.

(* Pn: the body, embedded n times *)
Lemma pn_repeats_den : forall k m q (n : nat) l,
  den k Emb q = (l, EStop) -> (n < k)%nat ->
  den (S k) m (Pn q (Fin (Z.of_nat n))) = (concat (repeat l n), EStop).
Proof.
  intros k m q n l E Hk. cbn [Pattern.den].
  rewrite (temb_items _ _ (repeat q n)).
  - f_equal. induction n; cbn. reflexivity. rewrite E. cbn. f_equal. apply IHn. lia.
  - intros i q' Hi. assert (Hlt : (i < n)%nat).
    { rewrite <- (repeat_length q n). apply nth_error_Some. congruence. }
    apply nth_error_In in Hi. apply repeat_spec in Hi. subst q'.
    cbn. replace (Z.of_nat i <? Z.of_nat n)%Z with true. reflexivity.
    symmetry. apply Z.ltb_lt. lia.
  - rewrite repeat_length. cbn. replace (Z.of_nat n <? Z.of_nat n)%Z with false. reflexivity.
    symmetry. apply Z.ltb_ge. lia.
  - rewrite repeat_length. exact Hk.
  - intros q' Hq. apply repeat_spec in Hq. subst. rewrite E. reflexivity.
Qed.

(* Pser: item i is lst[(i + offset) mod size], r items in all *)
Lemma pser_cyclic_den : forall k m lst (r : nat) off qs,
  lst <> [] -> length qs = r ->
  (forall i, (i < r)%nat -> nth_error qs i = wrap_at lst (Z.of_nat i + off)) ->
  (forall q, In q qs -> snd (den k Emb q) = EStop) -> (r < k)%nat ->
  den (S k) m (Pser lst (Fin (Z.of_nat r)) off) = (flat_map (fun q => fst (den k Emb q)) qs, EStop).
Proof.
  intros k m lst r off qs Hne Hlen Hq Hs Hk. cbn [Pattern.den].
  apply temb_items; try (rewrite Hlen; assumption); try assumption.
  - intros i q Hi. assert (Hlt : (i < r)%nat).
    { rewrite <- Hlen. apply nth_error_Some. congruence. }
    cbn. destruct lst as [|x lst']; [congruence|].
    replace (Z.of_nat i <? Z.of_nat r)%Z with true by (symmetry; apply Z.ltb_lt; lia).
    rewrite <- (Hq i Hlt), Hi. reflexivity.
  - rewrite Hlen. cbn. destruct lst as [|x lst']; [congruence|].
    replace (Z.of_nat r <? Z.of_nat r)%Z with false by (symmetry; apply Z.ltb_ge; lia). reflexivity.
Qed.

(* Pseq: item i is lst[(i mod size + offset) mod size], r * size items in all *)
Lemma pseq_meaning_den : forall k m lst (r : nat) off qs,
  lst <> [] -> length qs = (r * length lst)%nat ->
  (forall i, (i < r * length lst)%nat -> nth_error qs i = wrap_at lst (Z.of_nat (i mod length lst) + off)) ->
  (forall q, In q qs -> snd (den k Emb q) = EStop) -> (r * length lst < k)%nat ->
  den (S k) m (Pseq lst (Fin (Z.of_nat r)) off) = (flat_map (fun q => fst (den k Emb q)) qs, EStop).
Proof.
  intros k m lst r off qs Hne Hlen Hq Hs Hk. cbn [Pattern.den].
  assert (Hn : length lst <> 0%nat) by (destruct lst; cbn; congruence).
  apply temb_items; try (rewrite Hlen; assumption); try assumption.
  - intros i q Hi. assert (Hlt : (i < r * length lst)%nat).
    { rewrite <- Hlen. apply nth_error_Some. congruence. }
    cbn [item_at Nat.add]. destruct (length lst) as [|n'] eqn:En; [congruence|].
    assert (Hd : (i / S n' < r)%nat) by (apply Nat.div_lt_upper_bound; lia).
    unfold in_reps. replace (Z.of_nat (i / S n') <? Z.of_nat r)%Z with true by (symmetry; apply Z.ltb_lt; lia).
    rewrite <- (Hq i Hlt), Hi. reflexivity.
  - rewrite Hlen. cbn [item_at Nat.add]. destruct (length lst) as [|n'] eqn:En; [congruence|].
    rewrite Nat.div_mul by lia. unfold in_reps.
    replace (Z.of_nat r <? Z.of_nat r)%Z with false by (symmetry; apply Z.ltb_ge; lia). reflexivity.
Qed.

(* infinite repeats: within a budget k, inf behaves as any finite count >= k *)
Lemma inf_truncation_den : forall k m lst off q (r : Z), (Z.of_nat k <= r)%Z ->
  den (S k) m (Pn q Inf) = den (S k) m (Pn q (Fin r)) /\
  den (S k) m (Pser lst Inf off) = den (S k) m (Pser lst (Fin r) off) /\
  (lst <> [] -> den (S k) m (Pseq lst Inf off) = den (S k) m (Pseq lst (Fin r) off)).
Proof.
  intros k m lst off q r Hr. cbn [Pattern.den]. repeat split; [| |intros Hne]; apply temb_ext; intros i Hi; cbn [item_at].
  - cbn. replace (Z.of_nat i <? r)%Z with true by (symmetry; apply Z.ltb_lt; lia). reflexivity.
  - cbn [in_reps].
    replace (Z.of_nat i <? r)%Z with true by (symmetry; apply Z.ltb_lt; lia). reflexivity.
  - destruct (length lst) as [|n'] eqn:En; [destruct lst; [congruence|discriminate]|]. cbn [in_reps].
    assert ((i / S n' <= i)%nat) by (apply Nat.div_le_upper_bound; nia).
    replace (Z.of_nat (i / S n') <? r)%Z with true by (symmetry; apply Z.ltb_lt; lia). reflexivity.
Qed.

(* -------------------------------------------------------- filter patterns *)
Lemma tlen_firstn : forall n l e, (n <= length l)%nat -> tlen n l e = (firstn n l, EStop).
Proof.
  induction n as [|n IH]; intros l e H. reflexivity.
  destruct l as [|v l]; [cbn in H; lia|]. cbn. rewrite IH by (cbn in H; lia). reflexivity.
Qed.
Lemma tlen_short : forall n l e, (length l < n)%nat -> tlen n l e = (l, e).
Proof.
  induction n as [|n IH]; intros l e H. lia.
  destruct l as [|v l]. reflexivity. cbn. rewrite IH by (cbn in H; lia). reflexivity.
Qed.
Lemma tdrop_skipn : forall n l e, tdrop n l e = (skipn n l, e).
Proof.
  induction n as [|n IH]; intros l e. reflexivity. destruct l as [|v l]. reflexivity. cbn. apply IH.
Qed.
Lemma tstut_const : forall l (c : Z) m, (length l <= m)%nat ->
  tstut l EStop (repeat (VN (I c)) m) EMore = (flat_map (fun v => repeat v (Z.abs_nat c)) l, EStop).
Proof.
  induction l as [|v l IH]; intros c m H. reflexivity.
  destruct m as [|m]; [cbn in H; lia|]. cbn [tstut repeat as_count flat_map].
  rewrite IH by (cbn in H; lia). reflexivity.
Qed.
Lemma tun_map o : forall l e, (forall v, In v l -> unop o v <> None) ->
  exists l', tun o l e = (l', e) /\ map Some l' = map (unop o) l.
Proof.
  induction l as [|v l IH]; intros e H. exists []. split; reflexivity.
  cbn. destruct (unop o v) as [r|] eqn:E; [|exfalso; apply (H v); [left; reflexivity|exact E]].
  destruct (IH e) as (l' & E1 & E2). intros x Hx. apply H. right. exact Hx.
  exists (r :: l'). rewrite E1. split. reflexivity. cbn. rewrite E2. reflexivity.
Qed.
(* element-wise operators end with the shortest operand *)
Lemma tbin_shortest o : forall la ea lb eb,
  (forall va vb, In va la -> In vb lb -> binop o va vb <> None) ->
  exists l', tbin o la ea lb eb = (l', if (length la <=? length lb)%nat then ea else eb) /\
             length l' = Nat.min (length la) (length lb) /\
             map Some l' = map (fun ab => binop o (fst ab) (snd ab)) (combine la lb).
Proof.
  induction la as [|va la IH]; intros ea lb eb H.
  - exists []. repeat split; reflexivity.
  - destruct lb as [|vb lb].
    + exists []. repeat split; reflexivity.
    + cbn [tbin]. destruct (binop o va vb) as [r|] eqn:E;
        [|exfalso; apply (H va vb); [left; reflexivity|left; reflexivity|exact E]].
      destruct (IH ea lb eb) as (l' & E1 & E2 & E3).
      { intros x y Hx Hy. apply H; right; assumption. }
      exists (r :: l'). rewrite E1. cbn [length Nat.leb Nat.min combine map fst snd].
      repeat split. cbn. rewrite E2. reflexivity. rewrite E3, E. reflexivity.
Qed.
(* Pswitch: the chosen item is embedded in place, then the rest *)
Lemma tswitch_in_place d lst iv lw ew z q :
  as_index iv = Some z -> wrap_at lst z = Some q ->
  tswitch d lst (iv :: lw) ew = tapp (d q) (tswitch d lst lw ew).
Proof. intros H1 H2. cbn. rewrite H1, H2. reflexivity. Qed.

(* Pconst: whenever it ends normally its outputs sum to [sum] exactly *)
Definition qsum (l : list val) : Q :=
  fold_right (fun v a => (match as_num v with Some x => toQ x | None => 0 end + a)%Q) 0%Q l.
Lemma toQ_nadd a b : is_ok a = true -> is_ok b = true -> (toQ (nadd a b) == toQ a + toQ b)%Q.
Proof.
  destruct a, b; cbn; intros; try discriminate; try reflexivity.
  rewrite inject_Z_plus. reflexivity.
Qed.
Lemma toQ_nsub a b : is_ok a = true -> is_ok b = true -> (toQ (nsub a b) == toQ a - toQ b)%Q.
Proof.
  destruct a, b; cbn; intros; try discriminate; try reflexivity.
  unfold Z.sub. rewrite inject_Z_plus, inject_Z_opp. reflexivity.
Qed.
Lemma as_num_ok v x : as_num v = Some x -> is_ok x = true.
Proof. destruct v as [[| |]| | | |]; cbn; intros H; inversion H; reflexivity. Qed.
Lemma nadd_ok a b : is_ok a = true -> is_ok b = true -> is_ok (nadd a b) = true.
Proof. destruct a, b; cbn; intros; try discriminate; reflexivity. Qed.
Lemma const_last_sum sum acc out : is_ok sum = true -> is_ok acc = true ->
  const_last sum acc = (out, EStop) -> (toQ acc + qsum out == toQ sum)%Q.
Proof.
  intros Hs Ha. unfold const_last.
  destruct (ret_num (nsub sum acc)) as [r|] eqn:E; intros H; inversion H; subst.
  unfold ret_num in E. destruct (nsub sum acc) eqn:E2; inversion E; subst; cbn [qsum fold_right as_num];
    rewrite <- E2, toQ_nsub by assumption; ring.
Qed.
Lemma pconst_sum sum tol : is_ok sum = true -> forall l e acc out,
  is_ok acc = true ->
  tconst sum tol acc l e = (out, EStop) -> (toQ acc + qsum out == toQ sum)%Q.
Proof.
  intros Hs. induction l as [|v l IH]; intros e acc out Ha H.
  - cbn in H. destruct e; try discriminate. eapply const_last_sum; eauto.
  - cbn [tconst] in H. destruct (as_num v) as [x|] eqn:Ev; [|discriminate].
    cbv zeta in H. pose proof (as_num_ok _ _ Ev) as Hx.
    destruct (py_roundup (nadd acc x) tol); try discriminate.
    + destruct (nge (I z) sum). eapply const_last_sum; eauto.
      destruct (tconst sum tol (nadd acc x) l e) as [o' e'] eqn:E. cbn in H. inversion H; subst.
      specialize (IH e (nadd acc x) o' (nadd_ok _ _ Ha Hx) E).
      cbn [qsum fold_right]. rewrite Ev. fold (qsum o'). rewrite toQ_nadd in IH by assumption.
      rewrite <- IH. ring.
    + destruct (nge (F q) sum). eapply const_last_sum; eauto.
      destruct (tconst sum tol (nadd acc x) l e) as [o' e'] eqn:E. cbn in H. inversion H; subst.
      specialize (IH e (nadd acc x) o' (nadd_ok _ _ Ha Hx) E).
      cbn [qsum fold_right]. rewrite Ev. fold (qsum o'). rewrite toQ_nadd in IH by assumption.
      rewrite <- IH. ring.
Qed.

(* ------------------------------------------------------ stream independence *)
Lemma isteps_independent : forall sched s1 s2,
  isteps sched s1 s2 = (steps (length (filter (fun b => b) sched)) s1,
                        steps (length (filter negb sched)) s2).
Proof.
  induction sched as [|b sched IH]; intros s1 s2. reflexivity.
  destruct b; cbn [Pattern.isteps filter negb length Pattern.steps].
  - destruct (snext s1) eqn:E; rewrite IH; cbn [Pattern.steps]; try rewrite E; try reflexivity.
    + destruct (length (filter (fun b => b) sched)); cbn; rewrite ?E; reflexivity.
    + destruct (length (filter (fun b => b) sched)); cbn; rewrite ?E; reflexivity.
    + destruct (steps _ s); reflexivity.
  - destruct (snext s2) eqn:E; rewrite IH; cbn [Pattern.steps]; try rewrite E; try reflexivity.
    + destruct (length (filter negb sched)); cbn; rewrite ?E; reflexivity.
    + destruct (length (filter negb sched)); cbn; rewrite ?E; reflexivity.
    + destruct (steps _ s); reflexivity.
Qed.

(* --------------------------------------- the same facts stated on patterns *)
Lemma plen_truncates_l k m q n l e : den k Str q = (l, e) -> (Z.to_nat n <= length l)%nat ->
  den (S k) m (Plen q n) = (firstn (Z.to_nat n) l, EStop).
Proof. intros H Hn. cbn [Pattern.den]. rewrite H. apply tlen_firstn. exact Hn. Qed.
Lemma plen_short_l k m q n l e : den k Str q = (l, e) -> (length l < Z.to_nat n)%nat ->
  den (S k) m (Plen q n) = (l, e).
Proof. intros H Hn. cbn [Pattern.den]. rewrite H. apply tlen_short. exact Hn. Qed.
Lemma pdrop_drops_l k m q n l e : den k Str q = (l, e) ->
  den (S k) m (Pdrop q n) = (skipn (Z.to_nat n) l, e).
Proof. intros H. cbn [Pattern.den]. rewrite H. apply tdrop_skipn. Qed.
Lemma den_stutter_unfold k m q n :
  den (S k) m (Pstutter q n) =
  tstut (fst (den k Str q)) (snd (den k Str q)) (fst (den k Str n)) (snd (den k Str n)).
Proof. reflexivity. Qed.
Lemma pstutter_l k m q c l : den (S k) Str q = (l, EStop) -> (length l <= k)%nat ->
  den (S (S k)) m (Pstutter q (PVal (VN (I c)))) = (flat_map (fun v => repeat v (Z.abs_nat c)) l, EStop).
Proof.
  intros H Hl. rewrite den_stutter_unfold, H.
  change (den (S k) Str (PVal (VN (I c)))) with (repeat (VN (I c)) k, EMore).
  cbn [fst snd]. apply tstut_const. exact Hl.
Qed.
Lemma binop_l k m o a b la ea lb eb : den k Str a = (la, ea) -> den k Str b = (lb, eb) ->
  (forall va vb, In va la -> In vb lb -> binop o va vb <> None) ->
  exists l', den (S k) m (Pbinop o a b) = (l', if (length la <=? length lb)%nat then ea else eb) /\
             length l' = Nat.min (length la) (length lb) /\
             map Some l' = map (fun ab => binop o (fst ab) (snd ab)) (combine la lb).
Proof. intros Ha Hb H. cbn [Pattern.den]. rewrite Ha, Hb. apply tbin_shortest. exact H. Qed.
Lemma pconst_l k m q sum tol out : is_ok sum = true ->
  den (S k) m (Pconst q sum tol) = (out, EStop) -> (qsum out == toQ sum)%Q.
Proof.
  intros Hs H. cbn [Pattern.den] in H. destruct (den k Str q) as [l e]. cbn [fst snd] in H.
  pose proof (pconst_sum sum tol Hs l e (I 0) out eq_refl H) as P. cbn [toQ] in P.
  rewrite <- P. change (inject_Z 0) with 0%Q. ring.
Qed.
Lemma pswitch_l k m lst w iv lw ew z q : den k Str w = (iv :: lw, ew) ->
  as_index iv = Some z -> wrap_at lst z = Some q ->
  den (S k) m (Pswitch lst w) = tapp (den k Emb q) (tswitch (den k Emb) lst lw ew).
Proof. intros H H1 H2. cbn [Pattern.den]. rewrite H. cbn [fst snd]. apply (tswitch_in_place _ _ _ _ _ z q); assumption. Qed.
Lemma streams_independent_l sched p :
  isteps sched (init Str p) (init Str p) =
  (steps (length (filter (fun b => b) sched)) (init Str p), steps (length (filter negb sched)) (init Str p)).
Proof. apply isteps_independent. Qed.

(* ------------------------------------------- determinism of the iterator *)
Lemma prod_compat : forall s t, prod s t -> snd t <> EMore ->
  forall t', prod s t' -> (snd t' = EMore /\ exists l', fst t = fst t' ++ l') \/ t' = t.
Proof.
  intros s t H. induction H as [s|s Hs|s Hs|s s1 t Hs Hp IH|s s1 v l e Hs Hp IH]; intros Hc t' H'; cbn [fst snd] in *.
  - congruence.
  - inversion H' as [?|? Hs'|? Hs'|? ? ? Hs' Hp'|? ? ? ? ? Hs' Hp']; subst; try congruence.
    left. split. reflexivity. exists []. reflexivity. right. reflexivity.
  - inversion H' as [?|? Hs'|? Hs'|? ? ? Hs' Hp'|? ? ? ? ? Hs' Hp']; subst; try congruence.
    left. split. reflexivity. exists []. reflexivity. right. reflexivity.
  - inversion H' as [?|? Hs'|? Hs'|? ? ? Hs' Hp'|? ? ? ? ? Hs' Hp']; subst; try congruence.
    + left. split. reflexivity. exists (fst t). reflexivity.
    + rewrite Hs in Hs'. inversion Hs'; subst. apply IH; assumption.
  - inversion H' as [?|? Hs'|? Hs'|? ? ? Hs' Hp'|? ? ? ? ? Hs' Hp']; subst; try congruence.
    + left. split. reflexivity. exists (v :: l). reflexivity.
    + rewrite Hs in Hs'. inversion Hs'; subst.
      destruct (IH Hc _ Hp') as [[E (l' & El)]|E]; cbn [fst snd] in *.
      * left. split. exact E. exists l'. rewrite El. reflexivity.
      * right. inversion E; subst. reflexivity.
Qed.
Lemma prod_complete_unique s t t' : prod s t -> snd t <> EMore -> prod s t' -> snd t' <> EMore -> t' = t.
Proof.
  intros H Hc H' Hc'. destruct (prod_compat s t H Hc t' H') as [[E _]|E]. congruence. exact E.
Qed.

(* ---------------------------------- two streams produce the same sequence *)
Lemma steps_prefix : forall n m s, (n <= m)%nat -> exists l', fst (steps m s) = fst (steps n s) ++ l'.
Proof.
  induction n as [|n IH]; intros m s H.
  - exists (fst (steps m s)). reflexivity.
  - destruct m as [|m]; [lia|]. cbn [Pattern.steps]. destruct (snext s) as [| |s'|v s'].
    + exists []. reflexivity.
    + exists []. reflexivity.
    + apply IH. lia.
    + destruct (IH m s' ltac:(lia)) as [l' E].
      destruct (steps m s') as [lm sm], (steps n s') as [ln sn]. cbn [fst] in *. exists l'. rewrite E. reflexivity.
Qed.
Lemma run2_same_sequence sched p :
  let '(l1, l2) := run2 rnd sched p in (exists l', l2 = l1 ++ l') \/ (exists l', l1 = l2 ++ l').
Proof.
  unfold run2. rewrite isteps_independent.
  set (n1 := length (filter (fun b => b) sched)). set (n2 := length (filter negb sched)).
  destruct (Nat.le_ge_cases n1 n2) as [H|H].
  - destruct (steps_prefix n1 n2 (init Str p) H) as [l' E].
    destruct (steps n1 (init Str p)), (steps n2 (init Str p)). cbn [fst] in E. left. exists l'. exact E.
  - destruct (steps_prefix n2 n1 (init Str p) H) as [l' E].
    destruct (steps n1 (init Str p)), (steps n2 (init Str p)). cbn [fst] in E. right. exists l'. exact E.
Qed.

(* ------------------------------------------------------- Pclump in groups *)
Fixpoint chunk (fuel n : nat) (l : list val) : list (list val) :=
  match fuel with
  | O => []
  | S f => match l with [] => [] | _ => firstn n l :: chunk f n (skipn n l) end
  end.
Lemma grab_spec : forall k acc l,
  grab k acc l = (acc ++ firstn k l, if (k <=? length l)%nat then Some (skipn k l) else None).
Proof.
  induction k as [|k IH]; intros acc l; cbn.
  - rewrite app_nil_r. reflexivity.
  - destruct l as [|v l]; cbn. rewrite app_nil_r. reflexivity.
    rewrite IH, <- app_assoc. reflexivity.
Qed.
Lemma tclump_const_chunks (n : nat) : (1 <= n)%nat -> forall m f l, (length l < m)%nat -> (length l <= f)%nat ->
  tclump (repeat (VN (I (Z.of_nat n))) m) EMore l EStop = (map VL (chunk f n l), EStop).
Proof.
  intros Hn. induction m as [|m IH]; intros f l Hm Hf; [lia|].
  cbn [repeat tclump as_int]. rewrite Nat2Z.id, grab_spec. cbn [app].
  destruct l as [|v l].
  - destruct n; [lia|]. cbn. destruct f; reflexivity.
  - destruct f as [|f]; [cbn in Hf; lia|]. cbn [chunk map].
    destruct (n <=? length (v :: l))%nat eqn:E.
    + apply Nat.leb_le in E. rewrite (IH f (skipn n (v :: l))).
      * reflexivity.
      * rewrite skipn_length. cbn [length] in *. lia.
      * rewrite skipn_length. cbn [length] in *. lia.
    + apply Nat.leb_gt in E. rewrite firstn_all2 by lia. rewrite skipn_all2 by lia.
      destruct f; reflexivity.
Qed.
Lemma chunk_spec (n : nat) : (1 <= n)%nat -> forall f l, (length l <= f)%nat ->
  concat (chunk f n l) = l /\
  Forall (fun g => (1 <= length g <= n)%nat) (chunk f n l) /\
  Forall (fun g => length g = n) (removelast (chunk f n l)).
Proof.
  intros Hn. induction f as [|f IH]; intros l Hf.
  - destruct l; [|cbn in Hf; lia]. repeat split; constructor.
  - destruct l as [|v l]. repeat split; constructor.
    cbn [chunk]. destruct (IH (skipn n (v :: l))) as (C1 & C2 & C3).
    { rewrite skipn_length. cbn [length] in *. lia. }
    repeat split.
    + cbn [concat]. rewrite C1. apply firstn_skipn.
    + constructor; [|exact C2]. rewrite firstn_length. destruct n; [lia|]. cbn. lia.
    + destruct (chunk f n (skipn n (v :: l))) as [|g gs] eqn:E. constructor.
      change (removelast (firstn n (v :: l) :: g :: gs)) with (firstn n (v :: l) :: removelast (g :: gs)).
      constructor; [|exact C3].
      rewrite firstn_length. apply Nat.min_l.
      destruct (Nat.le_gt_cases n (length (v :: l))) as [Hle|Hgt]; [exact Hle|].
      rewrite skipn_all2 in E by lia. destruct f; discriminate E.
Qed.

(* ------------------------------------------------------ Pslide in windows *)
Definition witem (d : pat -> trace) (l : list pat) (idx : Z) : list val :=
  match wrap_at l idx with Some q => fst (d q) | None => [] end.
Definition window (d : pat -> trace) (l : list pat) (pos : Z) (j len : nat) : list val :=
  flat_map (fun jj => witem d l (pos + Z.of_nat jj)) (seq j len).
Fixpoint windows (d : pat -> trace) (l : list pat) (len : nat) (pos step : Z) (r : nat) : list val :=
  match r with
  | O => []
  | S r' => window d l pos 0 len ++ windows d l len (pos + step) step r'
  end.
Lemma wrap_at_in {A} (l : list A) i q : wrap_at l i = Some q -> In q l.
Proof. unfold wrap_at. destruct l. discriminate. apply nth_error_In. Qed.
Lemma twin_window (d : pat -> trace) l z K : (forall q, In q l -> snd (d q) = EStop) -> l <> [] ->
  forall rem j, twin d l true (I z) j rem K = tpre (window d l z j rem) K.
Proof.
  intros Hc Hne. induction rem as [|rem IH]; intros j.
  - cbn. rewrite tpre_nil. reflexivity.
  - cbn [twin]. unfold window. cbn [seq flat_map]. unfold witem at 1.
    destruct (wrap_at l (z + Z.of_nat j)) as [q|] eqn:E.
    + rewrite IH. pose proof (Hc q (wrap_at_in _ _ _ E)) as Hq. destruct (d q) as [lq eq]. cbn in Hq. subst eq.
      unfold tapp, tpre, window. cbn [fst snd]. rewrite app_assoc. reflexivity.
    + exfalso. unfold wrap_at in E. destruct l as [|x l']; [congruence|].
      apply nth_error_None in E.
      assert (0 <= (z + Z.of_nat j) mod Z.of_nat (length (x :: l')) < Z.of_nat (length (x :: l')))%Z
        by (apply Z.mod_pos_bound; cbn [length]; lia).
      lia.
Qed.
Lemma tslide_windows (d : pat -> trace) l (len : nat) (step : Z) :
  (forall q, In q l -> snd (d q) = EStop) -> l <> [] ->
  forall r m pos, (r <= m)%nat ->
  tslide d l true (Some r) (I pos) (repeat (VN (I (Z.of_nat len))) m) EMore (repeat (VN (I step)) m) EMore
  = (windows d l len pos step r, EStop).
Proof.
  intros Hc Hne. induction r as [|r IH]; intros m pos Hm.
  - destruct m; reflexivity.
  - destruct m as [|m]; [lia|]. cbn [repeat tslide cnt_zero as_index as_num nadd lift2 cnt_dec pred].
    rewrite Nat2Z.id, twin_window by assumption.
    rewrite IH by lia. unfold tpre. cbn [fst snd windows]. reflexivity.
Qed.

(* ----------------------------- Pclump / Pslide stated on patterns *)
Lemma pclump_groups_l k m q (n : nat) l : (1 <= n)%nat ->
  den (S k) Str q = (l, EStop) -> (length l < k)%nat ->
  let groups := chunk (length l) n l in
  den (S (S k)) m (Pclump q (PVal (VN (I (Z.of_nat n))))) = (map VL groups, EStop) /\
  concat groups = l /\
  Forall (fun g => (1 <= length g <= n)%nat) groups /\
  Forall (fun g => length g = n) (removelast groups).
Proof.
  intros Hn H Hl groups. split.
  - change (den (S (S k)) m (Pclump q (PVal (VN (I (Z.of_nat n))))))
      with (tclump (fst (den (S k) Str (PVal (VN (I (Z.of_nat n)))))) (snd (den (S k) Str (PVal (VN (I (Z.of_nat n))))))
                   (fst (den (S k) Str q)) (snd (den (S k) Str q))).
    rewrite H. change (den (S k) Str (PVal (VN (I (Z.of_nat n))))) with (repeat (VN (I (Z.of_nat n))) k, EMore).
    cbn [fst snd]. apply tclump_const_chunks; try assumption. lia.
  - apply chunk_spec. exact Hn. lia.
Qed.
Lemma pslide_windows_l k m lst (len r : nat) (step start : Z) : lst <> [] ->
  (forall q, In q lst -> snd (den (S k) Emb q) = EStop) -> (r <= k)%nat ->
  den (S (S k)) m (Pslide lst (PVal (VN (I (Z.of_nat len)))) (PVal (VN (I step))) start true (Fin (Z.of_nat r)))
  = (windows (den (S k) Emb) lst len start step r, EStop).
Proof.
  intros Hne Hc Hr.
  change (den (S (S k)) m (Pslide lst (PVal (VN (I (Z.of_nat len)))) (PVal (VN (I step))) start true (Fin (Z.of_nat r))))
    with (match lst with
          | [] => ([], EErr)
          | _ => tslide (den (S k) Emb) lst true (cnt_of (Fin (Z.of_nat r))) (I start)
                   (fst (den (S k) Str (PVal (VN (I (Z.of_nat len)))))) (snd (den (S k) Str (PVal (VN (I (Z.of_nat len))))))
                   (fst (den (S k) Str (PVal (VN (I step))))) (snd (den (S k) Str (PVal (VN (I step))))) end).
  destruct lst as [|q0 l']; [congruence|].
  change (den (S k) Str (PVal (VN (I (Z.of_nat len))))) with (repeat (VN (I (Z.of_nat len))) k, EMore).
  change (den (S k) Str (PVal (VN (I step)))) with (repeat (VN (I step)) k, EMore).
  cbn [fst snd cnt_of]. rewrite Nat2Z.id. apply tslide_windows; assumption.
Qed.
End Meaning.
