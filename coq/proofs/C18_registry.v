(* C18 (d) -- insertion-ordered registries: order semantics of add/remove and what run calls. *)
From Coq Require Import List Bool Arith Lia.
Import ListNotations.
Require Import SC3.model.Registry.

Lemma reg_mem_in : forall k r, reg_mem k r = true <-> In k (reg_keys r).
Proof.
  induction r as [| [k' v] r IH]; simpl; [split; [discriminate | contradiction]|].
  rewrite orb_true_iff, IH, Nat.eqb_eq. split; intros [H | H]; auto.
Qed.

Lemma reg_get_some_mem : forall k r v, reg_get k r = Some v -> In k (reg_keys r).
Proof.
  induction r as [| [k' v'] r IH]; simpl; intros v H; [discriminate|].
  destruct (Nat.eqb_spec k k'); [left; auto | right; eapply IH; eassumption].
Qed.

(* d[k] = v : an existing key keeps its place, a new key goes last *)
Lemma reg_keys_set : forall k v r,
  reg_keys (reg_set k v r) = if reg_mem k r then reg_keys r else reg_keys r ++ [k].
Proof.
  induction r as [| [k' v'] r IH]; simpl; [reflexivity|].
  destruct (Nat.eqb_spec k k') as [-> | Hne]; simpl; [reflexivity|].
  rewrite IH. destruct (reg_mem k r); reflexivity.
Qed.
Lemma reg_get_set_same : forall k v r, reg_get k (reg_set k v r) = Some v.
Proof.
  induction r as [| [k' v'] r IH]; simpl; [rewrite Nat.eqb_refl; reflexivity|].
  destruct (Nat.eqb_spec k k') as [-> | Hne]; simpl; [rewrite Nat.eqb_refl; reflexivity|].
  destruct (Nat.eqb_spec k k'); [contradiction | assumption].
Qed.
Lemma reg_get_set_other : forall k v r j, j <> k -> reg_get j (reg_set k v r) = reg_get j r.
Proof.
  induction r as [| [k' v'] r IH]; intros j Hne; simpl.
  - destruct (Nat.eqb_spec j k); [contradiction | reflexivity].
  - destruct (Nat.eqb_spec k k') as [-> | Hk]; simpl.
    + destruct (Nat.eqb_spec j k'); [contradiction | reflexivity].
    + destruct (Nat.eqb j k'); [reflexivity | apply IH; assumption].
Qed.

(* del d[k] : the others keep their relative order *)
Lemma reg_keys_del : forall k r, NoDup (reg_keys r) ->
  reg_keys (reg_del k r) = filter (fun j => negb (Nat.eqb j k)) (reg_keys r).
Proof.
  induction r as [| [k' v'] r IH]; intro Hnd; simpl; [reflexivity|].
  inversion Hnd as [| ? ? Hnin Hnd']; subst.
  destruct (Nat.eqb_spec k k') as [-> | Hne]; simpl.
  - rewrite Nat.eqb_refl. simpl. clear IH Hnd. induction r as [| [k2 v2] r IHr]; simpl in *; [reflexivity|].
    destruct (Nat.eqb_spec k2 k') as [-> | H2]; simpl.
    + exfalso. apply Hnin. left. reflexivity.
    + f_equal. apply IHr; [intro; apply Hnin; right; assumption | inversion Hnd'; assumption].
  - destruct (Nat.eqb_spec k' k); [congruence|]. simpl. f_equal. apply IH. assumption.
Qed.
Lemma reg_get_del_other : forall k r j, j <> k -> reg_get j (reg_del k r) = reg_get j r.
Proof.
  induction r as [| [k' v'] r IH]; intros j Hne; simpl; [reflexivity|].
  destruct (Nat.eqb_spec k k') as [-> | Hk]; simpl.
  - destruct (Nat.eqb_spec j k'); [contradiction | reflexivity].
  - destruct (Nat.eqb j k'); [reflexivity | apply IH; assumption].
Qed.
Lemma reg_del_incl : forall k r j, In j (reg_keys (reg_del k r)) -> In j (reg_keys r).
Proof.
  induction r as [| [k' v'] r IH]; simpl; intros j H; [assumption|].
  destruct (Nat.eqb k k'); simpl in *; [right; assumption | destruct H; [left; assumption | right; apply IH; assumption]].
Qed.

Lemma nodup_set : forall k v r, NoDup (reg_keys r) -> NoDup (reg_keys (reg_set k v r)).
Proof.
  intros k v r H. rewrite reg_keys_set. destruct (reg_mem k r) eqn:E; [assumption|].
  assert (Hn : ~ In k (reg_keys r)) by (intro Hi; apply reg_mem_in in Hi; congruence).
  clear E. induction (reg_keys r) as [| x l IH]; simpl; [constructor; [intros [] | constructor]|].
  inversion H; subst. constructor.
  - intro Hi. apply in_app_or in Hi as [Hi | [Hi | []]]; [contradiction | subst; apply Hn; left; reflexivity].
  - apply IH; [assumption | intro; apply Hn; right; assumption].
Qed.
Lemma nodup_del : forall k r, NoDup (reg_keys r) -> NoDup (reg_keys (reg_del k r)).
Proof. intros k r H. rewrite reg_keys_del by assumption. apply NoDup_filter. assumption. Qed.

(* ---- run ---------------------------------------------------------------------------------------- *)
Lemma reg_get_in_nodup : forall r k v, NoDup (reg_keys r) -> In (k, v) r -> reg_get k r = Some v.
Proof.
  induction r as [| [k' v'] r IH]; intros k v Hnd Hi; [contradiction|].
  inversion Hnd as [| ? ? Hnin Hnd']; subst. simpl. destruct Hi as [Hi | Hi].
  - inversion Hi; subst. rewrite Nat.eqb_refl. reflexivity.
  - destruct (Nat.eqb_spec k k') as [-> | Hne]; [|apply IH; assumption].
    exfalso. apply Hnin. change k' with (fst (k', v)). apply in_map. assumption.
Qed.

(* actions that unregister nothing: run calls every registered action once, in registration
   order, with the arguments currently registered, and leaves the registry alone *)
Lemma sa_run_all : forall r, NoDup (reg_keys r) -> sa_run (fun _ => []) r = (r, r).
Proof.
  intros r Hnd. unfold sa_run.
  assert (H : forall t, (forall k v, In (k, v) t -> reg_get k r = Some v) -> sa_run_from (fun _ => []) (reg_keys t) r = (r, t)).
  { induction t as [| [k v] t IH]; intro Hall; simpl; [reflexivity|].
    rewrite (Hall k v (or_introl eq_refl)). simpl. rewrite IH; [reflexivity|]. intros k' v' Hi. apply Hall. right. assumption. }
  apply H. intros k v Hi. apply reg_get_in_nodup; assumption.
Qed.

(* with unregistering actions: what is called was registered (with these arguments) when the run
   started, the calls follow the registration order, and nothing is called twice *)
Inductive sublist {A : Type} : list A -> list A -> Prop :=
| sub_nil : forall l, sublist [] l
| sub_skip : forall x l1 l2, sublist l1 l2 -> sublist l1 (x :: l2)
| sub_take : forall x l1 l2, sublist l1 l2 -> sublist (x :: l1) (x :: l2).

Lemma fold_del_get : forall ks r j v, reg_get j (fold_left (fun acc k => reg_del k acc) ks r) = Some v -> NoDup (reg_keys r) -> reg_get j r = Some v.
Proof.
  induction ks as [| k ks IH]; intros r j v H Hnd; simpl in *; [assumption|].
  apply IH in H; [|apply nodup_del; assumption].
  destruct (Nat.eq_dec j k) as [-> | Hne]; [|rewrite reg_get_del_other in H; assumption].
  exfalso. apply reg_get_some_mem in H. rewrite reg_keys_del in H by assumption. apply filter_In in H as [_ H].
  rewrite Nat.eqb_refl in H. discriminate.
Qed.
Lemma fold_del_nodup : forall ks r, NoDup (reg_keys r) -> NoDup (reg_keys (fold_left (fun acc k => reg_del k acc) ks r)).
Proof. induction ks as [| k ks IH]; intros r H; simpl; [assumption | apply IH, nodup_del; assumption]. Qed.

Lemma sa_run_from_sound : forall removes snap r, NoDup (reg_keys r) ->
  sublist (map fst (snd (sa_run_from removes snap r))) snap
  /\ (forall a x, In (a, x) (snd (sa_run_from removes snap r)) -> reg_get a r = Some x)
  /\ NoDup (reg_keys (fst (sa_run_from removes snap r))).
Proof.
  intros removes snap. induction snap as [| a snap IH]; intros r Hnd; simpl.
  - repeat split; [constructor | contradiction | assumption].
  - destruct (reg_get a r) as [args|] eqn:Eg.
    + set (r' := fold_left (fun acc k => reg_del k acc) (removes a) r).
      assert (Hnd' : NoDup (reg_keys r')) by (apply fold_del_nodup; assumption).
      destruct (IH r' Hnd') as (H1 & H2 & H3).
      destruct (sa_run_from removes snap r') as [r'' log]. simpl in *.
      repeat split; [apply sub_take; assumption | | assumption].
      intros b x [Hi | Hi]; [inversion Hi; subst; assumption|].
      apply H2 in Hi. eapply fold_del_get; eassumption.
    + destruct (IH r Hnd) as (H1 & H2 & H3). repeat split; [apply sub_skip; assumption | assumption | assumption].
Qed.

(* ---- histories of SystemAction operations keep the keys distinct ---------------------------------------- *)
Lemma rstep_nodup : forall removes st o, NoDup (reg_keys (st_sa st)) -> NoDup (reg_keys (st_sa (fst (rstep removes st o)))).
Proof.
  intros removes st o H. destruct o; simpl; try assumption.
  - apply nodup_set; assumption.
  - apply nodup_del; assumption.
  - constructor.
  - unfold sa_run. pose proof (sa_run_from_sound removes (reg_keys (st_sa st)) (st_sa st) H) as (_ & _ & H3).
    destruct (sa_run_from removes (reg_keys (st_sa st)) (st_sa st)). simpl in *. assumption.
  - destruct (nc_unregister obj msg listener (st_nc st)); simpl; assumption.
  - destruct (nc_unregister_msg obj msg (st_nc st)); simpl; assumption.
  - destruct (nc_unregister_obj obj (st_nc st)); simpl; assumption.
Qed.

Lemma al_get_put_same : forall (V : Type) k (f : option V -> V) t, al_get k (al_put k f t) = Some (f (al_get k t)).
Proof.
  induction t as [| [k' v] t IH]; simpl; [rewrite Nat.eqb_refl; reflexivity|].
  destruct (Nat.eqb k k') eqn:E; simpl; rewrite E; [reflexivity | assumption].
Qed.
Lemma nc_notify_register : forall o m l a t,
  nc_notify o m (nc_register o m l a t) = reg_set l a (odflt [] (nc_get o m t)).
Proof.
  intros o m l a t.
  assert (Hg : nc_get o m t = al_get m (odflt [] (al_get o t))).
  { unfold nc_get. destruct (al_get o t); reflexivity. }
  rewrite Hg. unfold nc_notify, nc_register, nc_get.
  rewrite al_get_put_same. cbv beta iota. rewrite al_get_put_same. reflexivity.
Qed.

(* ---- ServerAction ------------------------------------------------------------------------------------------- *)
Lemma skey_eqb_eq : forall a b, skey_eqb a b = true <-> a = b.
Proof.
  destruct a, b; simpl; split; intro H; try discriminate; try reflexivity.
  - apply Nat.eqb_eq in H. subst. reflexivity.
  - inversion H. apply Nat.eqb_refl.
Qed.
Lemma sv_get_put_same : forall s f t, sv_get s (sv_put s f t) = Some (f (match sv_get s t with Some r => r | None => [] end)).
Proof.
  induction t as [| [s' r] t IH]; simpl.
  - assert (E : skey_eqb s s = true) by (apply skey_eqb_eq; reflexivity). rewrite E. reflexivity.
  - destruct (skey_eqb s s') eqn:E; simpl; rewrite E; [reflexivity | assumption].
Qed.
Lemma sv_get_put_other : forall s f t s', s' <> s -> sv_get s' (sv_put s f t) = sv_get s' t.
Proof.
  induction t as [| [s2 r] t IH]; intros s' Hne; simpl.
  - destruct (skey_eqb s' s) eqn:E; [apply skey_eqb_eq in E; contradiction | reflexivity].
  - destruct (skey_eqb s s2) eqn:E; simpl.
    + apply skey_eqb_eq in E. subst s2. destruct (skey_eqb s' s) eqn:E2; [apply skey_eqb_eq in E2; contradiction | reflexivity].
    + destruct (skey_eqb s' s2); [reflexivity | apply IH; assumption].
Qed.

(* repaired remove: the action is gone for that server, everything else is untouched *)
Lemma sv_remove_spec : forall s a t,
  sv_get s (sv_remove s a t) = option_map (reg_del a) (sv_get s t)
  /\ forall s', s' <> s -> sv_get s' (sv_remove s a t) = sv_get s' t.
Proof.
  intros s a t. unfold sv_remove. destruct (sv_get s t) as [r|] eqn:E.
  - split; [rewrite sv_get_put_same, E; reflexivity | intros; apply sv_get_put_other; assumption].
  - split; [rewrite E; reflexivity | reflexivity].
Qed.
Lemma sv_add_spec : forall s a x t,
  sv_get s (sv_add s a x t) = Some (reg_set a x (match sv_get s t with Some r => r | None => [] end))
  /\ forall s', s' <> s -> sv_get s' (sv_add s a x t) = sv_get s' t.
Proof. intros. unfold sv_add. split; [apply sv_get_put_same | intros; apply sv_get_put_other; assumption]. Qed.

Lemma sv_removed_not_run : forall s a t n d, s = KServer n \/ s = KAll \/ (s = KDefault /\ d = true) ->
  (forall s' r, sv_get s' t = Some r -> NoDup (reg_keys r)) ->
  (forall s', s' <> s -> forall r, sv_get s' t = Some r -> ~ In a (reg_keys r)) ->
  ~ In a (map fst (sv_run n d (sv_remove s a t))).
Proof.
  intros s a t n d Hs Hnd Hother. unfold sv_run. rewrite !map_app, !in_app_iff.
  assert (Hgone : forall s', match sv_get s' (sv_remove s a t) with Some r => ~ In a (reg_keys r) | None => True end).
  { intro s'. destruct (sv_remove_spec s a t) as [H1 H2]. destruct (skey_eqb s' s) eqn:E.
    - apply skey_eqb_eq in E. subst s'. rewrite H1. destruct (sv_get s t) as [r|] eqn:Er; simpl; [|exact I].
      rewrite reg_keys_del by (eapply Hnd; eassumption). intro Hi. apply filter_In in Hi as [_ Hi]. rewrite Nat.eqb_refl in Hi. discriminate.
    - assert (Hne : s' <> s) by (intro; subst; assert (skey_eqb s s = true) by (apply skey_eqb_eq; reflexivity); congruence).
      rewrite H2 by assumption. destruct (sv_get s' t) as [r|] eqn:Er; [|exact I]. eapply Hother; eassumption. }
  intros [H | [H | H]].
  - pose proof (Hgone (KServer n)) as G. destruct (sv_get (KServer n) (sv_remove s a t)); [contradiction | assumption].
  - destruct d; [|assumption]. pose proof (Hgone KDefault) as G. destruct (sv_get KDefault (sv_remove s a t)); [contradiction | assumption].
  - pose proof (Hgone KAll) as G. destruct (sv_get KAll (sv_remove s a t)); [contradiction | assumption].
Qed.
