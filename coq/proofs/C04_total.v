(* C04 -- which signatures build: an explicit decidable characterisation of the errors of
   build_one / build_list (repaired code), in the order in which the real code raises. *)
From Coq Require Import String List QArith Bool Arith PeanoNat Lia.
Import ListNotations.
Require Import SC3.model.Controls SC3.proofs.C04_layout SC3.proofs.C04_main SC3.proofs.C04_lags.
Open Scope nat_scope.

Definition is_nil {A} (l : list A) : bool := match l with [] => true | _ => false end.

(* a rate group that has members but no value at all (only empty tuple defaults):
   Control.ir/kr/ar([]) -> _init_outputs(0) raises *)
Definition group_ok (r : rate) (cns : list cname) : bool :=
  is_nil (of_rate r cns) || negb (is_nil (gslots r cns)).
Definition groups_ok (cns : list cname) : bool :=
  group_ok Rir cns && group_ok Rtr cns && group_ok Rar cns && group_ok Rkr cns.

(* the exception a signature raises, None = it builds.  Order = order of the code:
   1 ValueError "all func parameters must be POSITIONAL_OR_KEYWORD"  (all parameters)
   2 ValueError "tuple rank > 1"                                     (parameters after prepend)
   3 ValueError "rate annotation ... not in"                         (parameters after prepend)
   5 Exception  "wrong number of channels (0)"   (a rate group made only of empty tuples)
   4 TypeError  too many positional arguments    (prepend longer than the parameter list) *)
Definition sig_err (specs : list (string * Q)) (f : fsig) : option err :=
  let ps := f_params f in
  let ps' := skipn (f_prepend f) ps in
  if negb (forallb p_pok ps) then Some EKind
  else if negb (forallb rank_ok ps') then Some ERank
  else if negb (forallb (fun p => annot_ok (p_annot p)) ps') then Some EAnnot
  else if negb (groups_ok (mk_cnames specs (f_rates f) 0 0 ps')) then Some ENoOutputs
  else if length ps <? f_prepend f then Some EPrepend
  else None.
Definition sig_ok (specs : list (string * Q)) (f : fsig) : bool :=
  match sig_err specs f with None => true | Some _ => false end.

(* ------------------------------------------------------------------ helpers *)
Lemma sbi_of_rate_nil r : forall l1 l2, sbi l1 l2 -> is_nil (of_rate r l1) = is_nil (of_rate r l2).
Proof.
  induction 1 as [|a b l1 l2 H _ IH]; [reflexivity|].
  destruct H as (_ & Hr & _). unfold of_rate in *. cbn [filter]. rewrite Hr.
  destruct (rate_eqb (cn_rate b) r); [reflexivity|exact IH].
Qed.
Lemma sbi_group_ok r l1 l2 : sbi l1 l2 -> group_ok r l1 = group_ok r l2.
Proof. intro H. unfold group_ok. rewrite (sbi_of_rate_nil r _ _ H), (sbi_gslots r _ _ H). reflexivity. Qed.
Lemma sbi_lag_wf l1 l2 : sbi l1 l2 -> Forall lag_wf l2 -> Forall lag_wf l1.
Proof.
  induction 1 as [|a b l1 l2 H _ IH]; intro F; [constructor|].
  inversion F; subst. constructor; [|apply IH; assumption].
  destruct H as (_ & _ & _ & _ & Hl & _). unfold lag_wf in *. rewrite Hl. assumption.
Qed.
Lemma sbi_sym l1 l2 : sbi l1 l2 -> sbi l2 l1.
Proof.
  induction 1 as [|a b l1 l2 H _ IH]; constructor; [|exact IH].
  unfold same_but_index in *. intuition congruence.
Qed.

Lemma mk_cnames_prov specs rs p1 p2 : forall ps i0,
  sbi (mk_cnames specs rs p1 i0 ps) (mk_cnames specs rs p2 i0 ps).
Proof.
  induction ps as [|p ps IH]; intros i0; [constructor|]. cbn [mk_cnames].
  destruct (arg_value specs p), (classify (p_annot p) (rate_at rs i0)).
  constructor; [repeat split|apply IH].
Qed.

(* ------------------------------------------------------------------ one stage, forwards *)
Lemma build_ita_total r cls ur st cns :
  if group_ok r (map fst cns)
  then exists st' cns', build_ita r cls ur (Ok (st, cns)) = Ok (st', cns')
  else build_ita r cls ur (Ok (st, cns)) = Err ENoOutputs.
Proof.
  unfold group_ok, build_ita, gslots. rewrite group_of_map.
  destruct (of_rate r (map fst cns)) as [|c g]; cbn [is_nil orb]; [eauto|].
  destruct (group_vals (c :: g)); cbn [is_nil negb]; eauto.
Qed.

Lemma build_kr_total st cns : Forall lag_wf (map fst cns) ->
  if group_ok Rkr (map fst cns)
  then exists st' cns', build_kr fixed (Ok (st, cns)) = Ok (st', cns')
  else build_kr fixed (Ok (st, cns)) = Err ENoOutputs.
Proof.
  intro Hwf. unfold group_ok, build_kr, gslots. rewrite group_of_map.
  destruct (of_rate Rkr (map fst cns)) as [|c g] eqn:G; cbn [is_nil orb]; [eauto|].
  rewrite lagitems_fixed, existsb_LI.
  assert (Hl : length (klags (c :: g)) = length (group_vals (c :: g))).
  { apply klags_length. rewrite <- G. apply Forall_of_rate. assumption. }
  destruct (existsb qnz (klags (c :: g))) eqn:NZ.
  - rewrite map_length, Hl, Nat.eqb_refl. cbn [negb].
    destruct (group_vals (c :: g)) as [|v vals] eqn:V.
    + destruct (klags (c :: g)); [discriminate|simpl in Hl; lia].
    + cbn [is_nil negb]. destruct (fold_left lag_clump _ _) as [st1 px]. eauto.
  - destruct (group_vals (c :: g)); cbn [is_nil negb]; eauto.
Qed.

Lemma build_ita_err r cls ur e : build_ita r cls ur (Err e) = Err e. Proof. reflexivity. Qed.
Lemma build_kr_err e : build_kr fixed (Err e) = Err e. Proof. reflexivity. Qed.

Lemma build_controls_total st cns :
  st_cindex st = length (st_controls st) -> Forall lag_wf cns ->
  if groups_ok cns
  then exists st' pl, build_controls fixed st cns = Ok (st', pl)
  else build_controls fixed st cns = Err ENoOutputs.
Proof.
  intros Hi Hwf. unfold build_controls, groups_ok.
  set (cns0 := map (fun c => (c, @nil proxy)) cns).
  assert (B0 : sbi (map fst cns0) cns).
  { unfold cns0. rewrite map_map. cbn [fst]. rewrite map_id. apply sbi_refl. }
  pose proof (build_ita_total Rir UControl URscalar st cns0) as T1.
  rewrite (sbi_group_ok _ _ _ B0) in T1. unfold placed in *.
  destruct (group_ok Rir cns); cbn [andb];
    [|rewrite T1; reflexivity].
  destruct T1 as (st1 & cns1 & E1). rewrite E1.
  pose proof (build_ita_stage _ _ _ _ _ _ _ E1 Hi) as (_ & I1 & _ & _ & _ & _ & px1 & P1 & _).
  assert (B1 : sbi (map fst cns1) cns) by (rewrite P1; apply sbi_scatter; assumption).
  pose proof (build_ita_total Rtr UTrig URcontrol st1 cns1) as T2.
  rewrite (sbi_group_ok _ _ _ B1) in T2. unfold placed in *.
  destruct (group_ok Rtr cns); cbn [andb];
    [|rewrite T2; reflexivity].
  destruct T2 as (st2 & cns2 & E2). rewrite E2.
  pose proof (build_ita_stage _ _ _ _ _ _ _ E2 I1) as (_ & I2 & _ & _ & _ & _ & px2 & P2 & _).
  assert (B2 : sbi (map fst cns2) cns) by (rewrite P2; apply sbi_scatter; assumption).
  pose proof (build_ita_total Rar UAudio URaudio st2 cns2) as T3.
  rewrite (sbi_group_ok _ _ _ B2) in T3. unfold placed in *.
  destruct (group_ok Rar cns); cbn [andb];
    [|rewrite T3; reflexivity].
  destruct T3 as (st3 & cns3 & E3). rewrite E3.
  pose proof (build_ita_stage _ _ _ _ _ _ _ E3 I2) as (_ & I3 & _ & _ & _ & _ & px3 & P3 & _).
  assert (B3 : sbi (map fst cns3) cns) by (rewrite P3; apply sbi_scatter; assumption).
  pose proof (build_kr_total st3 cns3 (sbi_lag_wf _ _ B3 Hwf)) as T4.
  rewrite (sbi_group_ok _ _ _ B3) in T4. unfold placed in *.
  destruct (group_ok Rkr cns); [|exact T4].
  destruct T4 as (st4 & pl & E4). eauto.
Qed.

(* ------------------------------------------------------------------ one function *)
Theorem build_one_total specs st f :
  st_cindex st = length (st_controls st) ->
  match sig_err specs f with
  | Some e => build_one fixed specs (Ok st) f = Err e
  | None => exists st', build_one fixed specs (Ok st) f = Ok st'
  end.
Proof.
  intro Hi. unfold sig_err, build_one, args_to_controls.
  destruct (f_params f) as [|p ps] eqn:P.
  - (* no parameters: early return; prepend > 0 raises the TypeError *)
    rewrite skipn_nil. cbn [forallb negb mk_cnames groups_ok].
    unfold groups_ok, group_ok, of_rate. cbn [filter is_nil orb andb negb].
    unfold build_controls. cbn [map build_ita group_of filter fst build_kr].
    cbn [length]. destruct (0 <? f_prepend f); [reflexivity|eauto].
  - remember (p :: ps) as pps.
    destruct (forallb p_pok pps); cbn [negb]; [|reflexivity].
    destruct (forallb rank_ok (skipn (f_prepend f) pps)); cbn [negb]; [|reflexivity].
    destruct (forallb (fun p0 => annot_ok (p_annot p0)) (skipn (f_prepend f) pps)); cbn [negb]; [|reflexivity].
    set (ps' := skipn (f_prepend f) pps).
    pose proof (build_controls_total st (mk_cnames specs (f_rates f) (length (st_controls st)) 0 ps') Hi
                  (mk_cnames_lag_wf _ _ _ _ _)) as T.
    assert (G : groups_ok (mk_cnames specs (f_rates f) (length (st_controls st)) 0 ps')
              = groups_ok (mk_cnames specs (f_rates f) 0 0 ps')).
    { unfold groups_ok. rewrite !(sbi_group_ok _ _ _ (mk_cnames_prov specs (f_rates f) (length (st_controls st)) 0 ps' 0)).
      reflexivity. }
    rewrite G in T.
    destruct (groups_ok (mk_cnames specs (f_rates f) 0 0 ps')); cbn [negb].
    + destruct T as (st1 & pl & E). rewrite E.
      destruct (length pps <? f_prepend f); [reflexivity|eauto].
    + rewrite T. reflexivity.
Qed.

Corollary sig_ok_iff_builds specs st f :
  st_cindex st = length (st_controls st) ->
  (sig_ok specs f = true <-> exists st', build_one fixed specs (Ok st) f = Ok st').
Proof.
  intro Hi. pose proof (build_one_total specs st f Hi) as T. unfold sig_ok.
  destruct (sig_err specs f) as [e|]; split; intro H; try reflexivity; try assumption; try discriminate.
  destruct H as (st' & H). congruence.
Qed.

(* ------------------------------------------------------------------ a whole definition *)
Fixpoint first_err (specs : list (string * Q)) (fs : list fsig) : option err :=
  match fs with
  | [] => None
  | f :: r => match sig_err specs f with Some e => Some e | None => first_err specs r end
  end.

Lemma fold_total specs : forall fs st, st_cindex st = length (st_controls st) ->
  match first_err specs fs with
  | Some e => fold_left (build_one fixed specs) fs (Ok st) = Err e
  | None => exists st', fold_left (build_one fixed specs) fs (Ok st) = Ok st'
  end.
Proof.
  induction fs as [|f fs IH]; intros st Hi; cbn [first_err fold_left]; [eauto|].
  pose proof (build_one_total specs st f Hi) as T.
  destruct (sig_err specs f) as [e|].
  - rewrite T. apply build_one_err.
  - destruct T as (st1 & E). rewrite E.
    destruct (build_one_spec _ _ _ _ E Hi) as (_ & _ & _ & _ & _ & _ & _ & _ & I1 & _).
    apply IH. exact I1.
Qed.

Theorem build_list_total specs fs :
  match first_err specs fs with
  | Some e => build_list fixed specs fs = Err e
  | None => exists st', build_list fixed specs fs = Ok st'
  end.
Proof. unfold build_list. apply fold_total. reflexivity. Qed.
