(* C01_inv2.v -- the rewrites of BinaryOpUGen._optimize_add / _optimize_sub as steps that preserve
   the invariant of C01_inv.v: each constructor called during the pass creates exactly one new object of
   the expected shape (Part E); `sole` and the case analysis of opt_add / sub_rewrite (Part F). *)
From Coq Require Import ZArith QArith List String Bool Arith Lia Setoid Permutation.
Import ListNotations.
Require Import SC3.model.Graph SC3.proofs.C20_arrange SC3.proofs.C01_inv.
Open Scope string_scope.
Open Scope nat_scope.
Open Scope list_scope.

Arguments sort_by : simpl never.

Section Shapes.
Variable T : optabs.
Hypothesis Hplus : exists i, sc_spindex_opname T "+" = Some (i, "+").
Hypothesis Hminus : exists i, sc_spindex_opname T "-" = Some (i, "-").

(* ================================================================== Part E: constructors during the pass *)
(* ---- facts local to one unit that the emitted definition needs (class name literal, one output) and the
   control array, which the optimiser never touches *)
Definition arith_cls (c : string) : bool :=
  existsb (String.eqb c) ["BinaryOpUGen"; "UnaryOpUGen"; "MulAdd"; "Sum3"; "Sum4"].

Lemma controls_put_unit : forall s U, controls (put_unit s U) = controls s. Proof. reflexivity. Qed.
Lemma controls_put_set : forall s r l, controls (put_set s r l) = controls s. Proof. reflexivity. Qed.
Lemma controls_set_child : forall s i v, controls (set_child s i v) = controls s.
Proof. intros. unfold set_child. destruct (_ || _); reflexivity. Qed.
Lemma controls_remove_ugen : forall s u, controls (remove_ugen s u) = controls s.
Proof. intros. unfold remove_ugen. destruct (get_unit s u); auto. apply controls_set_child. Qed.
Lemma controls_udl : forall l s self repl deleted, controls (update_desc_loop s self repl deleted l) = controls s.
Proof.
  induction l as [|i t IH]; intros s self repl deleted; simpl; auto.
  destruct i as [q|u ch]; auto. destruct (get_unit s u) as [V|]; auto.
  destruct (isugen V); auto. destruct (dref V); auto. rewrite IH. reflexivity.
Qed.
Lemma controls_replace_ugen : forall s a b s', replace_ugen s a b = Ok s' -> controls s' = controls s.
Proof.
  intros s a b s' H. unfold replace_ugen in H.
  destruct (get_unit s a) as [UA|]; [|discriminate]. destruct (get_unit s b) as [UB|]; [|discriminate].
  injection H as <-.
  match goal with |- controls (fold_left ?f ?l ?s0) = _ =>
    assert (G : forall l0 s1, controls (fold_left f l0 s1) = controls s1) end.
  { induction l0 as [|c t IH]; intro s1; simpl; auto. rewrite IH. destruct (get_unit s1 c); reflexivity. }
  rewrite G, controls_set_child. reflexivity.
Qed.
Lemma controls_absorb : forall s self UA mk s3 r,
  absorb s self UA mk = Ok (s3, r) ->
  (forall s2 rv, mk (remove_ugen s (uid UA)) = Ok (s2, rv) -> controls s2 = controls (remove_ugen s (uid UA))) ->
  controls s3 = controls s.
Proof.
  intros s self UA mk s3 r H Hmk. unfold absorb in H.
  destruct (mk (remove_ugen s (uid UA))) as [[s2 rv]|e] eqn:E; cbn [bind] in H; [|discriminate].
  pose proof (Hmk s2 rv eq_refl) as H2. unfold adopt in H.
  destruct rv as [q|r0 c0]; [discriminate|]. destruct (get_unit s2 r0) as [R|]; [|discriminate].
  destruct (multi R); [discriminate|]. cbn [bind] in H. injection H as <- _.
  unfold update_desc. destruct (get_unit _ r0).
  - rewrite controls_udl, controls_put_unit, H2. apply controls_remove_ugen.
  - rewrite controls_put_unit, H2. apply controls_remove_ugen.
Qed.

Record MkShape (s1 s2 : st) (rv : inp) (R : unit) (L : list inp) : Prop := mkShape {
  SH_rv : rv = O (List.length (units s1)) 0;
  SH_units : units s2 = units s1 ++ [R];
  SH_children : children s2 = children s1;
  SH_sets : sets s2 = sets s1;
  SH_rw : rewriting s2 = rewriting s1;
  SH_uid : uid R = List.length (units s1);
  SH_dref : dref R = None;
  SH_tracked : tracked R = true;
  SH_ok : unit_ok R = true;
  SH_perm : Permutation (ins R) L;
  SH_controls : controls s2 = controls s1;
  SH_cls : arith_cls (cls R) = true;
  SH_nouts : nouts R = 1
}.
Lemma SH_ins : forall s1 s2 rv R L, MkShape s1 s2 rv R L -> forall i, In i (ins R) <-> In i L.
Proof. intros s1 s2 rv R L [] i. split; intro H; [eapply Permutation_in; eauto | eapply Permutation_in; [symmetry|]; eauto]. Qed.

Lemma create_rw_controls : forall s mk s2 u, rewriting s = true -> create s mk false = (s2, u) -> controls s2 = controls s.
Proof. intros s mk s2 u Hrw H. unfold create in H. rewrite Hrw in H. injection H as <- _. reflexivity. Qed.

Lemma create_rw : forall s mk s2 u, rewriting s = true -> create s mk false = (s2, u) ->
  u = List.length (units s) /\ units s2 = units s ++ [mk u None (-1)%Z] /\
  children s2 = children s /\ sets s2 = sets s /\ rewriting s2 = true.
Proof.
  intros s mk s2 u Hrw H. unfold create in H. rewrite Hrw in H. injection H as <- <-. simpl. auto.
Qed.

Lemma new_bin_shape : forall s1 name a b, rewriting s1 = true ->
  (exists i, sc_spindex_opname T name = Some (i, name)) -> (name = "+" \/ name = "-") ->
  nz a = true -> nz b = true ->
  exists s2 rv R, new_bin_unit T s1 name a b = Ok (s2, rv) /\ MkShape s1 s2 rv R [a; b] /\
                  ukind R = KBin /\ opname R = name /\ ins R = [a; b].
Proof.
  intros s1 name a b Hrw [i Hi] Hn Ha Hb. unfold new_bin_unit. rewrite Hi.
  destruct (create s1 _ false) as [s2 u] eqn:Ec.
  destruct (create_rw _ _ _ _ Hrw Ec) as (Hu & HU & HC & HS & HR).
  pose proof (create_rw_controls _ _ _ _ Hrw Ec) as HCt.
  match type of HU with _ = _ ++ [?R] => exists s2, (O u 0), R end. split; [reflexivity|]. split; [|split; [|split]; reflexivity].
  constructor; simpl; auto; try congruence.
  unfold unit_ok, tracked; simpl. destruct Hn as [-> | ->]; simpl; rewrite Ha, Hb; reflexivity.
Qed.

Lemma ctor_bin_shape : forall s1 name a b, rewriting s1 = true ->
  (exists i, sc_spindex_opname T name = Some (i, name)) -> (name = "+" \/ name = "-") ->
  nz a = true -> nz b = true ->
  exists s2 rv R, ctor_bin T s1 name a b = Ok (s2, rv) /\ MkShape s1 s2 rv R [a; b] /\
                  ukind R = KBin /\ opname R = name /\ ins R = [a; b].
Proof.
  intros s1 name a b Hrw Hi Hn Ha Hb.
  destruct (new_bin_shape s1 name a b Hrw Hi Hn Ha Hb) as (s2 & rv & R & E & Sh).
  exists s2, rv, R. split; auto. unfold ctor_bin.
  destruct (negb (is_const a) && negb (is_const b)); auto.
  unfold nz in Ha, Hb. apply negb_true_iff in Ha. apply negb_true_iff in Hb.
  destruct Hn as [-> | ->]; simpl; rewrite Ha, Hb; auto.
Qed.

Lemma sort_by_In : forall {A} (key : A -> Z) l x, In x (sort_by key l) <-> In x l.
Proof.
  intros. split; intro H.
  - eapply Permutation_in; [apply sort_by_perm | exact H].
  - eapply Permutation_in; [symmetry; apply sort_by_perm | exact H].
Qed.
Lemma sort_by_length : forall {A} (key : A -> Z) l, List.length (sort_by key l) = List.length l.
Proof. intros. apply Permutation_length. apply sort_by_perm. Qed.

Lemma forallb_sort : forall (key : inp -> Z) f l, forallb f l = true -> forallb f (sort_by key l) = true.
Proof. intros key f l H. rewrite forallb_forall in *. intros x Hx. apply H. apply sort_by_In in Hx. auto. Qed.

Lemma sum3_shape : forall s1 a b c, rewriting s1 = true -> nz a = true -> nz b = true -> nz c = true ->
  exists s2 rv R, sum3_new1 T s1 a b c = Ok (s2, rv) /\ MkShape s1 s2 rv R [a; b; c] /\ ukind R = KSum3.
Proof.
  intros s1 a b c Hrw Ha Hb Hc. unfold sum3_new1.
  unfold nz in Ha, Hb, Hc. apply negb_true_iff in Ha. apply negb_true_iff in Hb. apply negb_true_iff in Hc.
  rewrite Ha, Hb, Hc.
  destruct (create s1 _ false) as [s2 u] eqn:Ec.
  destruct (create_rw _ _ _ _ Hrw Ec) as (Hu & HU & HC & HS & HR).
  pose proof (create_rw_controls _ _ _ _ Hrw Ec) as HCt.
  match type of HU with _ = _ ++ [?R] => exists s2, (O u 0), R end. split; [reflexivity|]. split; [|reflexivity].
  constructor; simpl; auto; try congruence.
  - unfold unit_ok, tracked; simpl. rewrite sort_by_length. simpl.
    rewrite forallb_sort; auto. simpl. unfold nz. rewrite Ha, Hb, Hc. reflexivity.
  - apply sort_by_perm.
Qed.

Lemma sum4_shape : forall s1 a b c d, rewriting s1 = true -> nz a = true -> nz b = true -> nz c = true -> nz d = true ->
  exists s2 rv R, sum4_new1 T s1 a b c d = Ok (s2, rv) /\ MkShape s1 s2 rv R [a; b; c; d] /\ ukind R = KSum4.
Proof.
  intros s1 a b c d Hrw Ha Hb Hc Hd. unfold sum4_new1.
  unfold nz in Ha, Hb, Hc, Hd. apply negb_true_iff in Ha. apply negb_true_iff in Hb. apply negb_true_iff in Hc.
  apply negb_true_iff in Hd. rewrite Ha, Hb, Hc, Hd.
  destruct (create s1 _ false) as [s2 u] eqn:Ec.
  destruct (create_rw _ _ _ _ Hrw Ec) as (Hu & HU & HC & HS & HR).
  pose proof (create_rw_controls _ _ _ _ Hrw Ec) as HCt.
  match type of HU with _ = _ ++ [?R] => exists s2, (O u 0), R end. split; [reflexivity|]. split; [|reflexivity].
  constructor; simpl; auto; try congruence.
  - unfold unit_ok, tracked; simpl. rewrite sort_by_length. reflexivity.
  - apply sort_by_perm.
Qed.

Lemma muladd_shape : forall s1 i m a, rewriting s1 = true ->
  kis m 0 = false -> kis m 1 = false -> kis m (-1) = false -> kis a 0 = false ->
  can_be_muladd s1 i m a = true ->
  exists s2 rv R, ctor_muladd T s1 i m a = Ok (s2, rv) /\ MkShape s1 s2 rv R [i; m; a] /\ ukind R = KMulAdd /\ ins R = [i; m; a].
Proof.
  intros s1 i m a Hrw H0 H1 Hm1 Ha Hcan. unfold ctor_muladd. rewrite H0, H1, Hm1, Ha. simpl. rewrite Hcan.
  destruct (create s1 _ false) as [s2 u] eqn:Ec.
  destruct (create_rw _ _ _ _ Hrw Ec) as (Hu & HU & HC & HS & HR).
  pose proof (create_rw_controls _ _ _ _ Hrw Ec) as HCt.
  match type of HU with _ = _ ++ [?R] => exists s2, (O u 0), R end. split; [reflexivity|]. split; [|split; reflexivity].
  constructor; simpl; auto; try congruence.
Qed.
End Shapes.

(* ================================================================== Part F: the rewrite as a step *)
Lemma kbin_shape : forall U, unit_ok U = true -> ukind U = KBin ->
  exists x y, ins U = [x; y] /\ tracked U = true /\ pure U = true /\
    ((opname U = "+" \/ opname U = "-") -> nz x = true /\ nz y = true) /\
    (opname U = "*" -> kis x 0 = false /\ kis y 0 = false /\ kis x 1 = false /\ kis x (-1) = false /\
                       kis y 1 = false /\ kis y (-1) = false).
Proof.
  intros U H Hk. unfold unit_ok in H. rewrite Hk in H. apply andb_true_iff in H. destruct H as [_ H].
  apply andb_true_iff in H. destruct H as [H H3]. apply andb_true_iff in H. destruct H as [H1 H2].
  destruct (ins U) as [|x [|y [|z t]]]; try discriminate. exists x, y. split; auto. split; auto. split; auto. split.
  - intros [E|E]; rewrite E in H3; simpl in H3; apply andb_true_iff in H3; exact H3.
  - intro E. rewrite E in H3. simpl in H3. unfold nz in H3.
    repeat (apply andb_true_iff in H3; destruct H3 as [H3 ?]).
    repeat match goal with Hx : negb _ = true |- _ => apply negb_true_iff in Hx end. repeat split; assumption.
Qed.
Lemma kun_shape : forall U, unit_ok U = true -> ukind U = KUn ->
  exists v ch, ins U = [O v ch] /\ tracked U = true /\ pure U = true.
Proof.
  intros U H Hk. unfold unit_ok in H. rewrite Hk in H. apply andb_true_iff in H. destruct H as [_ H].
  apply andb_true_iff in H. destruct H as [H H3]. apply andb_true_iff in H. destruct H as [H1 H2].
  destruct (ins U) as [|[q|v ch] [|y t]]; try discriminate. exists v, ch. auto.
Qed.
Lemma ksum3_shape : forall U, unit_ok U = true -> ukind U = KSum3 ->
  exists x y z, ins U = [x; y; z] /\ tracked U = true /\ nz x = true /\ nz y = true /\ nz z = true.
Proof.
  intros U H Hk. unfold unit_ok in H. rewrite Hk in H. apply andb_true_iff in H. destruct H as [_ H].
  repeat (apply andb_true_iff in H; destruct H as [H ?]).
  destruct (ins U) as [|x [|y [|z [|w t]]]]; try discriminate. exists x, y, z.
  simpl in H1. repeat (apply andb_true_iff in H1; destruct H1 as [? H1]).
  split; auto. split; [unfold tracked; rewrite H, H5, H4; reflexivity|]. auto.
Qed.

Lemma sole_some : forall s v k op UA, sole s v k op = Ok (Some UA) ->
  exists a ch l, v = O a ch /\ get_unit s a = Some UA /\ multi UA = false /\ ukind UA = k /\ opname UA = op /\
                 dref UA <> None /\ dsetf s UA = l /\ List.length l = 1.
Proof.
  intros s v k op UA H. unfold sole, direct_is in H. destruct v as [q|a ch]; [discriminate|].
  destruct (get_unit s a) as [U|] eqn:G; [|discriminate].
  destruct (negb (multi U) && kind_eqb (ukind U) k && String.eqb (opname U) op) eqn:E; [|discriminate].
  unfold one_desc, desc_of in H. destruct (dref U) as [r|] eqn:Dr; [|discriminate]. simpl in H.
  destruct (Nat.eqb (List.length (get_set s r)) 1) eqn:El; [|discriminate]. injection H as <-.
  apply andb_true_iff in E. destruct E as [E E3]. apply andb_true_iff in E. destruct E as [E1 E2].
  exists a, ch, (get_set s r). split; auto. split; auto. split; [destruct (multi U); auto; discriminate|].
  split; [destruct (ukind U), k; auto; discriminate|]. split; [apply String.eqb_eq; auto|].
  split; [congruence|]. split; [unfold dsetf; rewrite Dr; auto | apply Nat.eqb_eq; auto].
Qed.
Lemma sole_total : forall s v k op, (forall a ch U, v = O a ch -> get_unit s a = Some U -> dref U <> None) ->
  exists o, sole s v k op = Ok o.
Proof.
  intros s v k op H. unfold sole, direct_is. destruct v as [q|a ch]; [eauto|].
  destruct (get_unit s a) as [U|] eqn:G; [|eauto].
  destruct (negb (multi U) && kind_eqb (ukind U) k && String.eqb (opname U) op); [|eauto].
  unfold one_desc, desc_of. destruct (dref U) as [r|] eqn:Dr.
  - simpl. destruct (Nat.eqb _ 1); eauto.
  - exfalso. eapply H; eauto.
Qed.
(* `sole` that returns None leaves no trace: handy for sequencing *)

Section Step.
Variable T : optabs.
Hypothesis Hplus : exists i, sc_spindex_opname T "+" = Some (i, "+").
Hypothesis Hminus : exists i, sc_spindex_opname T "-" = Some (i, "-").

(* which rewrite happened, with what it needs to be interpreted (C01_sem.v) *)
Inductive RCase (Self UA R : unit) : Prop :=
| RC_sum3 a0 a1 va o ch : va = O (uid UA) ch -> opname Self = "+" -> ukind UA = KBin -> opname UA = "+" -> ins UA = [a0; a1] ->
    (ins Self = [va; o] \/ ins Self = [o; va]) -> ukind R = KSum3 -> Permutation (ins R) [a0; a1; o] -> RCase Self UA R
| RC_sum3_same a0 a1 va ch : va = O (uid UA) ch -> opname Self = "+" -> ukind UA = KBin -> opname UA = "+" -> ins UA = [a0; a1] ->
    ins Self = [va; va] -> ukind R = KSum4 -> Permutation (ins R) [a0; a0; a1; a1] -> RCase Self UA R
| RC_sum4 a0 a1 a2 va o ch : va = O (uid UA) ch -> opname Self = "+" -> ukind UA = KSum3 -> ins UA = [a0; a1; a2] ->
    (ins Self = [va; o] \/ ins Self = [o; va]) -> ukind R = KSum4 -> Permutation (ins R) [a0; a1; a2; o] -> RCase Self UA R
| RC_muladd x0 x1 va o ch : va = O (uid UA) ch -> opname Self = "+" -> ukind UA = KBin -> opname UA = "*" -> ins UA = [x0; x1] ->
    (ins Self = [va; o] \/ ins Self = [o; va]) -> ukind R = KMulAdd ->
    (ins R = [x0; x1; o] \/ ins R = [x1; x0; o]) -> RCase Self UA R
| RC_addneg_b b0 va o ch : va = O (uid UA) ch -> opname Self = "+" -> ukind UA = KUn -> opname UA = "neg" -> ins UA = [b0] ->
    ins Self = [o; va] -> ukind R = KBin -> opname R = "-" -> ins R = [o; b0] -> RCase Self UA R
| RC_addneg_a a0 va o ch : va = O (uid UA) ch -> opname Self = "+" -> ukind UA = KUn -> opname UA = "neg" -> ins UA = [a0] ->
    ins Self = [va; o] -> ukind R = KBin -> opname R = "-" -> ins R = [o; a0] -> RCase Self UA R
| RC_sub b0 va o ch : va = O (uid UA) ch -> opname Self = "-" -> ukind UA = KUn -> opname UA = "neg" -> ins UA = [b0] ->
    ins Self = [o; va] -> ukind R = KBin -> opname R = "+" -> ins R = [o; b0] -> RCase Self UA R.

Inductive RwStep (s : st) (D : list nat) (self : nat) (Self : unit) (s' : st) : Prop :=
| mkRwStep (a : nat) (UA R : unit) :
    get_unit s a = Some UA -> liv s a -> ~ In a D -> tracked UA = true ->
    (exists ch, In (O a ch) (ins Self)) ->
    (forall c, In c (dsetf s UA) -> c = self) ->
    uid R = List.length (units s) -> tracked R = true -> unit_ok R = true ->
    (forall v ch, In (O v ch) (ins R) -> In (O v ch) (ins UA) \/ (In (O v ch) (ins Self) /\ v <> a)) ->
    (forall v ch, In (O v ch) (ins UA) -> In (O v ch) (ins R)) ->
    (forall v ch, In (O v ch) (ins Self) -> v <> a -> In (O v ch) (ins R)) ->
    RwViews s self a (List.length (units s)) Self UA R s' ->
    RCase Self UA R ->
    arith_cls (cls R) = true -> nouts R = 1 -> controls s' = controls s ->
    RwStep s D self Self s'.

Lemma RwStep_inv : forall s D self Self s', Inv s D -> get_unit s self = Some Self -> liv s self -> ~ In self D ->
  tracked Self = true -> RwStep s D self Self s' -> Inv s' D.
Proof.
  intros s D self Self s' HI HS Ls Ns TS [a UA R]. intros.
  eapply (rewrite_inv s D self a Self UA R s'); eauto.
Qed.

Lemma tracked_of_kind : forall U, unit_ok U = true -> (ukind U = KBin \/ ukind U = KUn \/ ukind U = KSum3) ->
  tracked U = true.
Proof.
  intros U H [E|[E|E]].
  - destruct (kbin_shape U H E) as (x & y & _ & A & _); auto.
  - destruct (kun_shape U H E) as (v & ch & _ & A & _); auto.
  - destruct (ksum3_shape U H E) as (x & y & z & _ & A & _); auto.
Qed.

Lemma absorb_case : forall s D self Self va k op UA mk L,
  Inv s D -> get_unit s self = Some Self -> liv s self -> ~ In self D -> ukind Self = KBin ->
  In va (ins Self) -> sole s va k op = Ok (Some UA) -> (k = KBin \/ k = KUn \/ k = KSum3) ->
  (exists s2 rv R, mk (remove_ugen s (uid UA)) = Ok (s2, rv) /\
                   MkShape (remove_ugen s (uid UA)) s2 rv R L /\ RCase Self UA R) ->
  (forall v ch, In (O v ch) L -> In (O v ch) (ins UA) \/ (In (O v ch) (ins Self) /\ v <> uid UA)) ->
  (forall v ch, In (O v ch) (ins UA) -> In (O v ch) L) ->
  (forall v ch, In (O v ch) (ins Self) -> v <> uid UA -> In (O v ch) L) ->
  exists s3 s', absorb s Self UA mk = Ok (s3, Some (List.length (units s))) /\
     replace_ugen s3 self (List.length (units s)) = Ok s' /\ RwStep s D self Self s' /\ Inv s' D.
Proof.
  intros s D self Self va k op UA mk L HI HS Ls Ns KS Hva Hsole Hk (s2 & rv & R & Hmk & Sh & RC) L1 L2 L3.
  destruct (sole_some s va k op UA Hsole) as (a & ch & l & Eva & HA & MA & KA & OA & DA & Hl & Hlen).
  assert (Hua : uid UA = a) by (apply (I_uid s D HI); auto). subst a. set (a := uid UA) in *.
  pose proof (I_ok s D HI a UA HA) as OkA. pose proof (I_ok s D HI self Self HS) as OkS.
  assert (TA : tracked UA = true) by (apply tracked_of_kind; auto; rewrite KA; auto).
  assert (TS : tracked Self = true) by (apply tracked_of_kind; auto).
  assert (Hra : exists ch0, In (O a ch0) (ins Self)) by (exists ch; rewrite <- Eva; auto).
  assert (La : liv s a) by (destruct Hra as [c0 H0]; eapply (I_inlive s D HI self Self); eauto).
  assert (Na : ~ In a D).
  { intro Hin. destruct (I_dying s D HI a Hin) as (_ & _ & NR). apply (NR self Ls Ns).
    destruct Hra as [c0 H0]. exists Self, c0. auto. }
  assert (Hone : forall c, In c (dsetf s UA) -> c = self).
  { intros c Hc. rewrite Hl in *. destruct l as [|x [|y t]]; simpl in Hlen; try lia.
    assert (In self [x]).
    { rewrite <- Hl. apply (I_lower s D HI a UA self); auto.
      - apply tracked_flags in TA; tauto.
      - destruct Hra as [c0 H0]. exists Self, c0. auto. }
    simpl in H, Hc. intuition congruence. }
  destruct (remove_ugen_eq s D a UA HI La HA) as [Hs1 _].
  assert (Hu1 : units (remove_ugen s a) = units s) by (rewrite Hs1; reflexivity).
  pose proof (SH_ins _ _ _ _ _ Sh) as SH_ins0. destruct Sh. rewrite Hu1 in SH_uid0.
  assert (In1 : forall v c0, In (O v c0) (ins R) -> In (O v c0) (ins UA) \/ (In (O v c0) (ins Self) /\ v <> a)).
  { intros v c0 H. apply L1. apply SH_ins0. auto. }
  assert (In2 : forall v c0, In (O v c0) (ins UA) -> In (O v c0) (ins R)) by (intros; apply SH_ins0; auto).
  assert (In3 : forall v c0, In (O v c0) (ins Self) -> v <> a -> In (O v c0) (ins R)) by (intros; apply SH_ins0; auto).
  assert (Hne : a <> self) by (eapply (rw_ne s D self a Self UA R); eauto).
  assert (Hnoself : forall c0, ~ In (O self c0) (ins R)) by (eapply (rw_noself s D self a Self UA R); eauto).
  assert (MK : MkSpec (remove_ugen s a) s2 rv Self UA R).
  { constructor; try assumption; rewrite ?Hu1; auto. }
  destruct (absorb_replace_views s D self Self UA mk s2 rv R HI HS Ls Ns HA La Na Hne Hmk MK Hnoself) as (s3 & s' & A1 & A2 & RV).
  exists s3, s'. split; auto. split; auto.
  assert (Hctl : controls s' = controls s).
  { rewrite (controls_replace_ugen _ _ _ _ A2). apply (controls_absorb s Self UA mk s3 _ A1).
    intros s2' rv' E'. fold a in E'. rewrite Hmk in E'. injection E' as <- _. exact SH_controls0. }
  assert (RS : RwStep s D self Self s') by (apply (mkRwStep s D self Self s' a UA R); auto).
  split; auto. exact (RwStep_inv s D self Self s' HI HS Ls Ns TS RS).
Qed.
End Step.

(* ---- small facts used by the case analysis *)
Lemma set_child_units : forall s i v, units (set_child s i v) = units s /\ rewriting (set_child s i v) = rewriting s /\
                                      sets (set_child s i v) = sets s.
Proof. intros. unfold set_child. destruct (_ || _); simpl; auto. Qed.
Lemma remove_ugen_units : forall s u, units (remove_ugen s u) = units s /\ rewriting (remove_ugen s u) = rewriting s.
Proof. intros. unfold remove_ugen. destruct (get_unit s u); auto. destruct (set_child_units s (sidx u0) None) as (A & B & _). auto. Qed.
Lemma vrate_units : forall s s' v, units s' = units s -> vrate s' v = vrate s v.
Proof. intros s s' [q|u ch] H; simpl; auto. unfold get_unit. rewrite H. auto. Qed.
Lemma can_be_muladd_units : forall s s' i m a, units s' = units s -> can_be_muladd s' i m a = can_be_muladd s i m a.
Proof. intros. unfold can_be_muladd. rewrite !(vrate_units s s'); auto. Qed.

Lemma inp_eqb_refl_O : forall a c, inp_eqb (O a c) (O a c) = true.
Proof. intros. simpl. rewrite !Nat.eqb_refl. auto. Qed.
Lemma inp_eqb_true : forall x y, inp_eqb x y = true -> x = y.
Proof.
  intros [q|u c] [q'|v d] H; simpl in H; try discriminate.
  apply andb_true_iff in H. destruct H as [A B]. apply Nat.eqb_eq in A. apply Nat.eqb_eq in B. subst; auto.
Qed.

Section Cases.
Variable T : optabs.
Hypothesis Hplus : exists i, sc_spindex_opname T "+" = Some (i, "+").
Hypothesis Hminus : exists i, sc_spindex_opname T "-" = Some (i, "-").
Variables (s : st) (D : list nat) (self : nat) (Self : unit).
Hypothesis HI : Inv s D.
Hypothesis HS : get_unit s self = Some Self.
Hypothesis Ls : liv s self.
Hypothesis Ns : ~ In self D.
Hypothesis KS : ukind Self = KBin.
Let n := List.length (units s).

Lemma sole_total_in : forall v k op, In v (ins Self) -> exists o, sole s v k op = Ok o.
Proof.
  intros v k op Hin. apply sole_total. intros a ch U -> G.
  assert (L : liv s a) by (eapply (I_inlive s D HI self Self); eauto).
  destruct (liv_get s D a HI L) as (U' & r & G' & Dr). rewrite G in G'. injection G' as <-. congruence.
Qed.

(* the other operand does not refer to the absorbed unit unless it is the same reference *)
Lemma other_ne : forall x y a ch UA, In x (ins Self) -> In y (ins Self) -> x = O a ch -> get_unit s a = Some UA ->
  multi UA = false -> inp_eqb x y = false -> forall c, y <> O a c.
Proof.
  intros x y a ch UA Hx Hy -> G M E c ->.
  assert (ch = 0) by (eapply (I_ch s D HI self Self a ch UA); eauto).
  assert (c = 0) by (eapply (I_ch s D HI self Self a c UA); eauto).
  subst. rewrite inp_eqb_refl_O in E. discriminate.
Qed.

Definition Result (o : res (st * option nat)) : Prop :=
  o = Ok (s, None) \/
  exists s3 s', o = Ok (s3, Some n) /\ replace_ugen s3 self n = Ok s' /\ RwStep s D self Self s' /\ Inv s' D.

(* one operand `va` is absorbed, `o` is the other operand of self *)
Lemma absorb_bin : forall va o k op UA mk L,
  (ins Self = [va; o] \/ ins Self = [o; va]) ->
  sole s va k op = Ok (Some UA) -> (k = KBin \/ k = KUn \/ k = KSum3) ->
  (((forall c, o <> O (uid UA) c) /\ (forall i, In i L <-> In i (ins UA) \/ i = o)) \/
   (o = va /\ forall i, In i L <-> In i (ins UA))) ->
  (exists s2 rv R, mk (remove_ugen s (uid UA)) = Ok (s2, rv) /\
                   MkShape (remove_ugen s (uid UA)) s2 rv R L /\ RCase Self UA R) ->
  Result (absorb s Self UA mk).
Proof.
  intros va o k op UA mk L Hins Hsole Hk HL Hmk. right.
  destruct (sole_some s va k op UA Hsole) as (a & ch & l & Eva & HA & MA & _).
  assert (Hua : uid UA = a) by (apply (I_uid s D HI); auto).
  assert (Hva : In va (ins Self)) by (destruct Hins as [-> | ->]; simpl; auto).
  assert (Hall : forall i, In i (ins Self) -> i = va \/ i = o) by (intros i Hi; destruct Hins as [E|E]; rewrite E in Hi; simpl in Hi; intuition).
  assert (Ho : In o (ins Self)) by (destruct Hins as [-> | ->]; simpl; auto).
  destruct (absorb_case s D self Self va k op UA mk L HI HS Ls Ns KS Hva Hsole Hk Hmk) as (s3 & s' & A & B & C & E).
  - intros v c Hin. destruct HL as [[Hne HL]|[Heq HL]]; apply HL in Hin.
    + destruct Hin as [Hin|Hin]; auto. right. split; [rewrite Hin; auto|]. intro Ev. apply (Hne c). rewrite <- Ev. auto.
    + auto.
  - intros v c Hin. destruct HL as [[Hne HL]|[Heq HL]]; apply HL; auto.
  - intros v c Hin Hv. destruct HL as [[Hne HL]|[Heq HL]]; apply HL.
    + destruct (Hall _ Hin) as [E|E]; auto. exfalso. rewrite Eva in E. injection E as E1 E2. apply Hv. congruence.
    + exfalso. destruct (Hall _ Hin) as [E|E]; rewrite ?Heq in E; rewrite Eva in E; injection E as E1 E2; apply Hv; congruence.
  - exists s3, s'. auto.
Qed.

Lemma nth_in_2 : forall U x y, ins U = [x; y] -> nth_in U 0 = x /\ nth_in U 1 = y.
Proof. intros U x y H. unfold nth_in. rewrite H. auto. Qed.
Lemma nth_in_3 : forall U x y z, ins U = [x; y; z] -> nth_in U 0 = x /\ nth_in U 1 = y /\ nth_in U 2 = z.
Proof. intros U x y z H. unfold nth_in. rewrite H. auto. Qed.
Lemma nth_in_1 : forall U x, ins U = [x] -> nth_in U 0 = x.
Proof. intros U x H. unfold nth_in. rewrite H. auto. Qed.

Lemma rm_rw : forall u, rewriting (remove_ugen s u) = true.
Proof. intro u. destruct (remove_ugen_units s u) as [_ ->]. apply (I_rw s D HI). Qed.

(* two operands referring to the same single-output unit are the same reference *)
Lemma same_unit_same_ref : forall x y a c1 c2 UA, In x (ins Self) -> In y (ins Self) ->
  x = O a c1 -> y = O a c2 -> get_unit s a = Some UA -> multi UA = false -> x = y.
Proof.
  intros x y a c1 c2 UA Hx Hy -> -> G M.
  assert (c1 = 0) by (eapply (I_ch s D HI self Self a c1 UA); eauto).
  assert (c2 = 0) by (eapply (I_ch s D HI self Self a c2 UA); eauto). subst; auto.
Qed.

(* when the first operand was not absorbable but the second is, the first does not refer to the second's unit *)
Lemma first_ne : forall x y k op UB, In x (ins Self) -> In y (ins Self) ->
  sole s x k op = Ok None -> sole s y k op = Ok (Some UB) -> forall c, x <> O (uid UB) c.
Proof.
  intros x y k op UB Hx Hy S1 S2 c E.
  destruct (sole_some s y k op UB S2) as (b & ch & l & Ey & HB & MB & _).
  assert (Hub : uid UB = b) by (apply (I_uid s D HI); auto). rewrite Hub in E.
  assert (x = y) by (eapply same_unit_same_ref; eauto). subst y. congruence.
Qed.

Lemma sum3_stage : opname Self = "+" -> Result (opt_sum3 T s Self).
Proof.
  intro OP. pose proof (I_ok s D HI self Self HS) as OkS.
  destruct (kbin_shape Self OkS KS) as (x & y & Hins & TS & PS & NZ & _).
  destruct (NZ (or_introl OP)) as [Nx Ny]. destruct (nth_in_2 Self x y Hins) as [E0 E1].
  assert (Hx : In x (ins Self)) by (rewrite Hins; simpl; auto).
  assert (Hy : In y (ins Self)) by (rewrite Hins; simpl; auto).
  unfold opt_sum3. rewrite E0, E1.
  destruct (rate_eqb (vrate s x) Demand || rate_eqb (vrate s y) Demand); [left; reflexivity|].
  destruct (sole_total_in x KBin "+" Hx) as [o1 S1]. rewrite S1. cbn [bind].
  destruct o1 as [UA|].
  - destruct (sole_some s x KBin "+" UA S1) as (a & ch & l & Ex & HA & MA & KA & OA & _).
    pose proof (I_ok s D HI a UA HA) as OkA.
    destruct (kbin_shape UA OkA KA) as (a0 & a1 & HinsA & TA & PA & NZA & _).
    destruct (NZA (or_introl OA)) as [Na0 Na1]. destruct (nth_in_2 UA a0 a1 HinsA) as [EA0 EA1].
    assert (Hua : uid UA = a) by (apply (I_uid s D HI); auto).
    rewrite EA0, EA1.
    destruct (inp_eqb x y) eqn:Exy.
    + apply inp_eqb_true in Exy. rewrite <- Exy in *. clear Exy.
      eapply (absorb_bin x x KBin "+" UA _ [a0; a0; a1; a1]); eauto.
      * right. split; auto. intro i. rewrite HinsA. simpl. tauto.
      * cbn beta. destruct (sum4_shape T (remove_ugen s (uid UA)) a0 a0 a1 a1 (rm_rw _) Na0 Na0 Na1 Na1) as (s2 & rv & R & A & B & C).
        exists s2, rv, R. split; auto. split; auto.
        eapply (RC_sum3_same Self UA R a0 a1 x ch); eauto; try (rewrite Hua; exact Ex). destruct B; auto.
    + eapply (absorb_bin x y KBin "+" UA _ [a0; a1; y]); eauto.
      * left. split.
        -- rewrite Hua. exact (other_ne x y a ch UA Hx Hy Ex HA MA Exy).
        -- intro i. rewrite HinsA. simpl. intuition.
      * cbn beta. destruct (sum3_shape T (remove_ugen s (uid UA)) a0 a1 y (rm_rw _) Na0 Na1 Ny) as (s2 & rv & R & A & B & C).
        exists s2, rv, R. split; auto. split; auto.
        eapply (RC_sum3 Self UA R a0 a1 x y ch); eauto; try (rewrite Hua; exact Ex). destruct B; auto.
  - destruct (sole_total_in y KBin "+" Hy) as [o2 S2]. rewrite S2. cbn [bind].
    destruct o2 as [UB|]; [|left; reflexivity].
    destruct (sole_some s y KBin "+" UB S2) as (b & ch & l & Ey & HB & MB & KB & OB & _).
    pose proof (I_ok s D HI b UB HB) as OkB.
    destruct (kbin_shape UB OkB KB) as (b0 & b1 & HinsB & TB & PB & NZB & _).
    destruct (NZB (or_introl OB)) as [Nb0 Nb1]. destruct (nth_in_2 UB b0 b1 HinsB) as [EB0 EB1].
    rewrite EB0, EB1.
    eapply (absorb_bin y x KBin "+" UB _ [b0; b1; x]); eauto.
    + left. split.
      * exact (first_ne x y KBin "+" UB Hx Hy S1 S2).
      * intro i. rewrite HinsB. simpl. intuition.
    + cbn beta. destruct (sum3_shape T (remove_ugen s (uid UB)) b0 b1 x (rm_rw _) Nb0 Nb1 Nx) as (s2 & rv & R & A & B & C).
      exists s2, rv, R. split; auto. split; auto.
      eapply (RC_sum3 Self UB R b0 b1 y x ch); eauto; try (rewrite (I_uid s D HI b UB HB); exact Ey). destruct B; auto.
Qed.

Lemma inp_eqb_sym : forall x y, inp_eqb x y = inp_eqb y x.
Proof. intros [q|u c] [q'|v d]; simpl; auto. rewrite (Nat.eqb_sym u v), (Nat.eqb_sym c d). auto. Qed.

Lemma sum4_stage : opname Self = "+" -> Result (opt_sum4 T s Self).
Proof.
  intro OP. pose proof (I_ok s D HI self Self HS) as OkS.
  destruct (kbin_shape Self OkS KS) as (x & y & Hins & TS & PS & NZ & _).
  destruct (NZ (or_introl OP)) as [Nx Ny]. destruct (nth_in_2 Self x y Hins) as [E0 E1].
  assert (Hx : In x (ins Self)) by (rewrite Hins; simpl; auto).
  assert (Hy : In y (ins Self)) by (rewrite Hins; simpl; auto).
  unfold opt_sum4. rewrite E0, E1.
  destruct (inp_eqb x y) eqn:Exy; [left; reflexivity|].
  destruct (rate_eqb (vrate s x) Demand || rate_eqb (vrate s y) Demand); [left; reflexivity|].
  destruct (sole_total_in x KSum3 "" Hx) as [o1 S1]. rewrite S1. cbn [bind].
  destruct o1 as [UA|].
  - destruct (sole_some s x KSum3 "" UA S1) as (a & ch & l & Ex & HA & MA & KA & OA & _).
    pose proof (I_ok s D HI a UA HA) as OkA.
    destruct (ksum3_shape UA OkA KA) as (a0 & a1 & a2 & HinsA & TA & Na0 & Na1 & Na2).
    destruct (nth_in_3 UA a0 a1 a2 HinsA) as (EA0 & EA1 & EA2).
    assert (Hua : uid UA = a) by (apply (I_uid s D HI); auto).
    rewrite EA0, EA1, EA2.
    eapply (absorb_bin x y KSum3 "" UA _ [a0; a1; a2; y]); eauto.
    + left. split.
      * rewrite Hua. exact (other_ne x y a ch UA Hx Hy Ex HA MA Exy).
      * intro i. rewrite HinsA. simpl. intuition.
    + cbn beta. destruct (sum4_shape T (remove_ugen s (uid UA)) a0 a1 a2 y (rm_rw _) Na0 Na1 Na2 Ny) as (s2 & rv & R & A & B & C).
      exists s2, rv, R. split; auto. split; auto.
      eapply (RC_sum4 Self UA R a0 a1 a2 x y ch); eauto; try (rewrite Hua; exact Ex). destruct B; auto.
  - destruct (sole_total_in y KSum3 "" Hy) as [o2 S2]. rewrite S2. cbn [bind].
    destruct o2 as [UB|]; [|left; reflexivity].
    destruct (sole_some s y KSum3 "" UB S2) as (b & ch & l & Ey & HB & MB & KB & OB & _).
    pose proof (I_ok s D HI b UB HB) as OkB.
    destruct (ksum3_shape UB OkB KB) as (b0 & b1 & b2 & HinsB & TB & Nb0 & Nb1 & Nb2).
    destruct (nth_in_3 UB b0 b1 b2 HinsB) as (EB0 & EB1 & EB2).
    rewrite EB0, EB1, EB2.
    eapply (absorb_bin y x KSum3 "" UB _ [b0; b1; b2; x]); eauto.
    + left. split.
      * exact (first_ne x y KSum3 "" UB Hx Hy S1 S2).
      * intro i. rewrite HinsB. simpl. intuition.
    + cbn beta. destruct (sum4_shape T (remove_ugen s (uid UB)) b0 b1 b2 x (rm_rw _) Nb0 Nb1 Nb2 Nx) as (s2 & rv & R & A & B & C).
      exists s2, rv, R. split; auto. split; auto.
      eapply (RC_sum4 Self UB R b0 b1 b2 y x ch); eauto; try (rewrite (I_uid s D HI b UB HB); exact Ey). destruct B; auto.
Qed.

(* one side of _optimize_to_muladd *)
Lemma muladd_side_stage : forall x y, opname Self = "+" -> (ins Self = [x; y] \/ ins Self = [y; x]) ->
  nz y = true -> inp_eqb x y = false -> Result (muladd_side T s Self x y).
Proof.
  intros x y OP Hins Ny Exy.
  assert (Hx : In x (ins Self)) by (destruct Hins as [-> | ->]; simpl; auto).
  assert (Hy : In y (ins Self)) by (destruct Hins as [-> | ->]; simpl; auto).
  unfold muladd_side.
  destruct (sole_total_in x KBin "*" Hx) as [o1 S1]. rewrite S1. cbn [bind].
  destruct o1 as [UX|]; [|left; reflexivity].
  destruct (sole_some s x KBin "*" UX S1) as (a & ch & l & Ex & HA & MA & KA & OA & _).
  pose proof (I_ok s D HI a UX HA) as OkA.
  destruct (kbin_shape UX OkA KA) as (x0 & x1 & HinsA & TA & PA & _ & KZ).
  destruct (KZ OA) as (Z0 & Z1 & Z2 & Z3 & Z4 & Z5). destruct (nth_in_2 UX x0 x1 HinsA) as [EA0 EA1].
  assert (Hua : uid UX = a) by (apply (I_uid s D HI); auto).
  assert (Ky : kis y 0 = false) by (unfold nz in Ny; apply negb_true_iff in Ny; auto).
  rewrite EA0, EA1.
  assert (Hother : forall c, y <> O (uid UX) c) by (rewrite Hua; exact (other_ne x y a ch UX Hx Hy Ex HA MA Exy)).
  destruct (remove_ugen_units s (uid UX)) as [HU _].
  destruct (can_be_muladd s x0 x1 y) eqn:C1.
  - eapply (absorb_bin x y KBin "*" UX _ [x0; x1; y]); eauto.
    + left. split; auto. intro i. rewrite HinsA. simpl. intuition.
    + cbn beta.
      destruct (muladd_shape T (remove_ugen s (uid UX)) x0 x1 y (rm_rw _) Z1 Z4 Z5 Ky) as (s2 & rv & R & A & B & C & E).
      { rewrite (can_be_muladd_units s); auto. }
      exists s2, rv, R. split; auto. split; auto.
      eapply (RC_muladd Self UX R x0 x1 x y ch); eauto; try (rewrite Hua; exact Ex).
  - destruct (can_be_muladd s x1 x0 y) eqn:C2; [|left; reflexivity].
    eapply (absorb_bin x y KBin "*" UX _ [x1; x0; y]); eauto.
    + left. split; auto. intro i. rewrite HinsA. simpl. intuition.
    + cbn beta.
      destruct (muladd_shape T (remove_ugen s (uid UX)) x1 x0 y (rm_rw _) Z0 Z2 Z3 Ky) as (s2 & rv & R & A & B & C & E).
      { rewrite (can_be_muladd_units s); auto. }
      exists s2, rv, R. split; auto. split; auto.
      eapply (RC_muladd Self UX R x0 x1 x y ch); eauto; try (rewrite Hua; exact Ex).
Qed.

Lemma muladd_stage : opname Self = "+" -> Result (opt_muladd T s Self).
Proof.
  intro OP. pose proof (I_ok s D HI self Self HS) as OkS.
  destruct (kbin_shape Self OkS KS) as (x & y & Hins & TS & PS & NZ & _).
  destruct (NZ (or_introl OP)) as [Nx Ny]. destruct (nth_in_2 Self x y Hins) as [E0 E1].
  unfold opt_muladd. rewrite E0, E1.
  destruct (inp_eqb x y) eqn:Exy; [left; reflexivity|].
  destruct (muladd_side_stage x y OP (or_introl Hins) Ny Exy) as [E|(s3 & s' & E & Rest)]; rewrite E; cbn [bind].
  - apply muladd_side_stage; auto. rewrite inp_eqb_sym. auto.
  - right. exists s3, s'. auto.
Qed.

Lemma addneg_stage : opname Self = "+" -> Result (opt_addneg T s Self).
Proof.
  intro OP. pose proof (I_ok s D HI self Self HS) as OkS.
  destruct (kbin_shape Self OkS KS) as (x & y & Hins & TS & PS & NZ & _).
  destruct (NZ (or_introl OP)) as [Nx Ny]. destruct (nth_in_2 Self x y Hins) as [E0 E1].
  assert (Hx : In x (ins Self)) by (rewrite Hins; simpl; auto).
  assert (Hy : In y (ins Self)) by (rewrite Hins; simpl; auto).
  unfold opt_addneg. rewrite E0, E1.
  destruct (inp_eqb x y) eqn:Exy; [left; reflexivity|].
  assert (Eyx : inp_eqb y x = false) by (rewrite inp_eqb_sym; auto).
  destruct (sole_total_in y KUn "neg" Hy) as [o1 S1]. rewrite S1. cbn [bind].
  destruct o1 as [UB|].
  - destruct (sole_some s y KUn "neg" UB S1) as (b & ch & l & Ey & HB & MB & KB & OB & _).
    pose proof (I_ok s D HI b UB HB) as OkB.
    destruct (kun_shape UB OkB KB) as (v & c & HinsB & TB & PB).
    pose proof (nth_in_1 UB _ HinsB) as EB0.
    assert (Hub : uid UB = b) by (apply (I_uid s D HI); auto).
    rewrite EB0.
    eapply (absorb_bin y x KUn "neg" UB _ [x; O v c]); eauto.
    + left. split.
      * rewrite Hub. exact (other_ne y x b ch UB Hy Hx Ey HB MB Eyx).
      * intro i. rewrite HinsB. simpl. intuition.
    + cbn beta.
      destruct (ctor_bin_shape T (remove_ugen s (uid UB)) "-" x (O v c) (rm_rw _) Hminus (or_intror eq_refl) Nx eq_refl)
        as (s2 & rv & R & A & B & C & E & F).
      exists s2, rv, R. split; auto. split; auto.
      eapply (RC_addneg_b Self UB R (O v c) y x ch); eauto; try (rewrite Hub; exact Ey).
  - destruct (sole_total_in x KUn "neg" Hx) as [o2 S2]. rewrite S2. cbn [bind].
    destruct o2 as [UA|]; [|left; reflexivity].
    destruct (sole_some s x KUn "neg" UA S2) as (a & ch & l & Ex & HA & MA & KA & OA & _).
    pose proof (I_ok s D HI a UA HA) as OkA.
    destruct (kun_shape UA OkA KA) as (v & c & HinsA & TA & PA).
    pose proof (nth_in_1 UA _ HinsA) as EA0.
    assert (Hua : uid UA = a) by (apply (I_uid s D HI); auto).
    rewrite EA0.
    eapply (absorb_bin x y KUn "neg" UA _ [y; O v c]); eauto.
    + left. split.
      * rewrite Hua. exact (other_ne x y a ch UA Hx Hy Ex HA MA Exy).
      * intro i. rewrite HinsA. simpl. intuition.
    + cbn beta.
      destruct (ctor_bin_shape T (remove_ugen s (uid UA)) "-" y (O v c) (rm_rw _) Hminus (or_intror eq_refl) Ny eq_refl)
        as (s2 & rv & R & A & B & C & E & F).
      exists s2, rv, R. split; auto. split; auto.
      eapply (RC_addneg_a Self UA R (O v c) x y ch); eauto; try (rewrite Hua; exact Ex).
Qed.

Definition Stepped (s' : st) : Prop := s' = s \/ (RwStep s D self Self s' /\ Inv s' D).

(* BinaryOpUGen._optimize_add on a live '+' unit: no error; either nothing changes or one rewrite step *)
Theorem opt_add_step : opname Self = "+" -> exists s', opt_add T s Self = Ok s' /\ Stepped s'.
Proof.
  intro OP. assert (HU : uid Self = self) by (apply (I_uid s D HI); auto).
  unfold opt_add.
  destruct (sum3_stage OP) as [E|(s3 & s' & E & Rp & St)]; rewrite E; cbn [bind].
  2:{ rewrite HU, Rp. exists s'. split; auto. right; auto. }
  destruct (sum4_stage OP) as [E2|(s3 & s' & E2 & Rp & St)]; rewrite E2; cbn [bind].
  2:{ rewrite HU, Rp. exists s'. split; auto. right; auto. }
  destruct (muladd_stage OP) as [E3|(s3 & s' & E3 & Rp & St)]; rewrite E3; cbn [bind].
  2:{ rewrite HU, Rp. exists s'. split; auto. right; auto. }
  destruct (addneg_stage OP) as [E4|(s3 & s' & E4 & Rp & St)]; rewrite E4; cbn [bind].
  2:{ rewrite HU, Rp. exists s'. split; auto. right; auto. }
  exists s. split; auto. left; auto.
Qed.

(* BinaryOpUGen._optimize_sub (guarded) up to _replace_ugen *)
Theorem sub_rewrite_step : opname Self = "-" ->
  sub_rewrite T true s Self = Ok None \/
  exists s' r, sub_rewrite T true s Self = Ok (Some (s', r)) /\ r = n /\ RwStep s D self Self s' /\ Inv s' D.
Proof.
  intro OP. pose proof (I_ok s D HI self Self HS) as OkS.
  assert (HU : uid Self = self) by (apply (I_uid s D HI); auto).
  destruct (kbin_shape Self OkS KS) as (x & y & Hins & TS & PS & NZ & _).
  destruct (NZ (or_intror OP)) as [Nx Ny]. destruct (nth_in_2 Self x y Hins) as [E0 E1].
  assert (Hx : In x (ins Self)) by (rewrite Hins; simpl; auto).
  assert (Hy : In y (ins Self)) by (rewrite Hins; simpl; auto).
  unfold sub_rewrite. rewrite E0, E1. cbn [andb].
  destruct (inp_eqb x y) eqn:Exy; [left; reflexivity|].
  assert (Eyx : inp_eqb y x = false) by (rewrite inp_eqb_sym; auto).
  destruct (sole_total_in y KUn "neg" Hy) as [o1 S1]. rewrite S1. cbn [bind].
  destruct o1 as [UB|]; [|left; reflexivity].
  destruct (sole_some s y KUn "neg" UB S1) as (b & ch & l & Ey & HB & MB & KB & OB & _).
  pose proof (I_ok s D HI b UB HB) as OkB.
  destruct (kun_shape UB OkB KB) as (v & c & HinsB & TB & PB).
  pose proof (nth_in_1 UB _ HinsB) as EB0.
  assert (Hub : uid UB = b) by (apply (I_uid s D HI); auto).
  rewrite EB0.
  assert (R : Result (absorb s Self UB (fun s1 => ctor_bin T s1 "+" x (O v c)))).
  { eapply (absorb_bin y x KUn "neg" UB _ [x; O v c]); eauto.
    + left. split.
      * rewrite Hub. exact (other_ne y x b ch UB Hy Hx Ey HB MB Eyx).
      * intro i. rewrite HinsB. simpl. intuition.
    + cbn beta.
      destruct (ctor_bin_shape T (remove_ugen s (uid UB)) "+" x (O v c) (rm_rw _) Hplus (or_introl eq_refl) Nx eq_refl)
        as (s2 & rv & R & A & B & C & E & F).
      exists s2, rv, R. split; auto. split; auto.
      eapply (RC_sub Self UB R (O v c) y x ch); eauto; try (rewrite Hub; exact Ey). }
  destruct R as [E|(s3 & s' & E & Rp & St & Iv)].
  - exfalso. unfold absorb in E. destruct (ctor_bin T (remove_ugen s (uid UB)) "+" x (O v c)) as [[s2 rv]|e]; cbn [bind] in E; [|discriminate].
    destruct (adopt s2 Self rv (uid UB)) as [[s3 r]|e]; cbn [bind] in E; discriminate.
  - right. rewrite E. cbn [bind]. rewrite HU, Rp. cbn [bind]. exists s', n. auto.
Qed.
End Cases.
