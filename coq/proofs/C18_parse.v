(* C18 (c) -- totality of the (repaired) bundle parser with fuel = number of bytes + 1, and
   non-termination of the parser as found on the hostile datagram of DESIGN section 6 / F4. *)
From Coq Require Import ZArith List Bool Lia.
Import ListNotations.
Require Import SC3.model.OscBundleParse.
Open Scope Z_scope.

Lemma parse_contents_S : forall strict f d tg idx,
  parse_contents strict (S f) d tg idx =
    match pyfrom d idx with
    | [] => BOk []
    | _ :: _ =>
      match get_int d idx with
      | None => BErr
      | Some (size, idx1) =>
        if strict && ((size <? 0) || (zlen d <? idx1 + size)) then BErr
        else
          let content := pyslice d idx1 (idx1 + size) in
          let this :=
            if is_bundle content then
              match get_timetag content 8 with
              | None => BErr
              | Some (tg', idx') => parse_contents strict f content tg' idx'
              end
            else if is_message content then
              match parse_message content with Some m => BOk [(tg, m)] | None => BErr end
            else BOk [] in
          match this with
          | BOk ms => match parse_contents strict f d tg (idx1 + size) with
                      | BOk rest => BOk (ms ++ rest)
                      | e => e
                      end
          | e => e
          end
      end
    end.
Proof. reflexivity. Qed.

Lemma zlen_nonneg : forall A (d : list A), 0 <= zlen d.
Proof. intros. unfold zlen. lia. Qed.

Lemma pyfrom_nonempty : forall (d : list Z) idx, 0 <= idx -> pyfrom d idx <> [] -> idx < zlen d.
Proof.
  intros d idx H0 H. unfold pyfrom, norm_idx in H.
  destruct (Z.ltb_spec idx 0); [lia|].
  destruct (Z.lt_ge_cases idx (zlen d)) as [Hlt | Hge]; [assumption|].
  exfalso. apply H. rewrite Z.min_r by lia. unfold zlen. rewrite Nat2Z.id. apply skipn_all.
Qed.

Lemma get_bytes_idx : forall n d i b j, get_bytes n d i = Some (b, j) -> j = i + n.
Proof.
  intros n d i b j H. unfold get_bytes in H.
  destruct (zlen (pyfrom d i) <? n); [discriminate|].
  destruct (zlen (pyslice d i (i + n)) =? n); inversion H; reflexivity.
Qed.
Lemma get_int_idx : forall d i v j, get_int d i = Some (v, j) -> j = i + 4.
Proof.
  intros d i v j H. unfold get_int in H. destruct (get_bytes 4 d i) as [[b k]|] eqn:E; [|discriminate].
  inversion H; subst. eapply get_bytes_idx; eassumption.
Qed.
Lemma get_timetag_idx : forall d i v j, get_timetag d i = Some (v, j) -> j = i + 8.
Proof.
  intros d i v j H. unfold get_timetag in H. destruct (get_bytes 8 d i) as [[b k]|] eqn:E; [|discriminate].
  inversion H; subst. eapply get_bytes_idx; eassumption.
Qed.

Lemma pyslice_len : forall (d : list Z) a b, 0 <= a -> a <= b -> zlen (pyslice d a b) <= b - a.
Proof.
  intros d a b Ha Hab. unfold pyslice, norm_idx.
  destruct (Z.ltb_spec a 0); [lia|]. destruct (Z.ltb_spec b 0); [lia|].
  destruct (Z.leb_spec (Z.min b (zlen d)) (Z.min a (zlen d))).
  - unfold zlen. simpl. lia.
  - unfold zlen. rewrite firstn_length. lia.
Qed.

(* the loop never runs out of fuel when it has more fuel than bytes left *)
Lemma contents_total : forall fuel d tg idx,
  0 <= idx -> (1 <= fuel)%nat -> zlen d - idx < Z.of_nat fuel ->
  parse_contents true fuel d tg idx <> BFuel.
Proof.
  induction fuel as [| f IH]; intros d tg idx Hidx Hf Hm; [lia|].
  rewrite parse_contents_S.
  destruct (pyfrom d idx) as [| x rest] eqn:Ep; [discriminate|].
  assert (Hlt : idx < zlen d) by (apply pyfrom_nonempty; [assumption | rewrite Ep; discriminate]).
  destruct (get_int d idx) as [[size idx1]|] eqn:Eg; [|discriminate].
  apply get_int_idx in Eg. subst idx1.
  simpl andb.
  destruct ((size <? 0) || (zlen d <? idx + 4 + size)) eqn:Echk; [discriminate|].
  apply orb_false_iff in Echk as [Hs Ho]. apply Z.ltb_ge in Hs, Ho.
  pose proof (pyslice_len d (idx + 4) (idx + 4 + size) ltac:(lia) ltac:(lia)) as Hlen.
  set (content := pyslice d (idx + 4) (idx + 4 + size)) in *.
  assert (Htail : parse_contents true f d tg (idx + 4 + size) <> BFuel) by (apply IH; lia).
  cbv zeta.
  destruct (is_bundle content).
  - destruct (get_timetag content 8) as [[tg' idx']|] eqn:Et; [|discriminate].
    apply get_timetag_idx in Et. subst idx'.
    assert (Hn : parse_contents true f content tg' (8 + 8) <> BFuel) by (apply IH; lia).
    destruct (parse_contents true f content tg' (8 + 8)); [|discriminate | contradiction].
    destruct (parse_contents true f d tg (idx + 4 + size)); [discriminate | discriminate | contradiction].
  - destruct (is_message content).
    + destruct (parse_message content); [|discriminate].
      destruct (parse_contents true f d tg (idx + 4 + size)); [discriminate | discriminate | contradiction].
    + destruct (parse_contents true f d tg (idx + 4 + size)); [discriminate | discriminate | contradiction].
Qed.

Lemma parse_packet_total : forall d, parse_packet d <> POutOfFuel.
Proof.
  intro d. unfold parse_packet, parse_packet_gen.
  destruct (is_bundle d).
  - unfold parse_bundle. destruct (get_timetag d 8) as [[tg idx]|] eqn:Et; [|discriminate].
    apply get_timetag_idx in Et. subst idx.
    assert (H : parse_contents true (S (length d)) d tg (8 + 8) <> BFuel).
    { apply contents_total; [lia | lia | unfold zlen; lia]. }
    destruct (parse_contents true (S (length d)) d tg (8 + 8)); [discriminate | discriminate | contradiction].
  - destruct (is_message d); [|discriminate]. destruct (parse_message d); discriminate.
Qed.

(* ---- the tree as found: an element whose size sends the index back to where it was ------------------- *)
Lemma orig_loops : forall d tg idx size x rest,
  pyfrom d idx = x :: rest ->
  get_int d idx = Some (size, idx + 4) ->
  idx + 4 + size = idx ->
  is_bundle (pyslice d (idx + 4) (idx + 4 + size)) = false ->
  is_message (pyslice d (idx + 4) (idx + 4 + size)) = false ->
  forall fuel, parse_contents false fuel d tg idx = BFuel.
Proof.
  intros d tg idx size x rest Hp Hg Hback Hb Hm fuel.
  induction fuel as [| f IH]; [reflexivity|].
  rewrite parse_contents_S, Hp, Hg. simpl andb. cbv zeta. rewrite Hb, Hm, Hback, IH. reflexivity.
Qed.

Lemma hostile_never_returns : forall fuel, parse_packet_orig fuel hostile_dgram = POutOfFuel.
Proof.
  intro fuel. unfold parse_packet_orig, parse_packet_gen.
  change (is_bundle hostile_dgram) with true. cbv iota.
  unfold parse_bundle. change (get_timetag hostile_dgram 8) with (Some (1, 16)). cbv beta iota.
  rewrite (orig_loops hostile_dgram 1 16 (-4) 255 [255; 255; 252]); reflexivity.
Qed.
