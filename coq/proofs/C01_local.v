(* C01_local.v -- facts local to one unit of every emitted graph: the class name is one of finitely many ASCII
   literals, every stored input `O v ch` has ch < nouts (unit v), a Control unit covers a part of the control
   array.  True after the graph function (C01_built.B_loc, vok), preserved by every step of the optimiser,
   by _init_topo_sort / _topological_sort / _index_ugens, hence true of the emitted graph:
   compile p = Ok g -> GraphScgf.graph_local_ok g = true. *)
From Coq Require Import ZArith QArith List String Bool Arith Lia Setoid Permutation.
Import ListNotations.
Require Import SC3.model.Graph SC3.gen.Gen_opcodes SC3.proofs.C01_inv SC3.proofs.C01_inv2 SC3.proofs.C01_inv3
               SC3.proofs.C01_pass SC3.proofs.C01_built SC3.proofs.C01_init SC3.proofs.C01_opt SC3.proofs.C01_cov
               SC3.proofs.C01_topo SC3.proofs.C01_topo2 SC3.proofs.C01_compile SC3.proofs.C01_sem2.
Require SC3.model.Scgf SC3.model.GraphScgf.
Open Scope string_scope.
Open Scope nat_scope.
Open Scope list_scope.

Definition LocInv (s : st) : Prop :=
  (forall u U, get_unit s u = Some U -> loc_ok U (controls s)) /\
  (forall c C v ch V, get_unit s c = Some C -> In (O v ch) (ins C) -> get_unit s v = Some V -> ch < nouts V).

Lemma same_meta_loc : forall X X' c, same_meta X X' -> loc_ok X c -> loc_ok X' c.
Proof.
  intros X X' c SM [A B]. destruct SM as (_ & _ & _ & _ & _ & _ & _ & _ & _ & _ & _ & _ & _ & Ec & _ & En & Es & _).
  unfold loc_ok, ctl_bound in *. rewrite Ec, En, Es. auto.
Qed.
Lemma same_meta_nouts : forall X X', same_meta X X' -> nouts X' = nouts X.
Proof. intros X X' SM. destruct SM as (_ & _ & _ & _ & _ & _ & _ & _ & _ & _ & _ & _ & _ & _ & _ & En & _). exact En. Qed.

Lemma arith_cls_lit : forall c, arith_cls c = true -> cls_lit c = true /\ String.eqb c "Control" = false.
Proof.
  intros c H. split; [unfold cls_lit; rewrite H; reflexivity|].
  unfold arith_cls in H. apply existsb_exists in H. destruct H as (x & Hx & E). apply String.eqb_eq in E. subst x.
  simpl in Hx. repeat (destruct Hx as [<-|Hx]; [reflexivity|]). contradiction.
Qed.

Lemma astep_loc : forall x y, astep x y -> LocInv (fst x) -> LocInv (fst y).
Proof.
  intros x y H W. destruct H; simpl in *; auto.
  - (* remove *)
    destruct (I_dying s D H u H0) as (Lu & (U & GU & _ & PU) & _).
    destruct (remove_ugen_eq s D u U H Lu GU) as [Heq _]. rewrite Heq. exact W.
  - (* rewrite *)
    destruct H4 as [a UA R HA La Na TA Hra Hone HuR TR OkR In1 In2 In3 RV RC HclsR HnR Hctl].
    destruct W as [W1 W2].
    assert (Hold : forall x X, get_unit s x = Some X -> exists X', get_unit s' x = Some X' /\ same_meta X X' /\
              (forall v ch, In (O v ch) (ins X') -> (v <> List.length (units s) /\ In (O v ch) (ins X)) \/
                                                     (v = List.length (units s) /\ In (O self ch) (ins X)))).
    { intros x X G. destruct (rw_get_old s D self a Self UA R s' H RV x X G) as (X' & A & B & _ & Hi).
      exists X'. split; auto. split; auto. intros v ch Hv. apply Hi in Hv.
      destruct Hv as [(_ & [(N & I)|(E & I)])|(_ & I)]; auto.
      - left. split; auto. intro E. subst v. pose proof (I_ins s D H x X _ ch G I). lia.
      - left. split; auto. intro E. subst v. pose proof (I_ins s D H x X _ ch G I). lia. }
    assert (Hnew : get_unit s' (List.length (units s)) = Some (set_place R (wfa Self) (sidx Self) (dref Self))) by exact (V_new _ _ _ _ _ _ _ _ RV).
    assert (Hback : forall v V', get_unit s' v = Some V' ->
              (v = List.length (units s) /\ V' = set_place R (wfa Self) (sidx Self) (dref Self)) \/
              (v <> List.length (units s) /\ exists V, get_unit s v = Some V /\ same_meta V V')).
    { intros v V' GV'. destruct (Nat.eq_dec v (List.length (units s))) as [->|Nv].
      - left. rewrite Hnew in GV'. injection GV' as <-. auto.
      - right. split; auto. destruct (get_unit s v) as [V|] eqn:GV.
        + destruct (Hold v V GV) as (V2 & G2 & SM & _). rewrite GV' in G2. injection G2 as <-. eauto.
        + exfalso. apply get_lt in GV'. rewrite (V_len _ _ _ _ _ _ _ _ RV) in GV'.
          assert (Hvlt : v < List.length (units s)) by lia. destruct (get_some s v Hvlt) as [V GV2]. congruence. }
    assert (MS : multi Self = false).
    { assert (TS : tracked Self = true) by (apply tracked_of_kind; [eapply I_ok; eauto|auto]). apply tracked_flags in TS. tauto. }
    split.
    + intros u U' G. rewrite Hctl. destruct (Hback u U' G) as [[-> ->]|(_ & U & GU & SM)].
      * destruct (arith_cls_lit _ HclsR) as [A B]. split; [exact A|]. cbn [cls set_place]. rewrite B. discriminate.
      * eapply same_meta_loc; eauto.
    + intros c C' v ch V' GC' Hin GV'.
      assert (Hv : forall v0 V0, get_unit s' v0 = Some V0 -> v0 <> List.length (units s) ->
                   exists V, get_unit s v0 = Some V /\ nouts V0 = nouts V).
      { intros v0 V0 G0 N0. destruct (Hback v0 V0 G0) as [[E _]|(_ & V & GV & SM)]; [contradiction|].
        exists V. split; auto. apply same_meta_nouts; auto. }
      destruct (Hback c C' GC') as [[-> ->]|(Nc & C & GC & SM)].
      * (* the new unit reads inputs of UA / Self *)
        cbn [ins set_place] in Hin.
        assert (Nv : v <> List.length (units s)).
        { destruct (In1 v ch Hin) as [I|[I _]].
          - pose proof (I_ins s D H a UA v ch HA I). lia.
          - pose proof (I_ins s D H self Self v ch H0 I). lia. }
        destruct (Hv v V' GV' Nv) as (V & GV & En). rewrite En.
        destruct (In1 v ch Hin) as [I|[I _]]; [exact (W2 a UA v ch V HA I GV) | exact (W2 self Self v ch V H0 I GV)].
      * destruct (Hold c C GC) as (C2 & G2 & _ & Hi). rewrite GC' in G2. injection G2 as <-.
        destruct (Hi v ch Hin) as [(Nv & I)|(-> & I)].
        -- destruct (Hv v V' GV' Nv) as (V & GV & En). rewrite En. exact (W2 c C v ch V GC I GV).
        -- rewrite Hnew in GV'. injection GV' as <-. cbn [nouts set_place]. rewrite HnR.
           rewrite (I_ch s D H c C self ch Self GC I H0 MS). lia.
Qed.
Lemma asteps_loc : forall x y, asteps x y -> LocInv (fst x) -> LocInv (fst y).
Proof. intros x y H. induction H; auto. intro. apply IHasteps. eapply astep_loc; eauto. Qed.

(* ---- the control array is not touched by _init_topo_sort / _topological_sort / _index_ugens *)
Definition okP {A} (P : A -> Prop) (r : res A) : Prop := match r with Ok a => P a | Err _ => True end.
Lemma fold_res_inv : forall {A B} (P : A -> Prop) (f : res A -> B -> res A),
  (forall acc b, okP P acc -> okP P (f acc b)) ->
  forall l acc, okP P acc -> okP P (fold_left f l acc).
Proof. intros A B P f Hf l. induction l as [|b t IH]; intros acc H; simpl; auto. Qed.

Lemma fresh_sets_controls : forall s, controls (fresh_sets s) = controls s.
Proof.
  intro s. unfold fresh_sets.
  match goal with |- controls (fold_left ?f ?l ?s0) = _ => assert (G : forall l0 s1, controls (fold_left f l0 s1) = controls s1) end.
  { induction l0 as [|c t IH]; intro s1; simpl; auto. rewrite IH. destruct (get_unit s1 c); reflexivity. }
  apply G.
Qed.

Lemma init_topo_controls : forall s s0 ante, init_topo s = Ok (s0, ante) -> controls s0 = controls s.
Proof.
  intros s s0 ante H. unfold init_topo in H.
  set (P := fun x : st * list (nat * list nat) => controls (fst x) = controls s).
  match type of H with fold_left ?f ?l ?a = _ => assert (HP : okP P (fold_left f l a)) end.
  { apply fold_res_inv.
    - intros acc u Hacc. destruct acc as [[s1 an]|e]; cbn [bind]; [|exact I]. unfold okP, P in Hacc. cbn [fst] in Hacc.
      destruct (get_unit s1 u) as [U|]; [|exact I].
      apply fold_res_inv; [|exact Hacc].
      intros acc2 g0 Hacc2. destruct acc2 as [[s2 an2]|e2]; cbn [bind]; [|exact I]. unfold okP, P in Hacc2. cbn [fst] in Hacc2.
      unfold desc_add. destruct (get_unit s2 g0) as [V|]; cbn [bind]; [|exact I]. destruct (dref V); cbn [bind]; [|exact I].
      unfold okP, P. cbn [fst]. exact Hacc2.
    - unfold okP, P. cbn [fst]. apply fresh_sets_controls. }
  rewrite H in HP. exact HP.
Qed.

Lemma index_ugens_controls : forall s, controls (index_ugens s) = controls s.
Proof.
  intro s. unfold index_ugens.
  match goal with |- controls (fst (fold_left ?f ?l ?a)) = _ =>
    assert (G : forall l0 sa i, controls (fst (fold_left f l0 (sa, i))) = controls sa) end.
  { induction l0 as [|c t IH]; intros sa i; simpl; auto. destruct (get_unit sa c); rewrite IH; reflexivity. }
  apply G.
Qed.

Lemma topological_sort_controls : forall s s', topological_sort s = Ok s' -> controls s' = controls s.
Proof.
  intros s s' H. unfold topological_sort in H.
  destruct (init_topo s) as [[s1 ante]|e] eqn:E; cbn [bind] in H; [|discriminate].
  destruct (topo_loop _ s1 ante _ []) as [out|e]; cbn [bind] in H; [|discriminate].
  injection H as <-. rewrite index_ugens_controls. cbn [controls with_children]. eapply init_topo_controls; eauto.
Qed.

(* ---- the invariant holds when the optimiser starts *)
Lemma Built_loc_inv : forall s s0 ante, Built s -> init_topo s = Ok (s0, ante) -> InitSpec s s0 ante ->
  LocInv (with_rewriting s0 true).
Proof.
  intros s s0 ante B E0 IS.
  assert (Hc : controls (with_rewriting s0 true) = controls s) by (cbn [controls with_rewriting]; eapply init_topo_controls; eauto).
  assert (Hg : forall u U', get_unit (with_rewriting s0 true) u = Some U' ->
            exists U, get_unit s u = Some U /\ cls U' = cls U /\ special U' = special U /\ nouts U' = nouts U /\ ins U' = ins U).
  { intros u U' G. assert (G0 : get_unit s0 u = Some U') by exact G. rewrite (IS_get _ _ _ IS) in G0.
    destruct (get_unit s u) as [U|] eqn:GU; [|discriminate]. exists U. split; auto. injection G0 as <-.
    destruct (pos u (live s)); auto. }
  split.
  - intros u U' G. rewrite Hc. destruct (Hg u U' G) as (U & GU & E1 & E2 & E3 & _).
    destruct (B_loc s B u U GU) as [A Bd]. unfold loc_ok, ctl_bound in *. rewrite E1, E2, E3. auto.
  - intros c C' v ch V' GC Hin GV. destruct (Hg c C' GC) as (C & GC0 & _ & _ & _ & Ei). destruct (Hg v V' GV) as (V & GV0 & _ & _ & En & _).
    rewrite Ei in Hin. rewrite En. destruct (B_ins s B c C v ch GC0 Hin) as [_ (V1 & G1 & _ & _ & Hlt)].
    rewrite GV0 in G1. injection G1 as <-. exact Hlt.
Qed.

(* ---- ... and in the state the definition is emitted from *)
Lemma Compiled_loc : forall p s1 s2f s3 s2 out g, Compiled p s1 s2f s3 s2 out g -> LocInv s3.
Proof.
  intros p s1 s2f s3 s2 out g C.
  destruct (CP_init _ _ _ _ _ _ _ C) as (s0 & ante & E0' & IS & Tr).
  pose proof (CP_built _ _ _ _ _ _ _ C) as B.
  pose proof (asteps_loc _ _ Tr (Built_loc_inv s1 s0 ante B E0' IS)) as [L1 L2]. cbn [fst] in L1, L2.
  destruct (CP_reidx _ _ _ _ _ _ _ C) as (_ & _ & _ & Hc2 & Hg2).
  pose proof (topological_sort_controls _ _ (CP_topo _ _ _ _ _ _ _ C)) as Hc3.
  assert (Hg : forall u U3, get_unit s3 u = Some U3 ->
            exists U, get_unit s2 u = Some U /\ cls U3 = cls U /\ special U3 = special U /\ nouts U3 = nouts U /\ ins U3 = ins U).
  { intros u U3 G3. rewrite (CP_units3 _ _ _ _ _ _ _ C u) in G3. destruct (Hg2 u) as [i Hi].
    destruct (get_unit s2f u) as [U2f|] eqn:G2f; [|discriminate].
    destruct (get_unit s2 u) as [U|] eqn:G2; [|discriminate]. injection Hi as ->. exists U. split; auto. injection G3 as <-.
    destruct (pos u out); [destruct (pos u (live s2f))|]; auto. }
  split.
  - intros u U3 G3. rewrite Hc3, Hc2. destruct (Hg u U3 G3) as (U & GU & E1 & E2 & E3 & _).
    destruct (L1 u U GU) as [A Bd]. unfold loc_ok, ctl_bound in *. rewrite E1, E2, E3. auto.
  - intros c C3 v ch V3 GC Hin GV. destruct (Hg c C3 GC) as (C0 & GC0 & _ & _ & _ & Ei). destruct (Hg v V3 GV) as (V & GV0 & _ & _ & En & _).
    rewrite Ei in Hin. rewrite En. exact (L2 c C0 v ch V GC0 Hin GV0).
Qed.

(* ---- the emitted definition *)
Definition lits : list string :=
  ["BinaryOpUGen"; "UnaryOpUGen"; "MulAdd"; "Sum3"; "Sum4"; "Control"; "Out"; "DC"] ++ map (fun p => c_cls (snd p)) catalogue.
Lemma cls_lit_In : forall c, cls_lit c = true -> In c lits.
Proof.
  intros c H. unfold cls_lit, arith_cls in H. rewrite <- existsb_app in H. apply existsb_exists in H.
  destruct H as (x & Hx & E). apply String.eqb_eq in E. subst x. unfold lits.
  apply in_app_iff in Hx. destruct Hx as [Hx|Hx].
  - apply in_or_app. left. simpl in Hx. simpl. tauto.
  - apply in_app_iff in Hx. destruct Hx as [Hx|Hx]; apply in_or_app; [left | right; exact Hx]. simpl in Hx. simpl. tauto.
Qed.
Definition lit_ok (c : string) : bool :=
  Scgf.pstr_ok (Scgf.bs_of_string c) && negb (Scgf.bytes_eqb (Scgf.bs_of_string c) []) &&
  Bool.eqb (Scgf.is_ctl_cls (Scgf.bs_of_string c)) (String.eqb c "Control").
Lemma lits_ok : forallb lit_ok lits = true.
Proof. vm_compute. reflexivity. Qed.

Theorem compiled_local : forall p s1 s2f s3 s2 out g, Compiled p s1 s2f s3 s2 out g ->
  GraphScgf.graph_local_ok g = true.
Proof.
  intros p s1 s2f s3 s2 out g CC. destruct (Compiled_loc _ _ _ _ _ _ _ CC) as [L1 L2].
  destruct CC as [Hb B HI2 R [rho Op] (C3 & P3 & B3) U3 -> _ Cov _ _ _].
  destruct Op as [Orw Ouid [Och Ond] Ounit Oins Owfa].
  assert (Hnd : NoDup out) by (eapply Permutation_NoDup; [symmetry; exact P3 | exact Ond]).
  assert (Hin_out : forall u, In u out <-> In u (live s2f)).
  { intro u. split; intro H; [eapply Permutation_in; eauto | eapply Permutation_in; [symmetry|]; eauto]. }
  set (dflt := mkU 0 "" Scalar [] 0 0%Z "" KPlain false false false false ChkValid None 0%Z None 0).
  set (G := fun u => match get_unit s3 u with Some U => U | None => dflt end).
  assert (HG : forall u, In u out -> exists C, get_unit s2f u = Some C /\ get_unit s3 u = Some (G u) /\
               ins (G u) = ins C /\ sidx (G u) = Z.of_nat (match pos u out with Some i => i | None => 0 end)).
  { intros u Hu. pose proof Hu as Hl. apply Hin_out in Hl. destruct (Ounit u Hl) as (C & GC & _).
    pose proof (U3 u) as H3. rewrite GC in H3. apply pos_In in Hu. destruct Hu as [k Hk]. rewrite Hk in H3.
    exists C. unfold G. rewrite H3, Hk.
    repeat split; auto; try (destruct (pos u (live s2f)); reflexivity). }
  assert (Hkey : forall v j, pos v out = Some j -> key_of s3 v = Z.of_nat j).
  { intros v j Pj. assert (Hv : In v out) by (apply pos_In; eauto). destruct (HG v Hv) as (C & _ & G3 & _ & Hs).
    unfold key_of. rewrite G3, Hs, Pj. reflexivity. }
  assert (Hsrc_out : forall c v ch, In c out -> In (O v ch) (ins (G c)) -> In v out).
  { intros c v ch Hc Hin. destruct (HG c Hc) as (C & GC & _ & Ei & _). rewrite Ei in Hin.
    apply Hin_out. destruct (Oins c C v ch (proj1 (Hin_out c) Hc) GC Hin) as (Lv & _ & _). exact Lv. }
  assert (Hget : forall u, In u out -> get_unit s3 u = Some (G u)) by (intros u Hu; destruct (HG u Hu) as (C & _ & H3 & _); auto).
  assert (Hl3 : live s3 = out) by (apply live_map_some; auto).
  assert (Hunits : gr_units (emit s3 (collect_constants s2f)) = map (fun u => gu s3 (G u)) out).
  { unfold emit. cbn [gr_units]. rewrite Hl3. clear -Hget. induction out as [|u t IH]; simpl; auto.
    rewrite (Hget u (or_introl eq_refl)). simpl. f_equal. apply IH. intros x Hx. apply Hget. right; auto. }
  unfold GraphScgf.graph_local_ok. rewrite Hunits. cbn [gr_controls emit].
  apply forallb_forall. intros gx Hgx. apply in_map_iff in Hgx. destruct Hgx as (c & <- & Hc).
  pose proof (Hget c Hc) as GC3. destruct (L1 c (G c) GC3) as [A Bd].
  pose proof lits_ok as HL. rewrite forallb_forall in HL. specialize (HL _ (cls_lit_In _ A)). unfold lit_ok in HL.
  apply andb_true_iff in HL. destruct HL as [HL E3]. apply andb_true_iff in HL. destruct HL as [E1 E2].
  apply Bool.eqb_prop in E3.
  unfold GraphScgf.gunit_local, gu. cbn [g_cls g_ins g_nouts g_special].
  rewrite E1, E2, E3. cbn [andb].
  apply andb_true_iff. split.
  - apply forallb_forall. intros gi Hgi. apply in_map_iff in Hgi. destruct Hgi as (i & <- & Hi).
    destruct i as [q|v ch]; [reflexivity|]. cbn [conv GraphScgf.ginp_chan].
    pose proof (Hsrc_out c v ch Hc Hi) as Hv. pose proof Hv as Hv'. apply pos_In in Hv'. destruct Hv' as [j Pj].
    rewrite (Hkey v j Pj). unfold Scgf.nth_z.
    assert (Z.of_nat j <? 0 = false)%Z as -> by (apply Z.ltb_ge; lia). rewrite Nat2Z.id. cbv beta iota.
    erewrite map_nth_error; [|exact (pos_nth_error v out j Pj)].
    cbn [g_nouts]. apply Z.ltb_lt. apply Nat2Z.inj_lt.
    exact (L2 c (G c) v ch (G v) GC3 Hi (Hget v Hv)).
  - destruct (String.eqb (cls (G c)) "Control") eqn:Ec; [|reflexivity].
    destruct (Bd eq_refl) as [B1 B2]. apply andb_true_iff. split; [apply Z.leb_le; exact B1 | apply Z.leb_le; exact B2].
Qed.

Lemma optimiser_flags_local : dce_strict = false /\ dce_guard = true /\ sub_guard = true.
Proof. repeat split; reflexivity. Qed.

(* every program the compiler model compiles (regenerated flags = the code of the tree) *)
Theorem compile_local_ok : forall p g, compile T dce_strict dce_guard sub_guard p = Ok g ->
  GraphScgf.graph_local_ok g = true.
Proof.
  intros p g H. destruct optimiser_flags_local as (E1 & E2 & E3). rewrite E1, E2, E3 in H.
  unfold compile in H. destruct (compile_flag T false true true p) as [[g0 ok0]|e] eqn:Ecf; [|discriminate].
  simpl in H. injection H as <-.
  pose proof Ecf as Ecf0. unfold compile_flag in Ecf.
  destruct (build_graph T p) as [s1|e] eqn:Hb; [|discriminate]. cbn [bind] in Ecf.
  destruct (optimize T false true true s1) as [[s2f ok]|e] eqn:Eo; [|discriminate]. cbn [bind] in Ecf.
  destruct (negb (check_inputs s2f)) eqn:Eck; [discriminate|].
  assert (Hc : forall s2 ok', optimize T false true true s1 = Ok (s2, ok') -> check_inputs s2 = true).
  { intros s2 ok' E. rewrite Eo in E. injection E as <- <-. apply negb_false_iff. exact Eck. }
  destruct (compile_total p s1 Hb Hc) as (g' & ok' & s2f' & s3 & s2 & out & E & C).
  rewrite Ecf0 in E. injection E as <- <-.
  exact (compiled_local _ _ _ _ _ _ _ C).
Qed.

(* ---- with C02's bridge: every compiled program (inside the format's integer ranges) is written and parses back *)
Require SC3.proofs.C02_link.
Lemma compile_roundtrip_full_l : forall f32 name pnames p g,
  (forall q, Scgf.w32_ok (f32 q) = true) ->
  compile T dce_strict dce_guard sub_guard p = Ok g ->
  GraphScgf.graph_small g = true ->
  GraphScgf.names_ok name pnames (Scgf.zlen (gr_controls g)) = true ->
  exists d bs, GraphScgf.to_sdef f32 name pnames g = Some d /\ Scgf.wf_def d = true
               /\ Scgf.write_def d = Some bs /\ Scgf.parse_def bs = Scgf.Ok d.
Proof.
  intros f32 name pnames p g Hf Hc Hs Hn.
  exact (C02_link.compile_roundtrip_l f32 name pnames p g Hf Hc (compile_local_ok p g Hc) Hs Hn).
Qed.
