(* C01_topo.v -- SynthDef._topological_sort: the emitted order is a permutation of the live units in
   which every unit comes after all its sources (UGen inputs through proxies, and width-first
   antecedents); the sort never raises. *)
From Coq Require Import ZArith QArith List String Bool Arith Lia Setoid Permutation.
Import ListNotations.
Require Import SC3.model.Graph SC3.proofs.C20_arrange SC3.proofs.C01_inv SC3.proofs.C01_init.
Open Scope string_scope.
Open Scope nat_scope.
Open Scope list_scope.

(* ---- association lists *)
Definition an_set (d : nat) (l' : list nat) (an : list (nat * list nat)) : list (nat * list nat) :=
  map (fun '(k, x) => if Nat.eqb k d then (k, l') else (k, x)) an.
Lemma an_set_keys : forall d l' an, map fst (an_set d l' an) = map fst an.
Proof. intros. unfold an_set. rewrite map_map. apply map_ext. intros [k x]. destruct (Nat.eqb k d); auto. Qed.
Lemma assoc_get_an_set : forall k d l' an,
  assoc_get k (an_set d l' an) = match assoc_get k an with
                                 | Some l => Some (if Nat.eqb k d then l' else l)
                                 | None => None end.
Proof.
  intros k d l' an. unfold assoc_get, an_set. induction an as [|[k0 x] t IH]; simpl; auto.
  destruct (Nat.eqb k0 d) eqn:E0; simpl.
  - destruct (Nat.eqb k k0) eqn:E1; simpl; auto.
    apply Nat.eqb_eq in E0, E1. subst. rewrite Nat.eqb_refl. auto.
  - destruct (Nat.eqb k k0) eqn:E1; simpl; auto.
    apply Nat.eqb_eq in E1. subst. rewrite E0. auto.
Qed.
Lemma assoc_get_key : forall k an, In k (map fst an) <-> exists l, assoc_get k an = Some l.
Proof.
  intros k an. unfold assoc_get. induction an as [|[k0 x] t IH]; simpl.
  - split; [tauto|intros [l H]; discriminate].
  - destruct (Nat.eqb k k0) eqn:E.
    + apply Nat.eqb_eq in E. subst. split; eauto.
    + apply Nat.eqb_neq in E. rewrite IH. split; [intros [H|H]; [congruence|auto] | auto].
Qed.

(* ---- the abstract dependency graph the sort works on *)
Section Topo.
Variable s1 : st.
Variable L : list nat.                  (* the live units *)
Variable Src : nat -> list nat.         (* sources of a unit: UGen inputs and width-first antecedents *)
Variable Dsc : nat -> list nat.         (* descendants as stored in the unit's set *)
Variable rho : nat -> Z.
Hypothesis L_nodup : NoDup L.
Hypothesis Src_live : forall c g, In c L -> In g (Src c) -> In g L /\ (rho g < rho c)%Z.
Hypothesis Dsc_spec : forall u, In u L -> NoDup (Dsc u) /\ forall c, In c (Dsc u) <-> In c L /\ In u (Src c).
Hypothesis State_desc : forall u, In u L -> exists U, get_unit s1 u = Some U /\ desc_of s1 U = Some (Dsc u).

Definition Before (out : list nat) (g c : nat) : Prop := exists o1 o2, out = o1 ++ c :: o2 /\ In g o1.

Record TInv (an : list (nat * list nat)) (av out : list nat) : Prop := mkTI {
  TI_out : NoDup out /\ forall u, In u out -> In u L;
  TI_av : NoDup av;
  TI_keys : map fst an = L;
  TI_an : forall u, In u L -> exists lst, assoc_get u an = Some lst /\ NoDup lst /\
          forall g, In g lst <-> In g (Src u) /\ ~ In g out;
  TI_avail : forall u, In u av <-> In u L /\ ~ In u out /\ assoc_get u an = Some [];
  TI_before : forall c g, In c out -> In g (Src c) -> Before out g c
}.

Definition rel_step (u : nat) (acc : res (list (nat * list nat) * list nat)) (d : nat) :=
  do2 an, av <- acc;
  match assoc_get d an with
  | None => Err EAttr
  | Some l =>
      if mem u l then
        let l' := set_discard u l in
        Ok (an_set d l' an, if Nat.eqb (List.length l') 0 then av ++ [d] else av)
      else Err EKey
  end.

Lemma set_discard_nodup : forall x l, NoDup l -> NoDup (set_discard x l).
Proof. intros. unfold set_discard. apply NoDup_filter. auto. Qed.

(* releasing the descendants ds of u *)
Lemma release_ok : forall u ds an av, NoDup ds ->
  (forall d, In d ds -> exists l, assoc_get d an = Some l /\ In u l) ->
  exists an' av', fold_left (rel_step u) ds (Ok (an, av)) = Ok (an', av') /\
    map fst an' = map fst an /\
    (forall k, assoc_get k an' = match assoc_get k an with
                                 | Some l => Some (if mem k ds then set_discard u l else l)
                                 | None => None end) /\
    (forall x, In x av' <-> In x av \/ (In x ds /\ exists l, assoc_get x an = Some l /\ set_discard u l = [])) /\
    (NoDup av -> (forall d, In d ds -> ~ In d av) -> NoDup av').
Proof.
  intros u ds. induction ds as [|d t IH]; intros an av Hnd Hds.
  - exists an, av. simpl. split; auto. split; auto. split.
    + intro k. destruct (assoc_get k an); auto.
    + split; [intro x; split; auto; intros [H|[[] _]]; auto | auto].
  - inversion Hnd as [|? ? Hnot Hnd']; subst.
    destruct (Hds d (or_introl eq_refl)) as (l & Gl & Hu).
    cbn [fold_left]. unfold rel_step at 2. cbn [bind]. rewrite Gl.
    assert (Hm : mem u l = true) by (apply mem_In; auto). rewrite Hm.
    set (l' := set_discard u l). set (an1 := an_set d l' an).
    set (av1 := if Nat.eqb (List.length l') 0 then av ++ [d] else av).
    assert (Hds1 : forall d0, In d0 t -> exists l0, assoc_get d0 an1 = Some l0 /\ In u l0).
    { intros d0 Hin. destruct (Hds d0 (or_intror Hin)) as (l0 & G0 & H0). exists l0. split; auto.
      unfold an1. rewrite assoc_get_an_set, G0. assert (Nat.eqb d0 d = false) by (apply Nat.eqb_neq; intro; subst; contradiction).
      rewrite H. auto. }
    destruct (IH an1 av1 Hnd' Hds1) as (an' & av' & E & K & A & B & C).
    exists an', av'. split; [exact E|]. split; [rewrite K; unfold an1; apply an_set_keys|]. split.
    + intro k. rewrite A. unfold an1. rewrite assoc_get_an_set. destruct (assoc_get k an) as [lk|] eqn:Gk; auto.
      f_equal. simpl. destruct (Nat.eqb k d) eqn:Ekd.
      * apply Nat.eqb_eq in Ekd. subst k. rewrite Gl in Gk. injection Gk as <-.
        assert (mem d t = false). { destruct (mem d t) eqn:M; auto. apply mem_In in M. contradiction. }
        rewrite H. reflexivity.
      * reflexivity.
    + split.
      * intro x. rewrite B. unfold av1. split.
        -- intros [H|(Hx & lx & Gx & Ex)].
           ++ destruct (Nat.eqb (List.length l') 0) eqn:El; [|auto].
              apply in_app_iff in H. destruct H as [H|[<-|[]]]; auto.
              right. split; [left; auto|]. exists l. split; auto. apply Nat.eqb_eq in El. apply length_zero_iff_nil in El. exact El.
           ++ right. split; [right; auto|]. unfold an1 in Gx. rewrite assoc_get_an_set in Gx.
              destruct (assoc_get x an) as [lx0|] eqn:G0; [|discriminate].
              assert (Nat.eqb x d = false) by (apply Nat.eqb_neq; intro; subst; contradiction).
              rewrite H in Gx. injection Gx as <-. exists lx0. auto.
        -- intros [H|([<-|Hx] & lx & Gx & Ex)].
           ++ left. destruct (Nat.eqb (List.length l') 0); auto. apply in_or_app; auto.
           ++ left. rewrite Gl in Gx. injection Gx as <-. fold l' in Ex. rewrite Ex. simpl. apply in_or_app. right. left. auto.
           ++ right. split; auto. exists lx. split; auto. unfold an1. rewrite assoc_get_an_set, Gx.
              assert (Nat.eqb x d = false) by (apply Nat.eqb_neq; intro; subst; contradiction). rewrite H. auto.
      * intros Hav Hdis. apply C.
        -- unfold av1. destruct (Nat.eqb (List.length l') 0); auto. apply NoDup_snoc; auto. apply Hdis. left; auto.
        -- intros d0 Hin. unfold av1. destruct (Nat.eqb (List.length l') 0).
           ++ intro H. apply in_app_iff in H. destruct H as [H|[<-|[]]]; [apply (Hdis d0); auto; right; auto | contradiction].
           ++ apply Hdis. right; auto.
Qed.

Lemma pop_last_spec : forall (av : list nat), match pop_last av with
                                              | None => av = []
                                              | Some (u, av1) => av = av1 ++ [u] end.
Proof.
  intro av. unfold pop_last. destruct (rev av) as [|x t] eqn:E.
  - apply (f_equal (@rev nat)) in E. rewrite rev_involutive in E. exact E.
  - apply (f_equal (@rev nat)) in E. rewrite rev_involutive in E. simpl in E. exact E.
Qed.

Lemma Before_app : forall out g c x, Before out g c -> Before (out ++ [x]) g c.
Proof. intros out g c x (o1 & o2 & E & H). exists o1, (o2 ++ [x]). split; auto. rewrite E, <- app_assoc. reflexivity. Qed.

Lemma src_irrefl : forall u, In u L -> ~ In u (Src u).
Proof. intros u Hu H. destruct (Src_live u u Hu H) as [_ Hlt]. lia. Qed.

(* one iteration of the loop *)
Lemma topo_step : forall an av1 u out, TInv an (av1 ++ [u]) out ->
  exists an' av', fold_left (rel_step u) (arrange_targets (key_of s1) (Dsc u)) (Ok (an, av1)) = Ok (an', av') /\
                  TInv an' av' (out ++ [u]).
Proof.
  intros an av1 u out TI. destruct TI as [[Hout HoutL] Hav Hkeys Han Havail Hbefore].
  assert (Huav : In u (av1 ++ [u])) by (apply in_or_app; right; left; auto).
  destruct (proj1 (Havail u) Huav) as (HuL & Hunot & Hu0).
  destruct (Dsc_spec u HuL) as [HndD HD].
  set (ds := arrange_targets (key_of s1) (Dsc u)).
  assert (Hperm : Permutation ds (Dsc u)) by apply arrange_perm.
  assert (Hds : forall d, In d ds <-> In d L /\ In u (Src d)).
  { intro d. rewrite <- HD. split; intro H; [eapply Permutation_in; eauto | eapply Permutation_in; [symmetry|]; eauto]. }
  assert (Hndds : NoDup ds) by (eapply Permutation_NoDup; [symmetry; exact Hperm | exact HndD]).
  assert (Hsrc_out : forall x g, In x out -> In g (Src x) -> In g out).
  { intros x g Hx Hg. destruct (Hbefore x g Hx Hg) as (o1 & o2 & E & Hin). rewrite E. apply in_or_app; auto. }
  assert (Hav1 : NoDup av1 /\ ~ In u av1).
  { apply NoDup_remove in Hav. rewrite app_nil_r in Hav. exact Hav. }
  destruct (release_ok u ds an av1 Hndds) as (an' & av' & E & K & A & B & C).
  { intros d Hd. apply Hds in Hd. destruct Hd as [HdL Hud]. destruct (Han d HdL) as (lst & G & _ & Hl).
    exists lst. split; auto. apply Hl. auto. }
  exists an', av'. split; [exact E|].
  assert (HnotinL : forall x, In x ds -> x <> u).
  { intros x Hx ->. apply Hds in Hx. destruct Hx as [_ Hx]. eapply src_irrefl; eauto. }
  constructor.
  - split.
    + apply NoDup_snoc; auto.
    + intros x Hx. apply in_app_iff in Hx. destruct Hx as [Hx|[<-|[]]]; auto.
  - apply C; [tauto|]. intros d Hd Hin.
    assert (Hin' : In d (av1 ++ [u])) by (apply in_or_app; auto).
    destruct (proj1 (Havail d) Hin') as (HdL & _ & Hd0).
    apply Hds in Hd. destruct Hd as [_ Hud]. destruct (Han d HdL) as (lst & G & _ & Hl). rewrite Hd0 in G. injection G as <-.
    assert (In u []) by (apply Hl; auto). contradiction.
  - rewrite K. exact Hkeys.
  - intros x HxL. destruct (Han x HxL) as (lst & G & Hnd & Hl). rewrite A, G.
    destruct (mem x ds) eqn:M.
    + exists (set_discard u lst). split; auto. split; [apply set_discard_nodup; auto|].
      intro g. rewrite In_set_discard, Hl, in_app_iff. simpl. intuition.
    + exists lst. split; auto. split; auto. intro g. rewrite Hl, in_app_iff. simpl.
      assert (Hnu : ~ In u (Src x)).
      { intro Hux. assert (In x ds) by (apply Hds; auto). apply mem_In in H. congruence. }
      split; [intros [H1 H2]; split; auto; intros [H3|[<-|[]]]; auto | intros [H1 H2]; split; auto].
  - intro x. rewrite B. split.
    + intros [Hx|(Hx & lx & Gx & Ex)].
      * assert (Hx' : In x (av1 ++ [u])) by (apply in_or_app; auto).
        destruct (proj1 (Havail x) Hx') as (HxL & Hxo & Hx0). split; auto. split.
        -- intro H. apply in_app_iff in H. destruct H as [H|[<-|[]]]; auto. tauto.
        -- rewrite A, Hx0. destruct (mem x ds); auto.
      * pose proof (proj1 (Hds x) Hx) as [HxL Hux]. split; auto. split.
        -- intro H. apply in_app_iff in H. destruct H as [H|[<-|[]]].
           ++ apply Hunot. eapply Hsrc_out; eauto.
           ++ eapply HnotinL; eauto.
        -- rewrite A, Gx. assert (M : mem x ds = true) by (apply mem_In; auto). rewrite M, Ex. auto.
    + intros (HxL & Hxo & Hx0). rewrite A in Hx0. destruct (assoc_get x an) as [lx|] eqn:Gx; [|discriminate].
      destruct (mem x ds) eqn:M.
      * right. apply mem_In in M. split; auto. exists lx. split; auto. injection Hx0 as ->. auto.
      * left. injection Hx0 as ->.
        assert (Hx' : In x (av1 ++ [u])).
        { apply Havail. split; auto. split; auto. intro H. apply Hxo. apply in_or_app; auto. }
        apply in_app_iff in Hx'. destruct Hx' as [H|[<-|[]]]; auto. exfalso. apply Hxo. apply in_or_app. right. left. auto.
  - intros c g Hc Hg. apply in_app_iff in Hc. destruct Hc as [Hc|[<-|[]]].
    + apply Before_app. auto.
    + exists out, []. split; auto. destruct (Han u HuL) as (lst & G & _ & Hl). rewrite Hu0 in G. injection G as <-.
      destruct (in_dec Nat.eq_dec g out) as [H|H]; auto. exfalso. assert (In g []) by (apply Hl; auto). contradiction.
Qed.

Lemma min_rho : forall (P : nat -> Prop) (l : list nat), (forall x, P x \/ ~ P x) ->
  (exists x, In x l /\ P x) -> exists m, In m l /\ P m /\ forall y, In y l -> P y -> (rho m <= rho y)%Z.
Proof.
  intros P l Hdec. induction l as [|a t IH]; intros (x & Hx & Px); [contradiction|].
  assert (Ht : (exists y, In y t /\ P y) \/ ~ (exists y, In y t /\ P y)).
  { clear IH Hx. induction t as [|b t' IHt]; [right; intros (y & [] & _)|].
    destruct (Hdec b) as [Pb|Nb]; [left; exists b; split; [left|]; auto|].
    destruct IHt as [(y & Hy & Py)|N]; [left; exists y; split; [right|]; auto|].
    right. intros (y & [<-|Hy] & Py); auto. apply N. eauto. }
  destruct Ht as [Ht|Ht].
  - destruct (IH Ht) as (m & Hm & Pm & Hmin). destruct (Hdec a) as [Pa|Na].
    + destruct (Z_le_gt_dec (rho a) (rho m)) as [Hle|Hgt].
      * exists a. split; [left; auto|]. split; auto. intros y [<-|Hy] Py; [lia|]. specialize (Hmin y Hy Py). lia.
      * exists m. split; [right; auto|]. split; auto. intros y [<-|Hy] Py; [lia|auto].
    + exists m. split; [right; auto|]. split; auto. intros y [<-|Hy] Py; [contradiction|auto].
  - destruct Hx as [<-|Hx]; [|exfalso; apply Ht; eauto].
    exists a. split; [left; auto|]. split; auto. intros y [<-|Hy] Py; [lia|]. exfalso. apply Ht. eauto.
Qed.

Lemma topo_complete : forall an out, TInv an [] out -> forall x, In x L -> In x out.
Proof.
  intros an out TI x Hx. destruct (in_dec Nat.eq_dec x out) as [H|H]; auto. exfalso.
  destruct (min_rho (fun y => ~ In y out) L) as (m & HmL & Hmo & Hmin).
  { intro y. destruct (in_dec Nat.eq_dec y out); auto. }
  { exists x. auto. }
  destruct TI as [_ _ _ Han Havail _].
  destruct (Han m HmL) as (lst & G & _ & Hl).
  assert (lst = []).
  { destruct lst as [|g t]; auto. exfalso. assert (Hg : In g (Src m) /\ ~ In g out) by (apply Hl; left; auto).
    destruct Hg as [Hg Hgo]. destruct (Src_live m g HmL Hg) as [HgL Hlt]. specialize (Hmin g HgL Hgo). lia. }
  subst lst. assert (In m []) by (apply Havail; auto). contradiction.
Qed.

Lemma topo_loop_unfold : forall f an av out, topo_loop (S f) s1 an av out =
  match pop_last av with
  | None => Ok out
  | Some (u, av1) =>
      match get_unit s1 u with
      | None => Err EInternal
      | Some U =>
          do2 an', av' <- fold_left (rel_step u) (arrange_targets (key_of s1) (match desc_of s1 U with Some l => l | None => [] end)) (Ok (an, av1));
          topo_loop f s1 an' av' (out ++ [u])
      end
  end.
Proof. reflexivity. Qed.

Theorem topo_loop_ok : forall fuel an av out, TInv an av out -> List.length L - List.length out < fuel ->
  exists out' an', topo_loop fuel s1 an av out = Ok out' /\ TInv an' [] out'.
Proof.
  induction fuel as [|f IH]; intros an av out TI Hf; [lia|].
  rewrite topo_loop_unfold. pose proof (pop_last_spec av) as Hp. destruct (pop_last av) as [[u av1]|].
  - subst av. pose proof TI as TI0. destruct TI as [[Hout HoutL] Hav Hkeys Han Havail Hbefore].
    assert (Huav : In u (av1 ++ [u])) by (apply in_or_app; right; left; auto).
    destruct (proj1 (Havail u) Huav) as (HuL & Hunot & Hu0).
    destruct (State_desc u HuL) as (U & GU & DU). rewrite GU, DU.
    destruct (topo_step an av1 u out TI0) as (an' & av' & E & TI'). rewrite E. cbn [bind].
    apply IH; auto. rewrite app_length. simpl.
    assert (List.length out < List.length L).
    { assert (Hincl : incl (u :: out) L) by (intros y [<-|Hy]; auto).
      assert (Hnd : NoDup (u :: out)) by (constructor; auto).
      pose proof (NoDup_incl_length Hnd Hincl). simpl in H. lia. }
    lia.
  - subst av. exists out, an. auto.
Qed.
End Topo.
