(* C13 -- finite patterns always get a complete denotation (termination), part 1:
   completeness of every trace function under "enough input" hypotheses. *)
From Coq Require Import ZArith QArith List Bool Lia PeanoNat.
Require Import SC3.lib.PyNum SC3.gen.Gen_builtins SC3.model.Pattern SC3.proofs.C13_sound SC3.proofs.C13_meaning.
Import ListNotations.

Definition complete (t : trace) : Prop := snd t <> EMore.
(* av: the stream is complete or at least N values of it are known;
   sh: the stream is complete and shorter than N *)
Definition av (l : list val) (e : tend) (N : nat) : Prop := e <> EMore \/ (N <= length l)%nat.
Definition sh (l : list val) (e : tend) (N : nat) : Prop := e <> EMore /\ (length l < N)%nat.

Lemma av_tail v l e N : av (v :: l) e (S N) -> av l e N.
Proof. intros [H|H]; [left; exact H|right; cbn in H; lia]. Qed.
Lemma av_nil e N : av [] e (S N) -> e <> EMore.
Proof. intros [H|H]; [exact H|cbn in H; lia]. Qed.
Lemma av_weak l e N : av l e (S N) -> av l e N.
Proof. intros [H|H]; [left; exact H|right; lia]. Qed.
Lemma av_le l e N M : (M <= N)%nat -> av l e N -> av l e M.
Proof. intros Hle [H|H]; [left; exact H|right; lia]. Qed.
Lemma sh_tail v l e N : sh (v :: l) e (S N) -> sh l e N.
Proof. intros [H1 H2]; split; [exact H1|cbn in H2; lia]. Qed.
Lemma sh_av l e N : sh l e N -> av l e N.
Proof. intros [H _]. left. exact H. Qed.
Lemma sh_zero l e : ~ sh l e 0.
Proof. intros [_ H]. lia. Qed.
Lemma sh_complete l e N : sh l e N -> e <> EMore.
Proof. intros [H _]. exact H. Qed.

Lemma complete_nil e : e <> EMore -> complete ([], e).
Proof. intros H. exact H. Qed.
Lemma complete_err : complete ([], EErr).
Proof. discriminate. Qed.
Lemma complete_stop : complete ([], EStop).
Proof. discriminate. Qed.
Lemma complete_tcons v t : complete t -> complete (tcons v t).
Proof. intros H. exact H. Qed.
Lemma complete_tpre l t : complete t -> complete (tpre l t).
Proof. intros H. exact H. Qed.
Lemma complete_tapp t1 t2 : complete t1 -> complete t2 -> complete (tapp t1 t2).
Proof. unfold tapp, complete. destruct t1 as [l e]; destruct e; cbn; intros; congruence. Qed.
Global Hint Resolve complete_err complete_stop complete_tcons complete_tpre complete_tapp complete_nil
  av_tail av_nil av_weak sh_tail sh_av sh_complete : cpl.

(* ---- single input *)
Lemma tdrop_complete n l e : e <> EMore -> complete (tdrop n l e).
Proof. intros H. rewrite tdrop_skipn. exact H. Qed.
Lemma tlen_complete : forall n l e, av l e n -> complete (tlen n l e).
Proof.
  induction n as [|n IH]; intros l e H; cbn. auto with cpl.
  destruct l as [|v l]. eauto with cpl. apply complete_tcons. apply IH. eauto with cpl.
Qed.
Lemma tdiff_complete l e : e <> EMore -> complete (tdiff l e).
Proof.
  intros H. destruct l as [|v l]; cbn. exact H.
  revert v. induction l as [|x l IH]; intros v; cbn. exact H.
  destruct (binop BSub x v); auto with cpl.
Qed.
Lemma tconst_complete sum tol : forall l e acc, e <> EMore -> complete (tconst sum tol acc l e).
Proof.
  assert (C : forall acc, complete (const_last sum acc)).
  { intros acc. unfold const_last. destruct (ret_num (nsub sum acc)); auto with cpl. }
  induction l as [|v l IH]; intros e acc H; cbn [tconst].
  - destruct e; auto with cpl; try congruence.
  - destruct (as_num v); auto with cpl. cbv zeta.
    destruct (py_roundup (nadd acc n) tol); auto with cpl.
    + destruct (nge (I z) sum); auto with cpl.
    + destruct (nge (F q) sum); auto with cpl.
Qed.
Lemma tfun_complete kd f : forall l e, e <> EMore -> complete (tfun kd f l e).
Proof.
  induction l as [|v l IH]; intros e H; cbn. exact H.
  destruct (fn_apply f v) as [r|]; auto with cpl.
  destruct kd; auto with cpl; destruct r as [?|[|]|?|?|]; auto with cpl.
Qed.
Lemma tun_complete o : forall l e, e <> EMore -> complete (tun o l e).
Proof.
  induction l as [|v l IH]; intros e H; cbn. exact H. destruct (unop o v); auto with cpl.
Qed.

(* ---- lock-step functions *)
Lemma tbin_complete o : forall N la ea lb eb, av la ea N -> av lb eb N -> sh la ea N \/ sh lb eb N ->
  complete (tbin o la ea lb eb).
Proof.
  induction N as [|N IH]; intros la ea lb eb Ha Hb Hs.
  - destruct Hs as [H|H]; destruct (sh_zero _ _ H).
  - destruct la as [|va la]; cbn. eauto with cpl.
    destruct lb as [|vb lb]. eauto with cpl.
    destruct (binop o va vb); auto with cpl. apply complete_tcons. apply IH; eauto with cpl.
    destruct Hs; eauto with cpl.
Qed.
Lemma tnar_complete o : forall N la ea lb eb lc ec, av la ea N -> av lb eb N -> av lc ec N ->
  sh la ea N \/ sh lb eb N \/ sh lc ec N -> complete (tnar o la ea lb eb lc ec).
Proof.
  induction N as [|N IH]; intros la ea lb eb lc ec Ha Hb Hc Hs.
  - destruct Hs as [H|[H|H]]; destruct (sh_zero _ _ H).
  - destruct la as [|va la]; cbn. eauto with cpl.
    destruct lb as [|vb lb]. eauto with cpl.
    destruct lc as [|vc lc]. eauto with cpl.
    destruct (narop o va vb vc); auto with cpl. apply complete_tcons. apply IH; eauto with cpl.
    destruct Hs as [H|[H|H]]; eauto with cpl.
Qed.
Lemma twrap_complete : forall N llo elo lhi ehi l e, av l e N -> av llo elo N -> av lhi ehi N ->
  sh l e N \/ sh llo elo N \/ sh lhi ehi N -> complete (twrap l e llo elo lhi ehi).
Proof.
  induction N as [|N IH]; intros llo elo lhi ehi l e Ha Hb Hc Hs.
  - destruct Hs as [H|[H|H]]; destruct (sh_zero _ _ H).
  - destruct llo as [|lo llo]; cbn. eauto with cpl.
    destruct lhi as [|hi lhi]. eauto with cpl.
    destruct l as [|v l]. eauto with cpl.
    destruct (narop NWrap v lo hi); auto with cpl. apply complete_tcons.
    apply (IH llo elo lhi ehi l e); eauto with cpl.
    destruct Hs as [H|[H|H]]; eauto with cpl.
Qed.
Lemma tstut_complete : forall N l e ln en, av l e N -> av ln en N -> sh l e N \/ sh ln en N ->
  complete (tstut l e ln en).
Proof.
  induction N as [|N IH]; intros l e ln en Ha Hb Hs.
  - destruct Hs as [H|H]; destruct (sh_zero _ _ H).
  - destruct l as [|v l]; cbn. eauto with cpl.
    destruct ln as [|nv ln]. eauto with cpl.
    destruct (as_count nv); auto with cpl. apply complete_tpre. apply IH; eauto with cpl.
    destruct Hs; eauto with cpl.
Qed.
Lemma tflat_complete : forall N ln en l e, av l e N -> av ln en N -> sh l e N \/ sh ln en N ->
  complete (tflat ln en l e).
Proof.
  induction N as [|N IH]; intros ln en l e Ha Hb Hs.
  - destruct Hs as [H|H]; destruct (sh_zero _ _ H).
  - destruct ln as [|nv ln]; cbn. eauto with cpl.
    destruct l as [|v l]. eauto with cpl.
    assert (complete (tflat ln en l e)) by (apply IH; eauto with cpl; destruct Hs; eauto with cpl).
    destruct v; auto with cpl. destruct (flat_levels nv (VL l0)); auto with cpl.
Qed.
Lemma tif_complete : forall N lc ec lt et le ee, sh lc ec N -> av lt et N -> av le ee N ->
  complete (tif lc ec lt et le ee).
Proof.
  induction N as [|N IH]; intros lc ec lt et le ee Hc Ht He.
  - destruct (sh_zero _ _ Hc).
  - destruct lc as [|c lc]; cbn. eauto with cpl.
    destruct (truthy c).
    + destruct lt as [|x lt]. eauto with cpl. apply complete_tcons. apply IH; eauto with cpl.
    + destruct le as [|x le]. eauto with cpl. apply complete_tcons. apply IH; eauto with cpl.
Qed.
Lemma tseries_complete mul : forall N ls es cur i, av ls es N ->
  sh ls es N \/ (exists r, i = Some r /\ (r < N)%nat) -> complete (tseries mul cur i ls es).
Proof.
  induction N as [|N IH]; intros ls es cur i Ha Hs.
  - destruct Hs as [H|(r & _ & H)]. destruct (sh_zero _ _ H). lia.
  - destruct ls as [|sv ls]; cbn [tseries]; destruct (cnt_zero i) eqn:Z; auto with cpl.
    + eauto with cpl.
    + destruct (as_num sv) as [st|]; auto with cpl.
      assert (C : forall nc, complete (tseries mul nc (cnt_dec i) ls es)).
      { intros nc. apply IH. eauto with cpl. destruct Hs as [H|(r & E & H)]. eauto with cpl.
        right. subst i. destruct r as [|r]; [discriminate|]. exists r. split. reflexivity. lia. }
      destruct (if mul then nmul cur st else nadd cur st); auto with cpl.
Qed.

(* ---- Pclump: one count per group, [count] values per group *)
Definition clump_need (ln : list val) : nat :=
  fold_right (fun nv a => (match as_int nv with Some z => Z.to_nat z | None => 0 end + a)%nat) 0%nat ln.
Lemma grab_none_complete (acc : list val) e : e <> EMore ->
  complete (match e with
            | EStop => match acc with [] => ([], EStop) | _ => ([VL acc], EStop) end
            | _ => ([], e) end).
Proof. intros H. destruct e; try congruence; [destruct acc|]; discriminate. Qed.
Lemma tclump_complete_counts : forall ln en l e, en <> EMore -> av l e (S (clump_need ln)) ->
  complete (tclump ln en l e).
Proof.
  induction ln as [|nv ln IH]; intros en l e Hn Ha; cbn [tclump]. exact Hn.
  cbn [clump_need fold_right] in Ha. fold (clump_need ln) in Ha.
  destruct (as_int nv) as [z|]; auto with cpl.
  rewrite grab_spec. cbn [app].
  destruct (Z.to_nat z <=? length l)%nat eqn:E.
  - apply complete_tcons. apply IH. exact Hn.
    apply Nat.leb_le in E. destruct Ha as [H|H]. left; exact H. right. rewrite skipn_length. lia.
  - apply Nat.leb_gt in E. apply grab_none_complete. destruct Ha as [H|H]. exact H. lia.
Qed.
Lemma tclump_complete_const nv : (forall z, as_int nv = Some z -> (0 < z)%Z) ->
  forall M l e, e <> EMore -> (length l < M)%nat -> complete (tclump (repeat nv M) EMore l e).
Proof.
  intros Hp. induction M as [|M IH]; intros l e He Hl; [lia|]. cbn [repeat tclump].
  destruct (as_int nv) as [z|] eqn:Ez; auto with cpl.
  specialize (Hp z eq_refl). rewrite grab_spec. cbn [app].
  destruct (Z.to_nat z <=? length l)%nat eqn:E.
  - apply complete_tcons. apply IH. exact He. apply Nat.leb_le in E. rewrite skipn_length. lia.
  - apply grab_none_complete. exact He.
Qed.

(* ---- embedding functions *)
Lemma temb_complete (f : nat -> ires) (d : pat -> trace) :
  (forall i q, f i = IItem q -> complete (d q)) -> (forall i, f i <> ISpin) ->
  forall count n start, (n < count)%nat -> f (start + n)%nat = IDone \/ f (start + n)%nat = IErr ->
  complete (temb f d count start).
Proof.
  intros Hd Hs. induction count as [|c IH]; intros n start Hn Hf; [lia|]. cbn [temb].
  destruct (f start) eqn:E; auto with cpl.
  - destruct (Hs _ E).
  - apply complete_tapp. eapply Hd; eauto.
    destruct n as [|n]. rewrite Nat.add_0_r in Hf. destruct Hf; congruence.
    apply (IH n (S start)). lia. replace (S start + n)%nat with (start + S n)%nat by lia. exact Hf.
Qed.
Lemma tswitch_complete (d : pat -> trace) lst : (forall q, In q lst -> complete (d q)) ->
  forall lw ew, ew <> EMore -> complete (tswitch d lst lw ew).
Proof.
  intros Hd. induction lw as [|iv lw IH]; intros ew H; cbn. exact H.
  destruct (as_index iv); auto with cpl. destruct (wrap_at lst z) eqn:E; auto with cpl.
  apply complete_tapp. apply Hd. eapply wrap_at_in; eauto. apply IH. exact H.
Qed.

(* ---- Pswitch1 *)
Definition avt (N : nat) (t : trace) : Prop := av (fst t) (snd t) N.
Lemma split_at_Forall {A} (P : A -> Prop) : forall l i pre c post,
  Forall P l -> split_at i l = Some (pre, c, post) -> Forall P pre /\ P c /\ Forall P post.
Proof.
  induction l as [|x l IH]; intros i pre c post H E; cbn in E. discriminate.
  inversion H; subst. destruct i as [|i].
  - inversion E; subst. repeat split; auto.
  - destruct (split_at i l) as [[[p1 c1] q1]|] eqn:E1; [|discriminate]. inversion E; subst.
    destruct (IH _ _ _ _ H3 E1) as (A1 & A2 & A3). repeat split; auto.
Qed.
Lemma tsw1_complete : forall lw ew ts, ew <> EMore -> Forall (avt (length lw)) ts -> complete (tsw1 ts lw ew).
Proof.
  induction lw as [|iv lw IH]; intros ew ts H Hts; cbn [tsw1]. exact H.
  destruct (as_index iv); auto with cpl. destruct ts as [|t0 ts0]; auto with cpl.
  destruct (split_at _ (t0 :: ts0)) as [[[pre [l e]] post]|] eqn:E; auto with cpl.
  destruct (split_at_Forall _ _ _ _ _ _ Hts E) as (A1 & A2 & A3). unfold avt in A2. cbn [fst snd length] in A2.
  destruct l as [|v l]. eauto with cpl.
  apply complete_tcons. apply IH. exact H.
  assert (W : forall t, avt (S (length lw)) t -> avt (length lw) t) by (intros t; apply av_weak).
  apply Forall_app. split. eapply Forall_impl; eauto.
  constructor. unfold avt; cbn [fst snd]. eauto with cpl. eapply Forall_impl; eauto.
Qed.

(* ---- Ptuple *)
Lemma heads_spec N : forall ts, Forall (avt (S N)) ts ->
  match heads ts with
  | inr e => e <> EMore
  | inl (vs, ts') => Forall (avt N) ts' /\
                     (Exists (fun t => sh (fst t) (snd t) (S N)) ts -> Exists (fun t => sh (fst t) (snd t) N) ts')
  end.
Proof.
  induction ts as [|[l e] ts IH]; intros H; cbn [heads].
  - split. constructor. intros E. inversion E.
  - inversion H as [|? ? H1 H2]; subst. unfold avt in H1; cbn [fst snd] in H1.
    destruct l as [|v l]. eauto with cpl.
    specialize (IH H2). destruct (heads ts) as [[vs r']|e']; [|exact IH].
    destruct IH as [I1 I2]. split.
    + constructor; [|exact I1]. unfold avt; cbn [fst snd]. eauto with cpl.
    + intros E. inversion E as [? ? E1|? ? E1]; subst.
      * left. cbn [fst snd] in *. eauto with cpl.
      * right. apply I2. exact E1.
Qed.
Lemma trows_complete : forall N fuel ts, (N <= fuel)%nat -> Forall (avt N) ts ->
  Exists (fun t => sh (fst t) (snd t) N) ts -> complete (trows fuel ts).
Proof.
  induction N as [|N IH]; intros fuel ts Hf H E.
  - exfalso. clear Hf. induction E as [t ? Hs|? ? ? IHE]. destruct (sh_zero _ _ Hs). inversion H; auto.
  - destruct fuel as [|f]; [lia|]. cbn [trows]. unfold trows_from. pose proof (heads_spec N ts H) as HS.
    destruct (heads ts) as [[vs ts']|e]. 2: exact HS.
    destruct HS as [H1 H2]. apply complete_tcons. cbn [app]. apply (IH f). lia. exact H1. apply H2. exact E.
Qed.
Lemma trep_complete t (n : Z) : complete t -> forall count j, (Z.to_nat n - j < count)%nat ->
  complete (trep count (Fin n) j t).
Proof.
  intros Ht. induction count as [|c IH]; intros j H; [lia|]. cbn [trep in_reps].
  destruct (Z.of_nat j <? n)%Z eqn:E; auto with cpl.
  apply complete_tapp. exact Ht. apply IH. apply Z.ltb_lt in E. lia.
Qed.

(* ---- Pslide *)
Lemma twin_complete (d : pat -> trace) l w pos K : (forall q, In q l -> complete (d q)) -> complete K ->
  forall rem j, complete (twin d l w pos j rem K).
Proof.
  intros Hd HK. induction rem as [|rem IH]; intros j; cbn [twin]. exact HK.
  destruct pos as [z|q|]; auto with cpl. destruct w.
  - destruct (wrap_at l (z + Z.of_nat j)) eqn:E; auto with cpl.
    apply complete_tapp. apply Hd. eapply wrap_at_in; eauto. apply IH.
  - destruct ((0 <=? z + Z.of_nat j)%Z && (z + Z.of_nat j <? Z.of_nat (length l))%Z); auto with cpl.
    destruct (nth_error l (Z.to_nat (z + Z.of_nat j))) eqn:E; auto with cpl.
    apply complete_tapp. apply Hd. eapply nth_error_In; eauto. apply IH.
Qed.
Lemma tslide_complete (d : pat -> trace) l w : (forall q, In q l -> complete (d q)) ->
  forall N llen elen lstep estep i pos, av llen elen N -> av lstep estep N ->
  sh llen elen N \/ sh lstep estep N \/ (exists r, i = Some r /\ (r < N)%nat) ->
  complete (tslide d l w i pos llen elen lstep estep).
Proof.
  intros Hd. induction N as [|N IH]; intros llen elen lstep estep i pos Ha Hb Hs.
  - destruct Hs as [H|[H|(r & _ & H)]]; try destruct (sh_zero _ _ H). lia.
  - destruct llen as [|lv llen]; cbn [tslide]; destruct (cnt_zero i) eqn:Z; auto with cpl.
    + eauto with cpl.
    + destruct (as_index lv); auto with cpl. apply twin_complete. exact Hd.
      destruct lstep as [|sv lstep]. eauto with cpl.
      destruct (as_num sv) as [st|]; auto with cpl.
      assert (C : forall np, complete (tslide d l w (cnt_dec i) np llen elen lstep estep)).
      { intros np. apply IH; eauto with cpl. destruct Hs as [H|[H|(r & E & H)]]; eauto with cpl.
        right. right. subst i. destruct r as [|r]; [discriminate|]. exists r. split. reflexivity. lia. }
      destruct (nadd pos st); auto with cpl.
Qed.

(* ---- seeded random bodies *)
Section Rnd.
Variable rnd : Z -> hist -> Z -> Z -> Z.
Lemma trand_complete (d : pat -> trace) l z K : (forall q, In q l -> complete (d q)) -> complete K ->
  forall a b count r idx, (r < count)%nat -> complete (trand rnd d a b l z (Some r) idx count K).
Proof.
  intros Hd HK a b. induction count as [|c IH]; intros r idx H; [lia|]. cbn [trand].
  destruct r as [|r]; cbn [cnt_zero]. exact HK.
  unfold rand_item. destruct ((0 <=? _)%Z && _); auto with cpl.
  destruct (nth_error l _) eqn:E; auto with cpl.
  apply complete_tapp. apply Hd. eapply nth_error_In; eauto. cbn [cnt_dec pred]. apply IH. lia.
Qed.
Lemma txrand_complete (d : pat -> trace) l z K : (forall q, In q l -> complete (d q)) -> complete K ->
  forall count r idx index, (r < count)%nat -> complete (txrand rnd d l z index (Some r) idx count K).
Proof.
  intros Hd HK. induction count as [|c IH]; intros r idx index H; [lia|]. cbn [txrand].
  destruct r as [|r]; cbn [cnt_zero]. exact HK.
  unfold xrand_step. destruct l as [|q0 l']; auto with cpl.
  destruct (if (Z.of_nat (length (q0 :: l')) =? 1)%Z then _ else _) as [dd idx'].
  destruct (nth_error (q0 :: l') _) eqn:E; auto with cpl.
  apply complete_tapp. apply Hd. eapply nth_error_In; eauto. cbn [cnt_dec pred]. apply IH. lia.
Qed.
Lemma twhite_complete z K : complete K ->
  forall N llo elo lhi ehi k idx, av llo elo N -> av lhi ehi N ->
  sh llo elo N \/ sh lhi ehi N \/ (exists r, k = Some r /\ (r < N)%nat) ->
  complete (twhite rnd z k idx llo elo lhi ehi K).
Proof.
  intros HK. induction N as [|N IH]; intros llo elo lhi ehi k idx Ha Hb Hs.
  - destruct Hs as [H|[H|(r & _ & H)]]; try destruct (sh_zero _ _ H). lia.
  - destruct llo as [|lo llo]; cbn [twhite]; destruct (cnt_zero k) eqn:Z; auto.
    + pose proof (av_nil _ _ Ha). destruct elo; auto with cpl; try congruence.
    + destruct lhi as [|hi lhi].
      * pose proof (av_nil _ _ Hb). destruct ehi; auto with cpl; try congruence.
      * destruct (white_draw rnd lo hi z idx) as [[v idx']|]; auto with cpl.
        apply complete_tcons. apply IH; eauto with cpl.
        destruct Hs as [H|[H|(r & E & H)]]; eauto with cpl.
        right. right. subst k. destruct r as [|r]; [discriminate|]. exists r. split. reflexivity. lia.
Qed.
End Rnd.
Lemma tseed_complete (body : Z -> trace -> trace) : (forall z K, complete K -> complete (body z K)) ->
  forall ls es, es <> EMore -> complete (tseed body ls es).
Proof.
  intros Hb. induction ls as [|sv ls IH]; intros es H; cbn. exact H.
  destruct (as_index sv); auto with cpl.
Qed.
