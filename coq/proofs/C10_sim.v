(* C10: for programs whose routines all run on SystemClock, every real-time execution (every start
   instant, every sequence of physical clock readings, every enabled order of wake-ups) simulates the
   non-real-time run step by step, all logical times shifted by the start instant. *)
From Coq Require Import ZArith QArith Qround List Bool Lia Lqa.
Require Import SC3.model.KProg SC3.model.KNrt SC3.model.KRt SC3.model.KRand SC3.model.KAgree.
Require Import SC3.proofs.C05_frame SC3.proofs.C07_stamp SC3.proofs.C10_frame SC3.proofs.C10_gens.
Import ListNotations.
Open Scope Q_scope.

(* ---- the class of programs -------------------------------------------------------------------- *)
Definition act_ok (a : xact) : Prop :=
  match a with
  | XYield d => 0 <= d                 (* a negative delta re-schedules in the past (outside the statement, as in C05) *)
  | XPlay _ c => c <> CApp             (* AppClock has no logical time in real time *)
  | _ => True
  end.
Definition aok (acts : list xact) : Prop := Forall act_ok acts.
(* no TempoClock is created: every successful play is on SystemClock *)
Definition sys_only (p : xprog) : Prop := xp_tempos p = [] /\ Forall aok (xp_bodies p).

(* ---- Q helpers ---------------------------------------------------------------------------------- *)
Lemma Qle_bool_ext x y x' y' : (x <= y <-> x' <= y') -> Qle_bool x y = Qle_bool x' y'.
Proof.
  intros H. destruct (Qle_bool x y) eqn:A; destruct (Qle_bool x' y') eqn:B; auto.
  - apply Qle_bool_iff in A. apply H in A. apply Qle_bool_iff in A. congruence.
  - apply Qle_bool_iff in B. apply H in B. apply Qle_bool_iff in B. congruence.
Qed.
Lemma Qeq_bool_ext x y x' y' : (x == y <-> x' == y') -> Qeq_bool x y = Qeq_bool x' y'.
Proof.
  intros H. destruct (Qeq_bool x y) eqn:A; destruct (Qeq_bool x' y') eqn:B; auto.
  - apply Qeq_bool_iff in A. apply H in A. apply Qeq_bool_iff in A. congruence.
  - apply Qeq_bool_iff in B. apply H in B. apply Qeq_bool_iff in B. congruence.
Qed.
Lemma key_leb_shift t0 t1 c1 t2 c2 t1' t2' : t1' == t1 + t0 -> t2' == t2 + t0 ->
  key_leb t1' c1 t2' c2 = key_leb t1 c1 t2 c2.
Proof.
  intros H1 H2. unfold key_leb, Qltb.
  rewrite (Qle_bool_ext t2' t1' t2 t1) by (split; intros; lra).
  rewrite (Qeq_bool_ext t1' t2' t1 t2) by (split; intros; lra).
  reflexivity.
Qed.

(* ---- the simulation relation ---------------------------------------------------------------------- *)
Section Sim.
  Context (t0 : Q).

  Definition ent_sim (e e' : entry) : Prop :=
    e_time e' == e_time e + t0 /\ e_cnt e' = e_cnt e /\ e_clock e = CSystem /\ e_clock e' = CSystem /\
    e_rid e' = e_rid e /\ 0 <= e_time e.
  Definition res_sim (a b : option selem) : Prop :=
    match a, b with
    | None, None => True
    | Some x, Some y => due_time y == due_time x + t0
    | _, _ => False
    end.
  Definition ev_sim (a b : event) : Prop :=
    match a, b with
    | EvResume r k c s _, EvResume r' k' c' s' _ => r = r' /\ k = k' /\ c = c' /\ s' == s + t0
    | EvPlay o ch c s, EvPlay o' ch' c' s' => o = o' /\ ch = ch' /\ c = c' /\ s' == s + t0
    | EvSend o _ l es r, EvSend o' _ l' es' r' => o = o' /\ l = l' /\ es = es' /\ res_sim r r'
    | EvTempo o i v ok, EvTempo o' i' v' ok' => o = o' /\ i = i' /\ v = v' /\ ok = ok'
    | EvEnd r k x, EvEnd r' k' x' => r = r' /\ k = k' /\ x = x'
    | _, _ => False
    end.
  Definition nsim (na nb : nstate) : Prop :=
    Forall2 ent_sim (n_q na) (n_q nb) /\ n_qcnt nb = n_qcnt na /\ n_tcs na = [] /\ n_tcs nb = [] /\
    Forall2 ev_sim (n_log na) (n_log nb).
  Definition rinv (routs : list xrout) : Prop := Forall (fun r => xr_clock r = CSystem /\ aok (xr_rest r)) routs.
  Definition sim (a b : xstate) : Prop :=
    nsim (x_n a) (x_n b) /\ x_routs b = x_routs a /\ x_gens b = x_gens a /\ x_conds b = x_conds a /\
    x_flows b = x_flows a /\ x_vals b = x_vals a /\ rinv (x_routs a).

  (* ---- nstate level ---------------------------------------------------------------------------- *)
  Lemma kinsert_sim x x' : ent_sim x x' -> forall q q', Forall2 ent_sim q q' ->
    Forall2 ent_sim (kinsert e_time e_cnt x q) (kinsert e_time e_cnt x' q').
  Proof.
    intros Hx. induction 1 as [|y y' q q' Hy Hq IH]; simpl.
    - constructor; auto.
    - pose proof Hx as (X1 & X2 & _). pose proof Hy as (Y1 & Y2 & _).
      rewrite X2, Y2.
      rewrite (key_leb_shift t0 (e_time y) (e_cnt y) (e_time x) (e_cnt x) (e_time y') (e_time x')) by assumption.
      destruct (key_leb (e_time y) (e_cnt y) (e_time x) (e_cnt x)).
      + constructor; [exact Hy|exact IH].
      + constructor; [exact Hx|]. constructor; [exact Hy|exact Hq].
  Qed.

  Lemma push_sim na nb t t' rid bt bt' : nsim na nb -> t' == t + t0 -> 0 <= t ->
    nsim (push na t CSystem rid bt) (push nb t' CSystem rid bt').
  Proof.
    intros (Hq & Hc & Ha & Hb & Hl) Ht Hn. unfold nsim, push. simpl. repeat split; auto.
    rewrite Hc. apply kinsert_sim; auto.
    unfold ent_sim. simpl. repeat split; auto; rewrite ?Qred_correct; auto.
  Qed.
  Lemma add_log_sim na nb ev ev' : nsim na nb -> ev_sim ev ev' -> nsim (add_log na ev) (add_log nb ev').
  Proof. intros (Hq & Hc & Ha & Hb & Hl) He. unfold nsim. simpl. repeat split; auto. Qed.
  Lemma set_mtime_sim na nb m m' : nsim na nb -> nsim (set_mtime na m) (set_mtime nb m').
  Proof. intros H. exact H. Qed.
  Lemma set_q_sim na nb q q' : nsim na nb -> Forall2 ent_sim q q' -> nsim (set_q na q) (set_q nb q').
  Proof. intros (Hq & Hc & Ha & Hb & Hl) H. unfold nsim. simpl. repeat split; auto. Qed.

  Lemma dedup_sim c rid q q' : Forall2 ent_sim q q' -> Forall2 ent_sim (dedup_q c rid q) (dedup_q c rid q').
  Proof.
    induction 1 as [|x y q q' Hx Hq IH]; simpl; [constructor|].
    pose proof Hx as (_ & _ & C1 & C2 & Rr & _).
    unfold is_clock. rewrite C1, C2, Rr.
    destruct (negb (clock_eqb CSystem c && Nat.eqb (e_rid x) rid)); [constructor|]; auto.
  Qed.
  Lemma xpush_sim na nb t t' rid bt bt' : nsim na nb -> t' == t + t0 -> 0 <= t ->
    nsim (xpush true na t CSystem rid bt) (xpush true nb t' CSystem rid bt').
  Proof.
    intros H Ht Hn. unfold xpush. apply push_sim; auto.
    apply set_q_sim; auto. apply dedup_sim. destruct H as (Hq & _). exact Hq.
  Qed.
  Lemma sched_play_sim off na nb T T' rid : nsim na nb -> T' == T + t0 -> 0 <= T ->
    nsim (x_sched_play true None na T CSystem rid) (x_sched_play true (Some off) nb T' CSystem rid).
  Proof.
    intros H Ht Hn. unfold x_sched_play. cbn [b2s]. apply xpush_sim; auto; lra.
  Qed.

  (* ---- stamping: a send succeeds in one mode iff it does in the other --------------------------- *)
  Definition isS {A} (o : option A) : bool := match o with Some _ => true | None => false end.
  Lemma stamp_list_isS (f g : elem -> option selem) es :
    Forall (fun e => isS (f e) = isS (g e)) es -> isS (stamp_list f es) = isS (stamp_list g es).
  Proof.
    induction 1 as [|e es He Hes IH]; simpl; auto.
    destruct (f e), (g e); simpl in He; try discriminate; auto.
    destruct (stamp_list f es), (stamp_list g es); simpl in IH; try discriminate; auto.
  Qed.
  Definition tags_ok (md : smode) (T : Q) : Prop := forall l, tag_ok (stamp_tag md T l) = true.
  Lemma stamp_elem_isS md1 T1 md2 T2 : tags_ok md1 T1 -> tags_ok md2 T2 ->
    forall e plat, isS (stamp_elem md1 T1 plat e) = isS (stamp_elem md2 T2 plat e).
  Proof.
    intros K1 K2. induction e as [m|l es IH] using elem_ind'; intros plat; simpl; auto.
    rewrite (K1 l), (K2 l). destruct (check_subtime plat l); simpl; auto.
    assert (E : isS (stamp_list (stamp_elem md1 T1 l) es) = isS (stamp_list (stamp_elem md2 T2 l) es)).
    { apply stamp_list_isS. eapply Forall_impl; [|exact IH]. intros e He. apply He. }
    destruct (stamp_list (stamp_elem md1 T1 l) es), (stamp_list (stamp_elem md2 T2 l) es); simpl in E; try discriminate; auto.
  Qed.
  Lemma stamp_bundle_isS md1 T1 md2 T2 lat es : tags_ok md1 T1 -> tags_ok md2 T2 ->
    isS (stamp_bundle md1 T1 lat es) = isS (stamp_bundle md2 T2 lat es).
  Proof.
    intros K1 K2. unfold stamp_bundle, stamp_elems. rewrite (K1 lat), (K2 lat).
    assert (E : isS (stamp_list (stamp_elem md1 T1 lat) es) = isS (stamp_list (stamp_elem md2 T2 lat) es)).
    { apply stamp_list_isS. apply Forall_forall. intros e _. apply stamp_elem_isS; auto. }
    destruct (stamp_list (stamp_elem md1 T1 lat) es), (stamp_list (stamp_elem md2 T2 lat) es); simpl in E; try discriminate; auto.
  Qed.
  Lemma tags_ok_nrt T : 0 <= T -> tags_ok (MNrt true) T.
  Proof.
    intros H l. unfold tag_ok. apply Z.leb_le. rewrite stamp_tag_nrt.
    pose proof (lat_val_nonneg l). pose proof two32_pos.
    assert (0 <= (lat_val l + T) * two32) by nra.
    rewrite Qtrunc_nonneg by auto. apply Qfloor_nonneg. auto.
  Qed.
  Lemma tags_ok_rt off T : 0 <= T -> (0 <= off)%Z -> tags_ok (MRt off) T.
  Proof.
    intros H Ho l. unfold tag_ok. apply Z.leb_le. unfold stamp_tag. destruct (lat_immediate l); [lia|].
    unfold elapsed_to_osc. pose proof (lat_val_nonneg l). pose proof two32_pos.
    assert (0 <= (lat_val l + T) * two32) by nra.
    rewrite Qtrunc_nonneg by auto. pose proof (Qfloor_nonneg _ H2). lia.
  Qed.

  Lemma send_sim off na nb org T T' lat es : nsim na nb -> T' == T + t0 -> 0 <= T -> 0 <= t0 -> (0 <= off)%Z ->
    nsim (fst (nrt_send None na (Some org) T lat es)) (fst (nrt_send (Some off) nb (Some org) T' lat es)) /\
    snd (nrt_send None na (Some org) T lat es) = snd (nrt_send (Some off) nb (Some org) T' lat es).
  Proof.
    intros H Ht Hn H0 Ho. unfold nrt_send. cbn [send_mode inside].
    assert (HT' : 0 <= T') by lra.
    pose proof (stamp_bundle_isS (MNrt true) T (MRt off) T' lat es (tags_ok_nrt T Hn) (tags_ok_rt off T' HT' Ho)) as E.
    destruct (stamp_bundle (MNrt true) T lat es) as [sb|] eqn:E1;
      destruct (stamp_bundle (MRt off) T' lat es) as [sb'|] eqn:E2; simpl in E; try discriminate; cbn [fst snd].
    - split; auto.
      destruct (stamp_bundle_shape _ _ _ _ _ E1) as (ss & -> & _).
      destruct (stamp_bundle_shape _ _ _ _ _ E2) as (ss' & -> & _).
      apply add_log_sim.
      + destruct H as (Hq & Hc & Ha & Hb & Hl). unfold nsim, score_add. simpl. repeat split; auto.
      + simpl. repeat split; auto. rewrite stamp_time_nrt_inside, stamp_time_rt. lra.
    - split; auto. apply add_log_sim; auto. simpl. repeat split; auto.
  Qed.

  Lemma tempo_sim off na nb org T T' i v : nsim na nb ->
    nsim (fst (nrt_set_tempo None repaired na org T i v)) (fst (nrt_set_tempo (Some off) repaired nb org T' i v)) /\
    snd (nrt_set_tempo None repaired na org T i v) = snd (nrt_set_tempo (Some off) repaired nb org T' i v).
  Proof.
    intros H. pose proof H as (Hq & Hc & Ha & Hb & Hl). unfold nrt_set_tempo. rewrite Ha, Hb.
    destruct i; simpl; (split; [apply add_log_sim; auto; simpl; auto|reflexivity]).
  Qed.
End Sim.

(* ---- xstate level --------------------------------------------------------------------------------- *)
Ltac unpack_sim S :=
  let N := fresh "N" in let R := fresh "R" in
  destruct S as (N & ? & ? & ? & ? & ? & R).

Ltac ssplit := unfold sim; simpl; split; [try assumption | repeat split; auto].

Section XSim.
  Context (gen : Z -> list Z -> Z -> Z) (off : Z) (p : xprog) (t0 : Q).
  Hypothesis Hp : sys_only p.
  Hypothesis Ht0 : 0 <= t0.
  Hypothesis Hoff : (0 <= off)%Z.

  Lemma sim_set_n a b na nb : sim t0 a b -> nsim t0 na nb -> sim t0 (set_n a na) (set_n b nb).
  Proof. intros S H. unpack_sim S. ssplit. Qed.

  Lemma rinv_nth routs rid r : rinv routs -> nth_error routs rid = Some r -> xr_clock r = CSystem /\ aok (xr_rest r).
  Proof. intros H Hn. unfold rinv in H. rewrite Forall_forall in H. apply H. eapply nth_error_In; eauto. Qed.
  Lemma rinv_set routs rid r : rinv routs -> xr_clock r = CSystem -> aok (xr_rest r) -> rinv (set_nth routs rid r).
  Proof.
    unfold rinv. intros H Hc Ha. revert rid. induction H as [|x l Hx Hl IH]; intros [|rid]; simpl; constructor; auto.
  Qed.

  Lemma sched_sim a b T T' w : sim t0 a b -> T' == T + t0 -> 0 <= T ->
    sim t0 (x_sched true None a T w) (x_sched true (Some off) b T' w).
  Proof.
    intros S Ht Hn. pose proof S as S'. unpack_sim S'. unfold x_sched. rewrite H.
    destruct (nth_error (x_routs a) w) as [r|] eqn:E; auto.
    destruct (rinv_nth _ _ _ R E) as [Hc _]. rewrite Hc.
    apply sim_set_n; auto. apply sched_play_sim; auto.
  Qed.
  Lemma sched_all_sim T T' ws : T' == T + t0 -> 0 <= T -> forall a b, sim t0 a b ->
    sim t0 (x_sched_all true None a T ws) (x_sched_all true (Some off) b T' ws).
  Proof.
    intros Ht Hn. unfold x_sched_all. induction ws as [|w ws IH]; intros a b S; simpl; auto.
    apply IH. apply sched_sim; auto.
  Qed.

  Lemma sim_upd a b rid f : sim t0 a b ->
    (forall r, xr_clock r = CSystem /\ aok (xr_rest r) -> xr_clock (f r) = CSystem /\ aok (xr_rest (f r))) ->
    sim t0 (upd_rout a rid f) (upd_rout b rid f).
  Proof.
    intros S Hf. pose proof S as S'. unpack_sim S'. unfold upd_rout. rewrite H.
    destruct (nth_error (x_routs a) rid) as [r|] eqn:E; auto.
    ssplit.
    destruct (Hf r (rinv_nth _ _ _ R E)). apply rinv_set; auto.
  Qed.

  (* a primitive that succeeds or raises the same way on both sides *)
  Definition psim (ra rb : xstate * bool) : Prop := sim t0 (fst ra) (fst rb) /\ snd ra = snd rb.

  Lemma x_send_sim a b rid k T T' lat es : sim t0 a b -> T' == T + t0 -> 0 <= T ->
    psim (x_send None a rid k T lat es) (x_send (Some off) b rid k T' lat es).
  Proof.
    intros S Ht Hn. pose proof S as S'. unpack_sim S'. unfold psim, x_send. cbn [fst snd].
    destruct (send_sim t0 off (x_n a) (x_n b) (rid, k) T T' lat es N Ht Hn Ht0 Hoff) as [A B].
    split; auto. apply sim_set_n; auto.
  Qed.

  Lemma x_play_sim a b rid k T T' bd c : sim t0 a b -> T' == T + t0 -> 0 <= T -> c <> CApp ->
    psim (x_play true None p a rid k T bd c) (x_play true (Some off) p b rid k T' bd c).
  Proof.
    intros S Ht Hn Hc. pose proof S as S'. unpack_sim S'. unfold psim, x_play.
    destruct (nth_error (xp_bodies p) bd) as [body|] eqn:Eb; [|split; auto].
    destruct N as (Hq & Hcn & Ha & Hb & Hl). rewrite Ha, Hb, H.
    destruct c as [| |i]; [|congruence|].
    - cbn [clock_ok clock_ok_mode andb fst snd]. split; auto.
      unfold sim. cbn [x_n x_routs x_gens x_conds x_flows x_vals set_n set_xrouts].
      split; [|repeat split; auto].
      + apply sched_play_sim; auto. apply add_log_sim; [unfold nsim; repeat split; auto|].
        simpl. repeat split; auto.
      + unfold rinv. apply Forall_app. split; auto. constructor; auto. simpl. split; auto.
        destruct Hp as [_ Hb']. rewrite Forall_forall in Hb'. apply Hb'. eapply nth_error_In; eauto.
    - assert (E : clock_ok [] (CTempo i) = false) by (simpl; destruct i; reflexivity).
      rewrite E. cbn [andb fst snd]. split; auto.
  Qed.

  Lemma x_tempo_sim a b rid k T T' i v : sim t0 a b ->
    psim (x_tempo None a rid k T i v) (x_tempo (Some off) b rid k T' i v).
  Proof.
    intros S. pose proof S as S'. unpack_sim S'. unfold psim, x_tempo. cbn [fst snd].
    destruct (tempo_sim t0 off (x_n a) (x_n b) (Some (rid, k)) T T' i v N) as [A B].
    split; auto. apply sim_set_n; auto.
  Qed.

  Lemma x_setbeats_sim a b rid k T T' i v : sim t0 a b ->
    psim (x_setbeats None a rid k T i v) (x_setbeats (Some off) b rid k T' i v).
  Proof.
    intros S. pose proof S as S'. unpack_sim S'. destruct N as (Hq & Hc & Ha & Hb & Hl).
    unfold psim, x_setbeats. rewrite Ha, Hb. destruct i; simpl; split; auto.
  Qed.

  Lemma x_seed_sim a b rid s : sim t0 a b -> psim (x_seed a rid s) (x_seed b rid s).
  Proof.
    intros S. pose proof S as S'. unpack_sim S'. unfold psim, x_seed. cbn [fst snd]. split; auto. rewrite H0.
    apply sim_upd; [|intros r Hr; exact Hr].
    ssplit.
  Qed.

  Lemma x_draw_sim a b rid k req : sim t0 a b -> psim (x_draw gen a rid k req) (x_draw gen b rid k req).
  Proof.
    intros S. pose proof S as S'. unpack_sim S'. unfold psim, x_draw. rewrite H, H0.
    destruct (nth_error (x_routs a) rid) as [r|]; [|split; auto].
    destruct (nth_error (x_gens a) (xr_gen r)) as [[seed hist]|]; [|split; auto].
    cbn [fst snd]. split; auto. ssplit. congruence.
  Qed.

  Lemma x_signal_sim a b T T' c : sim t0 a b -> T' == T + t0 -> 0 <= T ->
    psim (x_signal true None a T c) (x_signal true (Some off) b T' c).
  Proof.
    intros S Ht Hn. pose proof S as S'. unpack_sim S'. unfold psim, x_signal. rewrite H1.
    destruct (nth_error (x_conds a) c) as [[t ws]|]; [|split; auto].
    destruct t; [|split; auto]. cbn [fst snd]. split; auto.
    apply sched_all_sim; auto. ssplit.
  Qed.
  Lemma x_settest_sim a b c t : sim t0 a b -> psim (x_settest a c t) (x_settest b c t).
  Proof.
    intros S. pose proof S as S'. unpack_sim S'. unfold psim, x_settest. rewrite H1.
    destruct (nth_error (x_conds a) c) as [[t' ws]|]; [|split; auto].
    cbn [fst snd]. split; auto. ssplit.
  Qed.
  Lemma x_flowset_sim a b T T' f v : sim t0 a b -> T' == T + t0 -> 0 <= T ->
    psim (x_flowset true None a T f v) (x_flowset true (Some off) b T' f v).
  Proof.
    intros S Ht Hn. pose proof S as S'. unpack_sim S'. unfold psim, x_flowset. rewrite H2.
    destruct (nth_error (x_flows a) f) as [[[x|] ws]|]; try (split; auto; fail).
    cbn [fst snd]. split; auto. apply sched_all_sim; auto. ssplit.
  Qed.
  Lemma x_flowread_sim a b rid k f : sim t0 a b -> psim (x_flowread a rid k f) (x_flowread b rid k f).
  Proof.
    intros S. pose proof S as S'. unpack_sim S'. unfold psim, x_flowread. rewrite H2.
    destruct (nth_error (x_flows a) f) as [[v ws]|]; [|split; auto].
    cbn [fst snd]. split; auto. ssplit. congruence.
  Qed.
  Lemma x_pause_sim a b rid bd : sim t0 a b -> psim (x_pause a rid bd) (x_pause b rid bd).
  Proof.
    intros S. pose proof S as S'. unpack_sim S'. unfold psim, x_pause. rewrite H.
    destruct (latest bd (x_routs a)) as [t|]; [|split; auto].
    destruct (Nat.eqb t rid); [split; auto|]. cbn [fst snd]. split; auto.
    apply sim_upd; auto. intros r Hr. destruct (xr_st r); exact Hr.
  Qed.
  Lemma x_resume_sim a b rid T T' bd : sim t0 a b -> T' == T + t0 -> 0 <= T ->
    psim (x_resume true None a rid T bd) (x_resume true (Some off) b rid T' bd).
  Proof.
    intros S Ht Hn. pose proof S as S'. unpack_sim S'. unfold psim, x_resume. rewrite H.
    destruct (latest bd (x_routs a)) as [t|]; [|split; auto].
    destruct (Nat.eqb t rid); [split; auto|].
    destruct (nth_error (x_routs a) t) as [r|]; [|split; auto].
    destruct (xr_st r); try (split; auto; fail).
    cbn [fst snd]. split; auto. apply sched_sim; auto. apply sim_upd; auto.
  Qed.

  (* ---- a segment ---------------------------------------------------------------------------------- *)
  Definition oc_ok (oc : xoutcome) : Prop :=
    match oc with XOYield d rest => 0 <= d /\ aok rest | XOHang rest => aok rest | _ => True end.

  Lemma xrun_sim : forall acts a b rid k T T', sim t0 a b -> T' == T + t0 -> 0 <= T -> aok acts ->
    sim t0 (fst (xrun gen true None p a rid k T CSystem acts)) (fst (xrun gen true (Some off) p b rid k T' CSystem acts)) /\
    snd (xrun gen true None p a rid k T CSystem acts) = snd (xrun gen true (Some off) p b rid k T' CSystem acts) /\
    oc_ok (snd (xrun gen true None p a rid k T CSystem acts)).
  Proof.
    induction acts as [|x acts IH]; intros a b rid k T T' S Ht Hn Hok.
    - simpl. auto.
    - inversion Hok as [|? ? Hx Hrest]; subst.
      assert (STEP : forall ra rb, psim ra rb ->
                sim t0 (fst (if snd ra then xrun gen true None p (fst ra) rid k T CSystem acts else (fst ra, XORaise)))
                       (fst (if snd rb then xrun gen true (Some off) p (fst rb) rid k T' CSystem acts else (fst rb, XORaise))) /\
                snd (if snd ra then xrun gen true None p (fst ra) rid k T CSystem acts else (fst ra, XORaise)) =
                snd (if snd rb then xrun gen true (Some off) p (fst rb) rid k T' CSystem acts else (fst rb, XORaise)) /\
                oc_ok (snd (if snd ra then xrun gen true None p (fst ra) rid k T CSystem acts else (fst ra, XORaise)))).
      { intros ra rb [A B]. rewrite <- B. destruct (snd ra).
        - apply IH; auto.
        - simpl. auto. }
      pose proof S as S'. unpack_sim S'.
      destruct x; cbn [xrun].
      + simpl. simpl in Hx. auto.
      + apply STEP. apply x_send_sim; auto.
      + apply STEP. apply x_play_sim; auto.
      + apply STEP. apply x_play_sim; auto. discriminate.
      + apply STEP. apply x_tempo_sim; auto.
      + apply STEP. apply x_setbeats_sim; auto.
      + apply STEP. apply x_seed_sim; auto.
      + apply STEP. apply x_draw_sim; auto.
      + rewrite H1. destruct (nth_error (x_conds a) c) as [[t ws]|]; [|simpl; auto].
        destruct t; simpl; [split; auto; split; auto; split; auto; lra|].
        split; auto. ssplit.
      + apply STEP. apply x_signal_sim; auto.
      + apply STEP. apply x_settest_sim; auto.
      + rewrite H2. destruct (nth_error (x_flows a) f) as [[[v|] ws]|]; simpl; auto.
        * split; auto. split; auto. split; [lra|]. constructor; simpl; auto.
        * split; [|split; auto; constructor; simpl; auto]. ssplit.
      + apply STEP. apply x_flowread_sim; auto.
      + apply STEP. apply x_flowset_sim; auto.
      + apply STEP. apply x_pause_sim; auto.
      + apply STEP. apply x_resume_sim; auto.
      + simpl. auto.
      + simpl. auto.
  Qed.

  (* ---- one wake-up ---------------------------------------------------------------------------------- *)
  Lemma wake_sim a b e e' : sim t0 a b -> ent_sim t0 e e' ->
    sim t0 (xnrt_wake gen true p a e) (xrt_wake gen off p b e').
  Proof.
    intros Sm (E1 & E2 & E3 & E4 & E5 & E6). pose proof Sm as S'. unpack_sim S'.
    unfold xnrt_wake, xrt_wake. rewrite E3, E4, E5, H.
    assert (S0 : forall m m', sim t0 (set_n a (set_mtime (x_n a) m)) (set_n b (set_mtime (x_n b) m'))).
    { intros. apply sim_set_n; auto. }
    destruct (nth_error (x_routs a) (e_rid e)) as [r|] eqn:Er; [|apply S0].
    destruct (rinv_nth _ _ _ R Er) as [Rc Ra].
    destruct (xr_st r); try apply S0.
    set (T := e_time e). cbn [b2s n_tcs set_mtime s2b].
    set (T' := Qred (e_time e')).
    assert (HT : T' == T + t0) by (unfold T', T; rewrite Qred_correct; exact E1).
    set (a1 := set_n a (add_log (set_mtime (x_n a) T) (EvResume (e_rid e) (xr_k r) CSystem T (Qred T)))).
    set (b1 := set_n b (add_log (set_mtime (x_n b) T') (EvResume (e_rid e) (xr_k r) CSystem T' (Qred T')))).
    assert (S1 : sim t0 a1 b1).
    { apply sim_set_n; auto. apply add_log_sim; auto. simpl. auto. }
    destruct (xrun_sim (xr_rest r) a1 b1 (e_rid e) (xr_k r) T T' S1 HT E6 Ra) as (A & B & C).
    destruct (xrun gen true None p a1 (e_rid e) (xr_k r) T CSystem (xr_rest r)) as [a2 oc].
    destruct (xrun gen true (Some off) p b1 (e_rid e) (xr_k r) T' CSystem (xr_rest r)) as [b2 oc'].
    cbn [fst snd] in A, B, C. subst oc'. unfold x_after.
    destruct oc as [d rest|rest| |]; simpl in C.
    - destruct C as [Cd Cr].
      assert (U : sim t0 (upd_rout a2 (e_rid e) (with_rest rest (S (xr_k r)) RSusp))
                         (upd_rout b2 (e_rid e) (with_rest rest (S (xr_k r)) RSusp))).
      { apply sim_upd; auto. intros r0 [X Y]. simpl. auto. }
      pose proof U as U'. unpack_sim U'.
      apply sim_set_n; auto.
      apply xpush_sim; auto.
      + rewrite Qred_correct. unfold T. lra.
      + rewrite Qred_correct. unfold T. lra.
    - apply sim_upd; auto. intros r0 [X Y]. simpl. auto.
    - assert (U : sim t0 (upd_rout a2 (e_rid e) (with_rest [] (S (xr_k r)) RDone))
                         (upd_rout b2 (e_rid e) (with_rest [] (S (xr_k r)) RDone))).
      { apply sim_upd; auto. intros r0 [X Y]. simpl. split; auto. constructor. }
      pose proof U as U'. unpack_sim U'. apply sim_set_n; auto. apply add_log_sim; auto. simpl. auto.
    - assert (U : sim t0 (upd_rout a2 (e_rid e) (with_rest [] (S (xr_k r)) RDone))
                         (upd_rout b2 (e_rid e) (with_rest [] (S (xr_k r)) RDone))).
      { apply sim_upd; auto. intros r0 [X Y]. simpl. split; auto. constructor. }
      pose proof U as U'. unpack_sim U'. apply sim_set_n; auto. apply add_log_sim; auto. simpl. auto.
  Qed.

  (* ---- executions ----------------------------------------------------------------------------------- *)
  Lemma bad_sticky sched : forall s, xs_bad s = true -> xs_bad (fold_left (xrt_step gen off p) sched s) = true.
  Proof.
    induction sched as [|ch l IH]; intros s H; simpl; auto. apply IH.
    destruct ch as [rid t]. unfold xrt_step.
    destruct (find_rid rid (n_q (x_n (xs s)))) as [e0|]; simpl; auto.
    destruct (pop_clock (e_clock e0) (n_q (x_n (xs s)))) as [[e rest]|]; simpl; auto.
    destruct (Nat.eqb (e_rid e) rid); simpl; auto.
  Qed.

  Lemma find_rid_in rid q e : find_rid rid q = Some e -> In e q.
  Proof.
    induction q as [|x q IH]; simpl; [discriminate|]. destruct (Nat.eqb (e_rid x) rid).
    - intros H; inversion H; auto.
    - intros H; right; auto.
  Qed.

  Lemma step_sim a s ch : sim t0 a (xs s) -> xs_bad (xrt_step gen off p s ch) = false ->
    exists e rest, n_q (x_n a) = e :: rest /\
      sim t0 (xnrt_wake gen true p (set_n a (set_q (x_n a) rest)) e) (xs (xrt_step gen off p s ch)).
  Proof.
    intros Sm Hs. destruct ch as [rid t]. unfold xrt_step in *.
    pose proof Sm as S'. unpack_sim S'. destruct N as (Hq & Hc & Ha & Hbb & Hl).
    destruct (find_rid rid (n_q (x_n (xs s)))) as [e0|] eqn:Ef; [|simpl in Hs; discriminate].
    assert (C0 : e_clock e0 = CSystem).
    { apply find_rid_in in Ef. clear -Hq Ef. induction Hq as [|x y q q' Hx Hq IH]; simpl in Ef; [tauto|].
      destruct Ef as [<-|Ef]; auto. destruct Hx as (_ & _ & _ & X & _). exact X. }
    rewrite C0 in *.
    destruct (n_q (x_n a)) as [|x q] eqn:Eqa; destruct (n_q (x_n (xs s))) as [|y q'] eqn:Eqb;
      try (inversion Hq; fail); [simpl in Ef; discriminate|].
    inversion Hq as [|? ? ? ? Hx Hq']; subst.
    cbn [pop_clock] in *.
    assert (Cy : is_clock CSystem y = true).
    { destruct Hx as (_ & _ & _ & X & _). unfold is_clock. rewrite X. reflexivity. }
    rewrite Cy in *.
    destruct (Nat.eqb (e_rid y) rid) eqn:Ey; [|simpl in Hs; discriminate].
    exists x, q. split; auto. cbn [xs].
    apply wake_sim; auto. apply sim_set_n; auto. apply set_q_sim; auto.
    unfold nsim. rewrite Eqa, Eqb. repeat split; auto.
  Qed.

  Lemma run_sim : forall sched a s, sim t0 a (xs s) ->
    xs_bad (fold_left (xrt_step gen off p) sched s) = false ->
    sim t0 (xnrt_loop gen true p (length sched) a) (xs (fold_left (xrt_step gen off p) sched s)).
  Proof.
    induction sched as [|ch l IH]; intros a s Sm Hb; simpl; auto.
    simpl in Hb.
    assert (Hs : xs_bad (xrt_step gen off p s ch) = false).
    { destruct (xs_bad (xrt_step gen off p s ch)) eqn:E; auto. rewrite (bad_sticky l _ E) in Hb. discriminate. }
    destruct (step_sim a s ch Sm Hs) as (e & rest & Eq & Sw). rewrite Eq.
    apply IH; auto.
  Qed.

  Lemma init_sim : sim t0 (xnrt_init p) (xs (xrt_init p t0)).
  Proof.
    destruct Hp as [Htp Hbod]. unfold xnrt_init, xrt_init, x_init. cbn [xs]. rewrite Htp. cbn [map].
    destruct (nth_error (xp_bodies p) 0) as [body|] eqn:Eb.
    - unfold sim. cbn [x_n x_routs x_gens x_conds x_flows x_vals]. split; [|repeat split; auto].
      + apply sched_play_sim; try lra.
        apply add_log_sim; [|simpl; repeat split; auto; lra].
        unfold nsim. simpl. repeat split; auto.
      + constructor; [|constructor]. simpl. split; auto.
        rewrite Forall_forall in Hbod. apply Hbod. eapply nth_error_In; eauto.
    - unfold sim. simpl. split; [unfold nsim; simpl; repeat split; auto; constructor|repeat split; auto; constructor].
  Qed.
End XSim.

(* ---- from the simulation to the observation ------------------------------------------------------------ *)
Lemma Forall2_rev {A B} (R : A -> B -> Prop) l l' : Forall2 R l l' -> Forall2 R (rev l) (rev l').
Proof.
  induction 1; simpl; [constructor|]. apply Forall2_app; auto.
Qed.
Lemma Forall2_flat_map {A B C} (R : A -> B -> Prop) (f : A -> list C) (g : B -> list C) l l' :
  Forall2 R l l' -> (forall a b, R a b -> f a = g b) -> flat_map f l = flat_map g l'.
Proof. intros H Hfg. induction H; simpl; auto. rewrite (Hfg _ _ H), IHForall2. reflexivity. Qed.

Lemma Qred_shift x y t0 : y == x + t0 -> Qred (y - t0) = Qred (x - 0).
Proof. intros H. apply Qred_complete. lra. Qed.

Lemma obs_of_sim t0 a b : sim t0 a b -> obs_of t0 b = obs_of 0 a.
Proof.
  intros S. unpack_sim S. destruct N as (_ & _ & _ & _ & Hl). unfold obs_of.
  pose proof (Forall2_rev _ _ _ Hl) as Hr.
  f_equal.
  - f_equal. symmetry. eapply Forall2_flat_map; [exact Hr|].
    intros ev ev' He. destruct ev, ev'; simpl in He; try tauto; unfold emission; auto.
    destruct He as (-> & -> & -> & He). destruct origin0 as [o|]; auto.
    destruct res as [sb|], res0 as [sb'|]; simpl in He; try tauto; auto.
    rewrite (Qred_shift _ _ _ He). reflexivity.
  - symmetry. eapply Forall2_flat_map; [exact Hr|].
    intros ev ev' He. destruct ev, ev'; simpl in He; try tauto; unfold resumption; auto.
    destruct He as (-> & -> & _ & He). rewrite (Qred_shift _ _ _ He). reflexivity.
  - congruence.
  - symmetry. eapply Forall2_flat_map; [exact Hr|].
    intros ev ev' He. destruct ev, ev'; simpl in He; try tauto; unfold ending; auto.
    destruct He as (-> & -> & ->). reflexivity.
Qed.

Lemma rt_nrt_agree_sys gen off p t0 sched : sys_only p -> 0 <= t0 -> (0 <= off)%Z ->
  xs_bad (xrt_run gen off p t0 sched) = false ->
  obs_rt gen off p t0 sched = obs_nrt gen p (length sched).
Proof.
  intros Hp Ht Ho Hb. unfold obs_rt, obs_nrt. apply obs_of_sim.
  unfold xrt_run in *. apply run_sim; auto. apply init_sim; auto.
Qed.

(* the non-real-time run stops when the queue is empty: more fuel changes nothing *)
Lemma nrt_loop_done gen p : forall n st, n_q (x_n st) = [] -> xnrt_loop gen true p n st = st.
Proof. intros [|n] st H; simpl; auto. rewrite H. reflexivity. Qed.
Lemma nrt_loop_plus gen p : forall n m st, xnrt_loop gen true p (n + m) st = xnrt_loop gen true p m (xnrt_loop gen true p n st).
Proof.
  induction n as [|n IH]; intros m st; simpl; auto.
  destruct (n_q (x_n st)) as [|e rest] eqn:E; auto.
  destruct m; simpl; auto. rewrite E. reflexivity.
Qed.
Lemma nrt_loop_stable gen p n m st : n_q (x_n (xnrt_loop gen true p n st)) = [] -> (n <= m)%nat ->
  xnrt_loop gen true p m st = xnrt_loop gen true p n st.
Proof.
  intros H L. replace m with (n + (m - n))%nat by lia. rewrite nrt_loop_plus. apply nrt_loop_done. exact H.
Qed.

Lemma sim_q_empty t0 a b : sim t0 a b -> n_q (x_n b) = [] -> n_q (x_n a) = [].
Proof.
  intros S H. unpack_sim S. destruct N as (Hq & _). rewrite H in Hq. inversion Hq. reflexivity.
Qed.

(* independence from the oracle: two complete real-time executions (any start instants, any clock
   readings, any enabled orders) of one program give the same observation *)
Lemma rt_oracle_independent gen off1 off2 p t1 t2 s1 s2 : sys_only p ->
  0 <= t1 -> 0 <= t2 -> (0 <= off1)%Z -> (0 <= off2)%Z ->
  xs_bad (xrt_run gen off1 p t1 s1) = false -> xs_bad (xrt_run gen off2 p t2 s2) = false ->
  n_q (x_n (xs (xrt_run gen off1 p t1 s1))) = [] -> n_q (x_n (xs (xrt_run gen off2 p t2 s2))) = [] ->
  obs_rt gen off1 p t1 s1 = obs_rt gen off2 p t2 s2.
Proof.
  intros Hp H1 H2 O1 O2 B1 B2 Q1 Q2.
  rewrite (rt_nrt_agree_sys gen off1 p t1 s1), (rt_nrt_agree_sys gen off2 p t2 s2); auto.
  assert (S1 : sim t1 (xnrt_loop gen true p (length s1) (xnrt_init p)) (xs (xrt_run gen off1 p t1 s1))).
  { unfold xrt_run in *. apply run_sim; auto. apply init_sim; auto. }
  assert (S2 : sim t2 (xnrt_loop gen true p (length s2) (xnrt_init p)) (xs (xrt_run gen off2 p t2 s2))).
  { unfold xrt_run in *. apply run_sim; auto. apply init_sim; auto. }
  pose proof (sim_q_empty _ _ _ S1 Q1) as E1. pose proof (sim_q_empty _ _ _ S2 Q2) as E2.
  unfold obs_nrt. destruct (Nat.le_ge_cases (length s1) (length s2)) as [L|L].
  - rewrite (nrt_loop_stable gen p (length s1) (length s2) _ E1 L). reflexivity.
  - rewrite (nrt_loop_stable gen p (length s2) (length s1) _ E2 L). reflexivity.
Qed.
