(* C02 -- the library's description reader (mirror: read_desc) applied to written bytes *)
From Coq Require Import ZArith List Bool Lia ZifyBool String.
Import ListNotations.
Require Import SC3.model.Scgf SC3.proofs.C02_scgf.
Open Scope Z_scope.

Lemma skipn_magic : forall r : bytes, skipn 4 (magic ++ r) = r.
Proof. reflexivity. Qed.

(* the reader sees exactly the written structure; it ignores everything after the variant count *)
Lemma read_desc_enc : forall d, def_ok d = true -> read_desc (enc_def d) = desc_of_def d.
Proof.
  intros d H. unfold read_desc. rewrite (by_def d H). simpl negb. cbv iota.
  pose proof H as Hok. unfold def_ok in H. split_andb.
  unfold enc_def, enc_header, enc_body, pbind. repeat rewrite <- app_assoc.
  cbv beta. rewrite skipn_magic.
  rewrite (rd_i32_rt 2) by reflexivity. rewrite (rd_i16_rt 1) by reflexivity.
  change (2 <? 2) with false. cbv iota. cbv beta.
  rewrite (rd_core_w_rt lib_rd_pstr RT_lib_pstr) by assumption.
  rewrite rd_i16_rt by assumption. unfold pret. reflexivity.
Qed.

Lemma reader_recovers_l : forall d bs, write_def d = Some bs -> read_desc bs = desc_of_def d.
Proof.
  intros d bs H. unfold write_def in H. destruct (def_ok d) eqn:Hok; [|discriminate].
  inversion H; subst. apply read_desc_enc; exact Hok.
Qed.

(* ------------------------------------------------------------------ *)
(* what the recovered description contains                             *)

Lemma existsb_bytes_In : forall x l, existsb (bytes_eqb x) l = true <-> In x l.
Proof.
  intros x l. rewrite existsb_exists. split.
  - intros [y [Hy He]]. apply bytes_eqb_eq in He. subst. exact Hy.
  - intros Hx. exists x. split; [exact Hx | apply bytes_eqb_refl].
Qed.

Lemma upd_length : forall {A} (l l' : list A) i f, upd l i f = Some l' -> List.length l' = List.length l.
Proof.
  intros A l l' i f H. unfold upd in H.
  destruct ((0 <=? i) && (i <? zlen l)) eqn:C; [|discriminate].
  destruct (nth_error l (Z.to_nat i)) as [x|] eqn:E; [|discriminate].
  assert (Hlt : (Z.to_nat i < List.length l)%nat) by (apply nth_error_Some; rewrite E; discriminate).
  assert (Hl : l' = firstn (Z.to_nat i) l ++ f x :: skipn (S (Z.to_nat i)) l) by (injection H; intros; subst; reflexivity).
  rewrite Hl, app_length, firstn_length. cbn [List.length]. rewrite skipn_length. lia.
Qed.

Lemma assign_names_length : forall names cs cs', assign_names cs names = Some cs' -> List.length cs' = List.length cs.
Proof.
  intros names; induction names as [|[n i] r IH]; intros cs cs' H; simpl in H.
  - inversion H; reflexivity.
  - destruct (upd cs i _) as [cs1|] eqn:E; [|discriminate].
    apply IH in H. apply upd_length in E. lia.
Qed.

Lemma set_rates_length : forall n cs from rate cs', set_rates cs from n rate = Some cs' -> List.length cs' = List.length cs.
Proof.
  intros n; induction n as [|n IH]; intros cs from rate cs' H; simpl in H.
  - inversion H; reflexivity.
  - destruct (upd cs from _) as [cs1|] eqn:E; [|discriminate].
    apply IH in H. apply upd_length in E. lia.
Qed.

Lemma read_units_length : forall consts us cs ins outs before cs' ins' outs',
  read_units consts cs ins outs before us = Some (cs', ins', outs') -> List.length cs' = List.length cs.
Proof.
  intros consts us; induction us as [|u r IH]; intros cs ins outs before cs' ins' outs' H; simpl in H.
  - inversion H; reflexivity.
  - repeat match type of H with
           | context [if ?c then _ else _] => destruct c eqn:?
           | context [match ?x with _ => _ end] => destruct x eqn:?
           end; try discriminate;
    apply IH in H; try exact H.
    match goal with E : set_rates _ _ _ _ = Some _ |- _ => apply set_rates_length in E; lia end.
Qed.

Lemma merge_length : forall cs, List.length (fst (merge_defaults cs)) = List.length cs.
Proof.
  induction cs as [|c r IH]; [reflexivity|]. simpl.
  destruct (merge_defaults r) as [r' pending]. simpl in IH.
  destruct (c_name c); simpl; lia.
Qed.

(* the merge: a named slot collects the default words of the unnamed slots that follow it *)
Fixpoint unnamed_run (cs : list ctl) : list Z :=
  match cs with
  | [] => []
  | c :: r => match c_name c with None => c_defs c ++ unnamed_run r | Some _ => [] end
  end.
Fixpoint merged (cs : list ctl) : list ctl :=
  match cs with
  | [] => []
  | c :: r => match c_name c with
              | Some _ => mkCtl (c_name c) (c_rate c) (c_defs c ++ unnamed_run r)
              | None => c
              end :: merged r
  end.

Lemma merge_defaults_spec : forall cs, merge_defaults cs = (merged cs, unnamed_run cs).
Proof.
  induction cs as [|c r IH]; [reflexivity|]. simpl. rewrite IH.
  destruct (c_name c); reflexivity.
Qed.

Lemma merged_names : forall cs, map c_name (merged cs) = map c_name cs.
Proof. induction cs as [|c r IH]; [reflexivity|]. simpl. rewrite IH. destruct (c_name c) eqn:E; simpl; rewrite ?E; reflexivity. Qed.
Lemma merged_rates : forall cs, map c_rate (merged cs) = map c_rate cs.
Proof. induction cs as [|c r IH]; [reflexivity|]. simpl. rewrite IH. destruct (c_name c); reflexivity. Qed.

Local Opaque merge_defaults.

Lemma desc_fields : forall d ds, desc_of_def d = Some ds ->
  ds_name ds = d_name d
  /\ ds_cnames ds = map fst (d_names d)
  /\ ds_hasvar ds = (0 <? zlen (d_variants d))
  /\ (ds_gate ds = true <-> In gate_name (named (ds_ctls ds)))
  /\ List.length (ds_ctls ds) = List.length (d_ctl d)
  /\ has_dup (named (ds_ctls ds)) = false.
Proof.
  intros d ds H. unfold desc_of_def, desc_of in H.
  destruct (assign_names _ (d_names d)) as [cs1|] eqn:E1; [|discriminate].
  destruct (read_units (d_consts d) cs1 [] [] [] (d_units d)) as [[[cs2 ins] outs]|] eqn:E2; [|discriminate].
  apply assign_names_length in E1. rewrite map_length in E1.
  apply read_units_length in E2.
  destruct cs2 as [|c cs2].
  - inversion H; subst; simpl.
    repeat split; try reflexivity; try (simpl in *; lia); try (intros; discriminate); try (intros []).
  - destruct (c_name c) eqn:Ec; [|discriminate].
    destruct (existsb (bytes_eqb qmark) _) eqn:Eq; [discriminate|].
    destruct (has_dup _) eqn:Ed; [discriminate|].
    destruct (255 <? _) eqn:E255; [discriminate|].
    inversion H; subst; cbn [ds_name ds_cnames ds_hasvar ds_gate ds_ctls]. repeat split; try reflexivity.
    + apply existsb_bytes_In.
    + apply existsb_bytes_In.
    + rewrite merge_length. lia.
    + exact Ed.
Qed.

(* the controls of the description = the slots in order, merged as above, where the slot names and
   rates are those the reader assigned *)
Lemma desc_ctls_merged : forall d ds, desc_of_def d = Some ds ->
  exists cs, ds_ctls ds = merged cs
             /\ List.length cs = List.length (d_ctl d)
             /\ map c_name (ds_ctls ds) = map c_name cs
             /\ map c_rate (ds_ctls ds) = map c_rate cs.
Proof.
  intros d ds H. unfold desc_of_def, desc_of in H.
  destruct (assign_names _ (d_names d)) as [cs1|] eqn:E1; [|discriminate].
  destruct (read_units (d_consts d) cs1 [] [] [] (d_units d)) as [[[cs2 ins] outs]|] eqn:E2; [|discriminate].
  apply assign_names_length in E1. rewrite map_length in E1.
  apply read_units_length in E2.
  exists cs2. destruct cs2 as [|c cs2].
  - inversion H; subst; simpl. repeat split; try reflexivity. simpl in *; lia.
  - destruct (c_name c) eqn:Ec; [|discriminate].
    destruct (existsb (bytes_eqb qmark) _) eqn:Eq; [discriminate|].
    destruct (has_dup _) eqn:Ed; [discriminate|].
    destruct (255 <? _) eqn:E255; [discriminate|].
    inversion H; subst. cbn [ds_ctls]. rewrite merge_defaults_spec. cbn [fst].
    repeat split; [lia | apply merged_names | apply merged_rates].
Qed.

Local Transparent merge_defaults.

(* ------------------------------------------------------------------ *)
(* def_name_from_bytes; the regenerated rate tables                    *)

Lemma def_name_of_enc : forall d, def_ok d = true -> def_name_of (enc_def d) = Some (d_name d).
Proof.
  intros d H. unfold def_name_of. rewrite (by_def d H). simpl negb. cbv iota.
  unfold def_ok in H. split_andb.
  unfold enc_def, enc_header, enc_body, pbind. repeat rewrite <- app_assoc.
  cbv beta. rewrite skipn_magic.
  rewrite (rd_i32_rt 2) by reflexivity. rewrite (rd_i16_rt 1) by reflexivity.
  rewrite lib_rd_pstr_rt by assumption. reflexivity.
Qed.

(* UGen._rate_number and SynthDesc._RATE_NAME (both regenerated) are inverse to each other *)
Lemma rate_tables_consistent_l :
  forallb (fun p => match nth_error Gen_scgftables.gen_rate_names (Z.to_nat (snd p)) with
                    | Some n => String.eqb n (fst p) | None => false end) Gen_scgftables.gen_rate_number = true
  /\ nth_error Gen_scgftables.gen_rate_names (Z.to_nat Gen_scgftables.gen_rate_default) = Some "scalar"%string
  /\ List.length Gen_scgftables.gen_rate_names = S (List.length Gen_scgftables.gen_rate_number).
Proof. vm_compute. repeat split. Qed.

(* ------------------------------------------------------------------ *)
(* In/Out bus units: starting channel -> control name, for any control unit *)

Lemma nth_error_split : forall {A} (l : list A) n x, nth_error l n = Some x ->
  l = firstn n l ++ x :: skipn (S n) l /\ List.length (firstn n l) = n.
Proof.
  intros A l; induction l as [|a l IH]; intros [|n] x H; simpl in H; try discriminate.
  - inversion H; subst. split; reflexivity.
  - destruct (IH n x H) as [E L]. split; [simpl; f_equal; exact E | simpl; f_equal; exact L].
Qed.

Lemma nth_error_mid : forall {A} (l1 l2 : list A) y k,
  nth_error (l1 ++ y :: l2) k =
  if Nat.eqb k (List.length l1) then Some y
  else if Nat.ltb k (List.length l1) then nth_error l1 k else nth_error l2 (k - S (List.length l1)).
Proof.
  intros A l1 l2 y k. destruct (Nat.eqb_spec k (List.length l1)) as [E|E].
  - subst. rewrite nth_error_app2 by lia. rewrite Nat.sub_diag. reflexivity.
  - destruct (Nat.ltb_spec k (List.length l1)) as [L|L].
    + apply nth_error_app1; exact L.
    + rewrite nth_error_app2 by lia. destruct (k - List.length l1)%nat as [|m] eqn:Em; [lia|].
      simpl. f_equal. lia.
Qed.

Lemma nth_error_upd : forall {A} (l l' : list A) j f, upd l j f = Some l' ->
  forall k, nth_error l' k = if Nat.eqb k (Z.to_nat j) then option_map f (nth_error l k) else nth_error l k.
Proof.
  intros A l l' j f H k. unfold upd in H.
  destruct ((0 <=? j) && (j <? zlen l)) eqn:C; [|discriminate].
  destruct (nth_error l (Z.to_nat j)) as [x|] eqn:E; [|discriminate].
  assert (Hl : l' = firstn (Z.to_nat j) l ++ f x :: skipn (S (Z.to_nat j)) l) by (injection H; intros; subst; reflexivity).
  destruct (nth_error_split l _ x E) as [Hs Hn].
  rewrite Hl. rewrite nth_error_mid. rewrite Hn.
  destruct (Nat.eqb_spec k (Z.to_nat j)) as [K|K].
  - subst k. rewrite E. reflexivity.
  - rewrite Hs at 3. rewrite nth_error_mid. rewrite Hn.
    destruct (Nat.eqb_spec k (Z.to_nat j)); [contradiction|]. reflexivity.
Qed.

Lemma list_ext : forall {A} (a b : list A), (forall k, nth_error a k = nth_error b k) -> a = b.
Proof.
  intros A a; induction a as [|x a IH]; intros [|y b] H.
  - reflexivity.
  - specialize (H 0%nat); discriminate.
  - specialize (H 0%nat); discriminate.
  - pose proof (H 0%nat) as H0. simpl in H0. inversion H0; subst. f_equal. apply IH. intros k. exact (H (S k)).
Qed.

Lemma upd_keeps_names : forall cs cs' j (g : ctl -> ctl), (forall c, c_name (g c) = c_name c) ->
  upd cs j g = Some cs' -> map c_name cs' = map c_name cs.
Proof.
  intros cs cs' j g Hg H. apply list_ext. intros k. rewrite !nth_error_map.
  rewrite (nth_error_upd _ _ _ _ H k). destruct (Nat.eqb k (Z.to_nat j)); [|reflexivity].
  destruct (nth_error cs k); simpl; [rewrite Hg|]; reflexivity.
Qed.

Lemma set_rates_names : forall n cs from rate cs', set_rates cs from n rate = Some cs' -> map c_name cs' = map c_name cs.
Proof.
  intros n; induction n as [|n IH]; intros cs from rate cs' H; simpl in H.
  - inversion H; reflexivity.
  - destruct (upd cs from _) as [cs1|] eqn:E; [|discriminate].
    apply IH in H. rewrite H. eapply upd_keeps_names; [|exact E]. reflexivity.
Qed.

(* the name the reader leaves on slot i: the LAST name-table entry with that index *)
Fixpoint name_at (names : list (bytes * Z)) (i : Z) (acc : option bytes) : option bytes :=
  match names with
  | [] => acc
  | (n, j) :: r => name_at r i (if j =? i then Some n else acc)
  end.

Lemma assign_names_spec : forall names cs cs', assign_names cs names = Some cs' ->
  forall k, option_map c_name (nth_error cs' k)
            = option_map (fun c => name_at names (Z.of_nat k) (c_name c)) (nth_error cs k).
Proof.
  intros names; induction names as [|[n j] r IH]; intros cs cs' H k; simpl in H.
  - inversion H; subst. simpl. destruct (nth_error cs' k); reflexivity.
  - destruct (upd cs j _) as [cs1|] eqn:E; [|discriminate].
    rewrite (IH cs1 cs' H k). rewrite (nth_error_upd _ _ _ _ E k). simpl name_at.
    assert (Hj : 0 <= j) by (unfold upd in E; destruct ((0 <=? j) && (j <? zlen cs)) eqn:C; [lia | discriminate]).
    destruct (Nat.eqb_spec k (Z.to_nat j)) as [K|K].
    + subst k. rewrite Z2Nat.id by lia. rewrite Z.eqb_refl. destruct (nth_error cs (Z.to_nat j)); reflexivity.
    + replace (j =? Z.of_nat k) with false by (symmetry; apply Z.eqb_neq; lia). reflexivity.
Qed.

Lemma name_at_acc : forall names i n, name_at names i (Some n) <> None.
Proof. induction names as [|[m j] r IH]; intros i n; simpl; [discriminate|]. destruct (j =? i); apply IH. Qed.

Lemma name_at_in : forall names n i acc, NoDup (map snd names) -> In (n, i) names -> name_at names i acc = Some n.
Proof.
  induction names as [|[m j] r IH]; intros n i acc Hnd Hin; [destruct Hin|].
  simpl in Hnd. inversion Hnd as [|? ? Hnotin Hnd']; subst. simpl.
  destruct Hin as [Hin|Hin].
  - inversion Hin; subst. rewrite Z.eqb_refl.
    (* no later entry has index i *)
    clear IH Hnd Hnd'. revert Hnotin. generalize (Some n). induction r as [|[m' j'] r IHr]; intros a Hnotin; [reflexivity|].
    simpl. simpl in Hnotin. destruct (Z.eqb_spec j' i) as [E|E]; [exfalso; apply Hnotin; left; exact E|].
    apply IHr. intros H. apply Hnotin. right. exact H.
  - apply IH; assumption.
Qed.

(* start_of reads only the slot NAMES of the control array *)
Definition start_of_n (consts : list Z) (nm : list (option bytes)) (before : list ugen) (i : inp) : option startch :=
  match i with
  | IConst k =>
    match nth_z consts k with
    | Some w => Some (SConst w)
    | None => None
    end
  | IOut u c =>
    match nth_z before u with
    | None => None
    | Some src =>
      if existsb (bytes_eqb (u_cls src)) control_sub_classes
      then match nth_z nm (c + u_special src) with
           | Some o => Some (match o with Some n => SName n | None => SQ end)
           | None => Some (SUgen u c)
           end
      else Some (SUgen u c)
    end
  end.

Lemma nth_z_map : forall {A B} (f : A -> B) l i, nth_z (map f l) i = option_map f (nth_z l i).
Proof. intros A B f l i. unfold nth_z. destruct (i <? 0); [reflexivity|]. apply nth_error_map. Qed.

Local Opaque is_ctl_cls in_classes out_classes control_sub_classes.

Lemma start_of_names : forall consts cs before i,
  start_of consts cs before i = start_of_n consts (map c_name cs) before i.
Proof.
  intros consts cs before [k|u c]; simpl; [reflexivity|].
  destruct (nth_z before u) as [src|]; [|reflexivity].
  destruct (existsb (bytes_eqb (u_cls src)) control_sub_classes); [|reflexivity].
  rewrite nth_z_map. destruct (nth_z cs (c + u_special src)); reflexivity.
Qed.

(* the In / Out descriptors as a function of the slot names alone *)
Definition io_of (consts : list Z) (nm : list (option bytes)) (before : list ugen) (u : ugen) (nch : Z) : list iodesc :=
  match u_ins u with
  | [] => []
  | i0 :: _ => match start_of_n consts nm before i0 with
               | Some s => [mkIo (u_rate u) nch s (u_cls u)]
               | None => []
               end
  end.
Fixpoint io_ins (consts : list Z) (nm : list (option bytes)) (before us : list ugen) : list iodesc :=
  match us with
  | [] => []
  | u :: r =>
    (if negb (is_ctl_cls (u_cls u)) && existsb (bytes_eqb (u_cls u)) in_classes
     then io_of consts nm before u (zlen (u_outs u)) else [])
    ++ io_ins consts nm (before ++ [u]) r
  end.
Fixpoint io_outs (consts : list Z) (nm : list (option bytes)) (before us : list ugen) : list iodesc :=
  match us with
  | [] => []
  | u :: r =>
    (if negb (is_ctl_cls (u_cls u)) && negb (existsb (bytes_eqb (u_cls u)) in_classes)
     then match assoc_b out_classes (u_cls u) with
          | Some fixed => io_of consts nm before u (zlen (u_ins u) - fixed)
          | None => []
          end
     else [])
    ++ io_outs consts nm (before ++ [u]) r
  end.

Lemma read_units_io : forall consts us cs ins outs before cs' ins' outs',
  read_units consts cs ins outs before us = Some (cs', ins', outs') ->
  ins' = ins ++ io_ins consts (map c_name cs) before us
  /\ outs' = outs ++ io_outs consts (map c_name cs) before us
  /\ map c_name cs' = map c_name cs.
Proof.
  intros consts us; induction us as [|u r IH]; intros cs ins outs before cs' ins' outs' H.
  - simpl in H. inversion H; subst. simpl. rewrite !app_nil_r. repeat split.
  - simpl in H.
    destruct (negb (rate_ok (u_rate u))); [discriminate|].
    destruct (negb (inputs_resolve (zlen consts) (zlen before) (u_ins u))); [discriminate|].
    destruct (match unit_operator u with Some _ => false | None => true end); [discriminate|].
    simpl io_ins. simpl io_outs.
    destruct (is_ctl_cls (u_cls u)) eqn:Ec.
    + destruct (set_rates cs (u_special u) (List.length (u_outs u)) (u_rate u)) as [cs1|] eqn:Es; [|discriminate].
      apply set_rates_names in Es. destruct (IH _ _ _ _ _ _ _ H) as [I1 [I2 I3]].
      rewrite Es in *. simpl. repeat split; assumption.
    + simpl negb. simpl andb.
      destruct (existsb (bytes_eqb (u_cls u)) in_classes) eqn:Ei.
      * unfold io_of. destruct (u_ins u) as [|i0 rest]; [discriminate|].
        rewrite <- start_of_names.
        destruct (start_of consts cs before i0) as [s|]; [|discriminate].
        destruct (IH _ _ _ _ _ _ _ H) as [I1 [I2 I3]]. simpl.
        rewrite I1, I2, <- app_assoc. repeat split; try reflexivity; assumption.
      * simpl. destruct (assoc_b out_classes (u_cls u)) as [fixed|].
        -- unfold io_of. destruct (u_ins u) as [|i0 rest] eqn:Eu; [discriminate|].
           rewrite <- start_of_names.
           destruct (start_of consts cs before i0) as [s|]; [|discriminate].
           destruct (IH _ _ _ _ _ _ _ H) as [I1 [I2 I3]].
           rewrite I1, I2, <- app_assoc. repeat split; try reflexivity; assumption.
        -- destruct (IH _ _ _ _ _ _ _ H) as [I1 [I2 I3]]. repeat split; assumption.
Qed.

(* slot names after the name table has been applied to the all-'?' control array *)
Definition slot_names (d : sdef) : list (option bytes) :=
  map (fun k => name_at (d_names d) (Z.of_nat k) None) (seq 0 (List.length (d_ctl d))).

Lemma reader_io_l : forall d ds, desc_of_def d = Some ds ->
  ds_ins ds = io_ins (d_consts d) (slot_names d) [] (d_units d)
  /\ ds_outs ds = io_outs (d_consts d) (slot_names d) [] (d_units d).
Proof.
  intros d ds H. unfold desc_of_def, desc_of in H.
  destruct (assign_names _ (d_names d)) as [cs1|] eqn:E1; [|discriminate].
  destruct (read_units (d_consts d) cs1 [] [] [] (d_units d)) as [[[cs2 ins] outs]|] eqn:E2; [|discriminate].
  assert (Hn : map c_name cs1 = slot_names d).
  { apply list_ext. intros k. unfold slot_names. rewrite !nth_error_map.
    pose proof (assign_names_spec _ _ _ E1 k) as Hs. rewrite Hs. rewrite nth_error_map.
    pose proof (assign_names_length _ _ _ E1) as Hl. rewrite map_length in Hl.
    destruct (nth_error (d_ctl d) k) as [w|] eqn:Ew.
    - simpl. assert (Hk : (k < List.length (d_ctl d))%nat) by (apply nth_error_Some; rewrite Ew; discriminate).
      rewrite (nth_error_nth' _ 0%nat) by (rewrite seq_length; exact Hk).
      rewrite seq_nth by exact Hk. reflexivity.
    - simpl. assert (Hk : (List.length (d_ctl d) <= k)%nat) by (apply nth_error_None; exact Ew).
      replace (nth_error (seq 0 (List.length (d_ctl d))) k) with (@None nat)
        by (symmetry; apply nth_error_None; rewrite seq_length; exact Hk).
      reflexivity. }
  destruct (read_units_io _ _ _ _ _ _ _ _ _ E2) as [I1 [I2 _]]. rewrite Hn in I1, I2. simpl in I1, I2.
  destruct cs2 as [|c cs2].
  - inversion H; subst; simpl. split; reflexivity.
  - destruct (c_name c) eqn:Ec; [|discriminate].
    destruct (existsb (bytes_eqb qmark) _) eqn:Eq; [discriminate|].
    destruct (has_dup _) eqn:Ed; [discriminate|].
    destruct (255 <? _) eqn:E255; [discriminate|].
    inversion H; subst; simpl. split; reflexivity.
Qed.

(* the mapping itself: a bus input that is output c of ANY control unit (Control / TrigControl /
   LagControl, first or later one) with special index sp is described by the name the table gives to
   slot sp + c *)
Lemma bus_control_name_l : forall d u c src n before consts,
  nth_z before u = Some src ->
  existsb (bytes_eqb (u_cls src)) control_sub_classes = true ->
  NoDup (map snd (d_names d)) ->
  In (n, c + u_special src) (d_names d) ->
  0 <= c + u_special src < zlen (d_ctl d) ->
  start_of_n consts (slot_names d) before (IOut u c) = Some (SName n).
Proof.
  intros d u c src n before consts Hsrc Hcls Hnd Hin Hr. simpl. rewrite Hsrc, Hcls.
  unfold slot_names. rewrite nth_z_map. unfold nth_z.
  replace (c + u_special src <? 0) with false by (symmetry; apply Z.ltb_ge; lia).
  unfold zlen in Hr.
  rewrite (nth_error_nth' _ 0%nat) by (rewrite seq_length; lia).
  rewrite seq_nth by lia. simpl. rewrite Z2Nat.id by lia.
  rewrite (name_at_in _ n _ None Hnd Hin). reflexivity.
Qed.

(* ------------------------------------------------------------------ *)
(* operator units: the reader's table lookup succeeds on the whole range of each operator table *)

Definition row_nonempty (r : list string) : bool := match r with [] => false | _ :: _ => true end.

Lemma table_name_some : forall tab i, forallb row_nonempty tab = true -> 0 <= i < zlen tab ->
  exists nm rest, nth_error tab (Z.to_nat i) = Some (nm :: rest) /\ table_name tab i = Some (bs_of_string nm).
Proof.
  intros tab i Hne Hi. unfold table_name.
  replace (i <? 0) with false by (symmetry; apply Z.ltb_ge; lia).
  replace ((i <? 0) || (zlen tab <=? i)) with false
    by (symmetry; apply orb_false_iff; split; [apply Z.ltb_ge | apply Z.leb_gt]; lia).
  unfold zlen in Hi.
  destruct (nth_error tab (Z.to_nat i)) as [row|] eqn:E.
  - rewrite forallb_forall in Hne. pose proof (Hne row (nth_error_In _ _ E)) as Hr.
    destruct row as [|nm rest]; [discriminate|]. exists nm, rest. split; reflexivity.
  - apply nth_error_None in E. lia.
Qed.

Lemma operator_tables_rows : forallb row_nonempty Gen_opcodes.unops_list = true
                             /\ forallb row_nonempty Gen_opcodes.binops_list = true.
Proof. split; vm_compute; reflexivity. Qed.

Lemma unit_operator_defined : forall u,
  (u_cls u = unop_cls -> 0 <= u_special u < zlen Gen_opcodes.unops_list) ->
  (u_cls u = binop_cls -> 0 <= u_special u < zlen Gen_opcodes.binops_list) ->
  exists o, unit_operator u = Some o.
Proof.
  intros u Hu Hb. unfold unit_operator. destruct operator_tables_rows as [R1 R2].
  destruct (bytes_eqb (u_cls u) unop_cls) eqn:E1.
  - apply bytes_eqb_eq in E1. destruct (table_name_some _ _ R1 (Hu E1)) as (nm & rest & _ & T). rewrite T. eexists; reflexivity.
  - destruct (bytes_eqb (u_cls u) binop_cls) eqn:E2.
    + apply bytes_eqb_eq in E2. destruct (table_name_some _ _ R2 (Hb E2)) as (nm & rest & _ & T). rewrite T. eexists; reflexivity.
    + eexists; reflexivity.
Qed.
