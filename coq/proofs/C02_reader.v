(* C02 -- the library's description reader (mirror: read_desc) applied to written bytes *)
From Coq Require Import ZArith List Bool Lia ZifyBool.
Import ListNotations.
Require Import SC3.model.Scgf SC3.proofs.C02_scgf.
Open Scope Z_scope.

Lemma rd_core_rt : forall name consts ctlw names units r,
  pstr_ok name = true ->
  i32_ok (zlen consts) = true -> forallb w32_ok consts = true ->
  i32_ok (zlen ctlw) = true -> forallb w32_ok ctlw = true ->
  i32_ok (zlen names) = true -> forallb pname_ok names = true ->
  i32_ok (zlen units) = true -> forallb ugen_ok units = true ->
  rd_core (enc_pstr name
           ++ enc_i32 (zlen consts) ++ enc_list enc_w32 consts
           ++ enc_i32 (zlen ctlw) ++ enc_list enc_w32 ctlw
           ++ enc_i32 (zlen names) ++ enc_list enc_pname names
           ++ enc_i32 (zlen units) ++ enc_list enc_ugen units ++ r)
  = Ok ((name, consts, ctlw, names, units), r).
Proof.
  intros. unfold rd_core, pbind.
  rewrite rd_pstr_rt by assumption.
  rewrite (rd_counted_i32_rt w32_ok enc_w32 rd_w32 RT_w32 NE_w32) by assumption.
  rewrite (rd_counted_i32_rt w32_ok enc_w32 rd_w32 RT_w32 NE_w32) by assumption.
  rewrite (rd_counted_i32_rt pname_ok enc_pname rd_pname RT_pname NE_pname) by assumption.
  rewrite (rd_counted_i32_rt ugen_ok enc_ugen rd_ugen RT_ugen NE_ugen) by assumption.
  reflexivity.
Qed.

(* the reader sees exactly the written structure; it ignores everything after the variant count *)
Lemma read_desc_enc : forall d, def_ok d = true -> read_desc (enc_def d) = desc_of_def d.
Proof.
  intros d H. unfold read_desc. rewrite (by_def d H). simpl negb. cbv iota.
  pose proof H as Hok. unfold def_ok in H. split_andb.
  unfold enc_def, enc_header, enc_body, pbind. repeat rewrite <- app_assoc.
  change (rd_take 4) with (rd_take (List.length magic)). rewrite rd_take_app.
  rewrite (rd_i32_rt 2) by reflexivity. rewrite (rd_i16_rt 1) by reflexivity.
  change (2 <? 2) with false. cbv iota. cbv beta.
  rewrite rd_core_rt by assumption.
  rewrite rd_i16_rt by assumption. unfold pret. reflexivity.
Qed.

Lemma reader_recovers_l : forall d bs, write_def d = Some bs -> read_desc bs = desc_of_def d.
Proof.
  intros d bs H. unfold write_def in H. destruct (def_ok d) eqn:Hok; [|discriminate].
  inversion H; subst. apply read_desc_enc; exact Hok.
Qed.

(* ------------------------------------------------------------------ *)
(* what the recovered description contains                             *)

Lemma existsb_bytes_In : forall x l, existsb (bytes_eqb x) l = true <-> In x l.
Proof.
  intros x l. rewrite existsb_exists. split.
  - intros [y [Hy He]]. apply bytes_eqb_eq in He. subst. exact Hy.
  - intros Hx. exists x. split; [exact Hx | apply bytes_eqb_refl].
Qed.

Lemma upd_length : forall {A} (l l' : list A) i f, upd l i f = Some l' -> List.length l' = List.length l.
Proof.
  intros A l l' i f H. unfold upd in H.
  destruct ((0 <=? i) && (i <? zlen l)) eqn:C; [|discriminate].
  destruct (nth_error l (Z.to_nat i)) as [x|] eqn:E; [|discriminate].
  assert (Hlt : (Z.to_nat i < List.length l)%nat) by (apply nth_error_Some; rewrite E; discriminate).
  assert (Hl : l' = firstn (Z.to_nat i) l ++ f x :: skipn (S (Z.to_nat i)) l) by (injection H; intros; subst; reflexivity).
  rewrite Hl, app_length, firstn_length. cbn [List.length]. rewrite skipn_length. lia.
Qed.

Lemma assign_names_length : forall names cs cs', assign_names cs names = Some cs' -> List.length cs' = List.length cs.
Proof.
  intros names; induction names as [|[n i] r IH]; intros cs cs' H; simpl in H.
  - inversion H; reflexivity.
  - destruct (upd cs i _) as [cs1|] eqn:E; [|discriminate].
    apply IH in H. apply upd_length in E. lia.
Qed.

Lemma set_rates_length : forall n cs from rate cs', set_rates cs from n rate = Some cs' -> List.length cs' = List.length cs.
Proof.
  intros n; induction n as [|n IH]; intros cs from rate cs' H; simpl in H.
  - inversion H; reflexivity.
  - destruct (upd cs from _) as [cs1|] eqn:E; [|discriminate].
    apply IH in H. apply upd_length in E. lia.
Qed.

Lemma read_units_length : forall consts us cs ins outs before cs' ins' outs',
  read_units consts cs ins outs before us = Some (cs', ins', outs') -> List.length cs' = List.length cs.
Proof.
  intros consts us; induction us as [|u r IH]; intros cs ins outs before cs' ins' outs' H; simpl in H.
  - inversion H; reflexivity.
  - repeat match type of H with
           | context [if ?c then _ else _] => destruct c eqn:?
           | context [match ?x with _ => _ end] => destruct x eqn:?
           end; try discriminate;
    apply IH in H; try exact H.
    match goal with E : set_rates _ _ _ _ = Some _ |- _ => apply set_rates_length in E; lia end.
Qed.

Lemma merge_length : forall cs, List.length (fst (merge_defaults cs)) = List.length cs.
Proof.
  induction cs as [|c r IH]; [reflexivity|]. simpl.
  destruct (merge_defaults r) as [r' pending]. simpl in IH.
  destruct (c_name c); simpl; lia.
Qed.

(* the merge: a named slot collects the default words of the unnamed slots that follow it *)
Fixpoint unnamed_run (cs : list ctl) : list Z :=
  match cs with
  | [] => []
  | c :: r => match c_name c with None => c_defs c ++ unnamed_run r | Some _ => [] end
  end.
Fixpoint merged (cs : list ctl) : list ctl :=
  match cs with
  | [] => []
  | c :: r => match c_name c with
              | Some _ => mkCtl (c_name c) (c_rate c) (c_defs c ++ unnamed_run r)
              | None => c
              end :: merged r
  end.

Lemma merge_defaults_spec : forall cs, merge_defaults cs = (merged cs, unnamed_run cs).
Proof.
  induction cs as [|c r IH]; [reflexivity|]. simpl. rewrite IH.
  destruct (c_name c); reflexivity.
Qed.

Lemma merged_names : forall cs, map c_name (merged cs) = map c_name cs.
Proof. induction cs as [|c r IH]; [reflexivity|]. simpl. rewrite IH. destruct (c_name c) eqn:E; simpl; rewrite ?E; reflexivity. Qed.
Lemma merged_rates : forall cs, map c_rate (merged cs) = map c_rate cs.
Proof. induction cs as [|c r IH]; [reflexivity|]. simpl. rewrite IH. destruct (c_name c); reflexivity. Qed.

Local Opaque merge_defaults.

Lemma desc_fields : forall d ds, desc_of_def d = Some ds ->
  ds_name ds = d_name d
  /\ ds_cnames ds = map fst (d_names d)
  /\ ds_hasvar ds = (0 <? zlen (d_variants d))
  /\ (ds_gate ds = true <-> In gate_name (named (ds_ctls ds)))
  /\ List.length (ds_ctls ds) = List.length (d_ctl d)
  /\ has_dup (named (ds_ctls ds)) = false.
Proof.
  intros d ds H. unfold desc_of_def, desc_of in H.
  destruct (assign_names _ (d_names d)) as [cs1|] eqn:E1; [|discriminate].
  destruct (read_units (d_consts d) cs1 [] [] [] (d_units d)) as [[[cs2 ins] outs]|] eqn:E2; [|discriminate].
  apply assign_names_length in E1. rewrite map_length in E1.
  apply read_units_length in E2.
  destruct cs2 as [|c cs2].
  - inversion H; subst; simpl.
    repeat split; try reflexivity; try (simpl in *; lia); try (intros; discriminate); try (intros []).
  - destruct (c_name c) eqn:Ec; [|discriminate].
    destruct (existsb (bytes_eqb qmark) _) eqn:Eq; [discriminate|].
    destruct (has_dup _) eqn:Ed; [discriminate|].
    destruct (255 <? _) eqn:E255; [discriminate|].
    inversion H; subst; cbn [ds_name ds_cnames ds_hasvar ds_gate ds_ctls]. repeat split; try reflexivity.
    + apply existsb_bytes_In.
    + apply existsb_bytes_In.
    + rewrite merge_length. lia.
    + exact Ed.
Qed.

(* the controls of the description = the slots in order, merged as above, where the slot names and
   rates are those the reader assigned *)
Lemma desc_ctls_merged : forall d ds, desc_of_def d = Some ds ->
  exists cs, ds_ctls ds = merged cs
             /\ List.length cs = List.length (d_ctl d)
             /\ map c_name (ds_ctls ds) = map c_name cs
             /\ map c_rate (ds_ctls ds) = map c_rate cs.
Proof.
  intros d ds H. unfold desc_of_def, desc_of in H.
  destruct (assign_names _ (d_names d)) as [cs1|] eqn:E1; [|discriminate].
  destruct (read_units (d_consts d) cs1 [] [] [] (d_units d)) as [[[cs2 ins] outs]|] eqn:E2; [|discriminate].
  apply assign_names_length in E1. rewrite map_length in E1.
  apply read_units_length in E2.
  exists cs2. destruct cs2 as [|c cs2].
  - inversion H; subst; simpl. repeat split; try reflexivity. simpl in *; lia.
  - destruct (c_name c) eqn:Ec; [|discriminate].
    destruct (existsb (bytes_eqb qmark) _) eqn:Eq; [discriminate|].
    destruct (has_dup _) eqn:Ed; [discriminate|].
    destruct (255 <? _) eqn:E255; [discriminate|].
    inversion H; subst. cbn [ds_ctls]. rewrite merge_defaults_spec. cbn [fst].
    repeat split; [lia | apply merged_names | apply merged_rates].
Qed.
