(* C16 -- the invariant holds on every reachable state; safety, completeness, reuse, double free,
   partitions, and the link between used blocks and the history of allocations. *)
From Coq Require Import ZArith List Bool Lia.
Import ListNotations.
Require Import SC3.model.Alloc SC3.proofs.C16_base SC3.proofs.C16_inv SC3.proofs.C16_alloc SC3.proofs.C16_free.
Open Scope Z_scope.

(* ---- initial state --------------------------------------------------------------- *)
Lemma init_inv sz p o : 0 <= p < sz ->
  exists s0, init sz p o = Ok s0 /\ AInv s0 /\ pos s0 = p + o /\ off s0 = o /\ size s0 = sz /\
             (forall a n, ~ is_live s0 a n).
Proof.
  intros Hp. unfold init.
  assert (Hlen : alen (repeat (@None block) (Z.to_nat sz)) = sz) by (rewrite alen_repeat; lia).
  rewrite aset_in by lia. simpl.
  set (B := mkB (p + o) (sz - p) false).
  set (s0 := mkS (setz (repeat None (Z.to_nat sz)) p (Some B)) [] (p + o) (p + o) o sz).
  assert (Hat : forall a, at_ s0 a = if a =? p + o then Some B else None).
  { intros a. unfold at_, hi. simpl.
    destruct (Z.leb_spec o a); destruct (Z.ltb_spec a (o + sz)); simpl;
      try (destruct (Z.eqb_spec a (p + o)); auto; lia).
    rewrite get_setz by lia. rewrite get_repeat.
    destruct (Z.eqb_spec (a - o) p); destruct (Z.eqb_spec a (p + o)); auto; lia. }
  exists s0. split; [reflexivity|]. split; [|split; [reflexivity|split; [reflexivity|split; [reflexivity|]]]].
  - split.
    + constructor; simpl; unfold hi; simpl.
      * unfold s0. simpl. rewrite alen_setz. auto.
      * lia.
      * intros a b Hb. rewrite Hat in Hb. destruct (Z.eqb_spec a (p + o)); [|discriminate]. inv Hb. simpl. lia.
      * intros a b j Hb Hj. rewrite Hat in Hb. destruct (Z.eqb_spec a (p + o)); [|discriminate]. inv Hb.
        rewrite Hat. destruct (Z.eqb_spec j (p + o)); auto. simpl in *. lia.
      * intros a b Hb Hlt. rewrite Hat in Hb. destruct (Z.eqb_spec a (p + o)); [|discriminate]. inv Hb. simpl in *. lia.
      * rewrite Hat. rewrite Z.eqb_refl. discriminate.
      * exists B. rewrite Hat, Z.eqb_refl. split; auto. simpl. lia.
      * constructor.
      * intros k a (l & Hl & _). discriminate.
      * intros a b Hb Hu Hlt. rewrite Hat in Hb. destruct (Z.eqb_spec a (p + o)); [lia|discriminate].
    + intros a b b' Hb Hu Hb' Hu'. rewrite Hat in Hb. destruct (Z.eqb_spec a (p + o)); [|discriminate]. inv Hb.
      simpl in Hb'. apply at_range in Hb'. unfold hi in Hb'. simpl in Hb'. lia.
  - intros a n Hl. unfold is_live in Hl. rewrite Hat in Hl. destruct (a =? p + o); [inv Hl|discriminate].
Qed.

(* ---- one step ---------------------------------------------------------------------- *)
Definition wf_op (o sz : Z) (x : op) : Prop :=
  match x with OAlloc n _ => 0 <= n | OFree a => True end.

Lemma alloc_result_consts s b n :
  pos (alloc_result s b n) = pos s /\ off (alloc_result s b n) = off s /\ size (alloc_result s b n) = size s.
Proof. unfold alloc_result. destruct (n <? bsize b); simpl; auto. Qed.

Lemma alloc_live s b n a' n' : Pre s -> at_ s (bstart b) = Some b -> bused b = false -> 1 <= n <= bsize b ->
  (is_live (alloc_result s b n) a' n' <-> is_live s a' n' \/ (a' = bstart b /\ n' = n)).
Proof.
  intros P Hb Hu Hn. unfold is_live. rewrite at_alloc_result by auto.
  pose proof (P_cell s P _ _ Hb) as Hc.
  destruct (Z.eqb_spec a' (bstart b)) as [->|Hne].
  - rewrite Hb. split.
    + intros E; inv E. auto.
    + intros [E|[_ ->]]; [|reflexivity]. injection E as E1. apply (f_equal bused) in E1. simpl in E1. congruence.
  - destruct (Z.eqb_spec a' (bstart b + n)) as [->|Hne2]; simpl.
    + destruct (Z.ltb_spec n (bsize b)).
      * rewrite (P_gap s P _ b (bstart b + n) Hb) by lia.
        split; [discriminate|]. intros [?|[? _]]; [discriminate|lia].
      * split; [tauto|]. intros [?|[? _]]; [auto|lia].
    + split; [tauto|]. intros [?|[? _]]; [auto|lia].
Qed.

Lemma live_dec s a : Pre s -> (exists n, is_live s a n) \/ (forall n, ~ is_live s a n).
Proof.
  intros P. unfold is_live. destruct (at_ s a) as [[x m u]|] eqn:E.
  - pose proof (P_cell s P _ _ E) as Hc. simpl in Hc. destruct Hc as (-> & _).
    destruct u; [left; exists m; auto|right; intros n H; inv H].
  - right. intros n H. discriminate.
Qed.

(* what one operation does to the set of live allocations *)
Definition live_step (s : st) (x : op) (r : option Z) (s' : st) : Prop :=
  match x, r with
  | OAlloc n _, Some a => forall a' n', is_live s' a' n' <-> is_live s a' n' \/ (1 <= n /\ a' = a /\ n' = n)
  | OAlloc n _, None => s' = s
  | OFree a, _ => forall a' n', is_live s' a' n' <-> is_live s a' n' /\ a' <> a
  end.

Lemma step_inv s x : AInv s -> wf_op (off s) (size s) x ->
  exists s' r, step true s x = Ok (s', r) /\ AInv s' /\
    pos s' = pos s /\ off s' = off s /\ size s' = size s /\ live_step s x r s'.
Proof.
  intros A Hwf. destruct x as [n c|a]; simpl in *.
  - destruct (Z.eq_dec n 0) as [->|Hn0].
    { destruct (alloc_zero_spec s c A) as (s' & r & E & A' & Hat & Kp & Ko & Ks & Hr).
      exists s', r. split; [auto|]. split; [auto|]. split; [auto|]. split; [auto|]. split; [auto|].
      destruct r as [a|]; [|exact Hr].
      intros a' n'. unfold is_live. rewrite Hat. split; [auto|]. intros [?|[? _]]; [auto|lia]. }
    assert (Hn1 : 1 <= n) by lia.
    destruct (alloc_spec s n c A Hn1) as [[E Hnf]|(b & Hb & Hu & Hle & E & A')].
    + exists s, None. split; [auto|]. split; [auto|]. split; [auto|]. split; [auto|]. split; [auto|]. reflexivity.
    + destruct (alloc_result_consts s b n) as (? & ? & ?).
      exists (alloc_result s b n), (Some (bstart b)). split; [auto|]. split; [auto|].
      split; [auto|]. split; [auto|]. split; [auto|].
      intros a' n'. rewrite alloc_live; try (apply A); auto; try lia. tauto.
  - destruct A as [P C]. destruct (live_dec s a P) as [[n Hl]|Hn].
    + destruct (free_live s a n (conj P C) Hl) as (s' & xb & mb & E & A' & _ & _ & _ & U & K).
      exists s', None. rewrite E. simpl. split; [auto|]. split; [auto|].
      destruct K as (? & ? & ?). split; [auto|]. split; [auto|]. split; [auto|].
      intros a' n'. unfold is_live. apply U. reflexivity.
    + rewrite free_noop by auto. simpl.
      exists s, None. split; [auto|]. split; [split; auto|]. split; [auto|]. split; [auto|]. split; [auto|].
      intros a' n'. split; [|tauto]. intros H. split; auto. intros ->. apply (Hn n'); auto.
Qed.

(* ---- every history ------------------------------------------------------------------ *)
(* the live allocations according to the history alone: what alloc returned and was not freed since *)
Fixpoint ghost (ops : list op) (outs : list (option Z)) (L : list (Z * Z)) : list (Z * Z) :=
  match ops, outs with
  | OAlloc n _ :: r, Some a :: r' => ghost r r' (if 1 <=? n then (a, n) :: L else L)
  | OAlloc _ _ :: r, None :: r' => ghost r r' L
  | OFree a :: r, _ :: r' => ghost r r' (filter (fun e => negb (fst e =? a)) L)
  | _, _ => L
  end.

Lemma run_inv ops : forall s L, AInv s -> Forall (wf_op (off s) (size s)) ops ->
  (forall a n, In (a, n) L <-> is_live s a n) ->
  exists s' outs, run true s ops = Ok (s', outs) /\ AInv s' /\
    pos s' = pos s /\ off s' = off s /\ size s' = size s /\
    (forall a n, In (a, n) (ghost ops outs L) <-> is_live s' a n).
Proof.
  induction ops as [|x ops IH]; intros s L A Hwf HL.
  - exists s, []. simpl. split; [auto|]. split; [auto|]. split; [auto|]. split; [auto|]. split; [auto|]. exact HL.
  - inversion Hwf as [|? ? Hx Hrest]; subst.
    destruct (step_inv s x A Hx) as (s1 & r & E1 & A1 & Kp & Ko & Ks & Hlive).
    assert (HL1 : exists L1, (forall a n, In (a, n) L1 <-> is_live s1 a n) /\
                             forall o' : list (option Z), ghost (x :: ops) (r :: o') L = ghost ops o' L1).
    { destruct x as [n c|a]; simpl in Hlive.
      - destruct r as [a|].
        + exists (if 1 <=? n then (a, n) :: L else L). split; auto. intros a' n'. rewrite Hlive, <- HL.
          destruct (Z.leb_spec 1 n); simpl.
          * split; [intros [E|?]; [inv E; auto|auto]|intros [?|(_ & -> & ->)]; auto].
          * split; [auto|intros [?|(? & _)]; [auto|lia]].
        + subst s1. exists L. split; auto.
      - exists (filter (fun e => negb (fst e =? a)) L). split; auto.
        intros a' n'. rewrite filter_In, Hlive, <- HL. simpl.
        destruct (Z.eqb_spec a' a); simpl; split; intros [? ?]; split; auto; try discriminate; lia. }
    destruct HL1 as (L1 & HL1 & Hg).
    assert (Hrest1 : Forall (wf_op (off s1) (size s1)) ops) by (rewrite Ko, Ks; exact Hrest).
    destruct (IH s1 L1 A1 Hrest1 HL1) as (s2 & outs & E2 & A2 & Kp2 & Ko2 & Ks2 & HL2).
    exists s2, (r :: outs). rewrite Hg. simpl run. rewrite E1. simpl. rewrite E2. simpl.
    split; [auto|]. split; [auto|]. split; [congruence|]. split; [congruence|]. split; [congruence|].
    exact HL2.
Qed.

Theorem AInv_reachable_proof sz p o ops : 0 <= p < sz -> Forall (wf_op o sz) ops ->
  exists s outs, (s0 <- init sz p o ;; run true s0 ops) = Ok (s, outs) /\ AInv s /\
    pos s = p + o /\ off s = o /\ size s = sz /\
    (forall a n, In (a, n) (ghost ops outs []) <-> is_live s a n).
Proof.
  intros Hp Hwf. destruct (init_inv sz p o Hp) as (s0 & E0 & A0 & Kp & Ko & Ks & Hnl).
  assert (Hwf0 : Forall (wf_op (off s0) (size s0)) ops) by (rewrite Ko, Ks; exact Hwf).
  assert (HL0 : forall a n, In (a, n) [] <-> is_live s0 a n)
    by (intros a n; simpl; split; [tauto|]; intros H; exact (Hnl a n H)).
  destruct (run_inv ops s0 [] A0 Hwf0 HL0) as (s & outs & E & A & Kp' & Ko' & Ks' & HL).
  exists s, outs. rewrite E0. simpl. split; [auto|]. split; [auto|].
    split; [congruence|]. split; [congruence|]. split; [congruence|]. auto.
Qed.

(* the unrepaired test "i < self.size" is the same function when addr_offset = 0 *)
Lemma merge_prev_off s a b s2 b2 : merge_prev s a b = Ok (s2, b2) -> off s2 = off s.
Proof.
  unfold merge_prev. destruct (find_previous s a) as [[p|]|e]; simpl; try discriminate.
  2:{ intros E; inv E; auto. }
  destruct (negb (bused p)); [|intros E; inv E; auto].
  destruct (join p b) as [tmp|]; [|intros E; inv E; auto].
  set (s1 := if bstart b =? top s then with_top s (bstart tmp) else s).
  assert (Ho : off s1 = off s) by (unfold s1; destruct (_ =? _); auto).
  destruct (aset (arr s1) (bstart tmp - off s1) (Some tmp)) as [a2|e]; simpl; try discriminate.
  destruct (aset a2 (bstart b - off s1) None) as [a3|e]; simpl; try discriminate.
  intros E. inv E. destruct (_ <? _); simpl; auto.
Qed.

Lemma free_rel_irrelevant s a : off s = 0 -> free false s a = free true s a.
Proof.
  intros H0. unfold free.
  destruct (negb ((0 <=? a - off s) && (a - off s <? size s))); auto.
  destruct (aget (arr s) (a - off s)) as [[blk|]|e]; simpl; auto.
  destruct (bused blk); auto.
  destruct (aset (arr s) (a - off s) (Some (set_used blk false))) as [a1|e]; simpl; auto.
  match goal with |- context [merge_prev ?S ?A ?B] => destruct (merge_prev S A B) as [[s2 b2]|e] eqn:E end; simpl; auto.
  apply merge_prev_off in E. simpl in E.
  unfold merge_next. rewrite find_next_rel_irrelevant by congruence. reflexivity.
Qed.

Lemma run_rel_irrelevant ops : forall s, off s = 0 -> AInv s -> Forall (wf_op (off s) (size s)) ops ->
  run false s ops = run true s ops.
Proof.
  induction ops as [|x ops IH]; intros s H0 A Hwf; auto.
  inversion Hwf as [|? ? Hx Hrest]; subst.
  destruct (step_inv s x A Hx) as (s1 & r & E1 & A1 & Kp & Ko & Ks & _).
  assert (Es : step false s x = step true s x).
  { destruct x; simpl; auto. rewrite free_rel_irrelevant; auto. }
  simpl. rewrite Es, E1. simpl. rewrite IH; auto; try congruence; rewrite ?Ko, ?Ks; auto.
Qed.
