(* C14 -- NoteEvent.play, rests, the EventStreamPlayer loop, the tolerance test of Pdur, one step of Ppar,
   witnesses of the defects of the code as released. *)
From Coq Require Import String List Morphisms.
Require Import SC3.proofs.NumTac SC3.gen.Gen_builtins SC3.proofs.C12_num SC3.proofs.C15_general SC3.model.TaskQ SC3.model.Event.
Import ListNotations.
Open Scope Q_scope.

(* ---- the dict ------------------------------------------------------------------------------------ *)
Lemma get_put_same : forall k v e, get k (put k v e) = Some v.
Proof.
  intros k v e. induction e as [|[k' v'] r IH]; cbn.
  - rewrite String.eqb_refl. reflexivity.
  - destruct (String.eqb k k') eqn:E; cbn; rewrite ?String.eqb_refl, ?E; [reflexivity|exact IH].
Qed.
Lemma get_put_neq : forall k k' v e, String.eqb k k' = false -> get k (put k' v e) = get k e.
Proof.
  intros k k' v e N. induction e as [|[k2 v2] r IH]; cbn.
  - rewrite N. reflexivity.
  - destruct (String.eqb k' k2) eqn:E; cbn.
    + apply String.eqb_eq in E. subst k2. rewrite N. reflexivity.
    + destruct (String.eqb k k2); [reflexivity|exact IH].
Qed.
Lemma get_in : forall k v (e : event), get k e = Some v -> In (k, v) e.
Proof.
  intros k v e. induction e as [|[k' v'] r IH]; cbn; [discriminate|].
  destruct (String.eqb k k') eqn:E.
  - intros H. inversion H. apply String.eqb_eq in E. subst. left. reflexivity.
  - intros H. right. apply IH. exact H.
Qed.

Lemma ev_call_put_same : forall K k v e, ev_call K (put k v e) k = v.
Proof. intros K k v e. unfold ev_call. rewrite get_put_same. reflexivity. Qed.

(* ---- rests ------------------------------------------------------------------------------------------ *)
Lemma rest_value_is_rest : forall k n (e : event), get k e = Some (VRest n) -> is_rest e = true.
Proof.
  intros k n e H. unfold is_rest. apply existsb_exists. exists (k, VRest n). split; [apply get_in; exact H|reflexivity].
Qed.

Lemma rest_sends_nothing_l : forall K lib lat k t e log, is_rest e = true ->
  sends_from K lib lat k (LEv t e :: log) = sends_from K lib lat (S k) log.
Proof. intros K lib lat k t e log H. cbn [sends_from]. rewrite H. reflexivity. Qed.

(* a silent event (Pdelta, Ppar filling) is a rest whatever the input event *)
Lemma silent_is_rest : forall d inev, is_rest (silent d inev) = true.
Proof.
  intros d inev. unfold silent. eapply rest_value_is_rest with (k := "dur"%string). rewrite get_put_same.
  destruct d; reflexivity.
Qed.

(* ---- NoteEvent.play ---------------------------------------------------------------------------------- *)
Lemma stamp_nonneg : forall now t, 0 <= t -> stamp now t == now + t.
Proof.
  intros now t H. unfold stamp, Qlt_bool. destruct (Qle_bool_spec 0 t) as [L|L]; cbn; [ring|contradiction].
Qed.

(* the event as NoteEvent.play and _get_msg_params leave it when the instrument is in the library *)
Definition played K (d : desc) (ps : list (string * num)) (e : event) : event :=
  put "msg_params" (VParams ps) (put "has_gate" (VBool (d_has_gate d)) (put "freq" (VNum (detuned_freq K e)) e)).
Definition sent_names (d : desc) : list string :=
  if d_has_gate d && negb (d_keep_gate d) then remove_first "gate" (d_controls d) else d_controls d.
Definition sent_params K (d : desc) (e : event) : list (string * num) :=
  let e1 := put "has_gate" (VBool (d_has_gate d)) (put "freq" (VNum (detuned_freq K e)) e) in
  flat_map (fun a => if has a e1 then [(a, vnum (ev_call K e1 a))] else []) (sent_names d).

Lemma note_play_l : forall K lib lat now node e d,
  cached_params K (put "freq" (VNum (detuned_freq K e)) e) = None ->
  lib_at (sym_of (ev_call K (put "freq" (VNum (detuned_freq K e)) e) "instrument")) lib = Some d ->
  get "send_gate" e = None ->
  let ps := sent_params K d e in
  let e2 := played K d ps e in
  let snew := (stamp now lat, MNew (sym_of (ev_call K e2 "instrument")) node (action_number (ev_call K e2 "add_action"))
                                   (vnum (ev_call K e2 "group")) ps) in
  play_note K lib lat now node e =
    if d_has_gate d
    then [snew; (stamp now (lat + toQ (vnum (ev_call K e2 "sustain"))), MSet node [("gate"%string, I 0)])]
    else [snew].
Proof.
  intros K lib lat now node e d Hc Hlib Hsg ps e2 snew.
  unfold play_note, get_msg_params. rewrite Hc, Hlib. cbv zeta.
  fold (sent_names d). fold (sent_params K d e). fold ps. fold (played K d ps e). fold e2.
  assert (G : ev_call K e2 "send_gate" = VBool (d_has_gate d)).
  { unfold ev_call, e2, played. rewrite !get_put_neq by reflexivity. rewrite Hsg. cbn.
    unfold plain. rewrite get_put_neq by reflexivity. rewrite get_put_same. reflexivity. }
  rewrite G. cbn [truthy]. reflexivity.
Qed.

(* only controls of the instrument, each at most as often as it is declared, and only those the event defines *)
Lemma sent_params_sound : forall K d e a x, In (a, x) (sent_params K d e) ->
  In a (sent_names d) /\
  has a (put "has_gate" (VBool (d_has_gate d)) (put "freq" (VNum (detuned_freq K e)) e)) = true /\
  x = vnum (ev_call K (put "has_gate" (VBool (d_has_gate d)) (put "freq" (VNum (detuned_freq K e)) e)) a).
Proof.
  intros K d e a x H. unfold sent_params in H. apply in_flat_map in H. destruct H as [b [Hb Hin]].
  destruct (has b _) eqn:E; [|contradiction]. destruct Hin as [Hin|[]]. inversion Hin. subst. auto.
Qed.
Lemma sent_params_complete : forall K d e a, In a (sent_names d) ->
  has a (put "has_gate" (VBool (d_has_gate d)) (put "freq" (VNum (detuned_freq K e)) e)) = true ->
  In (a, vnum (ev_call K (put "has_gate" (VBool (d_has_gate d)) (put "freq" (VNum (detuned_freq K e)) e)) a))
     (sent_params K d e).
Proof.
  intros K d e a Hin Hh. unfold sent_params. apply in_flat_map. exists a. split; [exact Hin|]. rewrite Hh. left. reflexivity.
Qed.
(* freq is always defined when the event is played: its value is the detuned frequency *)
Lemma played_freq : forall K d e,
  ev_call K (put "has_gate" (VBool (d_has_gate d)) (put "freq" (VNum (detuned_freq K e)) e)) "freq" = VNum (detuned_freq K e).
Proof.
  intros K d e. unfold ev_call. rewrite get_put_neq by reflexivity. rewrite get_put_same. reflexivity.
Qed.

(* the statement of the property file *)
Lemma note_play_commands_l : forall K lib lat now node e d,
  cached_params K (put "freq" (VNum (detuned_freq K e)) e) = None ->
  lib_at (sym_of (ev_call K (put "freq" (VNum (detuned_freq K e)) e) "instrument")) lib = Some d ->
  get "send_gate" e = None ->
  let ps := sent_params K d e in
  let e2 := played K d ps e in
  let snew := (stamp now lat, MNew (sym_of (ev_call K e2 "instrument")) node (action_number (ev_call K e2 "add_action"))
                                   (vnum (ev_call K e2 "group")) ps) in
  play_note K lib lat now node e =
    (if d_has_gate d
     then [snew; (stamp now (lat + toQ (vnum (ev_call K e2 "sustain"))), MSet node [("gate"%string, I 0)])]
     else [snew]) /\
  (forall a x, In (a, x) ps <-> In a (sent_names d) /\
       has a (put "has_gate" (VBool (d_has_gate d)) (put "freq" (VNum (detuned_freq K e)) e)) = true /\
       x = vnum (ev_call K (put "has_gate" (VBool (d_has_gate d)) (put "freq" (VNum (detuned_freq K e)) e)) a)) /\
  (forall t, 0 <= t -> stamp now t == now + t).
Proof.
  intros K lib lat now node e d Hc Hlib Hsg ps e2 snew. split; [exact (note_play_l K lib lat now node e d Hc Hlib Hsg)|].
  split; [|intros t Ht; exact (stamp_nonneg now t Ht)].
  intros a x. split.
  - apply sent_params_sound.
  - intros [H1 [H2 H3]]. subst x. apply sent_params_complete; assumption.
Qed.

(* ---- an event object used again ----------------------------------------------------------------------------------------- *)
(* the control list is recomputed from the event's CURRENT keys unless the event has never been played and carries a
   non-empty msg_params given by the user *)
Lemma cached_only_before_first_play : forall K e,
  (truthy (plain K e "is_playing") = true -> cached_params K e = None) /\
  (get "msg_params" e = None -> cached_params K e = None).
Proof.
  intros K e. unfold cached_params. split; intros H; [|rewrite H; reflexivity].
  destruct (get "msg_params" e) as [[| | | | | |[|p l]|]|]; try reflexivity. rewrite H. reflexivity.
Qed.

(* NoteEvent.play marks the object: whatever keys are changed, added or removed afterwards (is_playing excepted), and in
   every copy of it, the next play recomputes the control list *)
Lemma played_event_is_playing : forall K lib node e, plain K (play_note_upd K lib node e) "is_playing" = VBool true.
Proof.
  intros K lib node e. unfold play_note_upd. destruct (get_msg_params K lib (put "freq" (VNum (detuned_freq K e)) e)) as [e2 ps].
  unfold plain. rewrite get_put_same. reflexivity.
Qed.
Lemma is_playing_survives_put : forall K e k v, String.eqb "is_playing" k = false ->
  plain K (put k v e) "is_playing" = plain K e "is_playing".
Proof. intros K e k v H. unfold plain. rewrite get_put_neq by exact H. reflexivity. Qed.

Lemma replay_recomputes_l : forall K lib node e k v, String.eqb "is_playing" k = false ->
  cached_params K (play_note_upd K lib node e) = None /\
  cached_params K (put k v (play_note_upd K lib node e)) = None.
Proof.
  intros K lib node e k v Hk. split; apply (proj1 (cached_only_before_first_play K _)).
  - rewrite played_event_is_playing. reflexivity.
  - rewrite is_playing_survives_put by exact Hk. rewrite played_event_is_playing. reflexivity.
Qed.

(* a non-empty list given by the user on an event that was never played is sent as it is *)
Lemma note_play_cached_l : forall K lib lat now node e ps,
  cached_params K (put "freq" (VNum (detuned_freq K e)) e) = Some ps ->
  exists e2 gate, play_note K lib lat now node e =
    (stamp now lat, MNew (sym_of (ev_call K e2 "instrument")) node (action_number (ev_call K e2 "add_action"))
                         (vnum (ev_call K e2 "group")) ps) :: gate.
Proof.
  intros K lib lat now node e ps H. unfold play_note, get_msg_params. rewrite H.
  destruct (truthy (ev_call K (put "freq" (VNum (detuned_freq K e)) e) "send_gate")); eexists; eexists; reflexivity.
Qed.

(* ---- the player ---------------------------------------------------------------------------------------- *)
Fixpoint evs (log : list entry) : list (Q * event) :=
  match log with
  | [] => []
  | LEv t e :: r => (t, e) :: evs r
  | LOff _ _ :: r => evs r
  end.
Definition delta_q K (e : event) : Q := toQ (vnum (ev_call K e "delta")).
Fixpoint qsum (l : list Q) : Q := match l with [] => 0 | x :: r => x + qsum r end.

Lemma evs_offs : forall now offs l, evs (map (LOff now) offs ++ l) = evs l.
Proof. intros now offs l. induction offs as [|m r IH]; cbn; [reflexivity|exact IH]. Qed.

Lemma player_times_l : forall c K lib fuel depth s proto mc now k t e,
  nth_error (evs (player c K lib fuel depth s proto mc now)) k = Some (t, e) ->
  t == now + qsum (map (fun x => delta_q K (snd x)) (firstn k (evs (player c K lib fuel depth s proto mc now)))).
Proof.
  intros c K lib fuel. induction fuel as [|f IH]; intros depth s proto mc now k t e H.
  - cbn in H. destruct k; discriminate.
  - cbn [player] in *. destruct (snext c K lib depth s proto mc) as [[e0 s' offs|offs|] mc'].
    + rewrite evs_offs in *. cbn [evs] in *.
      destruct k as [|k].
      * cbn in H. inversion H. subst. cbn. ring.
      * cbn [nth_error firstn map qsum snd] in *.
        remember (ev_call K (as_event e0) "delta") as dv eqn:Edv.
        assert (D : delta_q K (as_event e0) = toQ (vnum dv)) by (unfold delta_q; rewrite <- Edv; reflexivity).
        rewrite D.
        destruct dv as [[z|q|]|[z|q|]| | | | | |]; cbn [vnum toQ] in *;
          try (destruct k; discriminate H).
        -- rewrite (IH _ _ _ _ _ _ _ _ H). ring.
        -- rewrite (IH _ _ _ _ _ _ _ _ H). ring.
        -- destruct (fix_rest_delta c); [|destruct k; discriminate H].
           rewrite (IH _ _ _ _ _ _ _ _ H). cbn [toQ]. ring.
        -- destruct (fix_rest_delta c); [|destruct k; discriminate H].
           rewrite (IH _ _ _ _ _ _ _ _ H). cbn [toQ]. ring.
        -- destruct (fix_rest_delta c); destruct k; discriminate H.
    + clear IH. induction offs as [|m r IHr]; cbn in H; [destruct k; discriminate|apply IHr; exact H].
    + cbn in H. destruct k; discriminate.
Qed.

(* with the repaired _play_and_delta a rest delays the next event exactly like a note *)
Lemma player_continues_after_rest : forall c K lib f depth s proto mc now e0 s' offs mc' n,
  fix_rest_delta c = true ->
  snext c K lib depth s proto mc = (RYield e0 s' offs, mc') ->
  ev_call K (as_event e0) "delta" = VRest n -> ok n ->
  player c K lib (S f) depth s proto mc now =
    map (LOff now) offs ++ LEv now (as_event e0) :: player c K lib f depth s' proto mc' (now + toQ n).
Proof.
  intros c K lib f depth s proto mc now e0 s' offs mc' n Hc Hs Hd Hn.
  cbn [player]. rewrite Hs, Hd, Hc. destruct n; okd; reflexivity.
Qed.
(* ... and on the code as released the player is never resumed after it *)
Lemma player_stops_at_rest_unpatched : forall K lib f depth s proto mc now e0 s' offs mc' n,
  snext unpatched K lib depth s proto mc = (RYield e0 s' offs, mc') ->
  ev_call K (as_event e0) "delta" = VRest n ->
  player unpatched K lib (S f) depth s proto mc now = map (LOff now) offs ++ [LEv now (as_event e0)].
Proof.
  intros K lib f depth s proto mc now e0 s' offs mc' n Hs Hd. cbn [player]. rewrite Hs, Hd. reflexivity.
Qed.

(* ---- Pdur ------------------------------------------------------------------------------------------------ *)
Section Dur.
Variables (c : cfg) (K : kern) (lib : synthlib).

Lemma tolerance_pos : 0 < toQ tolerance.
Proof. reflexivity. Qed.

(* the cut is taken by the first event whose end reaches dur (bi.roundup never rounds down) *)
Lemma pdur_cut_when_reached : forall elapsed delta d x y dq,
  val elapsed x -> val delta y -> val d dq -> dq <= x + y ->
  nge (py_roundup (nadd elapsed (pfloat delta)) tolerance) d = true.
Proof.
  intros elapsed delta d x y dq Hx Hy Hd Hle.
  destruct (val_pfloat _ _ Hy) as [Vf Ff].
  pose proof (val_nadd _ _ _ _ Hx Vf) as Hn.
  destruct (roundup_general (nadd elapsed (pfloat delta)) tolerance) as [r [Er [_ [Lo _]]]].
  - apply Hn.
  - reflexivity.
  - apply tolerance_pos.
  - rewrite Er. apply (nge_iff (F r) d r dq (val_F r) Hd).
    destruct Hn as [_ Hn]. rewrite Hn in Lo. lra.
Qed.
(* ... and not before: an event that ends more than the tolerance before dur is passed through *)
Lemma pdur_pass_when_short : forall elapsed delta d x y dq,
  val elapsed x -> val delta y -> val d dq -> x + y + toQ tolerance <= dq ->
  nge (py_roundup (nadd elapsed (pfloat delta)) tolerance) d = false.
Proof.
  intros elapsed delta d x y dq Hx Hy Hd Hle.
  destruct (val_pfloat _ _ Hy) as [Vf Ff].
  pose proof (val_nadd _ _ _ _ Hx Vf) as Hn.
  destruct (roundup_general (nadd elapsed (pfloat delta)) tolerance) as [r [Er [_ [_ Hi]]]].
  - apply Hn.
  - reflexivity.
  - apply tolerance_pos.
  - rewrite Er. pose proof (nge_iff (F r) d r dq (val_F r) Hd) as H.
    destruct (nge (F r) d); [|reflexivity].
    assert (dq <= r) by (apply H; reflexivity).
    destruct Hn as [_ Hn]. rewrite Hn in Hi. lra.
Qed.
End Dur.

(* on the code as released an int delta is truncated: Pdur(3/2, delta = 1, 1) lasts 1, not 3/2 *)
Definition int_delta_witness : pat :=
  PDur (F (3 # 2)) (PMono "c14b" [("delta"%string, VSeq [VNum (I 1); VNum (I 1)])]).
Definition K0 : kern := mkK (fun x => x) (fun x => x) (fun x => x) (fun x => x).
Lemma pdur_int_delta_refuted_unpatched_l :
  map (fun b => Qred (fst b)) (sends unpatched K0 the_lib 0 10 6 int_delta_witness [] 0) = [0; 1; 1] /\
  map (fun b => Qred (fst b)) (sends patched K0 the_lib 0 10 6 int_delta_witness [] 0) = [0; 1; 3 # 2].
Proof. vm_compute. split; reflexivity. Qed.

(* ---- Ppar: one step ------------------------------------------------------------------------------------------ *)
Lemma ppar_step_l : forall c K lib dep q now cs inev mc t p q1 ci e0 ci' o mc' p' t',
  spec_step OPop q = (q1, RItem p t) ->
  nth_error cs (Z.to_nat t) = Some ci ->
  snext c K lib dep ci inev mc = (RYield e0 ci' o, mc') ->
  let tnext := nadd now (pfloat (vnum (ev_call K (as_event e0) "delta"))) in
  let q2 := fst (spec_step (OAdd (toQ tnext) t) q1) in
  snd (spec_step (OPeek true) q2) = RItem p' t' ->
  snext c K lib (S dep) (SPar true q now cs) inev mc =
    (RYield (put "delta" (VNum (nsub (F p') now)) (as_event e0))
            (SPar true q2 (F p') (set_nth (Z.to_nat t) ci' cs)) o, mc').
Proof.
  intros c K lib dep q now cs inev mc t p q1 ci e0 ci' o mc' p' t' Hpop Hnth Hs tnext q2 Hpeek.
  cbn [snext]. rewrite Hpop, Hnth, Hs. fold tnext. fold q2. rewrite Hpeek. reflexivity.
Qed.

(* when the pulled child has ended and others remain, Ppar rests until the next one *)
Lemma ppar_child_end_l : forall c K lib dep q now cs inev mc t p q1 ci o rt mc' p' t',
  spec_step OPop q = (q1, RItem p t) ->
  nth_error cs (Z.to_nat t) = Some ci ->
  snext c K lib dep ci inev mc = (RStop o rt, mc') ->
  snd (spec_step (OPeek true) q1) = RItem p' t' ->
  snext c K lib (S dep) (SPar true q now cs) inev mc =
    (RYield (if fix_ppar_rest c then put "delta" (VNum (nsub (F p') now)) (silent (VNum (nsub (F p') now)) inev)
             else silent (VNum (nsub (F p') now)) inev)
            (SPar true q1 (F p') (set_nth (Z.to_nat t) SDone cs)) o, mc').
Proof.
  intros c K lib dep q now cs inev mc t p q1 ci o rt mc' p' t' Hpop Hnth Hs Hpeek.
  cbn [snext]. rewrite Hpop, Hnth, Hs, Hpeek. reflexivity.
Qed.

(* a two-voice example: each voice keeps its own timeline, ties go to the voice queued first *)
Definition two_voices : pat :=
  PPar [PBind [("instrument"%string, VRep (VSym "c14a")); ("pan"%string, VRep (VNum (I 0)));
               ("dur"%string, VSeq [VNum (F 1); VNum (F 1); VNum (F 1)])];
        PBind [("instrument"%string, VRep (VSym "c14a")); ("pan"%string, VRep (VNum (I 1)));
               ("dur"%string, VSeq [VNum (F (1 # 2)); VNum (F (1 # 2)); VNum (F 2)])]].
Definition voice (b : bundle) : Z :=
  match snd b with MNew _ _ _ _ ps => match ps with [_; (_, I z)] => z | _ => (-1)%Z end | _ => (-2)%Z end.
Lemma ppar_example_l :
  map (fun b => (Qred (fst b), voice b))
      (filter (fun b => match snd b with MNew _ _ _ _ _ => true | _ => false end)
              (sends patched K0 the_lib 0 20 6 two_voices [("legato"%string, VNum (F 1))] 0))
  = [(0, 0%Z); (0, 1%Z); (1 # 2, 1%Z); (1, 0%Z); (1, 1%Z); (2, 0%Z)].
Proof. vm_compute. reflexivity. Qed.

(* ---- witnesses of the defects of the code as released (replayed on the library by the harness) -------------- *)
Definition legato_half : event := [("legato"%string, VNum (F (1 # 2)))].
Definition rest_witness : pat :=
  PBind [("instrument"%string, VRep (VSym "c14a")); ("dur"%string, VSeq [VRest (F 1); VNum (F 1)])].
Lemma rest_stops_player_refuted_unpatched_l :
  sends unpatched K0 the_lib 0 10 6 rest_witness legato_half 0 = [] /\
  map (fun b => Qred (fst b)) (sends patched K0 the_lib 0 10 6 rest_witness legato_half 0) = [1; 3 # 2].
Proof. vm_compute. split; reflexivity. Qed.

Definition pdur_witness : pat :=
  PDur (F (3 # 2)) (PBind [("instrument"%string, VRep (VSym "c14a")); ("dur"%string, VRep (VNum (F 1)))]).
Lemma pdur_plain_dict_refuted_unpatched_l :
  sends unpatched K0 the_lib 0 10 6 pdur_witness legato_half 0 = [] /\
  map (fun b => Qred (fst b)) (sends patched K0 the_lib 0 10 6 pdur_witness legato_half 0) = [0; 1 # 2; 1; 3 # 2].
Proof. vm_compute. split; reflexivity. Qed.

Definition minor_degrees : list Z := [0; 2; 3; 5; 7; 8; 10]%Z.
Lemma scale_key_refuted_unpatched_l :
  ev_call K0 [("degree"%string, VNum (I 2)); ("scale"%string, scale_key unpatched (scale_new unpatched minor_degrees (et_steps 12) 1))]
          "note" = VNum NErr /\
  ev_call K0 [("degree"%string, VNum (I 2)); ("scale"%string, scale_key patched (scale_new patched minor_degrees (et_steps 12) 1))]
          "note" = VNum (F (3 # 1)).
Proof. vm_compute. split; reflexivity. Qed.

Lemma scale_tuning_refuted_unpatched_l :
  Qred (sc_spo (scale_new unpatched [0; 1; 2]%Z [0; 4; 8] 2)) = 3 /\ Qred (sc_spo (scale_new patched [0; 1; 2]%Z [0; 4; 8] 2)) = 6.
Proof. vm_compute. split; reflexivity. Qed.

(* the hypotheses of the chain lemmas are met by a concrete event (default scale, three explicit keys) *)
Definition ex_event : event := [("degree"%string, VNum (I 9)); ("mtranspose"%string, VNum (I (-1))); ("octave"%string, VNum (F 4))].
Lemma ex_event_chain :
  ev_call K0 ex_event "note" = VNum (F (14 # 1)) /\ Qred (toQ (vnum (ev_call K0 ex_event "midinote"))) = 62 /\
  Qred (toQ (vnum (ev_call K0 ex_event "freq"))) = 62.
Proof. vm_compute. repeat split; reflexivity. Qed.

Definition pdelta_witness : pat :=
  PChain [PDelta (VNum (F (1 # 2))) (PBind [("instrument"%string, VRep (VSym "c14a")); ("dur"%string, VSeq [VNum (F 1); VNum (F 1); VNum (F 1)])]);
          PBind [("pan"%string, VSeq [VNum (I 1); VNum (I 2); VNum (I 3); VNum (I 4)])]].
Definition pans (l : list bundle) : list Z :=
  flat_map (fun b => match snd b with
                     | MNew _ _ _ _ ps => flat_map (fun p => if String.eqb (fst p) "pan" then match snd p with I z => [z] | _ => [] end else []) ps
                     | _ => [] end) l.
Lemma pdelta_stale_input_refuted_unpatched_l :
  pans (sends unpatched K0 the_lib 0 10 6 pdelta_witness legato_half 0) = [1; 3; 4]%Z /\
  pans (sends patched K0 the_lib 0 10 6 pdelta_witness legato_half 0) = [2; 3; 4]%Z.
Proof. vm_compute. split; reflexivity. Qed.
