(* C16 -- counterexamples for operations outside the verified alphabet: public reserve(), alloc(n < 0). *)
From Coq Require Import ZArith List Bool Lia.
Import ListNotations.
Require Import SC3.model.Alloc SC3.model.AllocReserve.
Require Import SC3.proofs.C16_base SC3.proofs.C16_inv SC3.proofs.C16_free SC3.proofs.C16_main.
Open Scope Z_scope.

(* reserve(2, 1) on a reachable state in which 2 is the start of a live block whose predecessor [0,2) is live too:
   it raises AttributeError, but before that it has marked the predecessor free and entered it in _freed, so
   the next alloc(2) hands out [0,2) although it is still live. *)
Lemma reserve_releases_live_predecessor_proof :
  exists ops s outs s' s'', Forall (wf_op 0 8) ops /\
    (s0 <- init 8 0 0 ;; run true s0 ops) = Ok (s, outs) /\
    is_live s 0 2 /\ is_live s 2 2 /\
    reserve true s 2 1 = (s', Raise AttributeError) /\
    alloc s' 2 0 = Ok (s'', Some 0).
Proof.
  exists [OAlloc 2 0; OAlloc 2 0]. eexists. eexists. eexists. eexists.
  split; [repeat constructor; simpl; lia|].
  split; [vm_compute; reflexivity|].
  split; [vm_compute; reflexivity|]. split; [vm_compute; reflexivity|].
  split; vm_compute; reflexivity.
Qed.

(* on a fresh allocator reserve(5, 1) -- a free address -- raises instead of reserving *)
Lemma reserve_fresh_raises_proof :
  exists s0, init 8 0 0 = Ok s0 /\ reserve true s0 5 1 = (s0, Raise AttributeError).
Proof. eexists. split; vm_compute; reflexivity. Qed.

(* alloc(n) with n < 0 is NOT harmless: alloc(-1) plants a block of size -1 and a free block that reaches
   back into the live range [0,2); alloc(7) then hands out [1,8) *)
Lemma alloc_negative_size_breaks_safety_proof :
  exists s outs, (s0 <- init 8 0 0 ;; run true s0 [OAlloc 2 0; OAlloc (-1) 0; OAlloc 7 1]) = Ok (s, outs) /\
    outs = [Some 0; Some 2; Some 1] /\ is_live s 0 2 /\ is_live s 1 7.
Proof. eexists. eexists. split; [vm_compute; reflexivity|]. split; [reflexivity|]. split; vm_compute; reflexivity. Qed.
