(* C18 (a) -- from every well-formed pattern TEXT (pat_text) to the OSC 1.0 language:
   rewrite (the _oscmatch table) followed by re_parse (the regex parser) yields a regex whose
   language is exactly osc_lang of the tokens the text denotes.  Covers literals, ? * [..] [!..]
   ranges, the "-]" rule and {a,b}. *)
From Coq Require Import ZArith List Bool Lia.
Import ListNotations.
Require Import SC3.model.OscMatch SC3.proofs.C18_match SC3.proofs.C18_render.
Open Scope Z_scope.

(* ---- the rewritten text of a token sequence ------------------------------------------------------- *)
Fixpoint rwa (alts : list (list Z)) : list Z :=
  match alts with
  | [] => []
  | w :: r => match r with [] => w | _ :: _ => w ++ ch_bar :: rwa r end
  end.
Definition rwtok (t : otok) : list Z :=
  match t with
  | OLit c => [c]
  | OAny => [ch_lbrk; ch_caret; ch_slash; ch_rbrk]
  | OStar => [ch_lbrk; ch_caret; ch_slash; ch_rbrk; ch_star]
  | OClass neg items => ch_lbrk :: (if neg then [ch_caret; ch_slash] else []) ++ render_items items ++ [ch_rbrk]
  | OAlt alts => ch_lpar :: ch_quest :: ch_colon :: rwa alts ++ [ch_rpar]
  end.
Fixpoint rwt (ts : list otok) : list Z := match ts with [] => [] | t :: r => rwtok t ++ rwt r end.

(* ---- character facts -------------------------------------------------------------------------------- *)
Lemma cplain_plain : forall c, cplain c = true -> plain c = true /\ c <> ch_minus /\ c <> ch_bang /\ c <> ch_slash.
Proof.
  intros c H. unfold cplain in H. repeat (apply andb_true_iff in H; destruct H as [H ?]).
  repeat match goal with h : negb _ = true |- _ => apply negb_true_iff, Z.eqb_neq in h end. auto.
Qed.
Lemma aplain_plain : forall c, aplain c = true -> plain c = true /\ c <> ch_slash.
Proof.
  intros c H. unfold aplain in H. apply andb_true_iff in H as [H1 H2].
  apply negb_true_iff, Z.eqb_neq in H2. auto.
Qed.
Lemma item_ok_facts : forall lo hi, item_ok (lo, hi) = true ->
  cplain lo = true /\ cplain hi = true /\ lo <= hi /\ ~ (lo <= ch_slash <= hi).
Proof.
  intros lo hi H. unfold item_ok in H. simpl in H.
  apply andb_true_iff in H as [H H4]. apply andb_true_iff in H as [H H3]. apply andb_true_iff in H as [H1 H2].
  apply Z.leb_le in H3. apply negb_true_iff, andb_false_iff in H4.
  repeat split; auto. intros [Ha Hb]. destruct H4 as [H4 | H4]; apply Z.leb_gt in H4; lia.
Qed.

Definition head_not (x : Z) (t : list Z) : Prop := match t with e :: _ => e <> x | [] => True end.

Lemma rewrite_plain_cons : forall d c t, plain c = true -> head_not ch_rbrk t ->
  rewrite d (c :: t) = c :: rewrite d t.
Proof.
  intros d c t Hc Ht. destruct (plain_not c Hc) as (He & H1 & H2 & H3 & H4 & H5 & H6 & _).
  apply Z.eqb_neq in H1, H2, H3, H4, H5, H6. cbn [rewrite]. rewrite He, H1, H2, H3, H4, H5.
  destruct t as [| e t']; [reflexivity|]. simpl in Ht. apply Z.eqb_neq in Ht.
  rewrite H6, Ht. destruct (c =? ch_minus); reflexivity.
Qed.
Lemma rewrite_cplain_cons : forall d c t, cplain c = true -> rewrite d (c :: t) = c :: rewrite d t.
Proof.
  intros d c t Hc. destruct (cplain_plain c Hc) as (Hp & Hm & _).
  destruct (plain_not c Hp) as (He & H1 & H2 & H3 & H4 & H5 & H6 & _).
  apply Z.eqb_neq in H1, H2, H3, H4, H5, H6, Hm. cbn [rewrite]. rewrite He, H1, H2, H3, H4, H5.
  destruct t as [| e t']; [reflexivity|]. rewrite H6, Hm. reflexivity.
Qed.
Lemma rewrite_dash_cons : forall d e t, e <> ch_rbrk -> rewrite d (ch_minus :: e :: t) = ch_minus :: rewrite d (e :: t).
Proof.
  intros d e t He. apply Z.eqb_neq in He. cbn [rewrite].
  change (is_escaped ch_minus) with false. change (ch_minus =? ch_lbrace) with false.
  change (ch_minus =? ch_comma) with false. change (ch_minus =? ch_rbrace) with false.
  change (ch_minus =? ch_star) with false. change (ch_minus =? ch_quest) with false.
  change (ch_minus =? ch_lbrk) with false. cbv iota. rewrite He. reflexivity.
Qed.
Lemma rewrite_rbrk_cons : forall d t, rewrite d (ch_rbrk :: t) = ch_rbrk :: rewrite d t.
Proof. intros d t. destruct t; reflexivity. Qed.

Lemma rewrite_comma_cons : forall d t, rewrite d (ch_comma :: t) = ch_bar :: rewrite d t.
Proof. reflexivity. Qed.
Lemma rewrite_rbrace_cons : forall d t, rewrite d (ch_rbrace :: t) = ch_rpar :: rewrite d t.
Proof. reflexivity. Qed.
Lemma rewrite_lbrace_cons : forall d t, rewrite d (ch_lbrace :: t) = ch_lpar :: ch_quest :: ch_colon :: rewrite d t.
Proof. reflexivity. Qed.
Lemma rewrite_quest_cons : forall t, rewrite Repaired (ch_quest :: t) = ch_lbrk :: ch_caret :: ch_slash :: ch_rbrk :: rewrite Repaired t.
Proof. reflexivity. Qed.
Lemma rewrite_star_cons : forall t, rewrite Repaired (ch_star :: t) = ch_lbrk :: ch_caret :: ch_slash :: ch_rbrk :: ch_star :: rewrite Repaired t.
Proof. reflexivity. Qed.
Lemma rewrite_negclass_cons : forall t, rewrite Repaired (ch_lbrk :: ch_bang :: t) = ch_lbrk :: ch_caret :: ch_slash :: rewrite Repaired t.
Proof. reflexivity. Qed.
Lemma rewrite_dashrbrk_cons : forall d t, rewrite d (ch_minus :: ch_rbrk :: t) = ch_rbrk :: rewrite d t.
Proof. reflexivity. Qed.

Lemma rewrite_lbrk_cons : forall d e t, e <> ch_bang -> rewrite d (ch_lbrk :: e :: t) = ch_lbrk :: rewrite d (e :: t).
Proof.
  intros d e t He. apply Z.eqb_neq in He. cbn [rewrite].
  change (is_escaped ch_lbrk) with false. change (ch_lbrk =? ch_lbrace) with false.
  change (ch_lbrk =? ch_comma) with false. change (ch_lbrk =? ch_rbrace) with false.
  change (ch_lbrk =? ch_star) with false. change (ch_lbrk =? ch_quest) with false. cbv iota.
  rewrite He. reflexivity.
Qed.

Lemma plain_head : forall c t, plain c = true -> head_not ch_rbrk (c :: t).
Proof. intros c t H. simpl. destruct (plain_not c H) as (_ & _ & _ & _ & _ & _ & _ & Hr & _). assumption. Qed.

Lemma rewrite_plain_app : forall d w q, forallb plain w = true -> head_not ch_rbrk q ->
  rewrite d (w ++ q) = w ++ rewrite d q.
Proof.
  induction w as [| c w IH]; intros q Hw Hq; [reflexivity|].
  simpl in Hw. apply andb_true_iff in Hw as [Hc Hw]. simpl app.
  rewrite rewrite_plain_cons; [rewrite IH by assumption; reflexivity | assumption |].
  destruct w as [| c' w']; [exact Hq|]. simpl in Hw. apply andb_true_iff in Hw as [Hc' _]. apply (plain_head c' _ Hc').
Qed.

Lemma rewrite_items : forall d items q, forallb item_ok items = true ->
  rewrite d (render_items items ++ q) = render_items items ++ rewrite d q.
Proof.
  induction items as [| [lo hi] r IH]; intros q H; [reflexivity|].
  simpl in H. apply andb_true_iff in H as [Hi Hr]. destruct (item_ok_facts lo hi Hi) as (Hlo & Hhi & _).
  cbn [render_items]. destruct (lo =? hi).
  - simpl app. rewrite rewrite_cplain_cons by assumption. rewrite IH by assumption. reflexivity.
  - simpl app. rewrite rewrite_cplain_cons by assumption.
    destruct (cplain_plain hi Hhi) as (Hp & _). destruct (plain_not hi Hp) as (_ & _ & _ & _ & _ & _ & _ & Hrb & _).
    rewrite rewrite_dash_cons by assumption. rewrite rewrite_cplain_cons by assumption. rewrite IH by assumption. reflexivity.
Qed.

Lemma aplain_all_plain : forall w, forallb aplain w = true -> forallb plain w = true.
Proof.
  induction w as [| c w IH]; intro H; [reflexivity|]. simpl in *. apply andb_true_iff in H as [Hc Hw].
  destruct (aplain_plain c Hc) as [Hp _]. rewrite Hp, IH by assumption. reflexivity.
Qed.

Lemma rewrite_alts : forall alts q, alts <> [] -> forallb (forallb aplain) alts = true ->
  rewrite Repaired (render_alts alts ++ ch_rbrace :: q) = rwa alts ++ ch_rpar :: rewrite Repaired q.
Proof.
  induction alts as [| w r IH]; intros q Hne H; [contradiction|].
  simpl in H. apply andb_true_iff in H as [Hw Hr]. apply aplain_all_plain in Hw.
  destruct r as [| w2 r'].
  - change (render_alts [w]) with w. change (rwa [w]) with w.
    rewrite rewrite_plain_app; [rewrite rewrite_rbrace_cons; reflexivity | assumption | simpl; unfold ch_rbrace, ch_rbrk; discriminate].
  - change (render_alts (w :: w2 :: r')) with (w ++ ch_comma :: render_alts (w2 :: r')).
    change (rwa (w :: w2 :: r')) with (w ++ ch_bar :: rwa (w2 :: r')).
    rewrite <- !app_assoc, <- !app_comm_cons.
    rewrite rewrite_plain_app; [|assumption | simpl; unfold ch_comma, ch_rbrk; discriminate].
    rewrite rewrite_comma_cons. rewrite IH; [reflexivity | discriminate | assumption].
Qed.

Lemma pat_text_head : forall ts p, pat_text ts p -> head_not ch_rbrk p.
Proof.
  intros ts p H. destruct H; simpl; try (unfold ch_quest, ch_star, ch_lbrk, ch_lbrace, ch_rbrk; discriminate); auto.
  destruct (plain_not c H) as (_ & _ & _ & _ & _ & _ & _ & Hr & _). assumption.
Qed.

Lemma pat_text_ok : forall ts p, pat_text ts p -> forallb tok_ok ts = true.
Proof.
  intros ts p H. induction H; cbn [forallb]; rewrite ?IHpat_text; try reflexivity.
  - simpl. rewrite H. reflexivity.
  - rewrite H. reflexivity.
  - rewrite H. reflexivity.
Qed.

Lemma render_items_head : forall items q, items <> [] -> forallb item_ok items = true ->
  exists m t, render_items items ++ q = m :: t /\ cplain m = true.
Proof.
  intros [| [lo hi] r] q Hne H; [contradiction|]. simpl in H. apply andb_true_iff in H as [Hi _].
  destruct (item_ok_facts lo hi Hi) as (Hlo & _). cbn [render_items].
  destruct (lo =? hi); simpl; eexists; eexists; split; try reflexivity; assumption.
Qed.

(* R1: the rewrite of a well-formed text *)
Lemma rewrite_pat_text : forall ts p, pat_text ts p -> rewrite Repaired p = rwt ts.
Proof.
  intros ts p H. induction H.
  - reflexivity.
  - cbn [rwt rwtok]. simpl app. rewrite rewrite_plain_cons; [rewrite IHpat_text; reflexivity | assumption | eapply pat_text_head; eassumption].
  - cbn [rwt rwtok]. rewrite rewrite_quest_cons, IHpat_text. reflexivity.
  - cbn [rwt rwtok]. rewrite rewrite_star_cons, IHpat_text. reflexivity.
  - (* class *)
    assert (Hit : items <> [] /\ forallb item_ok items = true).
    { simpl in H. destruct items; [discriminate | split; [discriminate | assumption]]. }
    destruct Hit as [Hne Hit].
    assert (Htail : forall q : list Z, rewrite Repaired (render_items items ++ (if dash then [ch_minus] else []) ++ ch_rbrk :: p)
                     = render_items items ++ ch_rbrk :: rwt ts).
    { intro q. rewrite rewrite_items by assumption. f_equal. destruct dash; simpl app.
      - rewrite rewrite_dashrbrk_cons, IHpat_text. reflexivity.
      - rewrite rewrite_rbrk_cons, IHpat_text. reflexivity. }
    cbn [rwt rwtok]. destruct neg.
    + simpl app. rewrite rewrite_negclass_cons, (Htail []). simpl. rewrite <- ?app_assoc. reflexivity.
    + simpl app.
      destruct (render_items_head items ((if dash then [ch_minus] else []) ++ ch_rbrk :: p) Hne Hit) as (m & t & Em & Hm).
      rewrite Em. destruct (cplain_plain m Hm) as (_ & _ & Hb & _).
      rewrite rewrite_lbrk_cons by assumption. rewrite <- Em. rewrite (Htail []). simpl. rewrite <- ?app_assoc. reflexivity.
  - (* alternatives *)
    assert (Hal : alts <> [] /\ forallb (forallb aplain) alts = true).
    { simpl in H. destruct alts; [discriminate | split; [discriminate | assumption]]. }
    destruct Hal as [Hne Hal]. cbn [rwt rwtok].
    rewrite rewrite_lbrace_cons, rewrite_alts by assumption. rewrite IHpat_text. simpl. rewrite <- ?app_assoc. reflexivity.
Qed.

(* ---- R2: parsing the rewritten text ------------------------------------------------------------------- *)
Definition stop (rest : list Z) : Prop :=
  match rest with [] => True | e :: _ => e = ch_bar \/ e = ch_rpar end.

Lemma p_seq_stop : forall f rest, stop rest -> p_seq (S f) rest = POk REps rest.
Proof.
  intros f [| e t] H; [reflexivity|]. simpl in H. cbn [p_seq].
  destruct H as [-> | ->]; reflexivity.
Qed.

Lemma p_seq_plain_stop : forall w fuel rest, forallb plain w = true -> stop rest -> (length w < fuel)%nat ->
  p_seq fuel (w ++ rest) = POk (lit_re w) rest.
Proof.
  induction w as [| c t IH]; intros fuel rest Hp Hs Hf.
  - destruct fuel; [simpl in Hf; lia|]. apply p_seq_stop. assumption.
  - destruct fuel as [| f]; [simpl in Hf; lia|].
    simpl in Hp. apply andb_true_iff in Hp as [Hc Ht].
    destruct (plain_not c Hc) as (_ & H1 & _ & _ & H4 & H5 & H6 & _ & Hbar & Hrp & Hbs & Hdot & Hlp & Hpl & Hca & Hdo).
    apply Z.eqb_neq in H1, H4, H5, H6, Hbar, Hrp, Hbs, Hdot, Hlp, Hpl, Hca, Hdo.
    simpl app. cbn [p_seq]. rewrite Hbar, Hrp, Hbs, Hdot, Hlp, H6, H4, H5, Hpl, H1, Hca, Hdo. cbn [orb].
    rewrite (IH f rest Ht Hs); [reflexivity | simpl in Hf; lia].
Qed.

(* alternatives as the parser builds them: right-nested, no empty-language tail *)
Fixpoint alts_re2 (alts : list (list Z)) : regex :=
  match alts with
  | [] => REmpty
  | w :: r => match r with [] => lit_re w | _ :: _ => RAlt (lit_re w) (alts_re2 r) end
  end.

Lemma rwa_length : forall alts, (length (rwa alts) >= 0)%nat.
Proof. intros. lia. Qed.

Lemma p_alt_alts : forall alts fuel rest, alts <> [] -> forallb (forallb aplain) alts = true ->
  (2 * length (rwa alts) + 2 <= fuel)%nat ->
  p_alt fuel (rwa alts ++ ch_rpar :: rest) = POk (alts_re2 alts) (ch_rpar :: rest).
Proof.
  induction alts as [| w r IH]; intros fuel rest Hne H Hf; [contradiction|].
  simpl in H. apply andb_true_iff in H as [Hw Hr]. apply aplain_all_plain in Hw.
  destruct fuel as [| f]; [lia|].
  destruct r as [| w2 r'].
  - change (rwa [w]) with w in *. change (alts_re2 [w]) with (lit_re w).
    cbn [p_alt]. rewrite (p_seq_plain_stop w f (ch_rpar :: rest) Hw); [|simpl; right; reflexivity | lia].
    change (ch_rpar =? ch_bar) with false. reflexivity.
  - change (rwa (w :: w2 :: r')) with (w ++ ch_bar :: rwa (w2 :: r')) in *.
    change (alts_re2 (w :: w2 :: r')) with (RAlt (lit_re w) (alts_re2 (w2 :: r'))).
    rewrite app_length in Hf. cbn [length] in Hf.
    rewrite <- app_assoc, <- app_comm_cons. cbn [p_alt].
    rewrite (p_seq_plain_stop w f (ch_bar :: rwa (w2 :: r') ++ ch_rpar :: rest) Hw); [|simpl; left; reflexivity | lia].
    change (ch_bar =? ch_bar) with true. cbv iota.
    rewrite (IH f rest); [reflexivity | discriminate | assumption | lia].
Qed.

Lemma render_items_length : forall items, (length items <= length (render_items items))%nat.
Proof.
  induction items as [| [lo hi] r IH]; simpl; [lia|]. rewrite app_length. destruct (lo =? hi); simpl; lia.
Qed.

Lemma class_loop_items : forall items fuel set rest, forallb item_ok items = true ->
  (set <> [] \/ items <> []) -> (length items < fuel)%nat ->
  class_loop fuel set (render_items items ++ ch_rbrk :: rest) = POk (set ++ items) rest.
Proof.
  induction items as [| [lo hi] r IH]; intros fuel set rest Hok Hne Hf.
  - destruct fuel as [| f]; [simpl in Hf; lia|]. destruct Hne as [Hne | Hne]; [|contradiction].
    simpl app. cbn [class_loop]. change (ch_rbrk =? ch_rbrk) with true.
    destruct set; [contradiction|]. simpl. rewrite app_nil_r. reflexivity.
  - destruct fuel as [| f]; [simpl in Hf; lia|].
    simpl in Hok. apply andb_true_iff in Hok as [Hi Hr].
    destruct (item_ok_facts lo hi Hi) as (Hlo & Hhi & Hle & _).
    destruct (cplain_plain lo Hlo) as (Hplo & _). destruct (cplain_plain hi Hhi) as (Hphi & Hhim & _).
    destruct (plain_not lo Hplo) as (_ & _ & _ & _ & _ & _ & _ & Hlor & _ & _ & Hlob & _).
    destruct (plain_not hi Hphi) as (_ & _ & _ & _ & _ & _ & _ & Hhir & _ & _ & Hhib & _).
    apply Z.eqb_neq in Hlor, Hlob, Hhir, Hhib.
    (* what follows the item starts with something that is not '-' *)
    assert (Hnext : exists m t, render_items r ++ ch_rbrk :: rest = m :: t /\ (m =? ch_minus) = false).
    { destruct r as [| it r'].
      - exists ch_rbrk, rest. split; reflexivity.
      - destruct (render_items_head (it :: r') (ch_rbrk :: rest)) as (m & t & Em & Hm); [discriminate | assumption|].
        exists m, t. split; [assumption|]. destruct (cplain_plain m Hm) as (_ & Hmm & _). apply Z.eqb_neq. assumption. }
    destruct Hnext as (m & t & Em & Hm).
    assert (IHr : forall set', class_loop f (set' ++ [(lo, hi)]) (render_items r ++ ch_rbrk :: rest) = POk (set' ++ (lo, hi) :: r) rest).
    { intro set'. rewrite IH; [rewrite <- app_assoc; reflexivity | assumption | left; destruct set'; discriminate | simpl in Hf; lia]. }
    cbn [render_items]. destruct (Z.eqb_spec lo hi) as [Heq | Hneq].
    + subst hi. simpl app. cbn [class_loop]. rewrite Hlor, Hlob. simpl andb. cbv iota.
      rewrite Em, Hm. rewrite <- Em. apply IHr.
    + simpl app. cbn [class_loop]. rewrite Hlor, Hlob. simpl andb. cbv iota.
      change (ch_minus =? ch_minus) with true. cbv iota. rewrite Hhir, Hhib.
      assert (Hlt : (hi <? lo) = false) by (apply Z.ltb_ge; lia). rewrite Hlt. apply IHr.
Qed.

Lemma class_loop_single : forall f set c m t, (c =? ch_rbrk) = false -> (c =? ch_bsl) = false -> (m =? ch_minus) = false ->
  class_loop (S f) set (c :: m :: t) = class_loop f (set ++ [(c, c)]) (m :: t).
Proof. intros f set c m t H1 H2 H3. cbn [class_loop]. rewrite H1, H2. simpl andb. cbv iota. rewrite H3. reflexivity. Qed.

Lemma parse_class_tok : forall (neg : bool) items rest, items <> [] -> forallb item_ok items = true ->
  parse_class ((if neg then [ch_caret; ch_slash] else []) ++ render_items items ++ ch_rbrk :: rest)
  = POk (tok_re (OClass neg items)) rest.
Proof.
  intros neg items rest Hne Hok.
  destruct (render_items_head items (ch_rbrk :: rest) Hne Hok) as (m & t & Em & Hm).
  destruct (cplain_plain m Hm) as (Hpm & Hmm & _).
  pose proof (render_items_length items) as Hlen.
  destruct neg; simpl app.
  - unfold parse_class. change (ch_caret =? ch_caret) with true. cbv iota.
    rewrite Em. apply Z.eqb_neq in Hmm.
    rewrite (class_loop_single _ [] ch_slash m t); [|reflexivity | reflexivity | assumption].
    rewrite <- Em. simpl app.
    rewrite class_loop_items; [reflexivity | assumption | left; discriminate | simpl; rewrite app_length; simpl; lia].
  - unfold parse_class. rewrite Em.
    destruct (plain_not m Hpm) as (_ & _ & _ & _ & _ & _ & _ & _ & _ & _ & _ & _ & _ & _ & Hca & _).
    apply Z.eqb_neq in Hca. rewrite Hca. rewrite <- Em.
    rewrite class_loop_items; [reflexivity | assumption | right; assumption | rewrite app_length; simpl; lia].
Qed.

(* the regex the parser builds for a token sequence *)
Definition tok_re2 (t : otok) : regex :=
  match t with
  | OLit c => RChr c
  | OAny => neg_slash
  | OStar => RStar neg_slash
  | OClass neg items => tok_re (OClass neg items)
  | OAlt alts => alts_re2 alts
  end.
Fixpoint cre2 (ts : list otok) : regex := match ts with [] => REps | t :: r => RCat (tok_re2 t) (cre2 r) end.

Lemma rwtok_head : forall t, tok_ok t = true -> exists e r, rwtok t = e :: r /\ e <> ch_star /\ e <> ch_bar /\ e <> ch_rpar.
Proof.
  intros t H. destruct t as [c | | | neg items | alts]; simpl in *.
  - destruct (plain_not c H) as (_ & _ & _ & _ & H4 & _ & _ & _ & Hbar & Hrp & _). eauto 10.
  - eexists; eexists; split; [reflexivity | unfold ch_lbrk, ch_star, ch_bar, ch_rpar; repeat split; discriminate].
  - eexists; eexists; split; [reflexivity | unfold ch_lbrk, ch_star, ch_bar, ch_rpar; repeat split; discriminate].
  - eexists; eexists; split; [reflexivity | unfold ch_lbrk, ch_star, ch_bar, ch_rpar; repeat split; discriminate].
  - eexists; eexists; split; [reflexivity | unfold ch_lpar, ch_star, ch_bar, ch_rpar; repeat split; discriminate].
Qed.

Lemma next_not_star : forall ts rest, forallb tok_ok ts = true -> head_not ch_star rest ->
  match rwt ts ++ rest with [] => True | e :: _ => (e =? ch_star) = false end.
Proof.
  intros [| t ts] rest H Hs.
  - simpl. destruct rest as [| e r]; [trivial|]. simpl in Hs. apply Z.eqb_neq. assumption.
  - simpl in H. apply andb_true_iff in H as [Ht _]. destruct (rwtok_head t Ht) as (e & r & E & Hs' & _).
    cbn [rwt]. rewrite E. simpl. apply Z.eqb_neq. assumption.
Qed.

Lemma rwtok_length : forall t, (1 <= length (rwtok t))%nat.
Proof. destruct t; simpl; lia. Qed.
Lemma rwt_length : forall ts, (length ts <= length (rwt ts))%nat.
Proof. induction ts as [| t ts IH]; simpl; [lia|]. rewrite app_length. pose proof (rwtok_length t). lia. Qed.

(* the tokens in front, then whatever the parser makes of the rest *)
Fixpoint cre2k (ts : list otok) (k : regex) : regex := match ts with [] => k | t :: r => RCat (tok_re2 t) (cre2k r k) end.
Lemma cre2k_eps : forall ts, cre2k ts REps = cre2 ts.
Proof. induction ts as [| t ts IH]; simpl; [reflexivity | rewrite IH; reflexivity]. Qed.

Lemma p_seq_tokens_k : forall ts fuel rest, forallb tok_ok ts = true -> head_not ch_star rest ->
  (2 * length (rwt ts) + 2 <= fuel)%nat ->
  p_seq fuel (rwt ts ++ rest) =
    match p_seq (fuel - length ts) rest with POk r' rest' => POk (cre2k ts r') rest' | e => e end.
Proof.
  induction ts as [| t ts IH]; intros fuel rest Hok Hs Hf.
  - simpl. rewrite Nat.sub_0_r. destruct (p_seq fuel rest); reflexivity.
  - destruct fuel as [| f]; [lia|].
    simpl in Hok. apply andb_true_iff in Hok as [Ht Hts].
    cbn [rwt] in *. rewrite app_length in Hf. pose proof (rwtok_length t) as Hl1.
    assert (IHf : p_seq f (rwt ts ++ rest) = match p_seq (f - length ts) rest with POk r' rest' => POk (cre2k ts r') rest' | e => e end)
      by (apply IH; [assumption | assumption | lia]).
    pose proof (next_not_star ts rest Hts Hs) as Hns.
    rewrite <- app_assoc. cbn [length cre2k]. rewrite Nat.sub_succ.
    destruct t as [c | | | neg items | alts].
    + (* literal *)
      simpl in Ht.
      destruct (plain_not c Ht) as (_ & H1 & _ & _ & H4 & H5 & H6 & _ & Hbar & Hrp & Hbs & Hdot & Hlp & Hpl & Hca & Hdo).
      apply Z.eqb_neq in H1, H4, H5, H6, Hbar, Hrp, Hbs, Hdot, Hlp, Hpl, Hca, Hdo.
      simpl app. cbn [p_seq]. rewrite Hbar, Hrp, Hbs, Hdot, Hlp, H6, H4, H5, Hpl, H1, Hca, Hdo. cbn [orb].
      rewrite IHf. destruct (p_seq (f - length ts) rest); reflexivity.
    + (* ? *)
      simpl app. cbn [p_seq]. change (ch_lbrk =? ch_bar) with false. change (ch_lbrk =? ch_rpar) with false.
      change (ch_lbrk =? ch_bsl) with false. change (ch_lbrk =? ch_dot) with false. change (ch_lbrk =? ch_lpar) with false.
      change (ch_lbrk =? ch_lbrk) with true. cbn [orb]. cbv iota. rewrite parse_class_negslash.
      destruct (rwt ts ++ rest) as [| e t1] eqn:Er; [|rewrite Hns]; rewrite IHf; destruct (p_seq (f - length ts) rest); reflexivity.
    + (* * *)
      simpl app. cbn [p_seq]. change (ch_lbrk =? ch_bar) with false. change (ch_lbrk =? ch_rpar) with false.
      change (ch_lbrk =? ch_bsl) with false. change (ch_lbrk =? ch_dot) with false. change (ch_lbrk =? ch_lpar) with false.
      change (ch_lbrk =? ch_lbrk) with true. cbn [orb]. cbv iota. rewrite parse_class_negslash.
      change (ch_star =? ch_star) with true. cbv iota. rewrite IHf. destruct (p_seq (f - length ts) rest); reflexivity.
    + (* class *)
      assert (Hit : items <> [] /\ forallb item_ok items = true).
      { simpl in Ht. destruct items; [discriminate | split; [discriminate | assumption]]. }
      destruct Hit as [Hne Hit].
      cbn [rwtok]. rewrite <- app_comm_cons. rewrite <- !app_assoc. simpl ([ch_rbrk] ++ _).
      cbn [p_seq]. change (ch_lbrk =? ch_bar) with false. change (ch_lbrk =? ch_rpar) with false.
      change (ch_lbrk =? ch_bsl) with false. change (ch_lbrk =? ch_dot) with false. change (ch_lbrk =? ch_lpar) with false.
      change (ch_lbrk =? ch_lbrk) with true. cbn [orb]. cbv iota.
      rewrite (parse_class_tok neg items (rwt ts ++ rest) Hne Hit).
      destruct (rwt ts ++ rest) as [| e t1] eqn:Er; [|rewrite Hns]; rewrite IHf; destruct (p_seq (f - length ts) rest); reflexivity.
    + (* alternatives *)
      assert (Hal : alts <> [] /\ forallb (forallb aplain) alts = true).
      { simpl in Ht. destruct alts; [discriminate | split; [discriminate | assumption]]. }
      destruct Hal as [Hne Hal].
      cbn [rwtok] in *. rewrite <- !app_comm_cons. rewrite <- !app_assoc. simpl ([ch_rpar] ++ _).
      simpl length in Hf. rewrite app_length in Hf. simpl length in Hf.
      cbn [p_seq]. change (ch_lpar =? ch_bar) with false. change (ch_lpar =? ch_rpar) with false.
      change (ch_lpar =? ch_bsl) with false. change (ch_lpar =? ch_dot) with false.
      change (ch_lpar =? ch_lpar) with true. cbn [orb]. cbv iota.
      change (ch_quest =? ch_quest) with true. change (ch_colon =? ch_colon) with true. simpl andb. cbv iota.
      rewrite (p_alt_alts alts f (rwt ts ++ rest) Hne Hal) by lia.
      change (ch_rpar =? ch_rpar) with true. cbv iota. rewrite IHf. destruct (p_seq (f - length ts) rest); reflexivity.
Qed.

Lemma stop_not_star : forall rest, stop rest -> head_not ch_star rest.
Proof. intros [| e r] H; simpl in *; [trivial|]. destruct H as [-> | ->]; unfold ch_bar, ch_rpar, ch_star; discriminate. Qed.

Lemma p_seq_tokens : forall ts fuel rest, forallb tok_ok ts = true -> stop rest ->
  (2 * length (rwt ts) + 2 <= fuel)%nat ->
  p_seq fuel (rwt ts ++ rest) = POk (cre2 ts) rest.
Proof.
  intros ts fuel rest Hok Hs Hf. rewrite p_seq_tokens_k; [|assumption | apply stop_not_star; assumption | assumption].
  pose proof (rwt_length ts). destruct (fuel - length ts)%nat as [| g] eqn:Eg; [lia|].
  rewrite p_seq_stop by assumption. rewrite cre2k_eps. reflexivity.
Qed.

Lemma re_parse_tokens : forall ts, forallb tok_ok ts = true -> re_parse (rwt ts) = POk (cre2 ts) [].
Proof.
  intros ts H. unfold re_parse.
  remember (3 * length (rwt ts) + 4)%nat as fuel eqn:Hf. destruct fuel as [| f]; [lia|].
  cbn [p_alt]. pose proof (p_seq_tokens ts f [] H I) as Hp. rewrite app_nil_r in Hp. rewrite Hp by lia. reflexivity.
Qed.

(* ---- R3: same language as the OSC 1.0 compilation ------------------------------------------------------ *)
Lemma lang_alts_re2 : forall alts w, alts <> [] -> (lang (alts_re2 alts) w <-> In w alts).
Proof.
  induction alts as [| v r IH]; intros w Hne; [contradiction|].
  destruct r as [| v2 r'].
  - change (alts_re2 [v]) with (lit_re v). rewrite lang_lit_re. simpl. split; [intro; left; auto | intros [H | []]; auto].
  - change (alts_re2 (v :: v2 :: r')) with (RAlt (lit_re v) (alts_re2 (v2 :: r'))). split; intro H.
    + inversion H; subst; [left; symmetry; apply lang_lit_re; assumption | right; apply IH; [discriminate | assumption]].
    + destruct H as [-> | H]; [apply L_altl, lang_lit_re; reflexivity | apply L_altr, IH; [discriminate | assumption]].
Qed.

Lemma cre2_compile : forall ts, forallb tok_ok ts = true -> forall s, lang (cre2 ts) s <-> lang (compile ts) s.
Proof.
  induction ts as [| t ts IH]; intros H s; [reflexivity|].
  simpl in H. apply andb_true_iff in H as [Ht Hts]. simpl.
  apply lang_cat_congr; [|apply IH; assumption].
  intro s'. destruct t as [c | | | neg items | alts]; simpl tok_re2; simpl tok_re.
  - reflexivity.
  - apply lang_negslash_any.
  - split; apply lang_star_congr_1; intro; apply lang_negslash_any.
  - reflexivity.
  - assert (Hne : alts <> []) by (simpl in Ht; destruct alts; [discriminate | discriminate]).
    rewrite lang_alts_re2 by assumption. rewrite lang_alts_re. reflexivity.
Qed.

(* ---- the theorem ------------------------------------------------------------------------------------------- *)
Lemma pat_text_correct : forall ts p a, pat_text ts p -> (osc_rematch p a = MTrue <-> osc_lang ts a).
Proof.
  intros ts p a H. pose proof (pat_text_ok ts p H) as Hok.
  unfold osc_rematch, osc_rematch_gen. rewrite (rewrite_pat_text ts p H), (re_parse_tokens ts Hok).
  rewrite <- compile_correct, <- (cre2_compile ts Hok a), <- rmatch_correct.
  destruct (rmatch (cre2 ts) a); split; intro; congruence.
Qed.
Lemma pat_text_decides : forall ts p a, pat_text ts p -> osc_rematch p a = MTrue \/ osc_rematch p a = MFalse.
Proof.
  intros ts p a H. pose proof (pat_text_ok ts p H) as Hok.
  unfold osc_rematch, osc_rematch_gen. rewrite (rewrite_pat_text ts p H), (re_parse_tokens ts Hok).
  destruct (rmatch (cre2 ts) a); auto.
Qed.

(* render of well-formed tokens is a well-formed text *)
Lemma render_pat_text : forall ts, forallb tok_ok ts = true -> pat_text ts (render ts).
Proof.
  induction ts as [| t ts IH]; intro H; [constructor|].
  simpl in H. apply andb_true_iff in H as [Ht Hts]. specialize (IH Hts). cbn [render].
  destruct t as [c | | | neg items | alts]; cbn [render_tok]; simpl app.
  - constructor; assumption.
  - constructor; assumption.
  - constructor; assumption.
  - rewrite <- !app_assoc. simpl ([ch_rbrk] ++ _). apply (PT_class neg false items ts (render ts) Ht IH).
  - rewrite <- app_assoc. simpl ([ch_rbrace] ++ _). apply (PT_alt alts ts (render ts) Ht IH).
Qed.

(* ---- part by part: a matched address has as many parts as the pattern ---------------------------------------- *)
Lemma count_slash_app : forall a b, count_slash (a ++ b) = (count_slash a + count_slash b)%nat.
Proof. induction a as [| c a IH]; intro b; simpl; [reflexivity|]. destruct (c =? ch_slash); rewrite IH; reflexivity. Qed.
Lemma count_slash_wild : forall w, forallb wild_ok w = true -> count_slash w = O.
Proof.
  induction w as [| c w IH]; intro H; [reflexivity|]. simpl in *. apply andb_true_iff in H as [Hc Hw].
  unfold wild_ok in Hc. apply negb_true_iff in Hc. rewrite Hc. apply IH. assumption.
Qed.
Lemma count_slash_aplain : forall w, forallb aplain w = true -> count_slash w = O.
Proof.
  induction w as [| c w IH]; intro H; [reflexivity|]. simpl in *. apply andb_true_iff in H as [Hc Hw].
  destruct (aplain_plain c Hc) as [_ Hs]. apply Z.eqb_neq in Hs. rewrite Hs. apply IH. assumption.
Qed.
Lemma in_items_not_slash : forall items c, forallb item_ok items = true -> in_items c items = true -> (c =? ch_slash) = false.
Proof.
  induction items as [| [lo hi] r IH]; intros c Hok Hin; [discriminate|].
  simpl in Hok. apply andb_true_iff in Hok as [Hi Hr]. unfold in_items in Hin. simpl in Hin.
  apply orb_true_iff in Hin as [Hin | Hin]; [|apply IH; assumption].
  destruct (item_ok_facts lo hi Hi) as (_ & _ & _ & Hns). apply andb_true_iff in Hin as [H1 H2].
  apply Z.leb_le in H1, H2. apply Z.eqb_neq. intro; subst. apply Hns. split; assumption.
Qed.

Lemma osc_lang_same_parts : forall ts a, forallb tok_ok ts = true -> osc_lang ts a ->
  count_slash a = count_slash_toks ts.
Proof.
  intros ts a Hok H. induction H; cbn [forallb] in Hok; try (apply andb_true_iff in Hok as [Ht Hts]; specialize (IHosc_lang Hts)).
  - reflexivity.
  - simpl. destruct (c =? ch_slash); rewrite IHosc_lang; reflexivity.
  - simpl. unfold wild_ok in H. apply negb_true_iff in H. rewrite H. assumption.
  - simpl. rewrite count_slash_app, (count_slash_wild w H). assumption.
  - simpl. assert (Hc : (c =? ch_slash) = false).
    { assert (Hit : forallb item_ok items = true) by (simpl in Ht; destruct items; [discriminate | assumption]).
      destruct neg.
      - apply andb_true_iff in H as [_ H]. unfold wild_ok in H. apply negb_true_iff in H. assumption.
      - apply (in_items_not_slash items c Hit H). }
    rewrite Hc. assumption.
  - simpl. rewrite count_slash_app.
    assert (Hal : forallb (forallb aplain) alts = true) by (simpl in Ht; destruct alts; [discriminate | assumption]).
    rewrite forallb_forall in Hal. rewrite (count_slash_aplain w (Hal w H)). assumption.
Qed.
