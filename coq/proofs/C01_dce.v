(* C01_dce.v -- what disappears and what stays: a unit of the constructed graph that is missing from the
   emitted graph is side-effect free (dead code elimination) or an arithmetic unit merged by a rewrite,
   and no emitted unit reads it; every effectful source instruction is emitted exactly once. *)
From Coq Require Import ZArith QArith Qcanon List String Bool Arith Lia Setoid Permutation.
Import ListNotations.
Require Import SC3.model.Graph SC3.model.GraphSem SC3.gen.Gen_opcodes SC3.proofs.C01_inv
               SC3.proofs.C01_inv2 SC3.proofs.C01_inv3 SC3.proofs.C01_built SC3.proofs.C01_init SC3.proofs.C01_opt
               SC3.proofs.C01_cov SC3.proofs.C01_compile SC3.proofs.C01_sem SC3.proofs.C01_sem2 SC3.proofs.C01_src SC3.proofs.C01_link.
Open Scope string_scope.
Open Scope nat_scope.
Open Scope list_scope.

Definition gone_ok (U : unit) : Prop := pure U = true \/ ukind U = KBin \/ ukind U = KUn \/ ukind U = KSum3.

Lemma same_meta_gone : forall X X', same_meta X X' -> gone_ok X' -> gone_ok X.
Proof.
  intros X X' (_ & _ & _ & _ & _ & _ & _ & A & B & _) H. unfold gone_ok in *. rewrite A, B in H. exact H.
Qed.

Lemma rcase_ua_kind : forall Self UA R, RCase Self UA R -> ukind UA = KBin \/ ukind UA = KUn \/ ukind UA = KSum3.
Proof. intros Self UA R RC. destruct RC; auto. Qed.

Lemma astep_gone : forall x y, astep x y -> forall u, liv (fst x) u -> ~ liv (fst y) u ->
  exists U, get_unit (fst x) u = Some U /\ gone_ok U.
Proof.
  intros x y H u0 L N. destruct H; simpl in *; try contradiction.
  - (* remove *)
    destruct (I_dying s D H u H0) as (Lu & (U & GU & _ & PU) & _).
    destruct (Nat.eq_dec u0 u) as [->|Hne].
    + exists U. split; auto. left; auto.
    + exfalso. apply N. apply (liv_after_remove s D u U u0 H Lu GU). auto.
  - (* rewrite *)
    destruct H4 as [a UA R HA La Na TA Hra Hone HuR TR OkR In1 In2 In3 RV RC].
    assert (Hliv : forall x, liv s' x <-> x = List.length (units s) \/ (liv s x /\ x <> a /\ x <> self)).
    { intro x. eapply (rw_liv' s D self a Self UA R s'); eauto. }
    destruct (Nat.eq_dec u0 a) as [->|Ha]; [exists UA; split; auto; right; eapply rcase_ua_kind; eauto|].
    destruct (Nat.eq_dec u0 self) as [->|Hs]; [exists Self; split; auto; right; left; auto|].
    exfalso. apply N. apply Hliv. right. auto.
Qed.

Lemma asteps_gone : forall x y, asteps x y -> forall u U, get_unit (fst x) u = Some U -> liv (fst x) u ->
  liv (fst y) u \/ gone_ok U.
Proof.
  intros x y H. induction H; intros u U G L; auto.
  destruct (astep_Fr _ _ H) as [_ Fg _ _ _ _ _]. destruct (Fg u U G) as (U' & G' & SM).
  destruct (mem u (live (fst y))) eqn:E.
  - apply mem_live in E. destruct (IHasteps u U' G' E) as [A|A]; auto. right. eapply same_meta_gone; eauto.
  - right. destruct (astep_gone _ _ H u L) as (U2 & G2 & Ok2).
    + intro A. apply mem_live in A. congruence.
    + rewrite G in G2. injection G2 as <-. exact Ok2.
Qed.

Theorem missing_units : forall p s1 s2f s3 s2 out g, Compiled p s1 s2f s3 s2 out g ->
  forall u U, get_unit s1 u = Some U -> ~ In u out ->
  gone_ok U /\ forall c C ch, In c out -> get_unit s2f c = Some C -> ~ In (O u ch) (ins C).
Proof.
  intros p s1 s2f s3 s2 out g C u U GU Nout.
  destruct (CP_trace _ _ _ _ _ _ _ C) as (s0 & ante & IS & Tr).
  pose proof (CP_built _ _ _ _ _ _ _ C) as B.
  destruct (CP_sorted _ _ _ _ _ _ _ C) as (_ & P3 & _).
  destruct (CP_reidx _ _ _ _ _ _ _ C) as (Hl & _).
  destruct (CP_opt _ _ _ _ _ _ _ C) as [rho O].
  assert (Hin_out : forall x, In x out <-> In x (live s2f)).
  { intro x. split; intro H; [eapply Permutation_in; eauto | eapply Permutation_in; [symmetry|]; eauto]. }
  split.
  - assert (G0 : exists U', get_unit (with_rewriting s0 true) u = Some U' /\ pure U' = pure U /\ ukind U' = ukind U).
    { assert (E : get_unit (with_rewriting s0 true) u = get_unit s0 u) by reflexivity. rewrite E, (IS_get _ _ _ IS), GU.
      destruct (pos u (live s1)); eexists; split; try reflexivity; auto. }
    destruct G0 as (U' & G' & E1 & E2).
    assert (L0 : liv (with_rewriting s0 true) u).
    { exists u. unfold slot. cbn [children with_rewriting]. rewrite (IS_children _ _ _ IS), (B_children s1 B).
      apply slot_seq. split; auto. eapply get_lt; eauto. }
    destruct (asteps_gone _ _ Tr u U' G' L0) as [A|A]; cbn [fst] in *.
    + exfalso. apply Nout. apply Hin_out. rewrite Hl. apply live_In. exact A.
    + unfold gone_ok in *. rewrite E1, E2 in A. exact A.
  - intros c C0 ch Hc GC Hin. apply Nout. apply Hin_out.
    destruct (O_ins _ _ O c C0 u ch (proj1 (Hin_out c) Hc) GC Hin) as [A _]. exact A.
Qed.

(* ---- effectful units: tags *)
Definition otag (o : obs) : nat := fst (fst o).
Definition eff_instr (i : instr) : bool :=
  match i with
  | IU name _ _ => match assoc name catalogue with Some c => negb (c_pure c) | None => false end
  | IOut _ _ _ => true
  | _ => false end.
Fixpoint src_eff (idx : nat) (l : list instr) : list nat :=
  match l with [] => [] | i :: t => (if eff_instr i then [S idx] else []) ++ src_eff (S idx) t end.
Definition eff_tags (g : graph) : list nat :=
  map g_tag (filter (fun u => observable (g_kind u) (g_pure u) (g_tag u)) (gr_units g)).

Lemma srun_tags : forall I l e idx, map otag (srun T I e idx l) = src_eff idx l.
Proof.
  intros I l. induction l as [|i t IH]; intros e idx; simpl; auto.
  destruct (sstep T I e idx i) as [v o] eqn:E. rewrite map_app, IH. f_equal.
  destruct i; unfold sstep in E; try (injection E as <- <-; reflexivity).
  unfold eff_instr. destruct (assoc name catalogue) as [c|]; [|injection E as <- <-; reflexivity].
  injection E as <- <-. destruct (c_pure c); reflexivity.
Qed.

Lemma src_eff_bound : forall l idx t, In t (src_eff idx l) -> idx < t.
Proof.
  induction l as [|i r IH]; intros idx t H; simpl in H; [contradiction|].
  apply in_app_iff in H. destruct H as [H|H].
  - destruct (eff_instr i); [destruct H as [<-|[]]; lia | contradiction].
  - apply IH in H. lia.
Qed.
Lemma src_eff_nodup : forall l idx, NoDup (src_eff idx l).
Proof.
  induction l as [|i r IH]; intro idx; simpl; [constructor|].
  destruct (eff_instr i); simpl; auto. constructor; auto. intro H. apply src_eff_bound in H. lia.
Qed.

Lemma graph_tags_gen : forall (F : nat -> gunit -> list Qc) l k,
  map otag (flat_map (fun '(i, u) => if observable (g_kind u) (g_pure u) (g_tag u) then [(g_tag u, g_cls u, F i u)] else [])
                     (combine (seq k (List.length l)) l))
  = map g_tag (filter (fun u => observable (g_kind u) (g_pure u) (g_tag u)) l).
Proof.
  intros F l. induction l as [|u t IH]; intro k; simpl; auto.
  rewrite map_app, IH. destruct (observable (g_kind u) (g_pure u) (g_tag u)); reflexivity.
Qed.
Lemma graph_tags : forall I g, map otag (obs_graph I g) = eff_tags g.
Proof.
  intros I g. unfold obs_graph, eff_tags.
  exact (graph_tags_gen (fun i u => map (gin_val (firstn i (den_graph I g))) (g_ins u)) (gr_units g) 0).
Qed.

Theorem effectful_once : forall p s1 s2f s3 s2 out g, Compiled p s1 s2f s3 s2 out g ->
  Permutation (eff_tags g) (src_eff 0 (p_ins p)) /\ NoDup (src_eff 0 (p_ins p)).
Proof.
  intros p s1 s2f s3 s2 out g C. split; [|apply src_eff_nodup].
  set (I := mkI (fun _ _ _ _ => Q2Qc 0) (fun _ x => x) (fun _ x _ => x) (fun _ => Q2Qc 0)).
  rewrite <- (graph_tags I g). unfold obs_src. rewrite <- (srun_tags I (p_ins p) (mkSE [] (List.length (p_ir p))) 0).
  apply Permutation_map. exact (compiled_meaning I p s1 s2f s3 s2 out g C).
Qed.
