(* C02 -- soundness of the boolean well-formedness checker wf_def (model/Scgf.v) *)
From Coq Require Import ZArith List Bool Lia ZifyBool.
Import ListNotations.
Require Import SC3.model.Scgf SC3.proofs.C02_scgf.
Open Scope Z_scope.

(* the stated well-formedness, as a proposition ------------------------------------------ *)

(* input i of the unit at position pos of d *)
Definition input_ok (d : sdef) (pos : nat) (i : inp) : Prop :=
  match i with
  | IConst k => 0 <= k < zlen (d_consts d)
  | IOut u c => exists v, 0 <= u /\ (Z.to_nat u < pos)%nat
                          /\ nth_error (d_units d) (Z.to_nat u) = Some v
                          /\ 0 <= c < zlen (u_outs v)
  end.

Definition unit_ok (d : sdef) (pos : nat) (u : ugen) : Prop :=
  u_cls u <> [] /\ 0 <= u_rate u <= 3
  /\ Forall (fun r => 0 <= r <= 3) (u_outs u)
  /\ Forall (input_ok d pos) (u_ins u)
  /\ (is_ctl_cls (u_cls u) = true -> 0 <= u_special u /\ u_special u + zlen (u_outs u) <= zlen (d_ctl d)).

Definition WF (d : sdef) : Prop :=
  (forall pos u, nth_error (d_units d) pos = Some u -> unit_ok d pos u)
  /\ (forall n i, In (n, i) (d_names d) -> n <> [] /\ 0 <= i < zlen (d_ctl d))
  /\ (forall v, In v (d_variants d) -> List.length (v_vals v) = List.length (d_ctl d))
  /\ (exists bs, write_def d = Some bs).

(* ------------------------------------------------------------------ *)

Lemma nth_z_some : forall {A} (l : list A) i x, nth_z l i = Some x ->
  0 <= i /\ nth_error l (Z.to_nat i) = Some x /\ (Z.to_nat i < List.length l)%nat.
Proof.
  intros A l i x H. unfold nth_z in H. destruct (Z.ltb_spec i 0); [discriminate|].
  split; [lia|]. split; [exact H|]. apply nth_error_Some. rewrite H. discriminate.
Qed.

Lemma bytes_eqb_nil : forall s, negb (bytes_eqb s []) = true -> s <> [].
Proof. intros s H Hs. subst. discriminate. Qed.

Lemma forallb_Forall : forall {A} (f : A -> bool) (P : A -> Prop),
  (forall x, f x = true -> P x) -> forall l, forallb f l = true -> Forall P l.
Proof.
  intros A f P H l; induction l as [|x l IH]; intros Hl; [constructor|].
  simpl in Hl. apply andb_true_iff in Hl. destruct Hl. constructor; [apply H; assumption | apply IH; assumption].
Qed.

Lemma rate_ok_spec : forall r, rate_ok r = true -> 0 <= r <= 3.
Proof. intros r H. unfold rate_ok in H. change (zlen Gen_scgftables.gen_rate_names) with 4 in H. lia. Qed.

Definition nouts (u : ugen) : Z := zlen (u_outs u).

Lemma units_wf_sound : forall nk nc us pre,
  units_wf nk nc (map nouts pre) us = true ->
  forall pos u, nth_error us pos = Some u ->
    u_cls u <> [] /\ 0 <= u_rate u <= 3
    /\ Forall (fun r => 0 <= r <= 3) (u_outs u)
    /\ Forall (fun i => match i with
                        | IConst k => 0 <= k < nk
                        | IOut j c => exists v, 0 <= j /\ (Z.to_nat j < List.length pre + pos)%nat
                                                /\ nth_error (pre ++ us) (Z.to_nat j) = Some v
                                                /\ 0 <= c < zlen (u_outs v)
                        end) (u_ins u)
    /\ (is_ctl_cls (u_cls u) = true -> 0 <= u_special u /\ u_special u + zlen (u_outs u) <= nc).
Proof.
  intros nk nc us. induction us as [|u0 us IH]; intros pre Hwf pos u Hn.
  - destruct pos; discriminate.
  - simpl in Hwf. apply andb_true_iff in Hwf. destruct Hwf as [Hu Hrest].
    destruct pos as [|pos].
    + simpl in Hn. inversion Hn; subst u0. clear Hn.
      unfold ugen_wf in Hu. split_andb.
      split; [apply bytes_eqb_nil; assumption|].
      split; [apply rate_ok_spec; assumption|].
      split; [eapply forallb_Forall; [apply rate_ok_spec | assumption]|].
      split.
      * eapply forallb_Forall; [|eassumption]. intros [k|j c] Hi; unfold inp_wf in Hi.
        -- lia.
        -- destruct (nth_z (map nouts pre) j) as [no|] eqn:Hj; [|discriminate].
           apply nth_z_some in Hj. destruct Hj as [Hj0 [Hj1 Hj2]].
           rewrite map_length in Hj2.
           rewrite nth_error_map in Hj1. destruct (nth_error pre (Z.to_nat j)) as [v|] eqn:Hv; [|discriminate].
           simpl in Hj1. inversion Hj1; subst no.
           exists v. split; [lia|]. split; [lia|]. split.
           ++ rewrite nth_error_app1 by lia. exact Hv.
           ++ unfold nouts in Hi. lia.
      * intros Hc. match goal with Hx : (if is_ctl_cls (u_cls u) then _ else _) = true |- _ => rewrite Hc in Hx; lia end.
    + simpl in Hn.
      replace (map nouts pre ++ [zlen (u_outs u0)]) with (map nouts (pre ++ [u0])) in Hrest
        by (rewrite map_app; reflexivity).
      specialize (IH (pre ++ [u0]) Hrest pos u Hn).
      rewrite app_length in IH. simpl List.length in IH. rewrite <- app_assoc in IH. simpl app in IH.
      destruct IH as [I1 [I2 [I3 [I4 I5]]]]. repeat split; try assumption; try lia.
      eapply Forall_impl; [|exact I4]. intros [k|j c] Hi; [exact Hi|].
      destruct Hi as [v [Hv0 [Hv1 [Hv2 Hv3]]]]. exists v. repeat split; try assumption; lia.
Qed.

Lemma wf_def_sound_l : forall d, wf_def d = true -> WF d.
Proof.
  intros d H. unfold wf_def in H. apply andb_true_iff in H. destruct H as [H Hunits].
  apply andb_true_iff in H. destruct H as [Hok Hnames].
  split; [|split; [|split]].
  - intros pos u Hn.
    pose proof (units_wf_sound _ _ _ [] Hunits pos u Hn) as [U1 [U2 [U3 [U4 U5]]]].
    unfold unit_ok. repeat split; try assumption; try lia.
  - intros n i Hin. rewrite forallb_forall in Hnames. specialize (Hnames _ Hin).
    unfold pname_wf in Hnames. simpl in Hnames. split_andb.
    split; [apply bytes_eqb_nil; assumption | lia].
  - intros v Hv. unfold def_ok in Hok. split_andb.
    match goal with Hx : forallb (variant_ok _) _ = true |- _ => rewrite forallb_forall in Hx; specialize (Hx _ Hv); unfold variant_ok in Hx end.
    split_andb. apply Nat.eqb_eq. assumption.
  - apply write_def_some_iff. exact Hok.
Qed.

(* a well-formed definition can be evaluated front to back: every unit input read at position pos
   is a constant or an output of a unit at a position < pos that exists *)
Lemma wf_inputs_earlier : forall d, wf_def d = true ->
  forall pos u j c, nth_error (d_units d) pos = Some u -> In (IOut j c) (u_ins u) ->
    (Z.to_nat j < pos)%nat /\ exists v, nth_error (d_units d) (Z.to_nat j) = Some v /\ 0 <= c < zlen (u_outs v).
Proof.
  intros d H pos u j c Hn Hin. apply wf_def_sound_l in H. destruct H as [H _].
  specialize (H pos u Hn). destruct H as [_ [_ [_ [Hins _]]]].
  rewrite Forall_forall in Hins. specialize (Hins _ Hin). simpl in Hins.
  destruct Hins as [v [_ [Hlt [Hv Hc]]]]. split; [exact Hlt|]. exists v. split; assumption.
Qed.

(* width-first order check: what wfirst_ok = true means *)
Lemma wfirst_ok_sound : forall order, wfirst_ok order = true ->
  forall p q cp wp cq, nth_error order p = Some (cp, wp) -> nth_error order q = Some (cq, true) ->
    (p < q)%nat -> cp <= cq.
Proof.
  intros order. induction order as [|[c w] r IH]; intros H p q cp wp cq Hp Hq Hlt.
  - destruct p; discriminate.
  - simpl in H. apply andb_true_iff in H. destruct H as [Hhead Hrest].
    destruct q as [|q]; [lia|]. simpl in Hq.
    destruct p as [|p].
    + simpl in Hp. inversion Hp; subst c w.
      rewrite forallb_forall in Hhead. apply nth_error_In in Hq. specialize (Hhead _ Hq). simpl in Hhead. lia.
    + simpl in Hp. eapply IH; try eassumption. lia.
Qed.
