(* C15, lifting half: lemmas about model/ListAlg.v and model/Lift.v.
   The Theorem lines live in props/C15.v (added by the coordinator from these lemma names). *)
From Coq Require Import ZArith List Bool Arith PeanoNat Lia.
Require Import SC3.lib.PyNum SC3.model.ListAlg SC3.model.Lift.
Import ListNotations.
Local Open Scope nat_scope.

(* ====================================================================== *)
(* wrap_extend                                                             *)

Lemma repeat_list_length : forall {A} (l : list A) k, length (repeat_list l k) = k * length l.
Proof. intros A l k; induction k as [|k IH]; simpl; [reflexivity|]. rewrite app_length, IH; lia. Qed.

Lemma repeat_list_nth : forall {A} (l : list A) k i d,
  l <> [] -> i < k * length l -> nth i (repeat_list l k) d = nth (i mod length l) l d.
Proof.
  intros A l k; induction k as [|k IH]; intros i d Hne Hi; simpl in *; [lia|].
  assert (Hlen : length l <> 0) by (destruct l; simpl; [congruence|lia]).
  destruct (Nat.lt_ge_cases i (length l)) as [Hlt|Hge].
  - rewrite app_nth1 by exact Hlt. rewrite Nat.mod_small by exact Hlt. reflexivity.
  - rewrite app_nth2 by exact Hge. rewrite IH; [|exact Hne|lia].
    f_equal. replace i with ((i - length l) + 1 * length l) at 2 by lia.
    rewrite Nat.mod_add by exact Hlen. reflexivity.
Qed.

Lemma nth_firstn_lt : forall {A} (l : list A) k i d, i < k -> nth i (firstn k l) d = nth i l d.
Proof.
  intros A l; induction l as [|x l IH]; intros k i d Hi.
  - rewrite firstn_nil. reflexivity.
  - destruct k; [lia|]. simpl. destruct i; [reflexivity|]. apply IH; lia.
Qed.

Lemma wrap_extend_length : forall {A} (l : list A) n, l <> [] -> length (wrap_extend l n) = n.
Proof.
  intros A l n Hne. unfold wrap_extend.
  destruct l as [|x l']; [congruence|]. remember (x :: l') as l eqn:El.
  assert (Hlen : length l <> 0) by (subst; simpl; lia).
  replace (length l) with (S (length l')) in * by (subst; reflexivity).
  destruct n as [|n']; [reflexivity|].
  rewrite app_length, repeat_list_length, firstn_length.
  replace (length l) with (S (length l')) by (subst; reflexivity).
  pose proof (Nat.div_mod (S n') (S (length l')) ltac:(lia)) as Hdm.
  pose proof (Nat.mod_upper_bound (S n') (S (length l')) ltac:(lia)) as Hub.
  rewrite Nat.min_l by lia. lia.
Qed.

Lemma wrap_extend_nth : forall {A} (l : list A) n i d,
  l <> [] -> i < n -> nth i (wrap_extend l n) d = nth (i mod length l) l d.
Proof.
  intros A l n i d Hne Hi. unfold wrap_extend.
  destruct l as [|x l']; [congruence|]. remember (x :: l') as l eqn:El.
  assert (Hl : length l = S (length l')) by (subst; reflexivity).
  rewrite Hl. destruct n as [|n']; [lia|]. rewrite <- Hl.
  assert (Hlen : length l <> 0) by lia.
  pose proof (Nat.div_mod (S n') (length l) Hlen) as Hdm.
  pose proof (Nat.mod_upper_bound (S n') (length l) Hlen) as Hub.
  destruct (Nat.lt_ge_cases i ((S n' / length l) * length l)) as [Hlt|Hge].
  - rewrite app_nth1 by (rewrite repeat_list_length; exact Hlt).
    apply repeat_list_nth; assumption.
  - rewrite app_nth2 by (rewrite repeat_list_length; exact Hge).
    rewrite repeat_list_length.
    assert (Hsmall : i - S n' / length l * length l < S n' mod length l) by lia.
    rewrite nth_firstn_lt by exact Hsmall.
    f_equal.
    replace i with ((i - S n' / length l * length l) + (S n' / length l) * length l) at 2 by lia.
    rewrite Nat.mod_add by exact Hlen. rewrite Nat.mod_small by lia. reflexivity.
Qed.

Lemma wrap_extend_same : forall {A} (l : list A), wrap_extend l (length l) = l.
Proof.
  intros A l. destruct l as [|x l']; [reflexivity|].
  apply nth_ext with (d := x) (d' := x).
  - apply wrap_extend_length; discriminate.
  - intros i Hi. rewrite wrap_extend_length in Hi by discriminate.
    rewrite wrap_extend_nth by (try discriminate; exact Hi).
    rewrite Nat.mod_small by exact Hi. reflexivity.
Qed.

Lemma wrap_extend_empty : forall {A} n, @wrap_extend A [] n = [].
Proof. reflexivity. Qed.

(* ====================================================================== *)
(* zip                                                                     *)

Lemma zip_length : forall {A B} (a : list A) (b : list B), length (zip a b) = Nat.min (length a) (length b).
Proof. intros A B a; induction a as [|x a IH]; intros [|y b]; simpl; try reflexivity. rewrite IH; reflexivity. Qed.

Lemma zip_nth : forall {A B} (a : list A) (b : list B) i da db,
  i < length a -> i < length b -> nth i (zip a b) (da, db) = (nth i a da, nth i b db).
Proof.
  intros A B a; induction a as [|x a IH]; intros [|y b] i da db Ha Hb; simpl in *; try lia.
  destruct i as [|i]; [reflexivity|]. apply IH; lia.
Qed.

Lemma existsb_nth_false : forall {A} (p : A -> bool) l i d, existsb p l = false -> i < length l -> p (nth i l d) = false.
Proof.
  intros A p l; induction l as [|x l IH]; intros i d H Hi; simpl in *; [lia|].
  apply orb_false_iff in H as [Hx Hl]. destruct i; [exact Hx|]. apply IH; [exact Hl|lia].
Qed.

(* ====================================================================== *)
(* list_binop: the wrap-around law, generic in the element type            *)

Section GenericLaws.
  Variable X : Type.
  Variable view : X -> option (kind * list X).
  Variable mk : kind -> list X -> X.
  Variable mkerr : err -> X.
  Notation lb := (list_binop_f view mk mkerr).

  Lemma list_binop_scalar_leaf : forall n op a b t,
    view a = None -> view b = None -> lb (S n) op a b t = op a b.
  Proof. intros n op a b t Ha Hb. simpl. rewrite Ha, Hb. reflexivity. Qed.

  (* sequence op scalar / scalar op sequence: map over the sequence, the scalar on its own side *)
  Lemma list_binop_seq_scalar : forall n op a b t ka la,
    view a = Some (ka, la) -> view b = None ->
    lb (S n) op a b t = mk t (map (fun i => lb n op i b (type_of view i)) la).
  Proof. intros n op a b t ka la Ha Hb. simpl. rewrite Ha, Hb. reflexivity. Qed.

  Lemma list_binop_scalar_seq : forall n op a b t kb lb0,
    view a = None -> view b = Some (kb, lb0) ->
    lb (S n) op a b t = mk t (map (fun i => lb n op a i (type_of view i)) lb0).
  Proof. intros n op a b t kb lb0 Ha Hb. simpl. rewrite Ha, Hb. reflexivity. Qed.

  (* two non-empty sequences: length = max of the lengths, element i combines
     a[i mod |a|] with b[i mod |b|], recursively *)
  Lemma list_binop_wrap_law_gen : forall n op a b t ka la kb lb0 d,
    view a = Some (ka, la) -> view b = Some (kb, lb0) -> la <> [] -> lb0 <> [] ->
    exists r, lb (S (S n)) op a b t = mk t r
      /\ length r = Nat.max (length la) (length lb0)
      /\ forall i, i < Nat.max (length la) (length lb0) ->
           let x := nth (i mod length la) la d in
           let y := nth (i mod length lb0) lb0 d in
           nth i r d = lb (S n) op x y (t2_of view x y).
  Proof.
    intros n op a b t ka la kb lb0 d Ha Hb Hla Hlb.
    set (m := Nat.max (length la) (length lb0)).
    set (la' := if length lb0 <=? length la then la else wrap_extend la (length lb0)).
    set (lb' := if length lb0 <=? length la then wrap_extend lb0 (length la) else lb0).
    assert (Hla' : length la' = m /\ forall i, i < m -> nth i la' d = nth (i mod length la) la d).
    { unfold la', m. destruct (Nat.leb_spec (length lb0) (length la)) as [Hle|Hgt].
      - split; [lia|]. intros i Hi. rewrite Nat.mod_small by lia. reflexivity.
      - split; [rewrite wrap_extend_length by exact Hla; lia|].
        intros i Hi. apply wrap_extend_nth; [exact Hla|lia]. }
    assert (Hlb' : length lb' = m /\ forall i, i < m -> nth i lb' d = nth (i mod length lb0) lb0 d).
    { unfold lb', m. destruct (Nat.leb_spec (length lb0) (length la)) as [Hle|Hgt].
      - split; [rewrite wrap_extend_length by exact Hlb; lia|].
        intros i Hi. apply wrap_extend_nth; [exact Hlb|lia].
      - split; [lia|]. intros i Hi. rewrite Nat.mod_small by lia. reflexivity. }
    destruct Hla' as [Hlena Hntha]. destruct Hlb' as [Hlenb Hnthb].
    assert (Hunf : lb (S (S n)) op a b t =
              if any_seq view la' || any_seq view lb'
              then if length lb' <? length la' then mkerr EIndex
                   else mk t (map (fun p => lb (S n) op (fst p) (snd p) (t2_of view (fst p) (snd p))) (zip la' lb'))
              else mk t (map (fun p => op (fst p) (snd p)) (zip la' lb'))).
    { change (lb (S (S n)) op a b t) with
        (match view a, view b with
         | Some (_, la), Some (_, lb0) =>
           let la' := if length lb0 <=? length la then la else wrap_extend la (length lb0) in
           let lb' := if length lb0 <=? length la then wrap_extend lb0 (length la) else lb0 in
           if any_seq view la' || any_seq view lb'
           then if length lb' <? length la' then mkerr EIndex
                else mk t (map (fun p => lb (S n) op (fst p) (snd p) (t2_of view (fst p) (snd p))) (zip la' lb'))
           else mk t (map (fun p => op (fst p) (snd p)) (zip la' lb'))
         | Some (_, la), None => mk t (map (fun i => lb (S n) op i b (type_of view i)) la)
         | None, Some (_, lb0) => mk t (map (fun i => lb (S n) op a i (type_of view i)) lb0)
         | None, None => op a b
         end).
      rewrite Ha, Hb. reflexivity. }
    assert (Hzl : length (zip la' lb') = m) by (rewrite zip_length; lia).
    assert (Hzn : forall i, i < m -> nth i (zip la' lb') (d, d) =
                   (nth (i mod length la) la d, nth (i mod length lb0) lb0 d)).
    { intros i Hi. rewrite zip_nth by lia. rewrite Hntha, Hnthb by exact Hi. reflexivity. }
    rewrite Hunf. destruct (any_seq view la' || any_seq view lb') eqn:Hany.
    - assert (Hlt : (length lb' <? length la') = false) by (apply Nat.ltb_ge; lia).
      rewrite Hlt. eexists. split; [reflexivity|]. split; [rewrite map_length; exact Hzl|].
      intros i Hi x y.
      set (f := fun p : X * X => lb (S n) op (fst p) (snd p) (t2_of view (fst p) (snd p))).
      rewrite (nth_indep _ d (f (d, d))) by (rewrite map_length; lia).
      rewrite map_nth. rewrite Hzn by exact Hi. reflexivity.
    - apply orb_false_iff in Hany as [Hanya Hanyb].
      eexists. split; [reflexivity|]. split; [rewrite map_length; exact Hzl|].
      intros i Hi x y.
      set (f := fun p : X * X => op (fst p) (snd p)).
      rewrite (nth_indep _ d (f (d, d))) by (rewrite map_length; lia).
      rewrite map_nth. rewrite Hzn by exact Hi. unfold f; cbn [fst snd].
      assert (Hx : view x = None).
      { pose proof (existsb_nth_false (is_seq view) la' i d Hanya ltac:(lia)) as H.
        rewrite Hntha in H by exact Hi. unfold is_seq in H. fold x in H. destruct (view x); [discriminate|reflexivity]. }
      assert (Hy : view y = None).
      { pose proof (existsb_nth_false (is_seq view) lb' i d Hanyb ltac:(lia)) as H.
        rewrite Hnthb in H by exact Hi. unfold is_seq in H. fold y in H. destruct (view y); [discriminate|reflexivity]. }
      fold x y. rewrite list_binop_scalar_leaf by assumption. reflexivity.
  Qed.

  (* an empty operand: the flat case gives the empty sequence (zip truncates), the nested case
     raises IndexError (b[i] on the emptied b) *)
  Lemma list_binop_empty_right : forall n op a b t ka la kb,
    view a = Some (ka, la) -> view b = Some (kb, []) ->
    lb (S n) op a b t = if any_seq view la then (if 0 <? length la then mkerr EIndex else mk t []) else mk t [].
  Proof.
    intros n op a b t ka la kb Ha Hb. simpl. rewrite Ha, Hb. simpl.
    rewrite wrap_extend_empty. simpl. rewrite orb_false_r.
    destruct (any_seq view la); destruct la; reflexivity.
  Qed.
End GenericLaws.

(* ====================================================================== *)
(* values: utils.list_binop on nested lists of numbers                      *)

(* flat lists of numbers: the closed form of the property text *)
Lemma list_binop_wrap_law : forall (g : num -> num -> num) ka la kb lb0 t,
  la <> [] -> lb0 <> [] ->
  exists r, list_binop g (L ka (map N la)) (L kb (map N lb0)) t = L t r
    /\ length r = Nat.max (length la) (length lb0)
    /\ forall i, i < Nat.max (length la) (length lb0) ->
         nth i r (N NErr) = N (g (nth (i mod length la) la NErr) (nth (i mod length lb0) lb0 NErr)).
Proof.
  intros g ka la kb lb0 t Hla Hlb.
  unfold list_binop.
  set (a := L ka (map N la)). set (b := L kb (map N lb0)).
  assert (Hd : exists k, Nat.max (vdepth a) (vdepth b) = S k).
  { unfold a. simpl. destruct (fold_right _ _ _); eexists; simpl; reflexivity. }
  destruct Hd as [k Hk]. rewrite Hk.
  destruct (list_binop_wrap_law_gen v vview L VErr k (lift_num2 g) a b t ka (map N la) kb (map N lb0) (N NErr))
    as [r [Hr [Hlen Hnth]]]; try reflexivity.
  - destruct la; [congruence|discriminate].
  - destruct lb0; [congruence|discriminate].
  - exists r. split; [exact Hr|]. rewrite !map_length in *. split; [exact Hlen|].
    intros i Hi. specialize (Hnth i Hi). simpl in Hnth. rewrite Hnth.
    change (N NErr) with (N (@id num NErr)).
    rewrite !map_nth. reflexivity.
Qed.

(* ====================================================================== *)
(* composition objects (model/Lift.v)                                      *)


Lemma sel_apply2_nums : forall g x y, sel_apply2 g (ONum x) (ONum y) = ONum (snd g x y).
Proof. intros [[| |] f] x y; reflexivity. Qed.
Lemma sel_apply1_num : forall g x, sel_apply1 g (ONum x) = ONum (snd g x).
Proof. intros [[| |] f] x; reflexivity. Qed.

Lemma onums_of_map : forall ys, onums_of (map ONum ys) = Some ys.
Proof. induction ys as [|y ys IH]; simpl; [reflexivity|]. rewrite IH. reflexivity. Qed.
Lemma first_err_map : forall ys, first_err (map ONum ys) = None.
Proof. induction ys as [|y ys IH]; simpl; [reflexivity|exact IH]. Qed.
Lemma sel_apply3_nums : forall g x ys, sel_apply3 g (ONum x) (map ONum ys) = ONum (snd g x ys).
Proof.
  intros [[| |] f] x ys; unfold sel_apply3, apply_narop, raw_apply3; simpl;
    rewrite first_err_map, onums_of_map; reflexivity.
Qed.

(* who composes: the left operand's _compose_binop, else the right operand's _rcompose_binop
   with the operands in their ORIGINAL order *)
Lemma fn_compose_binop : forall g a b, is_fn a = true -> is_err b = false -> apply_binop g a b = OBinFn g a b.
Proof. intros g a b Ha Hb. destruct a; try discriminate; destruct b; try discriminate; reflexivity. Qed.
Lemma fn_rcompose_binop : forall g n b, is_fn b = true -> apply_binop g (ONum n) b = OBinFn g (ONum n) b.
Proof. intros g n b Hb. destruct b; try discriminate; reflexivity. Qed.
Lemma fn_compose_unop : forall g a, is_fn a = true -> apply_unop g a = OUnFn g a.
Proof. intros g a Ha. destruct a; try discriminate; reflexivity. Qed.
Lemma fn_compose_narop : forall g a args, is_fn a = true -> first_err args = None -> apply_narop g a args = ONarFn g a args.
Proof.
  intros g a args Ha He. unfold apply_narop. destruct a; try discriminate; simpl; rewrite He; reflexivity.
Qed.
Lemma str_compose_binop : forall g s b, class_of s = CStr -> is_err b = false -> apply_binop g s b = OBinStr g s (to_stream b).
Proof. intros g s b Hs Hb. destruct s; try discriminate; destruct b; try discriminate; reflexivity. Qed.
Lemma str_rcompose_binop : forall g n s, class_of s = CStr -> apply_binop g (ONum n) s = OBinStr g (OValStr (ONum n)) s.
Proof. intros g n s Hs. destruct s; try discriminate; reflexivity. Qed.
Lemma pat_compose_binop : forall g p b, class_of p = CPat -> is_err b = false ->
  to_stream (apply_binop g p b) = OBinStr g (to_stream p) (to_stream b).
Proof. intros g p b Hp Hb. destruct p; try discriminate; destruct b; try discriminate; reflexivity. Qed.
Lemma pat_rcompose_binop : forall g n p, class_of p = CPat ->
  to_stream (apply_binop g (ONum n) p) = OBinStr g (OValStr (ONum n)) (to_stream p).
Proof. intros g n p Hp. destruct p; try discriminate; reflexivity. Qed.

Section FunctionLaws.
  Variable env : nat -> num.
  Variable fx : bool.      (* narop_fixed *)

  (* (f op g)(x) = f(x) op g(x): the composed function evaluates both operands at the same
     argument (a non-callable operand stands for itself) and applies the selector to the values *)
  Lemma fn_binop_call : forall g a b, is_fn a = true -> is_err b = false ->
    call env fx (apply_binop g a b) = sel_apply2 g (callv env fx a) (callv env fx b).
  Proof. intros g a b Ha Hb. rewrite fn_compose_binop by assumption. reflexivity. Qed.

  Lemma fn_rbinop_call : forall g n b, is_fn b = true ->
    call env fx (apply_binop g (ONum n) b) = sel_apply2 g (ONum n) (call env fx b).
  Proof. intros g n b Hb. rewrite fn_rcompose_binop by assumption. simpl. rewrite Hb. reflexivity. Qed.

  Lemma fn_unop_call : forall g a, is_fn a = true ->
    call env fx (apply_unop g a) = sel_apply1 g (call env fx a).
  Proof. intros g a Ha. rewrite fn_compose_unop by assumption. reflexivity. Qed.

  (* numeric function objects and their denotation *)
  Fixpoint fval (o : obj) : num :=
    match o with
    | ONum n => n
    | OFn id => env id
    | OUnFn g a => snd g (fval a)
    | OBinFn g a b => snd g (fval a) (fval b)
    | _ => NErr
    end.
  Fixpoint nf (o : obj) : bool :=
    match o with
    | ONum _ | OFn _ => true
    | OUnFn _ a => nf a
    | OBinFn _ a b => nf a && nf b
    | _ => false
    end.

  Lemma nf_not_fn_is_num : forall o, nf o = true -> is_fn o = false -> exists n, o = ONum n.
  Proof. intros o Hn Hf. destruct o; try discriminate; eexists; reflexivity. Qed.

  Lemma call_fval : forall o, nf o = true -> call env fx o = ONum (fval o).
  Proof.
    induction o; intros Hn; try discriminate; simpl in *.
    - reflexivity.
    - reflexivity.
    - rewrite IHo by exact Hn. apply sel_apply1_num.
    - apply andb_true_iff in Hn as [Ha Hb].
      assert (Hca : (if is_fn o2 then call env fx o2 else o2) = ONum (fval o2)).
      { destruct (is_fn o2) eqn:E; [apply IHo1; exact Ha|].
        destruct (nf_not_fn_is_num o2 Ha E) as [n ->]. reflexivity. }
      assert (Hcb : (if is_fn o3 then call env fx o3 else o3) = ONum (fval o3)).
      { destruct (is_fn o3) eqn:E; [apply IHo2; exact Hb|].
        destruct (nf_not_fn_is_num o3 Hb E) as [n ->]. reflexivity. }
      rewrite Hca, Hcb. apply sel_apply2_nums.
  Qed.

  Lemma callv_fval : forall o, nf o = true -> callv env fx o = ONum (fval o).
  Proof.
    intros o Hn. unfold callv. destruct (is_fn o) eqn:E; [apply call_fval; exact Hn|].
    destruct (nf_not_fn_is_num o Hn E) as [n ->]. reflexivity.
  Qed.

  Lemma nf_not_err : forall o, nf o = true -> is_err o = false.
  Proof. intros o H; destruct o; try discriminate; reflexivity. Qed.

  (* lift_binop_hom on function objects, by induction on the operands: whatever functions
     and numbers a and b are built from (with any operators), the object `a op b` evaluates to
     op (value of a) (value of b), and it is again such an object (so the law iterates) *)
  Lemma lift_binop_hom_fn : forall g a b, nf a = true -> nf b = true -> is_fn a || is_fn b = true ->
    callv env fx (apply_binop g a b) = ONum (snd g (fval a) (fval b))
    /\ nf (apply_binop g a b) = true /\ is_fn (apply_binop g a b) = true.
  Proof.
    intros g a b Ha Hb Hf.
    assert (Hc : apply_binop g a b = OBinFn g a b).
    { destruct (is_fn a) eqn:Ea.
      - apply fn_compose_binop; [exact Ea|apply nf_not_err; exact Hb].
      - destruct (nf_not_fn_is_num a Ha Ea) as [n ->]. apply fn_rcompose_binop. exact Hf. }
    rewrite Hc. split; [|split; [simpl; rewrite Ha, Hb; reflexivity|reflexivity]].
    rewrite callv_fval by (simpl; rewrite Ha, Hb; reflexivity). reflexivity.
  Qed.

  Lemma lift_unop_hom_fn : forall g a, nf a = true -> is_fn a = true ->
    callv env fx (apply_unop g a) = ONum (snd g (fval a)) /\ nf (apply_unop g a) = true.
  Proof.
    intros g a Ha Hf. rewrite fn_compose_unop by exact Hf. split; [|exact Ha].
    rewrite callv_fval by exact Ha. reflexivity.
  Qed.
End FunctionLaws.

(* n-ary operators on functions.  With the repaired NaropFunction (narop_fixed = true) every
   callable extra argument is evaluated: *)
Lemma lift_narop_hom : forall env g a args x ys,
  is_fn a = true -> call env true a = ONum x ->
  Forall2 (fun o y => callv env true o = ONum y /\ is_err o = false) args ys ->
  call env true (apply_narop g a args) = ONum (snd g x ys).
Proof.
  intros env g a args x ys Ha Hx Hargs.
  assert (He : first_err args = None).
  { induction Hargs as [|o y l l' [_ Ho] _ IH]; [reflexivity|]. destruct o; try discriminate; exact IH. }
  rewrite fn_compose_narop by assumption. simpl. rewrite Hx.
  assert (Hm : map (callv env true) args = map ONum ys).
  { clear He. induction Hargs as [|o y l l' [Ho _] _ IH]; [reflexivity|]. cbn [map]. rewrite IH, Ho. reflexivity. }
  rewrite (map_ext _ (callv env true)) by reflexivity.
  rewrite Hm. apply sel_apply3_nums.
Qed.

(* The code as it is (narop_fixed = false) satisfies the law only when every extra argument is a
   number or a Function INSTANCE (a primitive): *)
Lemma lift_narop_hom_partial : forall env g a args x ys,
  is_fn a = true -> call env false a = ONum x ->
  Forall2 (fun o y => o = ONum y \/ exists id, o = OFn id /\ env id = y) args ys ->
  call env false (apply_narop g a args) = ONum (snd g x ys).
Proof.
  intros env g a args x ys Ha Hx Hargs.
  assert (He : first_err args = None).
  { induction Hargs as [|o y l l' Ho _ IH]; [reflexivity|].
    destruct Ho as [->|[id [-> _]]]; exact IH. }
  rewrite fn_compose_narop by assumption.
  pose (ev := fun x0 => if narg_is_evaluated false x0 then call env false x0 else x0).
  change (call env false (ONarFn g a args)) with (sel_apply3 g (call env false a) (map ev args)).
  rewrite Hx.
  assert (Hm : map ev args = map ONum ys).
  { clear He. induction Hargs as [|o y l l' Ho _ IH]; [reflexivity|]. cbn [map]. rewrite IH.
    destruct Ho as [->|[id [-> <-]]]; reflexivity. }
  rewrite Hm. apply sel_apply3_nums.
Qed.

(* ... and is refuted for composed functions: f.clip(g - 5, g + 5)(3) with f = x + 1, g = 2 x.
   The operands evaluate to the numbers 4, 1, 11, yet the composed object does not evaluate to
   clip 4 1 11 = 4: the numeric kernel receives the unevaluated BinopFunction objects. *)
Definition clip_demo : num -> list num -> num :=
  fun x l => match l with [lo; hi] => pmax (pmin x hi) lo | _ => NErr end.
Lemma lift_narop_hom_refuted :
  exists env g a args x ys,
    is_fn a = true /\ call env false a = ONum x /\
    Forall2 (fun o y => callv env false o = ONum y /\ is_err o = false) args ys /\
    snd g x ys = I 4 /\
    call env false (apply_narop g a args) = OErr EObjArg.
Proof.
  exists (fun id => match id with O => I 4 | _ => I 6 end), (SDec, clip_demo), (OFn 0),
         [OBinFn (SPy, nsub) (OFn 1) (ONum (I 5)); OBinFn (SPy, nadd) (OFn 1) (ONum (I 5))], (I 4), [I 1; I 11].
  repeat split; try reflexivity.
  repeat constructor.
Qed.

(* ====================================================================== *)
(* streams and patterns                                                     *)

Lemma zip_map : forall {A B A' B'} (f : A -> A') (h : B -> B') a b,
  zip (map f a) (map h b) = map (fun p => (f (fst p), h (snd p))) (zip a b).
Proof. intros A B A' B' f h a; induction a as [|x a IH]; intros [|y b]; simpl; try reflexivity. rewrite IH; reflexivity. Qed.

(* next(s op t) = next(s) op next(t), in lock step, ending with the shorter operand *)
Lemma stream_binop_ends_with_shortest : forall g s b l m d,
  class_of s = CStr -> is_err b = false ->
  pull s = SFin l -> pull (to_stream b) = SFin m ->
  exists r, pull (apply_binop g s b) = SFin r
    /\ length r = Nat.min (length l) (length m)
    /\ forall i, i < Nat.min (length l) (length m) -> nth i r d = sel_apply2 g (nth i l d) (nth i m d).
Proof.
  intros g s b l m d Hs Hb Hl Hm. unfold pull in *. rewrite str_compose_binop by assumption. simpl. rewrite Hl, Hm. simpl.
  eexists. split; [reflexivity|]. split; [rewrite map_length, zip_length; reflexivity|].
  intros i Hi. set (f := fun p : obj * obj => sel_apply2 g (fst p) (snd p)).
  rewrite (nth_indep _ d (f (d, d))) by (rewrite map_length, zip_length; exact Hi).
  rewrite map_nth. rewrite zip_nth by lia. reflexivity.
Qed.

(* a stream against a non-stream (number, function, list...): stream(other) is the constant stream *)
Lemma stream_binop_value : forall g s b l,
  class_of s = CStr -> is_err b = false -> pull s = SFin l -> pull (to_stream b) = SConst b ->
  pull (apply_binop g s b) = SFin (map (fun a => sel_apply2 g a b) l).
Proof. intros g s b l Hs Hb Hl Hm. unfold pull in *. rewrite str_compose_binop by assumption. simpl. rewrite Hl, Hm. reflexivity. Qed.

Lemma stream_binop_numbers : forall g la lb0,
  pull (apply_binop g (OStr la) (OStr lb0)) = SFin (map (fun p => ONum (snd g (fst p) (snd p))) (zip la lb0)).
Proof.
  intros g la lb0. unfold pull. simpl. rewrite zip_map, map_map. f_equal. apply map_ext. intros [x y]. apply sel_apply2_nums.
Qed.

(* patterns: stream(p op q) = stream(p) op stream(q) *)
Lemma pattern_binop_numbers : forall g la lb0,
  pull (to_stream (apply_binop g (OPat la) (OPat lb0))) = SFin (map (fun p => ONum (snd g (fst p) (snd p))) (zip la lb0)).
Proof. intros g la lb0. exact (stream_binop_numbers g la lb0). Qed.

(* ====================================================================== *)
(* operands, channel lists of numbers                                       *)

Lemma operand_binop_hom : forall g r r' x y,
  apply_binop g (OOperand r (ONum x)) (OOperand r' (ONum y)) = OOperand r (ONum (snd g x y))
  /\ apply_binop g (OOperand r (ONum x)) (ONum y) = OOperand r (ONum (snd g x y))
  /\ apply_binop g (ONum x) (OOperand r (ONum y)) = OOperand r (ONum (snd g x y)).
Proof. intros [[| |] f] r r' x y; repeat split; reflexivity. Qed.

Lemma odepth_nums : forall k ys, odepth (OSeq k (map ONum ys)) = 1.
Proof. intros k ys. simpl. f_equal. induction ys as [|y ys IH]; simpl; [reflexivity|exact IH]. Qed.

Lemma chan_scalar_left : forall g n ys,
  apply_binop g (ONum n) (OSeq KChan (map ONum ys)) = OSeq KChan (map (fun y => ONum (snd g n y)) ys).
Proof.
  intros g n ys. unfold apply_binop. rewrite odepth_nums.
  destruct g as [[| |] f]; simpl; rewrite map_map; f_equal.
Qed.
Lemma chan_scalar_right : forall g n ys,
  apply_binop g (OSeq KChan (map ONum ys)) (ONum n) = OSeq KChan (map (fun y => ONum (snd g y n)) ys).
Proof.
  intros g n ys. unfold apply_binop. rewrite odepth_nums.
  destruct g as [[| |] f]; simpl; rewrite map_map; f_equal.
Qed.

(* reflected forms: a plain number on the left stays on the left *)
Lemma reflected_forms : forall env fx g n,
  (forall b, is_fn b = true ->
     call env fx (apply_binop g (ONum n) b) = sel_apply2 g (ONum n) (call env fx b))
  /\ (forall s l, class_of s = CStr -> pull s = SFin l ->
     pull (apply_binop g (ONum n) s) = SFin (map (fun e => sel_apply2 g (ONum n) e) l))
  /\ (forall p l, class_of p = CPat -> pull (to_stream p) = SFin l ->
     pull (to_stream (apply_binop g (ONum n) p)) = SFin (map (fun e => sel_apply2 g (ONum n) e) l))
  /\ (forall ys, apply_binop g (ONum n) (OSeq KChan (map ONum ys)) = OSeq KChan (map (fun y => ONum (snd g n y)) ys))
  /\ (forall r y, apply_binop g (ONum n) (OOperand r (ONum y)) = OOperand r (ONum (snd g n y))).
Proof.
  intros env fx g n. split; [|split; [|split; [|split]]].
  - intros b Hb. apply fn_rbinop_call. exact Hb.
  - intros s l Hs Hl. unfold pull in *. rewrite str_rcompose_binop by exact Hs. simpl. rewrite Hl. reflexivity.
  - intros p l Hp Hl. unfold pull in *. rewrite pat_rcompose_binop by exact Hp. simpl. rewrite Hl. reflexivity.
  - apply chan_scalar_left.
  - intros r y. apply operand_binop_hom. exact true.
Qed.

(* ChannelList op list/tuple/ChannelList of numbers, via the dispatch of AbstractSequence:
   length = max of the lengths, element i = op a[i mod |a|] b[i mod |b|] *)
Lemma chan_binop_wrap_law : forall g k la lb0, la <> [] -> lb0 <> [] ->
  exists r, apply_binop g (OSeq KChan (map ONum la)) (OSeq k (map ONum lb0)) = OSeq KChan r
    /\ length r = Nat.max (length la) (length lb0)
    /\ forall i, i < Nat.max (length la) (length lb0) ->
         nth i r (ONum NErr) = ONum (snd g (nth (i mod length la) la NErr) (nth (i mod length lb0) lb0 NErr)).
Proof.
  intros g k la lb0 Hla Hlb. unfold apply_binop. rewrite !odepth_nums.
  set (a := OSeq KChan (map ONum la)). set (b := OSeq k (map ONum lb0)).
  set (sel := match fst g with
              | SRaw => raw_apply2 g
              | SDec => apply_binop_f 3 (demote g)
              | SPy => apply_binop_f 3 g
              end).
  assert (Hstep : apply_binop_f (S (S (1 + 1))) g a b = list_binop_f oview OSeq OErr 3 sel a b KChan) by reflexivity.
  rewrite Hstep.
  destruct (list_binop_wrap_law_gen obj oview OSeq OErr 1 sel a b KChan KChan (map ONum la) k (map ONum lb0) (ONum NErr))
    as [r [Hr [Hlen Hnth]]]; try reflexivity.
  - destruct la; [congruence|discriminate].
  - destruct lb0; [congruence|discriminate].
  - exists r. split; [exact Hr|]. rewrite !map_length in *. split; [exact Hlen|].
    intros i Hi. specialize (Hnth i Hi). cbv zeta in Hnth. rewrite Hnth.
    change (ONum NErr) with (ONum (@id num NErr)). rewrite !map_nth. unfold id.
    rewrite list_binop_scalar_leaf by reflexivity.
    unfold sel. destruct g as [[| |] f]; reflexivity.
Qed.

(* ====================================================================== *)
(* operator patterns EMBEDDED in enclosing patterns (Pseq / Pn)             *)

(* Punop.__embed__, Pattern.__embed__ (Pbinop) and Pnarop.__embed__ yield exactly what the stream
   made by __stream__ yields: every operand stream is advanced once per element on both paths *)
Lemma embed_eq_stream : forall (g1 : op1) (g2 : op2) (g3 : op3) a b args,
  xpull MEmbed (OUnPat g1 a) = xpull MStream (OUnPat g1 a)
  /\ xpull MEmbed (OBinPat g2 a b) = xpull MStream (OBinPat g2 a b)
  /\ xpull MEmbed (ONarPat g3 a args) = xpull MStream (ONarPat g3 a args).
Proof. intros. repeat split; reflexivity. Qed.

(* stream(o) pulled = the MStream denotation, for every object (to_stream is stream.stream) *)
Fixpoint xpull_to_stream (o : obj) : xpull MPull (to_stream o) = xpull MStream o.
Proof.
  destruct o; try reflexivity.
  - simpl. rewrite (xpull_to_stream o0). reflexivity.
  - simpl. rewrite (xpull_to_stream o2), (xpull_to_stream o3). reflexivity.
  - simpl. rewrite (xpull_to_stream o0). do 2 f_equal.
    rewrite map_map. induction args as [|x args IH]; [reflexivity|].
    simpl. rewrite (xpull_to_stream x), IH. reflexivity.
Qed.

Lemma sconcat_single : forall {A} (s : strm A), sconcat [s] = s.
Proof. intros A [l|a]; simpl; [rewrite app_nil_r|]; reflexivity. Qed.
Lemma srepeat_one : forall {A} (s : strm A), srepeat 1 s = s.
Proof. intros A [l|a]; simpl; [rewrite app_nil_r|]; reflexivity. Qed.

(* an enclosing Pseq embeds its items one after the other; a single embedded operator pattern
   therefore yields, element by element, the selector applied to the separately pulled operands *)
Lemma pseq_embeds_items : forall items m, m <> MPull ->
  xpull m (OPseq items 1) = sconcat (map (xpull MEmbed) items).
Proof. intros items [| |] Hm; try congruence; simpl; apply srepeat_one. Qed.

Lemma embedded_unop : forall g a m, m <> MPull ->
  xpull m (OPseq [OUnPat g a] 1) = smap (sel_apply1 g) (xpull MStream a).
Proof. intros g a m Hm. rewrite pseq_embeds_items by exact Hm. simpl map. apply sconcat_single. Qed.
Lemma embedded_binop : forall g a b m, m <> MPull ->
  xpull m (OPseq [OBinPat g a b] 1) = szip (sel_apply2 g) (xpull MStream a) (xpull MStream b).
Proof. intros g a b m Hm. rewrite pseq_embeds_items by exact Hm. simpl map. apply sconcat_single. Qed.
Lemma embedded_narop : forall g a args m, m <> MPull ->
  xpull m (OPseq [ONarPat g a args] 1)
  = szip (sel_apply3 g) (xpull MStream a) (sseq (map (xpull MStream) args)).
Proof. intros g a args m Hm. rewrite pseq_embeds_items by exact Hm. simpl map. apply sconcat_single. Qed.
Lemma embedded_in_pn : forall p m, m <> MPull -> xpull m (OPn p 1) = xpull MEmbed p.
Proof. intros p [| |] Hm; try congruence; simpl; apply srepeat_one. Qed.

Lemma zip_map_l : forall {A B A'} (f : A -> A') (a : list A) (b : list B),
  zip (map f a) b = map (fun p => (f (fst p), snd p)) (zip a b).
Proof. intros A B A' f a; induction a as [|x a IH]; intros [|y b]; simpl; try reflexivity. rewrite IH; reflexivity. Qed.
Lemma zip_map_r : forall {A B B'} (h : B -> B') (a : list A) (b : list B),
  zip a (map h b) = map (fun p => (fst p, h (snd p))) (zip a b).
Proof. intros A B B' h a; induction a as [|x a IH]; intros [|y b]; simpl; try reflexivity. rewrite IH; reflexivity. Qed.

(* the closed form for numbers: p.clip(lo, hi) embedded in a Pseq, p a pattern, lo a STREAM (Routine)
   yielding varying values, hi a pattern: element i = op p[i] lo[i] hi[i], ending with the shortest *)
Lemma embedded_narop_numbers : forall g la lo hi,
  xpull MStream (OPseq [ONarPat g (OPat la) [OStr lo; OPat hi]] 1)
  = SFin (map (fun t => ONum (snd g (fst t) [fst (snd t); snd (snd t)])) (zip la (zip lo hi))).
Proof.
  intros g la lo hi. rewrite embedded_narop by discriminate. simpl.
  repeat first [rewrite map_map | rewrite zip_map | rewrite zip_map_r | rewrite zip_map_l].
  f_equal. apply map_ext. intros [x [y z]]. simpl. exact (sel_apply3_nums g x [y; z]).
Qed.

(* ====================================================================== *)
(* keyword calls: Function.__call__ filtering, one argument record for every operand *)

Lemma prim_call_filters : forall p pos kw,
  prim_call p (pos, kw)
  = prim_call p (firstn (length (p_params p)) pos, filter (fun e => declares (p_params p) (fst e)) kw).
Proof.
  intros p pos kw. unfold prim_call. simpl fst. simpl snd.
  rewrite firstn_firstn, Nat.min_id.
  replace (filter (fun e => declares (p_params p) (fst e)) (filter (fun e => declares (p_params p) (fst e)) kw))
    with (filter (fun e => declares (p_params p) (fst e)) kw); [reflexivity|].
  induction kw as [|e kw IH]; [reflexivity|]. simpl.
  destruct (declares (p_params p) (fst e)) eqn:E; simpl; [rewrite E; f_equal; exact IH|exact IH].
Qed.

(* a keyword the function does not declare is ignored; surplus positional arguments are ignored *)
Lemma prim_call_ignores_undeclared : forall p pos kw n v,
  declares (p_params p) n = false -> prim_call p (pos, (n, v) :: kw) = prim_call p (pos, kw).
Proof. intros p pos kw n v H. unfold prim_call. simpl. rewrite H. reflexivity. Qed.
Lemma prim_call_ignores_surplus : forall p pos extra kw,
  length (p_params p) <= length pos -> prim_call p (pos ++ extra, kw) = prim_call p (pos, kw).
Proof.
  intros p pos extra kw H. unfold prim_call. simpl fst.
  rewrite firstn_app. replace (length (p_params p) - length pos) with 0 by lia.
  rewrite firstn_O, app_nil_r. reflexivity.
Qed.

(* (f op g)(args, kw) = f(args, kw) op g(args, kw), every leaf primitive called with the same
   (filtered) arguments: the laws above instantiated with the environment of the call *)
Lemma keyword_call_binop : forall prims (c : callargs) fx g a b,
  nf a = true -> nf b = true -> is_fn a || is_fn b = true ->
  callv (env_of prims c) fx (apply_binop g a b)
  = ONum (snd g (fval (env_of prims c) a) (fval (env_of prims c) b))
  /\ (forall id, fval (env_of prims c) (OFn id)
                 = match nth_error prims id with Some p => prim_call p c | None => NErr end).
Proof.
  intros prims c fx g a b Ha Hb Hf. split; [|reflexivity].
  apply (lift_binop_hom_fn (env_of prims c) fx g a b Ha Hb Hf).
Qed.
Lemma keyword_call_unop : forall prims (c : callargs) fx g a,
  nf a = true -> is_fn a = true ->
  callv (env_of prims c) fx (apply_unop g a) = ONum (snd g (fval (env_of prims c) a)).
Proof. intros prims c fx g a Ha Hf. apply (lift_unop_hom_fn (env_of prims c) fx g a Ha Hf). Qed.
(* n-ary: the receiver AND every extra operand function are evaluated on the same argument record *)
Lemma keyword_call_narop : forall prims (c : callargs) g a args x ys,
  is_fn a = true -> call (env_of prims c) true a = ONum x ->
  Forall2 (fun o y => callv (env_of prims c) true o = ONum y /\ is_err o = false) args ys ->
  call (env_of prims c) true (apply_narop g a args) = ONum (snd g x ys).
Proof. intros prims c. apply (lift_narop_hom (env_of prims c)). Qed.

(* ====================================================================== *)
(* the homomorphism for ALL operand kinds, one evaluation step              *)

(* selector(x, y) as the dispatch of a sequence / an Operand applies it to its elements / value *)
Definition sel2_f (n : nat) (g : op2) : obj -> obj -> obj :=
  match fst g with SRaw => raw_apply2 g | SDec => apply_binop_f n (demote g) | SPy => apply_binop_f n g end.
Definition sel1_f (n : nat) (g : op1) : obj -> obj :=
  match fst g with SRaw => raw_apply1 g | SDec => apply_unop_f n (demote g) | SPy => apply_unop_f n g end.

(* Exhaustive over the kinds of BOTH operands (number, Function, Stream, Pattern, list/tuple,
   ChannelList, Operand/Rest; any composite of these): whichever operand composes, one evaluation step
   of `a op b` -- calling it, pulling it as a stream, streaming it as a pattern, its items, its value --
   is the selector applied to the same evaluation step of the operands (a non-lazy operand standing
   for itself / the constant stream), with a on the LEFT.  For every selector, every env. *)
Lemma lift_binop_hom_step : forall env fx (g : op2) a b, is_err a = false -> is_err b = false ->
  let n := S (odepth a + odepth b) in
  match class_of a with
  | CFn => call env fx (apply_binop g a b) = sel_apply2 g (callv env fx a) (callv env fx b)
  | CStr => xpull MPull (apply_binop g a b) = szip (sel_apply2 g) (xpull MPull a) (xpull MStream b)
  | CPat => xpull MStream (apply_binop g a b) = szip (sel_apply2 g) (xpull MStream a) (xpull MStream b)
  | CSeq KChan => apply_binop g a b = list_binop_f oview OSeq OErr n (sel2_f n g) a b KChan
  | COperand r => apply_binop g a b = mk_operand r (sel2_f n g (operand_value a) (operand_value b))
  | _ =>
    match class_of b with
    | CFn => call env fx (apply_binop g a b) = sel_apply2 g a (call env fx b)
    | CStr => xpull MPull (apply_binop g a b) = szip (sel_apply2 g) (SConst a) (xpull MPull b)
    | CPat => xpull MStream (apply_binop g a b) = szip (sel_apply2 g) (SConst a) (xpull MStream b)
    | CSeq KChan => apply_binop g a b = list_binop_f oview OSeq OErr n (sel2_f n g) a b KChan
    | COperand r => apply_binop g a b = mk_operand r (sel2_f n g a (operand_value b))
    | _ => match num_of a, num_of b with
           | Some x, Some y => apply_binop g a b = ONum (snd g x y)
           | _, _ => apply_binop g a b = OErr EType
           end
    end
  end.
Proof.
  intros env fx g a b Ha Hb n.
  destruct (class_of a) eqn:Ca.
  - (* CNum *) destruct a; try discriminate. clear Ca.
    destruct b; try discriminate; try reflexivity. destruct k; reflexivity.
  - (* CFn *) apply fn_binop_call; [destruct a; try discriminate; reflexivity|exact Hb].
  - (* CStr *) rewrite str_compose_binop by assumption.
    change (xpull MPull (OBinStr g a (to_stream b))) with (szip (sel_apply2 g) (xpull MPull a) (xpull MPull (to_stream b))).
    rewrite xpull_to_stream. reflexivity.
  - (* CPat *) assert (E : apply_binop g a b = OBinPat g a b) by (destruct a; try discriminate; destruct b; try discriminate; reflexivity).
    rewrite E. reflexivity.
  - (* CSeq *) destruct a; try discriminate. injection Ca as ->.
    destruct k.
    + destruct b; try discriminate; try reflexivity. destruct k; reflexivity.
    + destruct b; try discriminate; try reflexivity. destruct k; reflexivity.
    + destruct b; try discriminate; reflexivity.
  - (* COperand *) destruct a; try discriminate. injection Ca as ->. destruct b; try discriminate; reflexivity.
  - destruct a; discriminate.
Qed.

Lemma lift_unop_hom_step : forall env fx (g : op1) a, is_err a = false ->
  let n := S (odepth a) in
  match class_of a with
  | CFn => call env fx (apply_unop g a) = sel_apply1 g (call env fx a)
  | CStr => xpull MPull (apply_unop g a) = smap (sel_apply1 g) (xpull MPull a)
  | CPat => xpull MStream (apply_unop g a) = smap (sel_apply1 g) (xpull MStream a)
  | CSeq KChan => apply_unop g a = list_unop_f oview OSeq OErr n (sel1_f n g) a KChan
  | COperand r => apply_unop g a = mk_operand r (sel1_f n g (operand_value a))
  | CNum => match num_of a with Some x => apply_unop g a = ONum (snd g x) | None => True end
  | _ => apply_unop g a = OErr EType
  end.
Proof.
  intros env fx g a Ha n. destruct a; try discriminate; try reflexivity.
  destruct k; reflexivity.
Qed.

(* lazy objects (numbers, functions, streams, patterns and their composites: no sequence / Operand
   layer) are combined without recursion, whatever the fuel *)
Lemma depth0_fuel : forall m g x y, odepth x = 0 -> odepth y = 0 ->
  apply_binop_f (S m) g x y = apply_binop_f 1 g x y.
Proof. intros m g x y Hx Hy. destruct x; try discriminate; destruct y; try discriminate; reflexivity. Qed.

Lemma sel2_f_depth0 : forall n g x y, odepth x = 0 -> odepth y = 0 -> sel2_f (S n) g x y = sel_apply2 g x y.
Proof.
  intros n g x y Hx Hy. unfold sel2_f, sel_apply2, apply_binop. rewrite Hx, Hy. simpl Nat.add.
  destruct (fst g); [| |reflexivity]; rewrite (depth0_fuel n) by assumption; rewrite (depth0_fuel 1) by assumption; reflexivity.
Qed.

Lemma odepth_flat : forall k l, Forall (fun o => odepth o = 0) l -> odepth (OSeq k l) = 1.
Proof.
  intros k l H. simpl. f_equal. induction H as [|x l Hx _ IH]; [reflexivity|]. simpl. rewrite Hx, IH. reflexivity.
Qed.

(* ChannelList op list/tuple/ChannelList whose items are ANY lazy objects (numbers, Functions,
   Streams, Patterns, mixed): length = max, item i = a[i mod |a|] op b[i mod |b|] by the dispatching
   operator (so a Function item gives a composed Function, a Stream item a composed Stream, ...) *)
Lemma chan_binop_wrap_law_mixed : forall g k la lb0,
  la <> [] -> lb0 <> [] ->
  Forall (fun o => odepth o = 0) la -> Forall (fun o => odepth o = 0) lb0 ->
  exists r, apply_binop g (OSeq KChan la) (OSeq k lb0) = OSeq KChan r
    /\ length r = Nat.max (length la) (length lb0)
    /\ forall i, i < Nat.max (length la) (length lb0) ->
         nth i r (ONum NErr) = sel_apply2 g (nth (i mod length la) la (ONum NErr)) (nth (i mod length lb0) lb0 (ONum NErr)).
Proof.
  intros g k la lb0 Hla Hlb Da Db.
  pose proof (lift_binop_hom_step (fun _ => NErr) true g (OSeq KChan la) (OSeq k lb0) eq_refl eq_refl) as Hstep.
  cbv zeta in Hstep. cbn [class_of] in Hstep.
  rewrite (odepth_flat _ _ Da), (odepth_flat _ _ Db) in Hstep.
  rewrite Hstep. clear Hstep.
  set (a := OSeq KChan la). set (b := OSeq k lb0).
  assert (Hnd : forall l i, Forall (fun o => odepth o = 0) l -> odepth (nth i l (ONum NErr)) = 0).
  { intros l i Hl. revert i. induction Hl as [|x l Hx _ IH]; intros [|i]; simpl; auto. }
  assert (Hview : forall x, odepth x = 0 -> oview x = None) by (intros x Hx; destruct x; try reflexivity; discriminate).
  destruct (list_binop_wrap_law_gen obj oview OSeq OErr 1 (sel2_f 3 g) a b KChan KChan la k lb0 (ONum NErr))
    as [r [Hr [Hlen Hnth]]]; try reflexivity; try assumption.
  exists r. split; [exact Hr|]. split; [exact Hlen|].
  intros i Hi. specialize (Hnth i Hi). cbv zeta in Hnth. rewrite Hnth.
  rewrite list_binop_scalar_leaf by (apply Hview, Hnd; assumption).
  apply sel2_f_depth0; apply Hnd; assumption.
Qed.

(* ====================================================================== *)
(* function objects with unary, binary AND n-ary compositions, nested arbitrarily *)
Section FunctionLawsNary.
  Variable env : nat -> num.

  Fixpoint fval3 (o : obj) : num :=
    match o with
    | ONum n => n
    | OFn id => env id
    | OUnFn g a => snd g (fval3 a)
    | OBinFn g a b => snd g (fval3 a) (fval3 b)
    | ONarFn g a args => snd g (fval3 a) (map fval3 args)
    | _ => NErr
    end.
  Fixpoint nf3 (o : obj) : bool :=
    match o with
    | ONum _ | OFn _ => true
    | OUnFn _ a => nf3 a
    | OBinFn _ a b => nf3 a && nf3 b
    | ONarFn _ a args => is_fn a && nf3 a && forallb nf3 args
    | _ => false
    end.

  Lemma nf3_not_fn_is_num : forall o, nf3 o = true -> is_fn o = false -> exists n, o = ONum n.
  Proof. intros o Hn Hf. destruct o; try discriminate; eexists; reflexivity. Qed.

  (* with the repaired NaropFunction (every callable argument is evaluated) *)
  Fixpoint call_fval3 (o : obj) : nf3 o = true -> call env true o = ONum (fval3 o).
  Proof.
    intros Hn.
    destruct o as [n|id|g a|g a b|g a args|?|?|? ?|? ? ?|? ? ?|?|? ?|? ? ?|? ? ?|? ?|? ?|?|?|? ?|? ?|?]; try discriminate.
    - reflexivity.
    - reflexivity.
    - simpl in *. rewrite (call_fval3 a Hn). apply sel_apply1_num.
    - simpl in *. apply andb_true_iff in Hn as [Ha Hb].
      assert (Hca : (if is_fn a then call env true a else a) = ONum (fval3 a)).
      { destruct (is_fn a) eqn:E; [apply call_fval3; exact Ha|].
        destruct (nf3_not_fn_is_num a Ha E) as [n ->]. reflexivity. }
      assert (Hcb : (if is_fn b then call env true b else b) = ONum (fval3 b)).
      { destruct (is_fn b) eqn:E; [apply call_fval3; exact Hb|].
        destruct (nf3_not_fn_is_num b Hb E) as [n ->]. reflexivity. }
      rewrite Hca, Hcb. apply sel_apply2_nums.
    - simpl in Hn. apply andb_true_iff in Hn as [Hn Hargs]. apply andb_true_iff in Hn as [Hf Ha].
      change (call env true (ONarFn g a args))
        with (sel_apply3 g (call env true a) (map (fun x => if is_fn x then call env true x else x) args)).
      rewrite (call_fval3 a Ha).
      assert (Hm : map (fun x => if is_fn x then call env true x else x) args = map ONum (map fval3 args)).
      { clear Hf Ha. induction args as [|x args IH]; [reflexivity|].
        simpl in Hargs. apply andb_true_iff in Hargs as [Hx Hr]. simpl. rewrite (IH Hr). f_equal.
        destruct (is_fn x) eqn:E; [apply call_fval3; exact Hx|].
        destruct (nf3_not_fn_is_num x Hx E) as [n ->]. reflexivity. }
      rewrite Hm. apply sel_apply3_nums.
  Qed.

  Lemma nf3_not_err : forall o, nf3 o = true -> is_err o = false.
  Proof. intros o H; destruct o; try discriminate; reflexivity. Qed.
  Lemma callv_fval3 : forall o, nf3 o = true -> callv env true o = ONum (fval3 o).
  Proof.
    intros o Hn. unfold callv. destruct (is_fn o) eqn:E; [apply call_fval3; exact Hn|].
    destruct (nf3_not_fn_is_num o Hn E) as [n ->]. reflexivity.
  Qed.
  Lemma first_err_nf3 : forall args, forallb nf3 args = true -> first_err args = None.
  Proof.
    induction args as [|x args IH]; intros H; [reflexivity|]. simpl in H. apply andb_true_iff in H as [Hx Hr].
    destruct x; try discriminate; simpl; apply IH; exact Hr.
  Qed.

  (* the three homomorphisms, closed under iteration: the result is again such an object *)
  Lemma lift_hom_fn_nary : forall (g1 : op1) (g2 : op2) (g3 : op3) a b args,
    nf3 a = true -> nf3 b = true -> forallb nf3 args = true ->
    (is_fn a = true ->
       callv env true (apply_unop g1 a) = ONum (snd g1 (fval3 a)) /\ nf3 (apply_unop g1 a) = true)
    /\ (is_fn a || is_fn b = true ->
       callv env true (apply_binop g2 a b) = ONum (snd g2 (fval3 a) (fval3 b)) /\ nf3 (apply_binop g2 a b) = true)
    /\ (is_fn a = true ->
       callv env true (apply_narop g3 a args) = ONum (snd g3 (fval3 a) (map fval3 args))
       /\ nf3 (apply_narop g3 a args) = true).
  Proof.
    intros g1 g2 g3 a b args Ha Hb Hargs. split; [|split].
    - intros Hf. rewrite fn_compose_unop by exact Hf. split; [|exact Ha].
      rewrite callv_fval3 by exact Ha. reflexivity.
    - intros Hf.
      assert (Hc : apply_binop g2 a b = OBinFn g2 a b).
      { destruct (is_fn a) eqn:Ea.
        - apply fn_compose_binop; [exact Ea|apply nf3_not_err; exact Hb].
        - destruct (nf3_not_fn_is_num a Ha Ea) as [n ->]. apply fn_rcompose_binop. exact Hf. }
      rewrite Hc. split; [|simpl; rewrite Ha, Hb; reflexivity].
      rewrite callv_fval3 by (simpl; rewrite Ha, Hb; reflexivity). reflexivity.
    - intros Hf. rewrite fn_compose_narop by (try exact Hf; apply first_err_nf3; exact Hargs).
      assert (Hn : nf3 (ONarFn g3 a args) = true) by (simpl; rewrite Hf, Ha, Hargs; reflexivity).
      split; [|exact Hn]. rewrite callv_fval3 by exact Hn. reflexivity.
  Qed.
End FunctionLawsNary.

(* ====================================================================== *)
(* ChannelList METHOD form of the n-ary operators: flop over the channels and every argument *)

Lemma flop_rows_length : forall {A} (e d : A) cols,
  length (flop_rows e d cols) = fold_right (fun c m => Nat.max (length c) m) 0 cols.
Proof. intros. unfold flop_rows. rewrite map_length, seq_length. reflexivity. Qed.

Lemma flop_rows_nth : forall {A} (e d : A) cols i,
  i < fold_right (fun c m => Nat.max (length c) m) 0 cols ->
  nth i (flop_rows e d cols) [] = map (fun c => match c with [] => e | _ => nth (i mod length c) c d end) cols.
Proof.
  intros A e d cols i Hi. unfold flop_rows.
  set (f := fun i0 : nat => map (fun c : list A => match c with [] => e | _ :: _ => nth (i0 mod length c) c d end) cols).
  rewrite (nth_indep _ [] (f 0)) by (rewrite map_length, seq_length; exact Hi).
  rewrite map_nth. rewrite seq_nth by exact Hi. reflexivity.
Qed.

Lemma apply_narop_nums : forall g x ys, apply_narop g (ONum x) (map ONum ys) = ONum (snd g x ys).
Proof. intros g x ys. unfold apply_narop. simpl. rewrite first_err_map, onums_of_map. reflexivity. Qed.

Lemma col_nth_nums : forall (c : list num) i, c <> [] ->
  match map ONum c with [] => OSeq KList [] | _ :: _ => nth (i mod length (map ONum c)) (map ONum c) (OErr EIndex) end
  = ONum (nth (i mod length c) c NErr).
Proof.
  intros c i Hc. destruct c as [|y c']; [congruence|]. cbn [map].
  change (ONum y :: map ONum c') with (map ONum (y :: c')).
  rewrite map_length. rewrite (nth_indep _ (OErr EIndex) (ONum NErr)).
  - apply (map_nth ONum).
  - rewrite map_length. apply Nat.mod_upper_bound. discriminate.
Qed.

(* a.clip(lo, hi) / fold / wrap / blend on a ChannelList of numbers with arguments that are numbers or
   lists of numbers: as many channels as the LONGEST of channels and arguments, channel i =
   op a[i mod |a|] arg_1[i mod |arg_1|] ... *)
Lemma chan_method_narop_wrap_law : forall (g : op3) xs args (cols : list (list num)),
  xs <> [] -> Forall (fun c => c <> []) cols ->
  first_err args = None -> map as_col args = map (map ONum) cols ->
  let len := fold_right (fun c m => Nat.max (length c) m) 0 (xs :: cols) in
  exists r, chan_method_narop g (OSeq KChan (map ONum xs)) args = OSeq KChan r
    /\ length r = len
    /\ forall i, i < len ->
         nth i r (ONum NErr)
         = ONum (snd g (nth (i mod length xs) xs NErr) (map (fun c => nth (i mod length c) c NErr) cols)).
Proof.
  intros g xs args cols Hxs Hcols He Hargs len.
  unfold chan_method_narop. rewrite He, Hargs.
  set (allc := map ONum xs :: map (map ONum) cols).
  assert (Hlen : fold_right (fun c m => Nat.max (length c) m) 0 allc = len).
  { unfold allc, len. simpl. rewrite map_length. f_equal.
    clear. induction cols as [|c cols IH]; [reflexivity|]. simpl. rewrite map_length, IH. reflexivity. }
  eexists. split; [reflexivity|]. split; [rewrite map_length, flop_rows_length; exact Hlen|].
  intros i Hi.
  set (F := fun row : list obj => match row with ONum x :: rest => apply_narop g (ONum x) rest | _ => OErr EType end).
  rewrite (nth_indep _ (ONum NErr) (F [])) by (rewrite map_length, flop_rows_length, Hlen; exact Hi).
  rewrite map_nth. rewrite flop_rows_nth by (rewrite Hlen; exact Hi).
  unfold allc. simpl map.
  rewrite (col_nth_nums xs i Hxs). unfold F.
  assert (Hc : map (fun c : list obj => match c with [] => OSeq KList [] | _ :: _ => nth (i mod length c) c (OErr EIndex) end)
                   (map (map ONum) cols)
               = map ONum (map (fun c => nth (i mod length c) c NErr) cols)).
  { clear - Hcols. induction Hcols as [|c cols Hc _ IH]; [reflexivity|]. simpl map. rewrite IH. f_equal.
    apply col_nth_nums. exact Hc. }
  rewrite Hc. apply apply_narop_nums.
Qed.

(* ====================================================================== *)
(* next(inval): the k-th value uses the k-th input, in every operand, direct or embedded *)

Lemma zip_map_same : forall {A B C} (f : A -> B) (h : A -> C) l, zip (map f l) (map h l) = map (fun k => (f k, h k)) l.
Proof. intros A B C f h l; induction l as [|x l IH]; simpl; [reflexivity|]. rewrite IH; reflexivity. Qed.

Section InvalLaws.
  Variable ienv : nat -> nat -> num.
  Variable hor : nat.
  Notation ip := (ipull ienv hor).

  (* next(op p, inval) = op (next(p, inval)) and next(p op q, inval) = next(p, inval) op next(q, inval),
     for operands whose value depends on the input (Pfunc), starting at any offset *)
  Lemma inval_unop : forall g id m off, m <> MPull ->
    ip m off (OUnPat g (OPfunc id)) = SFin (map (fun k => ONum (snd g (ienv id (off + k)))) (seq 0 (hor - off))).
  Proof.
    intros g id [| |] off Hm; try congruence; simpl; rewrite map_map; f_equal; apply map_ext; intros k; apply sel_apply1_num.
  Qed.
  Lemma inval_binop : forall g i j m off, m <> MPull ->
    ip m off (OBinPat g (OPfunc i) (OPfunc j))
    = SFin (map (fun k => ONum (snd g (ienv i (off + k)) (ienv j (off + k)))) (seq 0 (hor - off))).
  Proof.
    intros g i j [| |] off Hm; try congruence; simpl; rewrite zip_map_same, map_map; f_equal; apply map_ext; intros k; apply sel_apply2_nums.
  Qed.

  (* embedded: an enclosing Pseq threads the inputs through; after `pad` values the operator pattern
     starts with input number |pad| *)
  Lemma inval_unop_embedded : forall g id pad m off, m <> MPull ->
    ip m off (OPseq [OPat pad; OUnPat g (OPfunc id)] 1)
    = SFin (map ONum pad ++ map (fun k => ONum (snd g (ienv id (off + length pad + k)))) (seq 0 (hor - (off + length pad)))).
  Proof.
    intros g id pad [| |] off Hm; try congruence; simpl; unfold sapp_at; simpl;
      rewrite !map_length, !app_nil_r, map_map; do 2 f_equal; apply map_ext; intros k; apply sel_apply1_num.
  Qed.
  Lemma inval_narop_embedded : forall g i j lo m off, m <> MPull ->
    ip m off (OPn (ONarPat g (OPfunc i) [OPfunc j; ONum lo]) 1)
    = SFin (map (fun k => ONum (snd g (ienv i (off + k)) [ienv j (off + k); lo])) (seq 0 (hor - off))).
  Proof.
    intros g i j lo [| |] off Hm; try congruence; simpl; unfold sapp_at; simpl;
      rewrite app_nil_r, map_map, zip_map_same, map_map; f_equal; apply map_ext; intros k;
      exact (sel_apply3_nums g (ienv i (off + k)) [ienv j (off + k); lo]).
  Qed.
End InvalLaws.
