(* C13 -- documented meaning of the remaining classes (second batch): Pcollect/Pselect/Preject,
   Punop/Pnarop, Pwrap, Pif, Pdiff, Pseries/Pgeom, Pflatten, Place, Ptuple, seeded Prand/Pxrand/Pwhite. *)
From Coq Require Import ZArith QArith Qround List Bool Lia PeanoNat.
Require Import SC3.lib.PyNum SC3.gen.Gen_builtins SC3.model.Pattern SC3.proofs.C13_sound SC3.proofs.C13_meaning.
Require Import SC3.proofs.C13_kernmix.
Import ListNotations.

(* ---------------------------------------------- Pcollect / Pselect / Preject *)
Lemma tfun_collect f : forall l e, (forall v, In v l -> fn_apply f v <> None) ->
  exists l', tfun KCollect f l e = (l', e) /\ map Some l' = map (fn_apply f) l.
Proof.
  induction l as [|v l IH]; intros e H. exists []. split; reflexivity.
  cbn. destruct (fn_apply f v) as [r|] eqn:E; [|exfalso; apply (H v); [left; reflexivity|exact E]].
  destruct (IH e) as (l' & E1 & E2). intros x Hx. apply H. right. exact Hx.
  exists (r :: l'). rewrite E1. split. reflexivity. cbn. rewrite E2. reflexivity.
Qed.
Definition is_true (o : option val) : bool := match o with Some (VB true) => true | _ => false end.
Definition is_false (o : option val) : bool := match o with Some (VB false) => true | _ => false end.
Lemma tfun_select f : forall l e, (forall v, In v l -> fn_apply f v <> None) ->
  tfun KSelect f l e = (filter (fun v => is_true (fn_apply f v)) l, e).
Proof.
  induction l as [|v l IH]; intros e H. reflexivity.
  cbn. destruct (fn_apply f v) as [r|] eqn:E; [|exfalso; apply (H v); [left; reflexivity|exact E]].
  rewrite IH by (intros x Hx; apply H; right; exact Hx).
  destruct r as [?|[|]|?|?|]; reflexivity.
Qed.
Lemma tfun_reject f : forall l e, (forall v, In v l -> fn_apply f v <> None) ->
  tfun KReject f l e = (filter (fun v => is_false (fn_apply f v)) l, e).
Proof.
  induction l as [|v l IH]; intros e H. reflexivity.
  cbn. destruct (fn_apply f v) as [r|] eqn:E; [|exfalso; apply (H v); [left; reflexivity|exact E]].
  rewrite IH by (intros x Hx; apply H; right; exact Hx).
  destruct r as [?|[|]|?|?|]; reflexivity.
Qed.

(* ------------------------------------------------------- n-ary operators *)
Definition end3 (la lb lc : list val) (ea eb ec : tend) : tend :=
  if (length la <=? Nat.min (length lb) (length lc))%nat then ea
  else if (length lb <=? length lc)%nat then eb else ec.
Lemma tnar_shortest o : forall la ea lb eb lc ec,
  (forall va vb vc, In va la -> In vb lb -> In vc lc -> narop o va vb vc <> None) ->
  exists l', tnar o la ea lb eb lc ec = (l', end3 la lb lc ea eb ec) /\
             length l' = Nat.min (length la) (Nat.min (length lb) (length lc)) /\
             map Some l' = map (fun abc => narop o (fst abc) (fst (snd abc)) (snd (snd abc))) (combine la (combine lb lc)).
Proof.
  induction la as [|va la IH]; intros ea lb eb lc ec H.
  - exists []. repeat split; reflexivity.
  - destruct lb as [|vb lb].
    + exists []. repeat split; reflexivity.
    + destruct lc as [|vc lc].
      * exists []. repeat split; reflexivity.
      * cbn [tnar]. destruct (narop o va vb vc) as [r|] eqn:E;
          [|exfalso; apply (H va vb vc); [left; reflexivity|left; reflexivity|left; reflexivity|exact E]].
        destruct (IH ea lb eb lc ec) as (l' & E1 & E2 & E3).
        { intros x y z Hx Hy Hz. apply H; right; assumption. }
        exists (r :: l'). rewrite E1. repeat split.
        -- cbn. rewrite E2. reflexivity.
        -- cbn [combine map fst snd]. rewrite E3, E. reflexivity.
Qed.
(* Pwrap with constant bounds *)
Lemma twrap_const lo hi : forall l e M, (length l < M)%nat ->
  (forall v, In v l -> narop NWrap v lo hi <> None) ->
  exists l', twrap l e (repeat lo M) EMore (repeat hi M) EMore = (l', e) /\
             map Some l' = map (fun v => narop NWrap v lo hi) l.
Proof.
  induction l as [|v l IH]; intros e M HM H.
  - destruct M; [lia|]. exists []. split; reflexivity.
  - destruct M as [|M]; [lia|]. cbn [repeat twrap].
    destruct (narop NWrap v lo hi) as [r|] eqn:E; [|exfalso; apply (H v); [left; reflexivity|exact E]].
    destruct (IH e M) as (l' & E1 & E2). cbn in HM. lia. intros x Hx. apply H. right. exact Hx.
    exists (r :: l'). unfold twrap in E1. rewrite E1. split. reflexivity. cbn. rewrite E2, E. reflexivity.
Qed.

(* ----------------------------------------------------------------- Pif *)
Lemma tif_const x y : forall lc ec Mt Me, (length lc <= Mt)%nat -> (length lc <= Me)%nat ->
  tif lc ec (repeat x Mt) EMore (repeat y Me) EMore = (map (fun c => if truthy c then x else y) lc, ec).
Proof.
  induction lc as [|c lc IH]; intros ec Mt Me Ht He. reflexivity.
  cbn [tif map]. cbn in Ht, He. destruct (truthy c).
  - destruct Mt as [|Mt]; [lia|]. cbn [repeat]. rewrite (IH ec Mt (Me)) by lia. reflexivity.
  - destruct Me as [|Me]; [lia|]. cbn [repeat]. rewrite (IH ec Mt Me) by lia. reflexivity.
Qed.

(* --------------------------------------------------------------- Pdiff *)
Lemma tdiff'_spec : forall l prev e,
  (forall a b, In a (prev :: l) -> In b (prev :: l) -> binop BSub a b <> None) ->
  exists l', tdiff' prev l e = (l', e) /\ length l' = length l /\
             map Some l' = map (fun ab => binop BSub (snd ab) (fst ab)) (combine (prev :: l) l).
Proof.
  induction l as [|x l IH]; intros prev e H.
  - exists []. repeat split; reflexivity.
  - cbn [tdiff']. destruct (binop BSub x prev) as [d|] eqn:E;
      [|exfalso; apply (H x prev); [right; left; reflexivity|left; reflexivity|exact E]].
    destruct (IH x e) as (l' & E1 & E2 & E3).
    { intros a b Ha Hb. apply H; right; assumption. }
    exists (d :: l'). rewrite E1. repeat split. cbn. rewrite E2. reflexivity.
    cbn [combine map fst snd]. rewrite E3, E. reflexivity.
Qed.

(* ------------------------------------------------------ Pseries / Pgeom *)
Lemma map_seq_shift {A} (f : nat -> A) n : map f (seq 1 n) = map (fun i => f (S i)) (seq 0 n).
Proof. rewrite <- seq_shift, map_map. reflexivity. Qed.
Lemma tseries_arith : forall n a c m, (n <= m)%nat ->
  tseries false (I a) (Some n) (repeat (VN (I c)) m) EMore =
  (map (fun i => VN (I (a + Z.of_nat i * c))) (seq 0 n), EStop).
Proof.
  induction n as [|n IH]; intros a c m H.
  - destruct m; reflexivity.
  - destruct m as [|m]; [lia|]. cbn [repeat tseries cnt_zero as_num nadd lift2 cnt_dec pred].
    rewrite IH by lia. cbn [seq map]. rewrite map_seq_shift. unfold tcons. cbn [fst snd].
    f_equal. f_equal. f_equal. f_equal. lia.
    apply map_ext. intros i. f_equal. f_equal. lia.
Qed.
Lemma tseries_geom : forall n a c m, (n <= m)%nat ->
  tseries true (I a) (Some n) (repeat (VN (I c)) m) EMore =
  (map (fun i => VN (I (a * c ^ Z.of_nat i))) (seq 0 n), EStop).
Proof.
  induction n as [|n IH]; intros a c m H.
  - destruct m; reflexivity.
  - destruct m as [|m]; [lia|]. cbn [repeat tseries cnt_zero as_num nmul lift2 cnt_dec pred].
    rewrite IH by lia. cbn [seq map]. rewrite map_seq_shift. unfold tcons. cbn [fst snd].
    f_equal. f_equal. f_equal. f_equal. cbn. lia.
    apply map_ext. intros i. f_equal. f_equal. rewrite Nat2Z.inj_succ, Z.pow_succ_r by lia. ring.
Qed.

(* ------------------------------------------------------------- Pflatten *)
Lemma tflat_const nv n : as_num nv = Some n -> forall l e M, (length l < M)%nat ->
  tflat (repeat nv M) EMore l e =
  (flat_map (fun v => match v with VL _ => flat (Z.to_nat (Qceiling (toQ n))) [v] | _ => [v] end) l, e).
Proof.
  intros Hn. induction l as [|v l IH]; intros e M HM.
  - destruct M; [lia|]. reflexivity.
  - destruct M as [|M]; [lia|]. cbn [repeat tflat flat_map]. cbn in HM.
    rewrite (IH e M) by lia. unfold flat_levels. rewrite Hn.
    destruct v; reflexivity.
Qed.

(* ------------------ wrap / fold with any int-float mix of element and bounds *)
Lemma narop_wrap_mixed a b c : is_ok a = true -> is_ok b = true -> is_ok c = true ->
  andb (is_int a) (andb (is_int b) (is_int c)) = false -> (toQ b < toQ c)%Q ->
  exists r, narop NWrap (VN a) (VN b) (VN c) = Some (VN r) /\ (toQ b <= toQ r)%Q /\ (toQ r < toQ c)%Q.
Proof.
  intros Ha Hb Hc Hm H. destruct (wrap_mixed_range a b c Ha Hb Hc Hm H) as [[R1 R2] Ro].
  exists (py_wrap a b c). cbn [narop]. split; [|split; assumption].
  unfold ret_num. destruct (py_wrap a b c); try reflexivity. discriminate Ro.
Qed.
Lemma narop_fold_mixed a b c : is_ok a = true -> is_ok b = true -> is_ok c = true ->
  andb (is_int a) (andb (is_int b) (is_int c)) = false -> (toQ b < toQ c)%Q ->
  exists r, narop NFold (VN a) (VN b) (VN c) = Some (VN r) /\ (toQ b <= toQ r)%Q /\ (toQ r <= toQ c)%Q.
Proof.
  intros Ha Hb Hc Hm H. destruct (fold_mixed_range a b c Ha Hb Hc Hm H) as [[R1 R2] Ro].
  exists (py_fold a b c). cbn [narop]. split; [|split; assumption].
  unfold ret_num. destruct (py_fold a b c); try reflexivity. discriminate Ro.
Qed.
Lemma twrap_const_bounds b c : is_ok b = true -> is_ok c = true -> andb (is_int b) (is_int c) = false ->
  (toQ b < toQ c)%Q -> forall l e M, (length l < M)%nat ->
  Forall (fun v => exists a, v = VN a /\ is_ok a = true) l ->
  exists l', twrap l e (repeat (VN b) M) EMore (repeat (VN c) M) EMore = (l', e) /\ length l' = length l /\
             Forall (fun v => exists r, v = VN r /\ (toQ b <= toQ r)%Q /\ (toQ r < toQ c)%Q) l'.
Proof.
  intros Hb Hc Hm H. induction l as [|v l IH]; intros e M HM Hl.
  - destruct M; [lia|]. exists []. repeat split; constructor.
  - destruct M as [|M]; [lia|]. inversion Hl as [|? ? (a & Ea & Ha) Hl']; subst.
    assert (Hmix : andb (is_int a) (andb (is_int b) (is_int c)) = false) by (rewrite Hm; apply andb_false_r).
    destruct (narop_wrap_mixed a b c Ha Hb Hc Hmix H) as (r & Er & R1 & R2).
    destruct (IH e M) as (l' & E1 & E2 & E3). cbn in HM. lia. exact Hl'.
    exists (VN r :: l'). cbn [repeat twrap]. rewrite Er. unfold twrap in E1. rewrite E1. repeat split.
    cbn. rewrite E2. reflexivity. constructor; [|exact E3]. exists r. repeat split; assumption.
Qed.

(* ---------------------------------------------------------------- Place *)
Section WithOracle.
Variable rnd : Z -> hist -> Z -> Z -> Z.
Local Notation den := (den rnd).

Lemma place_meaning_den : forall k m lst (r : nat) off qs,
  lst <> [] -> length qs = (r * length lst)%nat ->
  (forall i, (i < r * length lst)%nat ->
     exists sub, wrap_at lst (Z.of_nat (i mod length lst) + off) = Some sub /\
                 nth_error qs i = wrap_at sub (Z.of_nat (i / length lst)) /\ sub <> []) ->
  (forall q, In q qs -> snd (den k Emb q) = EStop) -> (r * length lst < k)%nat ->
  den (S k) m (Place lst (Fin (Z.of_nat r)) off) = (flat_map (fun q => fst (den k Emb q)) qs, EStop).
Proof.
  intros k m lst r off qs Hne Hlen Hq Hs Hk. cbn [Pattern.den].
  assert (Hn : length lst <> 0%nat) by (destruct lst; cbn; congruence).
  apply temb_items; try (rewrite Hlen; assumption); try assumption.
  - intros i q Hi. assert (Hlt : (i < r * length lst)%nat).
    { rewrite <- Hlen. apply nth_error_Some. congruence. }
    destruct (Hq i Hlt) as (sub & E1 & E2 & E3).
    cbn [item_at Nat.add]. destruct (length lst) as [|n'] eqn:En; [congruence|].
    assert (Hd : (i / S n' < r)%nat) by (apply Nat.div_lt_upper_bound; lia).
    unfold in_reps. replace (Z.of_nat (i / S n') <? Z.of_nat r)%Z with true by (symmetry; apply Z.ltb_lt; lia).
    rewrite E1. rewrite <- E2, Hi. reflexivity.
  - rewrite Hlen. cbn [item_at Nat.add]. destruct (length lst) as [|n'] eqn:En; [congruence|].
    rewrite Nat.div_mul by lia. unfold in_reps.
    replace (Z.of_nat r <? Z.of_nat r)%Z with false by (symmetry; apply Z.ltb_ge; lia). reflexivity.
Qed.

(* ---------------------------------------------------------------- Ptuple *)
Fixpoint hds (ls : list (list val)) : option (list val * list (list val)) :=
  match ls with
  | [] => Some ([], [])
  | l :: r => match l with
              | [] => None
              | v :: l' => match hds r with Some (vs, r') => Some (v :: vs, l' :: r') | None => None end
              end
  end.
(* rows of an n-ary zip ending with the shortest list *)
Fixpoint zipn (fuel : nat) (ls : list (list val)) : list (list val) :=
  match fuel with
  | O => []
  | S f => match hds ls with Some (vs, tls) => vs :: zipn f tls | None => [] end
  end.
Lemma heads_hds : forall ts, Forall (fun t => snd t = EStop) ts ->
  match hds (map fst ts) with
  | Some (vs, tls) => exists ts', heads ts = inl (vs, ts') /\ map fst ts' = tls /\ Forall (fun t => snd t = EStop) ts'
  | None => heads ts = inr EStop
  end.
Proof.
  induction ts as [|[l e] ts IH]; intros H; cbn [map fst hds heads].
  - exists []. repeat split; constructor.
  - inversion H as [|? ? H1 H2]; subst. cbn in H1. subst e.
    destruct l as [|v l]. reflexivity.
    specialize (IH H2). destruct (hds (map fst ts)) as [[vs tls]|].
    + destruct IH as (ts' & E1 & E2 & E3). rewrite E1. exists ((l, EStop) :: ts'). repeat split.
      cbn. rewrite E2. reflexivity. constructor; [reflexivity|exact E3].
    + rewrite IH. reflexivity.
Qed.
Lemma hds_shorter : forall ls vs tls N, hds ls = Some (vs, tls) ->
  Exists (fun l => (length l < S N)%nat) ls -> Exists (fun l => (length l < N)%nat) tls.
Proof.
  induction ls as [|l ls IH]; intros vs tls N E Hx; cbn in E.
  - inversion Hx.
  - destruct l as [|v l]; [discriminate|]. destruct (hds ls) as [[vs' r']|] eqn:E'; [|discriminate].
    inversion E; subst. inversion Hx as [? ? H1|? ? H1]; subst.
    + left. cbn in H1. lia.
    + right. eapply IH; eauto.
Qed.
Lemma trows_zipn : forall fuel ts, Forall (fun t => snd t = EStop) ts ->
  Exists (fun l => (length l < fuel)%nat) (map fst ts) ->
  trows fuel ts = (map VT (zipn fuel (map fst ts)), EStop).
Proof.
  induction fuel as [|f IH]; intros ts H Hx.
  - exfalso. induction Hx as [? ? Hl|? ? ? IHx]. lia. exact IHx.
  - cbn [trows zipn]. unfold trows_from. pose proof (heads_hds ts H) as HH.
    destruct (hds (map fst ts)) as [[vs tls]|] eqn:E.
    + destruct HH as (ts' & E1 & E2 & E3). rewrite E1. cbn [app]. rewrite IH.
      * rewrite E2. reflexivity.
      * exact E3.
      * rewrite E2. eapply hds_shorter; eauto.
    + rewrite HH. reflexivity.
Qed.
Lemma trep_rows rows (r : nat) : forall count j, (j <= r)%nat -> (r - j < count)%nat ->
  trep count (Fin (Z.of_nat r)) j (rows, EStop) = (concat (repeat rows (r - j)), EStop).
Proof.
  induction count as [|c IH]; intros j Hj Hc; [lia|]. cbn [trep in_reps].
  destruct (Z.of_nat j <? Z.of_nat r)%Z eqn:E.
  - apply Z.ltb_lt in E. rewrite IH by lia.
    replace (r - j)%nat with (S (r - S j))%nat by lia. reflexivity.
  - apply Z.ltb_ge in E. replace (r - j)%nat with 0%nat by lia. reflexivity.
Qed.
Lemma ptuple_rows_l k m lp (r : nat) : lp <> [] ->
  (forall q, In q lp -> snd (den k Str q) = EStop) ->
  (exists q, In q lp /\ (length (fst (den k Str q)) < k)%nat) -> (r < k)%nat ->
  den (S k) m (Ptuple lp (Fin (Z.of_nat r))) =
  (concat (repeat (map VT (zipn k (map (fun q => fst (den k Str q)) lp))) r), EStop).
Proof.
  intros Hne Hs (q & Hq & Hl) Hr. cbn [Pattern.den]. destruct lp as [|q0 lp']; [congruence|].
  rewrite trows_zipn.
  - rewrite map_map. rewrite trep_rows by lia. rewrite Nat.sub_0_r. reflexivity.
  - apply Forall_forall. intros t Ht. apply in_map_iff in Ht. destruct Ht as (x & E & Hx). subst. apply Hs. exact Hx.
  - rewrite map_map. apply Exists_exists. exists (fst (den k Str q)). split; [|exact Hl].
    apply in_map_iff. exists q. split. reflexivity. exact Hq.
Qed.

(* ------------------------------------------------- seeded random patterns *)
(* Prand / Pwrand with r draws on one generator: r items, each chosen by the next draw (the
   history grows by one call (a, b) per item), each embedded in place *)
Fixpoint rand_out (d : pat -> trace) (a b : Z) (l : list pat) (z : Z) (r : nat) (h : hist) : list val :=
  match r with
  | O => []
  | S r' => match rand_item rnd a b l z h with
            | Some q => fst (d q) ++ rand_out d a b l z r' ((a, b) :: h)
            | None => [] end
  end.
Fixpoint rand_ok (a b : Z) (l : list pat) (z : Z) (r : nat) (h : hist) : Prop :=
  match r with
  | O => True
  | S r' => rand_item rnd a b l z h <> None /\ rand_ok a b l z r' ((a, b) :: h)
  end.
Lemma trand_draws (d : pat -> trace) a b l z K : (forall q, In q l -> snd (d q) = EStop) ->
  forall r count h, (r < count)%nat -> rand_ok a b l z r h ->
  trand rnd d a b l z (Some r) h count K = tpre (rand_out d a b l z r h) K.
Proof.
  intros Hc. induction r as [|r IH]; intros count h Hcnt Hok.
  - destruct count; [lia|]. cbn. destruct K; reflexivity.
  - destruct count as [|c]; [lia|]. cbn [trand cnt_zero cnt_dec pred rand_out]. destruct Hok as [H0 Hok].
    destruct (rand_item rnd a b l z h) as [q|] eqn:E; [|congruence].
    rewrite IH by (try lia; exact Hok).
    assert (Hq : In q l).
    { unfold rand_item in E. destruct (_ && _)%bool; [|discriminate]. eapply nth_error_In; eauto. }
    pose proof (Hc q Hq) as Hs. destruct (d q) as [lq eq]. cbn in Hs. subst eq.
    unfold tapp, tpre. cbn [fst snd]. rewrite app_assoc. reflexivity.
Qed.
(* Pxrand never yields the same item twice in a row (generator contract: 0 <= draw < size - 1) *)
Lemma mod_step_neq size index dd : (2 <= size)%Z -> (0 <= index < size)%Z -> (0 <= dd < size - 1)%Z ->
  ((index + dd + 1) mod size <> index)%Z.
Proof.
  intros Hs Hi Hd Heq.
  assert (Hx : ((index + dd + 1) mod size = index mod size)%Z) by (rewrite Heq; symmetry; apply Z.mod_small; lia).
  assert (Hy : ((dd + 1) mod size = 0)%Z).
  { replace (dd + 1)%Z with ((index + dd + 1) - index)%Z by lia.
    rewrite Zminus_mod, Hx, Z.sub_diag. reflexivity. }
  rewrite Z.mod_small in Hy by lia. lia.
Qed.
Lemma xrand_never_repeats l z h index q index' h' :
  (2 <= length l)%nat -> (0 <= index < Z.of_nat (length l))%Z ->
  (0 <= rnd z h 0 (Z.of_nat (length l) - 1) < Z.of_nat (length l) - 1)%Z ->
  xrand_step rnd l z h index = Some (q, index', h') ->
  index' <> index /\ (0 <= index' < Z.of_nat (length l))%Z /\ nth_error l (Z.to_nat index') = Some q.
Proof.
  intros Hsz Hi Hd E. unfold xrand_step in E. destruct l as [|q0 l']; [discriminate|].
  remember (Z.of_nat (length (q0 :: l'))) as size eqn:Hsize.
  assert (Hs : (2 <= size)%Z) by (subst size; lia). clear Hsize Hsz.
  destruct (size =? 1)%Z eqn:E1; [apply Z.eqb_eq in E1; lia|].
  remember (rnd z h 0 (size - 1)%Z) as dd eqn:Hdd. clear Hdd.
  destruct (nth_error (q0 :: l') (Z.to_nat ((index + dd + 1) mod size))) as [q1|] eqn:En; [|discriminate].
  inversion E; subst. clear E.
  assert (Hm : (0 <= (index + dd + 1) mod size < size)%Z) by (apply Z.mod_pos_bound; lia).
  repeat split; try lia; try exact En. apply mod_step_neq; assumption.
Qed.
(* Pwhite stays within its bounds (generator contract: randrange(a, b) is on the a side of b) *)
Lemma white_in_bounds lo hi z h v h' a b : lo = VN (I a) -> hi = VN (I b) ->
  ((a < b -> a <= rnd z h a b < b) /\ (b < a -> b < rnd z h a b <= a))%Z ->
  white_draw rnd lo hi z h = Some (v, h') ->
  exists x, v = VN (I x) /\ (Z.min a b <= x <= Z.max a b)%Z.
Proof.
  intros -> -> [H1 H2] E. cbn in E. destruct (a =? b)%Z eqn:Eab.
  - apply Z.eqb_eq in Eab. inversion E; subst. exists b. split. reflexivity. lia.
  - apply Z.eqb_neq in Eab. inversion E; subst. exists (rnd z h a b). split. reflexivity.
    destruct (Z.lt_ge_cases a b). specialize (H1 H). lia. assert (b < a)%Z by lia. specialize (H2 H0). lia.
Qed.

(* -------------------------------------------------- Pswitch1: one value per index *)
Lemma tsw1_step (ts : list trace) iv lw ew z (pre : list trace) v l' e (post : list trace) : as_index iv = Some z -> ts <> [] ->
  split_at (Z.to_nat (z mod Z.of_nat (length ts))) ts = Some (pre, (v :: l', e), post) ->
  tsw1 ts (iv :: lw) ew = tcons v (tsw1 (pre ++ (l', e) :: post) lw ew).
Proof. intros H1 Hne H2. cbn [tsw1]. rewrite H1, H2. destruct ts; [congruence|reflexivity]. Qed.

(* ------------------------------------------------ the same facts on patterns *)
Lemma pcollect_l k m f q l e : den k Str q = (l, e) -> (forall v, In v l -> fn_apply f v <> None) ->
  exists l', den (S k) m (Pfun KCollect f q) = (l', e) /\ map Some l' = map (fn_apply f) l.
Proof. intros H Hd. cbn [Pattern.den]. rewrite H. apply tfun_collect. exact Hd. Qed.
Lemma pselect_l k m f q l e : den k Str q = (l, e) -> (forall v, In v l -> fn_apply f v <> None) ->
  den (S k) m (Pfun KSelect f q) = (filter (fun v => is_true (fn_apply f v)) l, e).
Proof. intros H Hd. cbn [Pattern.den]. rewrite H. apply tfun_select. exact Hd. Qed.
Lemma preject_l k m f q l e : den k Str q = (l, e) -> (forall v, In v l -> fn_apply f v <> None) ->
  den (S k) m (Pfun KReject f q) = (filter (fun v => is_false (fn_apply f v)) l, e).
Proof. intros H Hd. cbn [Pattern.den]. rewrite H. apply tfun_reject. exact Hd. Qed.
Lemma punop_l k m o q l e : den k Str q = (l, e) -> (forall v, In v l -> unop o v <> None) ->
  exists l', den (S k) m (Punop o q) = (l', e) /\ map Some l' = map (unop o) l.
Proof. intros H Hd. cbn [Pattern.den]. rewrite H. apply tun_map. exact Hd. Qed.
Lemma pnarop_l k m o a b c la ea lb eb lc ec :
  den k Str a = (la, ea) -> den k Str b = (lb, eb) -> den k Str c = (lc, ec) ->
  (forall va vb vc, In va la -> In vb lb -> In vc lc -> narop o va vb vc <> None) ->
  exists l', den (S k) m (Pnarop o a b c) = (l', end3 la lb lc ea eb ec) /\
             length l' = Nat.min (length la) (Nat.min (length lb) (length lc)) /\
             map Some l' = map (fun abc => narop o (fst abc) (fst (snd abc)) (snd (snd abc))) (combine la (combine lb lc)).
Proof. intros Ha Hb Hc H. cbn [Pattern.den]. rewrite Ha, Hb, Hc. apply tnar_shortest. exact H. Qed.
Lemma pwrap_l k m q lo hi l e : den (S k) Str q = (l, e) -> (length l < k)%nat ->
  (forall v, In v l -> narop NWrap v lo hi <> None) ->
  exists l', den (S (S k)) m (Pwrap q (PVal lo) (PVal hi)) = (l', e) /\
             map Some l' = map (fun v => narop NWrap v lo hi) l.
Proof.
  intros H Hl Hd.
  change (den (S (S k)) m (Pwrap q (PVal lo) (PVal hi)))
    with (twrap (fst (den (S k) Str q)) (snd (den (S k) Str q)) (repeat lo k) EMore (repeat hi k) EMore).
  rewrite H. apply twrap_const; assumption.
Qed.
Lemma pwrap_bounds_l k m q b c l e : den (S k) Str q = (l, e) -> (length l < k)%nat ->
  Forall (fun v => exists a, v = VN a /\ is_ok a = true) l ->
  is_ok b = true -> is_ok c = true -> andb (is_int b) (is_int c) = false -> (toQ b < toQ c)%Q ->
  exists l', den (S (S k)) m (Pwrap q (PVal (VN b)) (PVal (VN c))) = (l', e) /\ length l' = length l /\
             Forall (fun v => exists r, v = VN r /\ (toQ b <= toQ r)%Q /\ (toQ r < toQ c)%Q) l'.
Proof.
  intros H Hl Hn Hb Hc Hm Hlt.
  change (den (S (S k)) m (Pwrap q (PVal (VN b)) (PVal (VN c))))
    with (twrap (fst (den (S k) Str q)) (snd (den (S k) Str q)) (repeat (VN b) k) EMore (repeat (VN c) k) EMore).
  rewrite H. apply twrap_const_bounds; assumption.
Qed.
Lemma pif_l k m c x y lc ec : den (S k) Str c = (lc, ec) -> (length lc <= k)%nat ->
  den (S (S k)) m (Pif c (PVal x) (PVal y)) = (map (fun v => if truthy v then x else y) lc, ec).
Proof.
  intros H Hl.
  change (den (S (S k)) m (Pif c (PVal x) (PVal y)))
    with (tif (fst (den (S k) Str c)) (snd (den (S k) Str c)) (repeat x k) EMore (repeat y k) EMore).
  rewrite H. apply tif_const; assumption.
Qed.
Lemma pdiff_l k m q v l e : den k Str q = (v :: l, e) ->
  (forall a b, In a (v :: l) -> In b (v :: l) -> binop BSub a b <> None) ->
  exists l', den (S k) m (Pdiff q) = (l', e) /\ length l' = length l /\
             map Some l' = map (fun ab => binop BSub (snd ab) (fst ab)) (combine (v :: l) l).
Proof. intros H Hd. cbn [Pattern.den]. rewrite H. cbn [fst snd tdiff]. apply tdiff'_spec. exact Hd. Qed.
Lemma pseries_l k m a c (n : nat) : (n <= k)%nat ->
  den (S (S k)) m (Pseries (I a) (PVal (VN (I c))) (Fin (Z.of_nat n))) =
  (map (fun i => VN (I (a + Z.of_nat i * c))) (seq 0 n), EStop).
Proof.
  intros H.
  change (den (S (S k)) m (Pseries (I a) (PVal (VN (I c))) (Fin (Z.of_nat n))))
    with (tseries false (I a) (Some (Z.to_nat (Z.of_nat n))) (repeat (VN (I c)) k) EMore).
  rewrite Nat2Z.id. apply tseries_arith. exact H.
Qed.
Lemma pgeom_l k m a c (n : nat) : (n <= k)%nat ->
  den (S (S k)) m (Pgeom (I a) (PVal (VN (I c))) (Fin (Z.of_nat n))) =
  (map (fun i => VN (I (a * c ^ Z.of_nat i))) (seq 0 n), EStop).
Proof.
  intros H.
  change (den (S (S k)) m (Pgeom (I a) (PVal (VN (I c))) (Fin (Z.of_nat n))))
    with (tseries true (I a) (Some (Z.to_nat (Z.of_nat n))) (repeat (VN (I c)) k) EMore).
  rewrite Nat2Z.id. apply tseries_geom. exact H.
Qed.
Lemma pflatten_l k m q nv n l e : as_num nv = Some n -> den (S k) Str q = (l, e) -> (length l < k)%nat ->
  den (S (S k)) m (Pflatten q (PVal nv)) =
  (flat_map (fun v => match v with VL _ => flat (Z.to_nat (Qceiling (toQ n))) [v] | _ => [v] end) l, e).
Proof.
  intros Hn H Hl.
  change (den (S (S k)) m (Pflatten q (PVal nv)))
    with (tflat (repeat nv k) EMore (fst (den (S k) Str q)) (snd (den (S k) Str q))).
  rewrite H. apply tflat_const; assumption.
Qed.
Lemma pswitch1_l k m lst w iv lw ew z (pre : list trace) v l' e (post : list trace) : den k Str w = (iv :: lw, ew) ->
  as_index iv = Some z -> lst <> [] ->
  split_at (Z.to_nat (z mod Z.of_nat (length lst))) (map (den k Str) lst) = Some (pre, (v :: l', e), post) ->
  den (S k) m (Pswitch1 lst w) = tcons v (tsw1 (pre ++ (l', e) :: post) lw ew).
Proof.
  intros H H1 Hne H2. cbn [Pattern.den]. rewrite H. cbn [fst snd]. apply (tsw1_step _ _ _ _ z); try assumption.
  destruct lst; [congruence|discriminate]. rewrite map_length. exact H2.
Qed.
Lemma pseed_prand_l k m sd l sv z (r : nat) : den k Str sd = ([sv], EStop) -> as_index sv = Some z -> l <> [] ->
  (forall q, In q l -> snd (den k Emb q) = EStop) -> (r < k)%nat -> rand_ok 0 (Z.of_nat (length l)) l z r [] ->
  den (S k) m (PseedRand sd l (Fin (Z.of_nat r))) = (rand_out (den k Emb) 0 (Z.of_nat (length l)) l z r [], EStop).
Proof.
  intros H Hz Hne Hc Hr Hok. cbn [Pattern.den]. rewrite H. cbn [fst snd tseed]. rewrite Hz.
  destruct l as [|q0 l']; [congruence|]. cbn [cnt_of]. rewrite Nat2Z.id.
  rewrite trand_draws; try assumption. unfold tpre. cbn [fst snd]. rewrite app_nil_r. reflexivity.
Qed.
Lemma pseed_pwrand_l k m sd l nw sv z (r : nat) : den k Str sd = ([sv], EStop) -> as_index sv = Some z -> l <> [] ->
  (forall q, In q l -> snd (den k Emb q) = EStop) -> (r < k)%nat -> rand_ok (-1) (Z.of_nat nw) l z r [] ->
  den (S k) m (PseedWrand sd l nw (Fin (Z.of_nat r))) = (rand_out (den k Emb) (-1) (Z.of_nat nw) l z r [], EStop).
Proof.
  intros H Hz Hne Hc Hr Hok. cbn [Pattern.den]. rewrite H. cbn [fst snd tseed]. rewrite Hz.
  destruct l as [|q0 l']; [congruence|]. cbn [cnt_of]. rewrite Nat2Z.id.
  rewrite trand_draws; try assumption. unfold tpre. cbn [fst snd]. rewrite app_nil_r. reflexivity.
Qed.
End WithOracle.
