(* C18 -- the raising-callback model (model/DispatchExc.v) is model/Dispatch.v when nothing raises. *)
From Coq Require Import ZArith List Bool Lia Arith.
Import ListNotations.
Require Import SC3.model.OscMatch SC3.model.OscBundleParse SC3.model.Dispatch SC3.model.DispatchExc.
Require Import SC3.proofs.C18_dispatch.
Open Scope Z_scope.

Definition calm_item (it : titem) : bool := match it with TPredX _ => false | _ => true end.
Definition rtmpl (st : dstate) (id : nat) : option (option (list titem)) := option_map r_tmpl (nth_error (resps st) id).
Definition calm (st : dstate) : Prop := forall id tm, rtmpl st id = Some (Some tm) -> forallb calm_item tm = true.

Lemma tmpl_x_calm : forall tm args, forallb calm_item tm = true ->
  tmpl_x tm args = if tmpl_accepts tm args then XAccept else XReject.
Proof.
  induction tm as [| it tm IH]; intros args H; [reflexivity|].
  simpl in H. apply andb_true_iff in H as [Hi Ht].
  destruct it as [| v | p | p]; simpl in Hi; try discriminate; simpl.
  - apply IH. assumption.
  - destruct args as [| a args']; [reflexivity|]. destruct (py_eqb v a); simpl; [apply IH; assumption | reflexivity].
  - destruct args as [| a args']; [reflexivity|]. destruct (p a); simpl; [apply IH; assumption | reflexivity].
Qed.

Lemma rtmpl_disable : forall st j id, rtmpl (disable st j) id = rtmpl st id.
Proof.
  intros st j id. unfold disable. destruct (nth_error (resps st) j) as [r|] eqn:Hn; [|reflexivity].
  destruct (r_enabled r); [|reflexivity]. unfold rtmpl. simpl.
  assert (Hl : (j < length (resps st))%nat) by (apply nth_error_Some; congruence).
  destruct (Nat.eq_dec id j) as [-> | Hne].
  - rewrite (nth_set_resp_same st j r _ Hn), Hn. reflexivity.
  - rewrite nth_set_resp_other by assumption. reflexivity.
Qed.
Lemma rtmpl_run_func : forall f st j id, rtmpl (fst (run_func st j f)) id = rtmpl st id.
Proof. induction f as [tag | g IH]; intros; simpl; [reflexivity | rewrite IH; apply rtmpl_disable]. Qed.
Lemma calm_ext : forall st st', (forall id, rtmpl st' id = rtmpl st id) -> calm st -> calm st'.
Proof. intros st st' H Hc id tm E. rewrite H in E. apply (Hc id tm E). Qed.

Definition drop3 {A B C : Type} (x : A * B * C) : A * B := (fst (fst x), snd (fst x)).

Lemma call_wrapped_x_calm : forall st w m t src port, calm st ->
  call_wrapped_x (fun _ => false) st w m t src port = (call_wrapped st w m t src port, false).
Proof.
  intros st w m t src port Hc. unfold call_wrapped_x, call_wrapped, accepts.
  pose proof (Hc (w_id w)) as Hcw. unfold rtmpl in Hcw.
  destruct (nth_error (resps st) (w_id w)) as [r|]; [|reflexivity]. simpl in Hcw.
  destruct (src_accepts (r_src r) src && port_accepts (r_port r) port); simpl; [|reflexivity].
  destruct (r_tmpl r) as [tm|].
  - rewrite (tmpl_x_calm tm (m_args m) (Hcw tm eq_refl)).
    destruct (tmpl_accepts tm (m_args m)); [|reflexivity].
    destruct (run_func st (w_id w) (w_func w)). reflexivity.
  - destruct (run_func st (w_id w) (w_func w)). reflexivity.
Qed.

Lemma rtmpl_call_wrapped : forall st w m t src port id, rtmpl (fst (call_wrapped st w m t src port)) id = rtmpl st id.
Proof.
  intros. destruct (call_wrapped_spec st w m t src port) as [[_ Hc] | [_ Hc]]; rewrite Hc; simpl; [apply rtmpl_run_func | reflexivity].
Qed.

Lemma call_all_x_calm : forall l st m t src port, calm st ->
  call_all_x (fun _ => false) st l m t src port = (call_all st l m t src port, false)
  /\ forall id, rtmpl (fst (call_all st l m t src port)) id = rtmpl st id.
Proof.
  induction l as [| w l IH]; intros st m t src port Hc; simpl; [split; reflexivity|].
  rewrite (call_wrapped_x_calm st w m t src port Hc).
  pose proof (rtmpl_call_wrapped st w m t src port) as Hr.
  destruct (call_wrapped st w m t src port) as [st1 o1]. simpl in Hr.
  destruct (IH st1 m t src port (calm_ext st st1 Hr Hc)) as [H1 H2]. rewrite H1.
  destruct (call_all st1 l m t src port) as [st2 o2]. simpl in *. split; [reflexivity|].
  intro id. rewrite H2. apply Hr.
Qed.

Lemma dispatch_match_x_calm : forall st m t src port, calm st ->
  drop3 (dispatch_match_x (fun _ => false) st m t src port) = dispatch_match_d st m t src port
  /\ forall id, rtmpl (fst (dispatch_match_d st m t src port)) id = rtmpl st id.
Proof.
  intros st m t src port Hc. unfold dispatch_match_x, dispatch_match_d.
  destruct (matched_keys m (act_match st)) as [ks|]; [|split; reflexivity].
  destruct (call_all_x_calm (reg_entries st ks) st m t src port Hc) as [H1 H2]. rewrite H1. split; [|exact H2].
  unfold drop3. simpl. destruct (call_all st (reg_entries st ks) m t src port); reflexivity.
Qed.

Lemma incoming_x_calm : forall st m t src port, calm st ->
  drop3 (incoming_x (fun _ => false) st m t src port) = incoming st m t src port
  /\ forall id, rtmpl (fst (incoming st m t src port)) id = rtmpl st id.
Proof.
  intros st m t src port Hc. unfold incoming_x, incoming, dispatch_exact_x, dispatch_exact_d.
  assert (Hex : exists st1 o1, (match tbl_get (act_exact st) (m_addr m) with Some l => call_all_x (fun _ => false) st l m t src port | None => (st, [], false) end) = (st1, o1, false)
                 /\ (match tbl_get (act_exact st) (m_addr m) with Some l => call_all st l m t src port | None => (st, []) end) = (st1, o1)
                 /\ forall id, rtmpl st1 id = rtmpl st id).
  { destruct (tbl_get (act_exact st) (m_addr m)) as [l|].
    - destruct (call_all_x_calm l st m t src port Hc) as [H1 H2]. destruct (call_all st l m t src port) as [st1 o1].
      exists st1, o1. repeat split; assumption.
    - exists st, []. repeat split; reflexivity. }
  destruct Hex as (st1 & o1 & E1 & E2 & Hr). rewrite E1, E2.
  destruct (dispatch_match_x_calm st1 m t src port (calm_ext st st1 Hr Hc)) as [H3 Hr2].
  destruct (dispatch_match_x (fun _ => false) st1 m t src port) as [[st2 o2] ab2].
  unfold drop3 in *. simpl in *. destruct (dispatch_match_d st1 m t src port) as [st2' o2']. inversion H3; subst.
  simpl in *. split; [reflexivity|]. intro id. rewrite Hr2. apply Hr.
Qed.

Lemma incoming_all_x_calm : forall ms st src port, calm st ->
  incoming_all_x (fun _ => false) st ms src port = incoming_all st ms src port.
Proof.
  induction ms as [| [t m] ms IH]; intros st src port Hc; simpl; [reflexivity|].
  destruct (incoming_x_calm st m t src port Hc) as [H1 H2].
  destruct (incoming_x (fun _ => false) st m t src port) as [[st1 o1] ab]. unfold drop3 in H1. simpl in H1.
  destruct (incoming st m t src port) as [st1' o1']. inversion H1; subst. simpl in H2.
  rewrite (IH st1' src port (calm_ext st st1' H2 Hc)). reflexivity.
Qed.

(* with no raising callback the two models take the same steps *)
Lemma step_x_calm : forall st o, calm st -> step_x (fun _ => false) st o = step st o.
Proof.
  intros st o Hc. destruct o; simpl; try reflexivity.
  - destruct (incoming_x_calm st m t src port Hc) as [H1 _].
    destruct (incoming_x (fun _ => false) st m t src port) as [[st1 o1] ab]. unfold drop3 in H1. simpl in H1. exact H1.
  - unfold handle_request. destruct (parse_packet d); try reflexivity. apply incoming_all_x_calm. assumption.
Qed.
