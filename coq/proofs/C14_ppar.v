(* C14 -- Ppar at full strength, part 1: the merge as a function (par_run) of the children's event lists over the
   sorted-list queue specification of C09 (TaskQ.spec), and the proof that the stream of Ppar IS that function
   when every child stream denotes a fixed event list. *)
From Coq Require Import String List Morphisms Permutation Sorting.
Require Import SC3.proofs.NumTac SC3.gen.Gen_builtins SC3.proofs.C12_num SC3.model.TaskQ SC3.model.Event.
Require Import SC3.proofs.C09_order SC3.proofs.C14_play SC3.proofs.C14_stream.
Import ListNotations.
Open Scope Q_scope.

(* queue.add(prio, task) on the specification *)
Definition qadd (p : Q) (t : Z) (q : spec) : spec := fst (spec_step (OAdd p t) q).

Lemma qadd_eq : forall p t l n, qadd p t (l, n) = (insert_by ikey (p, n, t) (remove_task t l), S n).
Proof. reflexivity. Qed.

(* _init_streams: every child queued at 0.0, in order *)
Definition par_init (n : nat) : spec :=
  fold_left (fun acc i => fst (spec_step (OAdd 0 (Z.of_nat i)) acc)) (seq 0 n) spec_init.

(* one output of the merge: the value of `now` when it was produced, the queue key (time, sequence number) that was
   popped, the child it comes from (None: a rest filling the gap left by a child that has ended), the event *)
Record pout := mkPO { po_time : num; po_key : key; po_src : option nat; po_ev : event }.

(* the rest Ppar inserts when a child has ended and others go on (repaired code): Event.silent(nexttime - now, inevent)
   with its delta set back to nexttime - now -- the queue times already are in stretched time *)
Definition par_rest (p : Q) (now : num) (inev : event) : event :=
  put "delta" (VNum (nsub (F p) now)) (silent (VNum (nsub (F p) now)) inev).

Section ParRun.
Variables (K : kern) (inev : event).

Fixpoint par_run (fuel : nat) (q : spec) (now : num) (ls : list (list event)) : list pout :=
  match fuel with
  | O => []
  | S f =>
    match fst q with
    | [] => []
    | x :: r =>
        let t := itask x in
        let i := Z.to_nat t in
        let q1 := (r, snd q) in
        match nth_error ls i with
        | None => []
        | Some [] =>
            match r with
            | [] => []
            | y :: _ =>
                let p := fst (fst y) in
                mkPO now (ikey x) None (par_rest p now inev)
                :: par_run f q1 (F p) (set_nth i [] ls)
            end
        | Some (e0 :: li) =>
            let e := as_event e0 in
            let tnext := nadd now (pfloat (vnum (ev_call K e "delta"))) in
            let q2 := qadd (toQ tnext) t q1 in
            match fst q2 with
            | [] => []
            | y :: _ =>
                let p := fst (fst y) in
                mkPO now (ikey x) (Some i) (put "delta" (VNum (nsub (F p) now)) e)
                :: par_run f q2 (F p) (set_nth i li ls)
            end
        end
    end
  end.
End ParRun.

(* ---- a child stream that denotes a fixed event list (its events do not depend on the Pmono counter) ------------ *)
Section Denotes.
Variables (c : cfg) (K : kern) (lib : synthlib) (dep : nat) (inev : event).

Inductive denotes : st -> list event -> Prop :=
| den_stop : forall s, (forall mc, exists o ret, snext c K lib dep s inev mc = (RStop o ret, mc)) -> denotes s []
| den_yield : forall s e s' l, (forall mc, exists o, snext c K lib dep s inev mc = (RYield e s' o, mc)) ->
    denotes s' l -> denotes s (e :: l).

Lemma denotes_done : (0 < dep)%nat -> denotes SDone [].
Proof. intros H. apply den_stop. intros mc. exists [], inev. destruct dep; [lia|reflexivity]. Qed.

(* a Pbind whose value streams are finite lists or constants: its events, with fuel to unfold dict_next *)
Fixpoint bind_list (fuel : nat) (kvs : list (string * vstream)) : list event :=
  match fuel with
  | O => []
  | S f => match dict_next kvs with
           | None => []
           | Some (upd, kvs') => update inev upd :: bind_list f kvs'
           end
  end.
Fixpoint bind_ends (fuel : nat) (kvs : list (string * vstream)) : Prop :=
  match fuel with
  | O => False
  | S f => match dict_next kvs with
           | None => True
           | Some (_, kvs') => bind_ends f kvs'
           end
  end.
Lemma denotes_bind : (0 < dep)%nat -> forall fuel kvs, bind_ends fuel kvs -> denotes (SBind kvs) (bind_list fuel kvs).
Proof.
  intros Hd fuel. induction fuel as [|f IH]; intros kvs He; [contradiction|].
  cbn [bind_list bind_ends] in *. destruct (dict_next kvs) as [[upd kvs']|] eqn:E.
  - eapply den_yield; [|apply IH; exact He]. intros mc. exists []. destruct dep; [lia|]. cbn [snext]. rewrite E. reflexivity.
  - apply den_stop. intros mc. exists [], inev. destruct dep; [lia|]. cbn [snext]. rewrite E. reflexivity.
Qed.

Lemma Forall2_nth_error_l : forall (A B : Type) (R : A -> B -> Prop) la lb i,
  Forall2 R la lb ->
  match nth_error la i, nth_error lb i with
  | Some a, Some b => R a b
  | None, None => True
  | _, _ => False
  end.
Proof.
  intros A B R la lb i H. revert i. induction H as [|a b la lb Hab H IH]; intros i.
  - destruct i; cbn; trivial.
  - destruct i; [exact Hab|apply IH].
Qed.
Lemma Forall2_set_nth : forall (A B : Type) (R : A -> B -> Prop) la lb i a b,
  Forall2 R la lb -> R a b -> Forall2 R (set_nth i a la) (set_nth i b lb).
Proof.
  intros A B R la lb i a b H Hab. revert i. induction H as [|a0 b0 la lb H0 H IH]; intros i.
  - destruct i; constructor.
  - destruct i; cbn; constructor; auto.
Qed.

(* the stream of a started Ppar is par_run of the children's lists *)
Hypothesis Hrest : fix_ppar_rest c = true.

Lemma ppar_stream_is_par_run : (0 < dep)%nat -> forall fuel q now cs ls mc,
  Forall2 denotes cs ls ->
  stream_run c K lib fuel (S dep) (SPar true q now cs) inev mc = map po_ev (par_run K inev fuel q now ls).
Proof.
  intros Hd fuel. induction fuel as [|f IH]; intros q now cs ls mc HF; [reflexivity|].
  destruct q as [l n]. cbn [stream_run par_run fst snd]. cbn [snext].
  destruct l as [|x r]; [reflexivity|].
  cbn [spec_step]. cbn [fst snd].
  pose proof (Forall2_nth_error_l _ _ _ _ _ (Z.to_nat (itask x)) HF) as Hn.
  change (snd x) with (itask x).
  destruct (nth_error cs (Z.to_nat (itask x))) as [ci|]; destruct (nth_error ls (Z.to_nat (itask x))) as [li|];
    try contradiction; [|reflexivity].
  inversion Hn as [s Hs|s e s' l' Hs Hl']; subst.
  - destruct (Hs mc) as [o [rt Ho]]. rewrite Ho.
    destruct r as [|y r']; [reflexivity|]. rewrite Hrest. cbn [map po_ev]. f_equal.
    apply IH. apply Forall2_set_nth; [exact HF|apply denotes_done; exact Hd].
  - destruct (Hs mc) as [o Ho]. rewrite Ho. cbv zeta. unfold qadd. cbn [spec_step fst snd].
    remember (insert_by ikey (toQ (nadd now (pfloat (vnum (ev_call K (as_event e) "delta")))), n, itask x)
                (remove_task (itask x) r)) as L eqn:EL.
    destruct L as [|y r']; [reflexivity|]. cbn [map po_ev]. f_equal.
    apply IH. apply Forall2_set_nth; [exact HF|exact Hl'].
Qed.

(* ... and a Ppar that has not started yet first queues every child at 0.0 *)
Lemma ppar_stream_is_par_run_init : (0 < dep)%nat -> forall fuel cs ls mc,
  Forall2 denotes cs ls ->
  stream_run c K lib fuel (S dep) (SPar false spec_init (F 0) cs) inev mc
  = map po_ev (par_run K inev fuel (par_init (List.length ls)) (F 0) ls).
Proof.
  intros Hd fuel cs ls mc HF.
  rewrite <- (ppar_stream_is_par_run Hd fuel (par_init (List.length ls)) (F 0) cs ls mc HF).
  assert (EL : List.length cs = List.length ls).
  { clear - HF. induction HF; cbn; [reflexivity|rewrite IHHF; reflexivity]. }
  destruct fuel as [|f]; [reflexivity|]. cbn [stream_run]. cbn [snext]. unfold par_init. rewrite EL.
  reflexivity.
Qed.
End Denotes.
