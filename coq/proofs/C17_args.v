(* C17 -- the argument-flattening functions of the model (_as_control_input, _embed_as_osc_arg,
   _as_osc_arg_list, the setn loop, bus pairs ...) produce token vectors that the encoder accepts
   and that the grammar's repetition / counted groups accept: induction over the argument lists. *)
From Coq Require Import ZArith QArith List String Bool Ascii Lia.
Import ListNotations.
Require Import SC3.model.ProtoGrammar SC3.model.Proto.
Require Import SC3.proofs.C17_gram.
Open Scope string_scope.
Open Scope Z_scope.
Open Scope list_scope.

(* ---- the encoder, compositionally ---- *)

Fixpoint wire_args (l : list pval) : option (list arg) :=
  match l with
  | [] => Some []
  | x :: t => match wire_arg x, wire_args t with Some a, Some b => Some (a ++ b) | _, _ => None end
  end.

Lemma wire_msg_eq : forall a l,
  wire_msg (PStr a :: l) = match wire_args l with Some args => Some (a, args) | None => None end.
Proof.
  intros a l. unfold wire_msg. cbn [wire_arg].
  change ((fix go (l0 : list pval) : option (list arg) :=
             match l0 with
             | [] => Some []
             | x :: t => match wire_arg x, go t with Some a', Some b' => Some (a' ++ b') | _, _ => None end
             end) l) with (wire_args l).
  destruct (wire_args l); reflexivity.
Qed.

Lemma wire_list_msg : forall a l args,
  wire_args l = Some args -> wire_arg (PList (PStr a :: l)) = Some [AMsg a args].
Proof.
  intros a l args H. cbn [wire_arg].
  change ((fix go (l0 : list pval) : option (list arg) :=
             match l0 with
             | [] => Some []
             | x :: t => match wire_arg x, go t with Some a', Some b' => Some (a' ++ b') | _, _ => None end
             end) l) with (wire_args l).
  rewrite H. reflexivity.
Qed.

Lemma wire_args_app : forall a b x y,
  wire_args a = Some x -> wire_args b = Some y -> wire_args (a ++ b) = Some (x ++ y).
Proof.
  induction a as [|p t IH]; intros b x y Ha Hb; simpl in *.
  - inversion Ha; subst. exact Hb.
  - destruct (wire_arg p) as [wp|]; [|discriminate]. destruct (wire_args t) as [wt|] eqn:E; [|discriminate].
    inversion Ha; subst. rewrite (IH b wt y eq_refl Hb). rewrite app_assoc. reflexivity.
Qed.

(* ---- scalar tokens ---- *)

Definition plain (x : string) : bool := negb (String.eqb x "[") && negb (String.eqb x "]").

Definition wtok (p : pval) : arg :=
  match p with
  | PNone => AInt 0
  | PBool b => AInt (if b then 1 else 0)
  | PInt z => AInt z
  | PFlt q => AFlt q
  | PStr x => AStr x
  | _ => AInt 0
  end.

Definition w_int (p : pval) : bool := match p with PInt _ | PBool _ | PNone => true | _ => false end.
Definition w_num (p : pval) : bool := match p with PInt _ | PBool _ | PNone | PFlt _ => true | _ => false end.
Definition w_str (p : pval) : bool := match p with PStr x => plain x | _ => false end.
Definition w_ctl (p : pval) : bool := w_int p || w_str p.
Definition w_numstr (p : pval) : bool := w_num p || w_str p.
Definition w_tok (p : pval) : bool := w_num p || w_str p.

Lemma plain_eqs : forall x, plain x = true -> String.eqb x "[" = false /\ String.eqb x "]" = false.
Proof. intros x H. unfold plain in H. apply andb_true_iff in H. rewrite !negb_true_iff in H. exact H. Qed.

Lemma wire_tok : forall p, w_tok p = true -> wire_arg p = Some [wtok p].
Proof.
  intros p H. destruct p; try discriminate H; try reflexivity.
  simpl in H. destruct (plain_eqs s H) as [A B]. cbn [wire_arg wtok]. rewrite A, B. reflexivity.
Qed.

Lemma wire_toks : forall l, forallb w_tok l = true -> wire_args l = Some (map wtok l).
Proof.
  induction l as [|p t IH]; intros H; [reflexivity|]. cbn [forallb] in H. apply andb_true_iff in H.
  destruct H as [Hp Ht]. cbn [wire_args map]. rewrite (wire_tok p Hp), (IH Ht). reflexivity.
Qed.

Lemma tok_not_msg : forall p, not_msg (wtok p) = true.
Proof. intros p. destruct p; reflexivity. Qed.

Lemma toks_not_msg : forall l, forallb not_msg (map wtok l) = true.
Proof. induction l as [|p t IH]; [reflexivity|]. cbn [map forallb]. rewrite tok_not_msg, IH. reflexivity. Qed.

Lemma w_int_tok : forall p, w_int p = true -> exists z, wtok p = AInt z.
Proof. intros p H. destruct p; try discriminate H; simpl; eauto. Qed.

Lemma int_is_num : forall p, w_int p = true -> w_num p = true.
Proof. intros p H. destruct p; try discriminate H; reflexivity. Qed.
Lemma int_is_tok : forall p, w_int p = true -> w_tok p = true.
Proof. intros p H. unfold w_tok. rewrite (int_is_num p H). reflexivity. Qed.
Lemma num_is_tok : forall p, w_num p = true -> w_tok p = true.
Proof. intros p H. unfold w_tok. rewrite H. reflexivity. Qed.
Lemma ctl_is_tok : forall p, w_ctl p = true -> w_tok p = true.
Proof.
  intros p H. unfold w_ctl in H. apply orb_true_iff in H. destruct H as [H|H].
  - apply int_is_tok. exact H.
  - unfold w_tok. rewrite H. apply orb_true_r.
Qed.

Lemma eat_int_tok : forall p r, w_int p = true -> eat TInt (wtok p :: r) = Some ([], r).
Proof. intros p r H. destruct p; try discriminate H; reflexivity. Qed.
Lemma eat_num_tok : forall p r, w_num p = true -> eat TNum (wtok p :: r) = Some ([], r).
Proof. intros p r H. destruct p; try discriminate H; reflexivity. Qed.
Lemma eat_ctl_tok : forall p r, w_ctl p = true -> eat TCtl (wtok p :: r) = Some ([], r).
Proof.
  intros p r H. unfold w_ctl in H. apply orb_true_iff in H. destruct H as [H|H]; destruct p; try discriminate H; reflexivity.
Qed.
Lemma eat_numstr_tok : forall p r, w_numstr p = true -> eat TNumStr (wtok p :: r) = Some ([], r).
Proof.
  intros p r H. unfold w_numstr in H. apply orb_true_iff in H. destruct H as [H|H]; destruct p; try discriminate H; reflexivity.
Qed.

(* ---- _as_control_input / _embed_as_osc_arg on containers ---- *)

Lemma aci_list : forall s l, aci s (PList l) = PList (map (aci s) l).
Proof.
  intros s l. reflexivity.
Qed.
Lemma aci_tuple : forall s l, aci s (PTuple l) = PTuple (map (aci s) l).
Proof.
  intros s l. reflexivity.
Qed.
Lemma aci_dict : forall s l,
  aci s (PDict l) = PList (flat_map (fun kv => [aci s (fst kv); aci s (snd kv)]) l).
Proof.
  intros s l. cbn [aci]. f_equal. induction l as [|[k x] t IH]; [reflexivity|]. cbn [flat_map fst snd app]. rewrite <- IH. reflexivity.
Qed.

Lemma embed_list : forall db s l, embed db s (PList l) = PStr "[" :: flat_map (embed db s) l ++ [PStr "]"].
Proof.
  intros db s l. cbn [embed]. f_equal. induction l as [|x t IH]; [reflexivity|].
  cbn [flat_map]. rewrite <- app_assoc, <- IH. reflexivity.
Qed.
Lemma embed_tuple : forall db s l, embed db s (PTuple l) = PStr "[" :: flat_map (embed db s) l ++ [PStr "]"].
Proof.
  intros db s l. cbn [embed]. f_equal. induction l as [|x t IH]; [reflexivity|].
  cbn [flat_map]. rewrite <- app_assoc, <- IH. reflexivity.
Qed.
Lemma embed_dict : forall s l,
  embed false s (PDict l) = flat_map (fun kv => embed false s (fst kv) ++ embed false s (snd kv)) l.
Proof.
  intros s l. cbn [embed app]. induction l as [|[k x] t IH]; [reflexivity|].
  cbn [flat_map fst snd]. rewrite <- app_assoc, <- IH. reflexivity.
Qed.

(* ---- client objects as values: under the object invariant they are ints or None ---- *)

Definition is_pint (v : pval) : bool := match v with PInt _ => true | _ => false end.
Definition ion (v : pval) : bool := match v with PInt _ | PNone => true | _ => false end.
Definition node_ok (n : option nodeobj) : bool := match n with Some x => is_pint (n_id x) | None => true end.
Definition buf_ok (b : option bufobj) : bool :=
  match b with Some x => ion (b_num x) && ion (b_frames x) && ion (b_chans x) | None => true end.
Definition bus_ok (u : option busobj) : bool :=
  match u with Some x => ion (u_index x) && ion (u_chans x) | None => true end.
Definition inv_objs (s : st) : bool :=
  forallb node_ok (nodes s) && forallb buf_ok (bufs s) && forallb bus_ok (buses s).

Lemma forallb_nth : forall {A} (f : A -> bool) l i x, forallb f l = true -> nth_error l i = Some x -> f x = true.
Proof.
  intros A f l. induction l as [|y t IH]; intros i x H Hn; destruct i; simpl in *; try discriminate.
  - inversion Hn; subst. apply andb_true_iff in H. tauto.
  - apply andb_true_iff in H. eapply IH; [tauto | exact Hn].
Qed.

Lemma inv_objs_split : forall s, inv_objs s = true <->
  forallb node_ok (nodes s) = true /\ forallb buf_ok (bufs s) = true /\ forallb bus_ok (buses s) = true.
Proof. intros s. unfold inv_objs. rewrite !andb_true_iff. tauto. Qed.

Lemma node_id_ion : forall s i, inv_objs s = true -> ion (node_id_of s i) = true.
Proof.
  intros s i H. apply inv_objs_split in H. destruct H as [H _]. unfold node_id_of.
  destruct (nth_error (nodes s) i) as [[x|]|] eqn:E; try reflexivity.
  pose proof (forallb_nth _ _ _ _ H E) as K. simpl in K. destruct (n_id x); try discriminate K; reflexivity.
Qed.
Lemma bufnum_ion : forall s i, inv_objs s = true -> ion (bufnum_of s i) = true.
Proof.
  intros s i H. apply inv_objs_split in H. destruct H as [_ [H _]]. unfold bufnum_of.
  destruct (nth_error (bufs s) i) as [[x|]|] eqn:E; try reflexivity.
  pose proof (forallb_nth _ _ _ _ H E) as K. simpl in K. rewrite !andb_true_iff in K. tauto.
Qed.
Lemma busindex_ion : forall s i, inv_objs s = true -> ion (busindex_of s i) = true.
Proof.
  intros s i H. apply inv_objs_split in H. destruct H as [_ [_ H]]. unfold busindex_of.
  destruct (nth_error (buses s) i) as [[x|]|] eqn:E; try reflexivity.
  pose proof (forallb_nth _ _ _ _ H E) as K. simpl in K. rewrite !andb_true_iff in K. tauto.
Qed.

(* the decimal string of a bus index is a string of digits: 'c' / 'a' + it is a map symbol *)
Lemma digit_digit_char : forall d, 0 <= d < 10 -> digit (digit_char d) = true.
Proof.
  intros d H. assert (d = 0 \/ d = 1 \/ d = 2 \/ d = 3 \/ d = 4 \/ d = 5 \/ d = 6 \/ d = 7 \/ d = 8 \/ d = 9) as C by lia.
  destruct C as [C|[C|[C|[C|[C|[C|[C|[C|[C|C]]]]]]]]]; subst; reflexivity.
Qed.

Lemma dec_digits_ok : forall fuel n acc, all_digits acc = true ->
  all_digits (dec_digits fuel n acc) = true /\ (fuel <> O -> dec_digits fuel n acc <> "").
Proof.
  induction fuel as [|f IH]; intros n acc H; cbn [dec_digits].
  - split; [exact H | intros K; contradiction K; reflexivity].
  - assert (D : all_digits (String (digit_char (n mod 10)) acc) = true).
    { cbn [all_digits]. rewrite digit_digit_char, H; [reflexivity|]. apply Z.mod_pos_bound. lia. }
    destruct (n <? 10).
    + split; [exact D | intros _; discriminate].
    + destruct (IH (n / 10) _ D) as [A B]. split; [exact A|]. intros _.
      destruct f; [cbn [dec_digits]; discriminate | apply B; discriminate].
Qed.

Lemma map_sym_ok : forall (c : ascii) z, (c = "c"%char \/ c = "a"%char) -> is_map_sym (String c (dec_string z)) = true.
Proof.
  intros c z Hc. unfold dec_string.
  destruct (dec_digits_ok 20 z "" eq_refl) as [A B].
  destruct (dec_digits 20 z "") as [|d r] eqn:E; [contradiction B; [discriminate | reflexivity]|].
  cbn [is_map_sym]. cbn [all_digits] in A. apply andb_true_iff in A. destruct A as [A1 A2]. rewrite A1, A2.
  destruct Hc; subst; reflexivity.
Qed.

Lemma map_sym_plain : forall x, is_map_sym x = true -> plain x = true.
Proof.
  intros x H. destruct x as [|c [|d r]]; try discriminate H. cbn [is_map_sym] in H.
  apply andb_true_iff in H. destruct H as [H _]. apply andb_true_iff in H. destruct H as [H _].
  unfold plain. apply orb_true_iff in H.
  destruct H as [H|H]; apply Ascii.eqb_eq in H; subst; reflexivity.
Qed.

(* a scalar accepted as an element of an array *)
Definition eval (v : pval) : bool :=
  match v with
  | PNone | PBool _ | PInt _ | PFlt _ => true
  | PStr x => plain x
  | PBus _ | PBuf _ | PNode _ | PMap _ => true
  | _ => false
  end.
(* a scalar accepted as a control value *)
Definition sval (v : pval) : bool :=
  match v with
  | PNone | PBool _ | PInt _ | PFlt _ => true
  | PStr x => is_map_sym x
  | PBus _ | PBuf _ | PNode _ | PMap _ => true
  | _ => false
  end.

Lemma sval_eval : forall v, sval v = true -> eval v = true.
Proof. intros v H. destruct v; try discriminate H; try reflexivity. simpl in *. apply map_sym_plain. exact H. Qed.

Lemma ion_tok : forall v, ion v = true -> w_tok v = true /\ arr_scalar (wtok v) = true /\ (forall r, eat TVal (wtok v :: r) = Some ([], r)).
Proof. intros v H. destruct v; try discriminate H; repeat split; reflexivity. Qed.

Lemma aci_map : forall s i, inv_objs s = true ->
  aci s (PMap i) = PNone \/ exists x, aci s (PMap i) = PStr x /\ is_map_sym x = true.
Proof.
  intros s i H. cbn [aci]. pose proof (busindex_ion s i H) as K.
  destruct (busindex_of s i); try discriminate K; [left; reflexivity|].
  right. eexists. split; [reflexivity|]. apply map_sym_ok. destruct (busaudio_of s i); auto.
Qed.

(* what a scalar element becomes: one token, fine inside an array *)
Lemma eval_tok : forall s v, inv_objs s = true -> eval v = true ->
  w_tok (aci s v) = true /\ arr_scalar (wtok (aci s v)) = true.
Proof.
  intros s v Hi H. destruct v; try discriminate H; try (split; reflexivity).
  - cbn [aci]. split; [unfold w_tok; simpl in *; rewrite H; reflexivity | reflexivity].
  - cbn [aci]. destruct (ion_tok _ (busindex_ion s i Hi)) as [A [B _]]. split; assumption.
  - cbn [aci]. destruct (ion_tok _ (bufnum_ion s i Hi)) as [A [B _]]. split; assumption.
  - cbn [aci]. destruct (ion_tok _ (node_id_ion s i Hi)) as [A [B _]]. split; assumption.
  - destruct (aci_map s i Hi) as [E|[x [E M]]]; rewrite E; [split; reflexivity|].
    split; [unfold w_tok; simpl; rewrite (map_sym_plain x M); reflexivity | reflexivity].
Qed.

(* ... and as a control value on its own *)
Lemma sval_tok : forall s v, inv_objs s = true -> sval v = true ->
  w_tok (aci s v) = true /\ (forall r, eat TVal (wtok (aci s v) :: r) = Some ([], r)).
Proof.
  intros s v Hi H. destruct v; try discriminate H; try (split; [reflexivity | intros r; reflexivity]).
  - cbn [aci]. simpl in H. split; [unfold w_tok; simpl; rewrite (map_sym_plain s0 H); reflexivity|].
    intros r. cbn [wtok eat]. rewrite H. reflexivity.
  - cbn [aci]. destruct (ion_tok _ (busindex_ion s i Hi)) as [A [_ C]]. split; assumption.
  - cbn [aci]. destruct (ion_tok _ (bufnum_ion s i Hi)) as [A [_ C]]. split; assumption.
  - cbn [aci]. destruct (ion_tok _ (node_id_ion s i Hi)) as [A [_ C]]. split; assumption.
  - destruct (aci_map s i Hi) as [E|[x [E M]]]; rewrite E; [split; [reflexivity | intros r; reflexivity]|].
    split; [unfold w_tok; simpl; rewrite (map_sym_plain x M); reflexivity|].
    intros r. cbn [wtok eat]. rewrite M. reflexivity.
Qed.

(* ---- nested lists become nested brackets that an array field accepts ---- *)

Fixpoint elem_ok (n : nat) (v : pval) : bool :=
  match v with
  | PList l => match n with S m => forallb (elem_ok m) l | O => false end
  | PTuple l => match n with S m => forallb (elem_ok m) l | O => false end
  | _ => eval v
  end.

Definition val_ok (n : nat) (v : pval) : bool :=
  match v with
  | PList l => forallb (elem_ok n) l
  | PTuple l => forallb (elem_ok n) l
  | _ => sval v
  end.

(* transparent to close_array at every depth *)
Definition transparent (ws : list arg) : Prop := forall d r, close_array (ws ++ r) d = close_array r d.

Lemma transparent_app : forall a b, transparent a -> transparent b -> transparent (a ++ b).
Proof. intros a b Ha Hb d r. rewrite <- app_assoc, Ha, Hb. reflexivity. Qed.

Lemma embed_scalar : forall db s v, (match v with PList _ | PTuple _ | PDict _ => False | _ => True end) ->
  embed db s v = [aci s v].
Proof. intros db s v H. destruct v; try contradiction H; reflexivity. Qed.

Lemma embed_elems : forall db s n, inv_objs s = true ->
  forall l, forallb (elem_ok n) l = true ->
  exists ws, wire_args (flat_map (embed db s) l) = Some ws /\ transparent ws /\ forallb not_msg ws = true.
Proof.
  intros db s n Hi. induction n as [|m IHn].
  - (* only scalars *)
    induction l as [|v t IH]; intros H.
    + exists []. split; [reflexivity | split; [intros d r; reflexivity | reflexivity]].
    + cbn [forallb] in H. apply andb_true_iff in H. destruct H as [Hv Ht]. destruct (IH Ht) as [wt [W [T N]]].
      assert (Ev : eval v = true) by (destruct v; try discriminate Hv; exact Hv).
      assert (Es : embed db s v = [aci s v]) by (apply embed_scalar; destruct v; try discriminate Ev; exact I).
      destruct (eval_tok s v Hi Ev) as [A B].
      exists (wtok (aci s v) :: wt). cbn [flat_map]. rewrite Es. cbn [app wire_args].
      rewrite (wire_tok _ A), W. repeat split.
      * intros d r. cbn [app]. rewrite close_scalar by exact B. apply T.
      * cbn [forallb]. rewrite tok_not_msg, N. reflexivity.
  - induction l as [|v t IH]; intros H.
    + exists []. split; [reflexivity | split; [intros d r; reflexivity | reflexivity]].
    + cbn [forallb] in H. apply andb_true_iff in H. destruct H as [Hv Ht]. destruct (IH Ht) as [wt [W [T N]]].
      cbn [flat_map].
      assert (C : (exists l', (v = PList l' \/ v = PTuple l') /\ forallb (elem_ok m) l' = true) \/
                  (eval v = true /\ embed db s v = [aci s v])).
      { destruct v; try (right; split; [exact Hv | reflexivity]); try discriminate Hv.
        - left. exists l. split; [left; reflexivity | exact Hv].
        - left. exists l. split; [right; reflexivity | exact Hv]. }
      destruct C as [[l' [Hl Hl']]|[Ev Es]].
      * destruct (IHn l' Hl') as [wi [Wi [Ti Ni]]].
        assert (Em : embed db s v = PStr "[" :: flat_map (embed db s) l' ++ [PStr "]"]).
        { destruct Hl; subst; [apply embed_list | apply embed_tuple]. }
        exists ((AOpen :: wi ++ [AClose]) ++ wt). rewrite Em. split; [|split].
        -- apply wire_args_app; [|exact W]. cbn [wire_args]. change (wire_arg (PStr "[")) with (Some [AOpen]).
           rewrite (wire_args_app _ [PStr "]"] wi [AClose] Wi eq_refl). reflexivity.
        -- apply transparent_app; [|exact T]. intros d r. cbn [app close_array]. rewrite <- app_assoc, Ti. reflexivity.
        -- rewrite forallb_app. cbn [forallb not_msg]. rewrite forallb_app, Ni, N. reflexivity.
      * destruct (eval_tok s v Hi Ev) as [A B].
        exists (wtok (aci s v) :: wt). rewrite Es. cbn [app wire_args]. rewrite (wire_tok _ A), W. repeat split.
        -- intros d r. cbn [app]. rewrite close_scalar by exact B. apply T.
        -- cbn [forallb]. rewrite tok_not_msg, N. reflexivity.
Qed.

(* a control value: a scalar, or an array *)
Lemma embed_value : forall db s n v, inv_objs s = true -> val_ok n v = true ->
  exists ws, wire_args (embed db s v) = Some ws /\ ws <> [] /\
             (forall r, eat TVal (ws ++ r) = Some ([], r)) /\ forallb not_msg ws = true.
Proof.
  intros db s n v Hi H.
  assert (C : (exists l', (v = PList l' \/ v = PTuple l') /\ forallb (elem_ok n) l' = true) \/
              (sval v = true /\ embed db s v = [aci s v])).
  { destruct v; try (right; split; [exact H | reflexivity]); try discriminate H.
    - left. exists l. split; [left; reflexivity | exact H].
    - left. exists l. split; [right; reflexivity | exact H]. }
  destruct C as [[l' [Hl Hl']]|[Ev Es]].
  - destruct (embed_elems db s n Hi l' Hl') as [wi [Wi [Ti Ni]]].
    assert (Em : embed db s v = PStr "[" :: flat_map (embed db s) l' ++ [PStr "]"]).
    { destruct Hl; subst; [apply embed_list | apply embed_tuple]. }
    exists (AOpen :: wi ++ [AClose]). rewrite Em. split; [|split; [discriminate|split]].
    + cbn [wire_args]. change (wire_arg (PStr "[")) with (Some [AOpen]).
      rewrite (wire_args_app _ [PStr "]"] wi [AClose] Wi eq_refl). reflexivity.
    + intros r. cbn [app eat]. rewrite <- app_assoc, Ti. reflexivity.
    + cbn [forallb not_msg]. rewrite forallb_app, Ni. reflexivity.
  - destruct (sval_tok s v Hi Ev) as [A B]. exists [wtok (aci s v)]. rewrite Es. cbn [wire_args].
    rewrite (wire_tok _ A). split; [reflexivity | split; [discriminate | split]].
    + intros r. apply B.
    + cbn [forallb]. rewrite tok_not_msg. reflexivity.
Qed.

(* ------------------------------------------------------------------------------------ *)
(* control name / index                                                                 *)

Definition ctl_ok (c : pval) : bool := match c with PInt _ => true | PStr x => plain x | _ => false end.

Lemma ctl_ok_spec : forall db s c, ctl_ok c = true -> embed db s c = [c] /\ aci s c = c /\ w_ctl c = true.
Proof. intros db s c H. destruct c; try discriminate H; repeat split; try reflexivity. unfold w_ctl. simpl in *. rewrite H. reflexivity. Qed.

(* ---- set / Synth args: name value name value ..., a dict stands for its pairs ---- *)

Fixpoint set_ok (n : nat) (args : list pval) : bool :=
  match args with
  | [] => true
  | PDict ps :: t => forallb (fun kv => ctl_ok (fst kv) && val_ok n (snd kv)) ps && set_ok n t
  | c :: v :: t => ctl_ok c && val_ok n v && set_ok n t
  | _ => false
  end.

Lemma pair_group : forall s n c v, inv_objs s = true -> ctl_ok c = true -> val_ok n v = true ->
  exists ws, wire_args (embed false s c ++ embed false s v) = Some ws /\ ws <> [] /\
             (forall r, eat_seq [TCtl; TVal] (ws ++ r) = Some ([], r)) /\ forallb not_msg ws = true.
Proof.
  intros s n c v Hi Hc Hv. destruct (ctl_ok_spec false s c Hc) as [Ec [_ Wc]].
  destruct (embed_value false s n v Hi Hv) as [wv [W [_ [E N]]]].
  exists (wtok c :: wv). rewrite Ec. cbn [app wire_args]. rewrite (wire_tok c (ctl_is_tok c Wc)), W.
  split; [reflexivity | split; [discriminate | split]].
  - intros r. cbn [app eat_seq]. rewrite (eat_ctl_tok c _ Wc), E. reflexivity.
  - cbn [forallb]. rewrite tok_not_msg, N. reflexivity.
Qed.

Lemma dict_groups : forall s n ps, inv_objs s = true ->
  forallb (fun kv => ctl_ok (fst kv) && val_ok n (snd kv)) ps = true ->
  exists ws, wire_args (flat_map (fun kv => embed false s (fst kv) ++ embed false s (snd kv)) ps) = Some ws /\
             Groups [TCtl; TVal] ws [] /\ forallb not_msg ws = true.
Proof.
  intros s n ps Hi. induction ps as [|[k v] t IH]; intros H.
  - exists []. repeat split. constructor.
  - cbn [forallb fst snd] in H. apply andb_true_iff in H. destruct H as [Hkv Ht].
    apply andb_true_iff in Hkv. destruct Hkv as [Hk Hv].
    destruct (IH Ht) as [wt [W [G N]]]. destruct (pair_group s n k v Hi Hk Hv) as [wp [Wp [Np [Ep Mp]]]].
    exists (wp ++ wt). cbn [flat_map fst snd]. split; [apply wire_args_app; assumption | split].
    + change (@nil (idk * Z)) with (@nil (idk * Z) ++ []). constructor; assumption.
    + rewrite forallb_app, Mp, N. reflexivity.
Qed.

Lemma set_groups : forall s n, inv_objs s = true ->
  forall k args, (List.length args <= k)%nat -> set_ok n args = true ->
  exists ws, wire_args (flat_map (embed false s) args) = Some ws /\
             Groups [TCtl; TVal] ws [] /\ forallb not_msg ws = true.
Proof.
  intros s n Hi. induction k as [|k IH]; intros args Hl H.
  - destruct args; [|simpl in Hl; lia]. exists []. repeat split. constructor.
  - destruct args as [|a t]; [exists []; repeat split; constructor|].
    assert (C : (exists ps, a = PDict ps /\ forallb (fun kv => ctl_ok (fst kv) && val_ok n (snd kv)) ps = true /\ set_ok n t = true)
                \/ (exists v t', t = v :: t' /\ ctl_ok a = true /\ val_ok n v = true /\ set_ok n t' = true)).
    { destruct a; cbn [set_ok] in H;
        try (destruct t as [|v t']; [discriminate H|]; right; exists v, t';
             apply andb_true_iff in H; destruct H as [H H3]; apply andb_true_iff in H; destruct H as [H1 H2]; auto).
      left. exists l. apply andb_true_iff in H. destruct H as [H1 H2]. auto. }
    destruct C as [[ps [Ea [Hps Ht]]]|[v [t' [Et [Hc [Hv Ht']]]]]].
    + subst a. destruct (dict_groups s n ps Hi Hps) as [wd [Wd [Gd Nd]]].
      destruct (IH t ltac:(simpl in Hl; lia) Ht) as [wt [Wt [Gt Nt]]].
      exists (wd ++ wt). cbn [flat_map]. rewrite embed_dict. split; [apply wire_args_app; assumption | split].
      * change (@nil (idk * Z)) with (@nil (idk * Z) ++ []). apply groups_app; assumption.
      * rewrite forallb_app, Nd, Nt. reflexivity.
    + subst t. destruct (pair_group s n a v Hi Hc Hv) as [wp [Wp [Np [Ep Mp]]]].
      destruct (IH t' ltac:(simpl in Hl; lia) Ht') as [wt [Wt [Gt Nt]]].
      exists (wp ++ wt). cbn [flat_map]. rewrite app_assoc. split; [apply wire_args_app; assumption | split].
      * change (@nil (idk * Z)) with (@nil (idk * Z) ++ []). constructor; assumption.
      * rewrite forallb_app, Mp, Nt. reflexivity.
Qed.

(* the args of a Synth constructor: None, a list / tuple as above, or a dict of scalars *)
Definition sargs_ok (n : nat) (args : pval) : bool :=
  match args with
  | PNone => true
  | PList l => set_ok n l
  | PTuple l => set_ok n l
  | PDict ps => forallb (fun kv => ctl_ok (fst kv) && sval (snd kv)) ps
  | _ => false
  end.

Lemma dict_aci_groups : forall s ps, inv_objs s = true ->
  forallb (fun kv => ctl_ok (fst kv) && sval (snd kv)) ps = true ->
  exists ws, wire_args (flat_map (fun kv => [aci s (fst kv); aci s (snd kv)]) ps) = Some ws /\
             Groups [TCtl; TVal] ws [] /\ forallb not_msg ws = true.
Proof.
  intros s ps Hi. induction ps as [|[k v] t IH]; intros H.
  - exists []. repeat split. constructor.
  - cbn [forallb fst snd] in H. apply andb_true_iff in H. destruct H as [Hkv Ht].
    apply andb_true_iff in Hkv. destruct Hkv as [Hk Hv].
    destruct (IH Ht) as [wt [W [G N]]].
    destruct (ctl_ok_spec false s k Hk) as [_ [Ak Wk]]. destruct (sval_tok s v Hi Hv) as [Tv Ev].
    exists ([wtok k; wtok (aci s v)] ++ wt). cbn [flat_map fst snd]. rewrite Ak. split; [|split].
    + apply wire_args_app; [|exact W]. cbn [wire_args]. rewrite (wire_tok k (ctl_is_tok k Wk)), (wire_tok _ Tv). reflexivity.
    + change (@nil (idk * Z)) with (@nil (idk * Z) ++ []). constructor; [discriminate | | exact G].
      intros r. cbn [app eat_seq]. rewrite (eat_ctl_tok k _ Wk), Ev. reflexivity.
    + cbn [app forallb]. rewrite !tok_not_msg, N. reflexivity.
Qed.

Lemma sargs_groups : forall s n args, inv_objs s = true -> sargs_ok n args = true ->
  exists ws, wire_args (oal false s (args_or_empty args)) = Some ws /\
             Groups [TCtl; TVal] ws [] /\ forallb not_msg ws = true.
Proof.
  intros s n args Hi H. destruct args; try discriminate H.
  - exists []. repeat split. constructor.
  - cbn [sargs_ok] in H. destruct l as [|x t].
    + exists []. repeat split. constructor.
    + cbn [args_or_empty oal]. exact (set_groups s n Hi _ (x :: t) (le_n _) H).
  - cbn [sargs_ok] in H. destruct l as [|x t].
    + exists []. repeat split. constructor.
    + cbn [args_or_empty oal]. exact (set_groups s n Hi _ (x :: t) (le_n _) H).
  - cbn [sargs_ok] in H. destruct l as [|x t].
    + exists []. repeat split. constructor.
    + cbn [args_or_empty]. unfold oal. rewrite aci_dict. exact (dict_aci_groups s (x :: t) Hi H).
Qed.

(* ------------------------------------------------------------------------------------ *)
(* groups of plain tokens: fill, b_set, b_fill, b_gen                                   *)

Definition tokty (t : ty) (p : pval) : bool :=
  match t with
  | TInt => w_int p | TNum => w_num p | TCtl => w_ctl p | TNumStr => w_numstr p
  | _ => false
  end.

Lemma eat_tokty : forall t p r, tokty t p = true -> eat t (wtok p :: r) = Some ([], r) /\ w_tok p = true.
Proof.
  intros t p r H. destruct t; try discriminate H; cbn [tokty] in H.
  - split; [apply eat_int_tok | apply int_is_tok]; exact H.
  - split; [apply eat_num_tok | apply num_is_tok]; exact H.
  - split; [apply eat_ctl_tok | apply ctl_is_tok]; exact H.
  - split; [apply eat_numstr_tok | exact H]; exact H.
Qed.

Fixpoint chunk_ok (g : list ty) (l : list pval) : option (list pval * list pval) :=
  match g with
  | [] => Some ([], l)
  | t :: g' =>
    match l with
    | p :: l' => if tokty t p then match chunk_ok g' l' with Some (c, r) => Some (p :: c, r) | None => None end else None
    | [] => None
    end
  end.

Fixpoint chunks_ok (fuel : nat) (g : list ty) (l : list pval) : bool :=
  match l with
  | [] => true
  | _ => match fuel with
         | O => false
         | S f => match chunk_ok g l with Some (_, r) => chunks_ok f g r | None => false end
         end
  end.

Lemma chunk_spec : forall g l c r, chunk_ok g l = Some (c, r) ->
  l = c ++ r /\ List.length c = List.length g /\ forallb w_tok c = true /\
  (forall r', eat_seq g (map wtok c ++ r') = Some ([], r')).
Proof.
  induction g as [|t g IH]; intros l c r H; cbn [chunk_ok] in H.
  - inversion H; subst. repeat split.
  - destruct l as [|p l']; [discriminate|]. destruct (tokty t p) eqn:T; [|discriminate].
    destruct (chunk_ok g l') as [[c' r0]|] eqn:E; [|discriminate]. inversion H; subst.
    destruct (IH _ _ _ E) as [A [B [C D]]]. subst l'. repeat split.
    + simpl. rewrite B. reflexivity.
    + cbn [forallb]. rewrite C. destruct (eat_tokty t p [] T) as [_ W]. rewrite W. reflexivity.
    + intros r'. cbn [map app eat_seq]. destruct (eat_tokty t p (map wtok c' ++ r') T) as [Ee _]. rewrite Ee, D. reflexivity.
Qed.

Lemma chunks_groups : forall g, g <> [] -> forall fuel l, chunks_ok fuel g l = true ->
  wire_args l = Some (map wtok l) /\ Groups g (map wtok l) [] /\ forallb w_tok l = true.
Proof.
  intros g Hg. induction fuel as [|f IH]; intros l H.
  - destruct l; [|discriminate H]. repeat split. constructor.
  - destruct l as [|p t]; [repeat split; constructor|].
    cbn [chunks_ok] in H. destruct (chunk_ok g (p :: t)) as [[c r]|] eqn:E; [|discriminate].
    destruct (chunk_spec _ _ _ _ E) as [A [B [C D]]]. destruct (IH r H) as [Wr [Gr Tr]].
    assert (T : forallb w_tok (p :: t) = true) by (rewrite A, forallb_app, C, Tr; reflexivity).
    split; [apply wire_toks; exact T | split; [|exact T]].
    rewrite A, map_app. change (@nil (idk * Z)) with (@nil (idk * Z) ++ []). constructor; [| exact D | exact Gr].
    destruct c; [destruct g; [contradiction Hg; reflexivity | discriminate B] | discriminate].
Qed.

(* ------------------------------------------------------------------------------------ *)
(* setn loops: control N value*N                                                        *)

Fixpoint setn_ok (key : pval -> bool) (l : list pval) : bool :=
  match l with
  | [] => true
  | c :: v :: t => key c && (match v with PList vs => forallb w_num vs | _ => w_num v end) && setn_ok key t
  | _ => false
  end.

Definition as_vals (v : pval) : list pval := match v with PList vs => vs | _ => [v] end.

Lemma plen_tok : forall vs, wtok (plen vs) = AInt (Z.of_nat (List.length (map wtok vs))).
Proof. intros vs. unfold plen. rewrite map_length. reflexivity. Qed.

Lemma nums_toks : forall vs, forallb w_num vs = true -> forallb w_tok vs = true.
Proof.
  induction vs as [|v t IH]; intros H; [reflexivity|]. cbn [forallb] in *. apply andb_true_iff in H.
  destruct H as [A B]. rewrite (num_is_tok v A), (IH B). reflexivity.
Qed.

Lemma nums_eat : forall vs, forallb w_num vs = true ->
  forall x r', In x (map wtok vs) -> eat TNum (x :: r') = Some ([], r').
Proof.
  intros vs H x r' Hx. apply in_map_iff in Hx. destruct Hx as [p [E Hp]]. subst x.
  apply eat_num_tok. rewrite forallb_forall in H. apply H. exact Hp.
Qed.

Lemma setn_groups : forall (K : ty) (key : pval -> bool),
  (forall c r, key c = true -> eat K (wtok c :: r) = Some ([], r) /\ w_tok c = true) ->
  forall k l, (List.length l <= k)%nat -> setn_ok key l = true ->
  exists ws, wire_args (setn_items l) = Some ws /\ CGroups K TNum ws [] /\ forallb not_msg ws = true /\
             (l <> [] -> ws <> []).
Proof.
  intros K key HK. induction k as [|k IH]; intros l Hl H.
  - destruct l; [|simpl in Hl; lia]. exists []. repeat split; [constructor | intros C; contradiction C; reflexivity].
  - destruct l as [|c [|v t]]; try discriminate H.
    + exists []. repeat split; [constructor | intros C; contradiction C; reflexivity].
    + cbn [setn_ok] in H. apply andb_true_iff in H. destruct H as [H Ht]. apply andb_true_iff in H. destruct H as [Hc Hv].
      destruct (IH t ltac:(simpl in Hl; lia) Ht) as [wt [Wt [Gt [Nt _]]]].
      destruct (HK c [] Hc) as [_ Tc].
      assert (C : exists vs, forallb w_num vs = true /\
                  setn_items (c :: v :: t) = (c :: plen vs :: vs) ++ setn_items t).
      { exists (as_vals v). split.
        - destruct v; cbn [as_vals forallb]; rewrite ?andb_true_r; exact Hv.
        - unfold setn_items. cbn [clumps2 flat_map fst snd]. f_equal. destruct v; reflexivity. }
      destruct C as [vs [Hvs Ei]]. rewrite Ei.
      exists ((wtok c :: wtok (plen vs) :: map wtok vs) ++ wt). split; [|split; [|split]].
      * apply wire_args_app; [|exact Wt].
        change (wtok c :: wtok (plen vs) :: map wtok vs) with (map wtok (c :: plen vs :: vs)).
        apply wire_toks. cbn [forallb]. rewrite Tc, (nums_toks vs Hvs). reflexivity.
      * change (@nil (idk * Z)) with (@nil (idk * Z) ++ []). constructor; [discriminate | | exact Gt].
        intros r. rewrite plen_tok. cbn [app].
        apply counted_one; [intros r'; apply (HK c r' Hc) | apply nums_eat; exact Hvs].
      * rewrite forallb_app, Nt. change (wtok c :: wtok (plen vs) :: map wtok vs) with (map wtok (c :: plen vs :: vs)).
        rewrite toks_not_msg. reflexivity.
      * intros _. discriminate.
Qed.

(* ------------------------------------------------------------------------------------ *)
(* lists of ints                                                                        *)

Lemma wire_zs : forall l, wire_args (zs l) = Some (map AInt l).
Proof. induction l as [|z t IH]; [reflexivity|]. unfold zs in *. cbn [map wire_args wire_arg]. rewrite IH. reflexivity. Qed.

Lemma flat_num : forall v, w_num v = true -> flat v = [v].
Proof. intros v H. destruct v; try discriminate H; reflexivity. Qed.
