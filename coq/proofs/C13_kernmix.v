(* C13 -- Pwrap / .wrap() / .fold() with ANY int/float mix of element and bounds stay within the bounds
   (the kernels are the regenerated definitions; the all-float case is C15's). *)
Require Import SC3.proofs.NumTac SC3.gen.Gen_builtins SC3.proofs.C15_kernels.
Open Scope Q_scope.

Ltac zq := unfold Z.sub in *; repeat (rewrite ?inject_Z_mult, ?inject_Z_plus, ?inject_Z_opp in * ).
Ltac mixleaf := cbn [toQ is_ok] in *; zq; floor_facts; zq; try (split; [split|]); try reflexivity; try lra; try nra.

Lemma wrap_mixed_range a b c : is_ok a = true -> is_ok b = true -> is_ok c = true ->
  andb (is_int a) (andb (is_int b) (is_int c)) = false -> toQ b < toQ c ->
  (toQ b <= toQ (py_wrap a b c) /\ toQ (py_wrap a b c) < toQ c) /\ is_ok (py_wrap a b c) = true.
Proof.
  destruct a as [x|x|], b as [lo|lo|], c as [hi|hi|]; cbn [is_ok is_int andb]; intros Ha Hb Hc Hm H;
    try discriminate; unfold py_wrap, py_floor; nunf; cbn [toQ] in H; qb; zq; try lra; mixleaf.
Qed.

Lemma fold_mixed_range a b c : is_ok a = true -> is_ok b = true -> is_ok c = true ->
  andb (is_int a) (andb (is_int b) (is_int c)) = false -> toQ b < toQ c ->
  (toQ b <= toQ (py_fold a b c) /\ toQ (py_fold a b c) <= toQ c) /\ is_ok (py_fold a b c) = true.
Proof.
  destruct a as [x|x|], b as [lo|lo|], c as [hi|hi|]; cbn [is_ok is_int andb]; intros Ha Hb Hc Hm H;
    try discriminate; unfold py_fold, py_floor; nunf; cbn [toQ] in H; qb; zq; try lra; mixleaf.
Qed.
