(* C09 -- the order on (prio, count) keys, sorting, uniqueness of the sorted arrangement. *)
From Coq Require Import QArith ZArith List Bool Arith Permutation Sorting Lia Lqa.
Import ListNotations.
Require Import SC3.model.TaskQ.
Local Open Scope nat_scope.

(* strict lexicographic order on keys, prio first (rational equality), then count *)
Definition klt (a b : key) : Prop :=
  (fst a < fst b)%Q \/ ((fst a == fst b)%Q /\ snd a < snd b).

Lemma key_ltb_spec : forall a b, key_ltb a b = true <-> klt a b.
Proof.
  intros a b. unfold key_ltb, klt.
  destruct (Qeq_bool (fst a) (fst b)) eqn:E.
  - apply Qeq_bool_iff in E. rewrite Nat.ltb_lt. split.
    + intro H. right. split; assumption.
    + intros [H | [_ H]]; [lra | assumption].
  - assert (N : ~ (fst a == fst b)%Q).
    { intro H. apply Qeq_bool_iff in H. congruence. }
    rewrite Qle_bool_iff. split.
    + intro H. left. apply Qle_lteq in H. destruct H as [H | H]; [assumption | contradiction].
    + intros [H | [H _]]; [lra | contradiction].
Qed.

Lemma key_ltb_false : forall a b, key_ltb a b = false <-> ~ klt a b.
Proof.
  intros a b. rewrite <- key_ltb_spec. destruct (key_ltb a b); split; intro H; congruence.
Qed.

Lemma klt_asym : forall a b, klt a b -> ~ klt b a.
Proof. unfold klt. intros a b [H | [H1 H2]] [K | [K1 K2]]; try lra; lia. Qed.

Lemma klt_irrefl : forall a, ~ klt a a.
Proof. intros a H. exact (klt_asym a a H H). Qed.

Lemma klt_negtrans : forall a b c, klt a c -> klt a b \/ klt b c.
Proof.
  unfold klt. intros a b c H.
  destruct (Q_dec (fst a) (fst b)) as [[Hab | Hba] | Heq].
  - left. left. assumption.
  - right. left. destruct H as [H | [H _]]; lra.
  - destruct (lt_dec (snd a) (snd b)) as [L | L].
    + left. right. split; assumption.
    + right. destruct H as [H | [H1 H2]].
      * left. lra.
      * right. split; [lra | lia].
Qed.

Lemma klt_trans : forall a b c, klt a b -> klt b c -> klt a c.
Proof.
  intros a b c Hab Hbc. destruct (klt_negtrans b a c Hbc) as [H | H]; [| assumption].
  exfalso. exact (klt_asym a b Hab H).
Qed.

Lemma klt_total : forall a b, snd a <> snd b -> klt a b \/ klt b a.
Proof.
  unfold klt. intros a b N.
  destruct (Q_dec (fst a) (fst b)) as [[Hab | Hba] | Heq].
  - left. left. assumption.
  - right. left. assumption.
  - destruct (lt_dec (snd a) (snd b)).
    + left. right. split; assumption.
    + right. right. split; [lra | lia].
Qed.

Lemma kle_antisym_count : forall a b, ~ klt a b -> ~ klt b a -> snd a = snd b.
Proof.
  intros a b H1 H2. destruct (Nat.eq_dec (snd a) (snd b)) as [E | N]; [assumption |].
  destruct (klt_total a b N); contradiction.
Qed.

Lemma kle_trans : forall a b c, ~ klt b a -> ~ klt c b -> ~ klt c a.
Proof.
  intros a b c H1 H2 H. destruct (klt_negtrans c b a H); contradiction.
Qed.

Lemma klt_prio_le : forall a b, ~ klt b a -> (fst a <= fst b)%Q.
Proof.
  unfold klt. intros a b H. destruct (Qlt_le_dec (fst b) (fst a)) as [L | L]; [| assumption].
  exfalso. apply H. left. assumption.
Qed.

(* ---- sortedness ---------------------------------------------------------- *)
Section Sorting.
  Variable A : Type.
  Variable k : A -> key.

  Definition kle (x y : A) : Prop := ~ klt (k y) (k x).
  Definition sorted (l : list A) : Prop := StronglySorted kle l.

  Lemma insert_by_perm : forall x l, Permutation (insert_by k x l) (x :: l).
  Proof.
    intros x l. induction l as [| y r IH]; simpl.
    - apply Permutation_refl.
    - destruct (key_ltb (k y) (k x)).
      + apply perm_trans with (y :: x :: r).
        * apply perm_skip. exact IH.
        * apply perm_swap.
      + apply Permutation_refl.
  Qed.

  Lemma insert_by_sorted : forall x l, sorted l -> sorted (insert_by k x l).
  Proof.
    intros x l. induction l as [| y r IH]; intro S; simpl.
    - constructor; constructor.
    - inversion S as [| y' r' Sr Fr]; subst.
      destruct (key_ltb (k y) (k x)) eqn:E.
      + apply key_ltb_spec in E. constructor.
        * apply IH. exact Sr.
        * apply (@Permutation_Forall _ _ (x :: r)).
          { apply Permutation_sym. apply insert_by_perm. }
          constructor; [| exact Fr]. unfold kle. apply klt_asym. exact E.
      + apply key_ltb_false in E. constructor.
        * exact S.
        * constructor.
          { exact E. }
          { rewrite Forall_forall in *. intros z Hz. unfold kle.
            apply (kle_trans (k x) (k y) (k z)); [exact E | apply Fr; exact Hz]. }
  Qed.

  Lemma sort_by_perm : forall l, Permutation (sort_by k l) l.
  Proof.
    induction l as [| x r IH]; simpl.
    - constructor.
    - apply perm_trans with (x :: sort_by k r).
      + apply insert_by_perm.
      + apply perm_skip. exact IH.
  Qed.

  Lemma sort_by_sorted : forall l, sorted (sort_by k l).
  Proof.
    induction l as [| x r IH]; simpl.
    - constructor.
    - apply insert_by_sorted. exact IH.
  Qed.

  Lemma sorted_filter : forall f l, sorted l -> sorted (filter f l).
  Proof.
    intros f l. induction l as [| x r IH]; intro S; simpl.
    - constructor.
    - inversion S as [| x' r' Sr Fr]; subst. destruct (f x).
      + constructor; [apply IH; exact Sr |].
        rewrite Forall_forall in *. intros z Hz. apply Fr.
        apply filter_In in Hz. tauto.
      + apply IH. exact Sr.
  Qed.

  Lemma sorted_tail : forall x l, sorted (x :: l) -> sorted l.
  Proof. intros x l S. inversion S; assumption. Qed.

  Lemma sorted_head_le : forall x l y, sorted (x :: l) -> In y l -> kle x y.
  Proof.
    intros x l y S Hy. inversion S as [| x' r' Sr Fr]; subst.
    rewrite Forall_forall in Fr. apply Fr. exact Hy.
  Qed.

  Lemma nodup_map_inj : forall (B : Type) (f : A -> B) l x y,
    NoDup (map f l) -> In x l -> In y l -> f x = f y -> x = y.
  Proof.
    intros B f l. induction l as [| a r IH]; intros x y N Hx Hy E; simpl in *.
    - contradiction.
    - inversion N as [| a' r' Na Nr]; subst.
      destruct Hx as [Hx | Hx]; destruct Hy as [Hy | Hy]; subst.
      + reflexivity.
      + exfalso. apply Na. rewrite E. apply in_map. exact Hy.
      + exfalso. apply Na. rewrite <- E. apply in_map. exact Hx.
      + apply IH; assumption.
  Qed.

  (* Two sorted arrangements of the same bag coincide when counts are distinct. *)
  Lemma sorted_unique : forall l1 l2,
    sorted l1 -> sorted l2 -> Permutation l1 l2 ->
    NoDup (map (fun x => snd (k x)) l1) -> l1 = l2.
  Proof.
    induction l1 as [| a r IH]; intros l2 S1 S2 P N.
    - apply Permutation_nil in P. subst. reflexivity.
    - destruct l2 as [| b r2].
      + apply Permutation_sym, Permutation_nil in P. discriminate.
      + assert (Eab : a = b).
        { assert (Ha : In a (b :: r2)) by (apply (Permutation_in _ P); left; reflexivity).
          assert (Hb : In b (a :: r))
            by (apply (Permutation_in _ (Permutation_sym P)); left; reflexivity).
          destruct Ha as [Ha | Ha]; [symmetry; exact Ha |].
          destruct Hb as [Hb | Hb]; [exact Hb |].
          assert (L1 : kle b a) by (apply (sorted_head_le b r2 a S2 Ha)).
          assert (L2 : kle a b) by (apply (sorted_head_le a r b S1 Hb)).
          apply (nodup_map_inj _ (fun x => snd (k x)) (a :: r)).
          - exact N.
          - left; reflexivity.
          - right; exact Hb.
          - simpl. apply kle_antisym_count; [exact L1 | exact L2]. }
        subst b. f_equal. apply IH.
        * apply (sorted_tail a). exact S1.
        * apply (sorted_tail a). exact S2.
        * apply (Permutation_cons_inv P).
        * simpl in N. inversion N; assumption.
  Qed.

  (* the head of a sorted list is a minimum, its last element a maximum *)
  Lemma sorted_last_ge : forall l x y, sorted l -> last_opt l = Some x -> In y l -> y = x \/ kle y x.
  Proof.
    induction l as [| a r IH]; intros x y S L Hy.
    - discriminate.
    - destruct r as [| b r'].
      + simpl in L. inversion L; subst. destruct Hy as [Hy | []]. left. symmetry. exact Hy.
      + assert (L' : last_opt (b :: r') = Some x) by exact L.
        assert (Hx : In x (b :: r')).
        { clear - L'. revert L'. generalize (b :: r') as l. induction l as [| c l IHl]; intro L.
          - discriminate.
          - destruct l as [| d l'].
            + simpl in L. inversion L. left. reflexivity.
            + right. apply IHl. exact L. }
        destruct Hy as [Hy | Hy].
        * subst y. right. apply (sorted_head_le a (b :: r') x S Hx).
        * apply IH; [apply (sorted_tail a); exact S | exact L' | exact Hy].
  Qed.
End Sorting.

Arguments kle {A} k x y.
Arguments sorted {A} k l.
