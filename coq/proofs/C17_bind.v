(* C17 -- Server.bind() / BundleNetAddr: collect, flush on normal exit, drop on exception. *)
From Coq Require Import ZArith QArith List String Bool Lia.
Import ListNotations.
Require Import SC3.model.ProtoGrammar SC3.model.Proto.
Open Scope Z_scope.
Open Scope list_scope.

Definition nonbind (o : op) : bool :=
  match o with OBindEnter | OBindExit | OBindRaise _ | OSync _ => false | _ => true end.

(* ---- the object-level part of an op never touches the bind stack ---- *)

Lemma stack_add_node : forall s n, stack (add_node s n) = stack s. Proof. reflexivity. Qed.
Lemma stack_add_buf : forall s n, stack (add_buf s n) = stack s. Proof. reflexivity. Qed.
Lemma stack_add_bus : forall s n, stack (add_bus s n) = stack s. Proof. reflexivity. Qed.
Lemma stack_set_bblocks : forall s n, stack (set_bblocks s n) = stack s. Proof. reflexivity. Qed.
Lemma stack_set_cblocks : forall s n, stack (set_cblocks s n) = stack s. Proof. reflexivity. Qed.
Lemma stack_set_ablocks : forall s n, stack (set_ablocks s n) = stack s. Proof. reflexivity. Qed.
Lemma stack_set_buf : forall s i b, stack (set_buf s i b) = stack s. Proof. reflexivity. Qed.
Lemma stack_set_bus : forall s i b, stack (set_bus s i b) = stack s. Proof. reflexivity. Qed.

Lemma stack_fold_add_buf : forall (f : Z -> option bufobj) l s,
  stack (fold_left (fun acc i => add_buf acc (f i)) l s) = stack s.
Proof. induction l as [|x l IH]; intros s; simpl; [reflexivity|]. rewrite IH. reflexivity. Qed.

Ltac brk :=
  repeat match goal with
         | |- context [match ?x with _ => _ end] => destruct x
         | |- context [if ?x then _ else _] => destruct x
         end.

Lemma alloc_bufnum_stack : forall s b a n z s0, alloc_bufnum s b a n = Some (z, s0) -> stack s0 = stack s.
Proof.
  intros s b a n z s0 H. unfold alloc_bufnum in H.
  destruct b; [inversion H; subst; reflexivity|].
  destruct a; [inversion H; subst; reflexivity | discriminate].
Qed.

Lemma obj_step_stack : forall V s o s1 sends e,
  obj_step V s o = (s1, sends, e) -> stack s1 = stack s.
Proof.
  intros V s o s1 sends e H.
  unfold obj_step in H; destruct (maps_ok s o); [|unfold fail in H; inversion H; reflexivity];
  destruct o; unfold obj_step_core, ok, fail in H;
    repeat match type of H with
           | context [match ?x with _ => _ end] => destruct x eqn:?
           | context [if ?x then _ else _] => destruct x eqn:?
           end;
    inversion H; subst; clear H;
    repeat first [rewrite stack_add_node | rewrite stack_add_buf | rewrite stack_add_bus
                 | rewrite stack_set_bblocks | rewrite stack_set_cblocks | rewrite stack_set_ablocks
                 | rewrite stack_set_buf | rewrite stack_set_bus | rewrite stack_fold_add_buf];
    try reflexivity;
    match goal with
    | A : alloc_bufnum _ _ _ _ = Some (_, _) |- _ => exact (alloc_bufnum_stack _ _ _ _ _ _ A)
    end.
Qed.

(* ---- routing while a block is open ---- *)

Lemma route_inside : forall sends top rest,
  route (top :: rest) sends = ((top ++ flat_map send_msgs sends) :: rest, [], None).
Proof.
  induction sends as [|x t IH]; intros top rest; simpl.
  - rewrite app_nil_r. reflexivity.
  - rewrite IH. rewrite <- app_assoc. reflexivity.
Qed.

(* the sends an op hands to server.addr, and the state after it *)
Definition issued1 (V : variant) (s : st) (o : op) : list pmsg :=
  let '(_, sends, _) := obj_step V s o in flat_map send_msgs sends.
Definition after1 (V : variant) (s : st) (o : op) : st :=
  let '(s1, _, _) := obj_step V s o in s1.

Lemma step_inside : forall V s o top rest,
  stack s = top :: rest -> nonbind o = true ->
  exists e, step V s o = (set_stack (after1 V s o) ((top ++ issued1 V s o) :: rest), [], e).
Proof.
  intros V s o top rest Hs Hn.
  unfold issued1, after1.
  destruct (obj_step V s o) as [[s1 sends] e] eqn:E.
  pose proof (obj_step_stack _ _ _ _ _ _ E) as Hk.
  assert (Hstep : step V s o =
                  (let '(stk, evs, e2) := route (stack s1) sends in
                   (set_stack s1 stk, evs, match e with Some _ => e | None => e2 end))).
  { destruct o; try discriminate Hn; unfold step; rewrite E; reflexivity. }
  rewrite Hstep, Hk, Hs, route_inside.
  eexists. reflexivity.
Qed.

(* everything the ops of a block hand to server.addr, in issue order (each op in the state in which it runs) *)
Definition state_after (V : variant) (s : st) (o : op) : st := fst (fst (step V s o)).
Fixpoint issued (V : variant) (s : st) (body : list op) : list pmsg :=
  match body with
  | [] => []
  | o :: t => issued1 V s o ++ issued V (state_after V s o) t
  end.

Definition silent (r : list (list wev * option err)) : Prop := Forall (fun x => fst x = []) r.

Lemma run_cons : forall V s o t,
  run V s (o :: t) =
  (let '(s1, evs, e) := step V s o in let '(r, s2) := run V s1 t in ((evs, e) :: r, s2)).
Proof. reflexivity. Qed.

(* run of the ops of an open block: nothing reaches the wire, the collector grows by what was issued *)
Lemma run_inside : forall V body s top rest,
  stack s = top :: rest -> forallb nonbind body = true ->
  silent (fst (run V s body)) /\ stack (snd (run V s body)) = (top ++ issued V s body) :: rest.
Proof.
  intros V body. induction body as [|o t IH]; intros s top rest Hs Hb.
  - simpl. split; [constructor|]. rewrite app_nil_r. exact Hs.
  - simpl in Hb. apply andb_true_iff in Hb. destruct Hb as [Ho Ht].
    destruct (step_inside V s o top rest Hs Ho) as [e He].
    rewrite run_cons. simpl issued. unfold state_after. rewrite He. simpl fst.
    specialize (IH (set_stack (after1 V s o) ((top ++ issued1 V s o) :: rest)) (top ++ issued1 V s o) rest
                   (eq_refl _) Ht).
    destruct (run V (set_stack (after1 V s o) ((top ++ issued1 V s o) :: rest)) t) as [r s2] eqn:R.
    simpl in *. destruct IH as [IH1 IH2]. split.
    + constructor; [reflexivity | exact IH1].
    + rewrite IH2. rewrite <- app_assoc. reflexivity.
Qed.

Lemma run_app : forall V a b s,
  run V s (a ++ b) =
  (let '(r1, s1) := run V s a in let '(r2, s2) := run V s1 b in (r1 ++ r2, s2)).
Proof.
  intros V a. induction a as [|o t IH]; intros b s.
  - simpl. destruct (run V s b). reflexivity.
  - simpl. destruct (step V s o) as [[s1 evs] e]. rewrite IH.
    destruct (run V s1 t) as [r1 s2]. destruct (run V s2 b) as [r2 s3]. reflexivity.
Qed.

Lemma run_length : forall V ops s, List.length (fst (run V s ops)) = List.length ops.
Proof.
  intros V ops. induction ops as [|o t IH]; intros s; [reflexivity|].
  rewrite run_cons. destruct (step V s o) as [[s1 evs] e]. specialize (IH s1).
  destruct (run V s1 t) as [r s2]. simpl in *. f_equal. exact IH.
Qed.

(* what the exit of an outermost block puts on the wire for the collected messages l *)
Definition flushed (l : list pmsg) : list wev :=
  match l with
  | [] => []
  | _ => match wire_msgs l with Some ws => [WBundle latency ws] | None => [] end
  end.

Lemma exit_outermost : forall V s top,
  stack s = [top] ->
  fst (fst (step V s OBindExit)) = set_stack s [] /\ snd (fst (step V s OBindExit)) = flushed top.
Proof.
  intros V s top Hs. unfold step. rewrite Hs. unfold flush, flushed.
  destruct top as [|m l]; simpl; [split; reflexivity|].
  destruct (wire_msg m); [|split; reflexivity].
  destruct (wire_msgs l); split; reflexivity.
Qed.

(* Commands issued inside a bind() block reach the wire as ONE bundle, in issue order, when the
   block exits -- and nothing before. *)
Lemma bind_one_bundle : forall V s body,
  stack s = [] -> forallb nonbind body = true ->
  let r := run V s (OBindEnter :: body ++ [OBindExit]) in
  exists rb ex,
    fst r = ([], None) :: rb ++ [ex] /\
    silent rb /\ List.length rb = List.length body /\
    fst ex = flushed (issued V (set_stack s [[]]) body) /\
    stack (snd r) = [].
Proof.
  intros V s body Hs Hb r. subst r.
  assert (HE : step V s OBindEnter = (set_stack s [[]], [], None)) by (unfold step; rewrite Hs; reflexivity).
  rewrite run_cons, HE, run_app.
  destruct (run_inside V body (set_stack s [[]]) [] [] (eq_refl _) Hb) as [Hsil Hstk].
  pose proof (run_length V body (set_stack s [[]])) as Hlen.
  destruct (run V (set_stack s [[]]) body) as [rb s1] eqn:R. simpl in Hsil, Hstk, Hlen.
  destruct (exit_outermost V s1 _ Hstk) as [H1 H2].
  rewrite run_cons.
  destruct (step V s1 OBindExit) as [[s2 evs] e] eqn:S. simpl in H1, H2. subst s2 evs.
  exists rb, (flushed (issued V (set_stack s [[]]) body), e).
  simpl. repeat split; auto.
Qed.

(* ---- blocks left by an exception ---- *)

(* relative nesting: d >= 1 open blocks, the ops never close the outermost of them *)
Fixpoint stays_inside (d : nat) (ops : list op) : bool :=
  match ops with
  | [] => true
  | OBindEnter :: t => stays_inside (S d) t
  | OBindExit :: t => (2 <=? d)%nat && stays_inside (d - 1) t
  | OBindRaise k :: t => (k <? d)%nat && stays_inside (d - k) t
  | OSync _ :: _ => false          (* a sync legitimately sends what was collected before it *)
  | _ :: t => stays_inside d t
  end.

Lemma drop_n_length : forall {A} k (l : list A), (k <= List.length l)%nat -> List.length (drop_n k l) = (List.length l - k)%nat.
Proof.
  induction k as [|k IH]; intros l H; simpl.
  - lia.
  - destruct l; simpl in *; [lia|]. apply IH. lia.
Qed.

Lemma step_deep : forall V s o d,
  List.length (stack s) = d -> (1 <= d)%nat -> stays_inside d [o] = true ->
  snd (fst (step V s o)) = [] /\
  exists d', List.length (stack (fst (fst (step V s o)))) = d' /\ (1 <= d')%nat /\
             forall t, stays_inside d (o :: t) = stays_inside d' t.
Proof.
  intros V s o d Hd H1 Hin.
  destruct (stack s) as [|top rest] eqn:Hs; [simpl in Hd; lia|].
  destruct (nonbind o) eqn:Hn.
  - destruct (step_inside V s o top rest Hs Hn) as [e He]. rewrite He. simpl. split; [reflexivity|].
    exists d. split; [simpl in Hd; simpl; lia|]. split; [lia|].
    intros t. destruct o; try discriminate Hn; reflexivity.
  - destruct o; try discriminate Hn.
    + (* enter *) unfold step. simpl. split; [reflexivity|]. exists (S d). rewrite Hs. simpl. simpl in Hd.
      split; [lia|]. split; [lia|]. reflexivity.
    + (* exit, d >= 2 *) cbn [stays_inside] in Hin. rewrite andb_true_r in Hin.
      assert (HT : forall t, stays_inside d (OBindExit :: t) = stays_inside (d - 1) t).
      { intros t. cbn [stays_inside]. rewrite Hin. reflexivity. }
      apply Nat.leb_le in Hin.
      unfold step. rewrite Hs. destruct rest as [|top2 rest2]; [simpl in Hd; lia|].
      unfold flush. destruct top as [|m l].
      * cbn [route fst snd set_stack stack]. split; [reflexivity|]. exists (d - 1)%nat.
        cbn [List.length] in Hd |- *. split; [lia|]. split; [lia|]. exact HT.
      * cbn [route send_msgs fst snd set_stack stack]. split; [reflexivity|]. exists (d - 1)%nat.
        cbn [List.length] in Hd |- *. split; [lia|]. split; [lia|]. exact HT.
    + (* raise k, k < d *) cbn [stays_inside] in Hin. rewrite andb_true_r in Hin.
      assert (HT : forall t, stays_inside d (OBindRaise k :: t) = stays_inside (d - k) t).
      { intros t. cbn [stays_inside]. rewrite Hin. reflexivity. }
      apply Nat.ltb_lt in Hin.
      unfold step. cbn [fst snd set_stack stack]. split; [reflexivity|]. exists (d - k)%nat.
      rewrite Hs. rewrite drop_n_length by (rewrite Hd; lia). rewrite Hd. split; [lia|]. split; [lia|]. exact HT.
    + discriminate Hin.
Qed.

Lemma stays_inside_cons : forall d o t, stays_inside d (o :: t) = true -> stays_inside d [o] = true.
Proof.
  intros d o t H. destruct o; simpl in *; try reflexivity.
  - apply andb_true_iff in H. destruct H as [H _]. rewrite H. reflexivity.
  - apply andb_true_iff in H. destruct H as [H _]. rewrite H. reflexivity.
  - discriminate H.
Qed.

Lemma run_deep : forall V ops s d,
  List.length (stack s) = d -> (1 <= d)%nat -> stays_inside d ops = true ->
  silent (fst (run V s ops)) /\ (1 <= List.length (stack (snd (run V s ops))))%nat.
Proof.
  intros V ops. induction ops as [|o t IH]; intros s d Hd H1 Hin.
  - simpl. split; [constructor | lia].
  - destruct (step_deep V s o d Hd H1 (stays_inside_cons _ _ _ Hin)) as [Hev [d' [Hd' [H1' Hrest]]]].
    rewrite run_cons. destruct (step V s o) as [[s1 evs] e]. simpl in Hev, Hd'. subst evs.
    rewrite Hrest in Hin. specialize (IH s1 d' Hd' H1' Hin).
    destruct (run V s1 t) as [r s2]. simpl in *. destruct IH as [IHa IHb]. split; [|exact IHb].
    constructor; [reflexivity | exact IHa].
Qed.

(* ... and not at all if the block raises: whatever happens inside (nested blocks that exit
   normally or raise included), an exception leaving k blocks, the outermost among them, sends nothing. *)
Lemma bind_raise_nothing : forall V s body k,
  stack s = [] -> stays_inside 1 body = true ->
  List.length (stack (snd (run V (set_stack s [[]]) body))) = k ->
  let r := run V s (OBindEnter :: body ++ [OBindRaise k]) in
  silent (fst r) /\ stack (snd r) = [].
Proof.
  intros V s body k Hs Hin Hk r. subst r.
  assert (HE : step V s OBindEnter = (set_stack s [[]], [], None)) by (unfold step; rewrite Hs; reflexivity).
  rewrite run_cons, HE, run_app.
  destruct (run_deep V body (set_stack s [[]]) 1%nat (eq_refl _) (le_n _) Hin) as [Hsil Hlen].
  destruct (run V (set_stack s [[]]) body) as [rb s1]. simpl in Hsil, Hlen, Hk.
  rewrite run_cons.
  assert (HR : step V s1 (OBindRaise k) = (set_stack s1 (drop_n k (stack s1)), [], None)) by reflexivity.
  rewrite HR. simpl. split.
  - constructor; [reflexivity|]. apply Forall_app. split; [exact Hsil|]. constructor; [reflexivity | constructor].
  - subst k. clear. induction (stack s1) as [|x l IH]; simpl; auto.
Qed.

(* ---- server.sync() inside a block: the block is sent in pieces, nothing is lost ---- *)

Lemma flush_outermost : forall top, exists e,
  route [] (flush top) = ([], flushed top, e) /\ (wire_msgs top <> None -> e = None).
Proof.
  intros top. unfold flush, flushed. destruct top as [|m l].
  - exists None. split; [reflexivity | auto].
  - cbn [route wire_msgs]. destruct (wire_msg m); [|eexists; split; [reflexivity | intros C; contradiction C; reflexivity]].
    destruct (wire_msgs l); [|eexists; split; [reflexivity | intros C; contradiction C; reflexivity]].
    exists None. split; [reflexivity | auto].
Qed.

Definition sync_event (id : Z) : wev := WBundle PNone [("/sync"%string, [AInt id])].

Lemma sync_outermost : forall top id, wire_msgs top <> None ->
  sync_stack [top] id = ([[]], flushed top ++ [sync_event id], None).
Proof.
  intros top id H. unfold sync_stack. cbn [List.length sync_fuel].
  destruct (flush_outermost top) as [e [E He]]. rewrite E. rewrite (He H). reflexivity.
Qed.

(* enter; b1; sync; b2; exit  (b1, b2 any non-bind ops): the commands of b1 go out as one bundle
   right before the '/sync', those of b2 as one bundle at the exit; each in issue order, none twice,
   none lost *)
Lemma bind_sync_pieces : forall V s b1 b2 id,
  stack s = [] -> forallb nonbind b1 = true -> forallb nonbind b2 = true ->
  let s1 := set_stack s [[]] in
  let s2 := set_stack (snd (run V s1 b1)) [[]] in
  wire_msgs (issued V s1 b1) <> None ->
  let r := run V s (OBindEnter :: b1 ++ OSync id :: b2 ++ [OBindExit]) in
  exists rb1 rb2 ex,
    fst r = ([], None) :: rb1 ++ (flushed (issued V s1 b1) ++ [sync_event id], None) :: rb2 ++ [ex] /\
    silent rb1 /\ silent rb2 /\ fst ex = flushed (issued V s2 b2) /\ stack (snd r) = [].
Proof.
  intros V s b1 b2 id Hs H1 H2 s1 s2 Hw r. subst r.
  assert (HE : step V s OBindEnter = (s1, [], None)) by (unfold step; rewrite Hs; reflexivity).
  rewrite run_cons, HE, run_app.
  destruct (run_inside V b1 s1 [] [] (eq_refl _) H1) as [Hsil1 Hstk1].
  subst s2. destruct (run V s1 b1) as [rb1 sa] eqn:R1. cbn [fst snd] in *.
  rewrite run_cons.
  assert (HS : step V sa (OSync id) = (set_stack sa [[]], flushed (issued V s1 b1) ++ [sync_event id], None)).
  { unfold step. rewrite Hstk1. cbn [app]. rewrite (sync_outermost _ id Hw). reflexivity. }
  rewrite HS. rewrite run_app.
  destruct (run_inside V b2 (set_stack sa [[]]) [] [] (eq_refl _) H2) as [Hsil2 Hstk2].
  destruct (run V (set_stack sa [[]]) b2) as [rb2 sb] eqn:R2. cbn [fst snd] in *.
  destruct (exit_outermost V sb _ Hstk2) as [X1 X2].
  rewrite run_cons. destruct (step V sb OBindExit) as [[sc evs] e] eqn:S. cbn [fst snd] in X1, X2. subst sc evs.
  exists rb1, rb2, (flushed (issued V (set_stack sa [[]]) b2), e).
  cbn [fst snd run]. repeat split; auto.
Qed.
