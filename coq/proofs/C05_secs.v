(* C05: the SECONDS a routine on a TempoClock observes -- "deltas converted through the clock's tempo".
   kth_resume_time_* (C05_exec) is a law on beats; on a TempoClock its sec_ok says nothing about seconds.
   Here: every resumption logs beats == secs2beats(seconds) under the clock's tempo map of that moment, and
   while the tempo of the clock is not changed (notempo i log) that map is the one of the final state; hence
   seconds_k == seconds_0 + (sum of the first k deltas) * beat_dur.   NRT and RT (every oracle). *)
From Coq Require Import ZArith QArith Qround List Bool Lia Lqa Permutation.
Require Import SC3.model.KProg SC3.model.KNrt SC3.model.KRt.
Require Import SC3.proofs.C05_frame SC3.proofs.C05_props SC3.proofs.C05_exec.
Import ListNotations.
Open Scope Q_scope.

Definition cvalid (st : nstate) : Prop := forall e, In e (n_q st) -> clock_ok (n_tcs st) (e_clock e) = true.
Definition tinv (st : nstate) : Prop :=
  forall rid k i s b, In (EvResume rid k (CTempo i) s b) (n_log st) -> notempo i (n_log st) ->
    exists t, nth_error (n_tcs st) i = Some t /\ b == tc_s2b t s.
Definition sinv2 (st : nstate) : Prop := cvalid st /\ tinv st.

(* what a segment may do, as far as these two invariants are concerned *)
Definition tframe (st st' : nstate) : Prop :=
  (forall ev, In ev (n_log st) -> In ev (n_log st')) /\
  (forall rid k c s b, In (EvResume rid k c s b) (n_log st') -> In (EvResume rid k c s b) (n_log st)) /\
  (forall i t, nth_error (n_tcs st) i = Some t ->
     nth_error (n_tcs st') i = Some t \/ exists o v, In (EvTempo o i v true) (n_log st')) /\
  (forall c, clock_ok (n_tcs st) c = true -> clock_ok (n_tcs st') c = true) /\
  (forall e', In e' (n_q st') -> (exists e, In e (n_q st) /\ e_clock e' = e_clock e) \/ clock_ok (n_tcs st') (e_clock e') = true).

Lemma tframe_refl st : tframe st st.
Proof. repeat split; auto. intros e' H. left. exists e'. auto. Qed.
Lemma tframe_trans a b c : tframe a b -> tframe b c -> tframe a c.
Proof.
  intros (A1 & A2 & A3 & A4 & A5) (B1 & B2 & B3 & B4 & B5). repeat split; auto.
  - intros i t H. destruct (A3 i t H) as [G|(o & v & G)]; [apply B3; exact G|]. right. exists o, v. apply B1. exact G.
  - intros e'' H. destruct (B5 e'' H) as [(e' & He' & Ec)|G]; auto.
    destruct (A5 e' He') as [(e & He & Ec')|G].
    + left. exists e. split; auto. congruence.
    + right. rewrite Ec. apply B4. exact G.
Qed.
Lemma tframe_sinv2 st st' : tframe st st' -> sinv2 st -> sinv2 st'.
Proof.
  intros (F1 & F2 & F3 & F4 & F5) [Hc Ht]. split.
  - intros e' H. destruct (F5 e' H) as [(e & He & Ec)|G]; auto. rewrite Ec. apply F4. apply Hc. exact He.
  - intros rid k i s b H Hn. apply F2 in H.
    assert (Hn0 : notempo i (n_log st)) by (intros o v G; apply (Hn o v); apply F1; exact G).
    destruct (Ht _ _ _ _ _ H Hn0) as (t & A & B). destruct (F3 i t A) as [G|(o & v & G)].
    + exists t. auto.
    + exfalso. exact (Hn o v G).
Qed.

(* a step that only adds one event that is neither a resumption nor a tempo change, queue and clocks kept *)
Lemma tframe_logonly st st' ev :
  n_log st' = ev :: n_log st -> n_tcs st' = n_tcs st -> n_q st' = n_q st ->
  (forall rid k c s b, ev <> EvResume rid k c s b) -> tframe st st'.
Proof.
  intros Hl Ht Hq Hev. unfold tframe. rewrite Hl, Ht, Hq. repeat split; auto.
  - intros; simpl; auto.
  - intros rid k c s b [H|H]; auto. exfalso. eapply Hev; eauto.
  - intros e' H. left. exists e'. auto.
Qed.

Lemma send_tframe rt st org T lat es : tframe st (fst (nrt_send rt st org T lat es)).
Proof.
  unfold nrt_send. destruct (stamp_bundle (send_mode rt org) T lat es).
  - destruct rt; simpl; (eapply tframe_logonly; [reflexivity|reflexivity|reflexivity|intros; discriminate]).
  - simpl. eapply tframe_logonly; [reflexivity|reflexivity|reflexivity|intros; discriminate].
Qed.
Lemma sendmsg_tframe rt st org T m : tframe st (fst (nrt_sendmsg rt st org T m)).
Proof.
  unfold nrt_sendmsg. destruct rt; [|apply send_tframe].
  simpl. eapply tframe_logonly; [reflexivity|reflexivity|reflexivity|intros; discriminate].
Qed.
Lemma play_tframe rt qk p st org T r c : tframe st (fst (nrt_play rt qk p st org T r c)).
Proof.
  unfold nrt_play. destruct (nth_error (p_bodies p) r); [|apply tframe_refl].
  destruct (clock_ok (n_tcs st) c && clock_ok_mode rt c) eqn:E; [|apply tframe_refl].
  apply andb_prop in E as [E _]. simpl. unfold nrt_sched_play.
  assert (G : forall t b, tframe st (push (add_log (set_routs st (n_routs st ++ [mkR r l c 0])) (EvPlay org (length (n_routs st)) c T)) t c (length (n_routs st)) b)).
  { intros t b. unfold tframe. simpl. repeat split; auto.
    - intros rid k c0 s b0 [H|H]; [discriminate|exact H].
    - intros e' H. apply kinsert_in in H. destruct H as [->|H]; [right; exact E|left; exists e'; auto]. }
  destruct rt; apply G.
Qed.
Lemma clock_ok_set tcs i t t' c : nth_error tcs i = Some t -> clock_ok tcs c = true -> clock_ok (set_nth tcs i t') c = true.
Proof.
  intros Hi H. destruct c as [| |j]; auto. simpl in *. destruct (Nat.eq_dec i j) as [->|Hne].
  - rewrite (set_nth_same _ _ _ _ Hi). reflexivity.
  - rewrite (set_nth_other _ _ _ _ Hne). exact H.
Qed.
Lemma tempo_tframe rt qk st org T i v : tframe st (fst (nrt_set_tempo rt qk st org T i v)).
Proof.
  unfold nrt_set_tempo. destruct (nth_error (n_tcs st) i) as [t|] eqn:Ei.
  2:{ simpl. eapply tframe_logonly; [reflexivity|reflexivity|reflexivity|intros; discriminate]. }
  destruct (tc_set_tempo t T v) as [t'|].
  2:{ simpl. eapply tframe_logonly; [reflexivity|reflexivity|reflexivity|intros; discriminate]. }
  simpl.
  set (st1 := set_f11 (set_tcs st (set_nth (n_tcs st) i t')) (n_f11 st || existsb (is_clock (CTempo i)) (n_q st))).
  set (st2 := match rt with None => if qk_tempo_frozen qk then st1 else retime st1 i | Some _ => st1 end).
  assert (Hlog : n_log st2 = n_log st) by (unfold st2; destruct rt; [reflexivity|]; destruct (qk_tempo_frozen qk); [reflexivity|]; destruct (retime_proj st1 i) as (HH & _); rewrite HH; reflexivity).
  assert (Htcs : n_tcs st2 = set_nth (n_tcs st) i t') by (unfold st2; destruct rt; [reflexivity|]; destruct (qk_tempo_frozen qk); [reflexivity|]; destruct (retime_proj st1 i) as (_ & _ & HH & _); rewrite HH; reflexivity).
  assert (Hq : forall e', In e' (n_q st2) -> exists e, In e (n_q st) /\ e_clock e' = e_clock e).
  { intros e' H. unfold st2 in H. destruct rt; [exists e'; auto|]. destruct (qk_tempo_frozen qk); [exists e'; auto|].
    destruct (retime_in _ _ _ H) as [[A _]|(e & A & B & _ & C & _)]; [exists e'; auto|]. exists e. split; auto. congruence. }
  unfold tframe. cbn [n_log n_tcs n_q add_log]. rewrite Hlog, Htcs. repeat split.
  - intros; simpl; auto.
  - intros rid k c s b [H|H]; [discriminate|exact H].
  - intros j t0 H. destruct (Nat.eq_dec i j) as [<-|Hne].
    + right. exists org, v. simpl. auto.
    + left. rewrite (set_nth_other _ _ _ _ Hne). exact H.
  - intros c H. eapply clock_ok_set; eauto.
  - intros e' H. left. apply Hq. exact H.
Qed.
Lemma run_acts_tframe rt qk p org T acts st cclk st' oc :
  run_acts rt qk p st org T cclk acts = (st', oc) -> tframe st st'.
Proof.
  apply run_acts_ind.
  - apply tframe_refl.
  - apply tframe_trans.
  - intros; apply send_tframe.
  - intros; apply sendmsg_tframe.
  - intros; apply play_tframe.
  - intros; apply tempo_tframe.
Qed.

(* ---- one wake-up (shared shape of nrt_wake and rt_wake) ---------------------------------------------- *)
Lemma sinv2_resume st rid k c T m : cvalid st -> tinv st -> clock_ok (n_tcs st) c = true ->
  sinv2 (add_log (set_mtime st m) (EvResume rid k c T (Qred (s2b (n_tcs st) c T)))).
Proof.
  intros Hc Ht Hok. split; [exact Hc|].
  intros rid' k' i s b [H|H] Hn.
  - inversion H; subst. simpl in Hok. cbn [n_tcs add_log set_mtime]. destruct (nth_error (n_tcs st) i) as [t|] eqn:E; [|discriminate].
    exists t. split; [reflexivity|]. rewrite Qred_correct. unfold s2b. rewrite E. reflexivity.
  - simpl. apply (Ht _ _ _ _ _ H). intros o v G. apply (Hn o v). simpl. auto.
Qed.
Lemma sinv2_add_end st rid k x : sinv2 st -> sinv2 (add_log st (EvEnd rid k x)).
Proof.
  intros [Hc Ht]. split; [exact Hc|]. intros rid' k' i s b [H|H] Hn; [discriminate|].
  simpl. apply (Ht _ _ _ _ _ H). intros o v G. apply (Hn o v). simpl. auto.
Qed.
Lemma sinv2_set_routs st r : sinv2 st -> sinv2 (set_routs st r).
Proof. intros H. exact H. Qed.
Lemma sinv2_push st t c rid b : sinv2 st -> clock_ok (n_tcs st) c = true -> sinv2 (push st t c rid b).
Proof.
  intros [Hc Ht] Hok. split; [|exact Ht]. intros e H. simpl in H. apply kinsert_in in H.
  destruct H as [->|H]; [simpl; exact Hok|simpl; apply Hc; exact H].
Qed.
Lemma sinv2_subq st q : sinv2 st -> (forall e, In e q -> In e (n_q st)) -> sinv2 (set_q st q).
Proof. intros [Hc Ht] Hs. split; [|exact Ht]. intros e H. apply Hc. apply Hs. exact H. Qed.

Lemma sinv2_nrt_wake qk p st e rest : n_q st = e :: rest -> sinv2 st -> sinv2 (nrt_wake qk p (set_q st rest) e).
Proof.
  intros Hq I. assert (Hce : clock_ok (n_tcs st) (e_clock e) = true) by (apply (proj1 I); rewrite Hq; left; reflexivity).
  assert (I0 : sinv2 (set_q st rest)) by (apply sinv2_subq; auto; intros x Hx; rewrite Hq; right; exact Hx).
  unfold nrt_wake. cbn [n_routs set_mtime set_q n_tcs].
  destruct (nth_error (n_routs st) (e_rid e)) as [r|]; [|exact I0].
  set (st1 := add_log (set_mtime (set_q st rest) (e_time e)) (EvResume (e_rid e) (r_k r) (e_clock e) (e_time e) (Qred (s2b (n_tcs st) (e_clock e) (e_time e))))).
  assert (I1 : sinv2 st1) by (apply (sinv2_resume (set_q st rest)); [apply I0|apply I0|exact Hce]).
  destruct (run_acts None qk p st1 (Some (e_rid e, r_k r)) (e_time e) (e_clock e) (r_rest r)) as [st2 oc] eqn:E.
  pose proof (run_acts_tframe _ _ _ _ _ _ _ _ _ _ E) as F. pose proof (tframe_sinv2 _ _ F I1) as I2.
  assert (Hc2 : clock_ok (n_tcs st2) (e_clock e) = true) by (destruct F as (_ & _ & _ & F4 & _); apply F4; exact Hce).
  destruct oc.
  - apply sinv2_push; [apply sinv2_set_routs; exact I2|exact Hc2].
  - apply sinv2_add_end. apply sinv2_set_routs. exact I2.
  - apply sinv2_add_end. apply sinv2_set_routs. exact I2.
Qed.
Lemma sinv2_nrt_loop qk p fuel : forall st, sinv2 st -> sinv2 (nrt_loop qk p fuel st).
Proof.
  induction fuel as [|f IH]; intros st I; simpl; auto.
  destruct (n_q st) as [|e rest] eqn:Eq; auto. apply IH. apply sinv2_nrt_wake; auto.
Qed.
Lemma sinv2_nrt_init p : sinv2 (nrt_init p).
Proof. split; [intros e []|intros rid k i s b []]. Qed.
Lemma sinv2_nrt_reach qk p fuel : sinv2 (nrt_loop qk p fuel (nrt_main qk p)).
Proof.
  apply sinv2_nrt_loop. unfold nrt_main.
  destruct (run_acts None qk p (nrt_init p) None 0 CSystem (p_main p)) as [st' oc] eqn:E. simpl.
  eapply tframe_sinv2; [eapply run_acts_tframe; exact E|apply sinv2_nrt_init].
Qed.

(* ---- real time ------------------------------------------------------------------------------------------ *)
Lemma pop_clock_in c : forall q e rest, pop_clock c q = Some (e, rest) ->
  In e q /\ (forall x, In x rest -> In x q) /\ e_clock e = c.
Proof.
  induction q as [|y q IH]; intros e rest H; simpl in H; [discriminate|].
  destruct (is_clock c y) eqn:E.
  - inversion H; subst. repeat split; simpl; auto. apply is_clock_true. exact E.
  - destruct (pop_clock c q) as [[x r']|] eqn:P; [|discriminate]. inversion H; subst.
    destruct (IH _ _ eq_refl) as (A & B & C). repeat split; simpl; auto.
    intros z [->|Hz]; auto.
Qed.
Lemma sinv2_rt_wake off p st e rest : In e (n_q st) -> (forall x, In x rest -> In x (n_q st)) -> sinv2 st ->
  sinv2 (rt_wake off p (set_q st rest) e).
Proof.
  intros He Hr I. assert (Hce : clock_ok (n_tcs st) (e_clock e) = true) by (apply (proj1 I); exact He).
  assert (I0 : sinv2 (set_q st rest)) by (apply sinv2_subq; auto).
  unfold rt_wake. cbn [n_routs set_mtime set_q n_tcs].
  destruct (nth_error (n_routs st) (e_rid e)) as [r|]; [|exact I0].
  set (T := Qred (b2s (n_tcs st) (e_clock e) (e_time e))).
  set (st1 := add_log (set_mtime (set_q st rest) T) (EvResume (e_rid e) (r_k r) (e_clock e) T (Qred (s2b (n_tcs st) (e_clock e) T)))).
  assert (I1 : sinv2 st1) by (apply (sinv2_resume (set_q st rest)); [apply I0|apply I0|exact Hce]).
  destruct (run_acts (Some off) repaired p st1 (Some (e_rid e, r_k r)) T (e_clock e) (r_rest r)) as [st2 oc] eqn:E.
  pose proof (run_acts_tframe _ _ _ _ _ _ _ _ _ _ E) as F. pose proof (tframe_sinv2 _ _ F I1) as I2.
  assert (Hc2 : clock_ok (n_tcs st2) (e_clock e) = true) by (destruct F as (_ & _ & _ & F4 & _); apply F4; exact Hce).
  destruct oc.
  - apply sinv2_push; [apply sinv2_set_routs; exact I2|exact Hc2].
  - apply sinv2_add_end. apply sinv2_set_routs. exact I2.
  - apply sinv2_add_end. apply sinv2_set_routs. exact I2.
Qed.
Lemma clock_ok_app tcs x c : clock_ok tcs c = true -> clock_ok (tcs ++ x) c = true.
Proof.
  destruct c as [| |i]; auto. simpl. destruct (nth_error tcs i) eqn:E; [|discriminate].
  intros _. rewrite nth_error_app1; [rewrite E; reflexivity|]. apply nth_error_Some. congruence.
Qed.
Opaque run_acts.
Lemma sinv2_rt_step off p s ch : sinv2 (rs s) -> sinv2 (rs (rt_step off p s ch)).
Proof.
  intros I. destruct ch as [t|t|rid t]; simpl.
  - destruct (rs_tempos s); simpl; auto. destruct I as [Hc Ht]. split.
    + intros e H. simpl in *. apply clock_ok_app. apply Hc. exact H.
    + intros rid k i s0 b H Hn. simpl in *. destruct (Ht _ _ _ _ _ H Hn) as (t0 & A & B). exists t0. split; auto.
      rewrite nth_error_app1; auto. apply nth_error_Some. congruence.
  - destruct (rs_tempos s); [|simpl; auto]. destruct (rs_main s) as [|a rest]; simpl; auto.
    destruct (run_acts (Some off) repaired p (set_mtime (rs s) (advance (rs_now s) t)) None
                (advance (rs_now s) t) CSystem [a]) as [st' oc] eqn:E. simpl.
    eapply tframe_sinv2; [eapply run_acts_tframe; exact E|exact I].
  - destruct (find_rid rid (n_q (rs s))) as [e0|]; simpl; auto.
    destruct (pop_clock (e_clock e0) (n_q (rs s))) as [[e rest]|] eqn:P; simpl; auto.
    destruct (Nat.eqb (e_rid e) rid); simpl; auto.
    destruct (pop_clock_in _ _ _ _ P) as (A & B & _). apply sinv2_rt_wake; auto.
Qed.
Transparent run_acts.
Lemma sinv2_rt_run off p sched : sinv2 (rs (rt_run off p sched)).
Proof.
  unfold rt_run. assert (G : sinv2 (rs (rt_init p))) by (split; [intros e []|intros rid k i s b []]).
  revert G. generalize (rt_init p). induction sched as [|ch l IH]; intros s G; simpl; auto.
  apply IH. apply sinv2_rt_step. exact G.
Qed.

(* ---- the seconds form -------------------------------------------------------------------------------- *)
Lemma secs_of_beats t s s0 b b0 : wf_tc t -> b == tc_s2b t s -> b0 == tc_s2b t s0 -> s == s0 + (b - b0) * t_bdur t.
Proof.
  intros [_ H] Hb Hb0. unfold tc_s2b in *. rewrite Hb, Hb0.
  setoid_replace ((s - t_bsecs t) * t_tempo t + t_bbeats t - ((s0 - t_bsecs t) * t_tempo t + t_bbeats t))
    with ((s - s0) * t_tempo t) by ring.
  setoid_replace ((s - s0) * t_tempo t * t_bdur t) with ((s - s0) * (t_bdur t * t_tempo t)) by ring.
  rewrite H. ring.
Qed.

Lemma seconds_sigma (rt : option Z) p st rid k i s b c0 s0 b0 : ginv p rt st -> sinv2 st ->
  In (EvResume rid k (CTempo i) s b) (n_log st) -> In (EvResume rid 0 c0 s0 b0) (n_log st) ->
  notempo i (n_log st) ->
  exists r t, nth_error (n_routs st) rid = Some r /\ nth_error (n_tcs st) i = Some t /\ 0 < 1 /\
              s == s0 + Qsum (firstn k (ys_of p r)) * t_bdur t /\ t_bdur t * t_tempo t == 1.
Proof.
  intros G [_ Ht] H1 H0 Hn.
  destruct (sigma_of_ginv rt p st _ _ _ _ _ _ _ _ G H1 H0) as (r & A & B & C & D & _).
  assert (Hc0 : c0 = CTempo i) by congruence. rewrite Hc0 in H0.
  destruct (Ht _ _ _ _ _ H1 Hn) as (t & E1 & E2). destruct (Ht _ _ _ _ _ H0 Hn) as (t' & E1' & E2').
  rewrite E1 in E1'. inversion E1'; subst t'.
  destruct G as (B0 & PI). pose proof (pi_wf _ _ _ _ _ PI) as W.
  assert (Wt : wf_tc t) by (unfold wf_tcs in W; rewrite Forall_forall in W; apply W; eapply nth_error_In; eauto).
  exists r, t. split; auto. split; auto. split; [reflexivity|]. split; [|apply Wt].
  rewrite (secs_of_beats t s s0 b b0 Wt E2 E2'). rewrite D. ring.
Qed.

Lemma seconds_sigma_nrt qk p fuel rid k i s b c0 s0 b0 :
  qk_app_abs qk = false -> qk_tempo_frozen qk = false ->
  let st := nrt_loop qk p fuel (nrt_main qk p) in
  In (EvResume rid k (CTempo i) s b) (n_log st) -> In (EvResume rid 0 c0 s0 b0) (n_log st) ->
  notempo i (n_log st) ->
  exists r t, nth_error (n_routs st) rid = Some r /\ nth_error (n_tcs st) i = Some t /\
              s == s0 + Qsum (firstn k (ys_of p r)) * t_bdur t /\ t_bdur t * t_tempo t == 1.
Proof.
  intros Ha Hf st H1 H0 Hn.
  assert (G : ginv p None st) by (apply nrt_reach_ginv; auto).
  destruct (seconds_sigma None p st _ _ _ _ _ _ _ _ G (sinv2_nrt_reach qk p fuel) H1 H0 Hn)
    as (r & t & A & B & _ & C & D).
  exists r, t. auto.
Qed.
Lemma seconds_sigma_rt off p sched rid k i s b c0 s0 b0 :
  let st := rs (rt_run off p sched) in
  In (EvResume rid k (CTempo i) s b) (n_log st) -> In (EvResume rid 0 c0 s0 b0) (n_log st) ->
  notempo i (n_log st) ->
  exists r t, nth_error (n_routs st) rid = Some r /\ nth_error (n_tcs st) i = Some t /\
              s == s0 + Qsum (firstn k (ys_of p r)) * t_bdur t /\ t_bdur t * t_tempo t == 1.
Proof.
  intros st H1 H0 Hn.
  assert (G : ginv p (Some off) st) by (apply rt_run_ginv).
  destruct (seconds_sigma (Some off) p st _ _ _ _ _ _ _ _ G (sinv2_rt_run off p sched) H1 H0 Hn)
    as (r & t & A & B & _ & C & D).
  exists r, t. auto.
Qed.

(* a decidable form of notempo, to instantiate the theorems on computed runs *)
Definition no_tempo_b (i : nat) (log : list event) : bool :=
  forallb (fun ev => match ev with EvTempo _ j _ true => negb (Nat.eqb j i) | _ => true end) log.
Lemma no_tempo_b_sound i log : no_tempo_b i log = true -> notempo i log.
Proof.
  intros H o v G. unfold no_tempo_b in H. rewrite forallb_forall in H. specialize (H _ G). simpl in H.
  rewrite Nat.eqb_refl in H. discriminate.
Qed.
